(* C01/ProofsComb.v — combinator algebra: what the sequential in-place loops of
   monadic / dyadic leave in the receiver, for every n, every order in {0,1,2},
   and EVERY aliasing of receiver and operands (c.Exp(c), c.Add(c,b), c.Mul(c,c)). *)
From Coq Require Import Reals ZArith List Bool Arith Lia Lra.
From ADV Require Import Base.Fl Base.Num C01.Model C01.ModelR C01.ProofsList.
Import ListNotations.
Open Scope R_scope.
Local Arguments Nat.leb : simpl never.
Local Arguments Nat.eqb : simpl never.
Local Arguments Nat.ltb : simpl never.

Section Comb.
Variable S : Special.
Notation F := (FlR S).
Notation StR := (@St R).
Notation gdR := (gd F).
Notation ghR := (gh F).
Notation hgetR := (hget F).

Definition square (n : nat) (h : list (list R)) : Prop :=
  length h = n /\ forall i, (i < n)%nat -> length (nth i h []) = n.
(* the storage invariant of a Go Real object *)
Definition wf (r : Reg R) : Prop :=
  ((1 <= rorder r)%nat -> length (rderiv r) = rn r) /\ ((2 <= rorder r)%nat -> square (rn r) (rhess r)).

Lemma rndk_id k v : rndk idR k v = v.
Proof. destruct k; reflexivity. Qed.

Lemma hget_hset_same n h i j v : square n h -> (i < n)%nat -> (j < n)%nat -> hgetR (hset h i j v) i j = v.
Proof.
  intros [Hl Hr] Hi Hj. unfold hget, hset.
  rewrite nth_upd_nth_same by lia. apply nth_upd_nth_same. rewrite Hr; auto.
Qed.

Lemma hget_hset_other h i j k l v : (i, j) <> (k, l) -> hgetR (hset h i j v) k l = hgetR h k l.
Proof.
  intros Hne. unfold hget, hset.
  destruct (Nat.eq_dec i k) as [E|E].
  - subst k. destruct (lt_dec i (length h)) as [Hi|Hi].
    + rewrite nth_upd_nth_same by auto. apply nth_upd_nth_other. congruence.
    + rewrite upd_nth_oob by lia. reflexivity.
  - rewrite nth_upd_nth_other by auto. reflexivity.
Qed.

Lemma square_hset n h i j v : square n h -> square n (hset h i j v).
Proof.
  intros [Hl Hr]. unfold hset. split.
  - rewrite length_upd_nth; auto.
  - intros k Hk. destruct (Nat.eq_dec i k) as [E|E].
    + subst k. rewrite nth_upd_nth_same by lia. rewrite length_upd_nth. auto.
    + rewrite nth_upd_nth_other by auto. auto.
Qed.

Lemma square_repeat n : square n (repeat (repeat (zero F) n) n).
Proof.
  split; [apply repeat_length|]. intros i Hi. rewrite nth_repeat_any by auto. apply repeat_length.
Qed.

Lemma upd_same (s : StR) c r : upd s c r c = r.
Proof. unfold upd. rewrite Nat.eqb_refl. reflexivity. Qed.
Lemma upd_other (s : StR) c r q : q <> c -> upd s c r q = s q.
Proof. intro H. unfold upd. destruct (Nat.eqb_spec q c); congruence. Qed.

(* ------------------------------------------------------------------ Hessian loop *)
Definition gen_hstep (c : nat) (val : StR -> nat -> nat -> R) (s : StR) (p : nat * nat) : StR :=
  let '(i, j) := p in
  let v := val s i j in
  let s1 := upd s c (set_h idR (s c) i j v) in
  upd s1 c (set_h idR (s1 c) j i (ghR (s1 c) i j)).

(* s1 is s except for the Hessian storage of c at positions in P *)
Definition hsim (c : nat) (P : nat -> nat -> Prop) (s s1 : StR) : Prop :=
  (forall q, q <> c -> s1 q = s q) /\
  rk (s1 c) = rk (s c) /\ rval (s1 c) = rval (s c) /\ rorder (s1 c) = rorder (s c) /\
  rn (s1 c) = rn (s c) /\ rderiv (s1 c) = rderiv (s c) /\
  forall k l, ~ P k l -> hgetR (rhess (s1 c)) k l = hgetR (rhess (s c)) k l.

Lemma hsim_refl c P s : hsim c P s s.
Proof. unfold hsim. repeat (split; [reflexivity|]). reflexivity. Qed.

Definition hstable (c : nat) (val : StR -> nat -> nat -> R) : Prop :=
  forall s s1 P k l, hsim c P s s1 -> ~ P k l -> val s1 k l = val s k l.

Lemma minmax_pair i j k l : (i <= j)%nat -> (Nat.min k l, Nat.max k l) = (i, j) -> (k, l) = (i, j) \/ (k, l) = (j, i).
Proof. intros H E. inversion E. destruct (le_lt_dec k l); [left|right]; f_equal; lia. Qed.

Lemma gh_set_h_same n (r : Reg R) i j v :
  (2 <= rorder r)%nat -> square n (rhess r) -> (i < n)%nat -> (j < n)%nat -> ghR (set_h idR r i j v) i j = v.
Proof.
  intros Ho Hsq Hi Hj. unfold gh, set_h. cbn [rorder rhess]. rewrite rndk_id.
  destruct (Nat.leb_spec 2 (rorder r)); [|lia]. apply (hget_hset_same n); auto.
Qed.

Lemma gen_hstep_c c val (s : StR) i j :
  gen_hstep c val s (i, j) c =
  set_h idR (set_h idR (s c) i j (val s i j)) j i (ghR (set_h idR (s c) i j (val s i j)) i j).
Proof. unfold gen_hstep. rewrite !upd_same. reflexivity. Qed.

Lemma gen_hstep_facts c val n s i j :
  (i <= j < n)%nat -> (2 <= rorder (s c))%nat -> square n (rhess (s c)) ->
  let s1 := gen_hstep c val s (i, j) in
  hsim c (fun k l => (k, l) = (i, j) \/ (k, l) = (j, i)) s s1 /\ square n (rhess (s1 c)) /\
  hgetR (rhess (s1 c)) i j = val s i j /\ hgetR (rhess (s1 c)) j i = val s i j.
Proof.
  intros Hij Ho Hsq. cbv zeta.
  assert (Hoth : forall q, q <> c -> gen_hstep c val s (i, j) q = s q).
  { intros q Hq. unfold gen_hstep. rewrite !upd_other by auto. reflexivity. }
  unfold hsim. rewrite gen_hstep_c. rewrite (gh_set_h_same n) by (auto; lia).
  set (v := val s i j).
  unfold set_h. cbn [rk rval rorder rn rderiv rhess]. rewrite !rndk_id.
  split; [|split; [|split]].
  - split; [exact Hoth|]. do 5 (split; [reflexivity|]).
    intros k l HP. rewrite !hget_hset_other; auto; intro E; apply HP; inversion E; auto.
  - apply square_hset, square_hset; apply Hsq.
  - destruct (Nat.eq_dec i j) as [E|E].
    + subst j. apply (hget_hset_same n); try lia. apply square_hset; auto.
    + rewrite hget_hset_other by congruence. apply (hget_hset_same n); auto; lia.
  - apply (hget_hset_same n); try lia. apply square_hset; auto.
Qed.

Lemma gen_hloop c val n (Hst : hstable c val) : forall ps s,
  NoDup ps -> (forall i j, In (i, j) ps -> (i <= j < n)%nat) ->
  (2 <= rorder (s c))%nat -> square n (rhess (s c)) ->
  let s' := fold_left (gen_hstep c val) ps s in
  hsim c (fun k l => In (Nat.min k l, Nat.max k l) ps) s s' /\ square n (rhess (s' c)) /\
  forall k l, In (Nat.min k l, Nat.max k l) ps -> hgetR (rhess (s' c)) k l = val s (Nat.min k l) (Nat.max k l).
Proof.
  induction ps as [|[i j] ps IH]; intros s Hnd Hb Ho Hsq; cbv zeta; cbn [fold_left].
  - split; [apply hsim_refl|]. split; [exact Hsq|]. intros k l [].
  - apply NoDup_cons_iff in Hnd. destruct Hnd as [Hnin Hnd'].
    assert (Hij : (i <= j < n)%nat) by (apply Hb; simpl; auto).
    destruct (gen_hstep_facts c val n s i j Hij Ho Hsq) as [Hs1 [Hsq1 [Hv1 Hv2]]].
    set (s1 := gen_hstep c val s (i, j)) in *.
    assert (Hs1' := Hs1).
    destruct Hs1 as [Ho1 [Hk1 [Hval1 [Hor1 [Hn1 [Hd1 Hh1]]]]]].
    destruct (IH s1 Hnd') as [Hs' [Hsq' Hv']].
    { intros a b Hin. apply Hb. simpl; auto. }
    { rewrite Hor1; auto. }
    { auto. }
    set (s' := fold_left (gen_hstep c val) ps s1) in *.
    destruct Hs' as [Ho' [Hk' [Hval' [Hor' [Hn' [Hd' Hh']]]]]].
    split; [|split].
    + unfold hsim. split; [intros q Hq; rewrite Ho', Ho1; auto|].
      split; [congruence|]. split; [congruence|]. split; [congruence|]. split; [congruence|]. split; [congruence|].
      intros k l HP. rewrite Hh'.
      * apply Hh1. intros [E|E]; apply HP; left; inversion E; subst.
        -- rewrite Nat.min_l, Nat.max_r by lia. reflexivity.
        -- rewrite Nat.min_r, Nat.max_l by lia. reflexivity.
      * intro Hin. apply HP. right. exact Hin.
    + exact Hsq'.
    + intros k l [E|Hin].
      * (* the pair processed first; never touched again *)
        assert (Hnin' : ~ In (Nat.min k l, Nat.max k l) ps) by (rewrite <- E; exact Hnin).
        rewrite Hh' by exact Hnin'.
        destruct (minmax_pair i j k l (proj1 Hij) (eq_sym E)) as [E2|E2]; inversion E2; subst;
          inversion E; congruence.
      * rewrite Hv' by exact Hin.
        apply (Hst s s1 (fun k l => (k, l) = (i, j) \/ (k, l) = (j, i))); [exact Hs1'|].
        intros [E|E].
        -- apply Hnin. rewrite <- E. exact Hin.
        -- inversion E as [[E1 E2]]. assert (Eij : i = j) by lia. apply Hnin.
           replace (i, j) with (Nat.min k l, Nat.max k l); [exact Hin|]. rewrite E1, E2. f_equal; lia.
Qed.

(* ------------------------------------------------------------------ gradient loop *)
Definition gen_gstep (c : nat) (val : StR -> nat -> R) (s : StR) (i : nat) : StR :=
  upd s c (set_d idR (s c) i (val s i)).

Definition dsim (c : nat) (P : nat -> Prop) (s s1 : StR) : Prop :=
  (forall q, q <> c -> s1 q = s q) /\
  rk (s1 c) = rk (s c) /\ rval (s1 c) = rval (s c) /\ rorder (s1 c) = rorder (s c) /\
  rn (s1 c) = rn (s c) /\ rhess (s1 c) = rhess (s c) /\ length (rderiv (s1 c)) = length (rderiv (s c)) /\
  forall k, ~ P k -> nth k (rderiv (s1 c)) (zero F) = nth k (rderiv (s c)) (zero F).

Lemma dsim_refl c P s : dsim c P s s.
Proof. unfold dsim. repeat (split; [reflexivity|]). reflexivity. Qed.

Definition dstable (c : nat) (val : StR -> nat -> R) : Prop :=
  forall s s1 P k, dsim c P s s1 -> ~ P k -> val s1 k = val s k.

Lemma gen_gloop c val n (Hst : dstable c val) : forall l s,
  NoDup l -> (forall i, In i l -> (i < n)%nat) -> length (rderiv (s c)) = n ->
  let s' := fold_left (gen_gstep c val) l s in
  dsim c (fun k => In k l) s s' /\
  forall k, In k l -> nth k (rderiv (s' c)) (zero F) = val s k.
Proof.
  induction l as [|i l IH]; intros s Hnd Hb Hlen; cbv zeta; cbn [fold_left].
  - split; [apply dsim_refl|]. intros k [].
  - apply NoDup_cons_iff in Hnd. destruct Hnd as [Hnin Hnd'].
    set (s1 := gen_gstep c val s i).
    assert (Hc1 : s1 c = set_d idR (s c) i (val s i)) by (unfold s1, gen_gstep; apply upd_same).
    assert (Hs1 : dsim c (fun k => k = i) s s1).
    { unfold dsim. rewrite Hc1. unfold set_d. cbn [rk rval rorder rn rderiv rhess].
      split; [intros q Hq; unfold s1, gen_gstep; apply upd_other; auto|].
      do 5 (split; [reflexivity|]). split; [apply length_upd_nth|].
      intros k Hk. apply nth_upd_nth_other. congruence. }
    assert (Hvi : nth i (rderiv (s1 c)) (zero F) = val s i).
    { rewrite Hc1. unfold set_d. cbn [rderiv]. rewrite rndk_id. apply nth_upd_nth_same.
      rewrite Hlen. apply Hb. simpl; auto. }
    assert (Hs1' := Hs1).
    destruct Hs1 as [Ho1 [Hk1 [Hval1 [Hor1 [Hn1 [Hh1 [Hl1 Hd1]]]]]]].
    destruct (IH s1 Hnd') as [Hs' Hv'].
    { intros a Ha. apply Hb; simpl; auto. }
    { rewrite Hl1; auto. }
    set (s' := fold_left (gen_gstep c val) l s1) in *.
    destruct Hs' as [Ho' [Hk' [Hval' [Hor' [Hn' [Hh' [Hl' Hd']]]]]]].
    split.
    + unfold dsim. split; [intros q Hq; rewrite Ho', Ho1; auto|].
      do 6 (split; [congruence|]).
      intros k HP. rewrite Hd'.
      * apply Hd1. intro E. apply HP. left. auto.
      * intro Hin. apply HP. right. auto.
    + intros k [E|Hin].
      * subst k. rewrite Hd' by exact Hnin. exact Hvi.
      * rewrite Hv' by exact Hin.
        apply (Hst s s1 (fun k => k = i)); [exact Hs1'|].
        intro E. subst. contradiction.
Qed.

(* ------------------------------------------------------------------ reads of operands *)
Lemma rd_upd_other (s : StR) c r (a : opd R) : (forall k, a = Rg k -> k <> c) -> rd (upd s c r) a = rd s a.
Proof. intros H. destruct a as [k|v]; simpl; auto. apply upd_other. apply H; auto. Qed.

Lemma gd_hsim c P s s1 (a : opd R) i : hsim c P s s1 -> gdR (rd s1 a) i = gdR (rd s a) i.
Proof.
  intros [Ho [Hk [Hv [Hor [Hn [Hd Hh]]]]]]. destruct a as [q|v]; simpl; auto.
  destruct (Nat.eq_dec q c) as [E|E]; [subst q|rewrite Ho; auto].
  unfold gd. rewrite Hor, Hd. reflexivity.
Qed.
Lemma gh_hsim c P s s1 (a : opd R) k l : hsim c P s s1 -> ~ P k l -> ghR (rd s1 a) k l = ghR (rd s a) k l.
Proof.
  intros [Ho [Hk [Hv [Hor [Hn [Hd Hh]]]]]] HP. destruct a as [q|v]; simpl; auto.
  destruct (Nat.eq_dec q c) as [E|E]; [subst q|rewrite Ho; auto].
  unfold gh. rewrite Hor. destruct (2 <=? rorder (s c))%nat; auto.
Qed.
Lemma gd_dsim c P s s1 (a : opd R) k : dsim c P s s1 -> ~ P k -> gdR (rd s1 a) k = gdR (rd s a) k.
Proof.
  intros [Ho [Hk [Hv [Hor [Hn [Hh [Hl Hd]]]]]]] HP. destruct a as [q|v]; simpl; auto.
  destruct (Nat.eq_dec q c) as [E|E]; [subst q|rewrite Ho; auto].
  unfold gd. rewrite Hor. destruct (1 <=? rorder (s c))%nat; auto.
Qed.

(* ------------------------------------------------------------------ Alloc *)
Lemma wf_alloc r n o : wf r -> wf (alloc F r n o).
Proof.
  intros Hw. unfold alloc. destruct (Nat.eqb (rn r) n && Nat.eqb (rorder r) o); auto.
  split; simpl; intro Ho.
  - destruct (Nat.leb_spec 1 o); [|lia]. apply repeat_length.
  - destruct (Nat.leb_spec 1 o); [|lia]. destruct (Nat.leb_spec 2 o); [|lia]. apply square_repeat.
Qed.
Lemma alloc_n r n o : rn (alloc F r n o) = n.
Proof.
  unfold alloc. destruct (Nat.eqb_spec (rn r) n); simpl; auto.
  destruct (Nat.eqb_spec (rorder r) o); simpl; auto.
Qed.
Lemma alloc_order r n o : rorder (alloc F r n o) = o.
Proof.
  unfold alloc. destruct (Nat.eqb_spec (rn r) n); simpl; auto.
  destruct (Nat.eqb_spec (rorder r) o); simpl; auto.
Qed.
Lemma alloc_kv r n o : rk (alloc F r n o) = rk r /\ rval (alloc F r n o) = rval r.
Proof. unfold alloc. destruct (Nat.eqb (rn r) n && Nat.eqb (rorder r) o); simpl; auto. Qed.
Lemma alloc_noop r : alloc F r (rn r) (rorder r) = r.
Proof. unfold alloc. rewrite !Nat.eqb_refl. reflexivity. Qed.
(* ------------------------------------------------------------------ monadic *)
Definition mon_val (a : opd R) (v1 v2 : R) (s : StR) (i j : nat) : R :=
  gdR (rd s a) i * gdR (rd s a) j * v2 + ghR (rd s a) i j * v1.
Definition mon_gval (a : opd R) (v1 : R) (s : StR) (i : nat) : R := gdR (rd s a) i * v1.

Lemma mon_hstep_gen c a v1 v2 : mon_hstep F idR c a v1 v2 = gen_hstep c (mon_val a v1 v2).
Proof. reflexivity. Qed.
Lemma mon_gstep_gen c a v1 : mon_gstep F idR c a v1 = gen_gstep c (mon_gval a v1).
Proof. reflexivity. Qed.

Lemma mon_val_stable c a v1 v2 : hstable c (mon_val a v1 v2).
Proof.
  intros s s1 P k l Hs HP. unfold mon_val.
  rewrite !(gd_hsim c P s s1 a _ Hs), (gh_hsim c P s s1 a k l Hs HP). reflexivity.
Qed.
Lemma mon_gval_stable c a v1 : dstable c (mon_gval a v1).
Proof. intros s s1 P k Hs HP. unfold mon_gval. rewrite (gd_dsim c P s s1 a k Hs HP). reflexivity. Qed.

(* operands as seen after the receiver has been (re)allocated for them *)
Lemma rd_alloc_for_one c (a : opd R) s : rd (alloc_for_one F c a s) a = rd s a.
Proof.
  unfold alloc_for_one. destruct a as [q|v]; simpl; auto.
  destruct (Nat.eq_dec q c) as [E|E]; [subst q|apply upd_other; auto].
  rewrite upd_same. apply alloc_noop.
Qed.

Definition sym_reg (r : Reg R) : Prop := forall i j, ghR r i j = ghR r j i.

(* the state after the two loops, before the value is written *)
Definition mon_body c a v1 v2 (s0 : StR) : StR :=
  let o := rorder (s0 c) in let n := rn (s0 c) in
  if (1 <=? o)%nat then
    fold_left (mon_gstep F idR c a v1) (seq 0 n)
      (if (2 <=? o)%nat then fold_left (mon_hstep F idR c a v1 v2) (upairs n) s0 else s0)
  else s0.
Lemma monadic_unfold c a v0 v1 v2 s :
  monadic F idR c a v0 v1 v2 s =
  let s0 := alloc_for_one F c a s in let sg := mon_body c a v1 v2 s0 in Ok (upd sg c (set_v idR (sg c) v0)).
Proof. reflexivity. Qed.

Lemma gd_set_v r v i : gdR (set_v idR r v) i = gdR r i. Proof. reflexivity. Qed.
Lemma gh_set_v r v i j : ghR (set_v idR r v) i j = ghR r i j. Proof. reflexivity. Qed.
Lemma wf_set_v r v : wf r -> wf (set_v idR r v). Proof. intro H. exact H. Qed.

(* generic two-phase lemma shared by monadic and dyadic *)
Lemma body_spec c (hval : StR -> nat -> nat -> R) (gval : StR -> nat -> R) (s0 : StR) :
  hstable c hval -> dstable c gval ->
  (forall P s s1 i, hsim c P s s1 -> gval s1 i = gval s i) ->
  wf (s0 c) ->
  let o := rorder (s0 c) in let n := rn (s0 c) in
  let sg := if (1 <=? o)%nat then
              fold_left (gen_gstep c gval) (seq 0 n)
                (if (2 <=? o)%nat then fold_left (gen_hstep c hval) (upairs n) s0 else s0)
            else s0 in
  (forall q, q <> c -> sg q = s0 q) /\ rk (sg c) = rk (s0 c) /\ rval (sg c) = rval (s0 c) /\
  rorder (sg c) = o /\ rn (sg c) = n /\ wf (sg c) /\
  ((1 <= o)%nat -> forall i, (i < n)%nat -> gdR (sg c) i = gval s0 i) /\
  ((2 <= o)%nat -> forall i j, (i < n)%nat -> (j < n)%nat -> ghR (sg c) i j = hval s0 (Nat.min i j) (Nat.max i j)).
Proof.
  intros Hhst Hdst Hgh Hw0 o n. cbv zeta.
  destruct (Nat.leb_spec 1 o) as [H1|H1].
  2:{ split; [auto|]. do 4 (split; [reflexivity|]). split; [exact Hw0|]. split; intros; lia. }
  set (sh := if (2 <=? o)%nat then fold_left (gen_hstep c hval) (upairs n) s0 else s0).
  assert (Hsh : hsim c (fun k l => (2 <= o)%nat /\ (k < n)%nat /\ (l < n)%nat) s0 sh /\
                ((2 <= o)%nat -> square n (rhess (sh c)) /\
                   forall k l, (k < n)%nat -> (l < n)%nat ->
                     hgetR (rhess (sh c)) k l = hval s0 (Nat.min k l) (Nat.max k l))).
  { unfold sh. destruct (Nat.leb_spec 2 o) as [H2|H2].
    - destruct (gen_hloop c hval n Hhst (upairs n) s0) as [Hs [Hsq Hv]].
      + apply NoDup_upairs.
      + intros i j Hin. apply in_upairs; auto.
      + exact H2.
      + destruct Hw0 as [_ Hw0]. apply Hw0. exact H2.
      + split.
        * destruct Hs as [Q1 [Q2 [Q3 [Q4 [Q5 [Q6 Q7]]]]]]. unfold hsim. do 6 (split; [assumption|]).
          intros k l HP. apply Q7. intro Hin. apply in_upairs in Hin. apply HP. split; [exact H2|]. lia.
        * intros _. split; [exact Hsq|]. intros k l Hk Hl. apply Hv. apply in_upairs. lia.
    - split; [apply hsim_refl|intros; lia]. }
  destruct Hsh as [Hsim Hhv].
  assert (Hsim' := Hsim).
  destruct Hsim as [P1 [P2 [P3 [P4 [P5 [P6 P7]]]]]].
  assert (Hlen : length (rderiv (sh c)) = n).
  { rewrite P6. destruct Hw0 as [Hw0 _]. apply Hw0. exact H1. }
  destruct (gen_gloop c gval n Hdst (seq 0 n) sh) as [Hgs Hgv].
  { apply seq_NoDup. } { intros i Hi. apply in_seq in Hi. lia. } { exact Hlen. }
  set (sg := fold_left (gen_gstep c gval) (seq 0 n) sh) in *.
  destruct Hgs as [G1 [G2 [G3 [G4 [G5 [G6 [G7 G8]]]]]]].
  split; [intros q Hq; rewrite G1, P1; auto|].
  split; [congruence|]. split; [congruence|]. split; [unfold o; congruence|]. split; [unfold n; congruence|].
  split.
  { split.
    - intros _. rewrite G7, G5, P5. exact Hlen.
    - intros H2. rewrite G4, P4 in H2. rewrite G6, G5, P5. apply Hhv. exact H2. }
  split.
  - intros _ i Hi. unfold gd. rewrite G4, P4. fold o. destruct (Nat.leb_spec 1 o); [|lia].
    rewrite Hgv by (apply in_seq; lia). apply (Hgh _ s0 sh i Hsim').
  - intros H2 i j Hi Hj. unfold gh. rewrite G4, P4. fold o. destruct (Nat.leb_spec 2 o); [|lia].
    rewrite G6. apply Hhv; auto.
Qed.

Theorem monadic_spec c a v0 v1 v2 (s : StR) :
  wf (s c) -> wf (rd s a) -> sym_reg (rd s a) ->
  exists s', monadic F idR c a v0 v1 v2 s = Ok s' /\
    (forall q, q <> c -> s' q = s q) /\
    rk (s' c) = rk (s c) /\ rval (s' c) = v0 /\
    rorder (s' c) = rorder (rd s a) /\ rn (s' c) = rn (rd s a) /\ wf (s' c) /\
    (forall i, (i < rn (rd s a))%nat -> gdR (s' c) i = gdR (rd s a) i * v1) /\
    ((2 <= rorder (rd s a))%nat -> forall i j, (i < rn (rd s a))%nat -> (j < rn (rd s a))%nat ->
       ghR (s' c) i j = gdR (rd s a) i * gdR (rd s a) j * v2 + ghR (rd s a) i j * v1).
Proof.
  intros Hwc Hwa Hsym.
  rewrite monadic_unfold. cbv zeta.
  set (s0 := alloc_for_one F c a s).
  set (A := rd s a) in *.
  assert (HA0 : rd s0 a = A) by apply rd_alloc_for_one.
  assert (Hc0 : s0 c = alloc F (s c) (rn A) (rorder A)) by (unfold s0, alloc_for_one; apply upd_same).
  assert (Hn0 : rn (s0 c) = rn A) by (rewrite Hc0; apply alloc_n).
  assert (Ho0 : rorder (s0 c) = rorder A) by (rewrite Hc0; apply alloc_order).
  assert (Hw0 : wf (s0 c)) by (rewrite Hc0; apply wf_alloc; auto).
  assert (Hoth0 : forall q, q <> c -> s0 q = s q) by (intros q Hq; unfold s0, alloc_for_one; apply upd_other; auto).
  assert (Hk0 : rk (s0 c) = rk (s c)) by (rewrite Hc0; apply alloc_kv).
  destruct (body_spec c (mon_val a v1 v2) (mon_gval a v1) s0 (mon_val_stable c a v1 v2) (mon_gval_stable c a v1))
    as [B1 [B2 [B3 [B4 [B5 [B6 [B7 B8]]]]]]].
  { intros P t t1 i Hs. unfold mon_gval. rewrite (gd_hsim c P t t1 a i Hs). reflexivity. }
  { exact Hw0. }
  change (mon_body c a v1 v2 s0) with
    (let o := rorder (s0 c) in let n := rn (s0 c) in
     if (1 <=? o)%nat then fold_left (gen_gstep c (mon_gval a v1)) (seq 0 n)
        (if (2 <=? o)%nat then fold_left (gen_hstep c (mon_val a v1 v2)) (upairs n) s0 else s0) else s0).
  cbv zeta in *.
  match goal with |- context [upd ?X c (set_v idR (?X c) v0)] => set (sg := X) in * end.
  eexists. split; [reflexivity|].
  split; [intros q Hq; rewrite upd_other by auto; rewrite B1, Hoth0; auto|].
  rewrite upd_same.
  split; [cbn [set_v rk]; congruence|].
  split; [cbn [set_v rval]; apply rndk_id|].
  split; [cbn [set_v rorder]; congruence|].
  split; [cbn [set_v rn]; congruence|].
  split; [apply wf_set_v; exact B6|].
  split.
  - intros i Hi. rewrite gd_set_v.
    destruct (le_lt_dec 1 (rorder A)) as [H1|H1].
    + rewrite B7 by (rewrite ?Ho0, ?Hn0; auto). unfold mon_gval. rewrite HA0. reflexivity.
    + unfold gd. rewrite B4, Ho0. fold A. destruct (Nat.leb_spec 1 (rorder A)); [lia|]. unfold zero, lit; simpl. ring.
  - intros H2 i j Hi Hj. rewrite gh_set_v. rewrite B8 by (rewrite ?Ho0, ?Hn0; auto).
    unfold mon_val. rewrite HA0.
    destruct (le_lt_dec i j) as [L|L].
    + rewrite Nat.min_l, Nat.max_r by lia. reflexivity.
    + rewrite Nat.min_r, Nat.max_l by lia. rewrite (Hsym j i). ring.
Qed.

(* ------------------------------------------------------------------ dyadic *)
Definition dy_val (a b : opd R) (v10 v01 v11 v20 v02 : R) (s : StR) (i j : nat) : R :=
  ghR (rd s a) i j * v10 + ghR (rd s b) i j * v01
  + gdR (rd s a) i * gdR (rd s a) j * v20 + gdR (rd s b) i * gdR (rd s b) j * v02
  + gdR (rd s a) i * gdR (rd s b) j * v11 + gdR (rd s b) i * gdR (rd s a) j * v11.
Definition dy_gval (a b : opd R) (v10 v01 : R) (s : StR) (i : nat) : R :=
  gdR (rd s a) i * v10 + gdR (rd s b) i * v01.

Lemma dy_hstep_gen c a b v10 v01 v11 v20 v02 :
  dy_hstep F idR c a b v10 v01 v11 v20 v02 = gen_hstep c (dy_val a b v10 v01 v11 v20 v02).
Proof. reflexivity. Qed.
Lemma dy_gstep_gen c a b v10 v01 : dy_gstep F idR c a b v10 v01 = gen_gstep c (dy_gval a b v10 v01).
Proof. reflexivity. Qed.
Lemma dy_val_stable c a b v10 v01 v11 v20 v02 : hstable c (dy_val a b v10 v01 v11 v20 v02).
Proof.
  intros s s1 P k l Hs HP. unfold dy_val.
  rewrite !(gd_hsim c P s s1 a _ Hs), !(gd_hsim c P s s1 b _ Hs),
          (gh_hsim c P s s1 a k l Hs HP), (gh_hsim c P s s1 b k l Hs HP). reflexivity.
Qed.
Lemma dy_gval_stable c a b v10 v01 : dstable c (dy_gval a b v10 v01).
Proof.
  intros s s1 P k Hs HP. unfold dy_gval.
  rewrite (gd_dsim c P s s1 a k Hs HP), (gd_dsim c P s s1 b k Hs HP). reflexivity.
Qed.

(* What the operands look like once the receiver has been allocated for both:
   unchanged, or — the receiver is itself an operand of smaller N / lower order
   (x.Add(x,y), F-ALLOC of DESIGN §4, property C08) — cleared.  The combinator
   theorem below is stated for the first case. *)
Definition alloc_keeps (c : nat) (a b : opd R) (s : StR) : Prop :=
  forall k, (a = Rg k \/ b = Rg k) -> k = c ->
    rn (s c) = Nat.max (rn (rd s a)) (rn (rd s b)) /\ rorder (s c) = Nat.max (rorder (rd s a)) (rorder (rd s b)).

Lemma rd_alloc_for_two c (a b x : opd R) s :
  alloc_keeps c a b s -> (x = a \/ x = b) -> rd (alloc_for_two F c a b s) x = rd s x.
Proof.
  intros Hk Hx. unfold alloc_for_two. destruct x as [q|v]; simpl; auto.
  destruct (Nat.eq_dec q c) as [E|E]; [subst q|apply upd_other; auto].
  rewrite upd_same. destruct (Hk c) as [E1 E2]; auto.
  { destruct Hx; subst; auto. }
  rewrite <- E1, <- E2. apply alloc_noop.
Qed.

Definition dy_body c a b v10 v01 v11 v20 v02 (s0 : StR) : StR :=
  let o := rorder (s0 c) in let n := rn (s0 c) in
  if (1 <=? o)%nat then
    fold_left (dy_gstep F idR c a b v10 v01) (seq 0 n)
      (if (2 <=? o)%nat then fold_left (dy_hstep F idR c a b v10 v01 v11 v20 v02) (upairs n) s0 else s0)
  else s0.
Lemma dyadic_unfold c a b v0 v10 v01 v11 v20 v02 s :
  dyadic F idR c a b v0 v10 v01 v11 v20 v02 s =
  let s0 := alloc_for_two F c a b s in
  match dy_guard (rd s0 a) (rd s0 b) with
  | Some e => Panic e
  | None => let sg := dy_body c a b v10 v01 v11 v20 v02 s0 in
            Ok (upd sg c (set_v idR (sg c) v0))
  end.
Proof. unfold dyadic, dyadic_lazy. cbv zeta. destruct (dy_guard _ _); reflexivity. Qed.

Theorem dyadic_spec c a b v0 v10 v01 v11 v20 v02 (s : StR) :
  wf (s c) -> wf (rd s a) -> wf (rd s b) -> sym_reg (rd s a) -> sym_reg (rd s b) ->
  dy_guard (rd s a) (rd s b) = None -> alloc_keeps c a b s ->
  let n := Nat.max (rn (rd s a)) (rn (rd s b)) in
  let o := Nat.max (rorder (rd s a)) (rorder (rd s b)) in
  exists s', dyadic F idR c a b v0 v10 v01 v11 v20 v02 s = Ok s' /\
    (forall q, q <> c -> s' q = s q) /\
    rk (s' c) = rk (s c) /\ rval (s' c) = v0 /\ rorder (s' c) = o /\ rn (s' c) = n /\ wf (s' c) /\
    (forall i, (i < n)%nat -> gdR (s' c) i = gdR (rd s a) i * v10 + gdR (rd s b) i * v01) /\
    ((2 <= o)%nat -> forall i j, (i < n)%nat -> (j < n)%nat ->
       ghR (s' c) i j = ghR (rd s a) i j * v10 + ghR (rd s b) i j * v01
                        + gdR (rd s a) i * gdR (rd s a) j * v20 + gdR (rd s b) i * gdR (rd s b) j * v02
                        + gdR (rd s a) i * gdR (rd s b) j * v11 + gdR (rd s b) i * gdR (rd s a) j * v11).
Proof.
  intros Hwc Hwa Hwb Hsa Hsb Hguard Hkeep n o.
  rewrite dyadic_unfold. cbv zeta.
  set (s0 := alloc_for_two F c a b s).
  set (A := rd s a) in *. set (B := rd s b) in *.
  assert (HA0 : rd s0 a = A) by (apply rd_alloc_for_two; auto).
  assert (HB0 : rd s0 b = B) by (apply rd_alloc_for_two; auto).
  rewrite HA0, HB0, Hguard.
  assert (Hc0 : s0 c = alloc F (s c) n o) by (unfold s0, alloc_for_two; apply upd_same).
  assert (Hn0 : rn (s0 c) = n) by (rewrite Hc0; apply alloc_n).
  assert (Ho0 : rorder (s0 c) = o) by (rewrite Hc0; apply alloc_order).
  assert (Hw0 : wf (s0 c)) by (rewrite Hc0; apply wf_alloc; auto).
  assert (Hoth0 : forall q, q <> c -> s0 q = s q) by (intros q Hq; unfold s0, alloc_for_two; apply upd_other; auto).
  assert (Hk0 : rk (s0 c) = rk (s c)) by (rewrite Hc0; apply alloc_kv).
  destruct (body_spec c (dy_val a b v10 v01 v11 v20 v02) (dy_gval a b v10 v01) s0
              (dy_val_stable c a b v10 v01 v11 v20 v02) (dy_gval_stable c a b v10 v01))
    as [B1 [B2 [B3 [B4 [B5 [B6 [B7 B8]]]]]]].
  { intros P t t1 i Hs. unfold dy_gval. rewrite (gd_hsim c P t t1 a i Hs), (gd_hsim c P t t1 b i Hs). reflexivity. }
  { exact Hw0. }
  change (dy_body c a b v10 v01 v11 v20 v02 s0) with
    (let o := rorder (s0 c) in let n := rn (s0 c) in
     if (1 <=? o)%nat then fold_left (gen_gstep c (dy_gval a b v10 v01)) (seq 0 n)
        (if (2 <=? o)%nat then fold_left (gen_hstep c (dy_val a b v10 v01 v11 v20 v02)) (upairs n) s0 else s0) else s0).
  cbv zeta in *.
  match goal with |- context [upd ?X c (set_v idR (?X c) v0)] => set (sg := X) in * end.
  eexists. split; [reflexivity|].
  split; [intros q Hq; rewrite upd_other by auto; rewrite B1, Hoth0; auto|].
  rewrite upd_same.
  split; [cbn [set_v rk]; congruence|].
  split; [cbn [set_v rval]; apply rndk_id|].
  split; [cbn [set_v rorder]; congruence|].
  split; [cbn [set_v rn]; congruence|].
  split; [apply wf_set_v; exact B6|].
  split.
  - intros i Hi. rewrite gd_set_v.
    destruct (le_lt_dec 1 o) as [H1|H1].
    + rewrite B7 by (rewrite ?Ho0, ?Hn0; auto). unfold dy_gval. rewrite HA0, HB0. reflexivity.
    + unfold gd. rewrite B4, Ho0.
      assert (rorder A = 0%nat) by (unfold o in *; lia). assert (rorder B = 0%nat) by (unfold o in *; lia).
      destruct (Nat.leb_spec 1 o); [lia|]. rewrite H, H0.
      destruct (Nat.leb_spec 1 0); [lia|]. unfold zero, lit; simpl. ring.
  - intros H2 i j Hi Hj. rewrite gh_set_v. rewrite B8 by (rewrite ?Ho0, ?Hn0; auto).
    unfold dy_val. rewrite HA0, HB0.
    destruct (le_lt_dec i j) as [L|L].
    + rewrite Nat.min_l, Nat.max_r by lia. reflexivity.
    + rewrite Nat.min_r, Nat.max_l by lia. rewrite (Hsa j i), (Hsb j i). ring.
Qed.

(* the result Hessian is symmetric (from the formulas) *)
Corollary monadic_result_symmetric c a v0 v1 v2 (s s' : StR) :
  wf (s c) -> wf (rd s a) -> sym_reg (rd s a) -> monadic F idR c a v0 v1 v2 s = Ok s' ->
  forall i j, (i < rn (s' c))%nat -> (j < rn (s' c))%nat -> ghR (s' c) i j = ghR (s' c) j i.
Proof.
  intros Hwc Hwa Hsym Hrun i j Hi Hj.
  destruct (monadic_spec c a v0 v1 v2 s Hwc Hwa Hsym) as [s2 [E [_ [_ [_ [Ho [Hn [_ [_ Hh]]]]]]]]].
  rewrite Hrun in E. inversion E; subst s2. rewrite Hn in *.
  destruct (le_lt_dec 2 (rorder (rd s a))) as [H2|H2].
  - rewrite !Hh by auto. rewrite (Hsym i j). ring.
  - unfold gh. rewrite Ho. destruct (Nat.leb_spec 2 (rorder (rd s a))); [lia|reflexivity].
Qed.

End Comb.
