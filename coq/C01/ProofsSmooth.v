(* C01/ProofsSmooth.v — SmoothMax on the model:  r = (sum_i x_i exp(alpha x_i)) / (sum_i exp(alpha x_i)),
   two accumulators (r and t1) and one scratch register (t0), any admissible shape of the three (reused or
   fresh).  The receiver ends with the jet-algebra value of that formula on the element jets. *)
From Coq Require Import Reals ZArith QArith Qreals List Bool Arith Lia Lra.
From Coquelicot Require Import Coquelicot.
From ADV Require Import Base.Fl Base.Num C01.Model C01.ModelR C01.Spec C01.ProofsList C01.ProofsComb C01.ProofsStore
     C01.ProofsOps C01.ProofsCoef C01.ProofsProg C01.ModelVariants C01.ProofsAlias C01.ProofsRed.
Import ListNotations.
Open Scope R_scope.
Local Arguments Nat.leb : simpl never.
Local Arguments Nat.eqb : simpl never.
Local Arguments Nat.ltb : simpl never.

Section Smooth.
Variable S : Special.
Notation F := (FlR S).
Notation StR := (@St R).

Definition jexp (A : jet) : jet := jmon (m_v0 F OExp (jv A)) (m_f1 F OExp (jv A)) (m_f2 F OExp (jv A)) A.
Definition jdiv (A B : jet) : jet :=
  jdy (d_v0 F ODiv (jv A) (jv B)) (d_f10 F ODiv (jv A) (jv B)) (d_f01 F ODiv (jv A) (jv B))
      (d_f11 F ODiv (jv A) (jv B)) (d_f20 F ODiv (jv A) (jv B)) (d_f02 F ODiv (jv A) (jv B)) A B.
(* exp(alpha * X) *)
Definition jw (alpha : R) (X : jet) : jet := jexp (jmul S (jconst alpha) X).

Definition frame3 (r t0 t1 : nat) (s s' : StR) : Prop := forall q, q <> r -> q <> t0 -> q <> t1 -> s' q = s q.
Definition elt3 (n o r t0 t1 : nat) (x : opd R) (J : jet) (s : StR) : Prop :=
  rep S n o (rd s x) J /\ not_reg x r /\ not_reg x t0 /\ not_reg x t1.
Lemma elt3_stable n o r t0 t1 x J s s' : frame3 r t0 t1 s s' -> elt3 n o r t0 t1 x J s -> elt3 n o r t0 t1 x J s'.
Proof.
  intros Fr [R [Hr [H0 H1]]]. split; [|auto].
  destruct x as [k|v]; cbn [rd] in *; [|exact R].
  rewrite Fr; [exact R|apply Hr; reflexivity|apply H0; reflexivity|apply H1; reflexivity].
Qed.

Lemma smooth_loop n o r t0 t1 alpha : r <> t0 -> r <> t1 -> t0 <> t1 ->
  forall its (s : StR) AccR AccT,
  rep S n o (s r) AccR -> rep S n o (s t1) AccT -> wf (s t0) ->
  List.Forall (fun i => elt3 n o r t0 t1 (fst i) (snd i) s) its ->
  exists s', seqm (flat_map (fun x => [do_dy F idR OMul t0 (Im alpha) x; do_mon F idR OExp t0 (Rg t0);
                                        do_dy F idR OAdd t1 (Rg t1) (Rg t0); do_dy F idR OMul t0 (Rg t0) x;
                                        do_dy F idR OAdd r (Rg r) (Rg t0)]) (map fst its)) s = Ok s' /\
    frame3 r t0 t1 s s' /\
    rep S n o (s' r) (fold_left (fun acc i => jadd S acc (jmul S (jw alpha (snd i)) (snd i))) its AccR) /\
    rep S n o (s' t1) (fold_left (fun acc i => jadd S acc (jw alpha (snd i))) its AccT).
Proof.
  intros N1 N2 N3. induction its as [|[x X] its IH]; intros s AccR AccT RR RT W0 HF; cbn [map flat_map fold_left fst snd].
  - exists s. split; [apply seqm_nil|]. split; [intros q _ _ _; reflexivity|]. auto.
  - inversion HF as [|i0 l0 [RX [Hxr [Hx0 Hx1]]] HF']; subst. cbn [fst snd] in *.
    (* t0 = alpha * x *)
    destruct (rep_dy_any S n o OMul t0 (Im alpha) x s _ _ W0 (rep_im S n o s alpha) RX) as [s1 [E1 [F1 [_ [R1 _]]]]].
    (* t0 = exp t0 *)
    destruct (rep_mon S n o OExp t0 (Rg t0) s1 _ (rep_wf S _ _ _ _ R1) R1) as [s2 [E2 [F2 [_ [R2 _]]]]].
    (* t1 += t0 *)
    assert (Ht1 : s2 t1 = s t1) by (rewrite F2, F1; auto).
    assert (RT2 : rep S n o (rd s2 (Rg t1)) AccT) by (cbn [rd]; rewrite Ht1; exact RT).
    destruct (rep_dy_any S n o OAdd t1 (Rg t1) (Rg t0) s2 _ _ ltac:(rewrite Ht1; exact (rep_wf S _ _ _ _ RT)) RT2 R2)
      as [s3 [E3 [F3 [_ [R3 _]]]]].
    (* t0 = t0 * x *)
    assert (Ht03 : s3 t0 = s2 t0) by (apply F3; auto).
    assert (R23 : rep S n o (rd s3 (Rg t0)) (jw alpha X)) by (cbn [rd]; rewrite Ht03; exact R2).
    assert (RX3 : rep S n o (rd s3 x) X).
    { destruct x as [k|v]; cbn [rd] in *; [|exact RX]. rewrite F3, F2, F1; [exact RX| | |];
        [apply Hx0|apply Hx0|apply Hx1]; reflexivity. }
    destruct (rep_dy_any S n o OMul t0 (Rg t0) x s3 _ _ ltac:(rewrite Ht03; exact (rep_wf S _ _ _ _ R2)) R23 RX3)
      as [s4 [E4 [F4 [_ [R4 _]]]]].
    (* r += t0 *)
    assert (Hr4 : s4 r = s r) by (rewrite F4, F3, F2, F1; auto).
    assert (RR4 : rep S n o (rd s4 (Rg r)) AccR) by (cbn [rd]; rewrite Hr4; exact RR).
    destruct (rep_dy_any S n o OAdd r (Rg r) (Rg t0) s4 _ _ ltac:(rewrite Hr4; exact (rep_wf S _ _ _ _ RR)) RR4 R4)
      as [s5 [E5 [F5 [_ [R5 _]]]]].
    assert (Fr5 : frame3 r t0 t1 s s5).
    { intros q Q1 Q2 Q3. rewrite F5, F4, F3, F2, F1; auto. }
    assert (RT5 : rep S n o (s5 t1) (jadd S AccT (jw alpha X))) by (rewrite F5, F4 by auto; exact R3).
    assert (W05 : wf (s5 t0)) by (rewrite F5 by auto; exact (rep_wf S _ _ _ _ R4)).
    destruct (IH s5 _ _ R5 RT5 W05) as [s6 [E6 [F6 [R6 T6]]]].
    { rewrite Forall_forall in *. intros i Hi. eapply elt3_stable; [exact Fr5|]. apply HF'. exact Hi. }
    exists s6. split.
    { cbn [app]. rewrite (seqm_step _ _ _ _ E1), (seqm_step _ _ _ _ E2), (seqm_step _ _ _ _ E3), (seqm_step _ _ _ _ E4), (seqm_step _ _ _ _ E5).
      exact E6. }
    split; [intros q Q1 Q2 Q3; rewrite F6, Fr5; auto|]. auto.
Qed.

Theorem smoothmax_jet n o r t0 t1 alpha its (s : StR) :
  r <> t0 -> r <> t1 -> t0 <> t1 -> wf (s r) -> wf (s t0) -> wf (s t1) -> shp n o (s r) -> shp n o (s t1) ->
  List.Forall (fun i => elt3 n o r t0 t1 (fst i) (snd i) s) its ->
  exists s', do_smoothmax F idR r (map fst its) alpha t0 t1 s = Ok s' /\ frame3 r t0 t1 s s' /\
    rep S n o (s' r) (jdiv (fold_left (fun acc i => jadd S acc (jmul S (jw alpha (snd i)) (snd i))) its (jconst 0))
                           (fold_left (fun acc i => jadd S acc (jw alpha (snd i))) its (jconst 0))).
Proof.
  intros N1 N2 N3 Wr W0 W1 Sr S1 HF. unfold do_smoothmax.
  destruct (reset_any S n o r s Wr Sr) as [sa [Ea [Fa Ra]]].
  assert (W1a : wf (sa t1)) by (rewrite Fa by auto; exact W1).
  assert (S1a : shp n o (sa t1)) by (rewrite Fa by auto; exact S1).
  destruct (reset_any S n o t1 sa W1a S1a) as [sb [Eb [Fb Rb]]].
  assert (Frb : frame3 r t0 t1 s sb) by (intros q Q1 Q2 Q3; rewrite Fb, Fa; auto).
  assert (Rab : rep S n o (sb r) (jconst 0)) by (rewrite Fb by auto; exact Ra).
  assert (W0b : wf (sb t0)) by (rewrite Fb, Fa by auto; exact W0).
  destruct (smooth_loop n o r t0 t1 alpha N1 N2 N3 its sb _ _ Rab Rb W0b) as [sc [Ec [Fc [Rc Tc]]]].
  { rewrite Forall_forall in *. intros i Hi. eapply elt3_stable; [exact Frb|]. apply HF. exact Hi. }
  destruct (rep_dy_any S n o ODiv r (Rg r) (Rg t1) sc _ _ (rep_wf S _ _ _ _ Rc) Rc Tc) as [sd [Ed [Fd [_ [Rd _]]]]].
  exists sd. split.
  { rewrite (seqm_app [do_reset F r; do_reset F t1] _ s sb)
      by (rewrite (seqm_step _ _ _ _ Ea), (seqm_step _ _ _ _ Eb); apply seqm_nil).
    rewrite (seqm_app _ _ sb sc Ec). rewrite (seqm_step _ _ _ _ Ed). apply seqm_nil. }
  split; [intros q Q1 Q2 Q3; rewrite Fd, Fc, Frb; auto|exact Rd].
Qed.

(* value of the receiver: the softmax-weighted mean (the denominator is a sum of exponentials) *)
Lemma jw_value alpha X : jv (jw alpha X) = exp (alpha * jv X).
Proof. reflexivity. Qed.

End Smooth.
