(* C01/ModelOpsLang.v — the small deep-embedded language into which the translator
   /verif/go2coq_c01 (DESIGN.md §1.2, "T1") prints what the Go source of
   scalar_real{64,32}_math.go and scalar_real{64,32}_math_concrete.go says TODAY:

   - [expr]: the float64 expressions handed to the chain-rule combinators (value v0,
     coefficient closures f1 f2 / f10 f01 f11 f20 f02 with their local definitions
     inlined), over + - * / unary -, literals, math.* / special.* calls;
   - [entry]: one combinator call site = method, receiver type, path condition under
     which it is reached, combinator, operands, the expressions;
   - [stmt]: the bodies of the composite methods (sequences of method calls on receiver /
     operands / temporaries, if / switch on the comparison the source writes).

   Evaluators into an arbitrary carrier [Fl A] ([eval], [ceval]) and, for statements,
   into the register-file model of C01/Model.v ([sexec]).  The generated file
   C01/Ops_gen.v only contains data of these types.  No proofs in this file. *)
From Coq Require Import ZArith QArith List Bool Arith String.
From ADV Require Import Base.Fl C01.Model.
Import ListNotations.
Local Open Scope nat_scope.
Local Open Scope string_scope.

Inductive fn1 := FAbs | FSqrt | FExp | FLog | FLog1p | FSin | FCos | FTan | FSinh | FCosh | FTanh
               | FErf | FErfc | FGamma | FLgamma | FFloor | FDigamma | FTrigamma | FLogErfc.
Inductive fn2 := FPow | FGammaP | FGammaPd1 | FGammaPd2 | FBesselI | FLogBesselI.

(* integer expressions inside float64(...) : literals, the loop variable j, - *)
Inductive iexpr := IZ (z : Z) | IJ | ISub (a b : iexpr) | IAdd (a b : iexpr).

Inductive expr :=
| EArg (i : nat)                 (* <i-th ConstScalar parameter>.GetFloat64() *)
| EArg32 (i : nat)               (* <i-th ConstScalar parameter>.GetFloat32() *)
| EPar                           (* the float64 parameter of the method (GammaP's a, BesselI's v) *)
| EZ (z : Z)                     (* integer-valued literal: 1, 2.0, -37.0 *)
| EQ (q : Q)                     (* any other decimal literal, exact value *)
| EAdd (a b : expr) | ESub (a b : expr) | EMul (a b : expr) | EDiv (a b : expr) | ENeg (a : expr)
| E1 (f : fn1) (a : expr) | E2 (f : fn2) (a b : expr)
| EPowZ (a : expr) (z : Z)       (* math.Pow(a, <integer literal>) *)
| EMlgamma (a : expr)            (* special.Mlgamma(a, k), k the int parameter *)
| EPi | ESqrtPi | ENaN | EInf (z : Z)
| EIfLgSign (a : expr) (z : Z) (t e : expr)   (* _, s := math.Lgamma(a); if s == z { t } else { e } *)
| EOfInt (i : iexpr)             (* float64(<int expression>) *)
| ESumK (body : expr).           (* s := 0.0; for j := 1; j <= k; j++ { s += body }; s *)

Inductive comb := CMonadic | CMonadicLazy | CRealMonadic | CRealMonadicLazy
                | CDyadic | CDyadicLazy | CRealDyadic | CRealDyadicLazy.
Definition comb_is_mon (c : comb) : bool :=
  match c with CMonadic | CMonadicLazy | CRealMonadic | CRealMonadicLazy => true | _ => false end.
Definition comb_is_real (c : comb) : bool :=
  match c with CRealMonadic | CRealMonadicLazy | CRealDyadic | CRealDyadicLazy => true | _ => false end.

(* path condition of a call site: <i-th ConstScalar parameter>.GetOrder() >= 1 is [b] *)
Inductive pcond := PcOrderGe1 (i : nat) (b : bool).

Record entry := mkEntry {
  en_recv : string;            (* "Real64" | "Real32" *)
  en_meth : string;
  en_path : list pcond;
  en_comb : comb;
  en_opds : list nat;          (* which ConstScalar parameters are the combinator's operands, in order *)
  en_v0 : expr;
  en_fs : list expr }.         (* [f1; f2]  or  [f10; f01; f11; f20; f02] *)

(* ------------------------------------------------------------- composite bodies *)
Inductive sopd :=
| SRecv                          (* the receiver c / r *)
| SArg (i : nat)                 (* i-th ConstScalar parameter, after the swaps executed so far *)
| STmp (i : nat)                 (* i-th Scalar temporary parameter: t, or t[i] *)
| SLoc                           (* the local  t := NewScalar(c.Type(), 0.0) *)
| SConst (e : expr).             (* ConstFloat64(e) / ConstFloat32(e) *)

Inductive bcond :=
| BLt (a b : expr) | BLe (a b : expr) | BGt (a b : expr) | BGe (a b : expr)
| BIsInf (a : expr) (sign : Z)
| BGreater (a b : sopd).         (* a.Greater(b) / a.GREATER(b): the method of a's dynamic type *)

Inductive stmt :=
| SCall (r : sopd) (meth : string) (args : list sopd)
| SIf (c : bcond) (th el : list stmt)
| SSwap                                           (* a, b = b, a  on the first two ConstScalar parameters *)
| SSwitchSign (a : sopd) (neg zer pos : list stmt)  (* switch a.Sign() { case -1: .. case 0: .. case 1: .. } *)
| SWithLocal (body : list stmt)                   (* t := NewScalar(c.Type(), 0.0); body  (to the end of the block) *)
| SReturn.

Record cbody := mkBody { cb_recv : string; cb_meth : string; cb_nargs : nat; cb_ntmp : nat; cb_body : list stmt }.

(* ------------------------------------------------------------- loops over vectors / matrices *)
(* SmoothMax LogSmoothMax Vmean VdotV Vnorm Mtrace Mnorm: a prologue, ONE loop whose body is a straight line of
   method calls on the receiver / temporaries / the local with the current element(s) as operands, an epilogue.
   Inside [lp_pre] [lp_first] [lp_body] [lp_post] the operand [SArg i] means
     i < lp_nvec                 : <i-th vector / matrix parameter>.ConstAt(<loop index>) resp. it.GetConst()
     lp_nvec <= i < +lp_ncst     : the (i - lp_nvec)-th ConstFloat64 parameter (alpha)
     i = lp_nvec + lp_ncst       : float64(<first vector parameter>.Dim()) as a constant operand *)
Record lbody := mkLoop {
  lp_recv : string; lp_meth : string;
  lp_nvec : nat; lp_ncst : nat; lp_ntmp : nat;
  lp_iter : string;            (* "index": for i := 0; i < x.Dim(); i++ .. x.ConstAt(i) (all vector parameters at the same i)
                                  "iterator": for it := a.ConstIterator(); it.Ok(); it.Next() .. it.GetConst()
                                  "diag": n, m := a.Dims(); for i := 0; i < n; i++ .. a.ConstAt(i, i)
                                  "rowmajor": for i := 0; i < n; i++ { for j := 0; j < m; j++ .. a.ConstAt(i, j) *)
  lp_guards : list string;     (* tests before the first write: "dim-mismatch-panics" "not-square-panics"
                                  "n-zero-returns-nil" "empty-returns-nil" *)
  lp_local : string;           (* "" | "NullReal" (t := NullReal64() in a Real64 method, NullReal32() in a Real32 method)
                                  | "NewScalar" (t := NewScalar(r.Type(), 0.0)) *)
  lp_pre : list stmt;
  lp_split : bool;             (* the loop body is  if i == 0 && j == 0 { lp_first } else { lp_body } *)
  lp_first : list stmt;
  lp_body : list stmt;
  lp_post : list stmt }.

(* ------------------------------------------------------------- predicates *)
(* Greater / Smaller (bool) and Sign (int) with the RECEIVER as operand 0 and the parameter as operand 1 *)
Inductive pbody := PBool (c : bcond) | PInt (arms : list (bcond * Z)) (dflt : Z).
Record pred := mkPred { pd_recv : string; pd_meth : string; pd_body : pbody }.

(* what the translator could not put into the language *)
Record untied := mkUntied { un_recv : string; un_meth : string; un_why : string }.

Section Eval.
Context {A : Type} (F : Fl A) (r32 : A -> A).

Record env := mkEnv { v_arg : nat -> A; v_par : A; v_k : nat; v_j : Z }.

Definition ev1 (f : fn1) : A -> A :=
  match f with
  | FAbs => fAbs F | FSqrt => fSqrt F | FExp => fExp F | FLog => fLog F | FLog1p => fLog1p F
  | FSin => fSin F | FCos => fCos F | FTan => fTan F | FSinh => fSinh F | FCosh => fCosh F | FTanh => fTanh F
  | FErf => fErf F | FErfc => fErfc F | FGamma => fGamma F | FLgamma => fLgamma F | FFloor => fFloor F
  | FDigamma => fDigamma F | FTrigamma => fTrigamma F | FLogErfc => fLogErfc F
  end.
Definition ev2 (f : fn2) : A -> A -> A :=
  match f with
  | FPow => fPow F | FGammaP => fGammaP F | FGammaPd1 => fGammaPd1 F | FGammaPd2 => fGammaPd2 F
  | FBesselI => fBesselI F | FLogBesselI => fLogBesselI F
  end.

Fixpoint ieval (j : Z) (e : iexpr) : Z :=
  match e with
  | IZ z => z | IJ => j
  | ISub a b => (ieval j a - ieval j b)%Z
  | IAdd a b => (ieval j a + ieval j b)%Z
  end.

Fixpoint eval (e : expr) (v : env) : A :=
  match e with
  | EArg i => v_arg v i
  | EArg32 i => r32 (v_arg v i)
  | EPar => v_par v
  | EZ z => fofZ F z
  | EQ q => fofQ F q
  | EAdd a b => fadd F (eval a v) (eval b v)
  | ESub a b => fsub F (eval a v) (eval b v)
  | EMul a b => fmul F (eval a v) (eval b v)
  | EDiv a b => fdiv F (eval a v) (eval b v)
  | ENeg a => fneg F (eval a v)
  | E1 f a => ev1 f (eval a v)
  | E2 f a b => ev2 f (eval a v) (eval b v)
  | EPowZ a z => fPowZ F (eval a v) z
  | EMlgamma a => fMlgamma F (eval a v) (Z.of_nat (v_k v))
  | EPi => fPi F | ESqrtPi => fSqrtPi F | ENaN => fnan F | EInf z => finf F z
  | EIfLgSign a z t e => if Z.eqb (fLgammaSign F (eval a v)) z then eval t v else eval e v
  | EOfInt i => fofZ F (ieval (v_j v) i)
  | ESumK b =>
      fold_left (fun s j => fadd F s (eval b (mkEnv (v_arg v) (v_par v) (v_k v) (Z.of_nat j))))
                (seq 1 (v_k v)) (fofZ F 0)
  end.

(* ------------------------------------------------- one generated call site as a model step *)
Definition env_of (s : St (A := A)) (args : list (opd A)) (p : A) (k : nat) : env :=
  mkEnv (fun i => rval (rd s (nth i args (Im (fofZ F 0))))) p k 0%Z.

Definition path_holds (s : St (A := A)) (args : list (opd A)) (pc : pcond) : bool :=
  match pc with PcOrderGe1 i b => Bool.eqb (Nat.leb 1 (rorder (rd s (nth i args (Im (fofZ F 0)))))) b end.

Definition gen_step (e : entry) (c : nat) (args : list (opd A)) (p : A) (k : nat) (s : St) : res St :=
  let v := env_of s args p k in
  let o := fun i => nth i args (Im (fofZ F 0)) in
  match en_opds e, en_fs e with
  | [i], [f1; f2] =>
      if comb_is_mon (en_comb e) then
        monadic_lazy F r32 c (o i) (eval (en_v0 e) v) (fun _ => eval f1 v) (fun _ => eval f2 v) s
      else Panic EIndex
  | [i; j], [f10; f01; f11; f20; f02] =>
      if comb_is_mon (en_comb e) then Panic EIndex else
      dyadic_lazy F r32 c (o i) (o j) (eval (en_v0 e) v) (fun _ => (eval f10 v, eval f01 v))
                  (fun _ => (eval f11 v, eval f20 v, eval f02 v)) s
  | _, _ => Panic EIndex
  end.

(* the call site of method [meth] of receiver type [recv] whose path condition holds in s *)
Definition gen_find (tbl : list entry) (recv meth : string) (s : St (A := A)) (args : list (opd A)) : option entry :=
  find (fun e => String.eqb (en_recv e) recv && String.eqb (en_meth e) meth && forallb (path_holds s args) (en_path e)) tbl.

Definition gen_method (tbl : list entry) (recv meth : string) (c : nat) (args : list (opd A)) (p : A) (k : nat)
           (s : St) : res St :=
  match gen_find tbl recv meth s args with
  | Some e => gen_step e c args p k s
  | None => Panic EIndex
  end.

(* ------------------------------------------------- composite bodies on the register file *)
(* operand binding: the ConstScalar parameters (a list, permuted by SSwap), the temporaries, the local *)
Record senv := mkSenv { se_c : nat; se_args : list (opd A); se_tmps : list nat; se_loc : nat }.

Definition sopd_of (b : senv) (s : St (A := A)) (o : sopd) : opd A :=
  match o with
  | SRecv => Rg (se_c b)
  | SArg i => nth i (se_args b) (Im (fofZ F 0))
  | STmp i => Rg (nth i (se_tmps b) 0)
  | SLoc => Rg (se_loc b)
  | SConst e => Im (eval e (env_of s (se_args b) (fofZ F 0) 0))
  end.
Definition sreg_of (b : senv) (o : sopd) : option nat :=
  match o with
  | SRecv => Some (se_c b) | STmp i => Some (nth i (se_tmps b) 0) | SLoc => Some (se_loc b)
  | SArg i => match nth i (se_args b) (Im (fofZ F 0)) with Rg r => Some r | Im _ => None end
  | SConst _ => None
  end.

Definition ceval (b : senv) (s : St (A := A)) (c : bcond) : bool :=
  let v := env_of s (se_args b) (fofZ F 0) 0 in
  match c with
  | BLt x y => fltb F (eval x v) (eval y v)
  | BLe x y => fleb F (eval x v) (eval y v)
  | BGt x y => fltb F (eval y v) (eval x v)
  | BGe x y => fleb F (eval y v) (eval x v)
  | BIsInf x z => fisinf F (eval x v) z
  | BGreater x y =>
      (* Real64.Greater compares GetFloat64(), Real32.Greater compares GetFloat32() of both sides *)
      let rx := rd s (sopd_of b s x) in let ry := rd s (sopd_of b s y) in
      fltb F (rndk r32 (rk rx) (rval ry)) (rndk r32 (rk rx) (rval rx))
  end.

(* a method call of the source, as the model step it names *)
Definition call_step (meth : string) (c : nat) (args : list (opd A)) : option (St (A := A) -> res St) :=
  let a0 := nth 0 args (Im (fofZ F 0)) in let a1 := nth 1 args (Im (fofZ F 0)) in
  let is m := String.eqb meth m in
  if is "Neg" || is "NEG" then Some (do_mon F r32 ONeg c a0)
  else if is "Exp" || is "EXP" then Some (do_mon F r32 OExp c a0)
  else if is "Log" || is "LOG" then Some (do_mon F r32 OLog c a0)
  else if is "Log1p" || is "LOG1P" then Some (do_mon F r32 OLog1p c a0)
  else if is "Add" || is "ADD" then Some (do_dy F r32 OAdd c a0 a1)
  else if is "Sub" || is "SUB" then Some (do_dy F r32 OSub c a0 a1)
  else if is "Mul" || is "MUL" then Some (do_dy F r32 OMul c a0 a1)
  else if is "Div" || is "DIV" then Some (do_dy F r32 ODiv c a0 a1)
  else if is "Pow" || is "POW" then Some (do_pow F r32 c a0 a1)
  else if is "Set" || is "SET" then Some (set_reg F r32 c a0)
  else if is "Reset" then Some (do_reset F c)
  else None.

Definition with_args (b : senv) (l : list (opd A)) : senv := mkSenv (se_c b) l (se_tmps b) (se_loc b).
Definition with_loc (b : senv) (t : nat) : senv := mkSenv (se_c b) (se_args b) (se_tmps b) t.

(* result: the bindings (SSwap permutes them), the state, and whether a return was executed *)
Fixpoint sexec (fuel : nat) (b : senv) (p : list stmt) (s : St (A := A)) : res (senv * St (A := A) * bool) :=
  match fuel with
  | O => Panic EIndex
  | S fuel =>
    match p with
    | [] => Ok (b, s, false)
    | st :: rest =>
      let k := fun r : senv * St (A := A) * bool =>
                 match r with (b', s', true) => Ok (b', s', true) | (b', s', false) => sexec fuel b' rest s' end in
      match st with
      | SReturn => Ok (b, s, true)
      | SCall r meth args =>
          match sreg_of b r with
          | Some c => match call_step meth c (map (sopd_of b s) args) with
                      | Some f => bind (f s) (fun s' => sexec fuel b rest s')
                      | None => Panic EIndex
                      end
          | None => Panic EIndex
          end
      | SIf c th el =>
          (* the interpreter is only ever applied to literal statement lists: the test stays outside *)
          if ceval b s c then bind (sexec fuel b th s) k else bind (sexec fuel b el s) k
      | SSwap =>
          match se_args b with
          | a0 :: a1 :: more => sexec fuel (with_args b (a1 :: a0 :: more)) rest s
          | _ => Panic EIndex
          end
      | SSwitchSign a neg zer pos =>
          let sg := sign_of F (rval (rd s (sopd_of b s a))) in
          if Z.eqb sg (-1) then bind (sexec fuel b neg s) k
          else if Z.eqb sg 0 then bind (sexec fuel b zer s) k
          else bind (sexec fuel b pos s) k
      | SWithLocal body =>
          (* t := NewScalar(c.Type(), 0.0): a fresh object = a register id different from c and the first
             operand, restored afterwards (it is garbage in Go) — the same convention as Model.do_log1pexp *)
          let t := S (Nat.max (se_c b) (match nth 0 (se_args b) (Im (fofZ F 0)) with Rg i => i | Im _ => 0 end)) in
          let saved := s t in
          match sexec fuel (with_loc b t) body (upd s t (null_reg F (rk (s (se_c b))))) with
          | Ok (b', s', r) => k (with_loc b' (se_loc b), upd s' t saved, r)
          | Panic e => Panic e
          end
      end
    end
  end.

(* ------------------------------------------------- loops on the register file *)
(* the calls that only occur in the loop methods, on top of [call_step] *)
Definition call_step2 (meth : string) (c : nat) (args : list (opd A)) : option (St (A := A) -> res St) :=
  match call_step meth c args with
  | Some f => Some f
  | None =>
      let a0 := nth 0 args (Im (fofZ F 0)) in let a1 := nth 1 args (Im (fofZ F 0)) in
      let a2 := nth 2 args (Im (fofZ F 0)) in
      let is m := String.eqb meth m in
      if is "SetFloat64" then match a0 with Im v => Some (do_setf F r32 c v) | Rg _ => None end
      else if is "Sqrt" then Some (do_sqrt F r32 c a0)
      else if is "LogAdd" then match a2 with Rg t => Some (do_logadd F r32 c a0 a1 t) | Im _ => None end
      else None
  end.

(* straight-line statement lists *)
Fixpoint lexec (b : senv) (p : list stmt) (s : St (A := A)) : res (St (A := A)) :=
  match p with
  | [] => Ok s
  | SCall r meth args :: rest =>
      match sreg_of b r with
      | Some c => match call_step2 meth c (map (sopd_of b s) args) with
                  | Some f => bind (f s) (lexec b rest)
                  | None => Panic EIndex
                  end
      | None => Panic EIndex
      end
  | _ => Panic EIndex
  end.

Definition largs (elems : list (opd A)) (csts : list A) (len : nat) : list (opd A) :=
  elems ++ map (fun v => Im v) csts ++ [Im (fofZ F (Z.of_nat len))].

(* c.<meth>(vectors.., csts.., tmps): [items] are the element tuples in iteration order (one operand per vector
   parameter), [loc] the register id of the fresh local (installed first, as in Model.do_vdotv) *)
Definition run_loop (lb : lbody) (c : nat) (items : list (list (opd A))) (csts : list A) (tmps : list nat) (loc : nat)
           (s : St (A := A)) : res (St (A := A)) :=
  let n := List.length items in
  let b := fun el => mkSenv c (largs el csts n) tmps loc in
  let none := repeat (Im (fofZ F 0)) (lp_nvec lb) in
  let s0 := if String.eqb (lp_local lb) "" then s else upd s loc (null_reg F (rk (s c))) in
  bind (lexec (b none) (lp_pre lb) s0) (fun s1 =>
  bind (match items with
        | [] => Ok s1
        | it0 :: rest =>
            if lp_split lb then
              bind (lexec (b it0) (lp_first lb) s1)
                   (fun s2 => fold_left (fun m it => bind m (lexec (b it) (lp_body lb))) rest (Ok s2))
            else fold_left (fun m it => bind m (lexec (b it) (lp_body lb))) items (Ok s1)
        end) (fun s3 =>
  lexec (b none) (lp_post lb) s3)).

(* ------------------------------------------------- predicates on values *)
Definition penv (x y : A) : env := mkEnv (fun i => match i with O => x | _ => y end) (fofZ F 0) 0 0%Z.
Definition pcev (c : bcond) (x y : A) : option bool :=
  let v := penv x y in
  match c with
  | BLt a b => Some (fltb F (eval a v) (eval b v))
  | BLe a b => Some (fleb F (eval a v) (eval b v))
  | BGt a b => Some (fltb F (eval b v) (eval a v))
  | BGe a b => Some (fleb F (eval b v) (eval a v))
  | BIsInf a z => Some (fisinf F (eval a v) z)
  | BGreater _ _ => None
  end.
(* x.<bool predicate>(y) *)
Definition pred_bool (p : pbody) (x y : A) : option bool :=
  match p with PBool c => pcev c x y | PInt _ _ => None end.
(* x.<int predicate>(): the first arm whose test holds *)
Fixpoint parms (arms : list (bcond * Z)) (d : Z) (x : A) : option Z :=
  match arms with
  | [] => Some d
  | (c, z) :: rest => match pcev c x x with
                      | Some true => Some z
                      | Some false => parms rest d x
                      | None => None
                      end
  end.
Definition pred_int (p : pbody) (x : A) : option Z :=
  match p with PInt arms d => parms arms d x | PBool _ => None end.

Definition sexec_st (b : senv) (p : list stmt) (s : St (A := A)) : res (St (A := A)) :=
  match sexec 64 b p s with Ok (_, s', _) => Ok s' | Panic e => Panic e end.

End Eval.
