(* C01/ProofsChain2.v — the two-argument chain rule.
   (1) the bridge: for f differentiable as a function of two variables (Coquelicot's
       differentiable_pt_lim), the formulas of the dyadic combinators are the coordinate
       partial derivatives of  z |-> f (G z) (H z);
   (2) the table entries Add Sub Mul Div and Pow with a VARIABLE exponent (base > 0)
       satisfy the curve form [d_curve] used by ad_sound: value, d/da and d/db entries
       are differentiable along every curve with the tabulated coefficients. *)
From Coq Require Import Reals ZArith List Lra Lia.
From Coquelicot Require Import Coquelicot.
From ADV Require Import Base.Fl Base.Num C01.Model C01.ModelR C01.Spec C01.ProofsCoef C01.ProofsJet C01.ProofsOps C01.ProofsSound.
Open Scope R_scope.

(* ------------------------------------------------------------------ (1) the bridge *)
Lemma chain2_curve (f : R -> R -> R) (G H : R -> R) t0 lx ly G' H' :
  differentiable_pt_lim f (G t0) (H t0) lx ly -> is_derive G t0 G' -> is_derive H t0 H' ->
  is_derive (fun t => f (G t) (H t)) t0 (G' * lx + H' * ly).
Proof.
  intros Df dG dH. apply is_derive_Reals. replace (G' * lx + H' * ly) with (lx * G' + ly * H') by ring.
  apply derivable_pt_lim_comp_2d; [exact Df|apply is_derive_Reals; exact dG|apply is_derive_Reals; exact dH].
Qed.

(* first order: d/dx_i f(G(x), H(x)) = G_i f10 + H_i f01 *)
Theorem chain2_first (G H : (nat -> R) -> R) (f : R -> R -> R) y i dG dH f10 f01 :
  partial G i y dG -> partial H i y dH -> differentiable_pt_lim f (G y) (H y) f10 f01 ->
  partial (fun z => f (G z) (H z)) i y (dG * f10 + dH * f01).
Proof.
  unfold partial. intros HG HH Df.
  apply (chain2_curve f (fun t => G (upd_pt y i t)) (fun t => H (upd_pt y i t))); auto.
  rewrite !upd_pt_self. exact Df.
Qed.

(* second order: d/dx_j [ G_i f10(G,H) + H_i f01(G,H) ] = the six-term formula of dyadic / dyadicLazy *)
Theorem chain2_second (G H Gi Hi : (nat -> R) -> R) (f10 f01 : R -> R -> R) y j dGj dHj ddGij ddHij f20 f11 f02 :
  partial G j y dGj -> partial H j y dHj -> partial Gi j y ddGij -> partial Hi j y ddHij ->
  differentiable_pt_lim f10 (G y) (H y) f20 f11 -> differentiable_pt_lim f01 (G y) (H y) f11 f02 ->
  partial (fun z => Gi z * f10 (G z) (H z) + Hi z * f01 (G z) (H z)) j y
    (ddGij * f10 (G y) (H y) + ddHij * f01 (G y) (H y)
     + Gi y * dGj * f20 + Hi y * dHj * f02 + Gi y * dHj * f11 + Hi y * dGj * f11).
Proof.
  unfold partial. intros HG HH HGi HHi D10 D01.
  assert (C10 : is_derive (fun t => f10 (G (upd_pt y j t)) (H (upd_pt y j t))) (y j) (dGj * f20 + dHj * f11)).
  { apply (chain2_curve f10 (fun t => G (upd_pt y j t)) (fun t => H (upd_pt y j t))); auto. rewrite !upd_pt_self. exact D10. }
  assert (C01 : is_derive (fun t => f01 (G (upd_pt y j t)) (H (upd_pt y j t))) (y j) (dGj * f11 + dHj * f02)).
  { apply (chain2_curve f01 (fun t => G (upd_pt y j t)) (fun t => H (upd_pt y j t))); auto. rewrite !upd_pt_self. exact D01. }
  pose proof (is_derive_mult _ _ _ _ _ HGi C10 Rmult_comm) as M1.
  pose proof (is_derive_mult _ _ _ _ _ HHi C01 Rmult_comm) as M2.
  pose proof (is_derive_plus _ _ _ _ _ M1 M2) as P. cbv beta in P. rewrite !upd_pt_self in P.
  eapply is_derive_ext; [|match goal with |- is_derive _ _ ?v => replace v with
     (plus (plus (mult ddGij (f10 (G y) (H y))) (mult (Gi y) (dGj * f20 + dHj * f11)))
           (plus (mult ddHij (f01 (G y) (H y))) (mult (Hi y) (dGj * f11 + dHj * f02)))) end; [exact P|]].
  - intro t. reflexivity.
  - unfold plus, mult; cbn. ring.
Qed.

(* ------------------------------------------------------------------ (2) the table entries *)
Section Table.
Variable S : Special.
Notation F := (FlR S).

Ltac dunf := unfold d_v0, d_f10, d_f01, d_f11, d_f20, d_f02;
             cbn [d_v0 d_f10 d_f01 d_f11 d_f20 d_f02 FlR fadd fsub fmul fdiv fneg fofZ one two zero lit].

Ltac fixD G' H' dG dH :=
  repeat match goal with
  | |- context [Derive ?g ?t] =>
      first [ replace (Derive g t) with G' by (symmetry; apply is_derive_unique; exact dG)
            | replace (Derive g t) with H' by (symmetry; apply is_derive_unique; exact dH) ]
  end.

Lemma add_curve x y : d_curve S OAdd x y.
Proof.
  intros G H t0 G' H' EG EH dG dH. dunf.
  split; [|split]; auto_derive; try (repeat split; eexists; eassumption); auto;
    fixD G' H' dG dH; simpl; ring.
Qed.
Lemma sub_curve x y : d_curve S OSub x y.
Proof.
  intros G H t0 G' H' EG EH dG dH. dunf.
  split; [|split]; auto_derive; try (repeat split; eexists; eassumption); auto;
    fixD G' H' dG dH; simpl; ring.
Qed.
Lemma mul_curve x y : d_curve S OMul x y.
Proof.
  intros G H t0 G' H' EG EH dG dH. dunf.
  split; [|split]; auto_derive; try (repeat split; eexists; eassumption); auto;
    fixD G' H' dG dH; rewrite ?EG, ?EH; simpl; ring.
Qed.

Lemma div_curve x y : y <> 0 -> d_curve S ODiv x y.
Proof.
  intros Hy G H t0 G' H' EG EH dG dH. dunf.
  assert (Hy2 : y * y <> 0) by (apply Rmult_integral_contrapositive_currified; auto).
  split; [|split]; auto_derive.
  all: try (rewrite ?EH; repeat split; try (eexists; eassumption); auto).
  all: fixD G' H' dG dH; rewrite ?EG, ?EH; simpl; field; auto.
Qed.

(* Pow with a variable exponent: x^y = exp (y ln x) near a positive base *)
Lemma exp_m1 x y : 0 < x -> exp ((y - 1) * ln x) = exp (y * ln x) / x.
Proof. intro Hx. replace ((y - 1) * ln x) with (y * ln x + - ln x) by ring. rewrite exp_plus, exp_Ropp, exp_ln by auto. reflexivity. Qed.
Lemma exp_m2 x y : 0 < x -> exp ((y - 2) * ln x) = exp (y * ln x) / (x * x).
Proof.
  intro Hx. replace ((y - 2) * ln x) with (y * ln x + - ln x + - ln x) by ring.
  rewrite !exp_plus, exp_Ropp, exp_ln by auto. field. lra.
Qed.
Lemma exp_m0 x y : exp ((y - 0) * ln x) = exp (y * ln x).
Proof. f_equal. ring. Qed.

Lemma pos_near (G : R -> R) t0 G' : is_derive G t0 G' -> 0 < G t0 -> locally t0 (fun t => 0 < G t).
Proof.
  intros dG Hp.
  assert (Hc : continuous G t0).
  { apply (@ex_derive_continuous R_AbsRing R_NormedModule G t0). exists G'. exact dG. }
  exact (Hc _ (open_gt 0 (G t0) Hp)).
Qed.

Lemma powv_curve x y : 0 < x -> d_curve S OPowV x y.
Proof.
  intros Hx G H t0 G' H' EG EH dG dH. dunf. cbn [fPow fLog FlR].
  assert (Hp : 0 < G t0) by (rewrite EG; exact Hx).
  pose proof (pos_near G t0 G' dG Hp) as Hloc.
  rewrite !(Rpow_go_pos' x) by exact Hx. unfold Rpower.
  rewrite !exp_m1, !exp_m2, !exp_m0 by exact Hx.
  split; [|split].
  - apply (is_derive_ext_loc (fun t => exp (H t * ln (G t)))).
    { generalize Hloc. apply filter_imp. intros t Ht. rewrite Rpow_go_pos' by exact Ht. reflexivity. }
    auto_derive; [rewrite ?EG; repeat split; try (eexists; eassumption); auto|].
    fixD G' H' dG dH; rewrite ?EG, ?EH; simpl; field; lra.
  - apply (is_derive_ext_loc (fun t => exp ((H t - 1) * ln (G t)) * H t)).
    { generalize Hloc. apply filter_imp. intros t Ht. rewrite Rpow_go_pos' by exact Ht. reflexivity. }
    auto_derive; [rewrite ?EG; repeat split; try (eexists; eassumption); auto|].
    fixD G' H' dG dH; rewrite ?EG, ?EH. replace (y + - (1)) with (y - 1) by ring. rewrite !exp_m1 by exact Hx. simpl; field; lra.
  - apply (is_derive_ext_loc (fun t => exp ((H t - 0) * ln (G t)) * ln (G t))).
    { generalize Hloc. apply filter_imp. intros t Ht. rewrite Rpow_go_pos' by exact Ht. reflexivity. }
    auto_derive; [rewrite ?EG; repeat split; try (eexists; eassumption); auto|].
    fixD G' H' dG dH; rewrite ?EG, ?EH. replace (y + - 0) with (y - 0) by ring. rewrite !exp_m0. simpl; field; lra.
Qed.

(* every table entry, on its real domain *)
Theorem d_curve_table op x y :
  match op with ODiv => y <> 0 | OPowV => 0 < x | _ => True end -> d_curve S op x y.
Proof.
  destruct op; intro Hd; [apply add_curve|apply sub_curve|apply mul_curve|apply div_curve; exact Hd|apply powv_curve; exact Hd].
Qed.

End Table.

(* ------------------------------------------------------------------ explicit real domains *)
Section Dom.
Variable S : Special.

Definition mon_dom (op : mop R) (v : R) : Prop :=
  match op with
  | ONeg | OSin | OCos | OSinh | OCosh | OExp | OTanh => True
  | OTan => cos v <> 0
  | OLog => 0 < v
  | OLog1p => -1 < v
  | OPowC _ => 0 < v
  | _ => m_ok S op v    (* special functions: relative to their differential relations (coefficients_special_relative) *)
  end.
Definition dy_dom (op : dop) (x y : R) : Prop :=
  match op with ODiv => y <> 0 | OPowV => 0 < x | _ => True end.

Fixpoint sdom (e : expr) (x : nat -> R) : Prop :=
  match e with
  | EVar _ | EConst _ => True
  | EMon op e1 => sdom e1 x /\ mon_dom op (den S e1 x)
  | EDy op e1 e2 => sdom e1 x /\ sdom e2 x /\ dy_dom op (den S e1 x) (den S e2 x)
  end.

Lemma mon_dom_ok op v : mon_dom op v -> m_ok S op v.
Proof.
  destruct op; cbn [mon_dom]; intro H; try exact H.
  - apply neg_ok. - apply sin_ok. - apply sinh_ok. - apply cos_ok. - apply cosh_ok.
  - apply tan_ok; exact H. - apply tanh_ok. - apply exp_ok. - apply log_ok; exact H. - apply log1p_ok; exact H.
  - apply powc_ok; exact H.
Qed.

Lemma sdom_dom : forall e x, sdom e x -> dom S e x.
Proof.
  induction e as [k|v|op e1 IH1|op e1 IH1 e2 IH2]; intros x H; cbn [sdom dom] in *; auto.
  - destruct H as [H1 H2]. split; [apply IH1; exact H1|apply mon_dom_ok; exact H2].
  - destruct H as [H1 [H2 H3]]. split; [apply IH1; exact H1|]. split; [apply IH2; exact H2|].
    apply d_curve_table. exact H3.
Qed.
End Dom.

(* ad_sound on the explicit domain *)
Theorem ad_sound_sdom S n o e x (s : St) :
  (1 <= o)%nat -> wfe n e -> sdom S e x ->
  (forall k, (k < n)%nat -> rorder (s k) = 0%nat /\ rval (s k) = x k) ->
  (forall q, (n <= q)%nat -> ProofsComb.wf (s q)) ->
  exists s', run (FlR S) idR (vars_prog n o ++ fst (fst (compile e n))) s = Ok s' /\
    let r := rd s' (snd (fst (compile e n))) in
    rval r = den S e x /\
    (forall i, (i < n)%nat -> partial (den S e) i x (gd (FlR S) r i)) /\
    ((2 <= o)%nat -> forall i j, (i < n)%nat -> (j < n)%nat ->
        partial (fun y => jg (sem S e y) i) j x (gh (FlR S) r i j) /\ gh (FlR S) r i j = gh (FlR S) r j i) /\
    (forall i, (i < n)%nat -> gd (FlR S) r i = jg (sem S e x) i) /\
    (forall k, (k < n)%nat -> ~ mentions e k ->
        gd (FlR S) r k = 0 /\ ((2 <= o)%nat -> forall j, (j < n)%nat -> gh (FlR S) r k j = 0 /\ gh (FlR S) r j k = 0)).
Proof. intros Ho Hw Hd Hv Hf. apply ad_sound_run; auto. apply sdom_dom. exact Hd. Qed.

(* non-vacuity: a 3-variable program mixing Mul, Exp, Pow (constant AND variable exponent), Div and a constant operand *)
Definition ex_expr : expr :=
  EDy OAdd (EMon OExp (EDy OMul (EVar 0) (EVar 1)))
           (EDy ODiv (EDy OPowV (EVar 2) (EVar 0)) (EDy OMul (EMon (OPowC (5/2)) (EVar 1)) (EConst 3))).
Definition ex_point : nat -> R := fun k => match k with O => 1/2 | 1%nat => 2 | _ => 3 end.
Lemma ex_hyps : wfe 3 ex_expr /\ sdom Sp0 ex_expr ex_point /\ mentions ex_expr 2 /\ ~ mentions (EMon OExp (EDy OMul (EVar 0) (EVar 1))) 2.
Proof.
  split; [cbn; lia|]. split.
  - cbn [sdom ex_expr mon_dom dy_dom]. unfold den. cbn [sem jv jvar jmon jdy jconst ex_point].
    cbn [d_v0 m_v0 FlR fPow fmul fExp fdiv fadd].
    repeat split; try lra.
    assert (P : 0 < Rpow_go 2 (5 / 2)) by (rewrite Rpow_go_pos' by lra; unfold Rpower; apply exp_pos).
    apply Rgt_not_eq. apply Rmult_lt_0_compat; lra.
  - split; [cbn; tauto|cbn; lia].
Qed.
