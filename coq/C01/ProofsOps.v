(* C01/ProofsOps.v — one-step semantics of the instruction set on 2-jets.
   [jet] = (value, gradient, Hessian) as functions of the slot indices;
   [rep n o r J]: register r represents the jet J in a computation over n
   variables at derivative order o: it is a well-formed register with symmetric
   Hessian storage which is either a magic scalar of order o over n variables or
   a constant (order 0, N 0: plain Float64 / ConstFloat64 / fresh Real), whose
   guarded getters agree with J on the slots 0..n-1.
   Every primitive (monadic / dyadic table operation, Pow, Set, Reset,
   SetFloat64, SetVariable) maps represented operands to a represented result
   given by the jet algebra [jmon] / [jdy]. *)
From Coq Require Import Reals ZArith List Bool Arith Lia Lra.
From ADV Require Import Base.Fl Base.Num C01.Model C01.ModelR C01.ProofsList C01.ProofsComb C01.ProofsStore.
Import ListNotations.
Open Scope R_scope.
Local Arguments Nat.leb : simpl never.
Local Arguments Nat.eqb : simpl never.
Local Arguments Nat.ltb : simpl never.

Record jet := mkJet { jv : R; jg : nat -> R; jh : nat -> nat -> R }.
Definition jconst (v : R) : jet := mkJet v (fun _ => 0) (fun _ _ => 0).
Definition jvar (x : R) (k : nat) : jet := mkJet x (fun i => if Nat.eqb i k then 1 else 0) (fun _ _ => 0).
(* f o A  with (v0, v1, v2) = (f, f', f'') at the value of A *)
Definition jmon (v0 v1 v2 : R) (A : jet) : jet :=
  mkJet v0 (fun i => jg A i * v1) (fun i j => jg A i * jg A j * v2 + jh A i j * v1).
(* f(A, B) with the value and the five partials of f at the values of A, B *)
Definition jdy (v0 v10 v01 v11 v20 v02 : R) (A B : jet) : jet :=
  mkJet v0 (fun i => jg A i * v10 + jg B i * v01)
        (fun i j => jh A i j * v10 + jh B i j * v01 + jg A i * jg A j * v20 + jg B i * jg B j * v02
                    + jg A i * jg B j * v11 + jg B i * jg A j * v11).
(* equality of jets as far as a computation over n variables at order o can see *)
Definition jeq (n o : nat) (J K : jet) : Prop :=
  jv J = jv K /\ ((1 <= o)%nat -> forall i, (i < n)%nat -> jg J i = jg K i) /\
  ((2 <= o)%nat -> forall i j, (i < n)%nat -> (j < n)%nat -> jh J i j = jh K i j).

Ltac leb0 := repeat match goal with |- context [(?a <=? 0)%nat] => destruct (Nat.leb_spec a 0); [lia|] end.

Section Ops.
Variable S : Special.
Notation F := (FlR S).
Notation StR := (@St R).
Notation gdR := (gd F).
Notation ghR := (gh F).
Notation hgetR := (hget F).

Definition rep (n o : nat) (r : Reg R) (J : jet) : Prop :=
  wf r /\ sym_reg S r /\ rval r = jv J /\
  ((rorder r = o /\ rn r = n) \/ (rorder r = 0%nat /\ rn r = 0%nat)) /\
  ((1 <= o)%nat -> forall i, (i < n)%nat -> gdR r i = jg J i) /\
  ((2 <= o)%nat -> forall i j, (i < n)%nat -> (j < n)%nat -> ghR r i j = jh J i j).

Definition frame (c : nat) (s s' : StR) : Prop := forall q, q <> c -> s' q = s q.
Definition not_reg (a : opd R) (c : nat) : Prop := forall k, a = Rg k -> k <> c.

Lemma rep_jeq n o r J K : rep n o r J -> jeq n o J K -> rep n o r K.
Proof.
  intros [W [Sy [V [C [G H]]]]] [E0 [E1 E2]]. split; [exact W|]. split; [exact Sy|]. split; [congruence|].
  split; [exact C|]. split.
  - intros H1 i Hi. rewrite G by auto. apply E1; auto.
  - intros H2 i j Hi Hj. rewrite H by auto. apply E2; auto.
Qed.

Lemma jeq_refl n o J : jeq n o J J.
Proof. split; [reflexivity|]. split; intros; reflexivity. Qed.

(* a constant operand: immediate or plain Float64 register *)
Lemma rep_bare n o v : rep n o (bare v) (jconst v).
Proof.
  split; [split; cbn; intros; lia|]. split; [intros i j; reflexivity|]. split; [reflexivity|].
  split; [right; split; reflexivity|]. split; intros; reflexivity.
Qed.
Lemma rep_im n o (s : StR) v : rep n o (rd s (Im v)) (jconst v).
Proof. apply rep_bare. Qed.

Lemma rep_gd_const n o r J i : rep n o r J -> rorder r = 0%nat -> gdR r i = 0.
Proof. intros _ H0. unfold gd. rewrite H0. reflexivity. Qed.

(* ------------------------------------------------------------------ state folds that touch one register *)
Lemma fold_state_reg {X} (c : nat) (step : StR -> X -> StR) (f : Reg R -> X -> Reg R) (s : StR) :
  (forall s' x, frame c s s' -> step s' x c = f (s' c) x /\ frame c s' (step s' x)) ->
  forall l s', frame c s s' -> fold_left step l s' c = fold_left f l (s' c) /\ frame c s (fold_left step l s').
Proof.
  intros Hstep. induction l as [|x l IH]; intros s' Hs'; cbn [fold_left].
  - split; [reflexivity|exact Hs'].
  - destruct (Hstep s' x Hs') as [E Fr].
    assert (Hs'' : frame c s (step s' x)) by (intros q Hq; rewrite Fr by auto; apply Hs'; auto).
    destruct (IH (step s' x) Hs'') as [E2 F2]. split; [rewrite E2, E; reflexivity|exact F2].
Qed.

Lemma fold_set_d (g : nat -> R) : forall l (r : Reg R),
  fold_left (fun r i => set_d idR r i (g i)) l r =
  mkReg (rk r) (rval r) (rorder r) (rn r) (fold_left (fun d i => upd_nth i (g i) d) l (rderiv r)) (rhess r).
Proof.
  induction l as [|i l IH]; intros r; cbn [fold_left]; [destruct r; reflexivity|].
  rewrite IH. unfold set_d. cbn [rk rval rorder rn rderiv rhess]. rewrite rndk_id. reflexivity.
Qed.
Lemma fold_set_h (v : nat -> nat -> R) : forall ps (r : Reg R),
  fold_left (fun r p => set_h idR r (fst p) (snd p) (v (fst p) (snd p))) ps r =
  mkReg (rk r) (rval r) (rorder r) (rn r) (rderiv r)
        (fold_left (fun h p => hset h (fst p) (snd p) (v (fst p) (snd p))) ps (rhess r)).
Proof.
  induction ps as [|p ps IH]; intros r; cbn [fold_left]; [destruct r; reflexivity|].
  rewrite IH. unfold set_h. cbn [rk rval rorder rn rderiv rhess]. rewrite rndk_id. reflexivity.
Qed.

Lemma rd_frame c (s s' : StR) (b : opd R) : not_reg b c -> frame c s s' -> rd s' b = rd s b.
Proof. intros Hb Fr. destruct b as [k|v]; simpl; [|reflexivity]. apply Fr. apply Hb. reflexivity. Qed.

Lemma square_ge_of_square n (h : list (list R)) : square n h -> square_ge n h = true.
Proof.
  intros [Hl Hr]. unfold square_ge. apply andb_true_iff. split; [apply Nat.leb_le; lia|].
  rewrite firstn_all2 by lia.
  apply forallb_forall. intros row Hin. apply Nat.leb_le.
  destruct (In_nth _ _ [] Hin) as [k [Hk E]]. rewrite <- E. rewrite Hr by lia. lia.
Qed.

(* ------------------------------------------------------------------ Set *)
Theorem set_reg_spec c b (s : StR) :
  wf (s c) -> wf (rd s b) -> not_reg b c ->
  exists s', set_reg F idR c b s = Ok s' /\ frame c s s' /\ rk (s' c) = rk (s c) /\
    wf (s' c) /\ rval (s' c) = rval (rd s b) /\ rorder (s' c) = rorder (rd s b) /\ rn (s' c) = rn (rd s b) /\
    (forall i, gdR (s' c) i = gdR (rd s b) i) /\ (forall i j, ghR (s' c) i j = ghR (rd s b) i j).
Proof.
  intros Hwc Hwb Hb. unfold set_reg.
  set (B := rd s b). set (n := rn B).
  set (r1 := mkReg (rk (s c)) (rndk idR (rk (s c)) (rval B)) (rorder (s c)) (rn (s c)) (rderiv (s c)) (rhess (s c))).
  set (r2 := alloc F r1 n (rorder B)).
  assert (Hw2 : wf r2) by (apply wf_alloc; exact Hwc).
  assert (Ho2 : rorder r2 = rorder B) by apply alloc_order.
  assert (Hn2 : rn r2 = n) by apply alloc_n.
  assert (Hk2 : rk r2 = rk (s c) /\ rval r2 = rval B).
  { destruct (alloc_kv S r1 n (rorder B)) as [A1 A2]. fold r2 in A1, A2. rewrite A1, A2. unfold r1; cbn. rewrite rndk_id. auto. }
  destruct Hk2 as [Hk2 Hv2].
  destruct (Nat.leb_spec 1 (rorder r2)) as [H1|H1].
  2:{ eexists. split; [reflexivity|]. split; [intros q Hq; apply upd_other; auto|]. rewrite upd_same.
      split; [exact Hk2|]. split; [exact Hw2|]. split; [exact Hv2|]. split; [exact Ho2|]. split; [exact Hn2|].
      split.
      - intro i. unfold gd. rewrite Ho2. fold B. destruct (Nat.leb_spec 1 (rorder B)); [lia|reflexivity].
      - intros i j. unfold gh. rewrite Ho2. fold B. destruct (Nat.leb_spec 2 (rorder B)); [lia|reflexivity]. }
  assert (Hl2 : length (rderiv r2) = n) by (destruct Hw2 as [Q _]; rewrite Q by auto; exact Hn2).
  destruct (Nat.leb_spec n (length (rderiv r2))) as [_|L]; [|lia]. cbn [negb].
  set (s1 := upd s c r2).
  assert (Fr1 : frame c s s1) by (intros q Hq; apply upd_other; auto).
  (* gradient loop *)
  destruct (fold_state_reg c (fun s0 i => upd s0 c (set_d idR (s0 c) i (gdR (rd s0 b) i)))
              (fun r i => set_d idR r i (gdR B i)) s) with (l := seq 0 n) (s' := s1) as [Eg Frg].
  { intros s' x Fr. split; [rewrite upd_same, (rd_frame c s s' b Hb Fr); reflexivity|intros q Hq; apply upd_other; auto]. }
  { exact Fr1. }
  set (s2 := fold_left (fun s0 i => upd s0 c (set_d idR (s0 c) i (gdR (rd s0 b) i))) (seq 0 n) s1) in *.
  unfold s1 in Eg. rewrite upd_same, fold_set_d in Eg.
  destruct (dfill (gdR B) (seq 0 n) (rderiv r2)) as [DL [DV DO]].
  assert (Hgd2 : forall i, gdR (s2 c) i = gdR B i).
  { intro i. rewrite Eg. unfold gd at 1. cbn [rorder rderiv]. destruct (Nat.leb_spec 1 (rorder r2)); [|lia].
    destruct (le_lt_dec n i) as [Hi|Hi].
    - change (zero F) with 0. rewrite nth_overflow by lia. symmetry. apply gd_oob; auto.
    - apply DV; [apply in_seq; lia|lia]. }
  destruct (Nat.leb_spec 2 (rorder r2)) as [H2|H2].
  - assert (Hsq2 : square n (rhess r2)) by (destruct Hw2 as [_ Q]; rewrite <- Hn2; apply Q; auto).
    assert (Hsq2' : square_ge n (rhess (s2 c)) = true).
    { rewrite Eg. cbn [rhess]. apply square_ge_of_square. exact Hsq2. }
    assert (Hsqg : square_ge n (rhess r2) = true) by (apply square_ge_of_square; exact Hsq2).
    rewrite Hsqg. cbn [negb].
    destruct (fold_state_reg c (fun s0 p => upd s0 c (set_h idR (s0 c) (fst p) (snd p) (ghR (rd s0 b) (fst p) (snd p))))
                (fun r p => set_h idR r (fst p) (snd p) (ghR B (fst p) (snd p))) s) with (l := allpairs n) (s' := s2)
      as [Eh Frh].
    { intros s' x Fr. split; [rewrite upd_same, (rd_frame c s s' b Hb Fr); reflexivity|intros q Hq; apply upd_other; auto]. }
    { exact Frg. }
    eexists. split; [reflexivity|]. split; [exact Frh|].
    rewrite Eh, (fold_set_h (ghR B)), Eg. cbn [rk rval rorder rn rderiv rhess].
    destruct (hfill S (ghR B) n (allpairs n) (rhess r2) Hsq2) as [Q [V O]].
    { intros [x y] Hp. apply in_allpairs in Hp. exact Hp. }
    split; [exact Hk2|].
    split; [split; cbn [rorder rn rderiv rhess]; intros _; [rewrite DL; lia|rewrite Hn2; exact Q]|].
    split; [exact Hv2|]. split; [exact Ho2|]. split; [exact Hn2|]. split.
    + intro i. rewrite <- Hgd2, Eg. reflexivity.
    + intros i j. unfold gh at 1. cbn [rorder rhess]. destruct (Nat.leb_spec 2 (rorder r2)); [|lia].
      destruct (le_lt_dec n i) as [Hi|Hi].
      { rewrite (gh_oob S B) by (auto). unfold hget. destruct Q as [Ql _]. rewrite (nth_overflow _ []) by lia. destruct j; reflexivity. }
      destruct (le_lt_dec n j) as [Hj|Hj].
      { rewrite (gh_oob S B) by (auto). unfold hget. destruct Q as [_ Qr]. apply nth_overflow. rewrite Qr by auto. exact Hj. }
      apply V. apply in_allpairs. auto.
  - eexists. split; [reflexivity|]. split; [exact Frg|]. rewrite Eg. cbn [rk rval rorder rn rderiv rhess].
    split; [exact Hk2|].
    split; [split; cbn [rorder rn rderiv rhess]; intros H; [rewrite DL; lia|lia]|].
    split; [exact Hv2|]. split; [exact Ho2|]. split; [exact Hn2|]. split.
    + intro i. rewrite <- Hgd2, Eg. reflexivity.
    + intros i j. unfold gh. cbn [rorder]. rewrite Ho2. fold B. destruct (Nat.leb_spec 2 (rorder B)); [lia|reflexivity].
Qed.


Theorem rep_set n o c b (s : StR) B :
  wf (s c) -> rep n o (rd s b) B -> not_reg b c ->
  exists s', set_reg F idR c b s = Ok s' /\ frame c s s' /\ rk (s' c) = rk (s c) /\ rep n o (s' c) B /\
             rorder (s' c) = rorder (rd s b) /\ rn (s' c) = rn (rd s b).
Proof.
  intros Hwc [Wb [Sb [Vb [Cb [Gb Hb]]]]] Hnb.
  destruct (set_reg_spec c b s Hwc Wb Hnb) as [s' [E [Fr [K [W [V [O [N [G H]]]]]]]]].
  exists s'. split; [exact E|]. split; [exact Fr|]. split; [exact K|]. split; [|split; assumption].
  split; [exact W|]. split; [intros i j; rewrite !H; apply Sb|]. split; [congruence|].
  split; [rewrite O, N; exact Cb|]. split.
  - intros H1 i Hi. rewrite G. apply Gb; auto.
  - intros H2 i j Hi Hj. rewrite H. apply Hb; auto.
Qed.

(* ------------------------------------------------------------------ SetVariable *)
Lemma nth_repeat0 n i : nth i (repeat 0 n) 0 = 0.
Proof. destruct (le_lt_dec n i); [apply nth_overflow; rewrite repeat_length; auto|apply nth_repeat_any; auto]. Qed.
Lemma hget_repeat0 n i j : hgetR (repeat (repeat 0 n) n) i j = 0.
Proof.
  unfold hget. destruct (le_lt_dec n i) as [Hi|Hi].
  - rewrite (nth_overflow _ []) by (rewrite repeat_length; auto). destruct j; reflexivity.
  - rewrite nth_repeat_any by auto. apply nth_repeat0.
Qed.

Lemma alloc_shape (r : Reg R) n o : rorder (alloc F r n o) = o /\ rn (alloc F r n o) = n /\
  rk (alloc F r n o) = rk r /\ rval (alloc F r n o) = rval r.
Proof.
  unfold alloc. destruct (Nat.eqb_spec (rn r) n) as [E1|E1]; destruct (Nat.eqb_spec (rorder r) o) as [E2|E2];
    cbn [andb rorder rn rk rval]; auto.
Qed.

(* SetVariable on ANY well-formed receiver (HEAD 8241a1e clears recycled storage): fresh, of another shape, or already
   holding n variables at this order with the derivatives of an earlier computation *)
Theorem rep_setvar_any n o c k (s : StR) :
  (1 <= o)%nat -> (k < n)%nat -> wf (s c) ->
  exists s', set_variable F idR c k n o s = Ok s' /\ frame c s s' /\ rk (s' c) = rk (s c) /\
             rep n o (s' c) (jvar (rval (s c)) k).
Proof.
  intros H1 Hk Hw. unfold set_variable.
  destruct (alloc_shape (s c) n o) as [Ao [An [Ak Av]]].
  destruct (reset_derivs_facts S (alloc F (s c) n o) (wf_alloc S _ n o Hw)) as [W [K [V [O [N [G H]]]]]].
  set (r2 := reset_derivs F (alloc F (s c) n o)) in *.
  assert (Ro : rorder r2 = o) by congruence. assert (Rn : rn r2 = n) by congruence.
  assert (Ld : length (rderiv r2) = n) by (destruct W as [Wd _]; rewrite Wd by lia; exact Rn).
  destruct (Nat.leb_spec 1 o); [|lia]. rewrite Ld. destruct (Nat.ltb_spec k n); [|lia].
  eexists. split; [reflexivity|]. split; [intros q Hq; apply upd_other; auto|]. rewrite upd_same.
  unfold set_d. cbn [rk]. rewrite rndk_id. split; [congruence|].
  assert (Hgh : forall i j, ghR (mkReg (rk r2) (rval r2) (rorder r2) (rn r2) (upd_nth k (one F) (rderiv r2)) (rhess r2)) i j = 0).
  { intros i j. rewrite <- (H i j). reflexivity. }
  split.
  { destruct W as [Wd Wh]. split; cbn [rorder rn rderiv rhess]; intros Ho; [rewrite length_upd_nth; auto|auto]. }
  split; [intros i j; rewrite !Hgh; reflexivity|]. split; [cbn [rval jvar jv]; congruence|].
  split; [left; split; assumption|]. split.
  - intros _ i Hi. unfold gd. cbn [rorder rderiv jvar jg]. rewrite Ro. destruct (Nat.leb_spec 1 o); [|lia].
    destruct (Nat.eqb_spec i k) as [E|E].
    + subst i. apply nth_upd_nth_same. rewrite Ld. auto.
    + rewrite nth_upd_nth_other by auto. specialize (G i). unfold gd in G. rewrite Ro in G.
      destruct (Nat.leb_spec 1 o); [exact G|lia].
  - intros _ i j _ _. rewrite Hgh. reflexivity.
Qed.

(* the same when the receiver is reallocated (no well-formedness needed: Alloc hands out fresh zeroed storage) *)
Theorem rep_setvar n o c k (s : StR) :
  (1 <= o)%nat -> (k < n)%nat -> (rn (s c) <> n \/ rorder (s c) <> o) ->
  exists s', set_variable F idR c k n o s = Ok s' /\ frame c s s' /\ rk (s' c) = rk (s c) /\
             rep n o (s' c) (jvar (rval (s c)) k).
Proof.
  intros H1 Hk Hne.
  assert (Ea : alloc F (s c) n o =
               mkReg (rk (s c)) (rval (s c)) o n (repeat 0 n) (if (2 <=? o)%nat then repeat (repeat 0 n) n else [])).
  { unfold alloc. destruct (Nat.eqb_spec (rn (s c)) n) as [E1|E1]; destruct (Nat.eqb_spec (rorder (s c)) o) as [E2|E2];
      cbn [andb]; try (exfalso; tauto); destruct (Nat.leb_spec 1 o); try lia; reflexivity. }
  (* run SetVariable on the state whose receiver is already the freshly allocated register: same result *)
  set (s0 := upd s c (alloc F (s c) n o)).
  assert (W0 : wf (s0 c)).
  { unfold s0. rewrite upd_same, Ea. split; cbn [rorder rn rderiv rhess]; intros Ho; [apply repeat_length|].
    destruct (Nat.leb_spec 2 o); [|lia]. apply (square_repeat S). }
  destruct (rep_setvar_any n o c k s0 H1 Hk W0) as [s' [E [Fr [K R']]]].
  assert (Eal : alloc F (s0 c) n o = alloc F (s c) n o).
  { unfold s0. rewrite upd_same. destruct (alloc_shape (s c) n o) as [Ao [An _]].
    unfold alloc at 1. rewrite An, Ao, !Nat.eqb_refl. reflexivity. }
  exists s'. split.
  { unfold set_variable in *. rewrite Eal in E. rewrite <- E.
    destruct (1 <=? o)%nat; [destruct (_ <? _)%nat; [|reflexivity]|]; f_equal; unfold s0;
      apply FunctionalExtensionality.functional_extensionality; intro q; unfold upd; destruct (Nat.eqb q c); reflexivity. }
  split; [intros q Hq; rewrite Fr by exact Hq; unfold s0; apply upd_other; auto|].
  destruct (alloc_shape (s c) n o) as [_ [_ [Ak Av]]].
  split; [rewrite K; unfold s0; rewrite upd_same; exact Ak|].
  replace (rval (s c)) with (rval (s0 c)) by (unfold s0; rewrite upd_same; exact Av). exact R'.
Qed.

(* ------------------------------------------------------------------ Reset / SetFloat64 *)
Theorem rep_reset n o c (s : StR) :
  wf (s c) -> ((rorder (s c) = o /\ rn (s c) = n) \/ (rorder (s c) = 0 /\ rn (s c) = 0)%nat) ->
  exists s', do_reset F c s = Ok s' /\ frame c s s' /\ rk (s' c) = rk (s c) /\ rep n o (s' c) (jconst 0).
Proof.
  intros Hw Hc. destruct (reset_clears_all_slots S c s Hw) as [s' [E [Fr [W [K [V [O [N [G H]]]]]]]]].
  exists s'. split; [exact E|]. split; [exact Fr|]. split; [exact K|].
  split; [exact W|]. split; [intros i j; rewrite !H; reflexivity|]. split; [exact V|].
  split; [rewrite O, N; exact Hc|]. split; intros; [apply G|apply H].
Qed.
Theorem rep_setf n o c v (s : StR) :
  wf (s c) -> ((rorder (s c) = o /\ rn (s c) = n) \/ (rorder (s c) = 0 /\ rn (s c) = 0)%nat) ->
  exists s', do_setf F idR c v s = Ok s' /\ frame c s s' /\ rk (s' c) = rk (s c) /\ rep n o (s' c) (jconst v).
Proof.
  intros Hw Hc. destruct (setfloat_clears_all_slots S c v s Hw) as [s' [E [Fr [W [K [V [O [N [G H]]]]]]]]].
  exists s'. split; [exact E|]. split; [exact Fr|]. split; [exact K|].
  split; [exact W|]. split; [intros i j; rewrite !H; reflexivity|]. split; [exact V|].
  split; [rewrite O, N; exact Hc|]. split; intros; [apply G|apply H].
Qed.

(* ------------------------------------------------------------------ table operations *)
Lemma rep_shape n o r J : rep n o r J ->
  (rorder r = o /\ rn r = n) \/ (rorder r = 0 /\ rn r = 0)%nat.
Proof. intros [_ [_ [_ [C _]]]]. exact C. Qed.

Theorem rep_mon n o op c a (s : StR) A :
  wf (s c) -> rep n o (rd s a) A ->
  exists s', do_mon F idR op c a s = Ok s' /\ frame c s s' /\ rk (s' c) = rk (s c) /\
    rep n o (s' c) (jmon (m_v0 F op (jv A)) (m_f1 F op (jv A)) (m_f2 F op (jv A)) A) /\
    rorder (s' c) = rorder (rd s a) /\ rn (s' c) = rn (rd s a).
Proof.
  intros Hwc [Wa [Sa [Va [Ca [Ga Ha]]]]].
  destruct (monadic_spec S c a (m_v0 F op (jv A)) (m_f1 F op (jv A)) (m_f2 F op (jv A)) s Hwc Wa Sa)
    as [s' [E [Fr [K [V [O [N [W [G H]]]]]]]]].
  exists s'. split.
  { unfold do_mon. rewrite Va. exact E. }
  split; [exact Fr|]. split; [exact K|]. split; [|split; assumption].
  assert (Hsym : sym_reg S (s' c)).
  { apply sym_of_range; [exact W|]. intros i j Hi Hj. rewrite N in Hi, Hj.
    destruct (le_lt_dec 2 (rorder (rd s a))) as [H2|H2].
    - rewrite !H by auto. rewrite (Sa i j). ring.
    - unfold gh. rewrite O. destruct (Nat.leb_spec 2 (rorder (rd s a))); [lia|reflexivity]. }
  split; [exact W|]. split; [exact Hsym|]. split; [exact V|]. split; [rewrite O, N; exact Ca|]. split.
  - intros H1 i Hi. cbn [jmon jg]. destruct Ca as [[Co Cn]|[Co Cn]].
    + rewrite G by lia. rewrite Ga by auto. reflexivity.
    + unfold gd at 1. rewrite O, Co. leb0. rewrite <- Ga by auto. unfold gd. rewrite Co. leb0. unfold zero, lit; simpl; ring.
  - intros H2 i j Hi Hj. cbn [jmon jh jg]. destruct Ca as [[Co Cn]|[Co Cn]].
    + rewrite H by lia. rewrite !Ga, Ha by (auto; lia). reflexivity.
    + unfold gh at 1. rewrite O, Co. leb0. rewrite <- !Ga, <- Ha by (auto; lia). unfold gd, gh. rewrite Co. leb0. unfold zero, lit; simpl; ring.
Qed.

Lemma dy_guard_rep n o A B (ra rb : Reg R) : rep n o ra A -> rep n o rb B -> dy_guard ra rb = None.
Proof.
  intros Ra Rb. apply rep_shape in Ra. apply rep_shape in Rb. unfold dy_guard.
  destruct Ra as [[Oa Na]|[Oa Na]]; destruct Rb as [[Ob Nb]|[Ob Nb]]; rewrite Oa, Ob, Na, Nb;
    repeat match goal with
           | |- context [(?a <=? ?b)%nat] => destruct (Nat.leb_spec a b)
           | |- context [(?a <? ?b)%nat] => destruct (Nat.ltb_spec a b)
           | |- context [Nat.eqb ?a ?b] => destruct (Nat.eqb_spec a b)
           end; cbn; try reflexivity; try lia.
Qed.

Theorem rep_dy n o op c a b (s : StR) A B :
  wf (s c) -> rep n o (rd s a) A -> rep n o (rd s b) B -> alloc_keeps c a b s ->
  exists s', do_dy F idR op c a b s = Ok s' /\ frame c s s' /\ rk (s' c) = rk (s c) /\
    rep n o (s' c) (jdy (d_v0 F op (jv A) (jv B)) (d_f10 F op (jv A) (jv B)) (d_f01 F op (jv A) (jv B))
                        (d_f11 F op (jv A) (jv B)) (d_f20 F op (jv A) (jv B)) (d_f02 F op (jv A) (jv B)) A B) /\
    rorder (s' c) = Nat.max (rorder (rd s a)) (rorder (rd s b)) /\ rn (s' c) = Nat.max (rn (rd s a)) (rn (rd s b)).
Proof.
  intros Hwc RA RB Hkeep.
  pose proof (dy_guard_rep n o A B _ _ RA RB) as Hguard.
  destruct RA as [Wa [Sa [Va [Ca [Ga Ha]]]]]. destruct RB as [Wb [Sb [Vb [Cb [Gb Hb]]]]].
  set (x := jv A). set (y := jv B).
  destruct (dyadic_spec S c a b (d_v0 F op x y) (d_f10 F op x y) (d_f01 F op x y) (d_f11 F op x y)
              (d_f20 F op x y) (d_f02 F op x y) s Hwc Wa Wb Sa Sb Hguard Hkeep)
    as [s' [E [Fr [K [V [O [N [W [G H]]]]]]]]].
  exists s'. split.
  { unfold do_dy. rewrite Va, Vb. exact E. }
  split; [exact Fr|]. split; [exact K|]. split; [|split; assumption].
  set (nn := Nat.max (rn (rd s a)) (rn (rd s b))) in *. set (oo := Nat.max (rorder (rd s a)) (rorder (rd s b))) in *.
  assert (Hsym : sym_reg S (s' c)).
  { apply sym_of_range; [exact W|]. intros i j Hi Hj. rewrite N in Hi, Hj.
    destruct (le_lt_dec 2 oo) as [H2|H2].
    - rewrite !H by auto. rewrite (Sa i j), (Sb i j). ring.
    - unfold gh. rewrite O. destruct (Nat.leb_spec 2 oo); [lia|reflexivity]. }
  split; [exact W|]. split; [exact Hsym|]. split; [exact V|].
  assert (Hshape : (oo = o /\ nn = n) \/ (oo = 0 /\ nn = 0)%nat).
  { unfold oo, nn. destruct Ca as [[Oa Na]|[Oa Na]]; destruct Cb as [[Ob Nb]|[Ob Nb]]; rewrite Oa, Ob, Na, Nb;
      rewrite ?Nat.max_id, ?Nat.max_0_r, ?Nat.max_0_l; auto. }
  split; [rewrite O, N; exact Hshape|]. split.
  - intros H1 i Hi. cbn [jdy jg]. destruct Hshape as [[Eo En]|[Eo En]].
    + rewrite G by lia. rewrite Ga, Gb by auto. reflexivity.
    + unfold gd at 1. rewrite O, Eo. leb0. rewrite <- Ga, <- Gb by auto.
      assert (Za : rorder (rd s a) = 0%nat) by (unfold oo in Eo; lia). assert (Zb : rorder (rd s b) = 0%nat) by (unfold oo in Eo; lia).
      unfold gd. rewrite Za, Zb. leb0. unfold zero, lit; simpl; ring.
  - intros H2 i j Hi Hj. cbn [jdy jh jg]. destruct Hshape as [[Eo En]|[Eo En]].
    + rewrite H by lia. rewrite !Ga, !Gb, Ha, Hb by (auto; lia). reflexivity.
    + unfold gh at 1. rewrite O, Eo. leb0. rewrite <- !Ga, <- !Gb, <- Ha, <- Hb by (auto; lia).
      assert (Za : rorder (rd s a) = 0%nat) by (unfold oo in Eo; lia). assert (Zb : rorder (rd s b) = 0%nat) by (unfold oo in Eo; lia).
      unfold gd, gh. rewrite Za, Zb. leb0. unfold zero, lit; simpl; ring.
Qed.

(* receiver not among the operands: AllocForTwo cannot disturb them *)
Lemma alloc_keeps_fresh c a b (s : StR) : not_reg a c -> not_reg b c -> alloc_keeps c a b s.
Proof. intros Ha Hb k [E|E] Ek; exfalso; [apply (Ha k)|apply (Hb k)]; auto. Qed.
(* receiver is an operand that already has the result's shape *)
Lemma alloc_keeps_top n o c a b (s : StR) A B :
  rep n o (rd s a) A -> rep n o (rd s b) B -> rorder (s c) = o -> rn (s c) = n -> alloc_keeps c a b s.
Proof.
  intros RA RB Ho Hn k Hk Ek. subst k. apply rep_shape in RA. apply rep_shape in RB.
  destruct Hk as [E|E]; subst; cbn [rd] in *; lia.
Qed.

(* Pow: exponent of order 0 -> monadic with OPowC; magic exponent -> dyadic OPowV *)
Theorem rep_pow_const n o c a k (s : StR) A :
  wf (s c) -> rep n o (rd s a) A -> rorder (rd s k) = 0%nat ->
  exists s', do_pow F idR c a k s = Ok s' /\ frame c s s' /\ rk (s' c) = rk (s c) /\
    rep n o (s' c) (jmon (m_v0 F (OPowC (rval (rd s k))) (jv A)) (m_f1 F (OPowC (rval (rd s k))) (jv A))
                         (m_f2 F (OPowC (rval (rd s k))) (jv A)) A) /\
    rorder (s' c) = rorder (rd s a) /\ rn (s' c) = rn (rd s a).
Proof.
  intros Hwc RA Hk. unfold do_pow. rewrite Hk. destruct (Nat.leb_spec 1 0); [lia|]. apply rep_mon; auto.
Qed.
Theorem rep_pow_var n o c a k (s : StR) A K :
  wf (s c) -> rep n o (rd s a) A -> rep n o (rd s k) K -> (1 <= rorder (rd s k))%nat -> alloc_keeps c a k s ->
  exists s', do_pow F idR c a k s = Ok s' /\ frame c s s' /\ rk (s' c) = rk (s c) /\
    rep n o (s' c) (jdy (d_v0 F OPowV (jv A) (jv K)) (d_f10 F OPowV (jv A) (jv K)) (d_f01 F OPowV (jv A) (jv K))
                        (d_f11 F OPowV (jv A) (jv K)) (d_f20 F OPowV (jv A) (jv K)) (d_f02 F OPowV (jv A) (jv K)) A K) /\
    rorder (s' c) = Nat.max (rorder (rd s a)) (rorder (rd s k)) /\ rn (s' c) = Nat.max (rn (rd s a)) (rn (rd s k)).
Proof.
  intros Hwc RA RK Hk Hkeep. unfold do_pow. destruct (Nat.leb_spec 1 (rorder (rd s k))); [|lia]. apply rep_dy; auto.
Qed.

End Ops.
