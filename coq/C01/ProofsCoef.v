(* C01/ProofsCoef.v — coefficient correctness: for every operation of the table,
   the closure f1 is the derivative of the value expression v0 and f2 the
   derivative of f1, on the operation's real domain (Coquelicot is_derive). *)
From Coq Require Import Reals ZArith QArith Qreals List Lra Lia.
From Coquelicot Require Import Coquelicot.
From ADV Require Import Base.Fl Base.Num C01.Model C01.ModelR.
Open Scope R_scope.

Definition m_ok (S : Special) (op : mop R) (x : R) : Prop :=
  is_derive (m_v0 (FlR S) op) x (m_f1 (FlR S) op x) /\ is_derive (m_f1 (FlR S) op) x (m_f2 (FlR S) op x).

Ltac unf := unfold m_ok, m_f2, m_f1, m_v0; cbn [m_v0 m_f1 m_f2 FlR fSin fCos fSinh fCosh fTan fTanh fExp fLog fLog1p fneg fadd fsub fmul fdiv
                 fPowZ fPow fofZ fofQ one two zero lit fSqrtPi fPi fErf fErfc fGamma fLgamma fDigamma fTrigamma].

Ltac side := repeat match goal with |- _ /\ _ => split end; auto; try lra; try (apply Rgt_not_eq; lra); try (apply Rlt_not_eq; lra).
Section Coef.
Variable S : Special.
Notation F := (FlR S).

Lemma neg_ok x : m_ok S ONeg x.
Proof. split; unf; auto_derive; auto; try ring; try (simpl; lra). Qed.
Lemma sin_ok x : m_ok S OSin x.
Proof. split; unf; auto_derive; auto; try ring; try (simpl; lra). Qed.
Lemma cos_ok x : m_ok S OCos x.
Proof. split; unf; auto_derive; auto; try ring; try (simpl; lra). Qed.
Lemma exp_ok x : m_ok S OExp x.
Proof. split; unf; auto_derive; auto; try ring; try (simpl; lra). Qed.
Lemma sinh_ok x : m_ok S OSinh x.
Proof.
  split; unf.
  - change sinh with (fun t => (exp t - exp (- t)) / 2). unfold cosh. auto_derive; auto. field.
  - change cosh with (fun t => (exp t + exp (- t)) / 2). unfold sinh. auto_derive; auto. field.
Qed.
Lemma cosh_ok x : m_ok S OCosh x.
Proof.
  split; unf.
  - change cosh with (fun t => (exp t + exp (- t)) / 2). unfold sinh. auto_derive; auto. field.
  - change sinh with (fun t => (exp t - exp (- t)) / 2). unfold cosh. auto_derive; auto. field.
Qed.
Lemma log_ok x : 0 < x -> m_ok S OLog x.
Proof.
  intro H. split; unf.
  - auto_derive; [side|]. field. lra.
  - auto_derive; [side|]. field. lra.
Qed.
Lemma log1p_ok x : -1 < x -> m_ok S OLog1p x.
Proof.
  intro H. split; unf.
  - auto_derive; [side|]. field. lra.
  - auto_derive; [side|]. field. lra.
Qed.
Lemma tan_ok x : cos x <> 0 -> m_ok S OTan x.
Proof.
  intro H. split; unf.
  - change tan with (fun t => sin t / cos t). unfold tan, powerRZ; simpl pow.
    auto_derive; auto. field. auto.
  - change (fun x0 : R => 1 + powerRZ (tan x0) 2) with (fun t => 1 + (sin t / cos t) * ((sin t / cos t) * 1)).
    unfold tan, powerRZ; simpl pow. auto_derive. { repeat split; auto. } field. auto.
Qed.
Lemma tanh_ok x : m_ok S OTanh x.
Proof.
  assert (P : forall t, exp t + exp (- t) <> 0)
    by (intro t; pose proof (exp_pos t); pose proof (exp_pos (- t)); apply Rgt_not_eq; lra).
  assert (P2 : forall t, (exp t + exp (- t)) / 2 <> 0)
    by (intro t; pose proof (exp_pos t); pose proof (exp_pos (- t)); apply Rgt_not_eq; lra).
  split.
  - change (m_v0 F OTanh) with (fun t => ((exp t - exp (- t)) / 2) / ((exp t + exp (- t)) / 2)).
    unf; unfold tanh, sinh, cosh, powerRZ; simpl pow.
    auto_derive. { pose proof (P2 x); pose proof (P x); intuition. } pose proof (P x). field. lra.
  - change (m_f1 F OTanh) with
      (fun t => 1 - (((exp t - exp (- t)) / 2) / ((exp t + exp (- t)) / 2)) *
                    ((((exp t - exp (- t)) / 2) / ((exp t + exp (- t)) / 2)) * 1)).
    unf; unfold tanh, sinh, cosh, powerRZ; simpl pow.
    auto_derive. { pose proof (P2 x); pose proof (P x); intuition. } pose proof (P x). field. lra.
Qed.

(* Pow with a constant exponent, positive base *)
Lemma Rpow_go_pos' x y : 0 < x -> Rpow_go x y = Rpower x y.
Proof. intro H. unfold Rpow_go. destruct (Rlt_dec 0 x) as [_|N]; [reflexivity | contradiction]. Qed.
Lemma Rpow_go_loc x y : 0 < x -> locally x (fun t => Rpower t y = Rpow_go t y).
Proof.
  intro H. generalize (open_gt 0 x H). apply filter_imp. intros t Ht. symmetry. apply Rpow_go_pos'. exact Ht.
Qed.

Lemma Rpower_sub1 x y : 0 < x -> Rpower x (y - 1) = Rpower x y / x.
Proof. intro H. unfold Rminus. rewrite Rpower_plus, Rpower_Ropp, Rpower_1 by auto. reflexivity. Qed.

Lemma is_derive_Rpower_base x y : 0 < x -> is_derive (fun t => Rpower t y) x (Rpower x (y - 1) * y).
Proof.
  intro H. rewrite Rpower_sub1 by auto. unfold Rpower. auto_derive; auto. field. lra.
Qed.

Lemma powc_ok y x : 0 < x -> m_ok S (OPowC y) x.
Proof.
  intro H. split; unf.
  - apply (is_derive_ext_loc (fun t => Rpower t y)); [apply Rpow_go_loc; auto|].
    rewrite Rpow_go_pos' by auto. apply is_derive_Rpower_base; auto.
  - apply (is_derive_ext_loc (fun t => Rpower t (y - 1) * y)).
    { generalize (Rpow_go_loc x (y - 1) H). apply filter_imp. intros t Ht. rewrite Ht. reflexivity. }
    rewrite Rpow_go_pos' by auto.
    replace (Rpower x (y - 2) * (y - 1) * y) with (y * (Rpower x (y - 1 - 1) * (y - 1))).
    2:{ replace (y - 1 - 1) with (y - 2) by ring. ring. }
    eapply is_derive_ext; [|apply is_derive_scal, is_derive_Rpower_base; auto].
    intro t. simpl. ring.
Qed.

(* special functions: relative to their defining differential relations *)
Section Spec.
Hypothesis erf_deriv : forall x, is_derive (sErf S) x (2 / sqrt PI * exp (- (x * x))).
Hypothesis erfc_deriv : forall x, is_derive (sErfc S) x (- (2 / sqrt PI * exp (- (x * x)))).
Hypothesis gamma_deriv : forall x, 0 < x -> is_derive (sGamma S) x (sGamma S x * sDigamma S x).
Hypothesis lgamma_deriv : forall x, 0 < x -> is_derive (sLgamma S) x (sDigamma S x).
Hypothesis digamma_deriv : forall x, 0 < x -> is_derive (sDigamma S) x (sTrigamma S x).

Lemma sqrtPI_pos : 0 < sqrt PI. Proof. apply sqrt_lt_R0, PI_RGT_0. Qed.

Lemma erf_ok x : m_ok S OErf x.
Proof.
  pose proof sqrtPI_pos as Hp. pose proof (exp_pos (x * x)) as He.
  split; unf.
  - replace (2 / (exp (x * x) * sqrt PI)) with (2 / sqrt PI * exp (- (x * x))).
    + apply erf_deriv.
    + rewrite exp_Ropp. field; side.
  - auto_derive; [repeat split; auto; apply Rgt_not_eq; apply Rmult_lt_0_compat; lra|].
    field; side.
Qed.
Lemma erfc_ok x : m_ok S OErfc x.
Proof.
  pose proof sqrtPI_pos as Hp. pose proof (exp_pos (x * x)) as He.
  split; unf.
  - replace (-2 / (exp (x * x) * sqrt PI)) with (- (2 / sqrt PI * exp (- (x * x)))).
    + apply erfc_deriv.
    + rewrite exp_Ropp. field; side.
  - auto_derive; [repeat split; auto; apply Rgt_not_eq; apply Rmult_lt_0_compat; lra|].
    field; side.
Qed.
Lemma gamma_ok x : 0 < x -> m_ok S OGamma x.
Proof.
  intro H. split; unf.
  - apply gamma_deriv; auto.
  - evar (d : R). assert (Hd : is_derive (fun t => sGamma S t * sDigamma S t) x d).
    { apply (is_derive_mult (sGamma S) (sDigamma S) x); [apply gamma_deriv; auto|apply digamma_deriv; auto|].
      intros; apply Rmult_comm. }
    unfold d in Hd. replace (sGamma S x * (sDigamma S x * sDigamma S x + sTrigamma S x))
      with (plus (mult (sGamma S x * sDigamma S x) (sDigamma S x)) (mult (sGamma S x) (sTrigamma S x))).
    + exact Hd.
    + unfold plus, mult; simpl. ring.
Qed.
Lemma lgamma_ok x : 0 < x -> m_ok S OLgamma x.
Proof.
  intro H. split; unf.
  - apply (is_derive_ext (sLgamma S)); [intro t; reflexivity|apply lgamma_deriv; auto].
  - apply digamma_deriv; auto.
Qed.
End Spec.

(* ------------------------------------------------------------ dyadic operations *)
Definition d_ok (op : dop) (x y : R) : Prop :=
  is_derive (fun t => d_v0 F op t y) x (d_f10 F op x y) /\
  is_derive (fun t => d_v0 F op x t) y (d_f01 F op x y) /\
  is_derive (fun t => d_f10 F op t y) x (d_f20 F op x y) /\
  is_derive (fun t => d_f10 F op x t) y (d_f11 F op x y) /\
  is_derive (fun t => d_f01 F op t y) x (d_f11 F op x y) /\
  is_derive (fun t => d_f01 F op x t) y (d_f02 F op x y).

Ltac dunf := unfold d_v0, d_f10, d_f01, d_f11, d_f20, d_f02; cbn [d_v0 d_f10 d_f01 d_f11 d_f20 d_f02 FlR fadd fsub fmul fdiv fneg fofZ one two zero lit].

Lemma add_ok x y : d_ok OAdd x y.
Proof. unfold d_ok; dunf; (split; [|split; [|split; [|split; [|split]]]]); auto_derive; auto; try ring; try (simpl; lra). Qed.
Lemma sub_ok x y : d_ok OSub x y.
Proof. unfold d_ok; dunf; (split; [|split; [|split; [|split; [|split]]]]); auto_derive; auto; try ring; try (simpl; lra). Qed.
Lemma mul_ok x y : d_ok OMul x y.
Proof. unfold d_ok; dunf; (split; [|split; [|split; [|split; [|split]]]]); auto_derive; auto; try ring; try (simpl; lra). Qed.
Lemma div_ok x y : y <> 0 -> d_ok ODiv x y.
Proof.
  intro H. assert (H2 : y * y <> 0) by (apply Rmult_integral_contrapositive_currified; auto).
  unfold d_ok; dunf; (split; [|split; [|split; [|split; [|split]]]]); auto_derive; auto; field; auto.
Qed.

End Coef.
