(* C01/ProofsFar.v — round 7: the operand-ordering prologue of LogAdd keeps exp() away from overflow.
   On the model, whichever operand is larger, the temporary t of c.LogAdd(a, b, t) ends with the value
   ln (1 + exp (min - max)): the argument handed to exp is never positive, and the temporary lies in
   (0, ln 2] however far apart the operands are. *)
From Coq Require Import Reals ZArith QArith Qreals List Bool Arith Lia Lra.
From Coquelicot Require Import Coquelicot.
From ADV Require Import Base.Fl Base.Num C01.Model C01.ModelR C01.Spec C01.ProofsList C01.ProofsComb C01.ProofsStore
     C01.ProofsOps C01.ProofsCoef C01.ProofsProg C01.ModelVariants C01.ProofsAlias.
Import ListNotations.
Open Scope R_scope.
Local Arguments Nat.leb : simpl never.
Local Arguments Nat.eqb : simpl never.
Local Arguments Nat.ltb : simpl never.

Section Far.
Variable S : Special.
Notation F := (FlR S).
Notation StR := (@St R).

Ltac unfold_jets :=
  cbn [jdy jmon jconst jv jg jh m_v0 m_f1 m_f2 d_v0 d_f10 d_f01 d_f11 d_f20 d_f02 FlR
       fneg fExp fLog fLog1p fadd fsub fdiv fmul fofZ fofQ fPow one two zero lit].

Lemma logadd_core_tmp n o c a b t (s : StR) A B :
  wf (s c) -> wf (s t) -> t <> c -> not_reg a t -> not_reg b t -> not_reg b c ->
  rep S n o (rd s a) A -> rep S n o (rd s b) B ->
  exists s', seqm [do_dy F idR OSub t a b; do_mon F idR OExp t (Rg t); do_mon F idR OLog1p t (Rg t);
                   do_dy F idR OAdd c (Rg t) b] s = Ok s' /\
    rval (s' t) = ln (1 + exp (jv A - jv B)).
Proof.
  intros Hwc Hwt Htc Hat Hbt Hbc RA RB.
  destruct (rep_dy S n o OSub t a b s A B Hwt RA RB (alloc_keeps_fresh t a b s Hat Hbt)) as [s1 [E1 [F1 [_ [R1 _]]]]].
  destruct (rep_mon S n o OExp t (Rg t) s1 _ (rep_wf _ _ _ _ _ R1) R1) as [s2 [E2 [F2 [_ [R2 _]]]]].
  destruct (rep_mon S n o OLog1p t (Rg t) s2 _ (rep_wf _ _ _ _ _ R2) R2) as [s3 [E3 [F3 [_ [R3 _]]]]].
  assert (Hc3 : s3 c = s c) by (rewrite F3, F2, F1; auto).
  assert (Eb3 : rd s3 b = rd s b).
  { destruct b as [k|v]; cbn [rd]; [|reflexivity]. assert (k <> t) by (apply Hbt; reflexivity). rewrite F3, F2, F1; auto. }
  destruct (rep_dy S n o OAdd c (Rg t) b s3 _ B ltac:(rewrite Hc3; exact Hwc) R3 ltac:(rewrite Eb3; exact RB)
              (alloc_keeps_fresh c (Rg t) b s3 ltac:(intros k Ek; inversion Ek; subst; auto) Hbc))
    as [s4 [E4 [F4 [_ [R4 _]]]]].
  exists s4. split.
  { rewrite (seqm_step _ _ _ _ E1), (seqm_step _ _ _ _ E2), (seqm_step _ _ _ _ E3), (seqm_step _ _ _ _ E4). apply seqm_nil. }
  rewrite F4 by auto.
  destruct R3 as [_ [_ [V _]]]. cbn [rd] in V. rewrite V.
  unfold_jets. reflexivity.
Qed.

(* the temporary of LogAdd after the program, for either operand order *)
Theorem logadd_tmp_bounded n o c a b t (s : StR) A B :
  wf (s c) -> wf (s t) -> t <> c -> not_reg a t -> not_reg b t -> not_reg a c -> not_reg b c ->
  rep S n o (rd s a) A -> rep S n o (rd s b) B ->
  exists s', (do_logadd F idR c a b t s = Ok s') /\
    (rval (s' t) = ln (1 + exp (Rmin (jv A) (jv B) - Rmax (jv A) (jv B)))) /\
    (Rmin (jv A) (jv B) - Rmax (jv A) (jv B) <= 0) /\ (0 < rval (s' t) <= ln 2).
Proof.
  intros Hwc Hwt Htc Hat Hbt Hac Hbc RA RB.
  assert (Hle : Rmin (jv A) (jv B) - Rmax (jv A) (jv B) <= 0).
  { pose proof (Rmin_l (jv A) (jv B)). pose proof (Rmax_l (jv A) (jv B)). lra. }
  assert (Hb : forall u, u <= 0 -> 0 < ln (1 + exp u) <= ln 2).
  { intros u Hu. pose proof (exp_pos u) as Hp.
    assert (exp u <= 1) by (rewrite <- exp_0; destruct Hu as [Hu|Hu]; [left; apply exp_increasing; exact Hu|rewrite Hu; right; reflexivity]).
    split.
    - rewrite <- ln_1. apply ln_increasing; lra.
    - destruct (Req_dec (exp u) 1) as [E|E]; [rewrite E; replace (1 + 1) with 2 by ring; right; reflexivity|].
      left. apply ln_increasing; lra. }
  unfold do_logadd. rewrite !rndk_id.
  assert (Va : rval (rd s a) = jv A) by (destruct RA as [_ [_ [V _]]]; exact V).
  assert (Vb : rval (rd s b) = jv B) by (destruct RB as [_ [_ [V _]]]; exact V).
  rewrite Va, Vb. cbn [fltb FlR]. unfold Rltb. destruct (Rlt_dec (jv B) (jv A)) as [L|L]; cbn [is_inf fisinf FlR].
  - unfold is_inf. cbn [fisinf FlR].
    destruct (logadd_core_tmp n o c b a t s B A Hwc Hwt Htc Hbt Hat Hac RB RA) as [s' [E V]].
    exists s'. split; [exact E|]. rewrite Rmin_right, Rmax_left by lra.
    split; [exact V|]. split; [lra|]. rewrite V. apply Hb. lra.
  - unfold is_inf. cbn [fisinf FlR].
    destruct (logadd_core_tmp n o c a b t s A B Hwc Hwt Htc Hat Hbt Hbc RA RB) as [s' [E V]].
    exists s'. split; [exact E|]. rewrite Rmin_left, Rmax_right by lra.
    split; [exact V|]. split; [lra|]. rewrite V. apply Hb. lra.
Qed.
End Far.


(* non-vacuity: operands 998 apart (exp 998 is not representable in binary64), c and t two further registers *)
Lemma logadd_far_hyps :
  let s : @St R := upd (upd stR0 0 (mkReg K64 2 1 1 [1] [])) 1 (mkReg K64 1000 1 1 [5] []) in
  wf (s 2%nat) /\ wf (s 3%nat) /\ 3%nat <> 2%nat /\ not_reg (Rg 0) 3 /\ not_reg (Rg 1) 3 /\ not_reg (Rg 0) 2 /\ not_reg (Rg 1) 2 /\
  rep Sp0 1 1 (rd s (Rg 0)) (jvar 2 0) /\ rep Sp0 1 1 (rd s (Rg 1)) (mkJet 1000 (fun _ => 5) (fun _ _ => 0)) /\
  709 < Rmax (jv (jvar 2 0)) 1000 - Rmin (jv (jvar 2 0)) 1000.
Proof.
  cbv zeta. cbn [rd upd Nat.eqb].
  assert (W : forall v d, wf (mkReg K64 v 1 1 [d] [])) by (intros v d; split; cbn; intros; [reflexivity|lia]).
  assert (W0 : wf (mkReg (A := R) K64 0 0 0 [] [])) by (split; cbn; intros; lia).
  assert (Rp : forall v d J, jv J = v -> jg J 0 = d -> rep Sp0 1 1 (mkReg K64 v 1 1 [d] []) J).
  { intros v d J Hv Hd. split; [apply W|]. split; [intros i j; reflexivity|]. split; [cbn; congruence|].
    split; [left; split; reflexivity|]. split.
    - intros _ i Hi. assert (i = 0%nat) by lia. subst. subst. reflexivity.
    - intros H2. lia. }
  split; [exact W0|]. split; [exact W0|]. split; [lia|].
  split; [intros k E; inversion E; lia|]. split; [intros k E; inversion E; lia|].
  split; [intros k E; inversion E; lia|]. split; [intros k E; inversion E; lia|].
  split; [apply Rp; reflexivity|]. split; [apply Rp; reflexivity|].
  cbn [jv jvar]. rewrite Rmax_right, Rmin_left by lra. lra.
Qed.


(* ---------------------------------------------------------------- exact stationary points on a REUSED receiver
   A chain-rule coefficient that is exactly 0 still overwrites the slot: after c.Op(a) at a point where f'(a) = 0
   every gradient slot of c is 0 whatever c held before (stale content of an earlier computation with the same
   N and order), and the Hessian is g_i g_j f''. Same for the two first-order coefficients of a dyadic operation. *)
Lemma stationary_mon S n o op c a (s : @St R) A :
  wf (s c) -> rep S n o (rd s a) A -> m_f1 (FlR S) op (jv A) = 0 ->
  exists s', do_mon (FlR S) idR op c a s = Ok s' /\
    ((1 <= o)%nat -> forall i, (i < n)%nat -> gd (FlR S) (s' c) i = 0) /\
    ((2 <= o)%nat -> forall i j, (i < n)%nat -> (j < n)%nat ->
       gh (FlR S) (s' c) i j = jg A i * jg A j * m_f2 (FlR S) op (jv A)).
Proof.
  intros Hw RA H0.
  destruct (rep_mon S n o op c a s A Hw RA) as [s' [E [_ [_ [Rp _]]]]].
  exists s'. split; [exact E|].
  destruct Rp as [_ [_ [_ [_ [G H]]]]]. split.
  - intros Ho i Hi. rewrite (G Ho i Hi). cbn [jg jmon]. rewrite H0. ring.
  - intros Ho i j Hi Hj. rewrite (H Ho i j Hi Hj). cbn [jh jmon]. rewrite H0. ring.
Qed.

Lemma stationary_dy S n o op c a b (s : @St R) A B :
  wf (s c) -> rep S n o (rd s a) A -> rep S n o (rd s b) B ->
  d_f10 (FlR S) op (jv A) (jv B) = 0 -> d_f01 (FlR S) op (jv A) (jv B) = 0 ->
  exists s', do_dy (FlR S) idR op c a b s = Ok s' /\
    ((1 <= o)%nat -> forall i, (i < n)%nat -> gd (FlR S) (s' c) i = 0).
Proof.
  intros Hw RA RB H10 H01.
  destruct (rep_dy_any S n o op c a b s A B Hw RA RB) as [s' [E [_ [_ [Rp _]]]]].
  exists s'. split; [exact E|].
  destruct Rp as [_ [_ [_ [_ [G _]]]]].
  intros Ho i Hi. rewrite (G Ho i Hi). cbn [jg jdy]. rewrite H10, H01. ring.
Qed.

(* non-vacuity: cos at 0 on a receiver full of stale content; x * x at 0 *)
Lemma stationary_hyps :
  let s : @St R := upd (upd stR0 0 (mkReg K64 0 1 1 [1] [])) 1 (mkReg K64 7 1 1 [3] []) in
  wf (s 1%nat) /\ rep Sp0 1 1 (rd s (Rg 0)) (jvar 0 0) /\
  m_f1 (FlR Sp0) OCos (jv (jvar 0 0)) = 0 /\
  d_f10 (FlR Sp0) OMul (jv (jvar 0 0)) (jv (jvar 0 0)) = 0 /\ d_f01 (FlR Sp0) OMul (jv (jvar 0 0)) (jv (jvar 0 0)) = 0 /\
  gd (FlR Sp0) (s 1%nat) 0 = 3.
Proof.
  cbv zeta. cbn [rd upd Nat.eqb].
  assert (W : forall v d, wf (mkReg K64 v 1 1 [d] [])) by (intros v d; split; cbn; intros; [reflexivity|lia]).
  split; [apply W|]. split.
  { split; [apply W|]. split; [intros i j; reflexivity|]. split; [reflexivity|].
    split; [left; split; reflexivity|]. split.
    - intros _ i Hi. assert (i = 0%nat) by lia. subst. reflexivity.
    - intros H2. lia. }
  cbn [jv jvar m_f1 d_f10 d_f01 FlR fSin fneg].
  split; [rewrite sin_0; ring|]. split; [reflexivity|]. split; [reflexivity|]. reflexivity.
Qed.
