(* C01/ProofsSound.v — soundness of automatic differentiation for whole programs.
   Expression trees over the operation table are compiled to instruction lists in
   SSA-like register discipline (every node writes a register that is not read
   by anything computed before it; the registers it writes may hold ANY
   well-formed stale content: temporaries reused).  Running the compiled program
   on a register file whose first n registers were seeded by
   Variables(order, x_0 .. x_{n-1}) leaves, in the result register, the jet
   [sem e x]; and [sem e] is value / first partials / second partials of the
   denoted function (Coquelicot is_derive along every coordinate). *)
From Coq Require Import Reals ZArith List Bool Arith Lia Lra.
From Coquelicot Require Import Coquelicot.
From ADV Require Import Base.Fl Base.Num C01.Model C01.ModelR C01.Spec C01.ProofsList C01.ProofsComb C01.ProofsStore
     C01.ProofsOps C01.ProofsCoef C01.ProofsJet.
Import ListNotations.
Open Scope R_scope.
Local Arguments Nat.leb : simpl never.
Local Arguments Nat.eqb : simpl never.
Local Arguments Nat.ltb : simpl never.

Inductive expr :=
| EVar (k : nat)                       (* the k-th activated variable *)
| EConst (v : R)                       (* ConstFloat64(v) / Float64 operand *)
| EMon (op : mop R) (e : expr)         (* c.Op(a): Neg Sin .. Exp Log .. Pow(a, const) *)
| EDy (op : dop) (e1 e2 : expr).       (* c.Add/Sub/Mul/Div(a,b); OPowV = Pow(a,b) with a magic exponent *)

Fixpoint wfe (n : nat) (e : expr) : Prop :=
  match e with
  | EVar k => (k < n)%nat
  | EConst _ => True
  | EMon _ e1 => wfe n e1
  | EDy _ e1 e2 => wfe n e1 /\ wfe n e2
  end.
Fixpoint mentions (e : expr) (k : nat) : Prop :=
  match e with
  | EVar i => i = k
  | EConst _ => False
  | EMon _ e1 => mentions e1 k
  | EDy _ e1 e2 => mentions e1 k \/ mentions e2 k
  end.

(* compile e nx = (program, operand holding the result, next free register) *)
Fixpoint compile (e : expr) (nx : nat) : list (instr R) * opd R * nat :=
  match e with
  | EVar k => ([], Rg k, nx)
  | EConst v => ([], Im v, nx)
  | EMon op e1 =>
      let '(p1, a, nx1) := compile e1 nx in (p1 ++ [IMon op nx1 a], Rg nx1, S nx1)
  | EDy op e1 e2 =>
      let '(p1, a, nx1) := compile e1 nx in
      let '(p2, b, nx2) := compile e2 nx1 in
      (p1 ++ p2 ++ [IDy op nx2 a b], Rg nx2, S nx2)
  end.

Section Sound.
Variable S : Special.
Notation F := (FlR S).
Notation StR := (@St R).

(* the jet the program computes, as a function of the evaluation point *)
Fixpoint sem (e : expr) (x : nat -> R) : jet :=
  match e with
  | EVar k => jvar (x k) k
  | EConst v => jconst v
  | EMon op e1 =>
      let A := sem e1 x in jmon (m_v0 F op (jv A)) (m_f1 F op (jv A)) (m_f2 F op (jv A)) A
  | EDy op e1 e2 =>
      let A := sem e1 x in let B := sem e2 x in
      jdy (d_v0 F op (jv A) (jv B)) (d_f10 F op (jv A) (jv B)) (d_f01 F op (jv A) (jv B))
          (d_f11 F op (jv A) (jv B)) (d_f20 F op (jv A) (jv B)) (d_f02 F op (jv A) (jv B)) A B
  end.
(* the denoted real function: composition of the value expressions *)
Definition den (e : expr) (x : nat -> R) : R := jv (sem e x).

(* ------------------------------------------------------------------ running programs *)
Lemma seqm_panic {A} (Fl0 : Fl A) fs e : fold_left (fun m f => bind m f) fs (@Panic (@St A) e) = Panic e.
Proof. induction fs as [|f fs IH]; cbn; auto. Qed.
Lemma run_nil (s : StR) : run F idR [] s = Ok s. Proof. reflexivity. Qed.
Lemma run_app p1 p2 (s : StR) : run F idR (p1 ++ p2) s = bind (run F idR p1 s) (run F idR p2).
Proof.
  unfold run, seqm. rewrite map_app, fold_left_app.
  destruct (fold_left (fun m f => bind m f) (map (exec F idR) p1) (Ok s)) as [s1|e]; cbn [bind]; [reflexivity|].
  apply (seqm_panic F).
Qed.
Lemma run_one i (s : StR) : run F idR [i] s = exec F idR i s.
Proof. reflexivity. Qed.

Definition res_ok (n nx nx' : nat) (a : opd R) : Prop :=
  match a with Im _ => True | Rg k => (k < n)%nat \/ (nx <= k < nx')%nat end.

Theorem compile_sound n o x : forall e nx (s : StR),
  wfe n e -> (n <= nx)%nat ->
  (forall k, (k < n)%nat -> rep S n o (s k) (jvar (x k) k)) ->
  (forall q, (nx <= q)%nat -> wf (s q)) ->
  exists s', run F idR (fst (fst (compile e nx))) s = Ok s' /\
    (nx <= snd (compile e nx))%nat /\
    (forall q, (q < nx)%nat \/ (snd (compile e nx) <= q)%nat -> s' q = s q) /\
    res_ok n nx (snd (compile e nx)) (snd (fst (compile e nx))) /\
    rep S n o (rd s' (snd (fst (compile e nx)))) (sem e x).
Proof.
  induction e as [k|v|op e1 IH1|op e1 IH1 e2 IH2]; intros nx s Hwf Hnx Hvars Hfree; cbn [compile].
  - exists s. cbn [fst snd]. split; [apply run_nil|]. split; [lia|]. split; [auto|]. split; [cbn; left; exact Hwf|].
    cbn [rd sem]. apply Hvars. exact Hwf.
  - exists s. cbn [fst snd]. split; [apply run_nil|]. split; [lia|]. split; [auto|]. split; [exact I|].
    cbn [sem]. apply rep_im.
  - cbn [wfe] in Hwf. destruct (IH1 nx s Hwf Hnx Hvars Hfree) as [s1 [E1 [L1 [K1 [R1 P1]]]]].
    destruct (compile e1 nx) as [[p1 a] nx1] eqn:C1. cbn [fst snd] in *.
    assert (Hwc : wf (s1 nx1)) by (rewrite K1 by lia; apply Hfree; lia).
    destruct (rep_mon S n o op nx1 a s1 (sem e1 x) Hwc P1) as [s2 [E2 [Fr2 [_ [P2 _]]]]].
    exists s2. split; [rewrite run_app, E1; cbn [bind]; rewrite run_one; exact E2|].
    split; [lia|]. split.
    { intros q Hq. rewrite Fr2 by lia. apply K1. lia. }
    split; [cbn; right; lia|]. cbn [rd sem]. exact P2.
  - cbn [wfe] in Hwf. destruct Hwf as [Hwf1 Hwf2].
    destruct (IH1 nx s Hwf1 Hnx Hvars Hfree) as [s1 [E1 [L1 [K1 [R1 P1]]]]].
    destruct (compile e1 nx) as [[p1 a] nx1] eqn:C1. cbn [fst snd] in *.
    assert (Hvars1 : forall k, (k < n)%nat -> rep S n o (s1 k) (jvar (x k) k)).
    { intros k Hk. rewrite K1 by lia. apply Hvars; auto. }
    assert (Hfree1 : forall q, (nx1 <= q)%nat -> wf (s1 q)).
    { intros q Hq. rewrite K1 by lia. apply Hfree. lia. }
    destruct (IH2 nx1 s1 Hwf2 ltac:(lia) Hvars1 Hfree1) as [s2 [E2 [L2 [K2 [R2 P2]]]]].
    destruct (compile e2 nx1) as [[p2 b] nx2] eqn:C2. cbn [fst snd] in *.
    assert (Ha2 : rd s2 a = rd s1 a).
    { destruct a as [k|v]; cbn; [|reflexivity]. apply K2. cbn in R1. lia. }
    assert (Hwc : wf (s2 nx2)).
    { rewrite K2 by lia. rewrite K1 by lia. apply Hfree. lia. }
    assert (Hkeep : alloc_keeps nx2 a b s2).
    { apply alloc_keeps_fresh; intros k Ek; subst.
      - cbn in R1. lia.
      - cbn in R2. lia. }
    rewrite <- Ha2 in P1.
    destruct (rep_dy S n o op nx2 a b s2 (sem e1 x) (sem e2 x) Hwc P1 P2 Hkeep) as [s3 [E3 [Fr3 [_ [P3 _]]]]].
    exists s3. split.
    { rewrite run_app, E1; cbn [bind]. rewrite run_app, E2; cbn [bind]. rewrite run_one. exact E3. }
    split; [lia|]. split.
    { intros q Hq. rewrite Fr3 by lia. rewrite K2 by lia. apply K1. lia. }
    split; [cbn; right; lia|]. cbn [rd sem]. exact P3.
Qed.


(* ------------------------------------------------------------------ the jets are the derivatives *)
(* two-argument chain rule along a curve through (x, y): what differentiability of the
   table entry (and of its two first partials) as functions of two variables provides *)
Definition d_curve (op : dop) (x y : R) : Prop :=
  forall (G H : R -> R) t0 G' H', G t0 = x -> H t0 = y -> is_derive G t0 G' -> is_derive H t0 H' ->
    is_derive (fun t => d_v0 F op (G t) (H t)) t0 (G' * d_f10 F op x y + H' * d_f01 F op x y) /\
    is_derive (fun t => d_f10 F op (G t) (H t)) t0 (G' * d_f20 F op x y + H' * d_f11 F op x y) /\
    is_derive (fun t => d_f01 F op (G t) (H t)) t0 (G' * d_f11 F op x y + H' * d_f02 F op x y).

(* the evaluation point lies in the domain of every operation of the expression *)
Fixpoint dom (e : expr) (x : nat -> R) : Prop :=
  match e with
  | EVar _ | EConst _ => True
  | EMon op e1 => dom e1 x /\ m_ok S op (den e1 x)
  | EDy op e1 e2 => dom e1 x /\ dom e2 x /\ d_curve op (den e1 x) (den e2 x)
  end.

Lemma der_const (a t : R) : is_derive (fun _ : R => a) t 0.
Proof. exact (is_derive_const a t). Qed.
Lemma der_id (t : R) : is_derive (fun u : R => u) t 1.
Proof. exact (is_derive_id t). Qed.

Theorem D_correct : forall e x, dom e x ->
  forall i, partial (den e) i x (jg (sem e x) i) /\
            forall j, partial (fun y => jg (sem e y) i) j x (jh (sem e x) i j).
Proof.
  induction e as [k|v|op e1 IH1|op e1 IH1 e2 IH2]; intros x Hd i.
  - split.
    + unfold partial, den, upd_pt. cbn [sem jvar jv jg].
      destruct (Nat.eqb_spec k i) as [E|E].
      * subst k. rewrite Nat.eqb_refl. apply der_id.
      * destruct (Nat.eqb_spec i k); [congruence|]. apply der_const.
    + intro j. unfold partial. cbn [sem jvar jg jh]. apply der_const.
  - split; [|intro j]; unfold partial, den; cbn [sem jconst jv jg jh]; apply der_const.
  - cbn [dom] in Hd. destruct Hd as [Hd1 [Hm1 Hm2]]. specialize (IH1 x Hd1).
    split.
    + apply (chain1_first (den e1) (m_v0 F op) x i (jg (sem e1 x) i) (m_f1 F op (den e1 x))); [apply IH1|exact Hm1].
    + intro j.
      apply (chain1_second (den e1) (fun y => jg (sem e1 y) i) (m_f1 F op) x j (jg (sem e1 x) j) (jh (sem e1 x) i j)
                           (m_f2 F op (den e1 x))); [apply IH1|apply IH1|exact Hm2].
  - cbn [dom] in Hd. destruct Hd as [Hd1 [Hd2 Hc]]. specialize (IH1 x Hd1). specialize (IH2 x Hd2).
    set (A := sem e1 x) in *. set (B := sem e2 x) in *.
    split.
    + unfold partial.
      destruct (Hc (fun t => den e1 (upd_pt x i t)) (fun t => den e2 (upd_pt x i t)) (x i) (jg A i) (jg B i)) as [C0 _].
      { rewrite upd_pt_self. reflexivity. } { rewrite upd_pt_self. reflexivity. }
      { apply IH1. } { apply IH2. }
      exact C0.
    + intro j. unfold partial.
      destruct (Hc (fun t => den e1 (upd_pt x j t)) (fun t => den e2 (upd_pt x j t)) (x j) (jg A j) (jg B j)) as [_ [C10 C01]].
      { rewrite upd_pt_self. reflexivity. } { rewrite upd_pt_self. reflexivity. }
      { apply IH1. } { apply IH2. }
      assert (HAi : is_derive (fun t => jg (sem e1 (upd_pt x j t)) i) (x j) (jh A i j)) by apply IH1.
      assert (HBi : is_derive (fun t => jg (sem e2 (upd_pt x j t)) i) (x j) (jh B i j)) by apply IH2.
      pose proof (is_derive_mult _ _ _ _ _ HAi C10 Rmult_comm) as M1.
      pose proof (is_derive_mult _ _ _ _ _ HBi C01 Rmult_comm) as M2.
      pose proof (is_derive_plus _ _ _ _ _ M1 M2) as P.
      cbv beta in P. rewrite !upd_pt_self in P. fold A B in P.
      eapply is_derive_ext; [|match goal with |- is_derive _ _ ?v => replace v with
        (plus (plus (mult (jh A i j) (d_f10 F op (den e1 x) (den e2 x)))
                    (mult (jg A i) (jg A j * d_f20 F op (den e1 x) (den e2 x) + jg B j * d_f11 F op (den e1 x) (den e2 x))))
              (plus (mult (jh B i j) (d_f01 F op (den e1 x) (den e2 x)))
                    (mult (jg B i) (jg A j * d_f11 F op (den e1 x) (den e2 x) + jg B j * d_f02 F op (den e1 x) (den e2 x)))))
        end; [exact P|]].
      * intro t. reflexivity.
      * unfold plus, mult; cbn. unfold den. fold A B. ring.
Qed.

(* slots of variables the expression does not mention are exactly zero *)
Lemma sem_unmentioned : forall e x k, ~ mentions e k ->
  jg (sem e x) k = 0 /\ forall j, jh (sem e x) k j = 0 /\ jh (sem e x) j k = 0.
Proof.
  induction e as [i|v|op e1 IH1|op e1 IH1 e2 IH2]; intros x k Hm; cbn [sem mentions] in *.
  - cbn. destruct (Nat.eqb_spec k i); [exfalso; auto|]. auto.
  - cbn. auto.
  - destruct (IH1 x k Hm) as [G H]. cbn. rewrite G. split; [ring|]. intro j. destruct (H j) as [H1 H2]. rewrite H1, H2. split; ring.
  - destruct (IH1 x k) as [G1 H1]; [tauto|]. destruct (IH2 x k) as [G2 H2]; [tauto|].
    cbn. rewrite G1, G2. split; [ring|]. intro j. destruct (H1 j) as [A1 A2]. destruct (H2 j) as [B1 B2].
    rewrite A1, A2, B1, B2. split; ring.
Qed.

(* constants / plain operands contribute no derivative: e.g. e + c, e * c *)
Lemma sem_add_const e v x i j :
  jg (sem (EDy OAdd e (EConst v)) x) i = jg (sem e x) i /\ jh (sem (EDy OAdd e (EConst v)) x) i j = jh (sem e x) i j.
Proof. cbn. split; ring. Qed.
Lemma sem_mul_const e v x i j :
  jg (sem (EDy OMul e (EConst v)) x) i = jg (sem e x) i * v /\ jh (sem (EDy OMul e (EConst v)) x) i j = jh (sem e x) i j * v.
Proof. cbn. split; ring. Qed.

(* ------------------------------------------------------------------ Variables(order, x_0 .. x_{n-1}) *)
Definition vars_prog (n o : nat) : list (instr R) := map (fun k => ISetVar k k n o) (seq 0 n).

Lemma run_cons i p (s : StR) : run F idR (i :: p) s = bind (exec F idR i s) (run F idR p).
Proof. change (i :: p) with ([i] ++ p). rewrite run_app, run_one. reflexivity. Qed.

Lemma vars_init n o : (1 <= o)%nat -> forall l (s : StR),
  NoDup l -> (forall k, In k l -> (k < n)%nat) -> (forall k, In k l -> rorder (s k) = 0%nat) ->
  exists s', run F idR (map (fun k => ISetVar k k n o) l) s = Ok s' /\
    (forall q, ~ In q l -> s' q = s q) /\ forall k, In k l -> rep S n o (s' k) (jvar (rval (s k)) k).
Proof.
  intros Ho. induction l as [|k l IH]; intros s Hnd Hb Hz; cbn [map].
  - exists s. split; [apply run_nil|]. split; [auto|intros k []].
  - apply NoDup_cons_iff in Hnd. destruct Hnd as [Hk Hnd].
    destruct (rep_setvar S n o k k s Ho) as [s1 [E1 [Fr1 [_ R1]]]].
    { apply Hb; left; auto. } { right. rewrite Hz by (left; auto). lia. }
    destruct (IH s1 Hnd) as [s2 [E2 [Fr2 R2]]].
    { intros q Hq. apply Hb. right; auto. }
    { intros q Hq. rewrite Fr1 by (intro; subst; contradiction). apply Hz. right; auto. }
    exists s2. split; [rewrite run_cons; cbn [exec]; rewrite E1; cbn [bind]; exact E2|]. split.
    + intros q Hq. rewrite Fr2 by (intro; apply Hq; right; auto). apply Fr1. intro; subst; apply Hq; left; auto.
    + intros q [E|Hq].
      * subst q. rewrite Fr2 by exact Hk. exact R1.
      * rewrite <- (Fr1 q) by (intro; subst; contradiction). apply R2. exact Hq.
Qed.

(* ------------------------------------------------------------------ ad_sound *)
Theorem ad_sound_run n o e x (s : StR) :
  (1 <= o)%nat -> wfe n e -> dom e x ->
  (forall k, (k < n)%nat -> rorder (s k) = 0%nat /\ rval (s k) = x k) ->     (* NewReal(x_k), not yet activated *)
  (forall q, (n <= q)%nat -> wf (s q)) ->                                    (* temporaries: any content *)
  exists s', run F idR (vars_prog n o ++ fst (fst (compile e n))) s = Ok s' /\
    let r := rd s' (snd (fst (compile e n))) in
    rval r = den e x /\
    (forall i, (i < n)%nat -> partial (den e) i x (gd F r i)) /\
    ((2 <= o)%nat -> forall i j, (i < n)%nat -> (j < n)%nat ->
        partial (fun y => jg (sem e y) i) j x (gh F r i j) /\ gh F r i j = gh F r j i) /\
    (forall i, (i < n)%nat -> gd F r i = jg (sem e x) i) /\
    (forall k, (k < n)%nat -> ~ mentions e k ->
        gd F r k = 0 /\ ((2 <= o)%nat -> forall j, (j < n)%nat -> gh F r k j = 0 /\ gh F r j k = 0)).
Proof.
  intros Ho Hwf Hd Hv Hfree.
  destruct (vars_init n o Ho (seq 0 n) s) as [s0 [E0 [Fr0 R0]]].
  { apply seq_NoDup. } { intros k Hk. apply in_seq in Hk. lia. }
  { intros k Hk. apply in_seq in Hk. apply Hv. lia. }
  destruct (compile_sound n o x e n s0 Hwf (le_n n)) as [s' [E [_ [_ [_ P]]]]].
  { intros k Hk. replace (x k) with (rval (s k)) by (apply Hv; auto). apply R0. apply in_seq. lia. }
  { intros q Hq. rewrite Fr0 by (intro Hin; apply in_seq in Hin; lia). apply Hfree. exact Hq. }
  exists s'. split; [rewrite run_app; unfold vars_prog; rewrite E0; cbn [bind]; exact E|].
  cbv zeta. set (r := rd s' (snd (fst (compile e n)))) in *.
  destruct P as [W [Sy [V [C [G H]]]]].
  split; [exact V|]. split.
  { intros i Hi. rewrite G by auto. apply D_correct. exact Hd. }
  split.
  { intros H2 i j Hi Hj. split; [rewrite H by auto; apply D_correct; exact Hd|apply Sy]. }
  split; [intros i Hi; apply G; auto|].
  intros k Hk Hm. destruct (sem_unmentioned e x k Hm) as [Z1 Z2]. split; [rewrite G by auto; exact Z1|].
  intros H2 j Hj. rewrite !H by auto. apply Z2.
Qed.

End Sound.
