(* C01/CorrR.v — certified comparison of the R-instance of the model with what
   the Go library returned.  A goal  certR nv order xs prog c slot obs tol  says:
   running [prog] over the reals on the register file whose first nv registers
   are the variables xs (activated with Variables(order, ...)) leaves in register
   c a value / gradient slot / Hessian slot within tol of the observed binary64
   number.  Inputs and observations are exact dyadic rationals; the goals are
   closed by Coq-Interval ([cert]). *)
From Coq Require Import Reals ZArith QArith Qreals List Bool.
From Interval Require Import Tactic.
From ADV Require Import Base.Fl Base.Num C01.Model C01.ModelR.
Import ListNotations.
Open Scope R_scope.

Inductive slot := SV | SD (i : nat) | SH (i j : nat).
Definition sel (sl : slot) (r : Reg R) : R :=
  match sl with SV => rval r | SD i => gd (FlR Sp0) r i | SH i j => gh (FlR Sp0) r i j end.

Fixpoint init_vars (order nv : nat) (i : nat) (xs : list R) (s : St) : St :=
  match xs with
  | [] => s
  | x :: t =>
      let s1 := upd s i (mkReg K64 x 0 0 [] []) in
      let s2 := match set_variable (FlR Sp0) idR i i nv order s1 with Ok s2 => s2 | Panic _ => s1 end in
      init_vars order nv (S i) t s2
  end.
(* registers nv.. hold plain constants (Float64) *)
Fixpoint init_consts (i : nat) (cs : list R) (s : St) : St :=
  match cs with [] => s | x :: t => init_consts (S i) t (upd s i (bare x)) end.

Definition certR (order : nat) (xs cs : list R) (p : list (instr R)) (c : nat) (sl : slot) (obs tol : R) : Prop :=
  match run (FlR Sp0) idR p (init_consts (length xs) cs (init_vars order (length xs) 0 xs stR0)) with
  | Ok s => Rabs (sel sl (s c) - obs) <= tol
  | Panic _ => False
  end.

Lemma Rpow_go_pos x y : 0 < x -> Rpow_go x y = Rpower x y.
Proof. intro H. unfold Rpow_go. destruct (Rlt_dec 0 x) as [_|N]; [reflexivity | contradiction]. Qed.

Ltac cert :=
  unfold certR;
  cbv -[Rplus Rminus Rmult Rdiv Ropp Rinv Rabs Rle Rlt exp ln sin cos tan Rpower powerRZ IZR sqrt PI Rpow_go];
  repeat match goal with
         | |- context [Rpow_go ?x ?y] => rewrite (Rpow_go_pos x y) by (interval with (i_prec 60))
         end;
  interval with (i_prec 80).
