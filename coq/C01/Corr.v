(* C01 correspondence: the model of C01/Model.v instantiated at Coq primitive
   binary64 floats.  + - * / and comparisons are the IEEE operations (bit-exact
   w.r.t. Go on amd64, no FMA); every libm / special-function call is answered
   from a per-case ORACLE table  (function id, argument bits) |-> result bits
   that the harness logged by calling the very same Go functions.  A call that
   the table does not contain yields a NaN, so a table entry of the model that
   calls something else than the Go code is flagged.  Real32 stores go through
   [round32] (binary64 -> binary32 -> binary64, round to nearest even). *)
From Coq Require Import ZArith QArith List Bool Floats Uint63.
From ADV Require Import Base.Fl Base.Num Base.Corr C01.Model.
Import ListNotations.
Open Scope float_scope.

(* ------------------------------------------------------------ float32(v) *)
Definition two128 : float := 0x1p+128.
Definition round32 (x : float) : float :=
  match Prim2SF x with
  | S754_finite s m e =>
      let d := (Z.log2 (Zpos m) + 1)%Z in
      let e' := Z.max (e + d - 24) (-149) in
      let sh := (e' - e)%Z in
      let r :=
        if (sh <=? 0)%Z then abs x else
        let p := (2 ^ sh)%Z in
        let q := (Zpos m / p)%Z in
        let rm := (Zpos m mod p)%Z in
        let half := (2 ^ (sh - 1))%Z in
        let q' := if (half <? rm)%Z || ((rm =? half)%Z && Z.odd q) then (q + 1)%Z else q in
        Z.ldexp (of_uint63 (Uint63.of_Z q')) e' in
      let r := if two128 <=? r then infinity else r in
      if s then - r else r
  | _ => x
  end.

(* ------------------------------------------------------------ oracle carrier *)
Definition oracle := list (nat * list float * float).
Fixpoint olook (t : oracle) (f : nat) (args : list float) : float :=
  match t with
  | [] => nan
  | (g, a, r) :: t' => if Nat.eqb f g && list_eqb feqb a args then r else olook t' f args
  end.

Definition f_ofZ (z : Z) : float :=
  let m := of_uint63 (Uint63.of_Z (Z.abs z)) in if (z <? 0)%Z then - m else m.
Definition f_ofQ (q : Q) : float := f_ofZ (Qnum q) / f_ofZ (Zpos (Qden q)).
Definition f_isinf (x : float) (sg : Z) : bool :=
  match Prim2SF x with
  | S754_infinity s => if (sg =? 0)%Z then true else if (0 <? sg)%Z then negb s else s
  | _ => false
  end.
Definition f_isnan (x : float) : bool := negb (PrimFloat.eqb x x).
Definition f_sign (x : float) : Z := if PrimFloat.ltb x 0 then (-1)%Z else 1%Z.

Definition FlF (t : oracle) : Fl float :=
  let o1 id x := olook t id [x] in
  let o2 id x y := olook t id [x; y] in
  mkFl float PrimFloat.add PrimFloat.sub PrimFloat.mul PrimFloat.div PrimFloat.opp
    PrimFloat.ltb PrimFloat.leb PrimFloat.eqb
    f_ofQ f_ofZ nan (fun sg => if (0 <=? sg)%Z then infinity else neg_infinity)
    f_isnan f_isinf
    PrimFloat.abs PrimFloat.sqrt
    (o1 0%nat) (o1 1%nat) (o1 2%nat)                                   (* Exp Log Log1p *)
    (o1 3%nat) (o1 4%nat) (o1 5%nat) (o1 6%nat) (o1 7%nat) (o1 8%nat)  (* Sin Cos Tan Sinh Cosh Tanh *)
    (o1 9%nat) (o1 10%nat) (o1 11%nat) (o1 12%nat)                     (* Erf Erfc Gamma Lgamma *)
    (fun x => f_sign (o1 13%nat x))                                    (* sign returned by math.Lgamma *)
    (o2 14%nat)                                                        (* Pow *)
    (fun b z => o2 15%nat b (f_ofZ z))                                 (* Pow with an integer literal exponent *)
    (fun x => x)                                                       (* Floor: unused by the scalar files *)
    0x1.921fb54442d18p+1                                               (* math.Pi *)
    0x1.c5bf891b4ef6bp+0                                               (* special.M_SQRTPI *)
    (o1 16%nat) (o1 17%nat) (o1 18%nat)                                (* Digamma Trigamma LogErfc *)
    (fun x k => o2 19%nat x (f_ofZ k))                                 (* Mlgamma *)
    (o2 20%nat) (o2 21%nat) (o2 22%nat)                                (* GammaP and its two derivatives *)
    (o2 23%nat) (o2 24%nat).                                           (* BesselI LogBesselI *)

(* ------------------------------------------------------------ cases *)
Definition kind_eqb (a b : kind) : bool :=
  match a, b with K64, K64 | K32, K32 | KBare, KBare => true | _, _ => false end.
Definition reg_eqb (a b : Reg float) : bool :=
  kind_eqb (rk a) (rk b) && feqb (rval a) (rval b) && Nat.eqb (rorder a) (rorder b) && Nat.eqb (rn a) (rn b)
  && list_eqb feqb (rderiv a) (rderiv b) && list_eqb (list_eqb feqb) (rhess a) (rhess b).

(* what the property observes: Value, Order, N and the guarded getters over 0..N-1 *)
Definition obs_eqb (a b : Reg float) : bool :=
  feqb (rval a) (rval b) && Nat.eqb (rorder a) (rorder b) && Nat.eqb (rn a) (rn b)
  && list_eqb feqb (map (gd (FlF []) a) (seq 0 (rn a))) (map (gd (FlF []) b) (seq 0 (rn a)))
  && list_eqb feqb (map (fun p => gh (FlF []) a (fst p) (snd p)) (allpairs (rn a)))
                   (map (fun p => gh (FlF []) b (fst p) (snd p)) (allpairs (rn a))).

Definition st0 : St (A := float) := fun _ => mkReg K64 0 0 0 [] [].
Fixpoint load (l : list (nat * Reg float)) (s : St) : St :=
  match l with [] => s | (i, r) :: t => load t (upd s i r) end.

(* outcome kinds: 0 = returned, 1 = explicit "different number of partial derivatives" panic,
   2 = runtime index-out-of-range panic *)
Record case := mkCase {
  c_pre : list (nat * Reg float);
  c_ins : instr float;
  c_orc : oracle;
  c_kind : nat;
  c_post : list (nat * Reg float) }.

Definition check (c : case) : bool :=
  match exec (FlF (c_orc c)) round32 (c_ins c) (load (c_pre c) st0) with
  | Ok s => Nat.eqb (c_kind c) 0 && forallb (fun ir => reg_eqb (s (fst ir)) (snd ir)) (c_post c)
  | Panic EDiffN => Nat.eqb (c_kind c) 1
  | Panic EIndex => Nat.eqb (c_kind c) 2
  end.
Definition mism (cs : list case) : list nat := mismatches check cs.

(* diagnostics: the registers the model computes for a case *)
Definition model_post (c : case) : option (list (nat * Reg float)) :=
  match exec (FlF (c_orc c)) round32 (c_ins c) (load (c_pre c) st0) with
  | Ok s => Some (map (fun ir => (fst ir, s (fst ir))) (c_post c))
  | Panic _ => None
  end.

(* round32 self-test cases: (input, float32(input) as computed by Go) *)
Definition r32_mism (cs : list (float * float)) : list nat :=
  mismatches (fun p => feqb (round32 (fst p)) (snd p)) cs.
