(* C01 — property theorems about the GENERATED reading of the source (statements only; proofs in
   ProofsGen.v / ProofsGenR.v).  C01/Ops_gen.v is printed by /verif/go2coq_c01 from
   scalar_real{64,32}_math.go and scalar_real{64,32}_math_concrete.go on every run of the check; these
   theorems say that what the source says NOW is the hand-written model that every other theorem of C01
   (C01/Props.v) is about — for every carrier (reals, primitive floats, ...) and all arguments. *)
From Coq Require Import Reals ZArith QArith List Bool String.
From Coquelicot Require Import Coquelicot.
From ADV Require Import Base.Fl Base.Num C01.Model C01.ModelR C01.ProofsCoef C01.ProofsSound.
From ADV Require Import C01.ModelOpsLang C01.Ops_gen C01.ProofsGen C01.ProofsGenR.
Import ListNotations.
Local Open Scope string_scope.

(* (G1) every combinator call site of the source (72: 36 per receiver type; Pow / POW have two, selected by
   k.GetOrder() >= 1): the combinator has the expected arity and generic/concrete kind, its operands are the
   expected parameters, and the denotation of the value expression and of each coefficient expression (closures
   and local definitions inlined) is the table entry m_v0 m_f1 m_f2 / d_v0 d_f10 d_f01 d_f11 d_f20 d_f02. *)
Theorem generated_table_is_the_model_table : forall (T : Type) (Fl0 : Fl T) (r32 : T -> T),
  List.Forall (entry_ok Fl0 r32) gen_table.
Proof. exact @gen_table_ok. Qed.

(* (G2) nothing missing, nothing extra: per receiver type the call sites are exactly the expected ones *)
Theorem generated_table_is_complete : forall (T : Type) (Fl0 : Fl T),
  same_keys (sites_of "Real64") (map fst (expected Fl0)) = true /\
  same_keys (sites_of "Real32") (map fst (expected Fl0)) = true /\
  forallb (fun e => String.eqb (en_recv e) "Real64" || String.eqb (en_recv e) "Real32") gen_table = true.
Proof. exact @gen_table_complete. Qed.

(* (G3) every generated method, executed on the register file (the call site whose path condition holds in the
   current state, through the shared combinator loops), IS the model step: do_mon / do_dy / do_pow *)
Theorem generated_methods_are_model_steps : forall (T : Type) (Fl0 : Fl T) (r32 : T -> T),
  List.Forall (fun m => step_ok Fl0 r32 "Real64" m /\ step_ok Fl0 r32 "Real32" m) method_names.
Proof. exact @gen_steps_ok. Qed.
Theorem generated_SQRT_is_sqrt : forall (T : Type) (Fl0 : Fl T) (r32 : T -> T) recv c a p k s,
  In recv ["Real64"; "Real32"] -> gen_method Fl0 r32 gen_table recv "SQRT" c [a] p k s = do_sqrt Fl0 r32 c a s.
Proof. exact @gen_SQRT_is_sqrt. Qed.
Example generated_step_instance : forall (T : Type) (Fl0 : Fl T) (r32 : T -> T) c a b s,
  gen_method Fl0 r32 gen_table "Real32" "Pow" c [a; b] (fofZ Fl0 0) 0 s = do_pow Fl0 r32 c a b s.
Proof.
  intros T Fl0 r32 c a b s. pose proof (gen_steps_ok Fl0 r32) as G. unfold method_names in G.
  do 5 (apply Forall_inv_tail in G). apply Forall_inv in G. destruct G as [_ G]. exact (G c [a; b] (fofZ Fl0 0) 0%nat s).
Qed.

(* (G4) the composite methods: the generated statement list, interpreted call by call with the branch conditions
   the source writes (thresholds -37, 18, 33.3 of Log1pExp; the sign split of Sigmoid; a.Greater(b) and the swap,
   IsInf short cuts of LogAdd / LogSub; switch a.Sign() of Abs; the comparison of Min / Max in the receiver's
   precision), IS the model's composite program — generic and concrete (MIN MAX ABS LOGADD LOGSUB) twins. *)
Theorem generated_Logistic : forall (T : Type) (Fl0 : Fl T) (r32 : T -> T) recv c a s,
  In recv ["Real64"; "Real32"] -> run_body Fl0 r32 recv "Logistic" c [a] [] s = do_logistic Fl0 r32 c a s.
Proof. exact @body_Logistic. Qed.
Theorem generated_Sqrt : forall (T : Type) (Fl0 : Fl T) (r32 : T -> T) recv c a s,
  In recv ["Real64"; "Real32"] -> run_body Fl0 r32 recv "Sqrt" c [a] [] s = do_sqrt Fl0 r32 c a s.
Proof. exact @body_Sqrt. Qed.
Theorem generated_Sigmoid : forall (T : Type) (Fl0 : Fl T) (r32 : T -> T) recv c a t s,
  In recv ["Real64"; "Real32"] -> run_body Fl0 r32 recv "Sigmoid" c [a] [t] s = do_sigmoid Fl0 r32 c a t s.
Proof. exact @body_Sigmoid. Qed.
Theorem generated_Log1pExp : forall (T : Type) (Fl0 : Fl T) (r32 : T -> T) recv c a s,
  In recv ["Real64"; "Real32"] -> run_body Fl0 r32 recv "Log1pExp" c [a] [] s = do_log1pexp Fl0 r32 c a s.
Proof. exact @body_Log1pExp. Qed.
Theorem generated_LogAdd : forall (T : Type) (Fl0 : Fl T) (r32 : T -> T) recv meth c a b t s,
  In recv ["Real64"; "Real32"] -> In meth ["LogAdd"; "LOGADD"] ->
  run_body Fl0 r32 recv meth c [a; b] [t] s = do_logadd Fl0 r32 c a b t s.
Proof. exact @body_LogAdd. Qed.
Theorem generated_LogSub : forall (T : Type) (Fl0 : Fl T) (r32 : T -> T) recv meth c a b t s,
  In recv ["Real64"; "Real32"] -> In meth ["LogSub"; "LOGSUB"] ->
  run_body Fl0 r32 recv meth c [a; b] [t] s = do_logsub Fl0 r32 c a b t s.
Proof. exact @body_LogSub. Qed.
Theorem generated_Abs : forall (T : Type) (Fl0 : Fl T) (r32 : T -> T) recv meth c a s,
  In recv ["Real64"; "Real32"] -> In meth ["Abs"; "ABS"] -> run_body Fl0 r32 recv meth c [a] [] s = do_abs Fl0 r32 c a s.
Proof. exact @body_Abs. Qed.
Theorem generated_Min : forall (T : Type) (Fl0 : Fl T) (r32 : T -> T) recv meth c a b s,
  In recv ["Real64"; "Real32"] -> In meth ["Min"; "MIN"] -> rk (s c) = kind_of recv ->
  run_body Fl0 r32 recv meth c [a; b] [] s = do_min Fl0 r32 c a b s.
Proof. exact @body_Min. Qed.
Theorem generated_Max : forall (T : Type) (Fl0 : Fl T) (r32 : T -> T) recv meth c a b s,
  In recv ["Real64"; "Real32"] -> In meth ["Max"; "MAX"] -> rk (s c) = kind_of recv ->
  run_body Fl0 r32 recv meth c [a; b] [] s = do_max Fl0 r32 c a b s.
Proof. exact @body_Max. Qed.
Theorem generated_bodies_are_complete :
  map (fun b => (cb_recv b, cb_meth b)) gen_bodies =
  (list_prod ["Real64"] ["Min"; "Max"; "Abs"; "LogAdd"; "LogSub"; "Log1pExp"; "Sigmoid"; "Sqrt"; "Logistic"] ++
   list_prod ["Real32"] ["Min"; "Max"; "Abs"; "LogAdd"; "LogSub"; "Log1pExp"; "Sigmoid"; "Sqrt"; "Logistic"] ++
   list_prod ["Real64"] ["MIN"; "MAX"; "ABS"; "LOGADD"; "LOGSUB"] ++
   list_prod ["Real32"] ["MIN"; "MAX"; "ABS"; "LOGADD"; "LOGSUB"])%list.
Proof. exact gen_bodies_complete. Qed.

(* (G5) transfer of the derivative-correctness theorems to what the source says now, over the reals: any
   coefficient theorem m_ok / d_curve about the table entry is a theorem about the generated expressions *)
Theorem generated_coefficients_transfer_one_argument : forall S e real mk x y p k,
  In e gen_table -> target_of (FlR S) (en_meth e) (en_path e) = Some (TMon real mk) ->
  m_ok S (mk p y k) x -> gen_m_ok S e x y p k.
Proof. exact gen_m_transfer. Qed.
Theorem generated_coefficients_transfer_two_arguments : forall S e real op x y p k,
  In e gen_table -> target_of (FlR S) (en_meth e) (en_path e) = Some (TDy real op) ->
  d_curve S op x y -> gen_d_curve S e x y p k.
Proof. exact gen_d_transfer. Qed.
(* instance: the elementary operations on their domains — f1 is the derivative of the generated value
   expression and f2 of f1; for Add Sub Mul Div Pow(variable exponent) the five generated coefficients are the
   partials along every curve *)
Theorem generated_coefficients_elementary : forall S e x y p k,
  In e gen_table -> elem_dom (en_meth e) x y ->
  if comb_is_mon (en_comb e) then gen_m_ok S e x y p k else gen_d_curve S e x y p k.
Proof. exact gen_elementary. Qed.
Example generated_elementary_hyps_nontrivial :
  (exists e, In e gen_table /\ en_meth e = "Tan" /\ elem_dom (en_meth e) 0%R 0%R) /\
  (exists e, In e gen_table /\ en_meth e = "POW" /\ comb_is_mon (en_comb e) = false /\ elem_dom (en_meth e) 2%R 3%R).
Proof.
  split.
  - eexists. split; [unfold gen_table; do 11 right; left; reflexivity|]. split; [reflexivity|].
    cbv [elem_dom mem existsb String.eqb Ascii.eqb Bool.eqb orb en_meth]. rewrite cos_0. apply R1_neq_R0.
  - eexists. split; [unfold gen_table; do 55 right; left; reflexivity|]. split; [reflexivity|]. split; [reflexivity|].
    cbv [elem_dom mem existsb String.eqb Ascii.eqb Bool.eqb orb en_meth]. apply Rlt_0_2.
Qed.

(* Not translated (listed in Ops_gen.gen_untied and in the evidence as "hand-tied only"): the predicates
   Equals Greater Smaller Sign (+ concrete twins) — the model states their meaning directly (cmpv, sign_of,
   ModelOpsLang.ceval) — and the seven loops over vectors / matrices SmoothMax LogSmoothMax Vmean VdotV Vnorm
   Mtrace Mnorm, whose tie remains the bit-exact replay. *)
