(* C01 — property theorems about the GENERATED reading of the source (statements only; proofs in
   ProofsGen.v / ProofsGenR.v).  C01/Ops_gen.v is printed by /verif/go2coq_c01 from
   scalar_real{64,32}_math.go and scalar_real{64,32}_math_concrete.go on every run of the check; these
   theorems say that what the source says NOW is the hand-written model that every other theorem of C01
   (C01/Props.v) is about — for every carrier (reals, primitive floats, ...) and all arguments. *)
From Coq Require Import Reals ZArith QArith List Bool String.
From Coquelicot Require Import Coquelicot.
From ADV Require Import Base.Fl Base.Num C01.Model C01.ModelR C01.ProofsCoef C01.ProofsSound.
From ADV Require Import C01.ModelOpsLang C01.Ops_gen C01.ProofsGen C01.ProofsGenR C01.ProofsLoop C01.ProofsPred.
Import ListNotations.
Local Open Scope string_scope.

(* (G1) every combinator call site of the source (72: 36 per receiver type; Pow / POW have two, selected by
   k.GetOrder() >= 1): the combinator has the expected arity and generic/concrete kind, its operands are the
   expected parameters, and the denotation of the value expression and of each coefficient expression (closures
   and local definitions inlined) is the table entry m_v0 m_f1 m_f2 / d_v0 d_f10 d_f01 d_f11 d_f20 d_f02. *)
Theorem generated_table_is_the_model_table : forall (T : Type) (Fl0 : Fl T) (r32 : T -> T),
  List.Forall (entry_ok Fl0 r32) gen_table.
Proof. exact @gen_table_ok. Qed.

(* (G2) nothing missing, nothing extra: per receiver type the call sites are exactly the expected ones *)
Theorem generated_table_is_complete : forall (T : Type) (Fl0 : Fl T),
  same_keys (sites_of "Real64") (map fst (expected Fl0)) = true /\
  same_keys (sites_of "Real32") (map fst (expected Fl0)) = true /\
  forallb (fun e => String.eqb (en_recv e) "Real64" || String.eqb (en_recv e) "Real32") gen_table = true.
Proof. exact @gen_table_complete. Qed.

(* (G3) every generated method, executed on the register file (the call site whose path condition holds in the
   current state, through the shared combinator loops), IS the model step: do_mon / do_dy / do_pow *)
Theorem generated_methods_are_model_steps : forall (T : Type) (Fl0 : Fl T) (r32 : T -> T),
  List.Forall (fun m => step_ok Fl0 r32 "Real64" m /\ step_ok Fl0 r32 "Real32" m) method_names.
Proof. exact @gen_steps_ok. Qed.
Theorem generated_SQRT_is_sqrt : forall (T : Type) (Fl0 : Fl T) (r32 : T -> T) recv c a p k s,
  In recv ["Real64"; "Real32"] -> gen_method Fl0 r32 gen_table recv "SQRT" c [a] p k s = do_sqrt Fl0 r32 c a s.
Proof. exact @gen_SQRT_is_sqrt. Qed.
Example generated_step_instance : forall (T : Type) (Fl0 : Fl T) (r32 : T -> T) c a b s,
  gen_method Fl0 r32 gen_table "Real32" "Pow" c [a; b] (fofZ Fl0 0) 0 s = do_pow Fl0 r32 c a b s.
Proof.
  intros T Fl0 r32 c a b s. pose proof (gen_steps_ok Fl0 r32) as G. unfold method_names in G.
  do 5 (apply Forall_inv_tail in G). apply Forall_inv in G. destruct G as [_ G]. exact (G c [a; b] (fofZ Fl0 0) 0%nat s).
Qed.

(* (G4) the composite methods: the generated statement list, interpreted call by call with the branch conditions
   the source writes (thresholds -37, 18, 33.3 of Log1pExp; the sign split of Sigmoid; a.Greater(b) and the swap,
   IsInf short cuts of LogAdd / LogSub; switch a.Sign() of Abs; the comparison of Min / Max in the receiver's
   precision), IS the model's composite program — generic and concrete (MIN MAX ABS LOGADD LOGSUB) twins. *)
Theorem generated_Logistic : forall (T : Type) (Fl0 : Fl T) (r32 : T -> T) recv c a s,
  In recv ["Real64"; "Real32"] -> run_body Fl0 r32 recv "Logistic" c [a] [] s = do_logistic Fl0 r32 c a s.
Proof. exact @body_Logistic. Qed.
Theorem generated_Sqrt : forall (T : Type) (Fl0 : Fl T) (r32 : T -> T) recv c a s,
  In recv ["Real64"; "Real32"] -> run_body Fl0 r32 recv "Sqrt" c [a] [] s = do_sqrt Fl0 r32 c a s.
Proof. exact @body_Sqrt. Qed.
Theorem generated_Sigmoid : forall (T : Type) (Fl0 : Fl T) (r32 : T -> T) recv c a t s,
  In recv ["Real64"; "Real32"] -> run_body Fl0 r32 recv "Sigmoid" c [a] [t] s = do_sigmoid Fl0 r32 c a t s.
Proof. exact @body_Sigmoid. Qed.
Theorem generated_Log1pExp : forall (T : Type) (Fl0 : Fl T) (r32 : T -> T) recv c a s,
  In recv ["Real64"; "Real32"] -> run_body Fl0 r32 recv "Log1pExp" c [a] [] s = do_log1pexp Fl0 r32 c a s.
Proof. exact @body_Log1pExp. Qed.
Theorem generated_LogAdd : forall (T : Type) (Fl0 : Fl T) (r32 : T -> T) recv meth c a b t s,
  In recv ["Real64"; "Real32"] -> In meth ["LogAdd"; "LOGADD"] ->
  run_body Fl0 r32 recv meth c [a; b] [t] s = do_logadd Fl0 r32 c a b t s.
Proof. exact @body_LogAdd. Qed.
Theorem generated_LogSub : forall (T : Type) (Fl0 : Fl T) (r32 : T -> T) recv meth c a b t s,
  In recv ["Real64"; "Real32"] -> In meth ["LogSub"; "LOGSUB"] ->
  run_body Fl0 r32 recv meth c [a; b] [t] s = do_logsub Fl0 r32 c a b t s.
Proof. exact @body_LogSub. Qed.
Theorem generated_Abs : forall (T : Type) (Fl0 : Fl T) (r32 : T -> T) recv meth c a s,
  In recv ["Real64"; "Real32"] -> In meth ["Abs"; "ABS"] -> run_body Fl0 r32 recv meth c [a] [] s = do_abs Fl0 r32 c a s.
Proof. exact @body_Abs. Qed.
Theorem generated_Min : forall (T : Type) (Fl0 : Fl T) (r32 : T -> T) recv meth c a b s,
  In recv ["Real64"; "Real32"] -> In meth ["Min"; "MIN"] -> rk (s c) = kind_of recv ->
  run_body Fl0 r32 recv meth c [a; b] [] s = do_min Fl0 r32 c a b s.
Proof. exact @body_Min. Qed.
Theorem generated_Max : forall (T : Type) (Fl0 : Fl T) (r32 : T -> T) recv meth c a b s,
  In recv ["Real64"; "Real32"] -> In meth ["Max"; "MAX"] -> rk (s c) = kind_of recv ->
  run_body Fl0 r32 recv meth c [a; b] [] s = do_max Fl0 r32 c a b s.
Proof. exact @body_Max. Qed.
Theorem generated_bodies_are_complete :
  map (fun b => (cb_recv b, cb_meth b)) gen_bodies =
  (list_prod ["Real64"] ["Min"; "Max"; "Abs"; "LogAdd"; "LogSub"; "Log1pExp"; "Sigmoid"; "Sqrt"; "Logistic"] ++
   list_prod ["Real32"] ["Min"; "Max"; "Abs"; "LogAdd"; "LogSub"; "Log1pExp"; "Sigmoid"; "Sqrt"; "Logistic"] ++
   list_prod ["Real64"] ["MIN"; "MAX"; "ABS"; "LOGADD"; "LOGSUB"] ++
   list_prod ["Real32"] ["MIN"; "MAX"; "ABS"; "LOGADD"; "LOGSUB"])%list.
Proof. exact gen_bodies_complete. Qed.

(* (G5) transfer of the derivative-correctness theorems to what the source says now, over the reals: any
   coefficient theorem m_ok / d_curve about the table entry is a theorem about the generated expressions *)
Theorem generated_coefficients_transfer_one_argument : forall S e real mk x y p k,
  In e gen_table -> target_of (FlR S) (en_meth e) (en_path e) = Some (TMon real mk) ->
  m_ok S (mk p y k) x -> gen_m_ok S e x y p k.
Proof. exact gen_m_transfer. Qed.
Theorem generated_coefficients_transfer_two_arguments : forall S e real op x y p k,
  In e gen_table -> target_of (FlR S) (en_meth e) (en_path e) = Some (TDy real op) ->
  d_curve S op x y -> gen_d_curve S e x y p k.
Proof. exact gen_d_transfer. Qed.
(* instance: the elementary operations on their domains — f1 is the derivative of the generated value
   expression and f2 of f1; for Add Sub Mul Div Pow(variable exponent) the five generated coefficients are the
   partials along every curve *)
Theorem generated_coefficients_elementary : forall S e x y p k,
  In e gen_table -> elem_dom (en_meth e) x y ->
  if comb_is_mon (en_comb e) then gen_m_ok S e x y p k else gen_d_curve S e x y p k.
Proof. exact gen_elementary. Qed.
Example generated_elementary_hyps_nontrivial :
  (exists e, In e gen_table /\ en_meth e = "Tan" /\ elem_dom (en_meth e) 0%R 0%R) /\
  (exists e, In e gen_table /\ en_meth e = "POW" /\ comb_is_mon (en_comb e) = false /\ elem_dom (en_meth e) 2%R 3%R).
Proof.
  split.
  - eexists. split; [unfold gen_table; do 11 right; left; reflexivity|]. split; [reflexivity|].
    cbv [elem_dom mem existsb String.eqb Ascii.eqb Bool.eqb orb en_meth]. rewrite cos_0. apply R1_neq_R0.
  - eexists. split; [unfold gen_table; do 55 right; left; reflexivity|]. split; [reflexivity|]. split; [reflexivity|].
    cbv [elem_dom mem existsb String.eqb Ascii.eqb Bool.eqb orb en_meth]. apply Rlt_0_2.
Qed.

(* (G6) round 6 — the seven reductions over vectors / matrices.  [gen_loops] holds, for each of SmoothMax LogSmoothMax
   Vmean VdotV Vnorm Mtrace Mnorm and each receiver type, what the source says NOW: the guards before the first write, the
   local, the prologue, the loop (iteration scheme + body: a straight line of method calls with the current element(s) as
   operands; Mnorm's i == 0 && j == 0 split) and the epilogue.  Its denotation [run_loop] on the register file IS the
   model's program, for every carrier (reals, binary64/32 replay), EVERY vector length and all registers. *)
Theorem generated_SmoothMax : forall (T : Type) (Fl0 : Fl T) (r32 : T -> T) recv r xs alpha t0 t1 loc s,
  In recv ["Real64"; "Real32"] ->
  run_loop Fl0 r32 (gen_loop recv "SmoothMax") r (map (fun x => [x]) xs) [alpha] [t0; t1] loc s =
  do_smoothmax Fl0 r32 r xs alpha t0 t1 s.
Proof. exact @loop_SmoothMax. Qed.
Theorem generated_LogSmoothMax : forall (T : Type) (Fl0 : Fl T) (r32 : T -> T) recv r xs alpha t0 t1 t2 loc s,
  In recv ["Real64"; "Real32"] ->
  run_loop Fl0 r32 (gen_loop recv "LogSmoothMax") r (map (fun x => [x]) xs) [alpha] [t0; t1; t2] loc s =
  do_logsmoothmax Fl0 r32 r xs alpha t0 t1 t2 s.
Proof. exact @loop_LogSmoothMax. Qed.
Theorem generated_Vmean : forall (T : Type) (Fl0 : Fl T) (r32 : T -> T) recv r xs loc s,
  In recv ["Real64"; "Real32"] ->
  run_loop Fl0 r32 (gen_loop recv "Vmean") r (map (fun x => [x]) xs) [] [] loc s = do_vmean Fl0 r32 r xs s.
Proof. exact @loop_Vmean. Qed.
Theorem generated_VdotV : forall (T : Type) (Fl0 : Fl T) (r32 : T -> T) recv r xs ys t s,
  In recv ["Real64"; "Real32"] ->
  run_loop Fl0 r32 (gen_loop recv "VdotV") r (map (fun xy => [fst xy; snd xy]) (combine xs ys)) [] [] t s =
  do_vdotv Fl0 r32 r xs ys t s.
Proof. exact @loop_VdotV. Qed.
Theorem generated_Vnorm : forall (T : Type) (Fl0 : Fl T) (r32 : T -> T) recv r xs t s,
  In recv ["Real64"; "Real32"] ->
  run_loop Fl0 r32 (gen_loop recv "Vnorm") r (map (fun x => [x]) xs) [] [] t s = do_vnorm Fl0 r32 r xs t s.
Proof. exact @loop_Vnorm. Qed.
Theorem generated_Mtrace : forall (T : Type) (Fl0 : Fl T) (r32 : T -> T) recv r diag loc s,
  In recv ["Real64"; "Real32"] ->
  run_loop Fl0 r32 (gen_loop recv "Mtrace") r (map (fun x => [x]) diag) [] [] loc s = do_mtrace Fl0 r32 r diag s.
Proof. exact @loop_Mtrace. Qed.
Theorem generated_Mnorm : forall (T : Type) (Fl0 : Fl T) (r32 : T -> T) recv r xs t s,
  In recv ["Real64"; "Real32"] ->
  run_loop Fl0 r32 (gen_loop recv "Mnorm") r (map (fun x => [x]) xs) [] [] t s = do_mnorm Fl0 r32 r xs t s.
Proof. exact @loop_Mnorm. Qed.
(* iteration scheme, guards, local, parameter counts; nothing missing, nothing extra *)
Theorem generated_loops_shape_and_completeness :
  map loop_shape (filter (fun b => String.eqb (lp_recv b) "Real64") gen_loops) = expected_shapes /\
  map loop_shape (filter (fun b => String.eqb (lp_recv b) "Real32") gen_loops) = expected_shapes /\
  forallb (fun b => String.eqb (lp_recv b) "Real64" || String.eqb (lp_recv b) "Real32") gen_loops = true.
Proof. exact gen_loops_shape. Qed.
(* the statements are about programs that do something: a three-element SmoothMax on the generated loop *)
Example generated_loop_instance : forall (T : Type) (Fl0 : Fl T) (r32 : T -> T) alpha s,
  run_loop Fl0 r32 (gen_loop "Real32" "SmoothMax") 0%nat (map (fun x => [x]) [Rg 3%nat; Rg 4%nat; Rg 5%nat]) [alpha] [1%nat; 2%nat] 0%nat s =
  do_smoothmax Fl0 r32 0%nat [Rg 3%nat; Rg 4%nat; Rg 5%nat] alpha 1%nat 2%nat s /\ lp_body (gen_loop "Real32" "SmoothMax") <> [].
Proof. intros. split; [apply loop_SmoothMax; right; left; reflexivity|discriminate]. Qed.

(* (G7) round 6 — the predicates the composite operations branch on, as the source writes them NOW (receiver = operand 0):
   a.Greater(b) is the swap test of LogAdd (ModelOpsLang.ceval BGreater / Model.do_logadd), a.Sign() the switch of Abs
   (Model.do_abs: sign_of); rnd = conversion of the RECEIVER's type (GetFloat64 for Real64, GetFloat32 for Real32; a
   stored Real32 value is a fixed point of float32(.)).  For every carrier and all values. *)
Theorem generated_Greater : forall (T : Type) (Fl0 : Fl T) (r32 : T -> T) recv meth x y,
  In recv ["Real64"; "Real32"] -> In meth ["Greater"; "GREATER"] ->
  pred_bool Fl0 r32 (gen_pred recv meth) x y = Some (fltb Fl0 (rndk r32 (kind_of recv) y) (rndk r32 (kind_of recv) x)).
Proof. exact @pred_Greater. Qed.
Theorem generated_Smaller : forall (T : Type) (Fl0 : Fl T) (r32 : T -> T) recv meth x y,
  In recv ["Real64"; "Real32"] -> In meth ["Smaller"; "SMALLER"] ->
  pred_bool Fl0 r32 (gen_pred recv meth) x y = Some (fltb Fl0 (rndk r32 (kind_of recv) x) (rndk r32 (kind_of recv) y)).
Proof. exact @pred_Smaller. Qed.
Theorem generated_Sign : forall (T : Type) (Fl0 : Fl T) (r32 : T -> T) recv meth x,
  In recv ["Real64"; "Real32"] -> In meth ["Sign"; "SIGN"] ->
  pred_int Fl0 r32 (gen_pred recv meth) x = Some (sign_of Fl0 (rndk r32 (kind_of recv) x)).
Proof. exact @pred_Sign. Qed.
Theorem generated_predicates_are_complete :
  map (fun p => (pd_recv p, pd_meth p)) gen_preds =
  (list_prod ["Real64"] ["Greater"; "Smaller"; "Sign"] ++ list_prod ["Real32"] ["Greater"; "Smaller"; "Sign"] ++
   list_prod ["Real64"] ["GREATER"; "SMALLER"; "SIGN"] ++ list_prod ["Real32"] ["GREATER"; "SMALLER"; "SIGN"])%list.
Proof. exact gen_preds_complete. Qed.

(* Not translated (listed in Ops_gen.gen_untied and in the evidence as "hand-tied only"): Equals / EQUALS (an epsilon
   comparison with NaN / Inf cases; no operation of this property calls it). *)
