(* C01/ProofsSeq.v — carrier-generic lemmas about [bind] / [seqm] (sequencing of model steps) and the frame of
   every model step: a step with receiver c changes no other register, for EVERY carrier. *)
From Coq Require Import ZArith QArith List Bool Arith Lia.
From ADV Require Import Base.Fl C01.Model.
Import ListNotations.
Local Open Scope nat_scope.

Section Seq.
Context {A : Type} (F : Fl A) (r32 : A -> A).
Notation StA := (@St A).

Lemma bind_ok_r {X} (m : res X) : bind m (fun x => Ok x) = m.
Proof. destruct m; reflexivity. Qed.
Lemma bind_ext {X Y} (m : res X) (f g : X -> res Y) : (forall x, f x = g x) -> bind m f = bind m g.
Proof. intro H. destruct m; [apply H|reflexivity]. Qed.
Lemma bind_assoc {X Y Z} (m : res X) (f : X -> res Y) (g : Y -> res Z) :
  bind (bind m f) g = bind m (fun x => bind (f x) g).
Proof. destruct m; reflexivity. Qed.

Lemma fold_bind (fs : list (StA -> res StA)) (m : res StA) :
  fold_left (fun m f => bind m f) fs m = bind m (fun s => seqm fs s).
Proof.
  revert m. induction fs as [|f fs IH]; intro m.
  - cbn. symmetry. apply bind_ok_r.
  - cbn [fold_left]. rewrite IH. rewrite bind_assoc. apply bind_ext. intro s.
    unfold seqm. cbn [fold_left bind]. rewrite IH. reflexivity.
Qed.
Lemma seqm_cons (f : StA -> res StA) fs s : seqm (f :: fs) s = bind (f s) (fun s' => seqm fs s').
Proof. unfold seqm at 1. cbn [fold_left bind]. apply fold_bind. Qed.
Lemma seqm_nil' (s : StA) : seqm [] s = Ok s.
Proof. reflexivity. Qed.
Lemma seqm_app' (fs gs : list (StA -> res StA)) s : seqm (fs ++ gs) s = bind (seqm fs s) (fun s' => seqm gs s').
Proof. unfold seqm at 1. rewrite fold_left_app. fold (seqm fs s). apply fold_bind. Qed.
Lemma fold_flat_map {X} (body : X -> list (StA -> res StA)) xs (m : res StA) :
  fold_left (fun m f => bind m f) (flat_map body xs) m = fold_left (fun m x => bind m (fun s => seqm (body x) s)) xs m.
Proof.
  revert m. induction xs as [|x xs IH]; intro m; [reflexivity|].
  cbn [flat_map fold_left]. rewrite fold_left_app, IH, fold_bind. reflexivity.
Qed.
Lemma seqm_flat_map {X} (body : X -> list (StA -> res StA)) xs s :
  seqm (flat_map body xs) s = fold_left (fun m x => bind m (fun s => seqm (body x) s)) xs (Ok s).
Proof. apply fold_flat_map. Qed.
Lemma fold_map_items {X} (h : X -> list (opd A)) (g : list (opd A) -> StA -> res StA) xs (m : res StA) :
  fold_left (fun m it => bind m (g it)) (map h xs) m = fold_left (fun m x => bind m (g (h x))) xs m.
Proof. revert m. induction xs as [|x xs IH]; intro m; [reflexivity|]. cbn [map fold_left]. apply IH. Qed.
Lemma fold_bind_ext {X} (g1 g2 : X -> StA -> res StA) xs (m : res StA) :
  (forall x s, g1 x s = g2 x s) -> fold_left (fun m x => bind m (g1 x)) xs m = fold_left (fun m x => bind m (g2 x)) xs m.
Proof.
  intro H. revert m. induction xs as [|x xs IH]; intro m; [reflexivity|]. cbn [fold_left]. rewrite IH.
  f_equal. apply bind_ext. apply H.
Qed.

Lemma map_as_flat_map {X Y} (f : X -> Y) xs : map f xs = flat_map (fun x => [f x]) xs.
Proof. induction xs as [|x xs IH]; [reflexivity|]. cbn. rewrite IH. reflexivity. Qed.


(* ------------------------------------------------------------------ frames *)
Definition only (c : nat) (s s' : StA) : Prop := forall q, q <> c -> s' q = s q.
Lemma only_refl c s : only c s s. Proof. intros q _. reflexivity. Qed.
Lemma only_trans c s1 s2 s3 : only c s1 s2 -> only c s2 s3 -> only c s1 s3.
Proof. intros H1 H2 q Hq. rewrite H2, H1; auto. Qed.
Lemma only_upd c s r : only c s (upd s c r).
Proof. intros q Hq. unfold upd. apply Nat.eqb_neq in Hq. rewrite Hq. reflexivity. Qed.
Lemma only_fold {X} c (f : StA -> X -> StA) l : (forall s x, only c s (f s x)) -> forall s, only c s (fold_left f l s).
Proof.
  intro H. induction l as [|x l IH]; intro s; [apply only_refl|]. cbn [fold_left].
  eapply only_trans; [apply H|apply IH].
Qed.

Lemma monadic_lazy_only c a v0 f1 f2 s s' : monadic_lazy F r32 c a v0 f1 f2 s = Ok s' -> only c s s'.
Proof.
  unfold monadic_lazy. intro H. injection H as <-.
  eapply only_trans; [|apply only_upd].
  eapply only_trans; [apply only_upd|].
  match goal with |- only c ?s0 (if ?b then _ else _) => destruct b; [|apply only_refl] end.
  eapply only_trans; [|apply only_fold; intros; apply only_upd].
  match goal with |- only c ?s0 (if ?b then _ else _) => destruct b; [|apply only_refl] end.
  apply only_fold. intros s1 [i j]. unfold mon_hstep. eapply only_trans; apply only_upd.
Qed.
Lemma dyadic_lazy_only c a b v0 f1 f2 s s' : dyadic_lazy F r32 c a b v0 f1 f2 s = Ok s' -> only c s s'.
Proof.
  unfold dyadic_lazy. destruct (dy_guard _ _); [discriminate|]. intro H. injection H as <-.
  eapply only_trans; [|apply only_upd].
  eapply only_trans; [apply only_upd|].
  match goal with |- only c ?s0 (if ?b then _ else _) => destruct b; [|apply only_refl] end.
  destruct (f1 tt) as [v10 v01].
  eapply only_trans; [|apply only_fold; intros; apply only_upd].
  match goal with |- only c ?s0 (if ?b then _ else _) => destruct b; [|apply only_refl] end.
  destruct (f2 tt) as [[v11 v20] v02].
  apply only_fold. intros s1 [i j]. unfold dy_hstep. eapply only_trans; apply only_upd.
Qed.
Lemma do_mon_only op c a s s' : do_mon F r32 op c a s = Ok s' -> only c s s'.
Proof. apply monadic_lazy_only. Qed.
Lemma do_dy_only op c a b s s' : do_dy F r32 op c a b s = Ok s' -> only c s s'.
Proof. apply dyadic_lazy_only. Qed.
Lemma do_pow_only c a k s s' : do_pow F r32 c a k s = Ok s' -> only c s s'.
Proof. unfold do_pow. destruct (_ <=? _); [apply do_dy_only|apply do_mon_only]. Qed.
Lemma do_setf_only c v s s' : do_setf F r32 c v s = Ok s' -> only c s s'.
Proof. unfold do_setf. intro H. injection H as <-. apply only_upd. Qed.
Lemma do_reset_only c s s' : do_reset F c s = Ok s' -> only c s s'.
Proof. unfold do_reset. intro H. injection H as <-. apply only_upd. Qed.
Lemma set_reg_only c b s s' : set_reg F r32 c b s = Ok s' -> only c s s'.
Proof.
  unfold set_reg. destruct (1 <=? _).
  - destruct (negb _); [discriminate|]. destruct (2 <=? _).
    + destruct (negb _); [discriminate|]. intro H. injection H as <-.
      eapply only_trans; [|apply only_fold; intros; apply only_upd].
      eapply only_trans; [apply only_upd|apply only_fold; intros; apply only_upd].
    + intro H. injection H as <-. eapply only_trans; [apply only_upd|apply only_fold; intros; apply only_upd].
  - intro H. injection H as <-. apply only_upd.
Qed.

Lemma steps_only c (s s' : StA) :
  (forall op a, do_mon F r32 op c a s = Ok s' -> only c s s') /\
  (forall op a b, do_dy F r32 op c a b s = Ok s' -> only c s s') /\
  (forall a k, do_pow F r32 c a k s = Ok s' -> only c s s') /\
  (forall b, set_reg F r32 c b s = Ok s' -> only c s s') /\
  (forall v, do_setf F r32 c v s = Ok s' -> only c s s') /\
  (do_reset F c s = Ok s' -> only c s s').
Proof.
  split; [intros op a; apply do_mon_only|]. split; [intros op a b; apply do_dy_only|].
  split; [intros a k; apply do_pow_only|]. split; [intros b; apply set_reg_only|].
  split; [intros v; apply do_setf_only|apply do_reset_only].
Qed.
End Seq.
