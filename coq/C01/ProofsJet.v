(* C01/ProofsJet.v — the chain-rule formulas of the combinators ARE the partial
   derivatives of the composed function (real analysis, Coquelicot). *)
From Coq Require Import Reals List Lra FunctionalExtensionality.
From Coquelicot Require Import Coquelicot.
From ADV Require Import Base.Fl C01.Model C01.ModelR C01.Spec.
Open Scope R_scope.

Lemma upd_pt_self y i : upd_pt y i (y i) = y.
Proof. apply functional_extensionality. intro k. unfold upd_pt. destruct (Nat.eqb_spec k i); subst; auto. Qed.

(* first order: d/dx_i f(G(x)) = dG_i * f'(G x) *)
Lemma chain1_first (G : (nat -> R) -> R) (f : R -> R) y i dG f1 :
  partial G i y dG -> is_derive f (G y) f1 -> partial (fun z => f (G z)) i y (dG * f1).
Proof.
  unfold partial. intros HG Hf.
  apply (is_derive_comp f (fun t => G (upd_pt y i t))); [|exact HG].
  rewrite upd_pt_self. exact Hf.
Qed.

(* second order: d/dx_j [ dG_i(x) * f'(G x) ] = dG_i dG_j f''(G x) + ddG_ij f'(G x) *)
Lemma chain1_second (G Gi : (nat -> R) -> R) (f1 : R -> R) y j dGj ddGij f2 :
  partial G j y dGj -> partial Gi j y ddGij -> is_derive f1 (G y) f2 ->
  partial (fun z => Gi z * f1 (G z)) j y (Gi y * dGj * f2 + ddGij * f1 (G y)).
Proof.
  unfold partial. intros HG HGi Hf.
  assert (H1 : is_derive (fun t => f1 (G (upd_pt y j t))) (y j) (dGj * f2)).
  { apply (is_derive_comp f1 (fun t => G (upd_pt y j t))); [|exact HG]. rewrite upd_pt_self. exact Hf. }
  pose proof (is_derive_mult (fun t => Gi (upd_pt y j t)) (fun t => f1 (G (upd_pt y j t))) (y j) ddGij (dGj * f2)
                HGi H1 Rmult_comm) as H.
  cbv beta in H. rewrite !upd_pt_self in H.
  replace (Gi y * dGj * f2 + ddGij * f1 (G y)) with (plus (mult ddGij (f1 (G y))) (mult (Gi y) (dGj * f2))).
  - exact H.
  - unfold plus, mult; simpl. ring.
Qed.

