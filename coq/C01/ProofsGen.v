(* C01/ProofsGen.v — the tie by translation (DESIGN.md §1.2, T1).

   C01/Ops_gen.v is printed by /verif/go2coq_c01 from the Go source on every run of the
   check.  Here: for EVERY carrier and ALL arguments

   (A) the denotation of each generated combinator call site (value expression and the
       coefficient expressions, closures inlined) is the hand-written table entry
       m_v0/m_f1/m_f2 resp. d_v0/d_f10/.. of C01/Model.v that the theorems of this
       property are about, the combinator has the expected arity and kind, the operands
       are the expected parameters; the generated table has exactly the expected call
       sites (nothing missing, nothing extra);
   (B) every generated method, run as a step on the register file (the call site whose
       path condition holds), IS the model step do_mon / do_dy / do_pow / do_sqrt;
   (C) every generated composite body, interpreted statement by statement, IS the
       model's composite program (do_min .. do_logistic).

   A source edit that changes a formula, a constant, a threshold, a branch condition,
   the order of calls or an operand makes one of these equalities unprovable. *)
From Coq Require Import ZArith QArith List Bool Arith String Lia.
From ADV Require Import Base.Fl C01.Model C01.ModelOpsLang C01.Ops_gen.
Import ListNotations.
Local Open Scope nat_scope.
Local Open Scope string_scope.

(* ------------------------------------------------------------ (A) the expected table *)
Inductive target (A : Type) :=
| TMon (real : bool) (mk : A -> A -> nat -> mop A)    (* float parameter, value of the 2nd scalar parameter, int parameter *)
| TDy (real : bool) (op : dop).
Arguments TMon {A}. Arguments TDy {A}.

Definition pc_eqb (p q : pcond) : bool :=
  match p, q with PcOrderGe1 i b, PcOrderGe1 j c => Nat.eqb i j && Bool.eqb b c end.
Fixpoint path_eqb (p q : list pcond) : bool :=
  match p, q with
  | [], [] => true
  | x :: p', y :: q' => pc_eqb x y && path_eqb p' q'
  | _, _ => false
  end.

Section Expected.
Context {A : Type} (F : Fl A).

Definition cst (op : mop A) : A -> A -> nat -> mop A := fun _ _ _ => op.

(* method, path condition  ->  model operation.  Hand-written: this is the reading of the library
   the theorems of C01 are about. *)
Definition expected : list (string * list pcond * target A) := [
  ("Neg", [], TMon false (cst ONeg)); ("Add", [], TDy false OAdd); ("Sub", [], TDy false OSub);
  ("Mul", [], TDy false OMul); ("Div", [], TDy false ODiv);
  ("Pow", [PcOrderGe1 1 true], TDy false OPowV);
  ("Pow", [PcOrderGe1 1 false], TMon false (fun _ y _ => OPowC y));
  ("Sin", [], TMon false (cst OSin)); ("Sinh", [], TMon false (cst OSinh)); ("Cos", [], TMon false (cst OCos));
  ("Cosh", [], TMon false (cst OCosh)); ("Tan", [], TMon false (cst OTan)); ("Tanh", [], TMon false (cst OTanh));
  ("Exp", [], TMon false (cst OExp)); ("Log", [], TMon false (cst OLog)); ("Log1p", [], TMon false (cst OLog1p));
  ("Erf", [], TMon false (cst OErf)); ("Erfc", [], TMon false (cst OErfc)); ("LogErfc", [], TMon false (cst OLogErfc));
  ("Gamma", [], TMon false (cst OGamma)); ("Lgamma", [], TMon false (cst OLgamma));
  ("Mlgamma", [], TMon false (fun _ _ k => OMlgamma k));
  ("GammaP", [], TMon false (fun p _ _ => OGammaP p));
  ("BesselI", [], TMon false (fun p _ _ => OBesselI p));
  ("LogBesselI", [], TMon false (fun p _ _ => OLogBesselI p));
  ("NEG", [], TMon true (cst ONeg)); ("ADD", [], TDy true OAdd); ("SUB", [], TDy true OSub);
  ("MUL", [], TDy true OMul); ("DIV", [], TDy true ODiv);
  ("POW", [PcOrderGe1 1 true], TDy true OPowV);
  ("POW", [PcOrderGe1 1 false], TMon true (fun _ y _ => OPowC y));
  ("SQRT", [], TMon true (cst (OPowC (fofQ F (1 # 2)%Q))));
  ("EXP", [], TMon true (cst OExp)); ("LOG", [], TMon true (cst OLog)); ("LOG1P", [], TMon true (cst OLog1p)) ].

Definition target_of (meth : string) (path : list pcond) : option (target A) :=
  match find (fun r => String.eqb (fst (fst r)) meth && path_eqb (snd (fst r)) path) expected with
  | Some r => Some (snd r)
  | None => None
  end.

Definition env2 (x y p : A) (k : nat) : env := mkEnv (fun i => match i with 0 => x | _ => y end) p k 0%Z.

Definition entry_ok (r32 : A -> A) (e : entry) : Prop :=
  match target_of (en_meth e) (en_path e) with
  | Some (TMon real mk) =>
      comb_is_mon (en_comb e) = true /\ comb_is_real (en_comb e) = real /\ en_opds e = [0] /\
      exists f1 f2, en_fs e = [f1; f2] /\
      forall x y p k,
        eval F r32 (en_v0 e) (env2 x y p k) = m_v0 F (mk p y k) x /\
        eval F r32 f1 (env2 x y p k) = m_f1 F (mk p y k) x /\
        eval F r32 f2 (env2 x y p k) = m_f2 F (mk p y k) x
  | Some (TDy real op) =>
      comb_is_mon (en_comb e) = false /\ comb_is_real (en_comb e) = real /\ en_opds e = [0; 1] /\
      exists f10 f01 f11 f20 f02, en_fs e = [f10; f01; f11; f20; f02] /\
      forall x y p k,
        eval F r32 (en_v0 e) (env2 x y p k) = d_v0 F op x y /\
        eval F r32 f10 (env2 x y p k) = d_f10 F op x y /\ eval F r32 f01 (env2 x y p k) = d_f01 F op x y /\
        eval F r32 f11 (env2 x y p k) = d_f11 F op x y /\ eval F r32 f20 (env2 x y p k) = d_f20 F op x y /\
        eval F r32 f02 (env2 x y p k) = d_f02 F op x y
  | None => False
  end.
End Expected.

Ltac entry_tac :=
  lazy beta iota zeta delta [entry_ok target_of expected find fst snd en_meth en_path String.eqb Ascii.eqb Bool.eqb
                             andb path_eqb pc_eqb Nat.eqb cst];
  split; [reflexivity|]; split; [reflexivity|]; split; [reflexivity|];
  repeat eexists; intros; reflexivity.

Lemma gen_table_ok {A} (F : Fl A) (r32 : A -> A) : Forall (entry_ok F r32) gen_table.
Proof. unfold gen_table. repeat (apply Forall_cons; [entry_tac|]). apply Forall_nil. Qed.

(* completeness: per receiver type, the call sites of the generated table are exactly the expected ones *)
Definition site_key (e : entry) : string * list pcond := (en_meth e, en_path e).
Definition key_eqb (a b : string * list pcond) : bool := String.eqb (fst a) (fst b) && path_eqb (snd a) (snd b).
Definition sites_of (recv : string) : list (string * list pcond) :=
  map site_key (filter (fun e => String.eqb (en_recv e) recv) gen_table).
Definition same_keys (l1 l2 : list (string * list pcond)) : bool :=
  Nat.eqb (List.length l1) (List.length l2) &&
  forallb (fun a => existsb (key_eqb a) l2) l1 && forallb (fun a => existsb (key_eqb a) l1) l2.
Lemma gen_table_complete {A} (F : Fl A) :
  same_keys (sites_of "Real64") (map fst (expected F)) = true /\
  same_keys (sites_of "Real32") (map fst (expected F)) = true /\
  forallb (fun e => String.eqb (en_recv e) "Real64" || String.eqb (en_recv e) "Real32") gen_table = true.
Proof. split; [|split]; vm_compute; reflexivity. Qed.

(* ------------------------------------------------------------ (B) generated methods as model steps *)
Section Steps.
Context {A : Type} (F : Fl A) (r32 : A -> A).

(* the model step a method call denotes: c.<meth>(args) with float parameter p / int parameter k *)
Definition model_step (meth : string) (c : nat) (args : list (opd A)) (p : A) (k : nat) : option (St -> res St) :=
  let a0 := nth 0 args (Im (fofZ F 0)) in let a1 := nth 1 args (Im (fofZ F 0)) in
  match target_of F meth [], target_of F meth [PcOrderGe1 1 true] with
  | Some (TMon _ mk), _ => Some (do_mon F r32 (mk p (rval (bare (fofZ F 0))) k) c a0)
  | Some (TDy _ op), _ => Some (do_dy F r32 op c a0 a1)
  | None, Some _ => Some (do_pow F r32 c a0 a1)
  | None, None => None
  end.

Definition step_ok (recv meth : string) : Prop :=
  forall c args p k s, match model_step meth c args p k with
                       | Some f => gen_method F r32 gen_table recv meth c args p k s = f s
                       | None => False
                       end.
End Steps.

Ltac step_tac :=
  unfold step_ok; intros;
  lazy beta iota zeta delta [model_step target_of expected find fst snd String.eqb Ascii.eqb Bool.eqb andb path_eqb pc_eqb Nat.eqb cst
                             gen_method gen_find gen_table en_recv en_meth en_path forallb];
  try reflexivity.

Ltac pow_tac :=
  unfold path_holds, do_pow;
  match goal with |- context [Nat.leb 1 ?o] => destruct (Nat.leb 1 o) end; reflexivity.

Definition method_names : list string :=
  ["Neg"; "Add"; "Sub"; "Mul"; "Div"; "Pow"; "Sin"; "Sinh"; "Cos"; "Cosh"; "Tan"; "Tanh"; "Exp"; "Log"; "Log1p";
   "Erf"; "Erfc"; "LogErfc"; "Gamma"; "Lgamma"; "Mlgamma"; "GammaP"; "BesselI"; "LogBesselI";
   "NEG"; "ADD"; "SUB"; "MUL"; "DIV"; "POW"; "SQRT"; "EXP"; "LOG"; "LOG1P"].

Lemma gen_steps_ok {A} (F : Fl A) (r32 : A -> A) :
  Forall (fun m => step_ok F r32 "Real64" m /\ step_ok F r32 "Real32" m) method_names.
Proof.
  unfold method_names.
  repeat (apply Forall_cons; [split; step_tac; pow_tac|]). apply Forall_nil.
Qed.

(* every method name of the expected table is in [method_names] *)
Lemma method_names_complete {A} (F : Fl A) :
  forallb (fun r => existsb (String.eqb (fst (fst r))) method_names) (expected F) = true.
Proof. vm_compute. reflexivity. Qed.

Lemma gen_SQRT_is_sqrt {A} (F : Fl A) (r32 : A -> A) recv c a p k s :
  In recv ["Real64"; "Real32"] ->
  gen_method F r32 gen_table recv "SQRT" c [a] p k s = do_sqrt F r32 c a s.
Proof.
  intros [H|[H|[]]]; subst recv.
  - pose proof (gen_steps_ok F r32) as G. unfold method_names in G.
    do 30 (apply Forall_inv_tail in G). apply Forall_inv in G. destruct G as [G _]. exact (G c [a] p k s).
  - pose proof (gen_steps_ok F r32) as G. unfold method_names in G.
    do 30 (apply Forall_inv_tail in G). apply Forall_inv in G. destruct G as [_ G]. exact (G c [a] p k s).
Qed.

(* ------------------------------------------------------------ (C) generated composite bodies *)
Definition kind_of (recv : string) : kind := if String.eqb recv "Real32" then K32 else K64.

Section Bodies.
Context {A : Type} (F : Fl A) (r32 : A -> A).

Definition gen_body (recv meth : string) : list stmt :=
  match find (fun b => String.eqb (cb_recv b) recv && String.eqb (cb_meth b) meth) gen_bodies with
  | Some b => cb_body b
  | None => []       (* an empty body is a no-op: never equal to a model program that writes the receiver *)
  end.

Definition run_body (recv meth : string) (c : nat) (args : list (opd A)) (tmps : list nat) (s : St) : res St :=
  sexec_st F r32 (mkSenv c args tmps 0) (gen_body recv meth) s.

Ltac norm :=
  lazy beta iota zeta delta -[do_mon do_dy do_pow set_reg do_reset sign_of upd null_reg rd Nat.max].
Ltac bind_step :=
  match goal with
  | |- context [match ?m with Ok _ => _ | Panic _ => _ end] =>
      lazymatch m with
      | context [match _ with Ok _ => _ | Panic _ => _ end] => fail
      | context [if _ then _ else _] => fail
      | _ => destruct m eqn:?; lazy beta iota
      end
  end.
Ltac cond_step :=
  match goal with
  | |- context [if ?b then _ else _] =>
      lazymatch b with context [if _ then _ else _] => fail | _ => destruct b eqn:?; lazy beta iota end
  end.
(* bounded: on an unprovable equality (the source changed) the case analysis must fail, not explode *)
Ltac body_tac := norm; do 10 (try first [reflexivity | bind_step | cond_step]).
Ltac recv_cases H := destruct H as [H|[H|[]]]; subst.

Lemma body_Logistic recv c a s : In recv ["Real64"; "Real32"] ->
  run_body recv "Logistic" c [a] [] s = do_logistic F r32 c a s.
Proof. intro H; recv_cases H; body_tac. Qed.

Lemma body_Sqrt recv c a s : In recv ["Real64"; "Real32"] ->
  run_body recv "Sqrt" c [a] [] s = do_sqrt F r32 c a s.
Proof. intro H; recv_cases H; body_tac. Qed.

Lemma body_Sigmoid recv c a t s : In recv ["Real64"; "Real32"] ->
  run_body recv "Sigmoid" c [a] [t] s = do_sigmoid F r32 c a t s.
Proof. intro H; recv_cases H; body_tac. Qed.

Lemma body_Log1pExp recv c a s : In recv ["Real64"; "Real32"] ->
  run_body recv "Log1pExp" c [a] [] s = do_log1pexp F r32 c a s.
Proof. intro H; recv_cases H; body_tac. Qed.

Lemma body_LogAdd recv meth c a b t s : In recv ["Real64"; "Real32"] -> In meth ["LogAdd"; "LOGADD"] ->
  run_body recv meth c [a; b] [t] s = do_logadd F r32 c a b t s.
Proof.
  intros H H'; recv_cases H; recv_cases H'; unfold do_logadd;
  match goal with |- context [if ?b then (_, _) else (_, _)] => destruct b eqn:E end;
  revert E; norm; intro E; rewrite E; body_tac.
Qed.

Lemma body_LogSub recv meth c a b t s : In recv ["Real64"; "Real32"] -> In meth ["LogSub"; "LOGSUB"] ->
  run_body recv meth c [a; b] [t] s = do_logsub F r32 c a b t s.
Proof. intros H H'; recv_cases H; recv_cases H'; body_tac. Qed.

Lemma body_Abs recv meth c a s : In recv ["Real64"; "Real32"] -> In meth ["Abs"; "ABS"] ->
  run_body recv meth c [a] [] s = do_abs F r32 c a s.
Proof. intros H H'; recv_cases H; recv_cases H'; body_tac. Qed.

Lemma body_Min recv meth c a b s : In recv ["Real64"; "Real32"] -> In meth ["Min"; "MIN"] -> rk (s c) = kind_of recv ->
  run_body recv meth c [a; b] [] s = do_min F r32 c a b s.
Proof.
  intros H H' K; recv_cases H; recv_cases H'; unfold do_min, do_max, cmpv; rewrite K; body_tac.
Qed.

Lemma body_Max recv meth c a b s : In recv ["Real64"; "Real32"] -> In meth ["Max"; "MAX"] -> rk (s c) = kind_of recv ->
  run_body recv meth c [a; b] [] s = do_max F r32 c a b s.
Proof.
  intros H H' K; recv_cases H; recv_cases H'; unfold do_min, do_max, cmpv; rewrite K; body_tac.
Qed.

(* nothing else is in the generated list of bodies *)
Lemma gen_bodies_complete :
  map (fun b => (cb_recv b, cb_meth b)) gen_bodies =
  (list_prod ["Real64"] ["Min"; "Max"; "Abs"; "LogAdd"; "LogSub"; "Log1pExp"; "Sigmoid"; "Sqrt"; "Logistic"] ++
  list_prod ["Real32"] ["Min"; "Max"; "Abs"; "LogAdd"; "LogSub"; "Log1pExp"; "Sigmoid"; "Sqrt"; "Logistic"] ++
  list_prod ["Real64"] ["MIN"; "MAX"; "ABS"; "LOGADD"; "LOGSUB"] ++
  list_prod ["Real32"] ["MIN"; "MAX"; "ABS"; "LOGADD"; "LOGSUB"])%list.
Proof. reflexivity. Qed.
End Bodies.
