(* C01/ProofsStore.v — storage operations on the register file over R:
   Reset / SetFloat64 / ResetDerivatives write the FULL square of the Hessian and
   the whole gradient (every derivative slot of the receiver is zero afterwards,
   whatever the raw slices held before); Set copies the operand's jet into a
   (re)allocated receiver; SetVariable seeds a unit gradient. *)
From Coq Require Import Reals ZArith List Bool Arith Lia Lra.
From ADV Require Import Base.Fl Base.Num C01.Model C01.ModelR C01.ProofsList C01.ProofsComb.
Import ListNotations.
Open Scope R_scope.
Local Arguments Nat.leb : simpl never.
Local Arguments Nat.eqb : simpl never.
Local Arguments Nat.ltb : simpl never.

Section Store.
Variable S : Special.
Notation F := (FlR S).
Notation StR := (@St R).
Notation gdR := (gd F).
Notation ghR := (gh F).
Notation hgetR := (hget F).

(* ---------------------------------------------------------------- list loops *)
(* for i := 0; i < n; i++ { d[i] = g i } *)
Lemma dfill (g : nat -> R) : forall (l : list nat) (d : list R),
  let d' := fold_left (fun d i => upd_nth i (g i) d) l d in
  length d' = length d /\
  (forall k, In k l -> (k < length d)%nat -> nth k d' 0 = g k) /\
  (forall k, ~ In k l -> nth k d' 0 = nth k d 0).
Proof.
  induction l as [|i l IH]; intros d; cbv zeta; cbn [fold_left].
  - split; [reflexivity|]. split; [intros k []|reflexivity].
  - destruct (IH (upd_nth i (g i) d)) as [L [V O]]. rewrite length_upd_nth in *.
    split; [exact L|]. split.
    + intros k [E|Hin] Hk.
      * subst k. destruct (in_dec Nat.eq_dec i l) as [Hi|Hi]; [apply V; auto|].
        rewrite O by auto. apply nth_upd_nth_same; auto.
      * apply V; auto.
    + intros k Hn. rewrite O by (intro; apply Hn; right; auto).
      apply nth_upd_nth_other. intro; apply Hn; left; auto.
Qed.

Definition pair_dec : forall p q : nat * nat, {p = q} + {p <> q}.
Proof. decide equality; apply Nat.eq_dec. Defined.

(* for (i,j) in ps { h[i][j] = v i j } *)
Lemma hfill (v : nat -> nat -> R) n : forall (ps : list (nat * nat)) (h : list (list R)),
  square n h -> (forall p, In p ps -> (fst p < n)%nat /\ (snd p < n)%nat) ->
  let h' := fold_left (fun h p => hset h (fst p) (snd p) (v (fst p) (snd p))) ps h in
  square n h' /\
  (forall k l, In (k, l) ps -> hgetR h' k l = v k l) /\
  (forall k l, ~ In (k, l) ps -> hgetR h' k l = hgetR h k l).
Proof.
  induction ps as [|[i j] ps IH]; intros h Hsq Hb; cbv zeta; cbn [fold_left fst snd].
  - split; [exact Hsq|]. split; [intros k l []|reflexivity].
  - assert (Hij : (i < n)%nat /\ (j < n)%nat) by (apply (Hb (i, j)); left; auto).
    destruct (IH (hset h i j (v i j))) as [Q [V O]].
    { apply square_hset; auto. } { intros p Hp. apply Hb. right; auto. }
    split; [exact Q|]. split.
    + intros k l [E|Hin].
      * inversion E; subst k l. destruct (in_dec pair_dec (i, j) ps) as [Hi|Hi]; [apply V; auto|].
        rewrite O by auto. apply (hget_hset_same S n); tauto.
      * apply V; auto.
    + intros k l Hn. rewrite O by (intro; apply Hn; right; auto).
      apply hget_hset_other. intro E. apply Hn. left. auto.
Qed.

Lemma gh_oob (r : Reg R) i j : wf r -> (rn r <= i \/ rn r <= j)%nat -> ghR r i j = 0.
Proof.
  intros [_ Hw] Hij. unfold gh. destruct (Nat.leb_spec 2 (rorder r)) as [H2|H2]; [|reflexivity].
  destruct (Hw H2) as [Hl Hr]. unfold hget.
  destruct (le_lt_dec (rn r) i) as [Hi|Hi].
  - rewrite (nth_overflow (rhess r)) by lia. destruct j; reflexivity.
  - apply nth_overflow. rewrite Hr by auto. lia.
Qed.
Lemma gd_oob (r : Reg R) i : wf r -> (rn r <= i)%nat -> gdR r i = 0.
Proof.
  intros [Hw _] Hi. unfold gd. destruct (Nat.leb_spec 1 (rorder r)) as [H1|H1]; [|reflexivity].
  apply nth_overflow. rewrite Hw by auto. exact Hi.
Qed.
Lemma sym_of_range (r : Reg R) :
  wf r -> (forall i j, (i < rn r)%nat -> (j < rn r)%nat -> ghR r i j = ghR r j i) -> sym_reg S r.
Proof.
  intros Hw H i j. destruct (le_lt_dec (rn r) i) as [Hi|Hi]; [rewrite !gh_oob by auto; reflexivity|].
  destruct (le_lt_dec (rn r) j) as [Hj|Hj]; [rewrite !gh_oob by auto; reflexivity|]. apply H; auto.
Qed.

(* ---------------------------------------------------------------- ResetDerivatives *)
Lemma reset_derivs_facts (r : Reg R) : wf r ->
  let r' := reset_derivs F r in
  wf r' /\ rk r' = rk r /\ rval r' = rval r /\ rorder r' = rorder r /\ rn r' = rn r /\
  (forall i, gdR r' i = 0) /\ (forall i j, ghR r' i j = 0).
Proof.
  intros Hw. cbv zeta. unfold reset_derivs.
  destruct (Nat.leb_spec 1 (rorder r)) as [H1|H1].
  2:{ split; [exact Hw|]. do 4 (split; [reflexivity|]). split.
      - intro i. unfold gd. destruct (Nat.leb_spec 1 (rorder r)); [lia|reflexivity].
      - intros i j. unfold gh. destruct (Nat.leb_spec 2 (rorder r)); [lia|reflexivity]. }
  destruct Hw as [Hd Hh]. specialize (Hd H1).
  destruct (dfill (fun _ => 0) (seq 0 (rn r)) (rderiv r)) as [DL [DV DO]].
  assert (Hgd : forall i, nth i (fold_left (fun d i0 => upd_nth i0 (zero F) d) (seq 0 (rn r)) (rderiv r)) 0 = 0).
  { intro i. destruct (le_lt_dec (rn r) i) as [Hi|Hi].
    - apply nth_overflow. change (zero F) with 0. rewrite DL, Hd. exact Hi.
    - apply DV; [apply in_seq; lia|rewrite Hd; exact Hi]. }
  destruct (Nat.leb_spec 2 (rorder r)) as [H2|H2].
  - specialize (Hh H2).
    destruct (hfill (fun _ _ => 0) (rn r) (allpairs (rn r)) (rhess r) Hh) as [Q [V O]].
    { intros [a b] Hp. apply in_allpairs in Hp. exact Hp. }
    split; [split; cbn [rorder rn rderiv rhess]; intros _; [change (zero F) with 0; rewrite DL; exact Hd|exact Q]|].
    do 4 (split; [reflexivity|]). split.
    + intro i. unfold gd. cbn [rorder rderiv]. destruct (Nat.leb_spec 1 (rorder r)); [|lia]. apply Hgd.
    + intros i j. unfold gh. cbn [rorder rhess]. destruct (Nat.leb_spec 2 (rorder r)); [|lia].
      destruct (le_lt_dec (rn r) i) as [Hi|Hi].
      { unfold hget. destruct Q as [Ql _]. rewrite (nth_overflow _ []) by (change (zero F) with 0; lia). destruct j; reflexivity. }
      destruct (le_lt_dec (rn r) j) as [Hj|Hj].
      { unfold hget. destruct Q as [_ Qr]. apply nth_overflow. change (zero F) with 0. rewrite Qr by auto. exact Hj. }
      apply V. apply in_allpairs. auto.
  - split; [split; cbn [rorder rn rderiv rhess]; intros H; [change (zero F) with 0; rewrite DL; exact Hd|lia]|].
    do 4 (split; [reflexivity|]). split.
    + intro i. unfold gd. cbn [rorder rderiv]. destruct (Nat.leb_spec 1 (rorder r)); [|lia]. apply Hgd.
    + intros i j. unfold gh. cbn [rorder]. destruct (Nat.leb_spec 2 (rorder r)); [lia|reflexivity].
Qed.

(* Reset / SetFloat64: every derivative slot of the receiver is zero afterwards, for ANY previous
   content of its gradient and Hessian storage (stale upper and lower triangle alike). *)
Theorem reset_clears_all_slots c (s : StR) : wf (s c) ->
  exists s', do_reset F c s = Ok s' /\ (forall q, q <> c -> s' q = s q) /\
    wf (s' c) /\ rk (s' c) = rk (s c) /\ rval (s' c) = 0 /\ rorder (s' c) = rorder (s c) /\ rn (s' c) = rn (s c) /\
    (forall i, gdR (s' c) i = 0) /\ (forall i j, ghR (s' c) i j = 0).
Proof.
  intros Hw. unfold do_reset. eexists. split; [reflexivity|].
  split; [intros q Hq; apply upd_other; auto|]. rewrite upd_same.
  destruct (reset_derivs_facts (mkReg (rk (s c)) (zero F) (rorder (s c)) (rn (s c)) (rderiv (s c)) (rhess (s c))))
    as [W [K [V [O [N [G H]]]]]].
  { exact Hw. }
  split; [exact W|]. split; [exact K|]. split; [exact V|]. split; [exact O|]. split; [exact N|]. split; assumption.
Qed.
Theorem setfloat_clears_all_slots c v (s : StR) : wf (s c) ->
  exists s', do_setf F idR c v s = Ok s' /\ (forall q, q <> c -> s' q = s q) /\
    wf (s' c) /\ rk (s' c) = rk (s c) /\ rval (s' c) = v /\ rorder (s' c) = rorder (s c) /\ rn (s' c) = rn (s c) /\
    (forall i, gdR (s' c) i = 0) /\ (forall i j, ghR (s' c) i j = 0).
Proof.
  intros Hw. unfold do_setf. eexists. split; [reflexivity|].
  split; [intros q Hq; apply upd_other; auto|]. rewrite upd_same.
  destruct (reset_derivs_facts (set_v idR (s c) v)) as [W [K [V [O [N [G H]]]]]].
  { exact Hw. }
  split; [exact W|]. split; [exact K|]. split; [rewrite V; cbn [set_v rval]; apply rndk_id|].
  split; [exact O|]. split; [exact N|]. split; assumption.
Qed.

End Store.
