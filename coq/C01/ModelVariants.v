(* C01/ModelVariants.v — the EIGHT chain-rule combinators of
   scalar_real{64,32}_derivative.go as eight separate definitions, one per Go
   function, each a transliteration of its own text (round 3; purely additive:
   C01/Model.v is unchanged and keeps its two shared definitions [monadic_lazy] /
   [dyadic_lazy]).

     monadic          (a ConstScalar, v0, v1, v2)            Neg
     monadicLazy      (a ConstScalar, v0, f1, f2)            Sin .. LogBesselI, Pow with an exponent of order 0
     realMonadic      (a *Real64,     v0, v1, v2)            NEG
     realMonadicLazy  (a *Real64,     v0, f1, f2)            EXP LOG LOG1P SQRT, POW with an exponent of order 0
     dyadic           (a, b ConstScalar, v0, v10 .. v02)     Add Sub Mul Div
     dyadicLazy       (a, b ConstScalar, v0, f1, f2)         Pow with a magic exponent
     realDyadic       (a, b *Real64,  v0, v10 .. v02)        ADD SUB MUL DIV  (and through them VADDV VSUBV VMULV
                                                             VDIVV MMULM MDIVM ..., gaussJordan's typed path)
     realDyadicLazy   (a, b ConstScalar, v0, f1, f2)         POW with a magic exponent

   (c.Order and c.GetN() are re-read by Go in every loop test; they are fixed by AllocForOne/Two and bound
   once here, as in C01/Model.v.)  All eight have the same statement order:  AllocForOne/Two; [panic check]; if Order >= 1 { [force f1];
   if Order >= 2 { [force f2]; Hessian block (upper triangle + mirror) }; gradient loop }; value.
   That order is what makes an aliased receiver (c = a, c = b, c = a = b) safe: the Hessian block reads the
   operands' gradients, so it must run before the gradient loop overwrites them, and every coefficient is a
   number computed before the first store.  [dyadic_gradient_first] is the same loop with the gradient loop
   moved above the Hessian block (a seeded regression of round 3); C01/ProofsAlias.v refutes it.

   [variant_of_mon] / [variant_of_dy] record which copy each method reaches; [do_mon_v] / [do_dy_v] dispatch
   on it.  No proofs in this file. *)
From Coq Require Import ZArith QArith List Bool Arith.
From ADV Require Import Base.Fl C01.Model.
Import ListNotations.

Inductive mvariant := VMonadic | VMonadicLazy | VRealMonadic | VRealMonadicLazy.
Inductive dvariant := VDyadic | VDyadicLazy | VRealDyadic | VRealDyadicLazy.

Section Variants.
Context {A : Type} (F : Fl A) (r32 : A -> A).

(* func (c *Real64) monadic(a ConstScalar, v0, v1, v2 float64) *Real64 *)
Definition cmb_monadic (c : nat) (a : opd A) (v0 v1 v2 : A) (s : St) : res St :=
  let s := alloc_for_one F c a s in
  let o := rorder (s c) in let n := rn (s c) in
  let s :=
    if 1 <=? o then
      let s := if 2 <=? o then fold_left (mon_hstep F r32 c a v1 v2) (upairs n) s else s in
      fold_left (mon_gstep F r32 c a v1) (seq 0 n) s
    else s in
  Ok (upd s c (set_v r32 (s c) v0)).

(* func (c *Real64) monadicLazy(a ConstScalar, v0 float64, f1, f2 func () float64) *Real64 *)
Definition cmb_monadicLazy (c : nat) (a : opd A) (v0 : A) (f1 f2 : unit -> A) (s : St) : res St :=
  let s := alloc_for_one F c a s in
  let o := rorder (s c) in let n := rn (s c) in
  let s :=
    if 1 <=? o then
      let v1 := f1 tt in
      let s := if 2 <=? o then
                 let v2 := f2 tt in fold_left (mon_hstep F r32 c a v1 v2) (upairs n) s
               else s in
      fold_left (mon_gstep F r32 c a v1) (seq 0 n) s
    else s in
  Ok (upd s c (set_v r32 (s c) v0)).

(* func (c *Real64) realMonadic(a *Real64, v0, v1, v2 float64) *Real64 — the operand is a register *)
Definition cmb_realMonadic (c a : nat) (v0 v1 v2 : A) (s : St) : res St :=
  let s := alloc_for_one F c (Rg a) s in
  let o := rorder (s c) in let n := rn (s c) in
  let s :=
    if 1 <=? o then
      let s := if 2 <=? o then fold_left (mon_hstep F r32 c (Rg a) v1 v2) (upairs n) s else s in
      fold_left (mon_gstep F r32 c (Rg a) v1) (seq 0 n) s
    else s in
  Ok (upd s c (set_v r32 (s c) v0)).

(* func (c *Real64) realMonadicLazy(a *Real64, v0 float64, f1, f2 func() float64) *Real64 *)
Definition cmb_realMonadicLazy (c a : nat) (v0 : A) (f1 f2 : unit -> A) (s : St) : res St :=
  let s := alloc_for_one F c (Rg a) s in
  let o := rorder (s c) in let n := rn (s c) in
  let s :=
    if 1 <=? o then
      let v1 := f1 tt in
      let s := if 2 <=? o then
                 let v2 := f2 tt in fold_left (mon_hstep F r32 c (Rg a) v1 v2) (upairs n) s
               else s in
      fold_left (mon_gstep F r32 c (Rg a) v1) (seq 0 n) s
    else s in
  Ok (upd s c (set_v r32 (s c) v0)).

(* func (c *Real64) dyadic(a, b ConstScalar, v0, v10, v01, v11, v20, v02 float64) *Real64 *)
Definition cmb_dyadic (c : nat) (a b : opd A) (v0 v10 v01 v11 v20 v02 : A) (s : St) : res St :=
  let s := alloc_for_two F c a b s in
  match dy_guard (rd s a) (rd s b) with Some e => Panic e | None =>
  let o := rorder (s c) in let n := rn (s c) in
  let s :=
    if 1 <=? o then
      let s := if 2 <=? o then
                 fold_left (dy_hstep F r32 c a b v10 v01 v11 v20 v02) (upairs n) s
               else s in
      fold_left (dy_gstep F r32 c a b v10 v01) (seq 0 n) s
    else s in
  Ok (upd s c (set_v r32 (s c) v0))
  end.

(* func (c *Real64) dyadicLazy(a, b ConstScalar, v0 float64, f1 func() (float64, float64), f2 func() (float64, float64, float64)) *)
Definition cmb_dyadicLazy (c : nat) (a b : opd A) (v0 : A) (f1 : unit -> A * A) (f2 : unit -> A * A * A) (s : St) : res St :=
  let s := alloc_for_two F c a b s in
  match dy_guard (rd s a) (rd s b) with Some e => Panic e | None =>
  let o := rorder (s c) in let n := rn (s c) in
  let s :=
    if 1 <=? o then
      let '(v10, v01) := f1 tt in
      let s := if 2 <=? o then
                 let '(v11, v20, v02) := f2 tt in
                 fold_left (dy_hstep F r32 c a b v10 v01 v11 v20 v02) (upairs n) s
               else s in
      fold_left (dy_gstep F r32 c a b v10 v01) (seq 0 n) s
    else s in
  Ok (upd s c (set_v r32 (s c) v0))
  end.

(* func (c *Real64) realDyadic(a, b *Real64, v0, v10, v01, v11, v20, v02 float64) *Real64 — operands are registers *)
Definition cmb_realDyadic (c a b : nat) (v0 v10 v01 v11 v20 v02 : A) (s : St) : res St :=
  let s := alloc_for_two F c (Rg a) (Rg b) s in
  match dy_guard (rd s (Rg a)) (rd s (Rg b)) with Some e => Panic e | None =>
  let o := rorder (s c) in let n := rn (s c) in
  let s :=
    if 1 <=? o then
      let s := if 2 <=? o then
                 fold_left (dy_hstep F r32 c (Rg a) (Rg b) v10 v01 v11 v20 v02) (upairs n) s
               else s in
      fold_left (dy_gstep F r32 c (Rg a) (Rg b) v10 v01) (seq 0 n) s
    else s in
  Ok (upd s c (set_v r32 (s c) v0))
  end.

(* func (c *Real64) realDyadicLazy(a, b ConstScalar, v0 float64, f1 func() (float64, float64), f2 func() (...)) *)
Definition cmb_realDyadicLazy (c : nat) (a b : opd A) (v0 : A) (f1 : unit -> A * A) (f2 : unit -> A * A * A) (s : St) : res St :=
  let s := alloc_for_two F c a b s in
  match dy_guard (rd s a) (rd s b) with Some e => Panic e | None =>
  let o := rorder (s c) in let n := rn (s c) in
  let s :=
    if 1 <=? o then
      let '(v10, v01) := f1 tt in
      let s := if 2 <=? o then
                 let '(v11, v20, v02) := f2 tt in
                 fold_left (dy_hstep F r32 c a b v10 v01 v11 v20 v02) (upairs n) s
               else s in
      fold_left (dy_gstep F r32 c a b v10 v01) (seq 0 n) s
    else s in
  Ok (upd s c (set_v r32 (s c) v0))
  end.

(* The seeded regression of round 3: realDyadic with "compute first derivatives" ABOVE the
   "if c.Order >= 2" block.  Value, gradient and symmetry are unaffected; with the receiver among
   the operands the Hessian block reads the NEW gradient. *)
Definition dyadic_gradient_first (c : nat) (a b : opd A) (v0 v10 v01 v11 v20 v02 : A) (s : St) : res St :=
  let s := alloc_for_two F c a b s in
  match dy_guard (rd s a) (rd s b) with Some e => Panic e | None =>
  let o := rorder (s c) in let n := rn (s c) in
  let s :=
    if 1 <=? o then
      let s := fold_left (dy_gstep F r32 c a b v10 v01) (seq 0 n) s in
      if 2 <=? o then
        fold_left (dy_hstep F r32 c a b v10 v01 v11 v20 v02) (upairs n) s
      else s
    else s in
  Ok (upd s c (set_v r32 (s c) v0))
  end.

(* ------------------------------------------------------------------ which method reaches which copy *)
(* conc = true: the concrete-typed twin of scalar_real{64,32}_math_concrete.go (only NEG EXP LOG LOG1P SQRT/POW exist) *)
Definition variant_of_mon (conc : bool) (op : mop A) : mvariant :=
  match op, conc with
  | ONeg, false => VMonadic
  | ONeg, true => VRealMonadic
  | _, false => VMonadicLazy
  | _, true => VRealMonadicLazy
  end.
Definition variant_of_dy (conc : bool) (op : dop) : dvariant :=
  match op, conc with
  | OPowV, false => VDyadicLazy
  | OPowV, true => VRealDyadicLazy
  | _, false => VDyadic
  | _, true => VRealDyadic
  end.

(* one call of the named copy on register operands with given coefficients (the Lazy copies get constant closures) *)
Definition cmb_mon (v : mvariant) (c a : nat) (v0 v1 v2 : A) : St -> res St :=
  match v with
  | VMonadic => cmb_monadic c (Rg a) v0 v1 v2
  | VMonadicLazy => cmb_monadicLazy c (Rg a) v0 (fun _ => v1) (fun _ => v2)
  | VRealMonadic => cmb_realMonadic c a v0 v1 v2
  | VRealMonadicLazy => cmb_realMonadicLazy c a v0 (fun _ => v1) (fun _ => v2)
  end.
Definition cmb_dy (v : dvariant) (c a b : nat) (v0 v10 v01 v11 v20 v02 : A) : St -> res St :=
  match v with
  | VDyadic => cmb_dyadic c (Rg a) (Rg b) v0 v10 v01 v11 v20 v02
  | VDyadicLazy => cmb_dyadicLazy c (Rg a) (Rg b) v0 (fun _ => (v10, v01)) (fun _ => (v11, v20, v02))
  | VRealDyadic => cmb_realDyadic c a b v0 v10 v01 v11 v20 v02
  | VRealDyadicLazy => cmb_realDyadicLazy c (Rg a) (Rg b) v0 (fun _ => (v10, v01)) (fun _ => (v11, v20, v02))
  end.

(* the methods: generic (conc = false) and concrete-typed (conc = true) on register operands *)
Definition do_mon_v (conc : bool) (op : mop A) (c a : nat) (s : St) : res St :=
  let x := rval (s a) in
  cmb_mon (variant_of_mon conc op) c a (m_v0 F op x) (m_f1 F op x) (m_f2 F op x) s.
Definition do_dy_v (conc : bool) (op : dop) (c a b : nat) (s : St) : res St :=
  let x := rval (s a) in let y := rval (s b) in
  cmb_dy (variant_of_dy conc op) c a b (d_v0 F op x y) (d_f10 F op x y) (d_f01 F op x y) (d_f11 F op x y)
         (d_f20 F op x y) (d_f02 F op x y) s.

End Variants.
