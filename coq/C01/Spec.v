(* C01/Spec.v — what property C01 says, over the reals.

   A magic scalar r "holds the 2-jet (v, g, h) over n variables at order o" when
   its value is v and the guarded getters return g_i (o >= 1) and h_ij (o >= 2).
   C01: after evaluating an expression built from the library's operations on
   variables x_0..x_{n-1} activated by Variables(o, ...), the result holds the
   value, the gradient and the Hessian of the mathematical function; the Hessian
   is symmetric; constants contribute no derivative.

   The chain rule in jet form (one and two arguments) is the specification of
   the combinators; [partial] is differentiation along one coordinate. *)
From Coq Require Import Reals List.
From Coquelicot Require Import Coquelicot.
From ADV Require Import Base.Fl C01.Model C01.ModelR.
Open Scope R_scope.

Definition holds (S : Special) (r : Reg R) (n o : nat) (v : R) (g : nat -> R) (h : nat -> nat -> R) : Prop :=
  rval r = v /\ rn r = n /\ rorder r = o /\
  ((1 <= o)%nat -> forall i, (i < n)%nat -> gd (FlR S) r i = g i) /\
  ((2 <= o)%nat -> forall i j, (i < n)%nat -> (j < n)%nat -> gh (FlR S) r i j = h i j).

(* jet of f o g from the jet (g, dg, ddg) and (f', f'') at g *)
Definition chain1_d (dg : nat -> R) (f1 : R) : nat -> R := fun i => dg i * f1.
Definition chain1_h (dg : nat -> R) (ddg : nat -> nat -> R) (f1 f2 : R) : nat -> nat -> R :=
  fun i j => dg i * dg j * f2 + ddg i j * f1.
(* jet of f(g,h) from the two jets and the five partials of f *)
Definition chain2_d (da db : nat -> R) (f10 f01 : R) : nat -> R := fun i => da i * f10 + db i * f01.
Definition chain2_h (da db : nat -> R) (dda ddb : nat -> nat -> R) (f10 f01 f11 f20 f02 : R) : nat -> nat -> R :=
  fun i j => dda i j * f10 + ddb i j * f01 + da i * da j * f20 + db i * db j * f02
             + da i * db j * f11 + db i * da j * f11.

(* differentiation along coordinate i of a function of the variables *)
Definition upd_pt (y : nat -> R) (i : nat) (t : R) : nat -> R := fun k => if Nat.eqb k i then t else y k.
Definition partial (G : (nat -> R) -> R) (i : nat) (y : nat -> R) (d : R) : Prop :=
  is_derive (fun t => G (upd_pt y i t)) (y i) d.
