(* C01/ProofsDag.v — ad_sound's program class extended (round 3):
   expression DAGs: [XLet e1 e2] evaluates e1 ONCE into a register and lets e2 refer to it any number of
   times ([XRef i], i-th enclosing let) — a shared sub-result read by several parents, never recomputed;
   composite nodes compiled to the library's composite instructions: Logistic, Sigmoid (with its temporary),
   Sqrt, Abs (off 0), Min / Max, LogAdd (with its temporary); Pow with a variable exponent is XDy OPowV.

   [xcompile_sound]: running the compiled program leaves in the result operand the jet [xsem env e x];
   [xsem] of a composite node is the jet of the NAMED function (lift1 sigm .., lift1 sqrt .., lift1 Rabs ..,
   the selected operand, logadd_jet) of the operand jets.
   [xD_correct]: for let-free expressions over table operations, Logistic, Sigmoid and Sqrt the jets are the
   first and second partial derivatives of the denoted function; [unlet] substitutes the lets away and
   [xsem_unlet] shows sharing does not change the jet. *)
From Coq Require Import Reals ZArith List Bool Arith Lia Lra.
From Coquelicot Require Import Coquelicot.
From ADV Require Import Base.Fl Base.Num C01.Model C01.ModelR C01.Spec C01.ProofsList C01.ProofsComb C01.ProofsStore
     C01.ProofsOps C01.ProofsCoef C01.ProofsJet C01.ProofsSound C01.ProofsProg C01.ModelVariants C01.ProofsAlias.
Import ListNotations.
Open Scope R_scope.
Local Arguments Nat.leb : simpl never.
Local Arguments Nat.eqb : simpl never.
Local Arguments Nat.ltb : simpl never.

Inductive xexpr :=
| XVar (k : nat) | XConst (v : R)
| XMon (op : mop R) (e : xexpr) | XDy (op : dop) (e1 e2 : xexpr)
| XLogistic (e : xexpr) | XSigmoid (e : xexpr) | XSqrt (e : xexpr) | XAbs (e : xexpr)
| XMin (e1 e2 : xexpr) | XMax (e1 e2 : xexpr) | XLogAdd (e1 e2 : xexpr)
| XLet (e1 e2 : xexpr) | XRef (i : nat).

(* n variables, d enclosing lets *)
Fixpoint xwfe (n d : nat) (e : xexpr) : Prop :=
  match e with
  | XVar k => (k < n)%nat
  | XConst _ => True
  | XRef i => (i < d)%nat
  | XMon _ e1 | XLogistic e1 | XSigmoid e1 | XSqrt e1 | XAbs e1 => xwfe n d e1
  | XDy _ e1 e2 | XMin e1 e2 | XMax e1 e2 | XLogAdd e1 e2 => xwfe n d e1 /\ xwfe n d e2
  | XLet e1 e2 => xwfe n d e1 /\ xwfe n (S d) e2
  end.

(* cenv: the operands holding the let-bound sub-results *)
Fixpoint xcompile (cenv : list (opd R)) (e : xexpr) (nx : nat) : list (instr R) * opd R * nat :=
  match e with
  | XVar k => ([], Rg k, nx)
  | XConst v => ([], Im v, nx)
  | XRef i => ([], nth i cenv (Im 0), nx)
  | XMon op e1 => let '(p1, a, nx1) := xcompile cenv e1 nx in (p1 ++ [IMon op nx1 a], Rg nx1, S nx1)
  | XLogistic e1 => let '(p1, a, nx1) := xcompile cenv e1 nx in (p1 ++ [ILogistic nx1 a], Rg nx1, S nx1)
  | XSqrt e1 => let '(p1, a, nx1) := xcompile cenv e1 nx in (p1 ++ [ISqrt nx1 a], Rg nx1, S nx1)
  | XAbs e1 => let '(p1, a, nx1) := xcompile cenv e1 nx in (p1 ++ [IAbs nx1 a], Rg nx1, S nx1)
  | XSigmoid e1 => let '(p1, a, nx1) := xcompile cenv e1 nx in (p1 ++ [ISigmoid (S nx1) a nx1], Rg (S nx1), S (S nx1))
  | XDy op e1 e2 =>
      let '(p1, a, nx1) := xcompile cenv e1 nx in let '(p2, b, nx2) := xcompile cenv e2 nx1 in
      (p1 ++ p2 ++ [IDy op nx2 a b], Rg nx2, S nx2)
  | XMin e1 e2 =>
      let '(p1, a, nx1) := xcompile cenv e1 nx in let '(p2, b, nx2) := xcompile cenv e2 nx1 in
      (p1 ++ p2 ++ [IMin nx2 a b], Rg nx2, S nx2)
  | XMax e1 e2 =>
      let '(p1, a, nx1) := xcompile cenv e1 nx in let '(p2, b, nx2) := xcompile cenv e2 nx1 in
      (p1 ++ p2 ++ [IMax nx2 a b], Rg nx2, S nx2)
  | XLogAdd e1 e2 =>
      let '(p1, a, nx1) := xcompile cenv e1 nx in let '(p2, b, nx2) := xcompile cenv e2 nx1 in
      (p1 ++ p2 ++ [ILogAdd (S nx2) a b nx2], Rg (S nx2), S (S nx2))
  | XLet e1 e2 =>
      let '(p1, a, nx1) := xcompile cenv e1 nx in let '(p2, b, nx2) := xcompile (cenv ++ [a]) e2 nx1 in
      (p1 ++ p2, b, nx2)
  end.

Section Dag.
Variable S : Special.
Notation F := (FlR S).
Notation StR := (@St R).

Definition jabs (A : jet) : jet := lift1 Rabs (fun x => if Rlt_dec x 0 then -1 else 1) (fun _ => 0) A.
Definition jsqrt (A : jet) : jet := lift1 sqrt (fun x => / (2 * sqrt x)) (fun x => - / (4 * x * sqrt x)) A.

Fixpoint xsem (env : list jet) (e : xexpr) (x : nat -> R) : jet :=
  match e with
  | XVar k => jvar (x k) k
  | XConst v => jconst v
  | XRef i => nth i env (jconst 0)
  | XMon op e1 => let A := xsem env e1 x in jmon (m_v0 F op (jv A)) (m_f1 F op (jv A)) (m_f2 F op (jv A)) A
  | XDy op e1 e2 =>
      let A := xsem env e1 x in let B := xsem env e2 x in
      jdy (d_v0 F op (jv A) (jv B)) (d_f10 F op (jv A) (jv B)) (d_f01 F op (jv A) (jv B))
          (d_f11 F op (jv A) (jv B)) (d_f20 F op (jv A) (jv B)) (d_f02 F op (jv A) (jv B)) A B
  | XLogistic e1 | XSigmoid e1 => lift1 sigm sigm1 sigm2 (xsem env e1 x)
  | XSqrt e1 => jsqrt (xsem env e1 x)
  | XAbs e1 => jabs (xsem env e1 x)
  | XMin e1 e2 => let A := xsem env e1 x in let B := xsem env e2 x in if Rlt_dec (jv A) (jv B) then A else B
  | XMax e1 e2 => let A := xsem env e1 x in let B := xsem env e2 x in if Rlt_dec (jv B) (jv A) then A else B
  | XLogAdd e1 e2 =>
      let A := xsem env e1 x in let B := xsem env e2 x in if Rlt_dec (jv B) (jv A) then logadd_jet B A else logadd_jet A B
  | XLet e1 e2 => xsem (env ++ [xsem env e1 x]) e2 x
  end.

(* the evaluation point is in the domain of the composite nodes that have one (the table operations need no
   condition for the program to compute the jet algebra; their analytic domains enter xD_correct) *)
Fixpoint xdomc (env : list jet) (e : xexpr) (x : nat -> R) : Prop :=
  match e with
  | XVar _ | XConst _ | XRef _ => True
  | XMon _ e1 | XLogistic e1 | XSigmoid e1 => xdomc env e1 x
  | XSqrt e1 => xdomc env e1 x /\ 0 < jv (xsem env e1 x)
  | XAbs e1 => xdomc env e1 x /\ jv (xsem env e1 x) <> 0
  | XDy _ e1 e2 | XMin e1 e2 | XMax e1 e2 | XLogAdd e1 e2 => xdomc env e1 x /\ xdomc env e2 x
  | XLet e1 e2 => xdomc env e1 x /\ xdomc (env ++ [xsem env e1 x]) e2 x
  end.

(* Min / Max for a receiver of any kind (over R the storage conversion is the identity) *)
Lemma min_jet_any n o c a b (s : StR) A B :
  wf (s c) -> rep S n o (rd s a) A -> rep S n o (rd s b) B -> not_reg a c -> not_reg b c ->
  exists s', do_min F idR c a b s = Ok s' /\ frame c s s' /\ rep S n o (s' c) (if Rlt_dec (jv A) (jv B) then A else B).
Proof.
  intros Hwc RA RB Ha Hb. unfold do_min, cmpv. rewrite !rndk_id.
  assert (Va : rval (rd s a) = jv A) by (destruct RA as [_ [_ [V _]]]; exact V).
  assert (Vb : rval (rd s b) = jv B) by (destruct RB as [_ [_ [V _]]]; exact V).
  rewrite Va, Vb. cbn [fltb FlR]. unfold Rltb. destruct (Rlt_dec (jv A) (jv B)).
  - destruct (rep_set S n o c a s A Hwc RA Ha) as [s1 [E1 [F1 [_ [R1 _]]]]]. exists s1. auto.
  - destruct (rep_set S n o c b s B Hwc RB Hb) as [s1 [E1 [F1 [_ [R1 _]]]]]. exists s1. auto.
Qed.
Lemma max_jet_any n o c a b (s : StR) A B :
  wf (s c) -> rep S n o (rd s a) A -> rep S n o (rd s b) B -> not_reg a c -> not_reg b c ->
  exists s', do_max F idR c a b s = Ok s' /\ frame c s s' /\ rep S n o (s' c) (if Rlt_dec (jv B) (jv A) then A else B).
Proof.
  intros Hwc RA RB Ha Hb. unfold do_max, cmpv. rewrite !rndk_id.
  assert (Va : rval (rd s a) = jv A) by (destruct RA as [_ [_ [V _]]]; exact V).
  assert (Vb : rval (rd s b) = jv B) by (destruct RB as [_ [_ [V _]]]; exact V).
  rewrite Va, Vb. cbn [fltb FlR]. unfold Rltb. destruct (Rlt_dec (jv B) (jv A)).
  - destruct (rep_set S n o c a s A Hwc RA Ha) as [s1 [E1 [F1 [_ [R1 _]]]]]. exists s1. auto.
  - destruct (rep_set S n o c b s B Hwc RB Hb) as [s1 [E1 [F1 [_ [R1 _]]]]]. exists s1. auto.
Qed.

(* an operand that lives below the next free register *)
Definition below (nx : nat) (a : opd R) : Prop := match a with Im _ => True | Rg k => (k < nx)%nat end.
Lemma below_mono nx nx' a : (nx <= nx')%nat -> below nx a -> below nx' a.
Proof. destruct a; cbn; auto. lia. Qed.
Lemma below_not_reg nx a c : below nx a -> (nx <= c)%nat -> not_reg a c.
Proof. intros H L k E. subst a. cbn in H. lia. Qed.
Lemma rd_keep (s s' : StR) nx a : below nx a -> (forall q, (q < nx)%nat -> s' q = s q) -> rd s' a = rd s a.
Proof. destruct a as [k|v]; cbn; auto. Qed.

(* what a compiled sub-expression guarantees *)
Definition xres (n o : nat) (env : list jet) (x : nat -> R) (e : xexpr) (cenv : list (opd R)) (nx : nat) (s : StR) : Prop :=
  exists s', run F idR (fst (fst (xcompile cenv e nx))) s = Ok s' /\
    (nx <= snd (xcompile cenv e nx))%nat /\
    (forall q, (q < nx)%nat \/ (snd (xcompile cenv e nx) <= q)%nat -> s' q = s q) /\
    below (snd (xcompile cenv e nx)) (snd (fst (xcompile cenv e nx))) /\
    rep S n o (rd s' (snd (fst (xcompile cenv e nx)))) (xsem env e x).

Definition xinv (n o : nat) (x : nat -> R) (cenv : list (opd R)) (env : list jet) (nx : nat) (s : StR) : Prop :=
  (n <= nx)%nat /\
  (forall k, (k < n)%nat -> rep S n o (s k) (jvar (x k) k)) /\
  (forall q, (nx <= q)%nat -> wf (s q)) /\
  Forall2 (fun a J => below nx a /\ rep S n o (rd s a) J) cenv env.

Lemma xinv_step n o x cenv env nx nx' (s s' : StR) :
  xinv n o x cenv env nx s -> (nx <= nx')%nat -> (forall q, (q < nx)%nat \/ (nx' <= q)%nat -> s' q = s q) ->
  xinv n o x cenv env nx' s'.
Proof.
  intros [Hn [Hv [Hf He]]] L K. split; [lia|]. split.
  - intros k Hk. rewrite K by lia. apply Hv. exact Hk.
  - split.
    + intros q Hq. rewrite K by lia. apply Hf. lia.
    + eapply Forall2_weaken; [|exact He]. intros a J [B Rp]. split; [eapply below_mono; eauto|].
      rewrite (rd_keep s s' nx a B); [exact Rp|]. intros q Hq. apply K. left. exact Hq.
Qed.

Ltac run_snoc E1 E2 := rewrite run_app, E1; cbn [bind]; rewrite run_one; exact E2.

Theorem xcompile_sound n o x : forall e cenv env nx (s : StR),
  xwfe n (length env) e -> xinv n o x cenv env nx s -> xdomc env e x -> xres n o env x e cenv nx s.
Proof.
  induction e as [k|v|op e1 IH1|op e1 IH1 e2 IH2|e1 IH1|e1 IH1|e1 IH1|e1 IH1|e1 IH1 e2 IH2|e1 IH1 e2 IH2|e1 IH1 e2 IH2|e1 IH1 e2 IH2|i];
    intros cenv env nx s Hwf Hinv Hdom; unfold xres; cbn [xcompile].
  - (* XVar *) destruct Hinv as [Hn [Hv _]]. exists s. cbn [fst snd]. split; [apply run_nil|]. split; [lia|]. split; [auto|].
    cbn [xwfe] in Hwf. split; [cbn; lia|]. cbn [rd xsem]. apply Hv. exact Hwf.
  - (* XConst *) exists s. cbn [fst snd]. split; [apply run_nil|]. split; [lia|]. split; [auto|]. split; [exact I|]. cbn [xsem]. apply rep_im.
  - (* XMon *) cbn [xwfe xdomc] in *. destruct (IH1 cenv env nx s Hwf Hinv Hdom) as [s1 [E1 [L1 [K1 [B1 P1]]]]].
    destruct (xcompile cenv e1 nx) as [[p1 a] nx1] eqn:C1. cbn [fst snd] in *.
    pose proof (xinv_step _ _ _ _ _ _ _ _ _ Hinv L1 K1) as [_ [_ [Hf1 _]]].
    destruct (rep_mon S n o op nx1 a s1 _ (Hf1 nx1 (le_n _)) P1) as [s2 [E2 [Fr2 [_ [P2 _]]]]].
    exists s2. split; [run_snoc E1 E2|]. split; [lia|]. split; [intros q Hq; rewrite Fr2 by lia; apply K1; lia|].
    split; [cbn; lia|]. cbn [rd xsem]. exact P2.
  - (* XDy *) cbn [xwfe xdomc] in *. destruct Hwf as [W1 W2]. destruct Hdom as [D1 D2].
    destruct (IH1 cenv env nx s W1 Hinv D1) as [s1 [E1 [L1 [K1 [B1 P1]]]]].
    destruct (xcompile cenv e1 nx) as [[p1 a] nx1] eqn:C1. cbn [fst snd] in *.
    pose proof (xinv_step _ _ _ _ _ _ _ _ _ Hinv L1 K1) as Hinv1.
    destruct (IH2 cenv env nx1 s1 W2 Hinv1 D2) as [s2 [E2 [L2 [K2 [B2 P2]]]]].
    destruct (xcompile cenv e2 nx1) as [[p2 b] nx2] eqn:C2. cbn [fst snd] in *.
    pose proof (xinv_step _ _ _ _ _ _ _ _ _ Hinv1 L2 K2) as [_ [_ [Hf2 _]]].
    assert (Ha2 : rd s2 a = rd s1 a) by (apply (rd_keep s1 s2 nx1 a B1); intros q Hq; apply K2; left; exact Hq).
    rewrite <- Ha2 in P1.
    destruct (rep_dy_any S n o op nx2 a b s2 _ _ (Hf2 nx2 (le_n _)) P1 P2) as [s3 [E3 [Fr3 [_ [P3 _]]]]].
    exists s3. split; [rewrite run_app, E1; cbn [bind]; rewrite run_app, E2; cbn [bind]; rewrite run_one; exact E3|].
    split; [lia|]. split; [intros q Hq; rewrite Fr3 by lia; rewrite K2 by lia; apply K1; lia|].
    split; [cbn; lia|]. cbn [rd xsem]. exact P3.
  - (* XLogistic *) cbn [xwfe xdomc] in *. destruct (IH1 cenv env nx s Hwf Hinv Hdom) as [s1 [E1 [L1 [K1 [B1 P1]]]]].
    destruct (xcompile cenv e1 nx) as [[p1 a] nx1] eqn:C1. cbn [fst snd] in *.
    pose proof (xinv_step _ _ _ _ _ _ _ _ _ Hinv L1 K1) as [_ [_ [Hf1 _]]].
    destruct (logistic_jet S n o nx1 a s1 _ (Hf1 nx1 (le_n _)) P1) as [s2 [E2 [Fr2 P2]]].
    exists s2. split; [run_snoc E1 E2|]. split; [lia|]. split; [intros q Hq; rewrite Fr2 by lia; apply K1; lia|].
    split; [cbn; lia|]. cbn [rd xsem]. exact P2.
  - (* XSigmoid: temporary nx1, receiver S nx1 *) cbn [xwfe xdomc] in *.
    destruct (IH1 cenv env nx s Hwf Hinv Hdom) as [s1 [E1 [L1 [K1 [B1 P1]]]]].
    destruct (xcompile cenv e1 nx) as [[p1 a] nx1] eqn:C1. cbn [fst snd] in *.
    pose proof (xinv_step _ _ _ _ _ _ _ _ _ Hinv L1 K1) as [_ [_ [Hf1 _]]].
    destruct (sigmoid_jet S n o (Datatypes.S nx1) a nx1 s1 _ (Hf1 (Datatypes.S nx1) ltac:(lia)) (Hf1 nx1 (le_n _)) ltac:(lia) P1) as [s2 [E2 [Fr2 P2]]].
    exists s2. split; [run_snoc E1 E2|]. split; [lia|]. split; [intros q Hq; rewrite Fr2 by lia; apply K1; lia|].
    split; [cbn; lia|]. cbn [rd xsem]. exact P2.
  - (* XSqrt *) cbn [xwfe xdomc] in *. destruct Hdom as [D1 Dpos].
    destruct (IH1 cenv env nx s Hwf Hinv D1) as [s1 [E1 [L1 [K1 [B1 P1]]]]].
    destruct (xcompile cenv e1 nx) as [[p1 a] nx1] eqn:C1. cbn [fst snd] in *.
    pose proof (xinv_step _ _ _ _ _ _ _ _ _ Hinv L1 K1) as [_ [_ [Hf1 _]]].
    destruct (sqrt_jet S n o nx1 a s1 _ (Hf1 nx1 (le_n _)) P1 Dpos) as [s2 [E2 [Fr2 P2]]].
    exists s2. split; [run_snoc E1 E2|]. split; [lia|]. split; [intros q Hq; rewrite Fr2 by lia; apply K1; lia|].
    split; [cbn; lia|]. cbn [rd xsem]. exact P2.
  - (* XAbs *) cbn [xwfe xdomc] in *. destruct Hdom as [D1 Dnz].
    destruct (IH1 cenv env nx s Hwf Hinv D1) as [s1 [E1 [L1 [K1 [B1 P1]]]]].
    destruct (xcompile cenv e1 nx) as [[p1 a] nx1] eqn:C1. cbn [fst snd] in *.
    pose proof (xinv_step _ _ _ _ _ _ _ _ _ Hinv L1 K1) as [_ [_ [Hf1 _]]].
    destruct (abs_jet S n o nx1 a s1 _ (Hf1 nx1 (le_n _)) P1 Dnz (fun _ => below_not_reg nx1 a nx1 B1 (le_n _))) as [s2 [E2 [Fr2 P2]]].
    exists s2. split; [run_snoc E1 E2|]. split; [lia|]. split; [intros q Hq; rewrite Fr2 by lia; apply K1; lia|].
    split; [cbn; lia|]. cbn [rd xsem]. exact P2.
  - (* XMin *) cbn [xwfe xdomc] in *. destruct Hwf as [W1 W2]. destruct Hdom as [D1 D2].
    destruct (IH1 cenv env nx s W1 Hinv D1) as [s1 [E1 [L1 [K1 [B1 P1]]]]].
    destruct (xcompile cenv e1 nx) as [[p1 a] nx1] eqn:C1. cbn [fst snd] in *.
    pose proof (xinv_step _ _ _ _ _ _ _ _ _ Hinv L1 K1) as Hinv1.
    destruct (IH2 cenv env nx1 s1 W2 Hinv1 D2) as [s2 [E2 [L2 [K2 [B2 P2]]]]].
    destruct (xcompile cenv e2 nx1) as [[p2 b] nx2] eqn:C2. cbn [fst snd] in *.
    pose proof (xinv_step _ _ _ _ _ _ _ _ _ Hinv1 L2 K2) as [_ [_ [Hf2 _]]].
    assert (Ha2 : rd s2 a = rd s1 a) by (apply (rd_keep s1 s2 nx1 a B1); intros q Hq; apply K2; left; exact Hq).
    rewrite <- Ha2 in P1.
    destruct (min_jet_any n o nx2 a b s2 _ _ (Hf2 nx2 (le_n _)) P1 P2
                (below_not_reg nx1 a nx2 B1 L2) (below_not_reg nx2 b nx2 B2 (le_n _))) as [s3 [E3 [Fr3 P3]]].
    exists s3. split; [rewrite run_app, E1; cbn [bind]; rewrite run_app, E2; cbn [bind]; rewrite run_one; exact E3|].
    split; [lia|]. split; [intros q Hq; rewrite Fr3 by lia; rewrite K2 by lia; apply K1; lia|].
    split; [cbn; lia|]. cbn [rd xsem]. exact P3.
  - (* XMax *) cbn [xwfe xdomc] in *. destruct Hwf as [W1 W2]. destruct Hdom as [D1 D2].
    destruct (IH1 cenv env nx s W1 Hinv D1) as [s1 [E1 [L1 [K1 [B1 P1]]]]].
    destruct (xcompile cenv e1 nx) as [[p1 a] nx1] eqn:C1. cbn [fst snd] in *.
    pose proof (xinv_step _ _ _ _ _ _ _ _ _ Hinv L1 K1) as Hinv1.
    destruct (IH2 cenv env nx1 s1 W2 Hinv1 D2) as [s2 [E2 [L2 [K2 [B2 P2]]]]].
    destruct (xcompile cenv e2 nx1) as [[p2 b] nx2] eqn:C2. cbn [fst snd] in *.
    pose proof (xinv_step _ _ _ _ _ _ _ _ _ Hinv1 L2 K2) as [_ [_ [Hf2 _]]].
    assert (Ha2 : rd s2 a = rd s1 a) by (apply (rd_keep s1 s2 nx1 a B1); intros q Hq; apply K2; left; exact Hq).
    rewrite <- Ha2 in P1.
    destruct (max_jet_any n o nx2 a b s2 _ _ (Hf2 nx2 (le_n _)) P1 P2
                (below_not_reg nx1 a nx2 B1 L2) (below_not_reg nx2 b nx2 B2 (le_n _))) as [s3 [E3 [Fr3 P3]]].
    exists s3. split; [rewrite run_app, E1; cbn [bind]; rewrite run_app, E2; cbn [bind]; rewrite run_one; exact E3|].
    split; [lia|]. split; [intros q Hq; rewrite Fr3 by lia; rewrite K2 by lia; apply K1; lia|].
    split; [cbn; lia|]. cbn [rd xsem]. exact P3.
  - (* XLogAdd: temporary nx2, receiver S nx2 *) cbn [xwfe xdomc] in *. destruct Hwf as [W1 W2]. destruct Hdom as [D1 D2].
    destruct (IH1 cenv env nx s W1 Hinv D1) as [s1 [E1 [L1 [K1 [B1 P1]]]]].
    destruct (xcompile cenv e1 nx) as [[p1 a] nx1] eqn:C1. cbn [fst snd] in *.
    pose proof (xinv_step _ _ _ _ _ _ _ _ _ Hinv L1 K1) as Hinv1.
    destruct (IH2 cenv env nx1 s1 W2 Hinv1 D2) as [s2 [E2 [L2 [K2 [B2 P2]]]]].
    destruct (xcompile cenv e2 nx1) as [[p2 b] nx2] eqn:C2. cbn [fst snd] in *.
    pose proof (xinv_step _ _ _ _ _ _ _ _ _ Hinv1 L2 K2) as [_ [_ [Hf2 _]]].
    assert (Ha2 : rd s2 a = rd s1 a) by (apply (rd_keep s1 s2 nx1 a B1); intros q Hq; apply K2; left; exact Hq).
    rewrite <- Ha2 in P1.
    destruct (logadd_jet_thm S n o (Datatypes.S nx2) a b nx2 s2 _ _ (Hf2 (Datatypes.S nx2) ltac:(lia)) (Hf2 nx2 (le_n _)) ltac:(lia)
                (below_not_reg nx1 a nx2 B1 L2) (below_not_reg nx2 b nx2 B2 (le_n _))
                (below_not_reg nx1 a (Datatypes.S nx2) B1 ltac:(lia)) (below_not_reg nx2 b (Datatypes.S nx2) B2 ltac:(lia)) P1 P2)
      as [s3 [E3 [Fr3 P3]]].
    exists s3. split; [rewrite run_app, E1; cbn [bind]; rewrite run_app, E2; cbn [bind]; rewrite run_one; exact E3|].
    split; [lia|]. split; [intros q Hq; rewrite Fr3 by lia; rewrite K2 by lia; apply K1; lia|].
    split; [cbn; lia|]. cbn [rd xsem]. exact P3.
  - (* XLet: e1 once, its operand joins the environment of e2 *) cbn [xwfe xdomc] in *. destruct Hwf as [W1 W2]. destruct Hdom as [D1 D2].
    destruct (IH1 cenv env nx s W1 Hinv D1) as [s1 [E1 [L1 [K1 [B1 P1]]]]].
    destruct (xcompile cenv e1 nx) as [[p1 a] nx1] eqn:C1. cbn [fst snd] in *.
    pose proof (xinv_step _ _ _ _ _ _ _ _ _ Hinv L1 K1) as [Hn1 [Hv1 [Hf1 He1]]].
    assert (Hinv1 : xinv n o x (cenv ++ [a]) (env ++ [xsem env e1 x]) nx1 s1).
    { split; [exact Hn1|]. split; [exact Hv1|]. split; [exact Hf1|]. apply Forall2_app; [exact He1|]. constructor; [|constructor]. auto. }
    destruct (IH2 (cenv ++ [a]) (env ++ [xsem env e1 x]) nx1 s1 ltac:(rewrite app_length; cbn [length]; rewrite Nat.add_1_r; exact W2) Hinv1 D2)
      as [s2 [E2 [L2 [K2 [B2 P2]]]]].
    destruct (xcompile (cenv ++ [a]) e2 nx1) as [[p2 b] nx2] eqn:C2. cbn [fst snd] in *.
    exists s2. split; [rewrite run_app, E1; cbn [bind]; exact E2|].
    split; [lia|]. split; [intros q Hq; rewrite K2 by lia; apply K1; lia|]. split; [exact B2|]. cbn [xsem]. exact P2.
  - (* XRef *) cbn [xwfe] in Hwf. destruct Hinv as [Hn [Hv [Hf He]]].
    exists s. cbn [fst snd]. split; [apply run_nil|]. split; [lia|]. split; [auto|]. cbn [xsem].
    assert (G : forall (l : list (opd R)) (m : list jet) i, Forall2 (fun a J => below nx a /\ rep S n o (rd s a) J) l m -> (i < length m)%nat ->
                below nx (nth i l (Im 0)) /\ rep S n o (rd s (nth i l (Im 0))) (nth i m (jconst 0))).
    { intros l m j HF. revert j. induction HF as [|a J l m Ha HF IH]; intros [|j] Hj; cbn in *; try lia; auto. apply IH. lia. }
    apply G; assumption.
Qed.

(* the whole program: Variables(order, x_0 .. x_{n-1}) then the compiled DAG *)
Theorem xad_run n o e x (s : StR) :
  (1 <= o)%nat -> xwfe n 0 e -> xdomc [] e x ->
  (forall k, (k < n)%nat -> rorder (s k) = 0%nat /\ rval (s k) = x k) -> (forall q, (n <= q)%nat -> wf (s q)) ->
  exists s', run F idR (vars_prog n o ++ fst (fst (xcompile [] e n))) s = Ok s' /\
    let r := rd s' (snd (fst (xcompile [] e n))) in
    rval r = jv (xsem [] e x) /\
    (forall i, (i < n)%nat -> gd F r i = jg (xsem [] e x) i) /\
    ((2 <= o)%nat -> forall i j, (i < n)%nat -> (j < n)%nat -> gh F r i j = jh (xsem [] e x) i j /\ gh F r i j = gh F r j i).
Proof.
  intros Ho Hwf Hd Hv Hfree.
  destruct (vars_init S n o Ho (seq 0 n) s) as [s0 [E0 [Fr0 R0]]].
  { apply seq_NoDup. } { intros k Hk. apply in_seq in Hk. lia. } { intros k Hk. apply in_seq in Hk. apply Hv. lia. }
  destruct (xcompile_sound n o x e [] [] n s0 Hwf) as [s' [E [_ [_ [_ P]]]]].
  { split; [lia|]. split.
    - intros k Hk. replace (x k) with (rval (s k)) by (apply Hv; auto). apply R0. apply in_seq. lia.
    - split; [|constructor]. intros q Hq. rewrite Fr0 by (intro Hin; apply in_seq in Hin; lia). apply Hfree. exact Hq. }
  { exact Hd. }
  exists s'. split; [rewrite run_app; unfold vars_prog; rewrite E0; cbn [bind]; exact E|].
  cbv zeta. destruct P as [W [Sy [V [C [G H]]]]].
  split; [exact V|]. split; [intros i Hi; apply G; auto; lia|].
  intros H2 i j Hi Hj. split; [apply H; auto|apply Sy].
Qed.

(* ------------------------------------------------------------------ sharing does not change the jet *)
(* substitute the lets away (the tree a DAG unfolds to) *)
Fixpoint unlet (sub : list xexpr) (e : xexpr) : xexpr :=
  match e with
  | XVar k => XVar k | XConst v => XConst v
  | XRef i => nth i sub (XConst 0)
  | XMon op e1 => XMon op (unlet sub e1) | XDy op e1 e2 => XDy op (unlet sub e1) (unlet sub e2)
  | XLogistic e1 => XLogistic (unlet sub e1) | XSigmoid e1 => XSigmoid (unlet sub e1)
  | XSqrt e1 => XSqrt (unlet sub e1) | XAbs e1 => XAbs (unlet sub e1)
  | XMin e1 e2 => XMin (unlet sub e1) (unlet sub e2) | XMax e1 e2 => XMax (unlet sub e1) (unlet sub e2)
  | XLogAdd e1 e2 => XLogAdd (unlet sub e1) (unlet sub e2)
  | XLet e1 e2 => unlet (sub ++ [unlet sub e1]) e2
  end.

Theorem xsem_unlet x : forall e sub env,
  length env = length sub -> (forall i, (i < length sub)%nat -> nth i env (jconst 0) = xsem [] (nth i sub (XConst 0)) x) ->
  (forall i, (length sub <= i)%nat -> nth i env (jconst 0) = jconst 0) ->
  xsem env e x = xsem [] (unlet sub e) x.
Proof.
  induction e as [k|v|op e1 IH1|op e1 IH1 e2 IH2|e1 IH1|e1 IH1|e1 IH1|e1 IH1|e1 IH1 e2 IH2|e1 IH1 e2 IH2|e1 IH1 e2 IH2|e1 IH1 e2 IH2|i];
    intros sub env Hl He Ho; cbn [xsem unlet]; try reflexivity;
    try (rewrite (IH1 sub env) by auto; reflexivity);
    try (rewrite (IH1 sub env), (IH2 sub env) by auto; reflexivity).
  - (* XLet *) rewrite (IH1 sub env) by auto.
    apply IH2; [rewrite !app_length; cbn; lia| |].
    + intros i Hi. rewrite app_length in Hi. cbn [length] in Hi.
      destruct (Nat.eq_dec i (length sub)) as [E|E].
      * subst i. rewrite <- Hl at 1. rewrite !nth_middle. reflexivity.
      * rewrite !app_nth1 by lia. apply He. lia.
    + intros i Hi. rewrite app_length in Hi. cbn [length] in Hi. rewrite nth_overflow; [reflexivity|]. rewrite app_length; cbn; lia.
  - (* XRef *) destruct (lt_dec i (length sub)) as [L|L]; [apply He; exact L|].
    rewrite Ho by lia. rewrite nth_overflow by lia. reflexivity.
Qed.

Corollary xsem_closed_unlet e x : xsem [] e x = xsem [] (unlet [] e) x.
Proof. apply xsem_unlet; auto; intros i Hi; cbn in *; try lia. destruct i; reflexivity. Qed.

(* ------------------------------------------------------------------ the jets are the derivatives: let-free fragment *)
Definition xden (e : xexpr) (x : nat -> R) : R := jv (xsem [] e x).

Lemma sqrt_derivs v : 0 < v ->
  is_derive sqrt v (/ (2 * sqrt v)) /\ is_derive (fun t => / (2 * sqrt t)) v (- / (4 * v * sqrt v)).
Proof.
  intro H. pose proof (sqrt_lt_R0 _ H) as Hs. pose proof (sqrt_sqrt v (Rlt_le _ _ H)) as Hss. split.
  - auto_derive; [exact H|]. field. lra.
  - auto_derive; [split; [exact H|split; [|exact I]]; lra|]. remember (sqrt v) as r eqn:Er. rewrite <- Hss. field. lra.
Qed.

(* table operations, Logistic, Sigmoid, Sqrt; no lets (use [unlet] first) *)
Fixpoint xdom (e : xexpr) (x : nat -> R) : Prop :=
  match e with
  | XVar _ | XConst _ => True
  | XMon op e1 => xdom e1 x /\ m_ok S op (xden e1 x)
  | XDy op e1 e2 => xdom e1 x /\ xdom e2 x /\ d_curve S op (xden e1 x) (xden e2 x)
  | XLogistic e1 | XSigmoid e1 => xdom e1 x
  | XSqrt e1 => xdom e1 x /\ 0 < xden e1 x
  | _ => False
  end.

Lemma lift1_correct (f f1 f2 : R -> R) e1 x :
  (forall i, partial (xden e1) i x (jg (xsem [] e1 x) i) /\
             forall j, partial (fun y => jg (xsem [] e1 y) i) j x (jh (xsem [] e1 x) i j)) ->
  is_derive f (xden e1 x) (f1 (xden e1 x)) -> is_derive f1 (xden e1 x) (f2 (xden e1 x)) ->
  forall i, partial (fun y => jv (lift1 f f1 f2 (xsem [] e1 y))) i x (jg (lift1 f f1 f2 (xsem [] e1 x)) i) /\
            forall j, partial (fun y => jg (lift1 f f1 f2 (xsem [] e1 y)) i) j x (jh (lift1 f f1 f2 (xsem [] e1 x)) i j).
Proof.
  intros IH H1 H2 i. split.
  - apply (chain1_first (xden e1) f x i (jg (xsem [] e1 x) i) (f1 (xden e1 x))); [apply IH|exact H1].
  - intro j. apply (chain1_second (xden e1) (fun y => jg (xsem [] e1 y) i) f1 x j (jg (xsem [] e1 x) j) (jh (xsem [] e1 x) i j)
                                  (f2 (xden e1 x))); [apply IH|apply IH|exact H2].
Qed.

Theorem xD_correct : forall e x, xdom e x ->
  forall i, partial (xden e) i x (jg (xsem [] e x) i) /\
            forall j, partial (fun y => jg (xsem [] e y) i) j x (jh (xsem [] e x) i j).
Proof.
  induction e as [k|v|op e1 IH1|op e1 IH1 e2 IH2|e1 IH1|e1 IH1|e1 IH1|e1 IH1|e1 IH1 e2 IH2|e1 IH1 e2 IH2|e1 IH1 e2 IH2|e1 IH1 e2 IH2|r];
    intros x Hd; cbn [xdom] in Hd; try contradiction.
  - exact (D_correct S (EVar k) x I).
  - exact (D_correct S (EConst v) x I).
  - destruct Hd as [Hd1 [Hm1 Hm2]]. specialize (IH1 x Hd1). intro i. split.
    + apply (chain1_first (xden e1) (m_v0 F op) x i (jg (xsem [] e1 x) i) (m_f1 F op (xden e1 x))); [apply IH1|exact Hm1].
    + intro j. apply (chain1_second (xden e1) (fun y => jg (xsem [] e1 y) i) (m_f1 F op) x j (jg (xsem [] e1 x) j) (jh (xsem [] e1 x) i j)
                                    (m_f2 F op (xden e1 x))); [apply IH1|apply IH1|exact Hm2].
  - destruct Hd as [Hd1 [Hd2 Hc]]. specialize (IH1 x Hd1). specialize (IH2 x Hd2). intro i.
    set (A := xsem [] e1 x) in *. set (B := xsem [] e2 x) in *.
    split.
    + unfold partial.
      destruct (Hc (fun t => xden e1 (upd_pt x i t)) (fun t => xden e2 (upd_pt x i t)) (x i) (jg A i) (jg B i)) as [C0 _];
        [rewrite upd_pt_self; reflexivity|rewrite upd_pt_self; reflexivity|apply IH1|apply IH2|]. exact C0.
    + intro j. unfold partial.
      destruct (Hc (fun t => xden e1 (upd_pt x j t)) (fun t => xden e2 (upd_pt x j t)) (x j) (jg A j) (jg B j)) as [_ [C10 C01]];
        [rewrite upd_pt_self; reflexivity|rewrite upd_pt_self; reflexivity|apply IH1|apply IH2|].
      assert (HAi : is_derive (fun t => jg (xsem [] e1 (upd_pt x j t)) i) (x j) (jh A i j)) by apply IH1.
      assert (HBi : is_derive (fun t => jg (xsem [] e2 (upd_pt x j t)) i) (x j) (jh B i j)) by apply IH2.
      pose proof (is_derive_mult _ _ _ _ _ HAi C10 Rmult_comm) as M1.
      pose proof (is_derive_mult _ _ _ _ _ HBi C01 Rmult_comm) as M2.
      pose proof (is_derive_plus _ _ _ _ _ M1 M2) as P.
      cbv beta in P. rewrite !upd_pt_self in P. fold A B in P.
      eapply is_derive_ext; [|match goal with |- is_derive _ _ ?v => replace v with
        (plus (plus (mult (jh A i j) (d_f10 F op (xden e1 x) (xden e2 x)))
                    (mult (jg A i) (jg A j * d_f20 F op (xden e1 x) (xden e2 x) + jg B j * d_f11 F op (xden e1 x) (xden e2 x))))
              (plus (mult (jh B i j) (d_f01 F op (xden e1 x) (xden e2 x)))
                    (mult (jg B i) (jg A j * d_f11 F op (xden e1 x) (xden e2 x) + jg B j * d_f02 F op (xden e1 x) (xden e2 x)))))
        end; [exact P|]].
      * intro t. reflexivity.
      * unfold plus, mult; cbn. unfold xden. fold A B. ring.
  - apply (lift1_correct sigm sigm1 sigm2 e1 x (IH1 x Hd)); apply sigm_derive.
  - apply (lift1_correct sigm sigm1 sigm2 e1 x (IH1 x Hd)); apply sigm_derive.
  - destruct Hd as [Hd1 Hp]. apply (lift1_correct sqrt _ _ e1 x (IH1 x Hd1)); apply sqrt_derivs; exact Hp.
Qed.

End Dag.
