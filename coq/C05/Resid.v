(* C05 — exact residual checker for factorization outputs.

   Go's float64 outputs are finite dyadic rationals m * 2^e; the harness prints
   them exactly as pairs (m, e).  Every promised equation of the property is a
   polynomial identity in the factors, so it is evaluated here in exact integer
   arithmetic (no rounding anywhere) and compared with a tolerance that is
   computed HERE from the input (never supplied by the harness):
       tol(A, k) = n * max|A_ij| * 2^-k.
   Soundness of the checker with respect to the rational reading of the pairs is
   proved in ResidProofs.v.  No proofs in this file. *)
From Coq Require Import String List ZArith Bool.
Import ListNotations.
Open Scope Z_scope.

Definition dy := (Z * Z)%type.          (* (m, e) denotes m * 2^e *)
Definition dmat := list (list dy).

Definition dzero : dy := (0, 0).
Definition done : dy := (1, 0).
Definition dadd (a b : dy) : dy :=
  let '(m1, e1) := a in let '(m2, e2) := b in
  if e1 <=? e2 then (m1 + Z.shiftl m2 (e2 - e1), e1) else (Z.shiftl m1 (e1 - e2) + m2, e2).
Definition dneg (a : dy) : dy := (- fst a, snd a).
Definition dsub (a b : dy) : dy := dadd a (dneg b).
Definition dmul (a b : dy) : dy := (fst a * fst b, snd a + snd b).
Definition dabs (a : dy) : dy := (Z.abs (fst a), snd a).
Definition dle (a b : dy) : bool := 0 <=? fst (dsub b a).
Definition dlt (a b : dy) : bool := 0 <? fst (dsub b a).
Definition dis0 (a : dy) : bool := fst a =? 0.
Definition dmaxd (a b : dy) : dy := if dle a b then b else a.
Definition dscale2 (a : dy) (k : Z) : dy := (fst a, snd a + k).     (* a * 2^k *)

Definition dget (M : dmat) (i j : nat) : dy := nth j (nth i M []) dzero.
Definition dncols (M : dmat) : nat := length (hd [] M).
Definition dcol (j : nat) (M : dmat) : list dy := map (fun r => nth j r dzero) M.
Definition dtrans (M : dmat) : dmat := map (fun j => dcol j M) (seq 0 (dncols M)).
Fixpoint ddot (x y : list dy) : dy :=
  match x, y with a :: x', b :: y' => dadd (dmul a b) (ddot x' y') | _, _ => dzero end.
Definition dmmul (P Q : dmat) : dmat :=
  let Qt := dtrans Q in map (fun row => map (fun c => ddot row c) Qt) P.
Definition dident (n : nat) : dmat :=
  map (fun i => map (fun j => if Nat.eqb i j then done else dzero) (seq 0 n)) (seq 0 n).
Definition dmaxabs (M : dmat) : dy :=
  fold_left (fun m row => fold_left (fun m x => dmaxd m (dabs x)) row m) M dzero.
Definition dims_ok (M : dmat) (r c : nat) : bool :=
  Nat.eqb (length M) r && forallb (fun row => Nat.eqb (length row) c) M.

(* all entries of two r x c matrices differ by at most tol *)
Definition dclose (r c : nat) (P Q : dmat) (tol : dy) : bool :=
  forallb (fun i => forallb (fun j => dle (dabs (dsub (dget P i j) (dget Q i j))) tol) (seq 0 c)) (seq 0 r).
Definition dall (r c : nat) (M : dmat) (p : nat -> nat -> dy -> bool) : bool :=
  forallb (fun i => forallb (fun j => p i j (dget M i j)) (seq 0 c)) (seq 0 r).

Definition tolA (A : dmat) (n : nat) (k : Z) : dy :=
  dscale2 (dmul (Z.of_nat n, 0) (dmaxabs A)) (- k).
Definition tol1 (n : nat) (k : Z) : dy := (Z.of_nat n, - k).

(* U^T U = I within n * 2^-k *)
Definition dorth (n : nat) (U : dmat) (k : Z) : bool :=
  dims_ok U n n && dclose n n (dmmul (dtrans U) U) (dident n) (tol1 n k).
(* columns orthonormal: U is r x c, U^T U = I_c *)
Definition dorthcols (r c : nat) (U : dmat) (k : Z) : bool :=
  dims_ok U r c && dclose c c (dmmul (dtrans U) U) (dident c) (tol1 r k).

Definition K := 40.        (* orthogonal factorizations: relative 2^-40 *)
Definition Ksqrt := 24.    (* Denman-Beavers / Sherif iterations stop at a step of 1e-8 *)

Inductive rcase :=
| RNonFinite (kind : string)
| RChol (A L : dmat)
| RLdl (A L D : dmat)
| RFpd (A L D : dmat)
| RQR (A Q R : dmat)
| RHess (setzero : bool) (A H : dmat) (U : option dmat)
| RBidiag (A B : dmat) (U V : option dmat)
| RTridiag (A T : dmat) (U : option dmat)
| RSchur (A H : dmat) (U : option dmat)
| RSvd (A Sg : dmat) (U V : option dmat)
| REig (realspec : bool) (A : dmat) (vals : list dy) (vecs : option dmat)
| RSqrt (A X : dmat)
| RSqrtInv (A X : dmat).

Definition lower_tri (n : nat) (L : dmat) : bool := dall n n L (fun i j x => Nat.leb j i || dis0 x).
Definition upper_tri_tol (r c : nat) (M : dmat) (tol : dy) : bool :=
  dall r c M (fun i j x => Nat.leb i j || dle (dabs x) tol).
Definition unit_diag (n : nat) (L : dmat) : bool :=
  forallb (fun i => let x := dsub (dget L i i) done in dis0 x) (seq 0 n).
Definition diag_only (n : nat) (D : dmat) : bool := dall n n D (fun i j x => Nat.eqb i j || dis0 x).
Definition band_tol (r c : nat) (M : dmat) (lo hi : nat) (tol : dy) : bool :=
  (* entries with j + lo < i (below the lo-th subdiagonal) or i + hi < j are <= tol *)
  dall r c M (fun i j x => (Nat.leb i (j + lo) && Nat.leb j (i + hi)) || dle (dabs x) tol).

(* quasi upper triangular as coded: everything below the first subdiagonal is
   (within tol) zero, no two consecutive subdiagonal entries exceed tol, and a
   remaining 2x2 block has complex eigenvalues: (h11-h22)^2 + 4 h12 h21 < 0 *)
Definition quasi_tri (n : nat) (H : dmat) (tol : dy) : bool :=
  band_tol n n H 1 n tol &&
  forallb (fun i =>
    let s := dget H (S i) i in
    dle (dabs s) tol ||
    (dle (dabs (dget H (S (S i)) (S i))) tol &&
     let d := dsub (dget H i i) (dget H (S i) (S i)) in
     dlt (dadd (dmul d d) (dmul (4, 0) (dmul (dget H i (S i)) s))) dzero)) (seq 0 (n - 1)).

Definition opt_all {T} (o : option T) (p : T -> bool) : bool := match o with None => true | Some x => p x end.

Fixpoint sorted_desc_abs (l : list dy) : bool :=
  match l with
  | a :: ((b :: _) as t) => dle (dabs b) (dabs a) && sorted_desc_abs t
  | _ => true
  end.

Definition rcheck (c : rcase) : bool :=
  match c with
  | RNonFinite _ => false
  | RChol A L =>
      let n := length A in
      dims_ok L n n && lower_tri n L && dclose n n (dmmul L (dtrans L)) A (tolA A n K)
  | RLdl A L D =>
      let n := length A in
      dims_ok L n n && dims_ok D n n && lower_tri n L && unit_diag n L && diag_only n D &&
      forallb (fun i => dlt dzero (dget D i i)) (seq 0 n) &&
      dclose n n (dmmul (dmmul L D) (dtrans L)) A (tolA A n K)
  | RFpd A L D =>
      (* structure always; off-diagonal part of L D L^T reproduces A (the
         modification E = L D L^T - A is diagonal and non-negative) *)
      let n := length A in
      dims_ok L n n && dims_ok D n n && lower_tri n L && unit_diag n L && diag_only n D &&
      forallb (fun i => dlt dzero (dget D i i)) (seq 0 n) &&
      let P := dmmul (dmmul L D) (dtrans L) in
      let tol := tolA P n K in
      dall n n P (fun i j x =>
        if Nat.eqb i j then dle (dsub (dget A i i) tol) x
        else if Nat.ltb j i then dle (dabs (dsub x (dget A i j))) tol else true)
  | RQR A Q R =>
      let n := length A in let m := dncols A in
      dims_ok Q n m && dims_ok R n m &&
      upper_tri_tol n m R dzero &&
      dclose n m (dmmul Q (firstn m R)) A (tolA A n K)
  | RHess setzero A H U =>
      let n := length A in
      dims_ok H n n &&
      (negb setzero || band_tol n n H 1 n dzero) &&
      opt_all U (fun U => dorth n U K && dclose n n (dmmul (dmmul U H) (dtrans U)) A (tolA A n K))
  | RBidiag A Bm U V =>
      (* documented convention (the package's own test): U^T A V = B, i.e. A = U B V^T *)
      let m := length A in let n := dncols A in
      dims_ok Bm m n &&
      band_tol m n Bm 0 1 (tolA A m K) &&
      opt_all U (fun U => dorth m U K) && opt_all V (fun V => dorth n V K) &&
      match U, V with
      | Some U, Some V => dclose m n (dmmul (dmmul U Bm) (dtrans V)) A (tolA A m K)
      | _, _ => true
      end
  | RTridiag A T U =>
      let n := length A in
      dims_ok T n n && band_tol n n T 1 1 dzero &&
      opt_all U (fun U => dorth n U K && dclose n n (dmmul (dmmul U T) (dtrans U)) A (tolA A n K))
  | RSchur A H U =>
      let n := length A in
      dims_ok H n n && quasi_tri n H (tolA A n K) &&
      opt_all U (fun U => dorth n U K && dclose n n (dmmul (dmmul U H) (dtrans U)) A (tolA A n K))
  | RSvd A Sg U V =>
      let m := length A in let n := dncols A in
      dims_ok Sg m n &&
      dall m n Sg (fun i j x => if Nat.eqb i j then dle dzero x else dle (dabs x) (tolA A m K)) &&
      opt_all U (fun U => dorth m U K) && opt_all V (fun V => dorth n V K) &&
      match U, V with
      | Some U, Some V => dclose m n (dmmul (dmmul U Sg) (dtrans V)) A (tolA A m K)
      | _, _ => true
      end
  | REig realspec A vals vecs =>
      let n := length A in
      Nat.eqb (length vals) n && sorted_desc_abs vals &&
      opt_all vecs (fun Vm =>
        dims_ok Vm n n &&
        (negb realspec ||
         (let AV := dmmul A Vm in
          dall n n AV (fun i j x => dle (dabs (dsub x (dmul (nth j vals dzero) (dget Vm i j)))) (tolA A n Ksqrt)) &&
          forallb (fun j => let c := dcol j Vm in dle (dabs (dsub (ddot c c) done)) (tol1 n K)) (seq 0 n))))
  | RSqrt A X =>
      let n := length A in
      dims_ok X n n && dclose n n (dmmul X X) A (tolA A n Ksqrt)
  | RSqrtInv A X =>
      let n := length A in
      dims_ok X n n && dclose n n (dmmul (dmmul X A) X) (dident n) (tol1 n Ksqrt)
  end.

Definition rmism (cs : list rcase) : list nat :=
  (fix go (n : nat) (cs : list rcase) : list nat :=
     match cs with [] => [] | c :: r => if rcheck c then go (S n) r else n :: go (S n) r end) O cs.
