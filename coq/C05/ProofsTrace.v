(* C05 — the "trace machine" invariant of the ITERATIVE factorization routines
   (QR algorithm: H <- Q^T H Q, U <- U Q per Givens/Householder step; SVD:
   B <- Q^T B with U <- U Q, and B <- B Q with V <- V Q).

   The routines themselves are data dependent and are not modelled.  What is
   proved here, once, over R and for every size, is that ANY finite sequence of
   such steps with orthogonal step matrices keeps U H U^T (resp. U B V^T) and
   the orthogonality of the accumulators invariant.

   PART 1: matrices as functions nat -> nat -> R, equality on a window.
   PART 2: the step matrices of the model: Givens rotations (tied in index form
           to givens_left / givens_right of Model.v) and Householder reflectors. *)
From Coq Require Import Reals List Lia Lra Bool Arith.
From ADV Require Import Base.Num C05.Model C05.Spec C05.ProofsBase C05.ProofsGivens C05.ProofsHouse.
Import ListNotations.
Open Scope R_scope.

(* ================================================================== *)
(* PART 1 *)

Definition fmatR := nat -> nat -> R.
Definition mmul (n : nat) (A B : fmatR) : fmatR := fun i j => sum_n (fun k => A i k * B k j) n.
Definition tr (A : fmatR) : fmatR := fun i j => A j i.
(* equality on the r x c window *)
Definition meq (r c : nat) (A B : fmatR) : Prop :=
  forall i j, (i < r)%nat -> (j < c)%nat -> A i j = B i j.
(* orthogonal n x n: both Q^T Q = I and Q Q^T = I on the window *)
Definition orth (n : nat) (Q : fmatR) : Prop :=
  meq n n (mmul n (tr Q) Q) delta /\ meq n n (mmul n Q (tr Q)) delta.

(* ---------- finite sums ---------- *)
Lemma sum_n_exchange (f : nat -> nat -> R) n m :
  sum_n (fun i => sum_n (fun j => f i j) m) n = sum_n (fun j => sum_n (fun i => f i j) n) m.
Proof.
  induction n as [|n IH].
  - simpl. symmetry. apply sum_n_zero. intros; reflexivity.
  - change (sum_n (fun i => sum_n (fun j => f i j) m) (S n))
      with (sum_n (fun i => sum_n (fun j => f i j) m) n + sum_n (fun j => f n j) m).
    rewrite IH.
    rewrite <- (sum_n_plus (fun j => sum_n (fun i => f i j) n) (fun j => f n j)).
    apply sum_n_ext. intros j _. reflexivity.
Qed.

(* ---------- window equality ---------- *)
Lemma meq_refl r c A : meq r c A A.
Proof. intros i j _ _. reflexivity. Qed.

Lemma meq_sym r c A B : meq r c A B -> meq r c B A.
Proof. intros H i j Hi Hj. symmetry. apply H; assumption. Qed.

Lemma meq_trans r c A B C : meq r c A B -> meq r c B C -> meq r c A C.
Proof. intros H1 H2 i j Hi Hj. rewrite H1, H2; auto. Qed.

Lemma meq_tr r c A B : meq r c A B -> meq c r (tr A) (tr B).
Proof. intros H i j Hi Hj. unfold tr. apply H; assumption. Qed.

Lemma tr_tr A i j : tr (tr A) i j = A i j.
Proof. reflexivity. Qed.

(* ---------- products ---------- *)
Lemma mmul_ext_all n A A' B B' :
  (forall i j, A i j = A' i j) -> (forall i j, B i j = B' i j) ->
  forall i j, mmul n A B i j = mmul n A' B' i j.
Proof.
  intros HA HB i j. unfold mmul. apply sum_n_ext. intros k _. rewrite HA, HB. reflexivity.
Qed.

(* congruence on windows: A (r x p), B (p x c) *)
Lemma mmul_congr r p c A A' B B' :
  meq r p A A' -> meq p c B B' -> meq r c (mmul p A B) (mmul p A' B').
Proof.
  intros HA HB i j Hi Hj. unfold mmul. apply sum_n_ext. intros k Hk.
  rewrite HA, HB; auto.
Qed.

(* associativity: holds entrywise everywhere, for all inner sizes p, q *)
Lemma mmul_assoc p q A B C i j :
  mmul q (mmul p A B) C i j = mmul p A (mmul q B C) i j.
Proof.
  unfold mmul.
  rewrite (sum_n_ext _ (fun k => sum_n (fun l => A i l * B l k * C k j) p)).
  2:{ intros k _. symmetry. apply (sum_n_scal_r (C k j) (fun l => A i l * B l k)). }
  rewrite (sum_n_exchange (fun k l => A i l * B l k * C k j)).
  apply sum_n_ext. intros l _.
  rewrite <- (sum_n_scal (A i l) (fun k => B l k * C k j)).
  apply sum_n_ext. intros k _. ring.
Qed.

Lemma mmul_assoc_meq r c p q A B C :
  meq r c (mmul q (mmul p A B) C) (mmul p A (mmul q B C)).
Proof. intros i j _ _. apply mmul_assoc. Qed.

Lemma mmul_delta_l n c A : meq n c (mmul n delta A) A.
Proof.
  intros i j Hi Hj. unfold mmul. apply (sum_n_delta_l (fun k => A k j)). exact Hi.
Qed.

Lemma mmul_delta_r r n A : meq r n (mmul n A delta) A.
Proof.
  intros i j Hi Hj. unfold mmul.
  rewrite (sum_n_ext _ (fun k => delta j k * A i k)).
  - apply (sum_n_delta_l (fun k => A i k)). exact Hj.
  - intros k _. rewrite (delta_sym k j). ring.
Qed.

Lemma tr_mmul n A B i j : tr (mmul n A B) i j = mmul n (tr B) (tr A) i j.
Proof. unfold tr, mmul. apply sum_n_ext. intros k _. ring. Qed.

Lemma tr_delta i j : tr delta i j = delta i j.
Proof. unfold tr. apply delta_sym. Qed.

(* ---------- orthogonal matrices ---------- *)
Lemma orth_delta n : orth n delta.
Proof.
  split; intros i j Hi Hj.
  - rewrite (mmul_ext_all n (tr delta) delta delta delta tr_delta (fun _ _ => eq_refl)).
    apply (mmul_delta_l n n delta); assumption.
  - rewrite (mmul_ext_all n delta delta (tr delta) delta (fun _ _ => eq_refl) tr_delta).
    apply (mmul_delta_l n n delta); assumption.
Qed.

Lemma orth_tr n Q : orth n Q -> orth n (tr Q).
Proof. intros [H1 H2]. split; assumption. Qed.

Lemma orth_meq n Q Q' : meq n n Q Q' -> orth n Q -> orth n Q'.
Proof.
  intros HQ [H1 H2]. split.
  - apply meq_trans with (mmul n (tr Q) Q); [|exact H1].
    apply mmul_congr; [apply meq_tr|]; apply meq_sym; exact HQ.
  - apply meq_trans with (mmul n Q (tr Q)); [|exact H2].
    apply mmul_congr; [|apply meq_tr]; apply meq_sym; exact HQ.
Qed.

(* (A Q)(Q^T B) = A B, A : r x n, B : n x c *)
Lemma sandwich n Q r c A B :
  orth n Q -> meq r c (mmul n (mmul n A Q) (mmul n (tr Q) B)) (mmul n A B).
Proof.
  intros [_ HQ] i j Hi Hj. rewrite mmul_assoc.
  apply (mmul_congr r n c A A _ B (meq_refl r n A)); [|exact Hi|exact Hj].
  intros a b Ha Hb. rewrite <- mmul_assoc.
  rewrite (mmul_congr n n c _ delta B B HQ (meq_refl n c B) a b Ha Hb).
  apply (mmul_delta_l n c B); assumption.
Qed.

(* (A Q^T)(Q B) = A B *)
Lemma sandwich_tr n Q r c A B :
  orth n Q -> meq r c (mmul n (mmul n A (tr Q)) (mmul n Q B)) (mmul n A B).
Proof. intro HQ. apply (sandwich n (tr Q) r c A B). apply orth_tr. exact HQ. Qed.

(* the product of orthogonal matrices is orthogonal *)
Lemma orth_mmul n U Q : orth n U -> orth n Q -> orth n (mmul n U Q).
Proof.
  intros HU HQ. split.
  - (* (UQ)^T (UQ) = Q^T U^T U Q *)
    intros i j Hi Hj.
    rewrite (mmul_ext_all n _ (mmul n (tr Q) (tr U)) (mmul n U Q) (mmul n U Q)
               (tr_mmul n U Q) (fun _ _ => eq_refl)).
    pose proof (orth_tr n Q HQ) as HQt.
    pose proof (sandwich_tr n U n n (tr Q) Q HU i j Hi Hj) as E.
    rewrite E. destruct HQ as [HQ1 _]. apply HQ1; assumption.
  - intros i j Hi Hj.
    rewrite (mmul_ext_all n (mmul n U Q) (mmul n U Q) _ (mmul n (tr Q) (tr U))
               (fun _ _ => eq_refl) (tr_mmul n U Q)).
    rewrite (sandwich n Q n n U (tr U) HQ i j Hi Hj).
    destruct HU as [_ HU2]. apply HU2; assumption.
Qed.

(* U Q (U Q)^T = U U^T: the Gram matrix of the rows of the accumulator never changes.
   (The other Gram matrix is only conjugated: (U Q)^T (U Q) = Q^T (U^T U) Q; it is
   the identity as soon as U^T U is: orth_mmul.) *)
Lemma gram_mmul n U Q :
  orth n Q -> meq n n (mmul n (mmul n U Q) (tr (mmul n U Q))) (mmul n U (tr U)).
Proof.
  intros HQ i j Hi Hj.
  rewrite (mmul_ext_all n (mmul n U Q) (mmul n U Q) _ (mmul n (tr Q) (tr U))
             (fun _ _ => eq_refl) (tr_mmul n U Q)).
  apply (sandwich n Q n n U (tr U) HQ); assumption.
Qed.

(* ---------- steps and machines ---------- *)
Inductive step := Sim (Q : fmatR) | LeftS (Q : fmatR) | RightS (Q : fmatR).

(* QR machine: state (H, U), n x n; Sim Q: H <- Q^T H Q, U <- U Q *)
Definition qr_step (n : nat) (s : step) (st : fmatR * fmatR) : fmatR * fmatR :=
  match s with
  | Sim Q => (mmul n (tr Q) (mmul n (fst st) Q), mmul n (snd st) Q)
  | _ => st
  end.
Definition qr_valid (n : nat) (s : step) : Prop :=
  match s with Sim Q => orth n Q | _ => False end.
Definition qr_run (n : nat) (l : list step) (st : fmatR * fmatR) : fmatR * fmatR :=
  fold_left (fun st s => qr_step n s st) l st.
(* U H U^T *)
Definition uhut (n : nat) (st : fmatR * fmatR) : fmatR :=
  mmul n (snd st) (mmul n (fst st) (tr (snd st))).

(* SVD machine: state (B, U, V), B m x n, U m x m, V n x n;
   LeftS Q (m x m): B <- Q^T B, U <- U Q;  RightS Q (n x n): B <- B Q, V <- V Q *)
Record svd_state := mkSvd { sB : fmatR; sU : fmatR; sV : fmatR }.
Definition svd_step (m n : nat) (s : step) (st : svd_state) : svd_state :=
  match s with
  | LeftS Q => mkSvd (mmul m (tr Q) (sB st)) (mmul m (sU st) Q) (sV st)
  | RightS Q => mkSvd (mmul n (sB st) Q) (sU st) (mmul n (sV st) Q)
  | Sim _ => st
  end.
Definition svd_valid (m n : nat) (s : step) : Prop :=
  match s with LeftS Q => orth m Q | RightS Q => orth n Q | Sim _ => False end.
Definition svd_run (m n : nat) (l : list step) (st : svd_state) : svd_state :=
  fold_left (fun st s => svd_step m n s st) l st.
(* U B V^T *)
Definition ubvt (m n : nat) (st : svd_state) : fmatR :=
  mmul m (sU st) (mmul n (sB st) (tr (sV st))).

(* one similarity step *)
Lemma qr_step_invariant n Q H U :
  orth n Q ->
  meq n n (uhut n (qr_step n (Sim Q) (H, U))) (uhut n (H, U)).
Proof.
  intros HQ i j Hi Hj. unfold uhut, qr_step. cbn [fst snd].
  transitivity (mmul n (mmul n U Q)
                  (mmul n (tr Q) (mmul n (mmul n H Q) (mmul n (tr Q) (tr U)))) i j).
  { apply mmul_ext_all; [reflexivity|]. intros a b. rewrite mmul_assoc.
    apply mmul_ext_all; [reflexivity|]. intros a' b'.
    apply mmul_ext_all; [reflexivity|]. intros a'' b''. apply tr_mmul. }
  rewrite (sandwich n Q n n U _ HQ i j Hi Hj).
  apply (mmul_congr n n n U U _ _ (meq_refl n n U)); [|exact Hi|exact Hj].
  apply sandwich. exact HQ.
Qed.

Lemma svd_left_invariant m n Q st :
  orth m Q -> meq m n (ubvt m n (svd_step m n (LeftS Q) st)) (ubvt m n st).
Proof.
  intros HQ i j Hi Hj. unfold ubvt, svd_step. cbn [sB sU sV].
  transitivity (mmul m (mmul m (sU st) Q) (mmul m (tr Q) (mmul n (sB st) (tr (sV st)))) i j).
  { apply mmul_ext_all; [reflexivity|]. intros a b. apply mmul_assoc. }
  apply (sandwich m Q m n (sU st) _ HQ i j Hi Hj).
Qed.

Lemma svd_right_invariant m n Q st :
  orth n Q -> meq m n (ubvt m n (svd_step m n (RightS Q) st)) (ubvt m n st).
Proof.
  intros HQ i j Hi Hj. unfold ubvt, svd_step. cbn [sB sU sV].
  transitivity (mmul m (sU st) (mmul n (mmul n (sB st) Q) (mmul n (tr Q) (tr (sV st)))) i j).
  { apply mmul_ext_all; [reflexivity|]. intros a b.
    apply mmul_ext_all; [reflexivity|]. intros a' b'. apply tr_mmul. }
  apply (mmul_congr m m n (sU st) (sU st) _ _ (meq_refl m m (sU st))); [|exact Hi|exact Hj].
  apply sandwich. exact HQ.
Qed.

(* ---------- the invariants, for every trace ---------- *)
Theorem qr_trace_invariant :
  forall (n : nat) (l : list step) (H U : fmatR),
  Forall (qr_valid n) l ->
  let st' := qr_run n l (H, U) in
  meq n n (uhut n st') (uhut n (H, U)) /\
  meq n n (mmul n (snd st') (tr (snd st'))) (mmul n U (tr U)) /\
  (orth n U -> orth n (snd st')).
Proof.
  intros n l. induction l as [|s l IH]; intros H U Hv.
  - cbn. split; [apply meq_refl|]. split; [apply meq_refl|]. auto.
  - inversion Hv as [|s' l' Hs Hl]; subst.
    destruct s as [Q|Q|Q]; cbn in Hs; try contradiction.
    cbv zeta. unfold qr_run. cbn [fold_left].
    change (fold_left (fun st s => qr_step n s st) l (qr_step n (Sim Q) (H, U)))
      with (qr_run n l (mmul n (tr Q) (mmul n H Q), mmul n U Q)).
    destruct (IH (mmul n (tr Q) (mmul n H Q)) (mmul n U Q) Hl) as (I1 & I2 & I3).
    split; [|split].
    + eapply meq_trans; [exact I1|]. apply (qr_step_invariant n Q H U Hs).
    + eapply meq_trans; [exact I2|]. apply gram_mmul. exact Hs.
    + intro HU. apply I3. apply orth_mmul; assumption.
Qed.

Theorem svd_trace_invariant :
  forall (m n : nat) (l : list step) (st : svd_state),
  Forall (svd_valid m n) l ->
  let st' := svd_run m n l st in
  meq m n (ubvt m n st') (ubvt m n st) /\
  meq m m (mmul m (sU st') (tr (sU st'))) (mmul m (sU st) (tr (sU st))) /\
  meq n n (mmul n (sV st') (tr (sV st'))) (mmul n (sV st) (tr (sV st))) /\
  (orth m (sU st) -> orth m (sU st')) /\
  (orth n (sV st) -> orth n (sV st')).
Proof.
  intros m n l. induction l as [|s l IH]; intros st Hv.
  - cbn. split; [apply meq_refl|]. split; [apply meq_refl|]. split; [apply meq_refl|]. auto.
  - inversion Hv as [|s' l' Hs Hl]; subst.
    cbv zeta. unfold svd_run. cbn [fold_left].
    change (fold_left (fun st s => svd_step m n s st) l (svd_step m n s st))
      with (svd_run m n l (svd_step m n s st)).
    destruct (IH (svd_step m n s st) Hl) as (I1 & I2 & I3 & I4 & I5).
    destruct s as [Q|Q|Q]; cbn in Hs; try contradiction.
    + (* LeftS *)
      split; [|split; [|split; [|split]]].
      * eapply meq_trans; [exact I1|]. apply svd_left_invariant. exact Hs.
      * eapply meq_trans; [exact I2|]. cbn [svd_step sU]. apply gram_mmul. exact Hs.
      * exact I3.
      * intro HU. apply I4. cbn [svd_step sU]. apply orth_mmul; assumption.
      * exact I5.
    + (* RightS *)
      split; [|split; [|split; [|split]]].
      * eapply meq_trans; [exact I1|]. apply svd_right_invariant. exact Hs.
      * exact I2.
      * eapply meq_trans; [exact I3|]. cbn [svd_step sV]. apply gram_mmul. exact Hs.
      * exact I4.
      * intro HV. apply I5. cbn [svd_step sV]. apply orth_mmul; assumption.
Qed.

(* ---------- consequences ---------- *)
(* QR algorithm started at (A, I): A = U' H' U'^T with U' orthogonal *)
Corollary qr_trace_from_identity :
  forall (n : nat) (l : list step) (A : fmatR),
  Forall (qr_valid n) l ->
  let st' := qr_run n l (A, delta) in
  meq n n A (mmul n (snd st') (mmul n (fst st') (tr (snd st')))) /\ orth n (snd st').
Proof.
  intros n l A Hv st'. destruct (qr_trace_invariant n l A delta Hv) as (I1 & _ & I3).
  fold st' in I1, I3. split; [|apply I3; apply orth_delta].
  apply meq_sym. eapply meq_trans; [exact I1|].
  unfold uhut. cbn [fst snd].
  eapply meq_trans; [apply mmul_delta_l|].
  intros i j Hi Hj.
  rewrite (mmul_ext_all n A A (tr delta) delta (fun _ _ => eq_refl) tr_delta).
  apply (mmul_delta_r n n A); assumption.
Qed.

(* started at the output (H0, U0) of an orthogonal reduction A = U0 H0 U0^T
   (Hessenberg / tridiagonal form) *)
Corollary qr_trace_from_reduction :
  forall (n : nat) (l : list step) (A H0 U0 : fmatR),
  Forall (qr_valid n) l ->
  meq n n A (mmul n U0 (mmul n H0 (tr U0))) -> orth n U0 ->
  let st' := qr_run n l (H0, U0) in
  meq n n A (mmul n (snd st') (mmul n (fst st') (tr (snd st')))) /\ orth n (snd st').
Proof.
  intros n l A H0 U0 Hv HA HU st'.
  destruct (qr_trace_invariant n l H0 U0 Hv) as (I1 & _ & I3). fold st' in I1, I3.
  split; [|apply I3; exact HU].
  eapply meq_trans; [exact HA|]. apply meq_sym. exact I1.
Qed.

(* SVD iteration started at the bidiagonalisation output A = U0 B0 V0^T *)
Corollary svd_trace_from_bidiag :
  forall (m n : nat) (l : list step) (A B0 U0 V0 : fmatR),
  Forall (svd_valid m n) l ->
  meq m n A (mmul m U0 (mmul n B0 (tr V0))) -> orth m U0 -> orth n V0 ->
  let st' := svd_run m n l (mkSvd B0 U0 V0) in
  meq m n A (mmul m (sU st') (mmul n (sB st') (tr (sV st')))) /\
  orth m (sU st') /\ orth n (sV st').
Proof.
  intros m n l A B0 U0 V0 Hv HA HU HV st'.
  destruct (svd_trace_invariant m n l (mkSvd B0 U0 V0) Hv) as (I1 & _ & _ & I4 & I5).
  fold st' in I1, I4, I5. cbn [sU sV] in I4, I5.
  split; [|split; [apply I4; exact HU|apply I5; exact HV]].
  eapply meq_trans; [exact HA|]. apply meq_sym. exact I1.
Qed.

Corollary svd_trace_from_identity :
  forall (m n : nat) (l : list step) (A : fmatR),
  Forall (svd_valid m n) l ->
  let st' := svd_run m n l (mkSvd A delta delta) in
  meq m n A (mmul m (sU st') (mmul n (sB st') (tr (sV st')))) /\
  orth m (sU st') /\ orth n (sV st').
Proof.
  intros m n l A Hv. apply svd_trace_from_bidiag; [exact Hv| |apply orth_delta|apply orth_delta].
  apply meq_sym. eapply meq_trans; [apply mmul_delta_l|].
  intros i j Hi Hj.
  rewrite (mmul_ext_all n A A (tr delta) delta (fun _ _ => eq_refl) tr_delta).
  apply (mmul_delta_r m n A); assumption.
Qed.

(* ================================================================== *)
(* PART 2: the step matrices of the model *)

(* ---------- sums with one or two non-zero terms ---------- *)
Lemma sum_n_one (f : nat -> R) k n :
  (k < n)%nat -> (forall l, (l < n)%nat -> l <> k -> f l = 0) -> sum_n f n = f k.
Proof.
  intros Hk Hz. rewrite (sum_n_ext _ (fun l => delta k l * f l)).
  - apply sum_n_delta_l. exact Hk.
  - intros l Hl. unfold delta. destruct (Nat.eqb_spec k l) as [->|Hne]; [lra|].
    rewrite Hz; [lra|exact Hl|auto].
Qed.

Lemma sum_n_two (f : nat -> R) i k n :
  i <> k -> (i < n)%nat -> (k < n)%nat ->
  (forall l, (l < n)%nat -> l <> i -> l <> k -> f l = 0) -> sum_n f n = f i + f k.
Proof.
  intros Hik Hi Hk Hz.
  rewrite (sum_n_ext _ (fun l => delta i l * f l + delta k l * f l)).
  - rewrite sum_n_plus. rewrite (sum_n_delta_l f i n Hi), (sum_n_delta_l f k n Hk). reflexivity.
  - intros l Hl. unfold delta.
    destruct (Nat.eqb_spec i l) as [E1|N1]; destruct (Nat.eqb_spec k l) as [E2|N2]; try lra.
    + exfalso. apply Hik. congruence.
    + rewrite Hz; [lra|exact Hl|auto|auto].
Qed.

(* ---------- the Givens matrix ---------- *)
(* identity except G_ii = G_kk = c, G_ik = s, G_ki = -s.  With this G,
   givens_left M = G^T M and givens_right M = M G (ties below). *)
Definition Gmat (c s : R) (i k : nat) : fmatR := fun a b =>
  if Nat.eqb a i then (if Nat.eqb b i then c else if Nat.eqb b k then s else 0)
  else if Nat.eqb a k then (if Nat.eqb b i then - s else if Nat.eqb b k then c else 0)
  else delta a b.

Ltac eqb_cases :=
  repeat match goal with
         | |- context [Nat.eqb ?x ?y] => destruct (Nat.eqb_spec x y); try lia
         end.

(* (G^T x)_b, equivalently (x^T G)_b *)
Lemma Gmat_col_apply (c s : R) (i k n : nat) (f : nat -> R) (b : nat) :
  i <> k -> (i < n)%nat -> (k < n)%nat -> (b < n)%nat ->
  sum_n (fun l => Gmat c s i k l b * f l) n =
  if Nat.eqb b i then c * f i - s * f k
  else if Nat.eqb b k then s * f i + c * f k else f b.
Proof.
  intros Hik Hi Hk Hb.
  destruct (Nat.eqb_spec b i) as [Ebi|Nbi]; [|destruct (Nat.eqb_spec b k) as [Ebk|Nbk]].
  - subst b. rewrite (sum_n_two _ i k n Hik Hi Hk).
    + unfold Gmat, delta. eqb_cases. lra.
    + intros l Hl Hli Hlk. unfold Gmat, delta. eqb_cases. lra.
  - subst b. rewrite (sum_n_two _ i k n Hik Hi Hk).
    + unfold Gmat, delta. eqb_cases. lra.
    + intros l Hl Hli Hlk. unfold Gmat, delta. eqb_cases. lra.
  - rewrite (sum_n_ext _ (fun l => delta b l * f l)).
    + apply sum_n_delta_l. exact Hb.
    + intros l Hl. unfold Gmat, delta. eqb_cases; lra.
Qed.

Lemma Gmat_tr (c s : R) (i k a b : nat) : i <> k -> tr (Gmat c s i k) a b = Gmat c (- s) i k a b.
Proof. intro Hik. unfold tr, Gmat, delta. eqb_cases; lra. Qed.

Lemma Gmat_gram (c s : R) (i k n : nat) :
  c * c + s * s = 1 -> i <> k -> (i < n)%nat -> (k < n)%nat ->
  meq n n (mmul n (tr (Gmat c s i k)) (Gmat c s i k)) delta.
Proof.
  intros Hcs Hik Hi Hk a b Ha Hb. unfold mmul, tr.
  rewrite (Gmat_col_apply c s i k n (fun l => Gmat c s i k l b) a Hik Hi Hk Ha).
  unfold Gmat, delta. eqb_cases; lra.
Qed.

Theorem Gmat_orth (c s : R) (i k n : nat) :
  c * c + s * s = 1 -> i <> k -> (i < n)%nat -> (k < n)%nat -> orth n (Gmat c s i k).
Proof.
  intros Hcs Hik Hi Hk. split.
  - apply Gmat_gram; assumption.
  - intros a b Ha Hb.
    assert (Hcs' : c * c + - s * - s = 1) by lra.
    rewrite <- (Gmat_gram c (- s) i k n Hcs' Hik Hi Hk a b Ha Hb).
    unfold mmul. apply sum_n_ext. intros l _.
    rewrite (Gmat_tr c s i k l b Hik).
    change (tr (Gmat c (- s) i k) a l) with (Gmat c (- s) i k l a).
    rewrite <- (Gmat_tr c s i k l a Hik). reflexivity.
Qed.

(* ---------- Householder reflectors ---------- *)
Theorem refl_orth (n : nat) (beta : R) (v : list R) :
  beta = 0 \/ beta * dot n v v = 2 -> orth n (refl beta v).
Proof.
  intro Hb. split; intros i j Hi Hj; unfold mmul, tr.
  - apply refl_orthogonal; assumption.
  - rewrite (sum_n_ext _ (fun k => refl beta v k i * refl beta v k j)).
    + apply refl_orthogonal; assumption.
    + intros k _. rewrite (refl_symmetric beta v i k), (refl_symmetric beta v j k). reflexivity.
Qed.

(* ---------- list access: set_nth, map2 ---------- *)
Lemma set_nth_nil {B} i (x : B) : set_nth [] i x = [].
Proof. destruct i; reflexivity. Qed.

Lemma set_nth_cons_S {B} (y : B) l i x : set_nth (y :: l) (S i) x = y :: set_nth l i x.
Proof. reflexivity. Qed.

Lemma length_set_nth {B} (l : list B) i x : length (set_nth l i x) = length l.
Proof.
  revert i. induction l as [|y l IH]; intro i.
  - rewrite set_nth_nil. reflexivity.
  - destruct i as [|i]; [reflexivity|]. rewrite set_nth_cons_S. simpl. rewrite IH. reflexivity.
Qed.

Lemma nth_set_nth_eq {B} (l : list B) i x d : (i < length l)%nat -> nth i (set_nth l i x) d = x.
Proof.
  revert i. induction l as [|y l IH]; intros i Hi; [simpl in Hi; lia|].
  destruct i as [|i]; [reflexivity|]. rewrite set_nth_cons_S. simpl. apply IH. simpl in Hi. lia.
Qed.

Lemma nth_set_nth_neq {B} (l : list B) i a x d : a <> i -> nth a (set_nth l i x) d = nth a l d.
Proof.
  revert i a. induction l as [|y l IH]; intros i a Hne.
  - rewrite set_nth_nil. reflexivity.
  - destruct i as [|i].
    + destruct a as [|a]; [lia|]. reflexivity.
    + rewrite set_nth_cons_S. destruct a as [|a]; [reflexivity|]. simpl. apply IH. lia.
Qed.

Lemma In_set_nth {B} (l : list B) i x r : In r (set_nth l i x) -> r = x \/ In r l.
Proof.
  revert i. induction l as [|y l IH]; intros i Hin.
  - rewrite set_nth_nil in Hin. destruct Hin.
  - destruct i as [|i].
    + destruct Hin as [E|Hin]; [left; auto|right; right; exact Hin].
    + rewrite set_nth_cons_S in Hin. destruct Hin as [E|Hin]; [right; left; exact E|].
      destruct (IH i Hin) as [E|Hin']; [left; exact E|right; right; exact Hin'].
Qed.

Lemma length_map2 {B C D} (f : B -> C -> D) x y : length (map2 f x y) = Nat.min (length x) (length y).
Proof.
  revert y. induction x as [|a x IH]; intros [|b y]; simpl; auto.
Qed.

Lemma nth_map2 {B C D} (f : B -> C -> D) x y a d dx dy :
  (a < length x)%nat -> (a < length y)%nat ->
  nth a (map2 f x y) d = f (nth a x dx) (nth a y dy).
Proof.
  revert y a. induction x as [|u x IH]; intros [|w y] a Hx Hy; simpl in *; try lia.
  destruct a as [|a]; [reflexivity|]. apply IH; lia.
Qed.

Lemma dims_row_length r cN (M : rmat) a : dims r cN M -> (a < r)%nat -> length (nth a M []) = cN.
Proof. intros [Hl Hr] Ha. apply Hr. apply nth_In. lia. Qed.

(* ---------- givens_left M = G^T M ---------- *)
Lemma giv_rows_pairs (c s : R) (ri rk : list R) cN b :
  length ri = cN -> length rk = cN -> (b < cN)%nat ->
  let pr := map2 (fun (j : nat) (ab : R * R) => giv_apply XR c s (fst ab) (snd ab))
                 (seq 0 (length ri)) (combine ri rk) in
  length pr = cN /\
  nth b (map fst pr) 0 = c * nth b ri 0 - s * nth b rk 0 /\
  nth b (map snd pr) 0 = c * nth b rk 0 + s * nth b ri 0.
Proof.
  intros Hi Hk Hb pr.
  assert (Hlen : length pr = cN).
  { unfold pr. rewrite length_map2, seq_length, combine_length. lia. }
  assert (Hn : nth b pr (0, 0) = giv_apply XR c s (nth b ri 0) (nth b rk 0)).
  { unfold pr. rewrite (nth_map2 _ _ _ b (0, 0) O (0, 0)).
    - rewrite combine_nth by lia. reflexivity.
    - rewrite seq_length. lia.
    - rewrite combine_length. lia. }
  split; [exact Hlen|]. split.
  - transitivity (fst (nth b pr (0, 0))); [exact (map_nth fst pr (0, 0) b)|].
    rewrite Hn. reflexivity.
  - transitivity (snd (nth b pr (0, 0))); [exact (map_nth snd pr (0, 0) b)|].
    rewrite Hn. reflexivity.
Qed.

Theorem givens_left_is_Gt_mul :
  forall (r cN : nat) (M : rmat) (c s : R) (i k : nat),
  dims r cN M -> i <> k -> (i < r)%nat -> (k < r)%nat ->
  dims r cN (givens_left XR M c s i k) /\
  meq r cN (G (givens_left XR M c s i k)) (mmul r (tr (Gmat c s i k)) (G M)).
Proof.
  intros r cN M c s i k HM Hik Hi Hk.
  pose proof (dims_row_length r cN M i HM Hi) as Hli.
  pose proof (dims_row_length r cN M k HM Hk) as Hlk.
  destruct HM as [HlM HrM].
  unfold givens_left, giv_rows.
  set (ri := nth i M []) in *. set (rk := nth k M []) in *.
  change (map2 (fun (j : nat) (ab : R * R) => if true then giv_apply XR c s (fst ab) (snd ab) else ab)
               (seq 0 (length ri)) (combine ri rk))
    with (map2 (fun (j : nat) (ab : R * R) => giv_apply XR c s (fst ab) (snd ab))
               (seq 0 (length ri)) (combine ri rk)).
  set (pr := map2 _ _ _).
  split.
  - split.
    + rewrite !length_set_nth. exact HlM.
    + intros row Hin. apply In_set_nth in Hin. destruct Hin as [E|Hin].
      * subst row. rewrite map_length.
        destruct cN as [|cN'].
        -- unfold pr. rewrite length_map2, seq_length. lia.
        -- apply (giv_rows_pairs c s ri rk (S cN') O Hli Hlk). lia.
      * apply In_set_nth in Hin. destruct Hin as [E|Hin]; [|apply HrM; exact Hin].
        subst row. rewrite map_length.
        destruct cN as [|cN'].
        -- unfold pr. rewrite length_map2, seq_length. lia.
        -- apply (giv_rows_pairs c s ri rk (S cN') O Hli Hlk). lia.
  - intros a b Ha Hb.
    destruct (giv_rows_pairs c s ri rk cN b Hli Hlk Hb) as (_ & Hf & Hs). fold pr in Hf, Hs.
    unfold mmul, tr.
    rewrite (Gmat_col_apply c s i k r (fun l => G M l b) a Hik Hi Hk Ha).
    unfold G at 1.
    destruct (Nat.eqb_spec a i) as [Eai|Nai]; [|destruct (Nat.eqb_spec a k) as [Eak|Nak]].
    + subst a. rewrite nth_set_nth_neq by exact Hik.
      rewrite nth_set_nth_eq by lia. rewrite Hf. reflexivity.
    + subst a. rewrite nth_set_nth_eq by (rewrite length_set_nth; lia).
      rewrite Hs. unfold G. fold ri rk. lra.
    + rewrite nth_set_nth_neq by exact Nak. rewrite nth_set_nth_neq by exact Nai. reflexivity.
Qed.

(* ---------- givens_right M = M G ---------- *)
Theorem givens_right_is_mul_G :
  forall (r cN : nat) (M : rmat) (c s : R) (i k : nat),
  dims r cN M -> i <> k -> (i < cN)%nat -> (k < cN)%nat ->
  dims r cN (givens_right XR M c s i k) /\
  meq r cN (G (givens_right XR M c s i k)) (mmul cN (G M) (Gmat c s i k)).
Proof.
  intros r cN M c s i k HM Hik Hi Hk.
  pose proof (fun a => dims_row_length r cN M a HM) as Hrow.
  destruct HM as [HlM HrM].
  unfold givens_right, giv_cols.
  set (F := fun (j : nat) (row : list R) => _).
  assert (HF : forall a, (a < r)%nat ->
            nth a (map2 F (seq 0 (length M)) M) [] =
            set_nth (set_nth (nth a M []) i (c * nth i (nth a M []) 0 - s * nth k (nth a M []) 0))
                    k (c * nth k (nth a M []) 0 + s * nth i (nth a M []) 0)).
  { intros a Ha. rewrite (nth_map2 F _ _ a [] O []).
    - reflexivity.
    - rewrite seq_length. lia.
    - lia. }
  split.
  - split.
    + rewrite length_map2, seq_length. lia.
    + intros row Hin. destruct (In_nth _ _ [] Hin) as (a & Ha & E).
      rewrite length_map2, seq_length in Ha. assert (Ha' : (a < r)%nat) by lia.
      rewrite (HF a Ha') in E. subst row. rewrite !length_set_nth. apply Hrow. exact Ha'.
  - intros a b Ha Hb. unfold mmul.
    rewrite (sum_n_ext _ (fun l => Gmat c s i k l b * G M a l)) by (intros; ring).
    rewrite (Gmat_col_apply c s i k cN (fun l => G M a l) b Hik Hi Hk Hb).
    unfold G at 1. rewrite (HF a Ha).
    pose proof (Hrow a Ha) as Hla.
    destruct (Nat.eqb_spec b i) as [Ebi|Nbi]; [|destruct (Nat.eqb_spec b k) as [Ebk|Nbk]].
    + subst b. rewrite nth_set_nth_neq by exact Hik.
      rewrite nth_set_nth_eq by lia. reflexivity.
    + subst b. rewrite nth_set_nth_eq by (rewrite length_set_nth; lia). unfold G. lra.
    + rewrite nth_set_nth_neq by exact Nbk. rewrite nth_set_nth_neq by exact Nbi. reflexivity.
Qed.

(* ---------- concrete steps: Givens rotations and Householder reflectors ---------- *)
Inductive cstep := GStep (c s : R) (i k : nat) | HStep (beta : R) (v : list R).
Definition cmat (t : cstep) : fmatR :=
  match t with GStep c s i k => Gmat c s i k | HStep beta v => refl beta v end.
Definition cvalid (n : nat) (t : cstep) : Prop :=
  match t with
  | GStep c s i k => c * c + s * s = 1 /\ i <> k /\ (i < n)%nat /\ (k < n)%nat
  | HStep beta v => beta = 0 \/ beta * dot n v v = 2
  end.

Lemma cvalid_orth n t : cvalid n t -> orth n (cmat t).
Proof.
  destruct t as [c s i k|beta v]; cbn.
  - intros (Hcs & Hik & Hi & Hk). apply Gmat_orth; assumption.
  - apply refl_orth.
Qed.

(* the pair (c, s) produced by the model's givens is a valid rotation *)
Lemma givens_cvalid n a b i k :
  i <> k -> (i < n)%nat -> (k < n)%nat ->
  cvalid n (GStep (fst (givens XR a b)) (snd (givens XR a b)) i k).
Proof. intros Hik Hi Hk. cbn. split; [apply givens_unit|]. auto. Qed.

Definition qr_steps_of (l : list cstep) : list step := map (fun t => Sim (cmat t)) l.

Lemma qr_steps_of_valid n l : Forall (cvalid n) l -> Forall (qr_valid n) (qr_steps_of l).
Proof.
  induction 1 as [|t l Ht Hl IH]; cbn; constructor.
  - cbn. apply cvalid_orth. exact Ht.
  - exact IH.
Qed.

Theorem concrete_qr_trace_invariant :
  forall (n : nat) (l : list cstep) (H U : fmatR),
  Forall (cvalid n) l ->
  let st' := qr_run n (qr_steps_of l) (H, U) in
  meq n n (uhut n st') (uhut n (H, U)) /\
  meq n n (mmul n (snd st') (tr (snd st'))) (mmul n U (tr U)) /\
  (orth n U -> orth n (snd st')).
Proof. intros n l H U Hv. apply qr_trace_invariant. apply qr_steps_of_valid. exact Hv. Qed.

Corollary concrete_qr_trace_from_identity :
  forall (n : nat) (l : list cstep) (A : fmatR),
  Forall (cvalid n) l ->
  let st' := qr_run n (qr_steps_of l) (A, delta) in
  meq n n A (mmul n (snd st') (mmul n (fst st') (tr (snd st')))) /\ orth n (snd st').
Proof. intros n l A Hv. apply qr_trace_from_identity. apply qr_steps_of_valid. exact Hv. Qed.

Inductive side := OnLeft | OnRight.
Definition svd_step_of (p : side * cstep) : step :=
  match fst p with OnLeft => LeftS (cmat (snd p)) | OnRight => RightS (cmat (snd p)) end.
Definition csvd_valid (m n : nat) (p : side * cstep) : Prop :=
  match fst p with OnLeft => cvalid m (snd p) | OnRight => cvalid n (snd p) end.
Definition svd_steps_of (l : list (side * cstep)) : list step := map svd_step_of l.

Lemma svd_steps_of_valid m n l : Forall (csvd_valid m n) l -> Forall (svd_valid m n) (svd_steps_of l).
Proof.
  induction 1 as [|[sd t] l Ht Hl IH]; cbn; constructor.
  - destruct sd; cbn in *; apply cvalid_orth; exact Ht.
  - exact IH.
Qed.

Theorem concrete_svd_trace_invariant :
  forall (m n : nat) (l : list (side * cstep)) (st : svd_state),
  Forall (csvd_valid m n) l ->
  let st' := svd_run m n (svd_steps_of l) st in
  meq m n (ubvt m n st') (ubvt m n st) /\
  meq m m (mmul m (sU st') (tr (sU st'))) (mmul m (sU st) (tr (sU st))) /\
  meq n n (mmul n (sV st') (tr (sV st'))) (mmul n (sV st) (tr (sV st))) /\
  (orth m (sU st) -> orth m (sU st')) /\
  (orth n (sV st) -> orth n (sV st')).
Proof. intros m n l st Hv. apply svd_trace_invariant. apply svd_steps_of_valid. exact Hv. Qed.

Corollary concrete_svd_trace_from_bidiag :
  forall (m n : nat) (l : list (side * cstep)) (A B0 U0 V0 : fmatR),
  Forall (csvd_valid m n) l ->
  meq m n A (mmul m U0 (mmul n B0 (tr V0))) -> orth m U0 -> orth n V0 ->
  let st' := svd_run m n (svd_steps_of l) (mkSvd B0 U0 V0) in
  meq m n A (mmul m (sU st') (mmul n (sB st') (tr (sV st')))) /\
  orth m (sU st') /\ orth n (sV st').
Proof.
  intros m n l A B0 U0 V0 Hv. apply svd_trace_from_bidiag. apply svd_steps_of_valid. exact Hv.
Qed.

(* ---------- the Givens-only machines on the model's list matrices ---------- *)
(* One QR-type step as the library performs it on its data: H <- G^T H (givens_left),
   H <- H G (givens_right), U <- U G (givens_right).  The list-level run is a
   refinement of the abstract machine, hence inherits the invariant. *)
Record grot := mkGrot { g_c : R; g_s : R; g_i : nat; g_k : nat }.
Definition grot_valid (n : nat) (g : grot) : Prop :=
  g_c g * g_c g + g_s g * g_s g = 1 /\ g_i g <> g_k g /\ (g_i g < n)%nat /\ (g_k g < n)%nat.
Definition grot_mat (g : grot) : fmatR := Gmat (g_c g) (g_s g) (g_i g) (g_k g).

Lemma grot_valid_orth n g : grot_valid n g -> orth n (grot_mat g).
Proof. intros (Hcs & Hik & Hi & Hk). apply Gmat_orth; assumption. Qed.

Definition lqr_step (g : grot) (st : rmat * rmat) : rmat * rmat :=
  (givens_right XR (givens_left XR (fst st) (g_c g) (g_s g) (g_i g) (g_k g))
                (g_c g) (g_s g) (g_i g) (g_k g),
   givens_right XR (snd st) (g_c g) (g_s g) (g_i g) (g_k g)).
Definition lqr_run (l : list grot) (st : rmat * rmat) : rmat * rmat :=
  fold_left (fun st g => lqr_step g st) l st.

Lemma lqr_step_refines n g (H U : rmat) (Hf Uf : fmatR) :
  grot_valid n g -> dims n n H -> dims n n U ->
  meq n n (G H) Hf -> meq n n (G U) Uf ->
  let st := lqr_step g (H, U) in
  let stf := qr_step n (Sim (grot_mat g)) (Hf, Uf) in
  dims n n (fst st) /\ dims n n (snd st) /\
  meq n n (G (fst st)) (fst stf) /\ meq n n (G (snd st)) (snd stf).
Proof.
  intros (Hcs & Hik & Hi & Hk) HdH HdU HH HU. cbv zeta. unfold lqr_step, qr_step, grot_mat.
  cbn [fst snd].
  destruct (givens_left_is_Gt_mul n n H (g_c g) (g_s g) (g_i g) (g_k g) HdH Hik Hi Hk) as (D1 & E1).
  destruct (givens_right_is_mul_G n n _ (g_c g) (g_s g) (g_i g) (g_k g) D1 Hik Hi Hk) as (D2 & E2).
  destruct (givens_right_is_mul_G n n U (g_c g) (g_s g) (g_i g) (g_k g) HdU Hik Hi Hk) as (D3 & E3).
  split; [exact D2|]. split; [exact D3|]. split.
  - eapply meq_trans; [exact E2|].
    eapply meq_trans; [|apply mmul_assoc_meq].
    apply mmul_congr; [|apply meq_refl].
    eapply meq_trans; [exact E1|]. apply mmul_congr; [apply meq_refl|exact HH].
  - eapply meq_trans; [exact E3|]. apply mmul_congr; [exact HU|apply meq_refl].
Qed.

Lemma lqr_run_refines n l :
  Forall (grot_valid n) l ->
  forall (H U : rmat) (Hf Uf : fmatR),
  dims n n H -> dims n n U -> meq n n (G H) Hf -> meq n n (G U) Uf ->
  let st := lqr_run l (H, U) in
  let stf := qr_run n (map (fun g => Sim (grot_mat g)) l) (Hf, Uf) in
  dims n n (fst st) /\ dims n n (snd st) /\
  meq n n (G (fst st)) (fst stf) /\ meq n n (G (snd st)) (snd stf).
Proof.
  induction 1 as [|g l Hg Hl IH]; intros H U Hf Uf HdH HdU HH HU.
  - cbn. auto.
  - destruct (lqr_step_refines n g H U Hf Uf Hg HdH HdU HH HU) as (D1 & D2 & E1 & E2).
    cbv zeta. unfold lqr_run, qr_run. cbn [map fold_left].
    destruct (lqr_step g (H, U)) as [H1 U1] eqn:Est.
    destruct (qr_step n (Sim (grot_mat g)) (Hf, Uf)) as [Hf1 Uf1] eqn:Estf.
    cbn [fst snd] in D1, D2, E1, E2.
    exact (IH H1 U1 Hf1 Uf1 D1 D2 E1 E2).
Qed.

Lemma uhut_congr n H1 U1 H2 U2 :
  meq n n H1 H2 -> meq n n U1 U2 -> meq n n (uhut n (H1, U1)) (uhut n (H2, U2)).
Proof.
  intros HH HU. unfold uhut. cbn [fst snd].
  apply mmul_congr; [exact HU|]. apply mmul_congr; [exact HH|]. apply meq_tr. exact HU.
Qed.

Lemma grot_steps_valid n l : Forall (grot_valid n) l -> Forall (qr_valid n) (map (fun g => Sim (grot_mat g)) l).
Proof.
  induction 1 as [|g l Hg Hl IH]; cbn; constructor.
  - cbn. apply grot_valid_orth. exact Hg.
  - exact IH.
Qed.

(* any sequence of valid Givens similarity steps, executed by the model's
   givens_left / givens_right on n x n list matrices, keeps U H U^T and the
   orthogonality of U *)
Theorem givens_qr_list_invariant :
  forall (n : nat) (l : list grot) (H U : rmat),
  dims n n H -> dims n n U -> Forall (grot_valid n) l ->
  let st := lqr_run l (H, U) in
  dims n n (fst st) /\ dims n n (snd st) /\
  meq n n (uhut n (G (fst st), G (snd st))) (uhut n (G H, G U)) /\
  (orth n (G U) -> orth n (G (snd st))).
Proof.
  intros n l H U HdH HdU Hv st.
  destruct (lqr_run_refines n l Hv H U (G H) (G U) HdH HdU (meq_refl n n _) (meq_refl n n _))
    as (D1 & D2 & E1 & E2).
  fold st in D1, D2, E1, E2.
  destruct (qr_trace_invariant n _ (G H) (G U) (grot_steps_valid n l Hv)) as (I1 & _ & I3).
  set (stf := qr_run n (map (fun g => Sim (grot_mat g)) l) (G H, G U)) in *.
  split; [exact D1|]. split; [exact D2|]. split.
  - eapply meq_trans; [|exact I1].
    destruct stf as [Hf' Uf']. apply uhut_congr; assumption.
  - intro HU. apply (orth_meq n (snd stf)); [apply meq_sym; exact E2|]. apply I3. exact HU.
Qed.

(* started at U = ident: A = U' H' U'^T with U' orthogonal *)
Lemma G_ident n : meq n n (G (ident XR n)) delta.
Proof.
  intros i j Hi Hj. unfold G, ident.
  rewrite (nth_indep _ [] (map (fun j0 => if Nat.eqb O j0 then one XR else zero XR) (seq 0 n)))
    by (rewrite map_length, seq_length; exact Hi).
  rewrite (map_nth (fun i0 => map (fun j0 => if Nat.eqb i0 j0 then one XR else zero XR) (seq 0 n))
             (seq 0 n) O i).
  rewrite seq_nth by exact Hi. cbn [Nat.add].
  rewrite (nth_indep _ 0 (if Nat.eqb i O then one XR else zero XR))
    by (rewrite map_length, seq_length; exact Hj).
  rewrite (map_nth (fun j0 => if Nat.eqb i j0 then one XR else zero XR) (seq 0 n) O j).
  rewrite seq_nth by exact Hj. cbn [Nat.add]. unfold delta.
  destruct (Nat.eqb i j); reflexivity.
Qed.

Lemma dims_ident n : dims n n (ident XR n).
Proof.
  split.
  - unfold ident. rewrite map_length, seq_length. reflexivity.
  - intros row Hin. unfold ident in Hin. apply in_map_iff in Hin. destruct Hin as (i & E & _).
    subst row. rewrite map_length, seq_length. reflexivity.
Qed.

Corollary givens_qr_list_from_identity :
  forall (n : nat) (l : list grot) (A : rmat),
  dims n n A -> Forall (grot_valid n) l ->
  let st := lqr_run l (A, ident XR n) in
  meq n n (G A) (mmul n (G (snd st)) (mmul n (G (fst st)) (tr (G (snd st))))) /\
  orth n (G (snd st)).
Proof.
  intros n l A HdA Hv st.
  destruct (givens_qr_list_invariant n l A (ident XR n) HdA (dims_ident n) Hv) as (_ & _ & I & O).
  fold st in I, O.
  assert (Hid : orth n (G (ident XR n))).
  { apply (orth_meq n delta); [apply meq_sym; apply G_ident|apply orth_delta]. }
  split; [|apply O; exact Hid].
  apply meq_sym. eapply meq_trans; [exact I|].
  eapply meq_trans; [apply (uhut_congr n (G A) (G (ident XR n)) (G A) delta (meq_refl n n _) (G_ident n))|].
  unfold uhut. cbn [fst snd].
  eapply meq_trans; [apply mmul_delta_l|].
  intros i j Hi Hj.
  rewrite (mmul_ext_all n (G A) (G A) (tr delta) delta (fun _ _ => eq_refl) tr_delta).
  apply (mmul_delta_r n n (G A)); assumption.
Qed.

(* SVD-type Givens steps on list matrices: B (m x n), U (m x m), V (n x n).
   OnLeft g:  B <- G^T B (givens_left),  U <- U G (givens_right);
   OnRight g: B <- B G  (givens_right), V <- V G (givens_right). *)
Definition lsvd_step (p : side * grot) (st : rmat * rmat * rmat) : rmat * rmat * rmat :=
  let g := snd p in
  let '(B, U, V) := st in
  match fst p with
  | OnLeft => (givens_left XR B (g_c g) (g_s g) (g_i g) (g_k g),
               givens_right XR U (g_c g) (g_s g) (g_i g) (g_k g), V)
  | OnRight => (givens_right XR B (g_c g) (g_s g) (g_i g) (g_k g), U,
                givens_right XR V (g_c g) (g_s g) (g_i g) (g_k g))
  end.
Definition lsvd_run (l : list (side * grot)) (st : rmat * rmat * rmat) : rmat * rmat * rmat :=
  fold_left (fun st p => lsvd_step p st) l st.
Definition lsvd_valid (m n : nat) (p : side * grot) : Prop :=
  match fst p with OnLeft => grot_valid m (snd p) | OnRight => grot_valid n (snd p) end.
Definition lsvd_step_of (p : side * grot) : step :=
  match fst p with OnLeft => LeftS (grot_mat (snd p)) | OnRight => RightS (grot_mat (snd p)) end.
Definition Gst (st : rmat * rmat * rmat) : svd_state :=
  mkSvd (G (fst (fst st))) (G (snd (fst st))) (G (snd st)).
Definition seq_state (m n : nat) (s1 s2 : svd_state) : Prop :=
  meq m n (sB s1) (sB s2) /\ meq m m (sU s1) (sU s2) /\ meq n n (sV s1) (sV s2).
Definition dims_state (m n : nat) (st : rmat * rmat * rmat) : Prop :=
  dims m n (fst (fst st)) /\ dims m m (snd (fst st)) /\ dims n n (snd st).

Lemma lsvd_step_refines m n p st sf :
  lsvd_valid m n p -> dims_state m n st -> seq_state m n (Gst st) sf ->
  dims_state m n (lsvd_step p st) /\
  seq_state m n (Gst (lsvd_step p st)) (svd_step m n (lsvd_step_of p) sf).
Proof.
  destruct p as [sd g]. destruct st as [[B U] V].
  unfold lsvd_valid, dims_state, seq_state, Gst, lsvd_step, lsvd_step_of. cbn [fst snd sB sU sV].
  intros Hg (DB & DU & DV) (EB & EU & EV).
  destruct sd; destruct Hg as (Hcs & Hik & Hi & Hk); cbn [fst snd svd_step sB sU sV].
  - destruct (givens_left_is_Gt_mul m n B (g_c g) (g_s g) (g_i g) (g_k g) DB Hik Hi Hk) as (D1 & E1).
    destruct (givens_right_is_mul_G m m U (g_c g) (g_s g) (g_i g) (g_k g) DU Hik Hi Hk) as (D2 & E2).
    split; [split; [exact D1|split; [exact D2|exact DV]]|].
    split; [|split; [|exact EV]].
    + eapply meq_trans; [exact E1|]. apply mmul_congr; [apply meq_refl|exact EB].
    + eapply meq_trans; [exact E2|]. apply mmul_congr; [exact EU|apply meq_refl].
  - destruct (givens_right_is_mul_G m n B (g_c g) (g_s g) (g_i g) (g_k g) DB Hik Hi Hk) as (D1 & E1).
    destruct (givens_right_is_mul_G n n V (g_c g) (g_s g) (g_i g) (g_k g) DV Hik Hi Hk) as (D2 & E2).
    split; [split; [exact D1|split; [exact DU|exact D2]]|].
    split; [|split; [exact EU|]].
    + eapply meq_trans; [exact E1|]. apply mmul_congr; [exact EB|apply meq_refl].
    + eapply meq_trans; [exact E2|]. apply mmul_congr; [exact EV|apply meq_refl].
Qed.

Lemma lsvd_run_refines m n l :
  Forall (lsvd_valid m n) l ->
  forall st sf, dims_state m n st -> seq_state m n (Gst st) sf ->
  dims_state m n (lsvd_run l st) /\
  seq_state m n (Gst (lsvd_run l st)) (svd_run m n (map lsvd_step_of l) sf).
Proof.
  induction 1 as [|p l Hp Hl IH]; intros st sf Hd He.
  - cbn. auto.
  - destruct (lsvd_step_refines m n p st sf Hp Hd He) as (D1 & E1).
    unfold lsvd_run, svd_run. cbn [map fold_left].
    exact (IH _ _ D1 E1).
Qed.

Lemma lsvd_steps_valid m n l :
  Forall (lsvd_valid m n) l -> Forall (svd_valid m n) (map lsvd_step_of l).
Proof.
  induction 1 as [|[sd g] l Hp Hl IH]; cbn; constructor.
  - destruct sd; cbn in *; apply grot_valid_orth; exact Hp.
  - exact IH.
Qed.

Lemma ubvt_congr m n s1 s2 : seq_state m n s1 s2 -> meq m n (ubvt m n s1) (ubvt m n s2).
Proof.
  intros (EB & EU & EV). unfold ubvt.
  apply mmul_congr; [exact EU|]. apply mmul_congr; [exact EB|]. apply meq_tr. exact EV.
Qed.

Theorem givens_svd_list_invariant :
  forall (m n : nat) (l : list (side * grot)) (B U V : rmat),
  dims m n B -> dims m m U -> dims n n V -> Forall (lsvd_valid m n) l ->
  let st := lsvd_run l (B, U, V) in
  dims_state m n st /\
  meq m n (ubvt m n (Gst st)) (ubvt m n (Gst (B, U, V))) /\
  (orth m (G U) -> orth m (sU (Gst st))) /\
  (orth n (G V) -> orth n (sV (Gst st))).
Proof.
  intros m n l B U V DB DU DV Hv st.
  assert (Hd : dims_state m n (B, U, V)) by (split; [exact DB|split; [exact DU|exact DV]]).
  assert (He : seq_state m n (Gst (B, U, V)) (Gst (B, U, V))).
  { split; [apply meq_refl|split; apply meq_refl]. }
  destruct (lsvd_run_refines m n l Hv (B, U, V) (Gst (B, U, V)) Hd He) as (D & E).
  fold st in D, E.
  destruct (svd_trace_invariant m n _ (Gst (B, U, V)) (lsvd_steps_valid m n l Hv))
    as (I1 & _ & _ & I4 & I5).
  set (sf := svd_run m n (map lsvd_step_of l) (Gst (B, U, V))) in *.
  split; [exact D|]. split; [|split].
  - eapply meq_trans; [apply ubvt_congr; exact E|exact I1].
  - intro HU. destruct E as (_ & EU & _).
    apply (orth_meq m (sU sf)); [apply meq_sym; exact EU|]. apply I4. exact HU.
  - intro HV. destruct E as (_ & _ & EV).
    apply (orth_meq n (sV sf)); [apply meq_sym; exact EV|]. apply I5. exact HV.
Qed.

(* ---------- the hypotheses are satisfiable, and the sign convention on an example ---------- *)
Example grot_valid_example : grot_valid 2 (mkGrot (3/5) (4/5) 0 1).
Proof. unfold grot_valid. cbn. split; [lra|]. split; [lia|]. split; lia. Qed.

Example cvalid_house_example : cvalid 2 (HStep 1 [1; 1]).
Proof. cbn. right. unfold dot, V. cbn. lra. Qed.

(* givens_left replaces row i by c*row_i - s*row_k and row k by c*row_k + s*row_i;
   givens_right does the same with columns *)
Example givens_left_2x2 (c s m00 m01 m10 m11 : R) :
  givens_left XR [[m00; m01]; [m10; m11]] c s 0 1 =
  [[c * m00 - s * m10; c * m01 - s * m11]; [c * m10 + s * m00; c * m11 + s * m01]].
Proof. reflexivity. Qed.

Example givens_right_2x2 (c s m00 m01 m10 m11 : R) :
  givens_right XR [[m00; m01]; [m10; m11]] c s 0 1 =
  [[c * m00 - s * m01; c * m01 + s * m00]; [c * m10 - s * m11; c * m11 + s * m10]].
Proof. reflexivity. Qed.
