(* C05 — column-oriented LDL^T with an arbitrary choice of the pivots d_j
   (cholesky_ldl: d_j = c_jj, error if <= 0; cholesky_ldl_forcepd: Gill-Murray-Wright). *)
From Coq Require Import Reals List Lia Lra Bool.
From ADV Require Import Base.Num C05.Model C05.Spec C05.ProofsBase.
Import ListNotations.
Open Scope R_scope.

Definition cols_t := list (R * list R).
Definition dk (cs : cols_t) (k : nat) : R := fst (nth k cs (0, [])).
Definition ck (cs : cols_t) (k i : nat) : R := nth i (snd (nth k cs (0, []))) 0.   (* L_ik *)

(* ---------- map2 ---------- *)
Lemma map2_length {B C D} (f : B -> C -> D) x y : length (map2 f x y) = Nat.min (length x) (length y).
Proof. revert y; induction x as [|a x IH]; intros [|b y]; simpl; auto. Qed.

Lemma map2_nth {B C D} (f : B -> C -> D) x y db dc dd i :
  (i < length x)%nat -> (i < length y)%nat -> nth i (map2 f x y) dd = f (nth i x db) (nth i y dc).
Proof.
  revert y i; induction x as [|a x IH]; intros [|b y] i Hx Hy; simpl in *; try lia.
  destruct i; auto. apply IH; lia.
Qed.

(* ---------- the accumulated sums s_i ---------- *)
Lemma fold_acc_spec (j : nat) : forall (prev : cols_t) (s : list R),
  (forall k, (k < length prev)%nat -> length (snd (nth k prev (0, []))) = length s) ->
  length (fold_left (acc_col XR j) prev s) = length s /\
  forall i, (i < length s)%nat ->
    nth i (fold_left (acc_col XR j) prev s) 0 =
    nth i s 0 + sum_n (fun m => dk prev m * (ck prev m i * ck prev m j)) (length prev).
Proof.
  induction prev as [|[d c] prev IH]; intros s Hlen.
  - simpl. split; auto. intros; lra.
  - simpl fold_left.
    assert (Hc : length c = length s) by (apply (Hlen 0%nat); simpl; lia).
    set (s' := acc_col XR j s (d, c)).
    assert (Hs' : length s' = length s).
    { unfold s', acc_col. rewrite map2_length. lia. }
    destruct (IH s') as (Hl & Hn).
    { intros k Hk. rewrite Hs'. apply (Hlen (S k)). simpl. lia. }
    split; [rewrite Hl; exact Hs'|]. intros i Hi. rewrite Hn by (rewrite Hs'; exact Hi).
    change (length ((d, c) :: prev)) with (S (length prev)).
    rewrite (sum_n_S_first (fun m => dk ((d, c) :: prev) m * (ck ((d, c) :: prev) m i * ck ((d, c) :: prev) m j))).
    unfold s', acc_col. rewrite (map2_nth _ s c 0 0 0) by lia.
    unfold dk, ck. simpl. lra.
Qed.

Lemma nth_col (j : nat) (A : rmat) (i : nat) : nth i (col XR j A) 0 = G A i j.
Proof.
  unfold col, G. destruct (le_lt_dec (length A) i) as [Hge|Hlt].
  - rewrite nth_overflow by (rewrite map_length; lia). rewrite (nth_overflow A) by lia. destruct j; reflexivity.
  - change 0 with ((fun r : list R => nth j r 0) []) at 1. rewrite map_nth. reflexivity.
Qed.

Lemma cvec_spec (n j : nat) (A : rmat) (prev : cols_t) :
  length A = n ->
  (forall k, (k < length prev)%nat -> length (snd (nth k prev (0, []))) = n) ->
  length (ldl_cvec XR n j A prev) = n /\
  forall i, (i < n)%nat ->
    nth i (ldl_cvec XR n j A prev) 0 =
    G A i j - sum_n (fun m => dk prev m * (ck prev m i * ck prev m j)) (length prev).
Proof.
  intros HA Hlen. unfold ldl_cvec.
  destruct (fold_acc_spec j prev (zeros XR n)) as (Hl & Hn).
  { intros k Hk. unfold zeros. rewrite repeat_length. auto. }
  unfold zeros in *. rewrite repeat_length in *.
  assert (Hcol : length (col XR j A) = n) by (unfold col; rewrite map_length; auto).
  split.
  - rewrite map2_length. lia.
  - intros i Hi. rewrite (map2_nth _ _ _ 0 0 0) by lia.
    rewrite Hn by lia. rewrite nth_col. change (zero (nx XR)) with 0. rewrite nth_repeat0.
    change (sub (nx XR)) with Rminus. lra.
Qed.

Lemma newcol_spec (j : nat) (cv : list R) (d : R) :
  length (ldl_newcol XR j cv d) = length cv /\
  forall i, (i < length cv)%nat ->
    nth i (ldl_newcol XR j cv d) 0 =
    if Nat.ltb i j then 0 else if Nat.eqb i j then 1 else nth i cv 0 / d.
Proof.
  unfold ldl_newcol. split.
  - rewrite map2_length, seq_length. lia.
  - intros i Hi. rewrite (map2_nth _ _ _ 0%nat 0 0) by (rewrite ?seq_length; lia).
    rewrite seq_nth by lia. simpl. reflexivity.
Qed.

(* ---------- the invariant of the column loop ---------- *)
(* [pk k c below d]: the pivot choice that was made at column k *)
Definition col_ok (n : nat) (A : rmat) (cs : cols_t) (k : nat) : Prop :=
  length (snd (nth k cs (0, []))) = n /\
  (forall i, (i < k)%nat -> ck cs k i = 0) /\
  ck cs k k = 1 /\
  (forall i, (k < i < n)%nat ->
     ck cs k i = (G A i k - sum_n (fun m => dk cs m * (ck cs m i * ck cs m k)) k) / dk cs k).

Lemma nth_app_cols (cs : cols_t) x k : (k < length cs)%nat -> nth k (cs ++ [x]) (0, []) = nth k cs (0, []).
Proof. intro; apply app_nth1; auto. Qed.

Lemma col_ok_app n A cs x k : (k < length cs)%nat -> col_ok n A cs k -> col_ok n A (cs ++ [x]) k.
Proof.
  intros Hk (H1 & H2 & H3 & H4).
  assert (Ec : forall m i, (m <= k)%nat -> ck (cs ++ [x]) m i = ck cs m i).
  { intros m i Hm. unfold ck. rewrite nth_app_cols by lia. reflexivity. }
  assert (Ed : forall m, (m <= k)%nat -> dk (cs ++ [x]) m = dk cs m).
  { intros m Hm. unfold dk. rewrite nth_app_cols by lia. reflexivity. }
  unfold col_ok. rewrite nth_app_cols by lia. split; [exact H1|]. split; [|split].
  - intros i Hi. rewrite Ec by lia. auto.
  - rewrite Ec by lia. auto.
  - intros i Hi. rewrite Ec, Ed by lia. rewrite H4 by auto. f_equal. f_equal.
    apply sum_n_ext. intros m Hm. rewrite !Ec, Ed by lia. reflexivity.
Qed.

(* the pivots chosen by [pick], in terms of the finished columns *)
Definition cjj (A : rmat) (cs : cols_t) (j : nat) : R :=
  G A j j - sum_n (fun m => dk cs m * (ck cs m j * ck cs m j)) j.
Definition cbelow (n : nat) (A : rmat) (cs : cols_t) (j : nat) : list R :=
  map (fun i => G A i j - sum_n (fun m => dk cs m * (ck cs m i * ck cs m j)) j) (seq (S j) (n - S j)).
Definition pick_ok (pick : nat -> R -> list R -> option R) (n : nat) (A : rmat) (cs : cols_t) (j : nat) : Prop :=
  pick j (cjj A cs j) (cbelow n A cs j) = Some (dk cs j).

Lemma skipn_nth_seq (n j : nat) (cv : list R) (f : nat -> R) :
  length cv = n -> (forall i, (i < n)%nat -> nth i cv 0 = f i) ->
  skipn (S j) cv = map f (seq (S j) (n - S j)).
Proof.
  intros Hl Hf. apply nth_ext with (d := 0) (d' := 0).
  - rewrite skipn_length, map_length, seq_length. lia.
  - intros i Hi. rewrite skipn_length in Hi. rewrite nth_skipn.
    change 0 with (f 0%nat) at 2.
    destruct (le_lt_dec (n - S j) i); [lia|].
    rewrite (nth_indep _ (f 0%nat) (f (S j + i)%nat)) by (rewrite map_length, seq_length; lia).
    replace (f (S j + i)%nat) with (f (nth i (seq (S j) (n - S j)) (S j + i)%nat)) at 1
      by (rewrite seq_nth by lia; reflexivity).
    rewrite map_nth. rewrite seq_nth by lia. apply Hf. lia.
Qed.

Lemma ldl_cols_spec (pick : nat -> R -> list R -> option R) (n : nat) (A : rmat) :
  length A = n ->
  forall (fuel : nat) (prev cs : cols_t),
  (length prev + fuel = n)%nat ->
  (forall k, (k < length prev)%nat -> col_ok n A prev k /\ pick_ok pick n A prev k) ->
  ldl_cols XR pick n A fuel prev = Some cs ->
  length cs = n /\ forall k, (k < n)%nat -> col_ok n A cs k /\ pick_ok pick n A cs k.
Proof.
  intros HA. induction fuel as [|fuel IH]; intros prev cs Hlen Hinv H.
  - simpl in H. inversion H; subst cs. split; [lia|]. intros k Hk. apply Hinv. lia.
  - simpl in H. set (j := length prev) in *.
    assert (Hpl : forall k, (k < length prev)%nat -> length (snd (nth k prev (0, []))) = n).
    { intros k Hk. destruct (Hinv k Hk) as ((Hl & _) & _). exact Hl. }
    destruct (cvec_spec n j A prev HA Hpl) as (Hcl & Hcn).
    set (cv := ldl_cvec XR n j A prev) in *.
    change (zero (nx XR)) with 0 in H.
    destruct (pick j (nth j cv 0) (skipn (S j) cv)) as [d|] eqn:Ep; [|discriminate].
    destruct (newcol_spec j cv d) as (Hnl & Hnn). rewrite Hcl in Hnl, Hnn.
    assert (Hj : (j < n)%nat) by lia.
    apply (IH (prev ++ [(d, ldl_newcol XR j cv d)]) cs); auto.
    + rewrite app_length. simpl. fold j. lia.
    + intros k Hk. rewrite app_length in Hk. simpl in Hk. fold j in Hk.
      assert (Ec : forall m i, (m < j)%nat -> ck (prev ++ [(d, ldl_newcol XR j cv d)]) m i = ck prev m i).
      { intros m i Hm. unfold ck. rewrite nth_app_cols by (fold j; lia). reflexivity. }
      assert (Ed : forall m, (m < j)%nat -> dk (prev ++ [(d, ldl_newcol XR j cv d)]) m = dk prev m).
      { intros m Hm. unfold dk. rewrite nth_app_cols by (fold j; lia). reflexivity. }
      destruct (Nat.eq_dec k j) as [->|Hne].
      * assert (Elast : nth j (prev ++ [(d, ldl_newcol XR j cv d)]) (0, []) = (d, ldl_newcol XR j cv d)).
        { unfold j. rewrite app_nth2 by lia. rewrite Nat.sub_diag. reflexivity. }
        assert (Esum : forall i, sum_n (fun m => dk (prev ++ [(d, ldl_newcol XR j cv d)]) m *
                                    (ck (prev ++ [(d, ldl_newcol XR j cv d)]) m i * ck (prev ++ [(d, ldl_newcol XR j cv d)]) m j)) j
                               = sum_n (fun m => dk prev m * (ck prev m i * ck prev m j)) j).
        { intro i. apply sum_n_ext. intros m Hm. rewrite !Ec, Ed by lia. reflexivity. }
        split.
        -- unfold col_ok. rewrite Elast. simpl snd. split; [exact Hnl|]. unfold ck, dk. rewrite Elast. simpl snd. simpl fst.
           split; [|split].
           ++ intros i Hi. rewrite Hnn by lia. destruct (Nat.ltb i j) eqn:E; auto. apply Nat.ltb_ge in E. lia.
           ++ rewrite Hnn by lia. rewrite Nat.ltb_irrefl, Nat.eqb_refl. reflexivity.
           ++ intros i Hi. rewrite Hnn by lia.
              destruct (Nat.ltb i j) eqn:E1; [apply Nat.ltb_lt in E1; lia|].
              destruct (Nat.eqb i j) eqn:E2; [apply Nat.eqb_eq in E2; lia|].
              rewrite Hcn by lia. fold (ck (prev ++ [(d, ldl_newcol XR j cv d)])).
              f_equal. f_equal.
              pose proof (Esum i) as Es. unfold ck, dk in Es. unfold ck, dk. rewrite Es. reflexivity.
        -- unfold pick_ok. unfold dk at 1. rewrite Elast. simpl fst.
           rewrite <- Ep. f_equal.
           ++ unfold cjj. rewrite Esum. rewrite Hcn by lia. reflexivity.
           ++ unfold cbelow. symmetry.
              rewrite (skipn_nth_seq n j cv (fun i => G A i j - sum_n (fun m => dk prev m * (ck prev m i * ck prev m j)) j)); auto.
              apply map_ext. intro i. rewrite Esum. reflexivity.
      * destruct (Hinv k ltac:(fold j; lia)) as (Hc & Hp). split.
        -- apply col_ok_app; auto. fold j. lia.
        -- unfold pick_ok in *. unfold dk at 1. rewrite nth_app_cols by (fold j; lia). fold (dk prev k).
           rewrite <- Hp. f_equal.
           ++ unfold cjj. f_equal. apply sum_n_ext. intros m Hm. rewrite !Ec, Ed by lia. reflexivity.
           ++ unfold cbelow. apply map_ext. intro i. f_equal. apply sum_n_ext. intros m Hm.
              rewrite !Ec, Ed by lia. reflexivity.
Qed.
