(* C05 — column-oriented LDL^T with an arbitrary choice of the pivots d_j
   (cholesky_ldl: d_j = c_jj, error if <= 0; cholesky_ldl_forcepd: Gill-Murray-Wright). *)
From Coq Require Import Reals List Lia Lra Bool.
From ADV Require Import Base.Num C05.Model C05.Spec C05.ProofsBase.
Import ListNotations.
Open Scope R_scope.

Definition cols_t := list (R * list R).
Definition dk (cs : cols_t) (k : nat) : R := fst (nth k cs (0, [])).
Definition ck (cs : cols_t) (k i : nat) : R := nth i (snd (nth k cs (0, []))) 0.   (* L_ik *)

(* ---------- map2 ---------- *)
Lemma map2_length {B C D} (f : B -> C -> D) x y : length (map2 f x y) = Nat.min (length x) (length y).
Proof. revert y; induction x as [|a x IH]; intros [|b y]; simpl; auto. Qed.

Lemma map2_nth {B C D} (f : B -> C -> D) x y db dc dd i :
  (i < length x)%nat -> (i < length y)%nat -> nth i (map2 f x y) dd = f (nth i x db) (nth i y dc).
Proof.
  revert y i; induction x as [|a x IH]; intros [|b y] i Hx Hy; simpl in *; try lia.
  destruct i; auto. apply IH; lia.
Qed.

(* ---------- the accumulated sums s_i ---------- *)
Lemma fold_acc_spec (j : nat) : forall (prev : cols_t) (s : list R),
  (forall k, (k < length prev)%nat -> length (snd (nth k prev (0, []))) = length s) ->
  length (fold_left (acc_col XR j) prev s) = length s /\
  forall i, (i < length s)%nat ->
    nth i (fold_left (acc_col XR j) prev s) 0 =
    nth i s 0 + sum_n (fun m => dk prev m * (ck prev m i * ck prev m j)) (length prev).
Proof.
  induction prev as [|[d c] prev IH]; intros s Hlen.
  - simpl. split; auto. intros; lra.
  - change (fold_left (acc_col XR j) ((d, c) :: prev) s) with (fold_left (acc_col XR j) prev (acc_col XR j s (d, c))).
    assert (Hc : length c = length s) by (apply (Hlen 0%nat); simpl; lia).
    set (s' := acc_col XR j s (d, c)).
    assert (Hs' : length s' = length s).
    { unfold s', acc_col. rewrite map2_length. lia. }
    destruct (IH s') as (Hl & Hn).
    { intros k Hk. rewrite Hs'. apply (Hlen (S k)). simpl. lia. }
    split; [rewrite Hl; exact Hs'|]. intros i Hi. rewrite Hn by (rewrite Hs'; exact Hi).
    change (length ((d, c) :: prev)) with (S (length prev)).
    rewrite (sum_n_S_first (fun m => dk ((d, c) :: prev) m * (ck ((d, c) :: prev) m i * ck ((d, c) :: prev) m j))).
    unfold s', acc_col. rewrite (map2_nth _ s c 0 0 0) by lia.
    unfold dk, ck. simpl. lra.
Qed.

Lemma nth_col (j : nat) (A : rmat) (i : nat) : nth i (col XR j A) 0 = G A i j.
Proof.
  unfold col, G. destruct (le_lt_dec (length A) i) as [Hge|Hlt].
  - rewrite nth_overflow by (rewrite map_length; lia). rewrite (nth_overflow A) by lia. destruct j; reflexivity.
  - rewrite (nth_indep _ 0 ((fun r : list R => nth j r (zero (nx XR))) [])) by (rewrite map_length; lia).
    rewrite (map_nth (fun r : list R => nth j r (zero (nx XR)))). reflexivity.
Qed.

Lemma cvec_spec (n j : nat) (A : rmat) (prev : cols_t) :
  length A = n ->
  (forall k, (k < length prev)%nat -> length (snd (nth k prev (0, []))) = n) ->
  length (ldl_cvec XR n j A prev) = n /\
  forall i, (i < n)%nat ->
    nth i (ldl_cvec XR n j A prev) 0 =
    G A i j - sum_n (fun m => dk prev m * (ck prev m i * ck prev m j)) (length prev).
Proof.
  intros HA Hlen. unfold ldl_cvec.
  destruct (fold_acc_spec j prev (zeros XR n)) as (Hl & Hn).
  { intros k Hk. unfold zeros. rewrite repeat_length. auto. }
  unfold zeros in *. rewrite repeat_length in *.
  assert (Hcol : length (col XR j A) = n) by (unfold col; rewrite map_length; auto).
  split.
  - rewrite map2_length. lia.
  - intros i Hi. rewrite (map2_nth _ _ _ 0 0 0) by lia.
    rewrite Hn by lia. rewrite nth_col. change (zero (nx XR)) with 0. rewrite nth_repeat0.
    change (sub (nx XR)) with Rminus. lra.
Qed.

Lemma newcol_spec (j : nat) (cv : list R) (d : R) :
  length (ldl_newcol XR j cv d) = length cv /\
  forall i, (i < length cv)%nat ->
    nth i (ldl_newcol XR j cv d) 0 =
    if Nat.ltb i j then 0 else if Nat.eqb i j then 1 else nth i cv 0 / d.
Proof.
  unfold ldl_newcol. split.
  - rewrite map2_length, seq_length. lia.
  - intros i Hi. rewrite (map2_nth _ _ _ 0%nat 0 0) by (rewrite ?seq_length; lia).
    rewrite seq_nth by lia. simpl. reflexivity.
Qed.

(* ---------- the invariant of the column loop ---------- *)
(* [pk k c below d]: the pivot choice that was made at column k *)
Definition col_ok (n : nat) (A : rmat) (cs : cols_t) (k : nat) : Prop :=
  length (snd (nth k cs (0, []))) = n /\
  (forall i, (i < k)%nat -> ck cs k i = 0) /\
  ck cs k k = 1 /\
  (forall i, (k < i < n)%nat ->
     ck cs k i = (G A i k - sum_n (fun m => dk cs m * (ck cs m i * ck cs m k)) k) / dk cs k).

Lemma nth_app_cols (cs : cols_t) x k : (k < length cs)%nat -> nth k (cs ++ [x]) (0, []) = nth k cs (0, []).
Proof. intro; apply app_nth1; auto. Qed.

Lemma col_ok_app n A cs x k : (k < length cs)%nat -> col_ok n A cs k -> col_ok n A (cs ++ [x]) k.
Proof.
  intros Hk (H1 & H2 & H3 & H4).
  assert (Ec : forall m i, (m <= k)%nat -> ck (cs ++ [x]) m i = ck cs m i).
  { intros m i Hm. unfold ck. rewrite nth_app_cols by lia. reflexivity. }
  assert (Ed : forall m, (m <= k)%nat -> dk (cs ++ [x]) m = dk cs m).
  { intros m Hm. unfold dk. rewrite nth_app_cols by lia. reflexivity. }
  unfold col_ok. rewrite nth_app_cols by lia. split; [exact H1|]. split; [|split].
  - intros i Hi. rewrite Ec by lia. auto.
  - rewrite Ec by lia. auto.
  - intros i Hi. rewrite Ec, Ed by lia. rewrite H4 by auto. f_equal. f_equal.
    apply sum_n_ext. intros m Hm. rewrite !Ec, Ed by lia. reflexivity.
Qed.

(* the pivots chosen by [pick], in terms of the finished columns *)
Definition cjj (A : rmat) (cs : cols_t) (j : nat) : R :=
  G A j j - sum_n (fun m => dk cs m * (ck cs m j * ck cs m j)) j.
Definition cbelow (n : nat) (A : rmat) (cs : cols_t) (j : nat) : list R :=
  map (fun i => G A i j - sum_n (fun m => dk cs m * (ck cs m i * ck cs m j)) j) (seq (S j) (n - S j)).
Definition pick_ok (pick : nat -> R -> list R -> option R) (n : nat) (A : rmat) (cs : cols_t) (j : nat) : Prop :=
  pick j (cjj A cs j) (cbelow n A cs j) = Some (dk cs j).

Lemma skipn_nth_seq (n j : nat) (cv : list R) (f : nat -> R) :
  length cv = n -> (forall i, (i < n)%nat -> nth i cv 0 = f i) ->
  skipn (S j) cv = map f (seq (S j) (n - S j)).
Proof.
  intros Hl Hf. apply nth_ext with (d := 0) (d' := 0).
  - rewrite skipn_length, map_length, seq_length. lia.
  - intros i Hi. rewrite skipn_length in Hi. rewrite nth_skipn_add.
    rewrite (nth_indep (map f (seq (S j) (n - S j))) 0 (f 0%nat)) by (rewrite map_length, seq_length; lia).
    rewrite (map_nth f). rewrite seq_nth by lia. apply Hf. lia.
Qed.

Lemma ldl_cols_spec (pick : nat -> R -> list R -> option R) (n : nat) (A : rmat) :
  length A = n ->
  forall (fuel : nat) (prev cs : cols_t),
  (length prev + fuel = n)%nat ->
  (forall k, (k < length prev)%nat -> col_ok n A prev k /\ pick_ok pick n A prev k) ->
  ldl_cols XR pick n A fuel prev = Some cs ->
  length cs = n /\ forall k, (k < n)%nat -> col_ok n A cs k /\ pick_ok pick n A cs k.
Proof.
  intros HA. induction fuel as [|fuel IH]; intros prev cs Hlen Hinv H.
  - simpl in H. inversion H; subst cs. split; [lia|]. intros k Hk. apply Hinv. lia.
  - cbn [ldl_cols] in H. set (j := length prev) in *.
    assert (Hpl : forall k, (k < length prev)%nat -> length (snd (nth k prev (0, []))) = n).
    { intros k Hk. destruct (Hinv k Hk) as ((Hl & _) & _). exact Hl. }
    destruct (cvec_spec n j A prev HA Hpl) as (Hcl & Hcn).
    set (cv := ldl_cvec XR n j A prev) in *.
    change (zero (nx XR)) with 0 in H.
    destruct (pick j (nth j cv 0) (skipn (S j) cv)) as [d|] eqn:Ep; [|discriminate].
    destruct (newcol_spec j cv d) as (Hnl & Hnn). rewrite Hcl in Hnl, Hnn.
    assert (Hj : (j < n)%nat) by lia.
    apply (IH (prev ++ [(d, ldl_newcol XR j cv d)]) cs); auto.
    + rewrite app_length. simpl. fold j. lia.
    + intros k Hk. rewrite app_length in Hk. simpl in Hk. fold j in Hk.
      assert (Ec : forall m i, (m < j)%nat -> ck (prev ++ [(d, ldl_newcol XR j cv d)]) m i = ck prev m i).
      { intros m i Hm. unfold ck. rewrite nth_app_cols by (fold j; lia). reflexivity. }
      assert (Ed : forall m, (m < j)%nat -> dk (prev ++ [(d, ldl_newcol XR j cv d)]) m = dk prev m).
      { intros m Hm. unfold dk. rewrite nth_app_cols by (fold j; lia). reflexivity. }
      destruct (Nat.eq_dec k j) as [->|Hne].
      * assert (Elast : nth j (prev ++ [(d, ldl_newcol XR j cv d)]) (0, []) = (d, ldl_newcol XR j cv d)).
        { unfold j. rewrite app_nth2 by lia. rewrite Nat.sub_diag. reflexivity. }
        assert (Esum : forall i, sum_n (fun m => dk (prev ++ [(d, ldl_newcol XR j cv d)]) m *
                                    (ck (prev ++ [(d, ldl_newcol XR j cv d)]) m i * ck (prev ++ [(d, ldl_newcol XR j cv d)]) m j)) j
                               = sum_n (fun m => dk prev m * (ck prev m i * ck prev m j)) j).
        { intro i. apply sum_n_ext. intros m Hm. rewrite !Ec, Ed by lia. reflexivity. }
        split.
        -- unfold col_ok. rewrite Elast. simpl snd. split; [exact Hnl|]. unfold ck, dk. rewrite Elast. simpl snd. simpl fst.
           split; [|split].
           ++ intros i Hi. rewrite Hnn by lia. destruct (Nat.ltb i j) eqn:E; auto. apply Nat.ltb_ge in E. lia.
           ++ rewrite Hnn by lia. rewrite Nat.ltb_irrefl, Nat.eqb_refl. reflexivity.
           ++ intros i Hi. rewrite Hnn by lia.
              destruct (Nat.ltb i j) eqn:E1; [apply Nat.ltb_lt in E1; lia|].
              destruct (Nat.eqb i j) eqn:E2; [apply Nat.eqb_eq in E2; lia|].
              rewrite Hcn by lia. fold (ck (prev ++ [(d, ldl_newcol XR j cv d)])).
              f_equal. f_equal.
              pose proof (Esum i) as Es. unfold ck, dk in Es. unfold ck, dk. rewrite Es. reflexivity.
        -- unfold pick_ok. unfold dk at 1. rewrite Elast. simpl fst.
           rewrite <- Ep. f_equal.
           ++ unfold cjj. rewrite Esum. rewrite Hcn by lia. reflexivity.
           ++ unfold cbelow. symmetry.
              rewrite (skipn_nth_seq n j cv (fun i => G A i j - sum_n (fun m => dk prev m * (ck prev m i * ck prev m j)) j)); auto.
              apply map_ext. intro i. rewrite Esum. reflexivity.
      * destruct (Hinv k ltac:(fold j; lia)) as (Hc & Hp). split.
        -- apply col_ok_app; auto. fold j. lia.
        -- unfold pick_ok in *. unfold dk at 1. rewrite nth_app_cols by (fold j; lia). fold (dk prev k).
           rewrite <- Hp. f_equal.
           ++ unfold cjj. f_equal. apply sum_n_ext. intros m Hm. rewrite !Ec, Ed by lia. reflexivity.
           ++ unfold cbelow. apply map_ext. intro i. f_equal. apply sum_n_ext. intros m Hm.
              rewrite !Ec, Ed by lia. reflexivity.
Qed.

(* ---------- the returned matrices ---------- *)
Lemma G_transpose_n (n : nat) (M : rmat) (i k : nat) :
  (i < n)%nat -> G (transpose_n XR n M) i k = nth i (nth k M []) 0.
Proof.
  intro Hi. unfold G at 1, transpose_n.
  rewrite (nth_indep _ [] ((fun j => col XR j M) 0%nat)) by (rewrite map_length, seq_length; lia).
  rewrite (map_nth (fun j => col XR j M)). rewrite seq_nth by lia. simpl.
  apply nth_col.
Qed.

Lemma G_transpose_n_out (n : nat) (M : rmat) (i k : nat) :
  (n <= i)%nat -> G (transpose_n XR n M) i k = 0.
Proof.
  intro Hi. unfold G, transpose_n. rewrite (nth_overflow (map _ _)) by (rewrite map_length, seq_length; lia).
  destruct k; reflexivity.
Qed.

Lemma G_L_cols (n : nat) (cs : cols_t) (i k : nat) :
  (i < n)%nat -> G (transpose_n XR n (map snd cs)) i k = ck cs k i.
Proof.
  intro Hi. rewrite G_transpose_n by auto. unfold ck.
  change (@nil R) with (snd (0, @nil R)). rewrite (map_nth snd). reflexivity.
Qed.

Lemma G_diagm (d : list R) (i k : nat) :
  (i < length d)%nat -> (k < length d)%nat ->
  G (diagm XR d) i k = if Nat.eqb i k then nth i d 0 else 0.
Proof.
  intros Hi Hk. unfold G, diagm.
  rewrite (nth_indep _ [] ((fun i => map (fun j => if Nat.eqb i j then nth i d (zero (nx XR)) else zero (nx XR)) (seq 0 (length d))) 0%nat))
    by (rewrite map_length, seq_length; lia).
  rewrite (map_nth (fun i => map (fun j => if Nat.eqb i j then nth i d (zero (nx XR)) else zero (nx XR)) (seq 0 (length d)))).
  rewrite seq_nth by lia. simpl.
  rewrite (nth_indep _ 0 ((fun j => if Nat.eqb i j then nth i d 0 else 0) 0%nat)) by (rewrite map_length, seq_length; lia).
  rewrite (map_nth (fun j => if Nat.eqb i j then nth i d 0 else 0)). rewrite seq_nth by lia. reflexivity.
Qed.

Lemma G_diagm_out (d : list R) (i k : nat) : i <> k -> G (diagm XR d) i k = 0.
Proof.
  intro Hne. destruct (le_lt_dec (length d) i) as [Hi|Hi].
  - unfold G, diagm. rewrite (nth_overflow (map _ _)) by (rewrite map_length, seq_length; lia). destruct k; reflexivity.
  - destruct (le_lt_dec (length d) k) as [Hk|Hk].
    + unfold G, diagm.
      rewrite (nth_indep _ [] ((fun i => map (fun j => if Nat.eqb i j then nth i d (zero (nx XR)) else zero (nx XR)) (seq 0 (length d))) 0%nat))
        by (rewrite map_length, seq_length; lia).
      rewrite (map_nth (fun i => map (fun j => if Nat.eqb i j then nth i d (zero (nx XR)) else zero (nx XR)) (seq 0 (length d)))).
      apply nth_overflow. rewrite map_length, seq_length. lia.
    + rewrite G_diagm by auto. destruct (Nat.eqb i k) eqn:E; auto. apply Nat.eqb_eq in E. contradiction.
Qed.

(* ---------- generic theorem ---------- *)
Section Generic.
Variable pick : nat -> R -> list R -> option R.
Variables (n : nat) (A L D : rmat).
Hypothesis HA : length A = n.
Hypothesis Hrun : ldl_gen XR pick A = Some (L, D).

Lemma ldl_gen_cols : exists cs : cols_t,
  length cs = n /\ (forall k, (k < n)%nat -> col_ok n A cs k /\ pick_ok pick n A cs k) /\
  L = transpose_n XR n (map snd cs) /\ D = diagm XR (map fst cs).
Proof.
  unfold ldl_gen in Hrun. rewrite HA in Hrun.
  destruct (ldl_cols XR pick n A n []) as [cs|] eqn:E; [|discriminate].
  inversion Hrun; subst L D. exists cs.
  assert (Hs := ldl_cols_spec pick n A HA n [] cs ltac:(simpl; lia) ltac:(intros k Hk; simpl in Hk; lia) E).
  destruct Hs as (Hl & Hk). repeat split; auto; apply Hk; auto.
Qed.

Lemma ldl_gen_structure : unit_lower_triangular n L /\ diagonal D.
Proof.
  destruct ldl_gen_cols as (cs & Hl & Hk & -> & ->). split; [split|].
  - intros i j Hij. destruct (le_lt_dec n i) as [Hge|Hlt]; [apply G_transpose_n_out; auto|].
    rewrite G_L_cols by auto. destruct (le_lt_dec n j) as [Hgej|Hltj].
    + unfold ck. rewrite (nth_overflow cs) by lia. destruct i; reflexivity.
    + destruct (Hk j Hltj) as ((_ & Hz & _) & _). apply Hz. exact Hij.
  - intros i Hi. rewrite G_L_cols by auto. destruct (Hk i Hi) as ((_ & _ & H1 & _) & _). exact H1.
  - intros i j Hne. apply G_diagm_out. exact Hne.
Qed.

(* the pivots as the routine chose them, and what L D L^T reproduces *)
Lemma ldl_gen_product :
  exists cs : cols_t,
  (forall j, (j < n)%nat -> G D j j = dk cs j /\ pick_ok pick n A cs j) /\
  ((forall j, (j < n)%nat -> dk cs j <> 0) ->
   (forall i j, (j < i)%nat -> (i < n)%nat -> LDLt n L D i j = G A i j) /\
   (forall j, (j < n)%nat -> LDLt n L D j j = G A j j + (dk cs j - cjj A cs j))).
Proof.
  destruct ldl_gen_cols as (cs & Hl & Hk & -> & ->). exists cs.
  assert (HD : forall j, (j < n)%nat -> G (diagm XR (map fst cs)) j j = dk cs j).
  { intros j Hj. rewrite G_diagm by (rewrite map_length; lia). rewrite Nat.eqb_refl. unfold dk.
    change 0 with (fst (0, @nil R)). rewrite (map_nth fst). reflexivity. }
  split.
  - intros j Hj. split; [apply HD; auto|]. apply Hk; auto.
  - intro Hnz.
    assert (Hterm : forall i j, (i < n)%nat -> (j < n)%nat ->
              LDLt n (transpose_n XR n (map snd cs)) (diagm XR (map fst cs)) i j =
              sum_n (fun k => ck cs k i * dk cs k * ck cs k j) n).
    { intros i j Hi Hj. unfold LDLt. apply sum_n_ext. intros k Hk'.
      rewrite !G_L_cols by auto. rewrite HD by auto. reflexivity. }
    assert (Hcut : forall i j, (j <= i)%nat -> (i < n)%nat ->
              sum_n (fun k => ck cs k i * dk cs k * ck cs k j) n =
              sum_n (fun k => ck cs k i * dk cs k * ck cs k j) j + ck cs j i * dk cs j).
    { intros i j Hji Hi. rewrite (sum_n_cut _ (S j) n); [|lia|].
      - simpl. destruct (Hk j ltac:(lia)) as ((_ & _ & H1 & _) & _). rewrite H1. lra.
      - intros k Hk'. destruct (Hk k ltac:(lia)) as ((_ & Hz & _) & _). rewrite (Hz j) by lia. lra. }
    split.
    + intros i j Hji Hi. rewrite Hterm by lia. rewrite Hcut by lia.
      destruct (Hk j ltac:(lia)) as ((_ & _ & _ & Hoff) & _).
      rewrite (Hoff i) by lia. specialize (Hnz j ltac:(lia)).
      rewrite (sum_n_ext (fun k => ck cs k i * dk cs k * ck cs k j) (fun m => dk cs m * (ck cs m i * ck cs m j)))
        by (intros; lra).
      field. exact Hnz.
    + intros j Hj. rewrite Hterm by lia. rewrite Hcut by lia.
      destruct (Hk j Hj) as ((_ & _ & H1 & _) & _). rewrite H1. unfold cjj.
      rewrite (sum_n_ext (fun k => ck cs k j * dk cs k * ck cs k j) (fun m => dk cs m * (ck cs m j * ck cs m j)))
        by (intros; lra).
      lra.
Qed.
End Generic.

(* ---------- cholesky_ldl ---------- *)
Lemma pick_ldl_some j c b d : pick_ldl XR j c b = Some d -> d = c /\ 0 < c.
Proof.
  unfold pick_ldl. change (leb (nx XR)) with Rleb. change (zero (nx XR)) with 0.
  destruct (Rleb c 0) eqn:E; [discriminate|]. intro H.
  assert (Hdc : d = c) by congruence. split; [exact Hdc|].
  destruct (Rle_dec c 0) as [Hle|Hgt].
  - apply Rleb_true in Hle. congruence.
  - apply Rnot_le_lt. exact Hgt.
Qed.

Lemma LDLt_sym n L D i j : LDLt n L D i j = LDLt n L D j i.
Proof. unfold LDLt. apply sum_n_ext. intros; lra. Qed.

Lemma cholesky_ldl_sound (A L D : rmat) (n : nat) :
  dims n n A -> symmetric n A -> cholesky_ldl XR A = Some (L, D) ->
  unit_lower_triangular n L /\ diagonal D /\ (forall j, (j < n)%nat -> 0 < G D j j) /\
  forall i j, (i < n)%nat -> (j < n)%nat -> LDLt n L D i j = G A i j.
Proof.
  intros (HA & _) Hsym H. unfold cholesky_ldl in H.
  destruct (ldl_gen_structure _ n A L D HA H) as (HL & HDg).
  destruct (ldl_gen_product _ n A L D HA H) as (cs & Hd & Hprod).
  assert (Hpos : forall j, (j < n)%nat -> dk cs j = cjj A cs j /\ 0 < cjj A cs j).
  { intros j Hj. destruct (Hd j Hj) as (_ & Hp). apply pick_ldl_some in Hp. exact Hp. }
  destruct Hprod as (Hoff & Hdiag).
  { intros j Hj. destruct (Hpos j Hj). lra. }
  split; [exact HL|]. split; [exact HDg|]. split.
  - intros j Hj. destruct (Hd j Hj) as (-> & _). destruct (Hpos j Hj). lra.
  - intros i j Hi Hj. destruct (lt_eq_lt_dec i j) as [[Hlt|Heq]|Hgt].
    + rewrite LDLt_sym, Hsym by auto. apply Hoff; auto.
    + subst i. rewrite Hdiag by auto. destruct (Hpos j Hj). lra.
    + apply Hoff; auto.
Qed.

(* ---------- cholesky_ldl_forcepd ---------- *)
Lemma pick_fpd_some n beta delta j c b d :
  pick_fpd XR n beta delta j c b = Some d -> delta <= d /\ Rabs c <= d.
Proof.
  unfold pick_fpd. change (fmax XR) with Rmax. change (nabs (nx XR)) with Rabs.
  destruct (Nat.eqb j (n - 1)); intro H; inversion H; subst; clear H.
  - split; [apply Rmax_r|apply Rmax_l].
  - split; [apply Rmax_r|]. eapply Rle_trans; [|apply Rmax_l]. apply Rmax_l.
Qed.

Lemma cholesky_ldl_forcepd_sound (A L D : rmat) (n : nat) (bfloor delta : R) :
  dims n n A -> 0 < delta ->
  cholesky_ldl_forcepd XR bfloor delta A = Some (L, D) ->
  unit_lower_triangular n L /\ diagonal D /\
  (forall j, (j < n)%nat -> delta <= G D j j) /\
  (forall i j, (j < i)%nat -> (i < n)%nat -> LDLt n L D i j = G A i j) /\
  (forall j, (j < n)%nat -> G A j j <= LDLt n L D j j).
Proof.
  intros (HA & _) Hdelta H. unfold cholesky_ldl_forcepd in H.
  destruct (ldl_gen_structure _ n A L D HA H) as (HL & HDg).
  destruct (ldl_gen_product _ n A L D HA H) as (cs & Hd & Hprod).
  assert (Hb : forall j, (j < n)%nat -> delta <= dk cs j /\ Rabs (cjj A cs j) <= dk cs j).
  { intros j Hj. destruct (Hd j Hj) as (_ & Hp). rewrite HA in Hp. apply pick_fpd_some in Hp. exact Hp. }
  destruct Hprod as (Hoff & Hdiag).
  { intros j Hj. destruct (Hb j Hj). lra. }
  split; [exact HL|]. split; [exact HDg|]. split; [|split].
  - intros j Hj. destruct (Hd j Hj) as (-> & _). apply Hb; auto.
  - exact Hoff.
  - intros j Hj. rewrite Hdiag by auto. destruct (Hb j Hj) as (_ & Habs).
    pose proof (Rle_abs (cjj A cs j)). lra.
Qed.

(* the modification is inactive: the forced pivot is c_jj itself *)
Lemma pick_fpd_inactive n beta delta j c b :
  0 < c -> delta <= c ->
  (j <> (n - 1)%nat -> (fold_left (upd_max XR) b (-1) / beta) * (fold_left (upd_max XR) b (-1) / beta) <= c) ->
  pick_fpd XR n beta delta j c b = pick_ldl XR j c b.
Proof.
  intros Hc Hd Hth. unfold pick_fpd, pick_ldl.
  change (fmax XR) with Rmax. change (nabs (nx XR)) with Rabs. change (leb (nx XR)) with Rleb.
  change (zero (nx XR)) with 0. change (neg_inf XR) with (-1). change (div (nx XR)) with Rdiv.
  change (mul (nx XR)) with Rmult.
  assert (E : Rleb c 0 = false).
  { destruct (Rleb c 0) eqn:E; auto. apply Rleb_true in E. lra. }
  rewrite E. rewrite (Rabs_right c) by lra.
  destruct (Nat.eqb j (n - 1)) eqn:Ej.
  - rewrite Rmax_left by lra. reflexivity.
  - apply Nat.eqb_neq in Ej. specialize (Hth Ej).
    rewrite (Rmax_left c) by exact Hth. rewrite Rmax_left by lra. reflexivity.
Qed.
