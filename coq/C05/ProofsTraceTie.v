(* C05 — what the per-step checks of C05.CorrTrace buy with respect to the hypotheses
   [cvalid] of the trace-machine theorems (ProofsTrace.concrete_qr_trace_invariant,
   concrete_svd_trace_invariant).

   The logged pair (c, s) of a rotation is a pair of binary64 numbers; the checker decides
   |c^2 + s^2 - 1| <= tol on their exact dyadic values (integers, no rounding).

   1. [rot_ok_tol_sound]: acceptance by the checker IS the real-number inequality
      |c^2 + s^2 - 1| <= tol for the real values [f2R c], [f2R s] of the logged floats.
   2. Exact case, [rot_ok_exact_cvalid]: with tolerance 0 the step is a valid step of the
      trace machine ([cvalid n (GStep c s i k)]); [all_exact_trace_invariant] feeds a whole
      list of such steps to concrete_qr_trace_invariant.
   3. Approximate case (what 8u buys), [Gmat_gram_defect] / [Gmat_gram_close]: the Gram
      matrix G^T G of the logged rotation differs from the identity exactly by
      (c^2+s^2-1) on the two diagonal positions i, k and nowhere else, hence by at most tol
      entrywise; and [rot_normalised_cvalid]: the normalised pair (c/r, s/r), r = sqrt(c^2+s^2),
      is a valid step of the trace machine, G(c,s) = r * G(c/r, s/r) on rows i, k
      ([Gmat_scaled]), with |r^2 - 1| <= tol.  So a run whose steps pass the check is a run of
      the trace machine with exactly orthogonal steps, each followed by a scaling of two
      rows/columns by a factor r with |r^2 - 1| <= 8u. *)
From Coq Require Import Reals List Lia Lra Bool Arith ZArith Floats Psatz.
From ADV Require Import Base.Num C05.Model C05.Spec C05.ProofsBase C05.ProofsTrace C05.Resid C05.CorrTrace.
Import ListNotations.
Open Scope R_scope.

(* ---------- real value of a dyadic pair ---------- *)
Definition dR (a : dy) : R := IZR (fst a) * powerRZ 2 (snd a).

Lemma powerRZ_2_pos e : 0 < powerRZ 2 e.
Proof. apply powerRZ_lt. lra. Qed.

Lemma shiftl_R (m k : Z) : (0 <= k)%Z -> IZR (Z.shiftl m k) = IZR m * powerRZ 2 k.
Proof.
  intro Hk. rewrite Z.shiftl_mul_pow2 by exact Hk. rewrite mult_IZR. f_equal.
  destruct k as [|p|p]; [reflexivity| |lia].
  cbn [powerRZ]. rewrite pow_IZR, positive_nat_Z. reflexivity.
Qed.

Lemma dadd_R (a b : dy) : dR (dadd a b) = dR a + dR b.
Proof.
  destruct a as [m1 e1], b as [m2 e2]. unfold dadd, dR.
  destruct (e1 <=? e2)%Z eqn:E; cbn [fst snd].
  - apply Z.leb_le in E. rewrite plus_IZR, shiftl_R by lia.
    replace (powerRZ 2 e2) with (powerRZ 2 (e2 - e1) * powerRZ 2 e1).
    + ring.
    + rewrite <- powerRZ_add by lra. f_equal. lia.
  - apply Z.leb_gt in E. rewrite plus_IZR, shiftl_R by lia.
    replace (powerRZ 2 e1) with (powerRZ 2 (e1 - e2) * powerRZ 2 e2).
    + ring.
    + rewrite <- powerRZ_add by lra. f_equal. lia.
Qed.

Lemma dneg_R a : dR (dneg a) = - dR a.
Proof. unfold dneg, dR. cbn [fst snd]. rewrite opp_IZR. ring. Qed.
Lemma dsub_R a b : dR (dsub a b) = dR a - dR b.
Proof. unfold dsub. rewrite dadd_R, dneg_R. ring. Qed.
Lemma dmul_R a b : dR (dmul a b) = dR a * dR b.
Proof. unfold dmul, dR. cbn [fst snd]. rewrite mult_IZR, powerRZ_add by lra. ring. Qed.
Lemma dabs_R a : dR (dabs a) = Rabs (dR a).
Proof.
  unfold dabs, dR. cbn [fst snd]. rewrite abs_IZR, Rabs_mult.
  rewrite (Rabs_pos_eq (powerRZ 2 (snd a))); [reflexivity|]. left. apply powerRZ_2_pos.
Qed.
Lemma done_R : dR done = 1.
Proof. unfold dR, done. cbn. lra. Qed.

Lemma dle_R a b : dle a b = true <-> dR a <= dR b.
Proof.
  unfold dle. rewrite Z.leb_le.
  assert (E : dR (dsub b a) = dR b - dR a) by apply dsub_R.
  unfold dR at 1 in E. pose proof (powerRZ_2_pos (snd (dsub b a))) as Hp.
  split; intro H.
  - apply IZR_le in H. nra.
  - apply le_IZR. nra.
Qed.

(* real value of a logged float (0 for the non-finite ones, which the checker rejects) *)
Definition f2R (x : float) : R := match f2dy x with Some d => dR d | None => 0 end.

(* ---------- 1. the checker decides the real inequality ---------- *)
Theorem rot_ok_tol_sound (tol : dy) (c s : float) :
  rot_ok_tol tol c s = true ->
  Rabs (f2R c * f2R c + f2R s * f2R s - 1) <= dR tol.
Proof.
  unfold rot_ok_tol, unit_err, f2R.
  destruct (f2dy c) as [dc|]; [|discriminate]. destruct (f2dy s) as [ds|]; [|discriminate].
  intro H. apply dle_R in H.
  rewrite dabs_R, dsub_R, dadd_R, !dmul_R, done_R in H. exact H.
Qed.

Corollary rot_ok_sound (c s : float) :
  rot_ok c s = true -> Rabs (f2R c * f2R c + f2R s * f2R s - 1) <= / 2 ^ 50.
Proof.
  intro H. apply rot_ok_tol_sound in H.
  replace (dR u8) with (/ 2 ^ 50) in H; [exact H|].
  unfold dR, u8. cbn [fst snd powerRZ]. rewrite Rmult_1_l. f_equal.
Qed.

(* ---------- 2. exact case: a valid step of the trace machine ---------- *)
Theorem rot_ok_exact_cvalid (n i k : nat) (c s : float) :
  rot_ok_tol (0, 0)%Z c s = true -> i <> k -> (i < n)%nat -> (k < n)%nat ->
  cvalid n (GStep (f2R c) (f2R s) i k).
Proof.
  intros H Hik Hi Hk. apply rot_ok_tol_sound in H.
  assert (E : dR (0, 0)%Z = 0) by (unfold dR; cbn; lra). rewrite E in H.
  cbn. split; [|auto].
  pose proof (Rabs_pos (f2R c * f2R c + f2R s * f2R s - 1)) as Hp.
  assert (Z0 : Rabs (f2R c * f2R c + f2R s * f2R s - 1) = 0) by lra.
  destruct (Req_dec (f2R c * f2R c + f2R s * f2R s - 1) 0) as [E0|N0]; [lra|].
  exfalso. apply (Rabs_no_R0 _ N0). exact Z0.
Qed.

(* a logged list of rotations (c, s, i, k) as steps of the trace machine *)
Definition rot_step (t : float * float * nat * nat) : cstep :=
  let '(c, s, i, k) := t in GStep (f2R c) (f2R s) i k.
Definition rot_exact (n : nat) (t : float * float * nat * nat) : bool :=
  let '(c, s, i, k) := t in
  rot_ok_tol (0, 0)%Z c s && negb (Nat.eqb i k) && Nat.ltb i n && Nat.ltb k n.

Lemma all_exact_cvalid n l : forallb (rot_exact n) l = true -> Forall (cvalid n) (map rot_step l).
Proof.
  induction l as [|[[[c s] i] k] l IH]; intro H; cbn [map]; constructor.
  - cbn [forallb] in H. apply andb_prop in H. destruct H as [H _].
    unfold rot_exact in H. repeat (apply andb_prop in H; destruct H as [H ?]).
    unfold rot_step. apply rot_ok_exact_cvalid; [exact H| | |].
    + intro E. subst k. rewrite Nat.eqb_refl in *. discriminate.
    + apply Nat.ltb_lt. assumption.
    + apply Nat.ltb_lt. assumption.
  - apply IH. cbn [forallb] in H. apply andb_prop in H. tauto.
Qed.

Theorem all_exact_trace_invariant :
  forall (n : nat) (l : list (float * float * nat * nat)) (H U : fmatR),
  forallb (rot_exact n) l = true ->
  let st' := qr_run n (qr_steps_of (map rot_step l)) (H, U) in
  meq n n (uhut n st') (uhut n (H, U)) /\
  meq n n (mmul n (snd st') (tr (snd st'))) (mmul n U (tr U)) /\
  (orth n U -> orth n (snd st')).
Proof. intros n l H U Hl. apply concrete_qr_trace_invariant. apply all_exact_cvalid. exact Hl. Qed.

(* ---------- 3. approximate case ---------- *)
Local Ltac eqb_cases :=
  repeat match goal with
         | |- context [Nat.eqb ?x ?y] => destruct (Nat.eqb_spec x y); try lia
         end.

(* G^T G = I + (c^2 + s^2 - 1) (e_i e_i^T + e_k e_k^T), for ANY pair (c, s) *)
Theorem Gmat_gram_defect (c s : R) (i k n a b : nat) :
  i <> k -> (i < n)%nat -> (k < n)%nat -> (a < n)%nat -> (b < n)%nat ->
  mmul n (tr (Gmat c s i k)) (Gmat c s i k) a b =
  delta a b + (c * c + s * s - 1) * (if Nat.eqb a b && (Nat.eqb a i || Nat.eqb a k) then 1 else 0).
Proof.
  intros Hik Hi Hk Ha Hb. unfold mmul, tr.
  rewrite (Gmat_col_apply c s i k n (fun l => Gmat c s i k l b) a Hik Hi Hk Ha).
  unfold Gmat, delta. eqb_cases; cbn [andb orb]; lra.
Qed.

Corollary Gmat_gram_close (c s eps : R) (i k n a b : nat) :
  Rabs (c * c + s * s - 1) <= eps ->
  i <> k -> (i < n)%nat -> (k < n)%nat -> (a < n)%nat -> (b < n)%nat ->
  Rabs (mmul n (tr (Gmat c s i k)) (Gmat c s i k) a b - delta a b) <= eps.
Proof.
  intros He Hik Hi Hk Ha Hb. rewrite Gmat_gram_defect by assumption.
  pose proof (Rabs_pos (c * c + s * s - 1)) as Hp.
  destruct (Nat.eqb a b && (Nat.eqb a i || Nat.eqb a k)).
  - replace (delta a b + (c * c + s * s - 1) * 1 - delta a b) with (c * c + s * s - 1) by ring. exact He.
  - replace (delta a b + (c * c + s * s - 1) * 0 - delta a b) with 0 by ring. rewrite Rabs_R0. lra.
Qed.

(* the normalised pair is a valid step of the trace machine *)
Theorem rot_normalised_cvalid (n i k : nat) (c s : R) :
  0 < c * c + s * s -> i <> k -> (i < n)%nat -> (k < n)%nat ->
  let r := R_sqrt.sqrt (c * c + s * s) in
  cvalid n (GStep (c / r) (s / r) i k).
Proof.
  intros Hpos Hik Hi Hk r. cbn. split; [|auto].
  assert (Hr : 0 < r) by (apply sqrt_lt_R0; exact Hpos).
  assert (Hrr : r * r = c * c + s * s) by (apply sqrt_sqrt; lra).
  field_simplify_eq; [|lra]. nra.
Qed.

(* G(c, s) is G(c/r, s/r) with rows i and k scaled by r *)
Theorem Gmat_scaled (c s r : R) (i k a b : nat) :
  r <> 0 ->
  Gmat c s i k a b = (if Nat.eqb a i || Nat.eqb a k then r else 1) * Gmat (c / r) (s / r) i k a b.
Proof.
  intro Hr. unfold Gmat, delta. eqb_cases; cbn [orb]; try (field; exact Hr); try lra.
Qed.

(* the checked float pair: its normalisation is a valid step, and r^2 is within 8u of 1 *)
Theorem rot_ok_normalised (n i k : nat) (c s : float) :
  rot_ok c s = true -> i <> k -> (i < n)%nat -> (k < n)%nat ->
  let r := R_sqrt.sqrt (f2R c * f2R c + f2R s * f2R s) in
  cvalid n (GStep (f2R c / r) (f2R s / r) i k) /\ Rabs (r * r - 1) <= / 2 ^ 50.
Proof.
  intros H Hik Hi Hk r. apply rot_ok_sound in H.
  assert (Hsmall : / 2 ^ 50 < 1).
  { assert (H1 : 1 < 2 ^ 50) by (apply Rlt_pow_R1; [lra|lia]).
    pose proof (Rinv_lt_contravar 1 (2 ^ 50)) as Hi'. rewrite Rinv_1 in Hi'. apply Hi'; lra. }
  assert (Hpos : 0 < f2R c * f2R c + f2R s * f2R s).
  { unfold Rabs in H. destruct (Rcase_abs (f2R c * f2R c + f2R s * f2R s - 1)); lra. }
  split.
  - apply rot_normalised_cvalid; assumption.
  - unfold r. rewrite sqrt_sqrt by lra. exact H.
Qed.

(* ---------- reflectors (Francis steps): the checker decides the real inequality ---------- *)
Lemma f2R_some x d : f2dy x = Some d -> f2R x = dR d.
Proof. unfold f2R. intros ->. reflexivity. Qed.

Lemma dzero_R : dR dzero = 0.
Proof. unfold dR, dzero. cbn. lra. Qed.

Lemma sumsq_dy_R (l : list float) (acc q : dy) :
  sumsq_dy l acc = Some q ->
  dR q = dR acc + sum_n (fun k => nth k (map f2R l) 0 * nth k (map f2R l) 0) (length l).
Proof.
  revert acc. induction l as [|x l IH]; intros acc H.
  - cbn in H. injection H as <-. cbn. lra.
  - cbn [sumsq_dy] in H. destruct (f2dy x) as [d|] eqn:E; [|discriminate].
    apply IH in H. rewrite H, dadd_R, dmul_R.
    change (length (x :: l)) with (S (length l)).
    rewrite (sum_n_S_first (fun k => nth k (map f2R (x :: l)) 0 * nth k (map f2R (x :: l)) 0)).
    cbn [map nth]. rewrite (f2R_some x d E). lra.
Qed.

Theorem house_ok_tol_sound (tol : dy) (beta : float) (nu : list float) :
  house_ok_tol tol beta nu = true ->
  f2R beta = 0 \/ Rabs (f2R beta * dot (length nu) (map f2R nu) (map f2R nu) - 2) <= dR tol.
Proof.
  unfold house_ok_tol, house_err. intros H.
  destruct (f2dy beta) as [b|] eqn:Eb; [|discriminate].
  destruct (sumsq_dy nu dzero) as [q|] eqn:Eq; [|discriminate].
  apply orb_prop in H. destruct H as [H|H].
  - left. rewrite (f2R_some _ _ Eb). unfold dis0 in H. apply Z.eqb_eq in H.
    unfold dR. rewrite H. lra.
  - right. apply dle_R in H. rewrite dabs_R, dsub_R, dmul_R in H.
    rewrite (sumsq_dy_R _ _ _ Eq), dzero_R in H.
    replace (dR (2, 0)%Z) with 2 in H by (unfold dR; cbn; lra).
    rewrite (f2R_some _ _ Eb). unfold dot, V.
    replace (dR b * (0 + sum_n (fun k => nth k (map f2R nu) 0 * nth k (map f2R nu) 0) (length nu)))
      with (dR b * sum_n (fun k => nth k (map f2R nu) 0 * nth k (map f2R nu) 0) (length nu)) in H by ring.
    exact H.
Qed.

(* exact case: a valid reflector step of the trace machine (in the frame of the rows/columns
   the reflector acts on: n = length nu) *)
Theorem house_ok_exact_cvalid (beta : float) (nu : list float) :
  house_ok_tol (0, 0)%Z beta nu = true ->
  cvalid (length nu) (HStep (f2R beta) (map f2R nu)).
Proof.
  intro H. apply house_ok_tol_sound in H. cbn. destruct H as [H|H]; [left; exact H|right].
  assert (E : dR (0, 0)%Z = 0) by (unfold dR; cbn; lra). rewrite E in H.
  set (e := f2R beta * dot (length nu) (map f2R nu) (map f2R nu) - 2) in *.
  pose proof (Rabs_pos e) as Hp. assert (Z0 : Rabs e = 0) by lra.
  destruct (Req_dec e 0) as [E0|N0]; [unfold e in E0; lra|].
  exfalso. apply (Rabs_no_R0 _ N0). exact Z0.
Qed.

(* approximate case: (I - beta v v^T)^T (I - beta v v^T) = I + beta (beta v^T v - 2) v v^T, for ANY
   (beta, v): the Gram defect of the logged reflector is beta * (beta v^T v - 2) * v_i v_j *)
Theorem refl_gram_defect (n : nat) (beta : R) (v : list R) (i j : nat) :
  (i < n)%nat -> (j < n)%nat ->
  sum_n (fun k => refl beta v k i * refl beta v k j) n =
  delta i j + beta * (beta * dot n v v - 2) * (V v i * V v j).
Proof.
  intros Hi Hj. unfold refl.
  rewrite (sum_n_ext _ (fun k => delta i k * delta k j
                                 - beta * V v i * (delta k j * V v k)
                                 - beta * V v j * (delta k i * V v k)
                                 + beta * beta * V v i * V v j * (V v k * V v k))).
  2:{ intros k _. rewrite (delta_sym k i). ring. }
  rewrite sum_n_plus, !sum_n_minus.
  rewrite (sum_n_delta_l (fun k => delta k j) i n Hi).
  rewrite !sum_n_scal.
  rewrite (sum_n_ext (fun k => delta k j * V v k) (fun k => delta j k * V v k))
    by (intros k _; rewrite (delta_sym k j); reflexivity).
  rewrite (sum_n_ext (fun k => delta k i * V v k) (fun k => delta i k * V v k))
    by (intros k _; rewrite (delta_sym k i); reflexivity).
  rewrite (sum_n_delta_l (V v) j n Hj), (sum_n_delta_l (V v) i n Hi).
  unfold dot. ring.
Qed.
