(* C05 — householderTridiagonalization at HEAD: the guard `beta != 0` introduced by the
   fix 0e89154 is true exactly when a reflection is applied, i.e. when the part of the
   current column below the subdiagonal is not zero. *)
From Coq Require Import Reals List Lia Lra Bool.
From ADV Require Import Base.Num C05.Model C05.Spec C05.ProofsBase C05.ProofsHouse C05.ProofsHouse2.
Import ListNotations.
Open Scope R_scope.

Lemma house_beta_zero_iff (x0 : R) (xt : list R) :
  fst (house XR (x0 :: xt)) = 0 <-> (forall k, (k < length xt)%nat -> nth k xt 0 = 0).
Proof.
  set (sigma := sum_n (fun k => nth k xt 0 * nth k xt 0) (length xt)).
  destruct (Req_EM_T sigma 0) as [Hs|Hs].
  - destruct (house_sigma0 x0 xt Hs) as (Hh & _ & _). rewrite Hh. simpl. split; [|reflexivity].
    intros _ k Hk. apply (sum_sq_zero (fun k => nth k xt 0) (length xt)); assumption.
  - destruct (house_sigma_pos x0 xt Hs) as (Hh & Hpos). rewrite Hh. simpl.
    destruct (house_scalars x0 sigma Hpos) as (_ & H2 & _).
    split.
    + intro Hb. fold sigma in Hb. rewrite Hb in H2. lra.
    + intro Hz. exfalso. apply Hs. unfold sigma. apply sum_n_zero. intros k Hk. rewrite Hz by exact Hk. ring.
Qed.

(* the branch flag of tridiag2_step *)
Lemma tridiag2_reflects_iff (x0 : R) (xt : list R) :
  negb (eqb (nx XR) (fst (house XR (x0 :: xt))) (zero (nx XR))) = true <->
  exists k, (k < length xt)%nat /\ nth k xt 0 <> 0.
Proof.
  change (eqb (nx XR)) with Reqb. change (zero (nx XR)) with 0.
  rewrite negb_true_iff. split.
  - intro H. destruct (Classical_Prop.classic (exists k, (k < length xt)%nat /\ nth k xt 0 <> 0)) as [E|E]; [exact E|].
    exfalso. assert (Hb : fst (house XR (x0 :: xt)) = 0).
    { apply house_beta_zero_iff. intros k Hk. destruct (Req_EM_T (nth k xt 0) 0) as [Hz|Hz]; [exact Hz|].
      exfalso. apply E. exists k. split; assumption. }
    assert (Reqb (fst (house XR (x0 :: xt))) 0 = true) by (apply Reqb_true; exact Hb). congruence.
  - intros (k & Hk & Hnz). destruct (Reqb (fst (house XR (x0 :: xt))) 0) eqn:E; [|reflexivity].
    apply Reqb_true in E. exfalso. apply Hnz. apply (proj1 (house_beta_zero_iff x0 xt) E). exact Hk.
Qed.
