(* C05 — round 5: the two SVD chase routines of ModelIter.v over R.
     zero_row_sound : zero_row_spec    (zeroRow on a row with a zero diagonal entry)
     gk_sweep_sound : gk_sweep_spec    (one Golub-Kahan step on a decoupled block)
   Method: everything at the level of index functions.  A full Givens rotation of rows (columns)
   is the entry map rotL (rotR); the banded shortcuts coincide with the full rotations on the
   band patterns met during the chase (giv_rows_band / giv_cols_band); rotL = G^T . and
   rotR = . G (Gmat_col_apply), hence svd_left_invariant / svd_right_invariant apply. *)
From Coq Require Import Reals List Lia Lra Bool Arith.
From ADV Require Import Base.Num C05.Model C05.Spec C05.ProofsBase C05.ProofsGivens C05.ProofsHouse
                        C05.ProofsHouse2 C05.ProofsBlock C05.ProofsTrace C05.ProofsBand C05.Corr
                        C05.ModelIter C05.SpecIter.
Import ListNotations.
Open Scope R_scope.

(* ---------- out-of-range entries ---------- *)
Lemma G_out_row r c (M : rmat) a b : dims r c M -> (r <= a)%nat -> G M a b = 0.
Proof.
  intros (Hl & _) Ha. unfold G. rewrite (nth_overflow M []) by lia. destruct b; reflexivity.
Qed.

Lemma G_out_col r c (M : rmat) a b : dims r c M -> (c <= b)%nat -> G M a b = 0.
Proof.
  intros HM Hb. destruct (lt_dec a r) as [Ha|Ha].
  - unfold G. apply nth_overflow. rewrite (dims_row r c M a HM Ha). exact Hb.
  - apply (G_out_row r c); [exact HM|lia].
Qed.

(* ---------- rotations as entry maps ---------- *)
Definition rotL (c s : R) (i k : nat) (F : fmatR) : fmatR := fun a b =>
  if Nat.eqb a i then c * F i b - s * F k b
  else if Nat.eqb a k then c * F k b + s * F i b else F a b.
Definition rotR (c s : R) (i k : nat) (F : fmatR) : fmatR := fun a b =>
  if Nat.eqb b i then c * F a i - s * F a k
  else if Nat.eqb b k then c * F a k + s * F a i else F a b.

Ltac bd :=
  repeat match goal with
         | |- context [Nat.eqb ?x ?y] => destruct (Nat.eqb_spec x y); try lia
         | |- context [Nat.leb ?x ?y] => destruct (Nat.leb_spec x y); try lia
         | |- context [Nat.ltb ?x ?y] => destruct (Nat.ltb_spec x y); try lia
         end.

Lemma rotL_mmul m c s i k (F : fmatR) a b :
  i <> k -> (i < m)%nat -> (k < m)%nat -> (a < m)%nat ->
  mmul m (tr (Gmat c s i k)) F a b = rotL c s i k F a b.
Proof.
  intros Hik Hi Hk Ha. unfold mmul, tr.
  rewrite (Gmat_col_apply c s i k m (fun l => F l b) a Hik Hi Hk Ha).
  unfold rotL. bd; lra.
Qed.

Lemma rotR_mmul n c s i k (F : fmatR) a b :
  i <> k -> (i < n)%nat -> (k < n)%nat -> (b < n)%nat ->
  mmul n F (Gmat c s i k) a b = rotR c s i k F a b.
Proof.
  intros Hik Hi Hk Hb. unfold mmul.
  rewrite (sum_n_ext _ (fun l => Gmat c s i k l b * F a l)) by (intros; ring).
  rewrite (Gmat_col_apply c s i k n (fun l => F a l) b Hik Hi Hk Hb).
  unfold rotR. bd; lra.
Qed.

Lemma G_givens_left r cN (M : rmat) c s i k :
  dims r cN M -> i <> k -> (i < r)%nat -> (k < r)%nat ->
  dims r cN (givens_left XR M c s i k) /\
  forall a b, G (givens_left XR M c s i k) a b = rotL c s i k (G M) a b.
Proof.
  intros HM Hik Hi Hk.
  destruct (givens_left_is_Gt_mul r cN M c s i k HM Hik Hi Hk) as (D & E).
  split; [exact D|]. intros a b.
  destruct (lt_dec a r) as [Ha|Ha]; [destruct (lt_dec b cN) as [Hb|Hb]|].
  - rewrite (E a b Ha Hb). apply rotL_mmul; assumption.
  - rewrite (G_out_col r cN _ a b D) by lia. unfold rotL.
    rewrite !(G_out_col r cN M _ b HM) by lia. bd; ring.
  - rewrite (G_out_row r cN _ a b D) by lia. unfold rotL. bd.
    rewrite (G_out_row r cN M a b HM) by lia. reflexivity.
Qed.

Lemma G_givens_right r cN (M : rmat) c s i k :
  dims r cN M -> i <> k -> (i < cN)%nat -> (k < cN)%nat ->
  dims r cN (givens_right XR M c s i k) /\
  forall a b, G (givens_right XR M c s i k) a b = rotR c s i k (G M) a b.
Proof.
  intros HM Hik Hi Hk.
  destruct (givens_right_is_mul_G r cN M c s i k HM Hik Hi Hk) as (D & E).
  split; [exact D|]. intros a b.
  destruct (lt_dec a r) as [Ha|Ha]; [destruct (lt_dec b cN) as [Hb|Hb]|].
  - rewrite (E a b Ha Hb). apply rotR_mmul; assumption.
  - rewrite (G_out_col r cN _ a b D) by lia. unfold rotR. bd.
    rewrite (G_out_col r cN M a b HM) by lia. reflexivity.
  - rewrite (G_out_row r cN _ a b D) by lia. unfold rotR.
    rewrite !(G_out_row r cN M a _ HM) by lia. bd; ring.
Qed.

(* ---------- one left / right step keeps U B V^T and orthogonality ---------- *)
Lemma ubvt_ext m n (B1 U1 V1 B2 U2 V2 : fmatR) :
  meq m n B1 B2 -> meq m m U1 U2 -> meq n n V1 V2 ->
  meq m n (ubvt m n (mkSvd B1 U1 V1)) (ubvt m n (mkSvd B2 U2 V2)).
Proof. intros E1 E2 E3. apply ubvt_congr. split; [exact E1|split; [exact E2|exact E3]]. Qed.

Lemma ubv_left_step m n c s i k (FB FU FV FB' FU' : fmatR) :
  c * c + s * s = 1 -> i <> k -> (i < m)%nat -> (k < m)%nat ->
  (forall a b, FB' a b = rotL c s i k FB a b) ->
  (forall a b, FU' a b = rotR c s i k FU a b) ->
  meq m n (ubvt m n (mkSvd FB' FU' FV)) (ubvt m n (mkSvd FB FU FV)) /\
  (orth m FU -> orth m FU').
Proof.
  intros Hcs Hik Hi Hk EB EU.
  pose proof (Gmat_orth c s i k m Hcs Hik Hi Hk) as HQ.
  assert (E1 : meq m n FB' (mmul m (tr (Gmat c s i k)) FB)).
  { intros a b Ha Hb. rewrite EB. symmetry. apply rotL_mmul; assumption. }
  assert (E2 : meq m m FU' (mmul m FU (Gmat c s i k))).
  { intros a b Ha Hb. rewrite EU. symmetry. apply rotR_mmul; assumption. }
  split.
  - eapply meq_trans; [apply (ubvt_ext m n _ _ _ _ _ _ E1 E2 (meq_refl n n FV))|].
    exact (svd_left_invariant m n (Gmat c s i k) (mkSvd FB FU FV) HQ).
  - intro HU. apply (orth_meq m (mmul m FU (Gmat c s i k))); [apply meq_sym; exact E2|].
    apply orth_mmul; assumption.
Qed.

Lemma ubv_right_step m n c s i k (FB FU FV FB' FV' : fmatR) :
  c * c + s * s = 1 -> i <> k -> (i < n)%nat -> (k < n)%nat ->
  (forall a b, FB' a b = rotR c s i k FB a b) ->
  (forall a b, FV' a b = rotR c s i k FV a b) ->
  meq m n (ubvt m n (mkSvd FB' FU FV')) (ubvt m n (mkSvd FB FU FV)) /\
  (orth n FV -> orth n FV').
Proof.
  intros Hcs Hik Hi Hk EB EV.
  pose proof (Gmat_orth c s i k n Hcs Hik Hi Hk) as HQ.
  assert (E1 : meq m n FB' (mmul n FB (Gmat c s i k))).
  { intros a b Ha Hb. rewrite EB. symmetry. apply rotR_mmul; assumption. }
  assert (E2 : meq n n FV' (mmul n FV (Gmat c s i k))).
  { intros a b Ha Hb. rewrite EV. symmetry. apply rotR_mmul; assumption. }
  split.
  - eapply meq_trans; [apply (ubvt_ext m n _ _ _ _ _ _ E1 (meq_refl m m FU) E2)|].
    exact (svd_right_invariant m n (Gmat c s i k) (mkSvd FB FU FV) HQ).
  - intro HV. apply (orth_meq n (mmul n FV (Gmat c s i k))); [apply meq_sym; exact E2|].
    apply orth_mmul; assumption.
Qed.

Lemma givens_unit' (a b : R) : fst (givens XR a b) * fst (givens XR a b) + snd (givens XR a b) * snd (givens XR a b) = 1.
Proof. exact (givens_unit a b). Qed.

Lemma givens_zero' (a b : R) : fst (givens XR a b) * b + snd (givens XR a b) * a = 0.
Proof. exact (givens_zeroes a b). Qed.

(* ---------- set2 ---------- *)
Lemma G_set2 r cN (M : rmat) i j (x : R) :
  dims r cN M -> (i < r)%nat -> (j < cN)%nat ->
  dims r cN (set2 M i j x) /\
  forall a b, G (set2 M i j x) a b = if (Nat.eqb a i && Nat.eqb b j)%bool then x else G M a b.
Proof.
  intros HM Hi Hj. pose proof (dims_row r cN M i HM Hi) as Hli.
  destruct HM as (Hl & Hr). unfold set2. split.
  - split.
    + rewrite length_set_nth. exact Hl.
    + intros row Hin. apply In_set_nth in Hin. destruct Hin as [E|Hin]; [|apply Hr; exact Hin].
      subst row. rewrite length_set_nth. exact Hli.
  - intros a b. unfold G.
    destruct (Nat.eqb_spec a i) as [Ea|Na]; cbn [andb].
    + subst a. rewrite nth_set_nth_eq by lia.
      destruct (Nat.eqb_spec b j) as [Eb|Nb].
      * subst b. apply nth_set_nth_eq. lia.
      * apply nth_set_nth_neq. exact Nb.
    + rewrite nth_set_nth_neq by exact Na. reflexivity.
Qed.

(* ================================================================== *)
(* zeroRow *)
Section ZeroRow.
Variables (m n k : nat) (B0 U0 V : rmat).
Hypothesis Hnm : (n <= m)%nat.
Hypothesis Hk : (k < n)%nat.

(* before step i: rows other than k upper bidiagonal, row k zero except at column i *)
Definition zr_inv (i : nat) (B U : rmat) : Prop :=
  dims n n B /\ dims m m U /\
  (forall a b, a <> k -> (b < a)%nat \/ (a + 1 < b)%nat -> G B a b = 0) /\
  (forall b, b <> i -> G B k b = 0) /\
  (forall a b, (a < k)%nat -> G B a b = G B0 a b) /\
  (forall a, (k < a)%nat -> G B0 a (S a) = 0 -> G B a (S a) = 0) /\
  meq m n (ubv m n B U V) (ubv m n B0 U0 V) /\
  (orth m (G U0) -> orth m (G U)).

Lemma zero_row_step i B U :
  (k < i)%nat -> (i < n)%nat -> zr_inv i B U ->
  exists B1 U1, zero_row_at XR k (B, Some U, Some V) i = (B1, Some U1, Some V) /\ zr_inv (S i) B1 U1.
Proof.
  intros Hki Hin (DB & DU & Pb & Pk & Plt & Psd & Pubv & Porth).
  unfold zero_row_at. cbn [opt_right].
  change (get XR B i i) with (G B i i). change (get XR B k i) with (G B k i).
  change (zero (nx XR)) with 0.
  set (c := fst (givens XR (G B i i) (G B k i))). set (s := snd (givens XR (G B i i) (G B k i))).
  assert (Hcs : c * c + s * s = 1) by apply givens_unit'.
  assert (Hz : c * G B k i + s * G B i i = 0) by apply givens_zero'.
  assert (Eband : giv_rows XR (bidiag_left_sel (ncols B) i k) B c s i k = givens_left XR B c s i k).
  { apply (giv_rows_band n n); try assumption; try lia.
    intros j Hj Es. unfold bidiag_left_sel in Es.
    destruct (Nat.eqb_spec j i) as [E1|E1]; [discriminate|].
    destruct (Nat.eqb_spec j k) as [E2|E2]; [discriminate|].
    destruct (Nat.eqb_spec j (i + 1)) as [E3|E3]; [discriminate|].
    split; [apply Pb; lia|apply Pk; lia]. }
  rewrite Eband.
  destruct (G_givens_left n n B c s i k DB ltac:(lia) Hin Hk) as (D1 & E1).
  destruct (G_set2 n n (givens_left XR B c s i k) k i 0 D1 Hk Hin) as (D2 & E2).
  destruct (G_givens_right m m U c s i k DU ltac:(lia) ltac:(lia) ltac:(lia)) as (D3 & E3).
  set (B1 := set2 (givens_left XR B c s i k) k i 0) in *.
  assert (EB : forall a b, G B1 a b = rotL c s i k (G B) a b).
  { intros a b. rewrite E2.
    destruct (Nat.eqb_spec a k) as [Ea|Na]; cbn [andb]; [|apply E1].
    destruct (Nat.eqb_spec b i) as [Eb|Nb]; [|apply E1].
    subst a b. unfold rotL. bd. lra. }
  exists B1, (givens_right XR U c s i k). split; [reflexivity|].
  destruct (ubv_left_step m n c s i k (G B) (G U) (G V) (G B1) (G (givens_right XR U c s i k))
              Hcs ltac:(lia) ltac:(lia) ltac:(lia) EB E3) as (S1 & S2).
  split; [exact D2|]. split; [exact D3|].
  split; [|split; [|split; [|split; [|split]]]].
  - intros a b Hak Hab. rewrite EB. unfold rotL. bd.
    + subst a. rewrite (Pb i b) by lia. rewrite (Pk b) by lia. ring.
    + apply Pb; assumption.
  - intros b Hb. rewrite EB. unfold rotL. bd.
    destruct (Nat.eq_dec b i) as [->|Nbi]; [exact Hz|].
    rewrite (Pk b Nbi). rewrite (Pb i b) by lia. ring.
  - intros a b Ha. rewrite EB. unfold rotL. bd. apply Plt. exact Ha.
  - intros a Ha H0. rewrite EB. unfold rotL. bd.
    + subst a. rewrite (Psd i Ha H0). rewrite (Pk (S i)) by lia. ring.
    + apply Psd; assumption.
  - eapply meq_trans; [exact S1|exact Pubv].
  - intro HU. apply S2. apply Porth. exact HU.
Qed.

Lemma zero_row_steps : forall len i B U,
  (i + len = n)%nat -> (k < i)%nat -> zr_inv i B U ->
  exists B1 U1, fold_left (zero_row_at XR k) (seq i len) (B, Some U, Some V) = (B1, Some U1, Some V) /\
                zr_inv n B1 U1.
Proof.
  induction len as [|len IH]; intros i B U Hlen Hki Hinv.
  - exists B, U. split; [reflexivity|]. replace n with i by lia. exact Hinv.
  - destruct (zero_row_step i B U Hki ltac:(lia) Hinv) as (B1 & U1 & E1 & I1).
    cbn [seq fold_left]. rewrite E1. apply IH; [lia|lia|exact I1].
Qed.
End ZeroRow.

Theorem zero_row_sound : zero_row_spec.
Proof.
  intros m n k B U V DB Hbi DU DV Hnm Hk Hkk.
  assert (I0 : zr_inv m n k B U V (S k) B U).
  { split; [exact DB|]. split; [exact DU|].
    split; [intros a b _ Hab; apply Hbi; exact Hab|].
    split; [|split; [reflexivity|split; [auto|split; [apply meq_refl|auto]]]].
    intros b Hb. destruct (Nat.eq_dec b k) as [->|Nk]; [exact Hkk|]. apply Hbi. lia. }
  destruct (zero_row_steps m n k B U V Hnm Hk (n - S k) (S k) B U ltac:(lia) ltac:(lia) I0)
    as (B1 & U1 & E & (D1 & D2 & Pb & Pk & Plt & Psd & Pubv & Porth)).
  exists B1, U1. unfold zero_row. split; [exact E|].
  assert (Hrow : forall j, G B1 k j = 0).
  { intro j. destruct (Nat.eq_dec j n) as [->|Nj]; [apply (G_out_col n n); [exact D1|lia]|].
    apply Pk. exact Nj. }
  split; [exact D1|]. split.
  { intros a b Hab. destruct (Nat.eq_dec a k) as [->|Na]; [apply Hrow|]. apply Pb; assumption. }
  split; [exact D2|]. split; [exact Hrow|]. split; [exact Plt|]. split; [exact Psd|].
  split; [exact Pubv|exact Porth].
Qed.

(* ================================================================== *)
(* Golub-Kahan step *)
Lemma get_G (M : rmat) a b : get XR M a b = G M a b.
Proof. reflexivity. Qed.

Section GK.
Variables (m n p nn : nat) (B0 U0 V0 : rmat).
Hypothesis Hnm : (n <= m)%nat.
Hypothesis Hfit : (p + nn <= n)%nat.
Hypothesis DB0 : dims n n B0.
(* the block columns (rows) of B0 vanish outside the block rows (columns) *)
Hypothesis Hcol : forall j a, (j < nn)%nat -> (a < p)%nat \/ (p + nn <= a)%nat -> G B0 a (p + j) = 0.
Hypothesis Hrow : forall j b, (j < nn)%nat -> (b < p)%nat \/ (p + nn <= b)%nat -> G B0 (p + j) b = 0.

(* the full matrix with the block replaced, as an index function *)
Definition PB (Bb : rmat) : fmatR := fun a b =>
  if (Nat.leb p a && Nat.ltb a (p + nn) && Nat.leb p b && Nat.ltb b (p + nn))%bool
  then G Bb (a - p) (b - p) else G B0 a b.

Lemma PB_put (Bb : rmat) : dims nn nn Bb -> forall a b, G (put_block B0 p p Bb) a b = PB Bb a b.
Proof.
  intros DBb a b. destruct (lt_dec a n) as [Ha|Ha].
  - rewrite (put_block_G n n B0 Bb nn nn p p a b DB0 DBb Hfit Hfit Ha). reflexivity.
  - rewrite (G_out_row n n _ a b (put_block_dims n n B0 Bb nn nn p p DB0 DBb Hfit Hfit)) by lia.
    unfold PB. bd; cbn [andb]; symmetry; apply (G_out_row n n); solve [exact DB0|lia].
Qed.

Lemma PB_rotR (Bb : rmat) c s i k :
  dims nn nn Bb -> i <> k -> (i < nn)%nat -> (k < nn)%nat ->
  forall a b, PB (givens_right XR Bb c s i k) a b = rotR c s (p + i) (p + k) (PB Bb) a b.
Proof.
  intros DBb Hik Hi Hk a b.
  destruct (G_givens_right nn nn Bb c s i k DBb Hik Hi Hk) as (_ & E).
  pose proof (Hcol i a Hi) as Zi. pose proof (Hcol k a Hk) as Zk.
  unfold rotR, PB. rewrite !E. unfold rotR.
  replace (p + i - p)%nat with i by lia. replace (p + k - p)%nat with k by lia.
  bd; cbn [andb]; try reflexivity;
    try (subst b; rewrite Zi, Zk by lia; ring).
Qed.

Lemma PB_rotL (Bb : rmat) c s i k :
  dims nn nn Bb -> i <> k -> (i < nn)%nat -> (k < nn)%nat ->
  forall a b, PB (givens_left XR Bb c s i k) a b = rotL c s (p + i) (p + k) (PB Bb) a b.
Proof.
  intros DBb Hik Hi Hk a b.
  destruct (G_givens_left nn nn Bb c s i k DBb Hik Hi Hk) as (_ & E).
  pose proof (Hrow i b Hi) as Zi. pose proof (Hrow k b Hk) as Zk.
  unfold rotL, PB. rewrite !E. unfold rotL.
  replace (p + i - p)%nat with i by lia. replace (p + k - p)%nat with k by lia.
  bd; cbn [andb]; try reflexivity;
    try (subst a; rewrite Zi, Zk by lia; ring).
Qed.

Hypothesis Hnn : (2 <= nn)%nat.

(* before iteration k: Bb is upper bidiagonal except for the bulge (k-1, k+1), which is the
   pending pair's second component *)
Definition gk_inv (k : nat) (Bb U V : rmat) (yz : R * R) : Prop :=
  dims nn nn Bb /\ dims m m U /\ dims n n V /\
  (forall a b, (b < a)%nat \/ (a + 1 < b)%nat -> ~ (S a = k /\ b = S k) -> G Bb a b = 0) /\
  (forall k', k = S k' -> (S k < nn)%nat -> yz = (G Bb k' k, G Bb k' (S k))) /\
  meq m n (ubvt m n (mkSvd (PB Bb) (G U) (G V))) (ubv m n B0 U0 V0) /\
  (orth m (G U0) -> orth m (G U)) /\ (orth n (G V0) -> orth n (G V)).

Lemma gk_rot_step k Bb U V yz :
  (S k < nn)%nat -> gk_inv k Bb U V yz ->
  exists Bb' U' V' yz',
    gk_rot XR p nn k ((Bb, Some U, Some V), yz) = ((Bb', Some U', Some V'), yz') /\
    gk_inv (S k) Bb' U' V' yz'.
Proof.
  intros Hk (DBb & DU & DV & Pat & Pyz & Pubv & PoU & PoV).
  unfold gk_rot. cbv beta iota zeta. cbn [opt_right]. change (get XR) with G.
  set (c := fst (givens XR (fst yz) (snd yz))). set (s := snd (givens XR (fst yz) (snd yz))).
  assert (Hcs : c * c + s * s = 1) by apply givens_unit'.
  assert (Eb1 : giv_cols XR (bidiag_right_sel k (S k)) Bb c s k (S k) = givens_right XR Bb c s k (S k)).
  { apply (giv_cols_band nn nn); [exact DBb|].
    intros j Hj Es. unfold bidiag_right_sel in Es.
    destruct (Nat.eqb_spec j k) as [E1|E1]; [discriminate|].
    destruct (Nat.eqb_spec j (S k)) as [E2|E2]; [discriminate|].
    destruct (Nat.eqb_spec (j + 1) k) as [E3|E3]; [discriminate|].
    split; apply Pat; lia. }
  rewrite !Eb1.
  destruct (G_givens_right nn nn Bb c s k (S k) DBb ltac:(lia) ltac:(lia) Hk) as (D1 & E1).
  set (B1 := givens_right XR Bb c s k (S k)) in *.
  (* pattern after the right rotation: upper bidiagonal + bulge (k+1, k) *)
  assert (Pat1 : forall a b, (b < a)%nat \/ (a + 1 < b)%nat -> ~ (a = S k /\ b = k) -> G B1 a b = 0).
  { intros a b Hab Hnb. rewrite E1. unfold rotR. bd.
    - subst b. rewrite (Pat a k), (Pat a (S k)) by lia. ring.
    - subst b. destruct (Nat.eq_dec (S a) k) as [Eak|Nak].
      + destruct k as [|k']; [lia|]. assert (a = k') by lia. subst a.
        pose proof (givens_zero' (fst yz) (snd yz)) as Hz. fold c s in Hz.
        rewrite (Pyz k' eq_refl Hk) in Hz. cbn [fst snd] in Hz. exact Hz.
      + rewrite (Pat a k), (Pat a (S k)) by lia. ring.
    - apply Pat; lia. }
  set (c2 := fst (givens XR (G B1 k k) (G B1 (S k) k))).
  set (s2 := snd (givens XR (G B1 k k) (G B1 (S k) k))).
  assert (Hcs2 : c2 * c2 + s2 * s2 = 1) by apply givens_unit'.
  assert (Hz2 : c2 * G B1 (S k) k + s2 * G B1 k k = 0) by apply givens_zero'.
  assert (Eb2 : giv_rows XR (bidiag_left_sel (ncols B1) k (S k)) B1 c2 s2 k (S k) = givens_left XR B1 c2 s2 k (S k)).
  { apply (giv_rows_band nn nn); try assumption; try lia.
    intros j Hj Es. unfold bidiag_left_sel in Es.
    destruct (Nat.eqb_spec j k) as [F1|F1]; [discriminate|].
    destruct (Nat.eqb_spec j (S k)) as [F2|F2]; [discriminate|].
    destruct (Nat.eqb_spec j (S k + 1)) as [F3|F3];
      [rewrite orb_true_r in Es; cbn in Es; try discriminate|].
    split; apply Pat1; lia. }
  rewrite !Eb2.
  destruct (G_givens_left nn nn B1 c2 s2 k (S k) D1 ltac:(lia) ltac:(lia) Hk) as (D2 & E2).
  set (B2 := givens_left XR B1 c2 s2 k (S k)) in *.
  destruct (G_givens_right n n V c s (p + k) (p + S k) DV ltac:(lia) ltac:(lia) ltac:(lia)) as (DV1 & EV1).
  destruct (G_givens_right m m U c2 s2 (p + k) (p + S k) DU ltac:(lia) ltac:(lia) ltac:(lia)) as (DU1 & EU1).
  eexists B2, _, _, _. split; [reflexivity|].
  destruct (ubv_right_step m n c s (p + k) (p + S k) (PB Bb) (G U) (G V) (PB B1) _
              Hcs ltac:(lia) ltac:(lia) ltac:(lia)
              (PB_rotR Bb c s k (S k) DBb ltac:(lia) ltac:(lia) Hk) EV1) as (R1 & R2).
  destruct (ubv_left_step m n c2 s2 (p + k) (p + S k) (PB B1) (G U) (G (givens_right XR V c s (p + k) (p + S k))) (PB B2) _
              Hcs2 ltac:(lia) ltac:(lia) ltac:(lia)
              (PB_rotL B1 c2 s2 k (S k) D1 ltac:(lia) ltac:(lia) Hk) EU1) as (L1 & L2).
  split; [exact D2|]. split; [exact DU1|]. split; [exact DV1|].
  split; [|split; [|split; [|split]]].
  - intros a b Hab Hnb. rewrite E2. unfold rotL. bd.
    + subst a. rewrite (Pat1 k b), (Pat1 (S k) b) by lia. ring.
    + subst a. destruct (Nat.eq_dec b k) as [->|Nbk]; [exact Hz2|].
      rewrite (Pat1 k b), (Pat1 (S k) b) by lia. ring.
    + apply Pat1; lia.
  - intros k' Ek' Hlt. assert (k' = k) by lia. subst k'.
    destruct (Nat.ltb_spec k (nn - 2)); [reflexivity|lia].
  - eapply meq_trans; [exact L1|]. eapply meq_trans; [exact R1|exact Pubv].
  - intro HU. apply L2. apply PoU. exact HU.
  - intro HV. apply R2. apply PoV. exact HV.
Qed.

Lemma gk_steps : forall cnt k Bb U V yz,
  (k + cnt = nn - 1)%nat -> gk_inv k Bb U V yz ->
  exists Bb' U' V' yz',
    iter_steps (gk_rot XR p nn) k cnt ((Bb, Some U, Some V), yz) = ((Bb', Some U', Some V'), yz') /\
    gk_inv (nn - 1) Bb' U' V' yz'.
Proof.
  induction cnt as [|cnt IH]; intros k Bb U V yz Hc Hinv.
  - exists Bb, U, V, yz. split; [reflexivity|]. replace (nn - 1)%nat with k by lia. exact Hinv.
  - destruct (gk_rot_step k Bb U V yz ltac:(lia) Hinv) as (Bb1 & U1 & V1 & yz1 & E1 & I1).
    cbn [iter_steps]. rewrite E1. apply IH; [lia|exact I1].
Qed.
End GK.

Theorem gk_sweep_sound : gk_sweep_spec.
Proof.
  intros m n p nn B U V DB Hbi DU DV Hnm Hfit Hnn Hd1 Hd2.
  assert (Hcol : forall j a, (j < nn)%nat -> (a < p)%nat \/ (p + nn <= a)%nat -> G B a (p + j) = 0).
  { intros j a Hj Ha. destruct (lt_dec a p) as [Hap|Hap].
    - destruct (Nat.eq_dec (a + 1) (p + j)) as [E|E].
      + replace a with (p - 1)%nat by lia. replace (p + j)%nat with p by lia. apply Hd1. lia.
      + apply Hbi. lia.
    - apply Hbi. lia. }
  assert (Hrow : forall j b, (j < nn)%nat -> (b < p)%nat \/ (p + nn <= b)%nat -> G B (p + j) b = 0).
  { intros j b Hj Hb. destruct (lt_dec b p) as [Hbp|Hbp]; [apply Hbi; lia|].
    destruct (Nat.eq_dec b (p + nn)) as [E|E]; [|apply Hbi; lia].
    destruct (Nat.eq_dec (S j) nn) as [Ej|Ej]; [|apply Hbi; lia].
    destruct (lt_dec (p + nn) n) as [Hlt|Hlt].
    - replace (p + j)%nat with (p + nn - 1)%nat by lia. subst b. apply Hd2. exact Hlt.
    - apply (G_out_col n n); [exact DB|lia]. }
  set (Bb := block B p (p + nn) p (p + nn)).
  assert (DBb : dims nn nn Bb).
  { pose proof (block_dims n n B p (p + nn) p (p + nn) DB ltac:(lia) ltac:(lia)) as D.
    replace (p + nn - p)%nat with nn in D by lia. exact D. }
  assert (EBb : forall a b, (a < nn)%nat -> (b < nn)%nat -> G Bb a b = G B (p + a) (p + b)).
  { intros a b Ha Hb. apply (block_G n n); try assumption; lia. }
  assert (EPB : forall a b, PB p nn B Bb a b = G B a b).
  { intros a b. unfold PB. bd; cbn [andb]; try reflexivity.
    rewrite EBb by lia. f_equal; lia. }
  unfold gk_sweep, compute_square. cbv beta iota zeta.
  match goal with |- context [iter_steps _ 0 (nn - 1) (_, ?yz0)] => set (yz := yz0) end.
  assert (I0 : gk_inv m n p nn B U V 0 Bb U V yz).
  { split; [exact DBb|]. split; [exact DU|]. split; [exact DV|].
    split; [|split; [|split; [|split; auto]]].
    - intros a b Hab _. destruct (lt_dec a nn) as [Ha|Ha]; [destruct (lt_dec b nn) as [Hb|Hb]|].
      + rewrite EBb by assumption. apply Hbi. lia.
      + apply (G_out_col nn nn); [exact DBb|lia].
      + apply (G_out_row nn nn); [exact DBb|lia].
    - intros k' Hk'. discriminate.
    - unfold ubv. apply ubvt_ext; [|apply meq_refl|apply meq_refl].
      intros a b _ _. apply EPB. }
  destruct (gk_steps m n p nn B U V Hnm Hfit Hcol Hrow Hnn (nn - 1)%nat 0%nat Bb U V yz ltac:(lia) I0)
    as (Bb' & U' & V' & yz' & E & (D1 & D2 & D3 & Pat & _ & Pubv & PoU & PoV)).
  exists Bb', U', V'. split; [exact (f_equal fst E)|].
  assert (EP : forall a b, G (put_block B p p Bb') a b = PB p nn B Bb' a b)
    by exact (PB_put m n p nn B Hnm Hfit DB Bb' D1).
  assert (Pat' : forall a b, (b < a)%nat \/ (a + 1 < b)%nat -> G Bb' a b = 0).
  { intros a b Hab. destruct (lt_dec b nn) as [Hb|Hb]; [apply Pat; [exact Hab|lia]|].
    apply (G_out_col nn nn); [exact D1|lia]. }
  split; [apply (put_block_dims n n B Bb' nn nn); assumption|].
  split.
  { intros a b Hab. rewrite EP. unfold PB. bd; cbn [andb]; try (apply Hbi; exact Hab).
    apply Pat'. lia. }
  split; [exact D2|]. split; [exact D3|].
  split.
  { intros a b Hab. rewrite EP. unfold PB. bd; cbn [andb]; reflexivity. }
  split; [|split; [exact PoU|exact PoV]].
  eapply meq_trans; [|exact Pubv]. unfold ubv. apply ubvt_ext; [|apply meq_refl|apply meq_refl].
  intros a b _ _. apply EP.
Qed.
