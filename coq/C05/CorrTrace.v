(* C05 — tie of the trace machine (Props.v section 8) to the Go iteration.

   The iterative routines are loops around the exported primitives givensRotation.Run /
   Apply* and householder.Run / Apply*.  The harness (harness/c05/trace.go) re-implements the
   control skeleton of a routine in lock-step, calling the same primitives of /repo, logs every
   step and requires its final factors to be bit-equal to what the library's Run returned.

   This file decides one logged run ([tcase]) inside Coq:
     1. REPLAY: starting from the input A, the float model of the direct reduction
        (tridiag2 at NumXF) and then, step by step, the float models of the primitives
        (givens, giv_rows / giv_cols with the banded index sets of Corr.giv_variant, on the
        block the routine works on) are applied; the result must equal the library's final
        factors (T, Z) bit for bit.
     2. Every logged rotation pair (c, s) is RECOMPUTED from the replayed state (Wilkinson
        shift for the first rotation of a sweep, the bulge entries afterwards) with the model
        of givensRotation.Run and compared bit for bit.
     3. EXACT side conditions, evaluated on the dyadic value of the logged floats
        (integer arithmetic, no rounding): |c^2 + s^2 - 1| <= 8u (u = 2^-53) for every
        rotation — the hypothesis c^2+s^2 = 1 of [cvalid] up to rounding, see
        ProofsTraceTie.v — and for every deflation |t21| <= eps (|t11| + |t22|) (1 + 4u)
        with eps the literal 1e-18 of qrAlgorithm.Run: the entry that was set to zero was
        negligible (the float test as coded is replayed as well).
   The same is done for the Golub-Kahan SVD (svd.go): replay from bidiag2, the right / left
   rotations of a Golub-Kahan step on the block [p..p+nn) (shift from B^T B as coded), the
   row-zeroing rotations of zeroRow, the deflation of super-diagonal entries (literal
   1.11e-16) and the final sign flips.
   And for the unsymmetric QR algorithm (qrAlgorithm.go): replay from hessenberg (SetZero), the
   reflectors of every Francis double-shift step (the first vector from the shift polynomial
   as coded, the following ones from the bulge; householder.Run is recomputed and compared
   bit for bit, (beta, nu) is checked exactly: beta = 0 or |beta nu^T nu - 2| <= (16 + 4 len) u),
   the single-shift QRstep on the remaining real 2x2 blocks and the deflations.
   No proofs in this file. *)
From Coq Require Import String List ZArith Bool Floats.
From ADV Require Import Base.Num Base.Corr C05.Model C05.Corr C05.Resid.
Import ListNotations.

(* ---------- exact value of a finite float: m * 2^e ---------- *)
Definition f2dy (x : float) : option dy :=
  match Prim2SF x with
  | S754_zero _ => Some (0, 0)%Z
  | S754_finite s m e => Some ((if s then Zneg m else Zpos m), e)
  | _ => None
  end.

Definition u8 : dy := (1, -50)%Z.                 (* 8u = 2^-50 *)

(* |c^2 + s^2 - 1| <= tol, exactly *)
Definition unit_err (c s : float) : option dy :=
  match f2dy c, f2dy s with
  | Some dc, Some ds => Some (dabs (dsub (dadd (dmul dc dc) (dmul ds ds)) done))
  | _, _ => None
  end.
Definition rot_ok_tol (tol : dy) (c s : float) : bool :=
  match unit_err c s with Some e => dle e tol | None => false end.
Definition rot_ok : float -> float -> bool := rot_ok_tol u8.

(* the literal epsilon = 1e-18 of qrAlgorithm.Run *)
Definition eps_qr : float := 0x1.2725dd1d243acp-60%float.

(* |t21| <= eps * (|t11| + |t22|) * (1 + 2^-51), exactly: the float test rounds the right
   hand side twice (relative error < 2u + u^2 each way), nothing else *)
Definition defl_small (t11 t21 t22 : float) : bool :=
  match f2dy t11, f2dy t21, f2dy t22, f2dy eps_qr with
  | Some a, Some b, Some c, Some e =>
      dle (dabs b) (dmul (dmul e (dadd (dabs a) (dabs c))) (dadd done (1, -51)%Z))
  | _, _, _, _ => false
  end.

(* ---------- steps ---------- *)
Inductive tstep :=
| SDefl (i : nat)                       (* T[i+1,i] := 0 ; T[i,i+1] := 0 *)
| SRot (p nn k : nat) (c s : float)     (* rotation of rows/columns k, k+1 of the block T[p..p+nn) *)
(* SVD *)
| BDefl (i : nat)                       (* B[i,i+1] := 0 *)
| BRotR (p nn k : nat) (c s : float)    (* columns k, k+1 of the block B[p..p+nn), V columns p+k, p+k+1 *)
| BRotL (p nn k : nat) (c s : float)    (* rows k, k+1 of the block, U columns p+k, p+k+1 *)
| BZRow (k i : nat) (c s : float)       (* zeroRow: rows i, k of B, U columns i, k; then B[k,i] := 0 *)
| BFlip (i : nat)                       (* B[i,i] < 0: negate it and column i of V *)
(* unsymmetric QR *)
| FDefl (i : nat)                       (* H[i+1,i] := 0 *)
| FHouse (p nn k : nat) (beta : float) (nu : list float)
                                        (* reflector k of a Francis step on the block H[p..p+nn);
                                           k = nn-2 is the closing reflector of length 2 *)
| FQ2 (i : nat) (c s : float).          (* QRstep on the 2x2 block at i (shift H[i+1,i+1]) *)

Inductive tcase :=
| TFail (why : string)
| TSymQR (cu : bool) (A : fmat) (steps : list tstep) (T : fmat) (Z : option fmat)
| TSvd (cu cv : bool) (A : fmat) (steps : list tstep) (H : fmat) (U V : option fmat)
| TFrancis (cu : bool) (A : fmat) (steps : list tstep) (H : fmat) (U : option fmat).

Local Notation N := (nx X).

(* wilkinsonShift of qrAlgorithm_symmetric.go, operation by operation *)
Definition wilkinson (t11 t12 t22 : float) : float :=
  let d := div N (sub N t11 t22) (add N (one N) (one N)) in
  let t := mul N t12 t12 in
  let mu := gsqrt X (add N (mul N d d) t) in
  let mu := if ltb N d (zero N) then neg N mu else mu in
  let mu := add N d mu in
  let mu := div N t mu in
  sub N t22 mu.

Definition set2 (M : fmat) (i j : nat) (x : float) : fmat :=
  set_nth M i (set_nth (nth i M []) j x).

(* state: Some (T, Z) or None = a step check failed *)
Definition sym_step (n : nat) (st : option (fmat * option fmat)) (t : tstep) : option (fmat * option fmat) :=
  match st with
  | None => None
  | Some (T, Z) =>
    match t with
    | SDefl i =>
        let t11 := get X T i i in let t21 := get X T (S i) i in let t22 := get X T (S i) (S i) in
        if Nat.ltb (S i) n &&
           leb N (nabs N t21) (mul N eps_qr (add N (nabs N t11) (nabs N t22))) &&
           defl_small t11 t21 t22
        then Some (set2 (set2 T (S i) i (zero N)) i (S i) (zero N), Z)
        else None
    | SRot p nn k c s =>
        if Nat.leb (p + nn) n && Nat.ltb (S k) nn then
          let Tb := block T p (p + nn) p (p + nn) in
          let yz :=
            match k with
            | O => (sub N (get X Tb 0 0)
                          (wilkinson (get X Tb (nn - 2) (nn - 2)) (get X Tb (nn - 2) (nn - 1)) (get X Tb (nn - 1) (nn - 1))),
                    get X Tb 1 0)
            | S k' => (get X Tb k k', get X Tb (S k) k')
            end in
          let cs := givens X (fst yz) (snd yz) in
          if feqb (fst cs) c && feqb (snd cs) s && rot_ok c s then
            let Tb1 := giv_variant 7 Tb c s k (S k) in          (* ApplyTridiagRight *)
            let Tb2 := giv_variant 6 Tb1 c s k (S k) in         (* ApplyTridiagLeft *)
            Some (put_block T p p Tb2,
                  match Z with
                  | None => None
                  | Some Zm => Some (givens_right X Zm c s (p + k) (p + S k))
                  end)
          else None
        else None
    | _ => None
    end
  end.

Definition sym_replay (cu : bool) (A : fmat) (steps : list tstep) : option (fmat * option fmat) :=
  fold_left (sym_step (length A)) steps (Some (tridiag2 X cu A)).

(* ---------- Golub-Kahan SVD ---------- *)
(* the literal epsilon = 1.11e-16 of svd.Run *)
Definition eps_svd : float := 0x1.ffe5ab7e8ad5ep-54%float.

Definition small_rel (e : float) (t11 t21 t22 : float) : bool :=
  match f2dy t11, f2dy t21, f2dy t22, f2dy e with
  | Some a, Some b, Some c, Some e =>
      dle (dabs b) (dmul (dmul e (dadd (dabs a) (dabs c))) (dadd done (1, -51)%Z))
  | _, _, _, _ => false
  end.

(* |x| <= 16u (|y| + |z|), exactly: the entry zeroRow overwrites with 0 after its rotation *)
Definition zrow_small (x y z : float) : bool :=
  match f2dy x, f2dy y, f2dy z with
  | Some a, Some b, Some c => dle (dabs a) (dscale2 (dadd (dabs b) (dabs c)) (-49))
  | _, _, _ => false
  end.

(* computeSquare(B, i): (t11, t12, t22) = (b11^2, b11 b12, b12^2 + b22^2) *)
Definition compute_square (Bm : fmat) (i : nat) : float * float * float :=
  let b11 := get X Bm i i in let b12 := get X Bm i (S i) in let b22 := get X Bm (S i) (S i) in
  (mul N b11 b11, mul N b11 b12, add N (mul N b12 b12) (mul N b22 b22)).

Definition opt_right (M : option fmat) (c s : float) (i k : nat) : option fmat :=
  match M with None => None | Some Mm => Some (givens_right X Mm c s i k) end.

Definition negcol (M : fmat) (i : nat) : fmat :=
  map (fun row => set_nth row i (neg N (nth i row (zero N)))) M.

Definition svd_st := (fmat * option fmat * option fmat)%type.

Definition svd_step1 (n : nat) (st : option svd_st) (t : tstep) : option svd_st :=
  match st with
  | None => None
  | Some (Bm, U, V) =>
    match t with
    | BDefl i =>
        let b11 := get X Bm i i in let b12 := get X Bm i (S i) in let b22 := get X Bm (S i) (S i) in
        if Nat.ltb (S i) n &&
           leb N (nabs N b12) (mul N eps_svd (add N (nabs N b11) (nabs N b22))) &&
           small_rel eps_svd b11 b12 b22
        then Some (set2 Bm i (S i) (zero N), U, V) else None
    | BRotR p nn k c s =>
        if Nat.leb (p + nn) n && Nat.ltb (S k) nn then
          let Bb := block Bm p (p + nn) p (p + nn) in
          let yz :=
            match k with
            | O => let '(t11, t12, t22) := compute_square Bb (nn - 2) in
                   let mu := wilkinson t11 t12 t22 in
                   let '(s11, s12, _) := compute_square Bb 0 in
                   (sub N s11 mu, s12)
            | S k' => (get X Bb k' k, get X Bb k' (S k))
            end in
          let cs := givens X (fst yz) (snd yz) in
          if feqb (fst cs) c && feqb (snd cs) s && rot_ok c s then
            Some (put_block Bm p p (giv_variant 5 Bb c s k (S k)), U, opt_right V c s (p + k) (p + S k))
          else None
        else None
    | BRotL p nn k c s =>
        if Nat.leb (p + nn) n && Nat.ltb (S k) nn then
          let Bb := block Bm p (p + nn) p (p + nn) in
          let cs := givens X (get X Bb k k) (get X Bb (S k) k) in
          if feqb (fst cs) c && feqb (snd cs) s && rot_ok c s then
            Some (put_block Bm p p (giv_variant 4 Bb c s k (S k)), opt_right U c s (p + k) (p + S k), V)
          else None
        else None
    | BZRow k i c s =>
        if Nat.ltb k i && Nat.ltb i n then
          let y := get X Bm i i in let z := get X Bm k i in
          let cs := givens X y z in
          if feqb (fst cs) c && feqb (snd cs) s && rot_ok c s then
            let B1 := giv_variant 4 Bm c s i k in
            if zrow_small (get X B1 k i) y z then
              Some (set2 B1 k i (zero N), opt_right U c s i k, V)
            else None
          else None
        else None
    | BFlip i =>
        if Nat.ltb i n && ltb N (get X Bm i i) (zero N) then
          Some (set2 Bm i i (neg N (get X Bm i i)),
                U, match V with None => None | Some Vm => Some (negcol Vm i) end)
        else None
    | _ => None
    end
  end.

Definition svd_replay (cu cv : bool) (A : fmat) (steps : list tstep) : option (fmat * option fmat * option fmat) :=
  let n := ncols A in
  let '(H0, U0, V0) := bidiag2 X cu cv A in
  match fold_left (svd_step1 n) steps (Some (block H0 0 n 0 n, U0, V0)) with
  | Some (Bm, U, V) => Some (put_block H0 0 0 Bm, U, V)
  | None => None
  end.

(* ---------- unsymmetric (Francis) QR algorithm ---------- *)
(* beta = 0, or |beta * nu^T nu - 2| <= (16 + 4 len) u exactly.  Rounding budget of
   householder.Run: beta = 2 nu0^2 / (nu0^2 + sigma) carries 4 roundings and the len + 1
   roundings of sigma and nu0^2; every nu_i = x_i / nu0 carries one (two in its square);
   relative (8 + 2 len) u on a value of 2. *)
Fixpoint sumsq_dy (l : list float) (acc : dy) : option dy :=
  match l with
  | [] => Some acc
  | x :: r => match f2dy x with Some d => sumsq_dy r (dadd acc (dmul d d)) | None => None end
  end.
Definition house_err (beta : float) (nu : list float) : option dy :=
  match f2dy beta, sumsq_dy nu dzero with
  | Some b, Some q => Some (dabs (dsub (dmul b q) (2, 0)%Z))
  | _, _ => None
  end.
Definition house_tol (len : nat) : dy := ((16 + 4 * Z.of_nat len)%Z, (-53)%Z).
Definition house_ok_tol (tol : dy) (beta : float) (nu : list float) : bool :=
  match f2dy beta, house_err beta nu with
  | Some b, Some e => dis0 b || dle e tol
  | _, _ => false
  end.
Definition house_ok (beta : float) (nu : list float) : bool := house_ok_tol (house_tol (length nu)) beta nu.

Definition opt_house_right (M : option fmat) (n r0 len : nat) (beta : float) (nu : list float) : option fmat :=
  match M with
  | None => None
  | Some Um => Some (put_block Um 0 r0 (house_right X (block Um 0 n r0 (r0 + len)) beta nu))
  end.

Definition fr_step (n : nat) (st : option (fmat * option fmat)) (t : tstep) : option (fmat * option fmat) :=
  match st with
  | None => None
  | Some (H, U) =>
    match t with
    | FDefl i =>
        let h11 := get X H i i in let h21 := get X H (S i) i in let h22 := get X H (S i) (S i) in
        if Nat.ltb (S i) n &&
           leb N (nabs N h21) (mul N eps_qr (add N (nabs N h11) (nabs N h22))) &&
           small_rel eps_qr h11 h21 h22
        then Some (set2 H (S i) i (zero N), U) else None
    | FHouse p nn k beta nu =>
        if Nat.leb (p + nn) n && Nat.leb 3 nn && Nat.leb (k + 2) nn then
          let H22 := block H p (p + nn) p (p + nn) in
          let x :=
            match k with
            | O =>
                let a11 := get X H22 (nn - 2) (nn - 2) in let a12 := get X H22 (nn - 2) (nn - 1) in
                let a21 := get X H22 (nn - 1) (nn - 2) in let a22 := get X H22 (nn - 1) (nn - 1) in
                let s := add N a11 a22 in
                let t := sub N (mul N a11 a22) (mul N a12 a21) in
                let h11 := get X H22 0 0 in let h12 := get X H22 0 1 in
                let h21 := get X H22 1 0 in let h22 := get X H22 1 1 in
                [ add N (sub N (add N (mul N h11 h11) (mul N h12 h21)) (mul N s h11)) t;
                  mul N (sub N (add N h11 h22) s) h21;
                  mul N h21 (get X H22 2 1) ]
            | S k' =>
                get X H22 k k' :: get X H22 (S k) k' ::
                (if Nat.ltb (k + 2) nn then [get X H22 (k + 2) k'] else [])
            end in
          let bn := house X x in
          if feqb (fst bn) beta && fv_eqb (snd bn) nu && house_ok beta nu then
            let len := length x in
            let r0 := (p + k)%nat in
            let cL := (p + Nat.max 1 k - 1)%nat in
            let H1 := put_block H r0 cL (house_left X (block H r0 (r0 + len) cL n) beta nu) in
            let H2 := put_block H1 0 r0 (house_right X (block H1 0 (p + nn) r0 (r0 + len)) beta nu) in
            Some (H2, opt_house_right U n r0 len beta nu)
          else None
        else None
    | FQ2 i c s =>
        if Nat.ltb (S i) n then
          let t3 := get X H (S i) (S i) in
          let H0 := set2 (set2 H i i (sub N (get X H i i) t3)) (S i) (S i) (sub N t3 t3) in
          let cs := givens X (get X H0 i i) (get X H0 (S i) i) in
          if feqb (fst cs) c && feqb (snd cs) s && rot_ok c s then
            let H1 := giv_rows X (fun j => Nat.leb i j) H0 c s i (S i) in
            let H2 := giv_cols X (fun j => Nat.ltb j (i + 2)) H1 c s i (S i) in
            let H3 := set2 (set2 H2 i i (add N (get X H2 i i) t3)) (S i) (S i) (add N (get X H2 (S i) (S i)) t3) in
            Some (H3, opt_right U c s i (S i))
          else None
        else None
    | _ => None
    end
  end.

Definition fr_replay (cu : bool) (A : fmat) (steps : list tstep) : option (fmat * option fmat) :=
  fold_left (fr_step (length A)) steps (Some (hessenberg X true cu A)).

Definition tcheck (c : tcase) : bool :=
  match c with
  | TFail _ => false
  | TSymQR cu A steps T Z =>
      match sym_replay cu A steps with
      | Some (T', Z') => fm_eqb T' T && ofm_eqb Z' Z
      | None => false
      end
  | TSvd cu cv A steps H U V =>
      match svd_replay cu cv A steps with
      | Some (H', U', V') => fm_eqb H' H && ofm_eqb U' U && ofm_eqb V' V
      | None => false
      end
  | TFrancis cu A steps H U =>
      match fr_replay cu A steps with
      | Some (H', U') => fm_eqb H' H && ofm_eqb U' U
      | None => false
      end
  end.

Definition tmism (cs : list tcase) : list nat := mismatches tcheck cs.

(* diagnostics (not used by the check): index of the first step the replay rejects *)
Fixpoint first_bad (n : nat) (st : option (fmat * option fmat)) (idx : nat) (steps : list tstep) : option nat :=
  match steps with
  | [] => None
  | t :: r => match sym_step n st t with
              | None => Some idx
              | st' => first_bad n st' (S idx) r
              end
  end.
