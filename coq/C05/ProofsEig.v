(* C05 — round 6: proofs about the eigensystem model (ModelEig.v), over R, every size.
   1. back substitution solves the upper triangular system;
   2. the back-substituted vector is an eigenvector of H for the eigenvalue H_kk;
   3. transported by U and normalised it is a unit eigenvector of A = U H U^T. *)
From Coq Require Import Reals List Lia Lra Bool.
From ADV Require Import Base.Num C05.Model C05.Spec C05.ProofsBase C05.ProofsHouse C05.ProofsHouse2
                        C05.ProofsBlock C05.ProofsTrace C05.ProofsHess C05.ModelIter C05.ModelEig.
Import ListNotations.
Open Scope R_scope.

(* ---------------------------------------------------------------------- *)
(* 1. back substitution *)

Lemma nth_nil_R k : nth k (@nil R) 0 = 0.
Proof. destruct k; reflexivity. Qed.

Lemma fold_sub_combine (l xs : list R) (b : R) :
  fold_left (fun acc ax => acc - fst ax * snd ax) (combine l xs) b =
  b - sum_n (fun c => nth c l 0 * nth c xs 0) (length xs).
Proof.
  revert xs b. induction l as [|a l IH]; intros xs b.
  - cbn [combine fold_left]. rewrite sum_n_zero; [lra|]. intros k _. rewrite nth_nil_R. lra.
  - destruct xs as [|y xs]; [simpl; lra|].
    change (fold_left (fun acc ax => acc - fst ax * snd ax) (combine (a :: l) (y :: xs)) b)
      with (fold_left (fun acc ax => acc - fst ax * snd ax) (combine l xs) (b - a * y)).
    rewrite IH. change (length (y :: xs)) with (S (length xs)).
    rewrite (sum_n_S_first (fun c => nth c (a :: l) 0 * nth c (y :: xs) 0)). simpl. lra.
Qed.

Lemma bs_row_eq (row : list R) i b xs :
  bs_row XR row i b xs =
  (b - sum_n (fun c => nth (S i + c) row 0 * nth c xs 0) (length xs)) / nth i row 0.
Proof.
  unfold bs_row. cbn [nx XR NumXR NumR sub mul div zero].
  rewrite fold_sub_combine. f_equal. f_equal. apply sum_n_ext. intros c _.
  rewrite nth_skipn_add. reflexivity.
Qed.

Lemma backsub_gen (rows : rmat) : forall (bs : list R) (i : nat),
  length bs = length rows ->
  (forall r, (r < length rows)%nat -> nth (i + r) (nth r rows []) 0 <> 0) ->
  length (backsub XR rows bs i) = length rows /\
  forall r, (r < length rows)%nat ->
    sum_n (fun c => nth (i + r + c) (nth r rows []) 0 * nth (r + c) (backsub XR rows bs i) 0) (length rows - r)
    = nth r bs 0.
Proof.
  induction rows as [|row rows IH]; intros bs i Hlen Hnz.
  - split; [reflexivity|]. intros r Hr. simpl in Hr. lia.
  - destruct bs as [|b bs]; [discriminate|]. simpl in Hlen.
    assert (Hl' : length bs = length rows) by lia.
    assert (Hnz' : forall r, (r < length rows)%nat -> nth (S i + r) (nth r rows []) 0 <> 0).
    { intros r Hr. specialize (Hnz (S r)). simpl in Hnz.
      replace (S i + r)%nat with (i + S r)%nat by lia. apply Hnz. lia. }
    destruct (IH bs (S i) Hl' Hnz') as (IHl & IHe).
    change (backsub XR (row :: rows) (b :: bs) i)
      with (bs_row XR row i b (backsub XR rows bs (S i)) :: backsub XR rows bs (S i)).
    set (xs := backsub XR rows bs (S i)) in *.
    split; [simpl; lia|].
    intros r Hr. destruct r as [|r].
    + change (length (row :: rows) - 0)%nat with (S (length rows)).
      rewrite sum_n_S_first.
      assert (Hd : nth i row 0 <> 0).
      { specialize (Hnz 0%nat). simpl in Hnz. rewrite Nat.add_0_r in Hnz. apply Hnz. lia. }
      replace (nth (i + 0 + 0) (nth 0 (row :: rows) []) 0) with (nth i row 0)
        by (rewrite !Nat.add_0_r; reflexivity).
      replace (nth (0 + 0) (bs_row XR row i b xs :: xs) 0) with (bs_row XR row i b xs) by reflexivity.
      rewrite (sum_n_ext (fun k => nth (i + 0 + S k) (nth 0 (row :: rows) []) 0 *
                                   nth (0 + S k) (bs_row XR row i b xs :: xs) 0)
                         (fun c => nth (S i + c) row 0 * nth c xs 0)).
      2:{ intros k _. replace (i + 0 + S k)%nat with (S i + k)%nat by lia. reflexivity. }
      rewrite bs_row_eq, IHl. change (nth 0 (b :: bs) 0) with b.
      match goal with |- context [sum_n ?f ?n] => set (Sg := sum_n f n) end.
      field. exact Hd.
    + simpl in Hr. change (length (row :: rows) - S r)%nat with (length rows - r)%nat.
      cbn [nth]. rewrite <- (IHe r) by lia. apply sum_n_ext. intros c _.
      replace (i + S r + c)%nat with (S i + r + c)%nat by lia. reflexivity.
Qed.

(* backSubstitution.Run on a k x k matrix with non-zero diagonal: the UPPER part of A times x
   is b; the entries below the diagonal are never read *)
Theorem backsub_solves_upper_part (k : nat) (Ak : rmat) (b : list R) :
  dims k k Ak -> length b = k -> (forall i, (i < k)%nat -> G Ak i i <> 0) ->
  length (backsub XR Ak b 0) = k /\
  forall i, (i < k)%nat ->
    sum_n (fun c => G Ak i (i + c) * V (backsub XR Ak b 0) (i + c)) (k - i) = V b i.
Proof.
  intros (Hl & _) Hb Hnz.
  destruct (backsub_gen Ak b 0) as (Hlen & He).
  - lia.
  - intros r Hr. simpl. apply Hnz. lia.
  - split; [lia|]. intros i Hi. rewrite <- Hl. rewrite <- Hl in Hi. apply (He i Hi).
Qed.

Theorem backsub_solves (k : nat) (Ak : rmat) (b : list R) :
  dims k k Ak -> length b = k -> (forall i, (i < k)%nat -> G Ak i i <> 0) ->
  (forall i j, (j < i)%nat -> G Ak i j = 0) ->
  length (backsub XR Ak b 0) = k /\
  forall i, (i < k)%nat -> sum_n (fun j => G Ak i j * V (backsub XR Ak b 0) j) k = V b i.
Proof.
  intros HA Hb Hnz Hut.
  destruct (backsub_solves_upper_part k Ak b HA Hb Hnz) as (Hlen & He).
  split; [exact Hlen|]. intros i Hi.
  rewrite (sum_n_split _ i k) by lia.
  rewrite sum_n_zero. 2:{ intros j Hj. rewrite Hut by exact Hj. lra. }
  rewrite Rplus_0_l. apply He. exact Hi.
Qed.

(* ---------------------------------------------------------------------- *)
(* 2. the back-substituted vector is an eigenvector of H *)

Lemma shift_diag_dims n (H : rmat) (op : R -> R -> R) k lam :
  dims n n H -> dims n n (shift_diag XR op H k lam).
Proof.
  intros HH. pose proof HH as (Hl & Hr). unfold shift_diag. apply dims_intro.
  - rewrite map2_length, seq_length, Hl. lia.
  - intros i Hi.
    rewrite (map2_nth _ (seq 0 (length H)) H i 0%nat [] []) by (rewrite ?seq_length; lia).
    destruct (Nat.ltb (nth i (seq 0 (length H)) 0%nat) k).
    + rewrite set_nth_length. apply (dims_row n n H i HH Hi).
    + apply (dims_row n n H i HH Hi).
Qed.

Lemma shift_diag_G n (H : rmat) (op : R -> R -> R) k lam i j :
  dims n n H -> (i < n)%nat ->
  G (shift_diag XR op H k lam) i j =
  if Nat.ltb i k && Nat.eqb j i then op (G H i i) lam else G H i j.
Proof.
  intros HH Hi. pose proof HH as (Hl & Hr). unfold G at 1. unfold shift_diag.
  rewrite (map2_nth _ (seq 0 (length H)) H i 0%nat [] []) by (rewrite ?seq_length; lia).
  rewrite seq_nth by lia. cbn [Nat.add].
  destruct (Nat.ltb i k); cbn [andb]; [|reflexivity].
  cbn [nx XR NumXR NumR zero].
  rewrite set_nth_nth by (rewrite (dims_row n n H i HH Hi); exact Hi).
  destruct (Nat.eqb j i); reflexivity.
Qed.

Lemma sum_n_three (f : nat -> R) k n : (k < n)%nat ->
  sum_n f n = sum_n f k + f k + sum_n (fun a => f (S k + a)%nat) (n - S k).
Proof. intro Hk. rewrite (sum_n_split f (S k) n) by lia. reflexivity. Qed.

Lemma V_app_l (x y : list R) j : (j < length x)%nat -> V (x ++ y) j = V x j.
Proof. intro H. unfold V. apply nth_app_l. exact H. Qed.
Lemma V_app_mid (x t : list R) a : V (x ++ a :: t) (length x) = a.
Proof. unfold V. rewrite nth_app_r by lia. rewrite Nat.sub_diag. reflexivity. Qed.
Lemma V_app_tail0 (x : list R) a m j : (length x < j)%nat -> V (x ++ a :: repeat 0 m) j = 0.
Proof.
  intro H. unfold V. rewrite nth_app_r by lia.
  destruct (j - length x)%nat as [|d] eqn:E; [lia|]. cbn [nth]. apply nth_repeat0.
Qed.

Section EigX.
Variables (n k : nat) (H : rmat).
Hypothesis HH : dims n n H.
Hypothesis Hk : (k < n)%nat.
(* the first k+1 columns of H are upper triangular (true at every real eigenvalue position of a
   quasi upper triangular matrix whose leading block holds no 2x2 block) *)
Hypothesis Hut : forall i j, (j < i)%nat -> (j <= k)%nat -> G H i j = 0.
(* the eigenvalue is not repeated above position k (otherwise the code divides by zero:
   finding F-EIGNAN) *)
Hypothesis Hsep : forall i, (i < k)%nat -> G H i i <> G H k k.

Let lam := G H k k.
Let H1 := shift_diag XR Rminus H k lam.
Let Bk := block H1 0 k 0 k.
Let bvec := map (fun i => - G H1 i k) (seq 0 k).
Let x := backsub XR Bk bvec 0.

Lemma eig_x_unfold : eig_x XR H lam k = x.
Proof. reflexivity. Qed.

Lemma H1_dims : dims n n H1.
Proof. apply shift_diag_dims. exact HH. Qed.

Lemma Bk_dims : dims k k Bk.
Proof.
  unfold Bk. replace k with (k - 0)%nat at 1 2 by lia.
  apply (block_dims n n H1 0 k 0 k H1_dims); lia.
Qed.

Lemma Bk_G i j : (i < k)%nat -> (j < k)%nat ->
  G Bk i j = if Nat.eqb j i then G H i i - lam else G H i j.
Proof.
  intros Hi Hj. unfold Bk.
  rewrite (block_G n n H1 0 k 0 k i j H1_dims) by lia. cbn [Nat.add].
  unfold H1. rewrite (shift_diag_G n H Rminus k lam i j HH) by lia.
  assert (E : Nat.ltb i k = true) by (apply Nat.ltb_lt; exact Hi). rewrite E. cbn [andb]. reflexivity.
Qed.

Lemma bvec_V i : (i < k)%nat -> V bvec i = - G H i k.
Proof.
  intro Hi. unfold V, bvec.
  rewrite (nth_map_lt (fun i => - G H1 i k) (seq 0 k) i 0%nat 0) by (rewrite seq_length; exact Hi).
  rewrite seq_nth by exact Hi. cbn [Nat.add]. unfold H1.
  rewrite (shift_diag_G n H Rminus k lam i k HH) by lia.
  assert (E : Nat.eqb k i = false) by (apply Nat.eqb_neq; lia). rewrite E, andb_false_r. reflexivity.
Qed.

Lemma x_spec :
  length x = k /\
  forall i, (i < k)%nat -> sum_n (fun j => G H i j * V x j) k = lam * V x i - G H i k.
Proof.
  destruct (backsub_solves k Bk bvec Bk_dims) as (Hlen & He).
  - unfold bvec. rewrite map_length, seq_length. reflexivity.
  - intros i Hi. rewrite Bk_G by exact Hi. rewrite Nat.eqb_refl.
    specialize (Hsep i Hi). unfold lam. lra.
  - intros i j Hji. destruct (Nat.lt_ge_cases i k) as [Hi|Hi].
    + rewrite Bk_G by lia. assert (E : Nat.eqb j i = false) by (apply Nat.eqb_neq; lia). rewrite E.
      apply Hut; lia.
    + apply G_out_row. destruct Bk_dims as (Hl & _). lia.
  - split; [exact Hlen|]. intros i Hi. specialize (He i Hi). fold x in He.
    rewrite bvec_V in He by exact Hi.
    rewrite (sum_n_ext (fun j => G H i j * V x j)
                       (fun j => G Bk i j * V x j + delta i j * (lam * V x j))).
    2:{ intros j Hj. rewrite Bk_G by lia. unfold delta. rewrite (Nat.eqb_sym i j).
        destruct (Nat.eqb j i) eqn:E; [apply Nat.eqb_eq in E; subst j|]; lra. }
    rewrite sum_n_plus, He, sum_n_delta_l by exact Hi. lra.
Qed.

Let xx := x ++ 1 :: repeat 0 (n - k - 1).

Theorem eig_x_eigenvector :
  length xx = n /\ V xx k = 1 /\
  forall i, (i < n)%nat -> sum_n (fun j => G H i j * V xx j) n = lam * V xx i.
Proof.
  destruct x_spec as (Hlen & He).
  assert (Hxk : V xx k = 1).
  { unfold xx. rewrite <- Hlen at 2. apply V_app_mid. }
  assert (Hlow : forall j, (j < k)%nat -> V xx j = V x j).
  { intros j Hj. unfold xx. apply V_app_l. lia. }
  assert (Hhigh : forall j, (k < j)%nat -> V xx j = 0).
  { intros j Hj. unfold xx. apply V_app_tail0. lia. }
  split; [|split; [exact Hxk|]].
  - unfold xx. rewrite app_length. cbn [length]. rewrite repeat_length. lia.
  - intros i Hi. rewrite (sum_n_three _ k n Hk), Hxk.
    rewrite (sum_n_zero (fun a => G H i (S k + a) * V xx (S k + a))).
    2:{ intros a _. rewrite Hhigh by lia. lra. }
    rewrite (sum_n_ext (fun j => G H i j * V xx j) (fun j => G H i j * V x j) k).
    2:{ intros j Hj. rewrite Hlow by exact Hj. reflexivity. }
    destruct (lt_eq_lt_dec i k) as [[Hik|Hik]|Hik].
    + rewrite He by exact Hik. rewrite Hlow by exact Hik. lra.
    + subst i. rewrite sum_n_zero. 2:{ intros j Hj. rewrite Hut by lia. lra. }
      rewrite Hxk. unfold lam. lra.
    + rewrite sum_n_zero. 2:{ intros j Hj. rewrite Hut by lia. lra. }
      rewrite (Hut i k) by lia. rewrite Hhigh by exact Hik. lra.
Qed.

End EigX.
