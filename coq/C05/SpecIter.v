(* C05 — round 5: specification vocabulary for the fuelled loop models of ModelIter.v (over R).
   Only definitions (no proofs): the sweep specifications proved in ProofsIter*Sweep.v and used
   by ProofsIter*Loop.v, and the "reach" relations that do the deflation bookkeeping:
   [X_reach eps n A0 A'] = A' is obtained from A0 by finitely many deflation steps AS CODED
   (each guarded by the routine's own negligibility test |x21| <= eps (|x11| + |x22|)), each
   performed in coordinates that are orthogonally similar (resp. equivalent) to the current matrix. *)
From Coq Require Import Reals List Lia.
From ADV Require Import Base.Num C05.Model C05.Spec C05.ProofsBase C05.ProofsTrace C05.ProofsBand C05.ModelIter.
Import ListNotations.
Open Scope R_scope.

(* ---------------- symmetric QR ---------------- *)
Definition sym_sweep_spec : Prop :=
  forall (n p nn : nat) (T Z : rmat),
  dims n n T -> symmetric n T -> tridiagonal T -> dims n n Z ->
  (p + nn <= n)%nat -> (2 <= nn)%nat ->
  ((0 < p)%nat -> G T (p - 1) p = 0) ->
  ((p + nn < n)%nat -> G T (p + nn - 1) (p + nn) = 0) ->
  exists Tb Z1,
    sym_sweep XR p nn (block T p (p + nn) p (p + nn)) (Some Z) = (Tb, Some Z1) /\
    dims n n (put_block T p p Tb) /\ symmetric n (put_block T p p Tb) /\ tridiagonal (put_block T p p Tb) /\
    dims n n Z1 /\
    (forall i j, (i < p \/ p + nn <= i \/ j < p \/ p + nn <= j)%nat -> G (put_block T p p Tb) i j = G T i j) /\
    meq n n (uhut n (G (put_block T p p Tb), G Z1)) (uhut n (G T, G Z)) /\
    (orth n (G Z) -> orth n (G Z1)).

Inductive sym_reach (eps : R) (n : nat) (A0 : fmatR) : fmatR -> Prop :=
| sr_start : sym_reach eps n A0 A0
| sr_meq A1 A2 : sym_reach eps n A0 A1 -> meq n n A2 A1 -> sym_reach eps n A0 A2
| sr_defl (T Z : rmat) (i : nat) :
    sym_reach eps n A0 (uhut n (G T, G Z)) ->
    dims n n T -> symmetric n T -> dims n n Z -> orth n (G Z) -> (S i < n)%nat ->
    sym_reach eps n A0 (uhut n (G (sym_defl_at XR eps T i), G Z)).

(* ---------------- Golub-Kahan SVD (B: n x n, U: m x m, V: n x n, n <= m) ---------------- *)
Definition ubv (m n : nat) (B U V : rmat) : fmatR := ubvt m n (mkSvd (G B) (G U) (G V)).

Definition gk_sweep_spec : Prop :=
  forall (m n p nn : nat) (B U V : rmat),
  dims n n B -> upper_bidiagonal B -> dims m m U -> dims n n V -> (n <= m)%nat ->
  (p + nn <= n)%nat -> (2 <= nn)%nat ->
  ((0 < p)%nat -> G B (p - 1) p = 0) ->
  ((p + nn < n)%nat -> G B (p + nn - 1) (p + nn) = 0) ->
  exists Bb U1 V1,
    gk_sweep XR p nn (block B p (p + nn) p (p + nn)) (Some U) (Some V) = (Bb, Some U1, Some V1) /\
    dims n n (put_block B p p Bb) /\ upper_bidiagonal (put_block B p p Bb) /\
    dims m m U1 /\ dims n n V1 /\
    (forall i j, (i < p \/ p + nn <= i \/ j < p \/ p + nn <= j)%nat -> G (put_block B p p Bb) i j = G B i j) /\
    meq m n (ubv m n (put_block B p p Bb) U1 V1) (ubv m n B U V) /\
    (orth m (G U) -> orth m (G U1)) /\ (orth n (G V) -> orth n (G V1)).

(* zeroRow on a row k whose diagonal entry is exactly zero *)
Definition zero_row_spec : Prop :=
  forall (m n k : nat) (B U V : rmat),
  dims n n B -> upper_bidiagonal B -> dims m m U -> dims n n V -> (n <= m)%nat ->
  (k < n)%nat -> G B k k = 0 ->
  exists B1 U1,
    zero_row XR n k (B, Some U, Some V) = (B1, Some U1, Some V) /\
    dims n n B1 /\ upper_bidiagonal B1 /\ dims m m U1 /\
    (forall j, G B1 k j = 0) /\
    (forall i j, (i < k)%nat -> G B1 i j = G B i j) /\
    (forall i, (k < i)%nat -> G B i (S i) = 0 -> G B1 i (S i) = 0) /\
    meq m n (ubv m n B1 U1 V) (ubv m n B U V) /\
    (orth m (G U) -> orth m (G U1)).

Inductive svd_reach (eps : R) (m n : nat) (A0 : fmatR) : fmatR -> Prop :=
| vr_start : svd_reach eps m n A0 A0
| vr_meq A1 A2 : svd_reach eps m n A0 A1 -> meq m n A2 A1 -> svd_reach eps m n A0 A2
| vr_defl (B U V : rmat) (i : nat) :
    svd_reach eps m n A0 (ubv m n B U V) ->
    dims n n B -> dims m m U -> dims n n V -> orth m (G U) -> orth n (G V) -> (S i < n)%nat ->
    svd_reach eps m n A0 (ubv m n (svd_defl_at XR eps B i) U V).

(* ---------------- Francis QR ---------------- *)
Definition francis_sweep_spec : Prop :=
  forall (n p nn : nat) (H U : rmat),
  dims n n H -> upper_hessenberg H -> dims n n U ->
  (p + nn <= n)%nat -> (3 <= nn)%nat ->
  ((0 < p)%nat -> G H p (p - 1) = 0) ->
  ((p + nn < n)%nat -> G H (p + nn) (p + nn - 1) = 0) ->
  exists H1 U1,
    francis_sweep XR n p nn (H, Some U) = (H1, Some U1) /\
    dims n n H1 /\ upper_hessenberg H1 /\ dims n n U1 /\
    (forall i j, (p + nn <= i \/ j < p)%nat -> G H1 i j = G H i j) /\
    meq n n (uhut n (G H1, G U1)) (uhut n (G H, G U)) /\
    (orth n (G U) -> orth n (G U1)).

(* single-shift QRstep on a decoupled 2x2 block at i *)
Definition qr2_step_spec : Prop :=
  forall (n i : nat) (H U : rmat),
  dims n n H -> upper_hessenberg H -> dims n n U -> (S i < n)%nat ->
  ((0 < i)%nat -> G H i (i - 1) = 0) ->
  ((i + 2 < n)%nat -> G H (i + 2) (i + 1) = 0) ->
  exists H1 U1,
    qr2_step XR i (H, Some U) = (H1, Some U1) /\
    dims n n H1 /\ upper_hessenberg H1 /\ dims n n U1 /\
    (forall a b, (i + 2 <= a \/ b < i)%nat -> G H1 a b = G H a b) /\
    meq n n (uhut n (G H1, G U1)) (uhut n (G H, G U)) /\
    (orth n (G U) -> orth n (G U1)).

Inductive fr_reach (eps : R) (n : nat) (A0 : fmatR) : fmatR -> Prop :=
| fr_start : fr_reach eps n A0 A0
| fr_meq A1 A2 : fr_reach eps n A0 A1 -> meq n n A2 A1 -> fr_reach eps n A0 A2
| fr_defl (H U : rmat) (i : nat) :
    fr_reach eps n A0 (uhut n (G H, G U)) ->
    dims n n H -> dims n n U -> orth n (G U) -> (S i < n)%nat ->
    fr_reach eps n A0 (uhut n (G (fr_defl_at XR eps H i), G U)).
