(* C05 — round 5: the unsymmetric QR algorithm's two similarity sweeps of ModelIter.v over R:
     qr2_step      (QRstep: single-shift Givens step on a decoupled 2x2 block)
     francis_sweep (francisQRstep: nn-1 Householder reflectors chasing a bulge)
   Each is an orthogonal similarity H <- Q^T H Q, U <- U Q that keeps H upper Hessenberg and
   leaves the rows below / columns left of the decoupled block alone.  The banded shortcuts
   coded in the library equal the full transformations because the skipped positions hold 0. *)
From Coq Require Import Reals List Lia Lra Bool.
From ADV Require Import Base.Num C05.Model C05.Spec C05.ProofsBase C05.ProofsHouse C05.ProofsHouse2
                        C05.ProofsBlock C05.ProofsTrace C05.ProofsBand C05.ProofsGivens
                        C05.ModelIter C05.SpecIter.
Import ListNotations.
Open Scope R_scope.

(* ================================================================== *)
(* entry formulas *)

Lemma set2_dims n (M : rmat) i j x : dims n n M -> (i < n)%nat -> (j < n)%nat ->
  dims n n (set2 M i j x).
Proof.
  intros HM Hi Hj. unfold set2. pose proof HM as (Hl & Hr). split.
  - rewrite length_set_nth. exact Hl.
  - intros row Hin. apply In_set_nth in Hin. destruct Hin as [->|Hin]; [|apply Hr; exact Hin].
    rewrite length_set_nth. apply (dims_row n n M i HM Hi).
Qed.

Lemma set2_G n (M : rmat) i j x a b : dims n n M -> (i < n)%nat -> (j < n)%nat ->
  G (set2 M i j x) a b = if (Nat.eqb a i && Nat.eqb b j)%bool then x else G M a b.
Proof.
  intros HM Hi Hj. unfold set2, G. pose proof HM as (Hl & _).
  destruct (Nat.eqb_spec a i) as [->|Na]; cbn [andb].
  - rewrite nth_set_nth_eq by lia.
    destruct (Nat.eqb_spec b j) as [->|Nb].
    + apply nth_set_nth_eq. rewrite (dims_row n n M i HM Hi). exact Hj.
    + apply nth_set_nth_neq. exact Nb.
  - rewrite nth_set_nth_neq by exact Na. reflexivity.
Qed.

Lemma givens_left_G r cN (M : rmat) (c s : R) i k a b :
  dims r cN M -> i <> k -> (i < r)%nat -> (k < r)%nat -> (a < r)%nat -> (b < cN)%nat ->
  G (givens_left XR M c s i k) a b =
  if Nat.eqb a i then c * G M i b - s * G M k b
  else if Nat.eqb a k then s * G M i b + c * G M k b else G M a b.
Proof.
  intros HM Hik Hi Hk Ha Hb.
  destruct (givens_left_is_Gt_mul r cN M c s i k HM Hik Hi Hk) as (_ & E).
  rewrite (E a b Ha Hb). unfold mmul, tr.
  apply (Gmat_col_apply c s i k r (fun l => G M l b) a Hik Hi Hk Ha).
Qed.

Lemma givens_right_G r cN (M : rmat) (c s : R) i k a b :
  dims r cN M -> i <> k -> (i < cN)%nat -> (k < cN)%nat -> (a < r)%nat -> (b < cN)%nat ->
  G (givens_right XR M c s i k) a b =
  if Nat.eqb b i then c * G M a i - s * G M a k
  else if Nat.eqb b k then s * G M a i + c * G M a k else G M a b.
Proof.
  intros HM Hik Hi Hk Ha Hb.
  destruct (givens_right_is_mul_G r cN M c s i k HM Hik Hi Hk) as (_ & E).
  rewrite (E a b Ha Hb). unfold mmul.
  rewrite (sum_n_ext _ (fun l => Gmat c s i k l b * G M a l)) by (intros; ring).
  apply (Gmat_col_apply c s i k cN (fun l => G M a l) b Hik Hi Hk Hb).
Qed.

(* the projector on the coordinates i, k *)
Definition Eproj (i k : nat) : fmatR := fun a b =>
  if Nat.eqb a b then (if (Nat.eqb a i || Nat.eqb a k)%bool then 1 else 0) else 0.

Ltac eqb_all :=
  repeat match goal with
         | |- context [Nat.eqb ?x ?y] => destruct (Nat.eqb_spec x y); try lia
         end.

(* G^T E G = E: the rotation acts inside the block *)
Lemma Gmat_Eproj (c s : R) (i k n : nat) :
  c * c + s * s = 1 -> i <> k -> (i < n)%nat -> (k < n)%nat ->
  meq n n (mmul n (tr (Gmat c s i k)) (mmul n (Eproj i k) (Gmat c s i k))) (Eproj i k).
Proof.
  intros Hcs Hik Hi Hk a b Ha Hb. unfold mmul at 1, tr.
  assert (EG : forall l, (l < n)%nat ->
            mmul n (Eproj i k) (Gmat c s i k) l b =
            if (Nat.eqb l i || Nat.eqb l k)%bool then Gmat c s i k l b else 0).
  { intros l Hl. unfold mmul. rewrite (sum_n_one _ l n Hl).
    - unfold Eproj. rewrite Nat.eqb_refl. destruct (Nat.eqb l i || Nat.eqb l k)%bool; ring.
    - intros m Hm Hne. unfold Eproj. destruct (Nat.eqb_spec l m); [lia|ring]. }
  rewrite (sum_n_ext _ (fun l => Gmat c s i k l a *
              (if (Nat.eqb l i || Nat.eqb l k)%bool then Gmat c s i k l b else 0))).
  2:{ intros l Hl. rewrite EG by exact Hl. reflexivity. }
  rewrite (sum_n_two _ i k n Hik Hi Hk).
  - unfold Gmat, Eproj, delta. eqb_all; cbn [orb]; try lra; try nra.
  - intros l Hl Hli Hlk. destruct (Nat.eqb_spec l i); [lia|]. destruct (Nat.eqb_spec l k); [lia|].
    cbn [orb]. ring.
Qed.

Lemma mmul_lin_r n (A B C : fmatR) (t : R) i j :
  mmul n A (fun a b => B a b - t * C a b) i j = mmul n A B i j - t * mmul n A C i j.
Proof.
  unfold mmul. rewrite <- sum_n_scal, <- sum_n_minus. apply sum_n_ext. intros; ring.
Qed.

Lemma mmul_lin_l n (A B C : fmatR) (t : R) i j :
  mmul n (fun a b => B a b - t * C a b) A i j = mmul n B A i j - t * mmul n C A i j.
Proof.
  unfold mmul. rewrite <- sum_n_scal, <- sum_n_minus. apply sum_n_ext. intros; ring.
Qed.

(* ================================================================== *)
(* QRstep on a decoupled 2x2 block *)

Theorem qr2_step_sound : qr2_step_spec.
Proof.
  intros n i H U HH Hhess HU Hin Hlo Hhi.
  unfold qr2_step.
  change (get XR H (S i) (S i)) with (G H (S i) (S i)).
  set (t3 := G H (S i) (S i)).
  change (get XR H i i) with (G H i i).
  change (sub (nx XR) (G H i i) t3) with (G H i i - t3).
  change (sub (nx XR) t3 t3) with (t3 - t3).
  set (H0 := set2 (set2 H i i (G H i i - t3)) (S i) (S i) (t3 - t3)).
  assert (HH0 : dims n n H0) by (unfold H0; repeat apply set2_dims; try assumption; lia).
  assert (G0 : forall a b, G H0 a b = G H a b - t3 * Eproj i (S i) a b).
  { intros a b. unfold H0.
    rewrite (set2_G n) by (try apply set2_dims; try assumption; lia).
    rewrite (set2_G n) by (try assumption; lia).
    unfold Eproj, t3. eqb_all; cbn [andb orb]; subst; try ring. }
  change (get XR H0 i i) with (G H0 i i). change (get XR H0 (S i) i) with (G H0 (S i) i).
  pose proof (givens_unit (G H0 i i) (G H0 (S i) i)) as Hcs. cbv zeta in Hcs.
  set (c := fst (givens XR (G H0 i i) (G H0 (S i) i))) in *.
  set (s := snd (givens XR (G H0 i i) (G H0 (S i) i))) in *.
  (* off-block entries of H0 *)
  assert (G0off : forall a b, a <> b -> G H0 a b = G H a b).
  { intros a b Hab. rewrite G0. unfold Eproj. destruct (Nat.eqb_spec a b); [lia|ring]. }
  (* the banded left rotation is the full one *)
  assert (EL : giv_rows XR (fun j => Nat.leb i j) H0 c s i (S i) = givens_left XR H0 c s i (S i)).
  { apply (giv_rows_band n n); try assumption; try lia.
    intros j Hj Es. apply Nat.leb_gt in Es. rewrite !G0off by lia. split.
    - destruct (Nat.eq_dec (S j) i) as [E|E].
      + replace j with (i - 1)%nat by lia. apply Hlo. lia.
      + apply Hhess. lia.
    - apply Hhess. lia. }
  rewrite EL.
  set (H1 := givens_left XR H0 c s i (S i)).
  destruct (givens_left_is_Gt_mul n n H0 c s i (S i) HH0 ltac:(lia) ltac:(lia) Hin) as (HH1 & _).
  fold H1 in HH1.
  assert (G1 : forall a b, (a < n)%nat -> (b < n)%nat -> G H1 a b =
            if Nat.eqb a i then c * G H0 i b - s * G H0 (S i) b
            else if Nat.eqb a (S i) then s * G H0 i b + c * G H0 (S i) b else G H0 a b).
  { intros a b Ha Hb. apply (givens_left_G n n); try assumption; lia. }
  assert (ER : giv_cols XR (fun j => Nat.ltb j (i + 2)) H1 c s i (S i) = givens_right XR H1 c s i (S i)).
  { apply (giv_cols_band n n); try assumption.
    intros j Hj Es. apply Nat.ltb_ge in Es. rewrite !G1 by lia.
    destruct (Nat.eqb_spec j i); [lia|]. destruct (Nat.eqb_spec j (S i)); [lia|].
    rewrite !G0off by lia. split.
    - apply Hhess. lia.
    - destruct (Nat.eq_dec j (i + 2)) as [->|E].
      + replace (S i) with (i + 1)%nat by lia. apply Hhi. lia.
      + apply Hhess. lia. }
  rewrite ER.
  set (H2 := givens_right XR H1 c s i (S i)).
  destruct (givens_right_is_mul_G n n H1 c s i (S i) HH1 ltac:(lia) ltac:(lia) Hin) as (HH2 & _).
  fold H2 in HH2.
  assert (G2 : forall a b, (a < n)%nat -> (b < n)%nat -> G H2 a b =
            if Nat.eqb b i then c * G H1 a i - s * G H1 a (S i)
            else if Nat.eqb b (S i) then s * G H1 a i + c * G H1 a (S i) else G H1 a b).
  { intros a b Ha Hb. apply (givens_right_G n n); try assumption; lia. }
  change (get XR H2 i i) with (G H2 i i). change (get XR H2 (S i) (S i)) with (G H2 (S i) (S i)).
  change (add (nx XR) (G H2 i i) t3) with (G H2 i i + t3).
  change (add (nx XR) (G H2 (S i) (S i)) t3) with (G H2 (S i) (S i) + t3).
  set (H3 := set2 (set2 H2 i i (G H2 i i + t3)) (S i) (S i) (G H2 (S i) (S i) + t3)).
  assert (HH3 : dims n n H3) by (unfold H3; repeat apply set2_dims; try assumption; lia).
  assert (G3 : forall a b, G H3 a b = G H2 a b + t3 * Eproj i (S i) a b).
  { intros a b. unfold H3.
    rewrite (set2_G n) by (try apply set2_dims; try assumption; lia).
    rewrite (set2_G n) by (try assumption; lia).
    unfold Eproj. eqb_all; cbn [andb orb]; subst; try ring. }
  assert (G3off : forall a b, a <> b -> G H3 a b = G H2 a b).
  { intros a b Hab. rewrite G3. unfold Eproj. destruct (Nat.eqb_spec a b); [lia|ring]. }
  (* the accumulator *)
  unfold opt_right.
  set (U1 := givens_right XR U c s i (S i)).
  set (g := mkGrot c s i (S i)).
  assert (Hg : grot_valid n g) by (unfold grot_valid, g; cbn; repeat split; try assumption; lia).
  destruct (lqr_step_refines n g H0 U (fun a b => G H a b - t3 * Eproj i (S i) a b) (G U) Hg HH0 HU)
    as (_ & HU1 & EH2 & EU1).
  { intros a b _ _. apply G0. }
  { apply meq_refl. }
  unfold lqr_step, qr_step, grot_mat, g in HU1, EH2, EU1. cbn [fst snd g_c g_s g_i g_k] in HU1, EH2, EU1.
  fold H1 H2 U1 in HU1, EH2, EU1.
  set (Gm := Gmat c s i (S i)) in *.
  assert (HGm : orth n Gm) by (apply Gmat_orth; try assumption; lia).
  (* H3 = G^T H G *)
  assert (E3 : meq n n (G H3) (mmul n (tr Gm) (mmul n (G H) Gm))).
  { intros a b Ha Hb. rewrite G3, (EH2 a b Ha Hb).
    transitivity (mmul n (tr Gm) (fun x y => mmul n (G H) Gm x y - t3 * mmul n (Eproj i (S i)) Gm x y) a b
                  + t3 * Eproj i (S i) a b).
    { f_equal. apply mmul_ext_all; [reflexivity|]. intros x y. apply mmul_lin_l. }
    assert (L : mmul n (tr Gm) (fun x y => mmul n (G H) Gm x y - t3 * mmul n (Eproj i (S i)) Gm x y) a b =
                mmul n (tr Gm) (mmul n (G H) Gm) a b - t3 * mmul n (tr Gm) (mmul n (Eproj i (S i)) Gm) a b)
      by apply mmul_lin_r.
    rewrite L.
    pose proof (Gmat_Eproj c s i (S i) n Hcs ltac:(lia) ltac:(lia) Hin a b Ha Hb) as HE. fold Gm in HE.
    rewrite HE. ring. }
  (* pattern: entries outside the rows < i+2 / columns >= i are those of H *)
  assert (Hkeep : forall a b, (i + 2 <= a \/ b < i)%nat -> G H3 a b = G H a b).
  { intros a b Hab.
    destruct (Nat.lt_ge_cases a n) as [Ha|Ha].
    2:{ rewrite !G_out_row; [reflexivity| |]; [destruct HH as (-> & _)|destruct HH3 as (-> & _)]; exact Ha. }
    destruct (Nat.lt_ge_cases b n) as [Hb|Hb].
    2:{ rewrite (G_out_col n n H3 a b HH3 Hb), (G_out_col n n H a b HH Hb). reflexivity. }
    destruct (Nat.eq_dec a b) as [Eab|Nab].
    - subst b. rewrite G3, G2, !G1 by lia. unfold Eproj.
      rewrite Nat.eqb_refl. destruct (Nat.eqb_spec a i); [lia|]. destruct (Nat.eqb_spec a (S i)); [lia|].
      cbn [orb]. rewrite G0. unfold Eproj. rewrite Nat.eqb_refl.
      destruct (Nat.eqb_spec a i); [lia|]. destruct (Nat.eqb_spec a (S i)); [lia|]. cbn [orb]. ring.
    - rewrite G3off by exact Nab. rewrite G2 by lia.
      destruct Hab as [Hab|Hab].
      + rewrite !G1 by lia.
        destruct (Nat.eqb_spec a i); [lia|]. destruct (Nat.eqb_spec a (S i)); [lia|].
        assert (Z1 : G H a i = 0) by (apply Hhess; lia).
        assert (Z2 : G H a (S i) = 0).
        { destruct (Nat.eq_dec a (i + 2)) as [->|E].
          - replace (S i) with (i + 1)%nat by lia. apply Hhi. lia.
          - apply Hhess. lia. }
        destruct (Nat.eqb_spec b i) as [->|Nbi]; [|destruct (Nat.eqb_spec b (S i)) as [->|Nbk]].
        * rewrite !G0off by lia. rewrite Z1, Z2. ring.
        * rewrite !G0off by lia. rewrite Z1, Z2. ring.
        * apply G0off. exact Nab.
      + destruct (Nat.eqb_spec b i); [lia|]. destruct (Nat.eqb_spec b (S i)); [lia|].
        rewrite G1 by lia.
        assert (Z1 : G H i b = 0).
        { destruct (Nat.eq_dec (S b) i) as [E|E].
          - replace b with (i - 1)%nat by lia. apply Hlo. lia.
          - apply Hhess. lia. }
        assert (Z2 : G H (S i) b = 0) by (apply Hhess; lia).
        destruct (Nat.eqb_spec a i) as [->|Nai]; [|destruct (Nat.eqb_spec a (S i)) as [->|Nak]].
        * rewrite !G0off by lia. rewrite Z1, Z2. ring.
        * rewrite !G0off by lia. rewrite Z1, Z2. ring.
        * apply G0off. exact Nab. }
  exists H3, U1. split; [reflexivity|]. split; [exact HH3|]. split; [|split; [exact HU1|split; [exact Hkeep|split]]].
  - intros a b Hab.
    destruct (Nat.le_gt_cases (i + 2) a) as [Ha|Ha]; [rewrite Hkeep by (left; exact Ha); apply Hhess; exact Hab|].
    rewrite Hkeep by (right; lia). apply Hhess. exact Hab.
  - apply meq_trans with (uhut n (qr_step n (Sim Gm) (G H, G U))).
    + unfold qr_step. cbn [fst snd]. apply ProofsTrace.uhut_congr; assumption.
    + apply qr_step_invariant. exact HGm.
  - intro HO. apply (orth_meq n (mmul n (G U) Gm)); [apply meq_sym; exact EU1|].
    apply orth_mmul; assumption.
Qed.

(* ================================================================== *)
(* a short reflector (length len) embedded at rows/columns m .. m+len of an n x n identity *)

Lemma V_over (nu : list R) a : (length nu <= a)%nat -> V nu a = 0.
Proof. intro H. unfold V. apply nth_overflow. exact H. Qed.

Lemma refl_emb_left beta m len n (nu : list R) (F : nat -> R) i :
  length nu = len -> (m + len <= n)%nat -> (i < n)%nat ->
  sum_n (fun a => refl beta (zeros XR m ++ nu) i a * F a) n =
  if (Nat.leb m i && Nat.ltb i (m + len))%bool
  then sum_n (fun a => refl beta nu (i - m) a * F (m + a)%nat) len else F i.
Proof.
  intros Hnu Hmn Hi. rewrite refl_pad_left_sum by lia.
  destruct (Nat.ltb i m) eqn:E1.
  - apply Nat.ltb_lt in E1. assert (E : Nat.leb m i = false) by (apply Nat.leb_gt; exact E1).
    rewrite E. reflexivity.
  - apply Nat.ltb_ge in E1. assert (E : Nat.leb m i = true) by (apply Nat.leb_le; exact E1).
    rewrite E. cbn [andb]. destruct (Nat.ltb i (m + len)) eqn:E2.
    + apply Nat.ltb_lt in E2. apply sum_n_cut; [lia|].
      intros a Ha. unfold refl. rewrite (V_over nu a) by lia. unfold delta.
      destruct (Nat.eqb_spec (i - m) a); [lia|ring].
    + apply Nat.ltb_ge in E2. rewrite (sum_n_one _ (i - m)%nat (n - m)%nat); [|lia|].
      * unfold refl. rewrite (V_over nu (i - m)) by lia. unfold delta. rewrite Nat.eqb_refl.
        replace (m + (i - m))%nat with i by lia. ring.
      * intros a Ha Hne. unfold refl. rewrite (V_over nu (i - m)) by lia. unfold delta.
        destruct (Nat.eqb_spec (i - m) a); [lia|ring].
Qed.

Lemma refl_emb_right beta m len n (nu : list R) (F : nat -> R) j :
  length nu = len -> (m + len <= n)%nat -> (j < n)%nat ->
  sum_n (fun b => F b * refl beta (zeros XR m ++ nu) b j) n =
  if (Nat.leb m j && Nat.ltb j (m + len))%bool
  then sum_n (fun b => F (m + b)%nat * refl beta nu b (j - m)) len else F j.
Proof.
  intros Hnu Hmn Hj.
  rewrite (sum_n_ext _ (fun b => refl beta (zeros XR m ++ nu) j b * F b)).
  2:{ intros b _. rewrite (refl_symmetric beta _ b j). ring. }
  rewrite (refl_emb_left beta m len n nu F j Hnu Hmn Hj).
  destruct (Nat.leb m j && Nat.ltb j (m + len))%bool; [|reflexivity].
  apply sum_n_ext. intros b _. rewrite (refl_symmetric beta nu (j - m) b). ring.
Qed.

Lemma dot_emb m len n (nu : list R) : length nu = len -> (m + len <= n)%nat ->
  dot n (zeros XR m ++ nu) (zeros XR m ++ nu) = dot len nu nu.
Proof.
  intros Hnu Hmn. replace n with (m + (n - m))%nat at 1 by lia. rewrite dot_pad.
  unfold dot. apply sum_n_cut; [lia|]. intros a Ha. rewrite (V_over nu a) by lia. ring.
Qed.

(* ================================================================== *)
(* one reflector of the Francis step *)

(* pattern before reflector k of the sweep on [p, p+nn): upper Hessenberg except the bulge
   (rows <= p+k+2 inside the block, columns >= p+k-1), no bulge for k = 0 *)
Definition fpat (p nn k : nat) (H : rmat) : Prop :=
  forall a b, (b + 1 < a)%nat ->
    (k = 0 \/ p + k + 2 < a \/ p + nn <= a \/ b + 1 < p + k)%nat -> G H a b = 0.

Lemma in_range_true m l a : (m <= a < m + l)%nat -> (Nat.leb m a && Nat.ltb a (m + l))%bool = true.
Proof. intros (H1 & H2). apply andb_true_intro. split; [apply Nat.leb_le|apply Nat.ltb_lt]; assumption. Qed.
Lemma in_range_false m l a : ~ (m <= a < m + l)%nat -> (Nat.leb m a && Nat.ltb a (m + l))%bool = false.
Proof.
  intro H. destruct (Nat.leb m a) eqn:E1; [|reflexivity]. destruct (Nat.ltb a (m + l)) eqn:E2; [|reflexivity].
  apply Nat.leb_le in E1. apply Nat.ltb_lt in E2. exfalso. apply H. lia.
Qed.

Lemma francis_refl_core n p nn k (H U : rmat) (x0 : R) (xt : list R) :
  let x := x0 :: xt in
  let len := length x in
  let r0 := (p + k)%nat in
  let cL := (p + Nat.max 1 k - 1)%nat in
  let beta := fst (house XR x) in
  let nu := snd (house XR x) in
  let H1 := put_block H r0 cL (house_left XR (block H r0 (r0 + len) cL n) beta nu) in
  let H2 := put_block H1 0 r0 (house_right XR (block H1 0 (p + nn) r0 (r0 + len)) beta nu) in
  let U1 := put_block U 0 r0 (house_right XR (block U 0 n r0 (r0 + len)) beta nu) in
  dims n n H -> dims n n U -> (p + nn <= n)%nat -> (r0 + len <= p + nn)%nat -> (len <= 3)%nat ->
  fpat p nn k H ->
  (forall a b, (p <= a)%nat -> (b < p)%nat -> G H a b = 0) ->
  (forall a b, (p + nn <= a)%nat -> (b < p + nn)%nat -> G H a b = 0) ->
  ((1 <= k)%nat -> forall j, (j < len)%nat -> V x j = G H (r0 + j) (r0 - 1)) ->
  ((1 <= k)%nat -> len = 3%nat \/ (r0 + len = p + nn)%nat) ->
  exists P : fmatR,
    orth n P /\ dims n n H2 /\ dims n n U1 /\
    meq n n (G H2) (mmul n (tr P) (mmul n (G H) P)) /\
    meq n n (G U1) (mmul n (G U) P) /\
    fpat p nn (S k) H2 /\
    (forall a b, (p + nn <= a \/ b < p)%nat -> G H2 a b = G H a b).
Proof.
  intros x len r0 cL beta nu H1 H2 U1 HH HU Hpn Hfit Hlen3 Hpat D1 D2 Hx Hclose.
  destruct (house_reflects x0 xt) as (Hnl & Hval & Hrest & _ & _).
  cbv zeta in Hnl, Hval, Hrest. fold x in Hnl, Hval, Hrest. fold len beta nu in Hnl, Hval, Hrest.
  assert (Hlen1 : (1 <= len)%nat) by (unfold len, x; simpl; lia).
  assert (HcL : (cL <= r0)%nat) by (unfold cL, r0; lia).
  set (P := refl beta (zeros XR r0 ++ nu)).
  assert (HP : orth n P).
  { apply refl_orth. destruct Hval as [Hb|Hb]; [left; exact Hb|right].
    rewrite (dot_emb r0 len n nu Hnl) by lia. exact Hb. }
  (* skipped zeros of the left application *)
  assert (ZL : forall j b, (j < len)%nat -> (b < cL)%nat -> G H (r0 + j) b = 0).
  { intros j b Hj Hb. destruct (Nat.eq_dec k 0) as [Hk|Hk].
    - apply D1; unfold cL, r0 in *; subst k; simpl in Hb; lia.
    - apply Hpat; unfold cL, r0 in *; lia. }
  (* H1 *)
  set (blk := block H r0 (r0 + len) cL n) in *.
  assert (Hblk : dims len (n - cL) blk).
  { pose proof (block_dims n n H r0 (r0 + len) cL n HH ltac:(lia) ltac:(lia)) as Hb.
    replace (r0 + len - r0)%nat with len in Hb by lia. exact Hb. }
  destruct (house_left_index len (n - cL) blk beta nu Hblk Hnl) as (HdL & HgL).
  assert (HH1 : dims n n H1) by (apply (put_block_dims n n H _ len (n - cL)); [exact HH|exact HdL|lia|lia]).
  assert (E1in : forall a b, (a < n)%nat -> (b < n)%nat -> (r0 <= a < r0 + len)%nat ->
            G H1 a b = sum_n (fun j => refl beta nu (a - r0) j * G H (r0 + j) b) len).
  { intros a b Ha Hb Har. unfold H1.
    rewrite (put_block_G n n H _ len (n - cL) r0 cL a b HH HdL) by lia.
    rewrite (in_range_true r0 len a Har). cbn [andb].
    destruct (Nat.leb cL b) eqn:E3; cbn [andb].
    - apply Nat.leb_le in E3.
      assert (E4 : Nat.ltb b (cL + (n - cL)) = true) by (apply Nat.ltb_lt; lia). rewrite E4.
      rewrite HgL by lia. apply sum_n_ext. intros j Hj. unfold blk.
      rewrite (block_G n n H r0 (r0 + len) cL n j (b - cL) HH) by lia.
      do 2 f_equal. lia.
    - apply Nat.leb_gt in E3. replace a with (r0 + (a - r0))%nat at 1 by lia.
      rewrite ZL by lia. symmetry. apply sum_n_zero. intros j Hj. cbv beta. rewrite ZL by lia. ring. }
  assert (E1out : forall a b, (a < n)%nat -> ~ (r0 <= a < r0 + len)%nat -> G H1 a b = G H a b).
  { intros a b Ha Har. unfold H1.
    rewrite (put_block_G n n H _ len (n - cL) r0 cL a b HH HdL) by lia.
    rewrite (in_range_false r0 len a Har). reflexivity. }
  assert (L1 : forall a b, (a < n)%nat -> (b < n)%nat -> G H1 a b = mmul n P (G H) a b).
  { intros a b Ha Hb. unfold mmul, P.
    rewrite (refl_emb_left beta r0 len n nu (fun c => G H c b) a Hnl) by lia.
    destruct (Nat.leb r0 a && Nat.ltb a (r0 + len))%bool eqn:E.
    - apply andb_prop in E. destruct E as (Ea & Eb). apply Nat.leb_le in Ea. apply Nat.ltb_lt in Eb.
      apply E1in; lia.
    - apply E1out; [exact Ha|]. intro Har. rewrite (in_range_true r0 len a Har) in E. discriminate. }
  (* H2 *)
  set (blk2 := block H1 0 (p + nn) r0 (r0 + len)) in *.
  assert (Hblk2 : dims (p + nn) len blk2).
  { pose proof (block_dims n n H1 0 (p + nn) r0 (r0 + len) HH1 ltac:(lia) ltac:(lia)) as Hb.
    replace (r0 + len - r0)%nat with len in Hb by lia. rewrite Nat.sub_0_r in Hb. exact Hb. }
  destruct (house_right_index (p + nn) len blk2 beta nu Hblk2 Hnl) as (HdR & HgR).
  assert (HH2 : dims n n H2) by (apply (put_block_dims n n H1 _ (p + nn) len); [exact HH1|exact HdR|lia|lia]).
  assert (ZR : forall a j, (a < n)%nat -> (p + nn <= a)%nat -> (j < len)%nat -> G H1 a (r0 + j) = 0).
  { intros a j Ha Hap Hj. rewrite E1out by lia. apply D2; lia. }
  assert (E2in : forall a b, (a < n)%nat -> (b < n)%nat -> (r0 <= b < r0 + len)%nat ->
            G H2 a b = sum_n (fun j => G H1 a (r0 + j) * refl beta nu j (b - r0)) len).
  { intros a b Ha Hb Hbr. unfold H2.
    rewrite (put_block_G n n H1 _ (p + nn) len 0 r0 a b HH1 HdR) by lia.
    assert (E0 : Nat.leb 0 a = true) by reflexivity. rewrite E0. cbn [andb].
    destruct (Nat.ltb a (0 + (p + nn))) eqn:E3; cbn [andb].
    - rewrite (in_range_true r0 len b Hbr).
      apply Nat.ltb_lt in E3. rewrite Nat.sub_0_r. rewrite HgR by lia.
      apply sum_n_ext. intros j Hj. unfold blk2.
      rewrite (block_G n n H1 0 (p + nn) r0 (r0 + len) a j HH1) by lia. reflexivity.
    - apply Nat.ltb_ge in E3. replace b with (r0 + (b - r0))%nat at 1 by lia.
      rewrite ZR by lia. symmetry. apply sum_n_zero. intros j Hj. cbv beta. rewrite ZR by lia. ring. }
  assert (E2out : forall a b, (a < n)%nat -> ~ (r0 <= b < r0 + len)%nat -> G H2 a b = G H1 a b).
  { intros a b Ha Hbr. unfold H2.
    rewrite (put_block_G n n H1 _ (p + nn) len 0 r0 a b HH1 HdR) by lia.
    rewrite <- !andb_assoc. rewrite (in_range_false r0 len b Hbr). rewrite !andb_false_r. reflexivity. }
  assert (L2 : forall a b, (a < n)%nat -> (b < n)%nat -> G H2 a b = sum_n (fun c => G H1 a c * P c b) n).
  { intros a b Ha Hb. unfold P.
    rewrite (refl_emb_right beta r0 len n nu (fun c => G H1 a c) b Hnl) by lia.
    destruct (Nat.leb r0 b && Nat.ltb b (r0 + len))%bool eqn:E.
    - apply andb_prop in E. destruct E as (Ea & Eb). apply Nat.leb_le in Ea. apply Nat.ltb_lt in Eb.
      apply E2in; lia.
    - apply E2out; [exact Ha|]. intro Hbr. rewrite (in_range_true r0 len b Hbr) in E. discriminate. }
  (* U1 *)
  set (blkU := block U 0 n r0 (r0 + len)) in *.
  assert (HblkU : dims n len blkU).
  { pose proof (block_dims n n U 0 n r0 (r0 + len) HU ltac:(lia) ltac:(lia)) as Hb.
    replace (r0 + len - r0)%nat with len in Hb by lia. rewrite Nat.sub_0_r in Hb. exact Hb. }
  destruct (house_right_index n len blkU beta nu HblkU Hnl) as (HdU & HgU).
  assert (HU1 : dims n n U1) by (apply (put_block_dims n n U _ n len); [exact HU|exact HdU|lia|lia]).
  assert (LU : forall a b, (a < n)%nat -> (b < n)%nat -> G U1 a b = mmul n (G U) P a b).
  { intros a b Ha Hb. unfold mmul, P.
    rewrite (refl_emb_right beta r0 len n nu (fun c => G U a c) b Hnl) by lia.
    unfold U1. rewrite (put_block_G n n U _ n len 0 r0 a b HU HdU) by lia.
    assert (E0 : Nat.leb 0 a = true) by reflexivity.
    assert (E3 : Nat.ltb a (0 + n) = true) by (apply Nat.ltb_lt; lia).
    rewrite E0, E3. cbn [andb].
    destruct (Nat.leb r0 b && Nat.ltb b (r0 + len))%bool eqn:E; [|reflexivity].
    apply andb_prop in E. destruct E as (Ea & Eb). apply Nat.leb_le in Ea. apply Nat.ltb_lt in Eb.
    rewrite Nat.sub_0_r. rewrite HgU by lia. apply sum_n_ext. intros j Hj. unfold blkU.
    rewrite (block_G n n U 0 n r0 (r0 + len) a j HU) by lia. reflexivity. }
  exists P. split; [exact HP|]. split; [exact HH2|]. split; [exact HU1|]. split; [|split; [exact LU|split]].
  - intros a b Ha Hb. rewrite L2 by assumption.
    transitivity (mmul n (mmul n P (G H)) P a b).
    { unfold mmul at 1. apply sum_n_ext. intros c Hc. rewrite L1 by assumption. reflexivity. }
    rewrite mmul_assoc. apply mmul_ext_all; [|reflexivity].
    intros a' b'. unfold tr, P. apply refl_symmetric.
  - (* the bulge moves one step down *)
    intros a b Hab Hc.
    destruct (Nat.lt_ge_cases a n) as [Ha|Ha].
    2:{ apply G_out_row. destruct HH2 as (-> & _). exact Ha. }
    assert (Hb : (b < n)%nat) by lia.
    assert (HzH : forall a' b', (a' < n)%nat -> ~ (r0 <= a' < r0 + len)%nat -> (b' + 1 < a')%nat ->
              (p + nn <= a' \/ r0 + 3 < a' \/ b' + 1 < r0 \/ k = 0)%nat -> G H a' b' = 0).
    { intros a' b' Ha' Hnr Hab' Hc'. apply Hpat; [exact Hab'|]. unfold r0 in *. lia. }
    destruct (Nat.le_gt_cases r0 b) as [Hb1|Hb1]; [destruct (Nat.lt_ge_cases b (r0 + len)) as [Hb2|Hb2]|].
    + (* column inside the reflector *)
      assert (Hao : (p + nn <= a \/ r0 + 3 < a)%nat) by (unfold r0 in *; lia).
      rewrite E2in by lia. apply sum_n_zero. intros j Hj. cbv beta.
      rewrite E1out by lia.
      destruct Hao as [Hao|Hao].
      * rewrite D2 by lia. ring.
      * rewrite HzH by lia. ring.
    + rewrite E2out by lia.
      destruct (Nat.lt_ge_cases a (r0 + len)) as [Ha2|Ha2]; [lia|].
      rewrite E1out by lia. apply Hpat; [exact Hab|]. unfold r0 in *. lia.
    + (* column left of the reflector *)
      rewrite E2out by lia.
      destruct (Nat.le_gt_cases r0 a) as [Ha1|Ha1]; [destruct (Nat.lt_ge_cases a (r0 + len)) as [Ha2|Ha2]|].
      * rewrite E1in by lia.
        destruct (Nat.eq_dec k 0) as [Hk|Hk].
        { apply sum_n_zero. intros j Hj. cbv beta. rewrite D1 by (unfold r0 in *; lia). ring. }
        destruct (Nat.eq_dec (b + 1) r0) as [Eb|Nb].
        -- rewrite <- (Hrest (a - r0)%nat) by lia. unfold refl_apply.
           apply sum_n_ext. intros j Hj. rewrite Hx by lia. do 2 f_equal. lia.
        -- apply sum_n_zero. intros j Hj. cbv beta.
           rewrite Hpat; [ring|lia|unfold r0 in *; lia].
      * rewrite E1out by lia.
        destruct (Nat.eq_dec k 0) as [Hk|Hk]; [apply Hpat; [exact Hab|left; exact Hk]|].
        apply Hpat; [exact Hab|].
        destruct (Nat.eq_dec (b + 1) r0) as [Eb|Nb]; [|unfold r0 in *; lia].
        destruct (Hclose ltac:(lia)) as [E3|E3]; unfold r0 in *; lia.
      * rewrite E1out by lia. apply Hpat; [exact Hab|]. unfold r0 in *. lia.
  - (* rows below the block and columns left of it are untouched *)
    intros a b Hab.
    destruct (Nat.lt_ge_cases a n) as [Ha|Ha].
    2:{ rewrite !G_out_row; [reflexivity| |]; [destruct HH as (-> & _)|destruct HH2 as (-> & _)]; exact Ha. }
    destruct (Nat.lt_ge_cases b n) as [Hb|Hb].
    2:{ rewrite (G_out_col n n H2 a b HH2 Hb), (G_out_col n n H a b HH Hb). reflexivity. }
    destruct Hab as [Hab|Hab].
    + destruct (Nat.le_gt_cases r0 b) as [Hb1|Hb1]; [destruct (Nat.lt_ge_cases b (r0 + len)) as [Hb2|Hb2]|].
      * rewrite E2in by lia. rewrite (D2 a b) by lia.
        apply sum_n_zero. intros j Hj. cbv beta. rewrite ZR by lia. ring.
      * rewrite E2out by lia. apply E1out; lia.
      * rewrite E2out by lia. apply E1out; lia.
    + rewrite E2out by (unfold r0 in *; lia).
      destruct (Nat.le_gt_cases r0 a) as [Ha1|Ha1]; [destruct (Nat.lt_ge_cases a (r0 + len)) as [Ha2|Ha2]|].
      * rewrite E1in by lia. rewrite (D1 a b) by (unfold r0 in *; lia).
        apply sum_n_zero. intros j Hj. cbv beta. rewrite D1 by (unfold r0 in *; lia). ring.
      * apply E1out; lia.
      * apply E1out; lia.
Qed.

(* the vector handed to householder.Run *)
Lemma francis_x_shape n p nn k (H : rmat) :
  dims n n H -> (p + nn <= n)%nat -> (3 <= nn)%nat -> (k <= nn - 2)%nat ->
  exists x0 xt, francis_x XR (block H p (p + nn) p (p + nn)) nn k = x0 :: xt /\
    (p + k + length (x0 :: xt) <= p + nn)%nat /\ (length (x0 :: xt) <= 3)%nat /\
    ((1 <= k)%nat -> forall j, (j < length (x0 :: xt))%nat -> V (x0 :: xt) j = G H (p + k + j) (p + k - 1)) /\
    ((1 <= k)%nat -> length (x0 :: xt) = 3%nat \/ (p + k + length (x0 :: xt) = p + nn)%nat).
Proof.
  intros HH Hpn Hnn Hk.
  assert (GB : forall a b, (a < nn)%nat -> (b < nn)%nat ->
            get XR (block H p (p + nn) p (p + nn)) a b = G H (p + a) (p + b)).
  { intros a b Ha Hb. change (get XR (block H p (p + nn) p (p + nn)) a b) with (G (block H p (p + nn) p (p + nn)) a b).
    apply (block_G n n); try assumption; lia. }
  destruct k as [|k'].
  - eexists. eexists. split; [reflexivity|]. cbn [length]. repeat split; try lia.
  - cbn [francis_x]. destruct (Nat.ltb (S k' + 2) nn) eqn:E.
    + apply Nat.ltb_lt in E. eexists. eexists. split; [reflexivity|]. cbn [length].
      split; [lia|]. split; [lia|]. split; [|intros _; left; reflexivity].
      intros _ j Hj. unfold V.
      destruct j as [|[|[|j]]]; [| | |lia]; cbn [nth]; rewrite GB by lia; f_equal; lia.
    + apply Nat.ltb_ge in E. eexists. eexists. split; [reflexivity|]. cbn [length].
      split; [lia|]. split; [lia|]. split; [|intros _; right; lia].
      intros _ j Hj. unfold V.
      destruct j as [|[|j]]; [| |lia]; cbn [nth]; rewrite GB by lia; f_equal; lia.
Qed.

Definition decoupled_lo (p : nat) (H : rmat) : Prop := forall a b, (p <= a)%nat -> (b < p)%nat -> G H a b = 0.
Definition decoupled_hi (q : nat) (H : rmat) : Prop := forall a b, (q <= a)%nat -> (b < q)%nat -> G H a b = 0.

(* one francis_refl is the similarity by the padded reflector: the skipped regions are zero
   under the bulge pattern *)
Lemma francis_refl_similarity n p nn k (H U : rmat) :
  dims n n H -> dims n n U -> (p + nn <= n)%nat -> (3 <= nn)%nat -> (k <= nn - 2)%nat ->
  fpat p nn k H -> decoupled_lo p H -> decoupled_hi (p + nn) H ->
  exists (P : fmatR) (H' U' : rmat),
    francis_refl XR n p nn k (H, Some U) = (H', Some U') /\
    orth n P /\ dims n n H' /\ dims n n U' /\
    meq n n (G H') (mmul n (tr P) (mmul n (G H) P)) /\
    meq n n (G U') (mmul n (G U) P) /\
    fpat p nn (S k) H' /\
    (forall a b, (p + nn <= a \/ b < p)%nat -> G H' a b = G H a b).
Proof.
  intros HH HU Hpn Hnn Hk Hpat D1 D2.
  destruct (francis_x_shape n p nn k H HH Hpn Hnn Hk) as (x0 & xt & Ex & Hfit & Hl3 & Hent & Hcl).
  pose proof (francis_refl_core n p nn k H U x0 xt) as C. cbv zeta in C.
  destruct (C HH HU Hpn Hfit Hl3 Hpat D1 D2 Hent Hcl) as (P & HP & D & DU & EH & EU & Hp' & Hkeep).
  exists P. eexists. eexists. split.
  { unfold francis_refl, opt_house_right. rewrite Ex. cbv zeta. reflexivity. }
  split; [exact HP|]. split; [exact D|]. split; [exact DU|]. split; [exact EH|]. split; [exact EU|].
  split; [exact Hp'|exact Hkeep].
Qed.

(* ================================================================== *)
(* the whole sweep *)

Definition finv (n p nn : nat) (H0 U0 : rmat) (k : nat) (H U : rmat) : Prop :=
  dims n n H /\ dims n n U /\ fpat p nn k H /\ decoupled_lo p H /\ decoupled_hi (p + nn) H /\
  (forall a b, (p + nn <= a \/ b < p)%nat -> G H a b = G H0 a b) /\
  meq n n (uhut n (G H, G U)) (uhut n (G H0, G U0)) /\
  (orth n (G U0) -> orth n (G U)).

Lemma finv_step n p nn H0 U0 k H U :
  (p + nn <= n)%nat -> (3 <= nn)%nat -> (k <= nn - 2)%nat -> finv n p nn H0 U0 k H U ->
  exists H' U', francis_refl XR n p nn k (H, Some U) = (H', Some U') /\ finv n p nn H0 U0 (S k) H' U'.
Proof.
  intros Hpn Hnn Hk (HH & HU & Hpat & D1 & D2 & Hkeep & Hsim & Horth).
  destruct (francis_refl_similarity n p nn k H U HH HU Hpn Hnn Hk Hpat D1 D2)
    as (P & H' & U' & E & HP & HH' & HU' & EH & EU & Hpat' & Hkeep').
  exists H', U'. split; [exact E|].
  split; [exact HH'|]. split; [exact HU'|]. split; [exact Hpat'|]. split; [|split; [|split; [|split]]].
  - intros a b Ha Hb. rewrite Hkeep' by (right; exact Hb). apply D1; assumption.
  - intros a b Ha Hb. rewrite Hkeep' by (left; exact Ha). apply D2; assumption.
  - intros a b Hab. rewrite Hkeep' by exact Hab. apply Hkeep. exact Hab.
  - apply meq_trans with (uhut n (qr_step n (Sim P) (G H, G U))).
    + unfold qr_step. cbn [fst snd]. apply ProofsTrace.uhut_congr; assumption.
    + apply meq_trans with (uhut n (G H, G U)); [|exact Hsim]. apply qr_step_invariant. exact HP.
  - intro HO. apply (orth_meq n (mmul n (G U) P)); [apply meq_sym; exact EU|].
    apply orth_mmul; [apply Horth; exact HO|exact HP].
Qed.

Lemma finv_run n p nn H0 U0 cnt : forall k H U,
  (p + nn <= n)%nat -> (3 <= nn)%nat -> (k + cnt <= nn - 1)%nat -> finv n p nn H0 U0 k H U ->
  exists H' U', iter_steps (francis_refl XR n p nn) k cnt (H, Some U) = (H', Some U') /\
                finv n p nn H0 U0 (k + cnt) H' U'.
Proof.
  induction cnt as [|cnt IH]; intros k H U Hpn Hnn Hk Hinv.
  - exists H, U. rewrite Nat.add_0_r. split; [reflexivity|exact Hinv].
  - destruct (finv_step n p nn H0 U0 k H U Hpn Hnn ltac:(lia) Hinv) as (H1 & U1 & E1 & Hinv1).
    destruct (IH (S k) H1 U1 Hpn Hnn ltac:(lia) Hinv1) as (H' & U' & E' & Hinv').
    exists H', U'. split.
    + cbn [iter_steps]. rewrite E1. exact E'.
    + replace (k + S cnt)%nat with (S k + cnt)%nat by lia. exact Hinv'.
Qed.

Theorem francis_sweep_sound : francis_sweep_spec.
Proof.
  intros n p nn H U HH Hhess HU Hpn Hnn Hlo Hhi.
  assert (Hinit : finv n p nn H U 0 H U).
  { split; [exact HH|]. split; [exact HU|]. split; [|split; [|split; [|split; [|split]]]].
    - intros a b Hab _. apply Hhess. exact Hab.
    - intros a b Ha Hb. destruct (Nat.eq_dec a (b + 1)) as [E|E].
      + replace a with p by lia. replace b with (p - 1)%nat by lia. apply Hlo. lia.
      + apply Hhess. lia.
    - intros a b Ha Hb. destruct (Nat.lt_ge_cases a n) as [Han|Han].
      2:{ apply G_out_row. destruct HH as (-> & _). exact Han. }
      destruct (Nat.eq_dec a (b + 1)) as [E|E].
      + replace a with (p + nn)%nat by lia. replace b with (p + nn - 1)%nat by lia. apply Hhi. lia.
      + apply Hhess. lia.
    - intros a b _. reflexivity.
    - apply meq_refl.
    - auto. }
  destruct (finv_run n p nn H U (nn - 1) 0 H U Hpn Hnn ltac:(lia) Hinit)
    as (H' & U' & E & HH' & HU' & Hpat & _ & _ & Hkeep & Hsim & Horth).
  exists H', U'. split; [exact E|]. split; [exact HH'|]. split; [|split; [exact HU'|split; [exact Hkeep|split; [exact Hsim|exact Horth]]]].
  intros a b Hab. apply Hpat; [exact Hab|]. cbn [Nat.add].
  destruct (Nat.lt_ge_cases a (p + nn)); lia.
Qed.
