(* C05 ProofsGivens — placeholder, filled below *)
