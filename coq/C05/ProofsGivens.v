(* C05 — Givens rotations: c^2 + s^2 = 1, the rotation zeroes the targeted
   entry, and the applied map is orthogonal. *)
From Coq Require Import Reals List Lia Lra Bool.
From ADV Require Import Base.Num C05.Model C05.Spec C05.ProofsBase.
Import ListNotations.
Open Scope R_scope.

Lemma inv_sqrt_sq (w : R) : 0 < w -> (1 / sqrt w) * (1 / sqrt w) * w = 1.
Proof.
  intro Hw. assert (Hs : sqrt w <> 0) by (apply Rgt_not_eq; apply sqrt_lt_R0; auto).
  assert (E : sqrt w * sqrt w = w) by (apply sqrt_sqrt; lra).
  rewrite <- E at 3. field. exact Hs.
Qed.

Lemma givens_cases (a b : R) :
  (b = 0 /\ givens XR a b = (1, 0)) \/
  (b <> 0 /\ Rabs a < Rabs b /\
   givens XR a b = (- (a / b) * (1 / sqrt (- (a / b) * - (a / b) + 1)), 1 / sqrt (- (a / b) * - (a / b) + 1))) \/
  (b <> 0 /\ a <> 0 /\
   givens XR a b = (1 / sqrt (- (b / a) * - (b / a) + 1), - (b / a) * (1 / sqrt (- (b / a) * - (b / a) + 1)))).
Proof.
  unfold givens. change (eqb (nx XR)) with Reqb. change (ltb (nx XR)) with Rltb.
  change (nabs (nx XR)) with Rabs. change (zero (nx XR)) with 0. change (one (nx XR)) with 1.
  destruct (Reqb b 0) eqn:Eb.
  - left. apply Reqb_true in Eb. auto.
  - assert (Hb : b <> 0) by (intro Hb; apply Reqb_true in Hb; congruence).
    right. destruct (Rltb (Rabs a) (Rabs b)) eqn:El.
    + left. apply Rltb_true in El. repeat split; auto.
    + right. split; auto. split; [|reflexivity].
      intro Ha. subst a. rewrite Rabs_R0 in El.
      assert (Rltb 0 (Rabs b) = true) by (apply Rltb_true; apply Rabs_pos_lt; auto). congruence.
Qed.

Lemma givens_unit (a b : R) : let cs := givens XR a b in fst cs * fst cs + snd cs * snd cs = 1.
Proof.
  destruct (givens_cases a b) as [(_ & E)|[(_ & _ & E)|(_ & _ & E)]]; rewrite E; simpl.
  - lra.
  - set (t := - (a / b)). assert (Hw : 0 < t * t + 1) by nra.
    pose proof (inv_sqrt_sq _ Hw) as Hq. nra.
  - set (t := - (b / a)). assert (Hw : 0 < t * t + 1) by nra.
    pose proof (inv_sqrt_sq _ Hw) as Hq. nra.
Qed.

(* the rotation computed from (a, b) sends (a, b) to (r, 0) *)
Lemma givens_zeroes (a b : R) :
  let cs := givens XR a b in snd (giv_apply XR (fst cs) (snd cs) a b) = 0.
Proof.
  destruct (givens_cases a b) as [(Hb & E)|[(Hb & _ & E)|(Hb & Ha & E)]]; rewrite E; simpl.
  - subst b. lra.
  - field. split; [|exact Hb]. apply Rgt_not_eq. apply sqrt_lt_R0. nra.
  - field. split; [|exact Ha]. apply Rgt_not_eq. apply sqrt_lt_R0. nra.
Qed.

(* apply is an orthogonal 2x2 map whenever c^2 + s^2 = 1 *)
Lemma giv_apply_inner (c s a1 a2 b1 b2 : R) :
  c * c + s * s = 1 ->
  fst (giv_apply XR c s a1 a2) * fst (giv_apply XR c s b1 b2) +
  snd (giv_apply XR c s a1 a2) * snd (giv_apply XR c s b1 b2) = a1 * b1 + a2 * b2.
Proof.
  intro H. simpl. transitivity ((c * c + s * s) * (a1 * b1 + a2 * b2)); [ring|rewrite H; ring].
Qed.

Lemma giv_apply_norm (c s a1 a2 : R) :
  c * c + s * s = 1 ->
  fst (giv_apply XR c s a1 a2) * fst (giv_apply XR c s a1 a2) +
  snd (giv_apply XR c s a1 a2) * snd (giv_apply XR c s a1 a2) = a1 * a1 + a2 * a2.
Proof. intro H. apply giv_apply_inner. exact H. Qed.
