(* C05 — cholesky_ldl_forcepd returns the pair of cholesky_ldl when the
   Gill-Murray-Wright bounds are inactive: the one-column fact
   [pick_fpd_inactive] lifted through the column loop [ldl_cols]. *)
From Coq Require Import Reals List Lia Lra Bool.
From ADV Require Import Base.Num C05.Model C05.Spec C05.ProofsBase C05.ProofsLdl.
Import ListNotations.
Open Scope R_scope.

(* ---------- list access ---------- *)
Lemma nth_firstn_lt' {T} (l : list T) d : forall i k, (k < i)%nat -> nth k (firstn i l) d = nth k l d.
Proof.
  induction l as [|x l IH]; intros i k Hk.
  - rewrite firstn_nil. reflexivity.
  - destruct i as [|i]; [lia|]. destruct k as [|k]; simpl; [reflexivity|]. apply IH. lia.
Qed.

(* ---------- the column loop only appends ---------- *)
Lemma ldl_cols_prefix (pick : nat -> R -> list R -> option R) (n : nat) (Am : rmat) :
  forall fuel prev cols,
  ldl_cols XR pick n Am fuel prev = Some cols ->
  firstn (length prev) cols = prev /\ length cols = (length prev + fuel)%nat.
Proof.
  induction fuel as [|fuel IH]; intros prev cols H.
  - simpl in H. inversion H; subst cols. split; [apply firstn_all|lia].
  - cbn [ldl_cols] in H.
    destruct (pick (length prev) (nth (length prev) (ldl_cvec XR n (length prev) Am prev) (zero (nx XR)))
                   (skipn (S (length prev)) (ldl_cvec XR n (length prev) Am prev))) as [d|]; [|discriminate].
    destruct (IH _ _ H) as (Hf & Hl). rewrite app_length in Hf, Hl. simpl in Hf, Hl. split; [|lia].
    assert (E : firstn (length prev) cols = firstn (length prev) (firstn (length prev + 1) cols)).
    { rewrite firstn_firstn. f_equal. lia. }
    rewrite E, Hf. rewrite firstn_app, Nat.sub_diag, firstn_all. simpl. apply app_nil_r.
Qed.

(* ---------- generic: the loop depends on the pivot choice only through the
   values it takes on the columns actually reached ---------- *)
Lemma ldl_cols_pick_ext (pick1 pick2 : nat -> R -> list R -> option R) (n : nat) (Am : rmat) :
  forall fuel prev cols,
  ldl_cols XR pick1 n Am fuel prev = Some cols ->
  (forall j, (length prev <= j < length prev + fuel)%nat ->
     let cv := ldl_cvec XR n j Am (firstn j cols) in
     pick2 j (nth j cv 0) (skipn (S j) cv) = pick1 j (nth j cv 0) (skipn (S j) cv)) ->
  ldl_cols XR pick2 n Am fuel prev = Some cols.
Proof.
  induction fuel as [|fuel IH]; intros prev cols H Hpk.
  - simpl in H. simpl. exact H.
  - destruct (ldl_cols_prefix pick1 n Am (S fuel) prev cols H) as (Hf & _).
    cbn [ldl_cols] in H. cbn [ldl_cols].
    change (zero (nx XR)) with 0 in *.
    specialize (Hpk (length prev) ltac:(lia)) as Hj. cbv zeta in Hj. rewrite Hf in Hj.
    rewrite Hj.
    destruct (pick1 (length prev) (nth (length prev) (ldl_cvec XR n (length prev) Am prev) 0)
                    (skipn (S (length prev)) (ldl_cvec XR n (length prev) Am prev))) as [d|]; [|discriminate].
    apply IH; [exact H|].
    intros j Hjr. rewrite app_length in Hjr. simpl in Hjr. apply Hpk. lia.
Qed.

(* ---------- the running maximum ---------- *)
Lemma upd_max_R m x : upd_max XR m x = if Rltb m (Rabs x) then Rabs x else m.
Proof. reflexivity. Qed.

Lemma fold_upd_max_cases : forall (l : list R) (m : R),
  fold_left (upd_max XR) l m = m \/ exists x, In x l /\ fold_left (upd_max XR) l m = Rabs x.
Proof.
  induction l as [|a l IH]; intro m; [left; reflexivity|].
  change (fold_left (upd_max XR) (a :: l) m) with (fold_left (upd_max XR) l (upd_max XR m a)).
  destruct (IH (upd_max XR m a)) as [E|(x & Hin & E)].
  - rewrite E, upd_max_R. destruct (Rltb m (Rabs a)).
    + right. exists a. split; [left; reflexivity|reflexivity].
    + left. reflexivity.
  - right. exists x. split; [right; exact Hin|exact E].
Qed.

Lemma fold_upd_max_nonempty (l : list R) :
  l <> [] -> exists x, In x l /\ fold_left (upd_max XR) l (-1) = Rabs x.
Proof.
  destruct l as [|a l]; [intro H; contradiction|]. intros _.
  change (fold_left (upd_max XR) (a :: l) (-1)) with (fold_left (upd_max XR) l (upd_max XR (-1) a)).
  assert (E : upd_max XR (-1) a = Rabs a).
  { rewrite upd_max_R. destruct (Rltb (-1) (Rabs a)) eqn:El; [reflexivity|].
    exfalso. assert (Rltb (-1) (Rabs a) = true) by (apply Rltb_true; pose proof (Rabs_pos a); lra).
    congruence. }
  rewrite E. destruct (fold_upd_max_cases l (Rabs a)) as [E2|(x & Hin & E2)].
  - exists a. split; [left; reflexivity|exact E2].
  - exists x. split; [right; exact Hin|exact E2].
Qed.

(* ---------- main theorem ---------- *)
(* The inactivity conditions are stated on the RESULT (L, D) of cholesky_ldl:
   D_jj >= delta for every column, and (c_ij / beta)^2 <= D_jj for every entry
   c_ij = L_ij * D_jj (i > j) of the unscaled column j; theta_j = max_i |c_ij|.
   (j < i < n already forces j <> n-1, the column for which the code does not use
   theta.)  Nothing is assumed about beta or about symmetry of A. *)
Theorem forcepd_equals_ldl_when_inactive :
  forall (A L D : rmat) (n : nat) (bfloor delta : R),
  dims n n A ->
  cholesky_ldl XR A = Some (L, D) ->
  (forall j, (j < n)%nat -> delta <= G D j j) ->
  (forall j i, (j < i < n)%nat ->
     (G L i j * G D j j / fpd_beta XR bfloor A) * (G L i j * G D j j / fpd_beta XR bfloor A) <= G D j j) ->
  cholesky_ldl_forcepd XR bfloor delta A = Some (L, D).
Proof.
  intros A L D n bfloor delta (HA & _) Hrun Hdel Hth.
  unfold cholesky_ldl, ldl_gen in Hrun. rewrite HA in Hrun.
  destruct (ldl_cols XR (pick_ldl XR) n A n []) as [cs|] eqn:E; [|discriminate].
  assert (EL : L = transpose_n XR n (map snd cs)) by congruence.
  assert (ED : D = diagm XR (map fst cs)) by congruence.
  clear Hrun.
  unfold cholesky_ldl_forcepd, ldl_gen. rewrite HA.
  set (beta := fpd_beta XR bfloor A) in *.
  destruct (ldl_cols_spec (pick_ldl XR) n A HA n [] cs ltac:(simpl; lia)
              ltac:(intros k Hk; simpl in Hk; lia) E) as (Hl & Hk).
  assert (HD : forall j, (j < n)%nat -> G D j j = dk cs j).
  { intros j Hj. rewrite ED. rewrite G_diagm by (rewrite map_length; lia). rewrite Nat.eqb_refl. unfold dk.
    change 0 with (fst (0, @nil R)). rewrite (map_nth fst). reflexivity. }
  assert (HL : forall i j, (i < n)%nat -> G L i j = ck cs j i).
  { intros i j Hi. rewrite EL. apply G_L_cols. exact Hi. }
  rewrite (ldl_cols_pick_ext (pick_ldl XR) (pick_fpd XR n beta delta) n A n [] cs E).
  { rewrite EL, ED. reflexivity. }
  intros j Hj. simpl in Hj. assert (Hjn : (j < n)%nat) by lia. clear Hj. cbv zeta.
  (* the column vector of column j, from the finished columns *)
  assert (Hfl : length (firstn j cs) = j) by (rewrite firstn_length; lia).
  assert (Hpl : forall k, (k < length (firstn j cs))%nat -> length (snd (nth k (firstn j cs) (0, []))) = n).
  { intros k Hk'. rewrite Hfl in Hk'. rewrite nth_firstn_lt' by exact Hk'.
    destruct (Hk k ltac:(lia)) as ((H1 & _) & _). exact H1. }
  destruct (cvec_spec n j A (firstn j cs) HA Hpl) as (Hcl & Hcn).
  set (cv := ldl_cvec XR n j A (firstn j cs)) in *.
  assert (Esum : forall i, sum_n (fun m => dk (firstn j cs) m * (ck (firstn j cs) m i * ck (firstn j cs) m j))
                                 (length (firstn j cs))
                           = sum_n (fun m => dk cs m * (ck cs m i * ck cs m j)) j).
  { intro i. rewrite Hfl. apply sum_n_ext. intros m Hm. unfold dk, ck.
    rewrite nth_firstn_lt' by exact Hm. reflexivity. }
  destruct (Hk j Hjn) as ((_ & _ & _ & Hoff) & Hpick).
  unfold pick_ok in Hpick. apply pick_ldl_some in Hpick. destruct Hpick as (Hdc & Hpos).
  assert (Hcj : nth j cv 0 = dk cs j).
  { rewrite Hcn by exact Hjn. rewrite Esum. rewrite Hdc. reflexivity. }
  assert (Hci : forall i, (j < i < n)%nat -> nth i cv 0 = G L i j * G D j j).
  { intros i Hi. rewrite Hcn by lia. rewrite Esum. rewrite HL, HD by lia.
    rewrite (Hoff i Hi). field. lra. }
  apply pick_fpd_inactive.
  - rewrite Hcj. lra.
  - rewrite Hcj, <- HD by exact Hjn. apply Hdel. exact Hjn.
  - intro Hne.
    assert (Hne' : skipn (S j) cv <> []).
    { intro E0. apply (f_equal (@length R)) in E0. rewrite skipn_length, Hcl in E0. simpl in E0. lia. }
    destruct (fold_upd_max_nonempty _ Hne') as (x & Hin & Ex). rewrite Ex.
    apply In_nth with (d := 0) in Hin. destruct Hin as (k & Hklen & Hkx).
    rewrite skipn_length, Hcl in Hklen. rewrite nth_skipn_add in Hkx.
    rewrite Hci in Hkx by lia. rewrite Hcj, <- HD by exact Hjn.
    specialize (Hth j (S j + k)%nat ltac:(lia)). rewrite Hkx in Hth.
    assert (Eabs : Rabs x * Rabs x = x * x).
    { destruct (Rcase_abs x) as [Hn|Hp]; [rewrite Rabs_left by lra|rewrite Rabs_right by lra]; lra. }
    unfold Rdiv in *.
    replace (Rabs x * / beta * (Rabs x * / beta)) with (Rabs x * Rabs x * (/ beta * / beta)) by ring.
    rewrite Eabs. replace (x * x * (/ beta * / beta)) with (x * / beta * (x * / beta)) by ring.
    exact Hth.
Qed.

(* the same statement with theta_j written as the running maximum over the
   explicit list of the unscaled entries of column j *)
Corollary forcepd_equals_ldl_when_inactive_theta :
  forall (A L D : rmat) (n : nat) (bfloor delta : R),
  dims n n A ->
  cholesky_ldl XR A = Some (L, D) ->
  (forall j, (j < n)%nat -> delta <= G D j j) ->
  (forall j, (j < n)%nat -> j <> (n - 1)%nat ->
     let theta := fold_left (upd_max XR) (map (fun i => G L i j * G D j j) (seq (S j) (n - S j))) (-1) in
     (theta / fpd_beta XR bfloor A) * (theta / fpd_beta XR bfloor A) <= G D j j) ->
  cholesky_ldl_forcepd XR bfloor delta A = Some (L, D).
Proof.
  intros A L D n bfloor delta HdA Hrun Hdel Hth.
  apply (forcepd_equals_ldl_when_inactive A L D n bfloor delta HdA Hrun Hdel).
  intros j i Hi. specialize (Hth j ltac:(lia) ltac:(lia)). cbv zeta in Hth.
  set (beta := fpd_beta XR bfloor A) in *.
  set (l := map (fun i => G L i j * G D j j) (seq (S j) (n - S j))) in *.
  set (x := G L i j * G D j j).
  assert (Hin : In x l).
  { unfold l, x. apply in_map_iff. exists i. split; [reflexivity|]. apply in_seq. lia. }
  (* |x| <= theta *)
  assert (Hmax : forall (l : list R) (m : R), (forall y, In y l -> Rabs y <= fold_left (upd_max XR) l m) /\
                                               m <= fold_left (upd_max XR) l m).
  { clear. induction l as [|a l IH]; intro m; [split; [intros y []|simpl; lra]|].
    change (fold_left (upd_max XR) (a :: l) m) with (fold_left (upd_max XR) l (upd_max XR m a)).
    destruct (IH (upd_max XR m a)) as (H1 & H2).
    assert (Hu : m <= upd_max XR m a /\ Rabs a <= upd_max XR m a).
    { rewrite upd_max_R. destruct (Rltb m (Rabs a)) eqn:El.
      - apply Rltb_true in El. lra.
      - split; [lra|]. destruct (Rle_dec (Rabs a) m); auto.
        exfalso. assert (Rltb m (Rabs a) = true) by (apply Rltb_true; lra). congruence. }
    split; [|lra]. intros y [<-|Hy]; [lra|apply H1; exact Hy]. }
  destruct (Hmax l (-1)) as (Hle & _). specialize (Hle x Hin).
  set (theta := fold_left (upd_max XR) l (-1)) in *.
  assert (Hx0 : 0 <= Rabs x) by apply Rabs_pos.
  assert (Eabs : Rabs x * Rabs x = x * x).
  { destruct (Rcase_abs x) as [Hn|Hp]; [rewrite Rabs_left by lra|rewrite Rabs_right by lra]; lra. }
  unfold Rdiv in *.
  replace (x * / beta * (x * / beta)) with (Rabs x * Rabs x * (/ beta * / beta)) by (rewrite Eabs; ring).
  apply Rle_trans with (theta * / beta * (theta * / beta)); [|exact Hth].
  replace (theta * / beta * (theta * / beta)) with (theta * theta * (/ beta * / beta)) by ring.
  assert (0 <= / beta * / beta) by (pose proof (Rle_0_sqr (/ beta)) as Hs; unfold Rsqr in Hs; exact Hs).
  apply Rmult_le_compat_r; [assumption|].
  nra.
Qed.
