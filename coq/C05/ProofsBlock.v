(* C05 — index-form lemmas for the block operations of the model (block,
   put_block, col, set_nth), reflectors embedded in a larger identity, and
   splitting of finite sums.  Used by the reduction theorems. *)
From Coq Require Import Reals List Lia Lra Bool.
From ADV Require Import Base.Num C05.Model C05.Spec C05.ProofsBase C05.ProofsHouse C05.ProofsHouse2.
Import ListNotations.
Open Scope R_scope.

(* ---------- sums ---------- *)
Lemma sum_n_split (f : nat -> R) m n : (m <= n)%nat ->
  sum_n f n = sum_n f m + sum_n (fun a => f (m + a)%nat) (n - m).
Proof.
  intro Hle. replace n with (m + (n - m))%nat at 1 by lia.
  generalize (n - m)%nat as d. induction d as [|d IH].
  - rewrite Nat.add_0_r. simpl. lra.
  - replace (m + S d)%nat with (S (m + d)) by lia. simpl. rewrite IH. lra.
Qed.

(* ---------- lists ---------- *)
Lemma nth_firstn_lt {T} (l : list T) n i d : (i < n)%nat -> nth i (firstn n l) d = nth i l d.
Proof.
  revert l i. induction n as [|n IH]; intros l i Hi; [lia|].
  destruct l as [|a l]; [destruct i; reflexivity|]. destruct i; [reflexivity|]. simpl. apply IH. lia.
Qed.

Lemma firstn_length_le {T} (l : list T) n : (n <= length l)%nat -> length (firstn n l) = n.
Proof. intro H. rewrite firstn_length. lia. Qed.

Lemma nth_zeros k i : nth i (zeros XR k) 0 = 0.
Proof. unfold zeros. apply nth_repeat0. Qed.

Lemma zeros_length k : length (zeros XR k) = k.
Proof. unfold zeros. apply repeat_length. Qed.

(* ---------- block ---------- *)
Lemma block_dims R C (M : rmat) r0 r1 c0 c1 :
  dims R C M -> (r0 <= r1 <= R)%nat -> (c0 <= c1 <= C)%nat ->
  dims (r1 - r0) (c1 - c0) (block M r0 r1 c0 c1).
Proof.
  intros (Hl & Hrows) Hr Hc. unfold block. split.
  - rewrite map_length, firstn_length, skipn_length. lia.
  - intros row Hin. apply in_map_iff in Hin. destruct Hin as (row0 & <- & Hin0).
    assert (Hin1 : In row0 M).
    { rewrite <- (firstn_skipn r0 M). apply in_or_app. right.
      rewrite <- (firstn_skipn (r1 - r0) (skipn r0 M)). apply in_or_app. left. exact Hin0. }
    rewrite firstn_length, skipn_length, (Hrows row0 Hin1). lia.
Qed.

Lemma block_G R C (M : rmat) r0 r1 c0 c1 i j :
  dims R C M -> (r0 <= r1 <= R)%nat -> (c0 <= c1 <= C)%nat ->
  (i < r1 - r0)%nat -> (j < c1 - c0)%nat ->
  G (block M r0 r1 c0 c1) i j = G M (r0 + i) (c0 + j).
Proof.
  intros (Hl & Hrows) Hr Hc Hi Hj. unfold G, block.
  rewrite (nth_map_lt (fun row => firstn (c1 - c0) (skipn c0 row)) _ i [] []).
  2:{ rewrite firstn_length, skipn_length. lia. }
  rewrite (nth_firstn_lt _ (c1 - c0) j 0 Hj). rewrite nth_skipn_add.
  rewrite (nth_firstn_lt _ (r1 - r0) i [] Hi). rewrite nth_skipn_add. reflexivity.
Qed.

(* ---------- put_block ---------- *)
Lemma put_row_length (row b : list R) c0 :
  (c0 + length b <= length row)%nat -> length (put_row row c0 b) = length row.
Proof.
  intro H. unfold put_row. rewrite !app_length, firstn_length, skipn_length. lia.
Qed.

Lemma put_row_nth (row b : list R) c0 j :
  (c0 + length b <= length row)%nat ->
  nth j (put_row row c0 b) 0 =
  if (Nat.leb c0 j && Nat.ltb j (c0 + length b))%bool then nth (j - c0) b 0 else nth j row 0.
Proof.
  intro H. unfold put_row.
  destruct (Nat.leb c0 j) eqn:E1; simpl.
  - apply Nat.leb_le in E1. rewrite app_nth2 by (rewrite firstn_length; lia).
    rewrite firstn_length, Nat.min_l by lia.
    destruct (Nat.ltb j (c0 + length b)) eqn:E2.
    + apply Nat.ltb_lt in E2. rewrite app_nth1 by lia. reflexivity.
    + apply Nat.ltb_ge in E2. rewrite app_nth2 by lia. rewrite nth_skipn_add. f_equal. lia.
  - apply Nat.leb_gt in E1. rewrite app_nth1 by (rewrite firstn_length; lia).
    apply nth_firstn_lt. exact E1.
Qed.

Lemma put_block_rows R C (M B : rmat) rb cb r0 c0 i :
  dims R C M -> dims rb cb B -> (r0 + rb <= R)%nat ->
  nth i (put_block M r0 c0 B) [] =
  if (Nat.leb r0 i && Nat.ltb i (r0 + rb))%bool then put_row (nth i M []) c0 (nth (i - r0) B [])
  else nth i M [].
Proof.
  intros (Hl & _) (HlB & _) Hfit. unfold put_block.
  assert (Hmid : length (map2 (fun row b => put_row row c0 b) (firstn (length B) (skipn r0 M)) B) = rb).
  { rewrite map2_length, firstn_length, skipn_length. lia. }
  destruct (Nat.leb r0 i) eqn:E1; simpl.
  - apply Nat.leb_le in E1. rewrite app_nth2 by (rewrite firstn_length; lia).
    rewrite firstn_length, Nat.min_l by lia.
    destruct (Nat.ltb i (r0 + rb)) eqn:E2.
    + apply Nat.ltb_lt in E2. rewrite app_nth1 by lia.
      rewrite (map2_nth _ _ B (i - r0) [] [] []).
      2:{ rewrite firstn_length, skipn_length. lia. }
      2:{ lia. }
      rewrite nth_firstn_lt by lia. rewrite nth_skipn_add. do 2 f_equal. lia.
    + apply Nat.ltb_ge in E2. rewrite app_nth2 by lia. rewrite Hmid, nth_skipn_add. f_equal. lia.
  - apply Nat.leb_gt in E1. rewrite app_nth1 by (rewrite firstn_length; lia).
    apply nth_firstn_lt. exact E1.
Qed.

Lemma put_block_dims R C (M B : rmat) rb cb r0 c0 :
  dims R C M -> dims rb cb B -> (r0 + rb <= R)%nat -> (c0 + cb <= C)%nat ->
  dims R C (put_block M r0 c0 B).
Proof.
  intros HM HB Hr Hc. apply dims_intro.
  - destruct HM as (Hl & _). destruct HB as (HlB & _). unfold put_block.
    rewrite !app_length, map2_length, !firstn_length, !skipn_length. lia.
  - intros i Hi. rewrite (put_block_rows R C M B rb cb r0 c0 i HM HB Hr).
    destruct (Nat.leb r0 i && Nat.ltb i (r0 + rb))%bool eqn:E.
    + apply andb_prop in E. destruct E as (E1 & E2). apply Nat.leb_le in E1. apply Nat.ltb_lt in E2.
      rewrite put_row_length; rewrite (dims_row R C M i HM Hi); [reflexivity|].
      rewrite (dims_row rb cb B (i - r0) HB) by lia. exact Hc.
    + apply (dims_row R C M i HM Hi).
Qed.

Lemma put_block_G R C (M B : rmat) rb cb r0 c0 i j :
  dims R C M -> dims rb cb B -> (r0 + rb <= R)%nat -> (c0 + cb <= C)%nat -> (i < R)%nat ->
  G (put_block M r0 c0 B) i j =
  if (Nat.leb r0 i && Nat.ltb i (r0 + rb) && Nat.leb c0 j && Nat.ltb j (c0 + cb))%bool
  then G B (i - r0) (j - c0) else G M i j.
Proof.
  intros HM HB Hr Hc Hi. unfold G at 1.
  rewrite (put_block_rows R C M B rb cb r0 c0 i HM HB Hr).
  destruct (Nat.leb r0 i && Nat.ltb i (r0 + rb))%bool eqn:E; simpl; [|reflexivity].
  apply andb_prop in E. destruct E as (E1 & E2). apply Nat.leb_le in E1. apply Nat.ltb_lt in E2.
  assert (HlB : length (nth (i - r0) B []) = cb) by (apply (dims_row rb cb B); [exact HB|lia]).
  rewrite put_row_nth by (rewrite HlB, (dims_row R C M i HM Hi); exact Hc).
  rewrite HlB. reflexivity.
Qed.

(* ---------- columns ---------- *)
Lemma col_nth R C (M : rmat) j i : dims R C M -> (i < R)%nat -> nth i (col XR j M) 0 = G M i j.
Proof.
  intros (Hl & _) Hi. unfold col, G.
  exact (nth_map_lt (fun r => nth j r 0) M i [] 0 ltac:(lia)).
Qed.

Lemma col_length (M : rmat) j : length (col XR j M) = length M.
Proof. unfold col. apply map_length. Qed.

(* ---------- a reflector embedded below m leading identity rows ---------- *)
Lemma V_pad m (nu : list R) i :
  V (zeros XR m ++ nu) i = if Nat.ltb i m then 0 else V nu (i - m).
Proof.
  unfold V. destruct (Nat.ltb i m) eqn:E.
  - apply Nat.ltb_lt in E. rewrite app_nth1 by (rewrite zeros_length; exact E). apply nth_zeros.
  - apply Nat.ltb_ge in E. rewrite app_nth2 by (rewrite zeros_length; exact E).
    rewrite zeros_length. reflexivity.
Qed.

Lemma refl_pad beta m (nu : list R) i j :
  refl beta (zeros XR m ++ nu) i j =
  if (Nat.ltb i m || Nat.ltb j m)%bool then delta i j else refl beta nu (i - m) (j - m).
Proof.
  unfold refl. rewrite !V_pad.
  destruct (Nat.ltb i m) eqn:Ei; destruct (Nat.ltb j m) eqn:Ej; simpl; try ring.
  apply Nat.ltb_ge in Ei. apply Nat.ltb_ge in Ej.
  replace (delta (i - m) (j - m)) with (delta i j); [reflexivity|].
  unfold delta. destruct (Nat.eqb i j) eqn:E.
  - apply Nat.eqb_eq in E. subst. rewrite Nat.eqb_refl. reflexivity.
  - apply Nat.eqb_neq in E. destruct (Nat.eqb (i - m) (j - m)) eqn:E'; [|reflexivity].
    apply Nat.eqb_eq in E'. lia.
Qed.

Lemma dot_pad m d (nu : list R) :
  dot (m + d) (zeros XR m ++ nu) (zeros XR m ++ nu) = dot d nu nu.
Proof.
  unfold dot. rewrite (sum_n_split _ m (m + d)) by lia.
  rewrite sum_n_zero.
  2:{ intros k Hk. rewrite V_pad. apply Nat.ltb_lt in Hk. rewrite Hk. ring. }
  replace (m + d - m)%nat with d by lia. rewrite Rplus_0_l.
  apply sum_n_ext. intros k _. rewrite V_pad.
  assert (E : Nat.ltb (m + k) m = false) by (apply Nat.ltb_ge; lia). rewrite E.
  replace (m + k - m)%nat with k by lia. reflexivity.
Qed.

(* P' M with P' = diag(I_m, P):  rows < m unchanged, rows >= m mixed by P *)
Lemma refl_pad_left_sum beta m n (nu : list R) (F : nat -> R) i : (m <= n)%nat -> (i < n)%nat ->
  sum_n (fun a => refl beta (zeros XR m ++ nu) i a * F a) n =
  if Nat.ltb i m then F i else sum_n (fun a => refl beta nu (i - m) a * F (m + a)%nat) (n - m).
Proof.
  intros Hmn Hi. destruct (Nat.ltb i m) eqn:E.
  - rewrite (sum_n_ext _ (fun a => delta i a * F a)).
    + apply sum_n_delta_l. exact Hi.
    + intros a _. rewrite refl_pad, E. reflexivity.
  - apply Nat.ltb_ge in E. rewrite (sum_n_split _ m n Hmn).
    rewrite sum_n_zero.
    2:{ intros a Ha. rewrite refl_pad. apply Nat.ltb_lt in Ha. rewrite Ha, orb_true_r.
        unfold delta. destruct (Nat.eqb i a) eqn:E'; [apply Nat.eqb_eq in E'; apply Nat.ltb_lt in Ha; lia|ring]. }
    rewrite Rplus_0_l. apply sum_n_ext. intros a _. rewrite refl_pad.
    assert (E1 : Nat.ltb i m = false) by (apply Nat.ltb_ge; exact E).
    assert (E2 : Nat.ltb (m + a) m = false) by (apply Nat.ltb_ge; lia).
    rewrite E1, E2. simpl. replace (m + a - m)%nat with a by lia. reflexivity.
Qed.

Lemma refl_pad_right_sum beta m n (nu : list R) (F : nat -> R) j : (m <= n)%nat -> (j < n)%nat ->
  sum_n (fun b => F b * refl beta (zeros XR m ++ nu) b j) n =
  if Nat.ltb j m then F j else sum_n (fun b => F (m + b)%nat * refl beta nu b (j - m)) (n - m).
Proof.
  intros Hmn Hj.
  rewrite (sum_n_ext _ (fun b => refl beta (zeros XR m ++ nu) j b * F b)).
  2:{ intros b _. rewrite (refl_symmetric beta _ b j). ring. }
  rewrite refl_pad_left_sum by assumption.
  destruct (Nat.ltb j m); [reflexivity|].
  apply sum_n_ext. intros b _. rewrite (refl_symmetric beta nu (j - m) b). ring.
Qed.
