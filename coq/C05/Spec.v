(* C05 — what the property says, over the reals, in index form.
   Matrices are lists of rows; [G M i j] is the (i,j) entry (0 outside). *)
From Coq Require Import Reals List Lia Lra.
From ADV Require Import Base.Num C05.Model.
Import ListNotations.
Open Scope R_scope.

Definition rmat := list (list R).
Definition XR := NumXR.
Definition G (M : rmat) (i j : nat) : R := nth j (nth i M []) 0.
Definition V (v : list R) (i : nat) : R := nth i v 0.

Fixpoint sum_n (f : nat -> R) (n : nat) : R :=
  match n with O => 0 | S k => sum_n f k + f k end.

Definition dims (r c : nat) (M : rmat) : Prop := length M = r /\ forall row, In row M -> length row = c.
Definition symmetric (n : nat) (A : rmat) : Prop := forall i j, (i < n)%nat -> (j < n)%nat -> G A i j = G A j i.
Definition lower_triangular (L : rmat) : Prop := forall i j, (i < j)%nat -> G L i j = 0.
Definition unit_lower_triangular (n : nat) (L : rmat) : Prop :=
  lower_triangular L /\ forall i, (i < n)%nat -> G L i i = 1.
Definition diagonal (D : rmat) : Prop := forall i j, i <> j -> G D i j = 0.

(* (L L^T)_ij and (L D L^T)_ij *)
Definition LLt (n : nat) (L : rmat) (i j : nat) : R := sum_n (fun k => G L i k * G L j k) n.
Definition LDLt (n : nat) (L D : rmat) (i j : nat) : R := sum_n (fun k => G L i k * G D k k * G L j k) n.

(* "A is positive definite", in the form that needs no determinants: A has a
   Cholesky factor with positive diagonal (equivalent to x^T A x > 0 for x <> 0) *)
Definition has_cholesky_factor (n : nat) (A Gm : rmat) : Prop :=
  dims n n Gm /\ lower_triangular Gm /\ (forall i, (i < n)%nat -> 0 < G Gm i i) /\
  forall i j, (i < n)%nat -> (j < n)%nat -> LLt n Gm i j = G A i j.

(* Householder reflector P = I - beta v v^T *)
Definition delta (i j : nat) : R := if Nat.eqb i j then 1 else 0.
Definition dot (n : nat) (x y : list R) : R := sum_n (fun k => V x k * V y k) n.
Definition refl (beta : R) (v : list R) (i j : nat) : R := delta i j - beta * V v i * V v j.
(* (P x)_i *)
Definition refl_apply (n : nat) (beta : R) (v x : list R) (i : nat) : R :=
  sum_n (fun k => refl beta v i k * V x k) n.
Definition norm2 (n : nat) (x : list R) : R := sqrt (dot n x x).
