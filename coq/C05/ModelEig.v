(* C05 — round 6: executable model of /repo/algorithm/eigensystem/eigensystem.go
   (and of backSubstitution.go, which it calls), on top of the fuelled loop model of the
   Francis QR algorithm (C05.ModelIter.francis):

     getEigenvalues      eig_values     (real eigenvalue = diagonal entry; for a 2x2 block the
                                         real part (h11 + h22) / 2 is written to BOTH positions)
     backSubstitution    backsub        (x_i = (b_i - sum_{j>i} A_ij x_j) / A_ii, i = k-1 .. 0)
     getEigenvector      eig_vector     (H_ii -= lambda, i < k ; b = -H[0..k, k] ; solve ;
                                         x_k = 1 ; H_ii += lambda ; v = U x ; v / |v|)
     getEigenvectors     eig_vectors    (column j of the Eigenvectors buffer is COPIED (Col), its
                                         entries 0..j are overwritten, the entries below j are
                                         whatever the buffer held: zero on a fresh call — the
                                         mechanism of finding F-EIG-INSITU-REUSE is part of the model)
     sortEigenvalues     sort_pairs     (sort.Sort(sort.Reverse(..)): for n <= 12 Go's pdqsort IS
                                         insertion sort; Less(i, j) = |v_j| < |v_i|)
     sortEigensystem     permute_cols   (the cycle-following loop that turns the general
                                         permutation p into column interchanges)
     eigensystem / Run   eigensystem    (Symmetric: eigenvalues = diag H, eigenvectors = U)

   One text, polymorphic in the carrier: R for the theorems (ProofsEig*.v), binary64 for the
   bit-exact replay (CorrEig.v).  No proofs in this file. *)
From Coq Require Import List ZArith Bool Reals Floats.
From ADV Require Import Base.Num C05.Model C05.ModelIter.
Import ListNotations.

Section Eig.
Context {A : Type} (X : NumX A).
Let N : Num A := nx X.
Local Notation zero' := (zero N).
Local Notation one' := (one N).
Local Notation mat' := (list (list A)).

(* ------------------------------------------------------------------ *)
(* getEigenvalues(eigenvalues, h): `for i := 0; i < n-1; i++ { .. }` with the extra i++ of the
   complex branch; [ev] is the caller's buffer *)
Fixpoint eig_vals_from (fuel : nat) (H : mat') (n i : nat) (ev : list A) : list A :=
  match fuel with
  | O => ev
  | S f =>
      if Nat.ltb (S i) n then
        if eqb N (get X H (S i) i) zero'
        then eig_vals_from f H n (S i) (set_nth ev i (get X H i i))
        else let m := div N (add N (get X H i i) (get X H (S i) (S i))) (two X) in
             eig_vals_from f H n (S (S i)) (set_nth (set_nth ev i m) (S i) m)
      else ev
  end.

Definition eig_values (H : mat') (ev0 : list A) : list A :=
  let n := length H in
  let ev := eig_vals_from n H n 0 ev0 in
  if Nat.eqb n 1 || eqb N (get X H (n - 1) (n - 2)) zero'
  then set_nth ev (n - 1) (get X H (n - 1) (n - 1)) else ev.

(* ------------------------------------------------------------------ *)
(* backSubstitution: row i of the k x k matrix, b_i, and the already computed x_{i+1..k-1}:
     x_i = b_i ; for j > i { t = A_ij * x_j ; x_i = x_i - t } ; x_i = x_i / A_ii           *)
Definition bs_row (row : list A) (i : nat) (bi : A) (xs : list A) : A :=
  div N (fold_left (fun acc ax => sub N acc (mul N (fst ax) (snd ax))) (combine (skipn (S i) row) xs) bi)
        (nth i row zero').

(* rows i, i+1, .. of the matrix and entries i, i+1, .. of b; the loop runs i = n-1 .. 0, i.e.
   the tail is solved first *)
Fixpoint backsub (rows : mat') (bs : list A) (i : nat) : list A :=
  match rows, bs with
  | row :: rows', b :: bs' => let xs := backsub rows' bs' (S i) in bs_row row i b xs :: xs
  | _, _ => []
  end.

(* ------------------------------------------------------------------ *)
(* h.At(i,i).Sub(h.At(i,i), eigenvalue) / .Add(..), i < k *)
Definition shift_diag (op : A -> A -> A) (H : mat') (k : nat) (lam : A) : mat' :=
  map2 (fun i row => if Nat.ltb i k then set_nth row i (op (nth i row zero') lam) else row)
       (seq 0 (length H)) H.

(* getEigenvector(eigenvector, eigenvalue, h, u, b, k): [tail] = entries k+1.. of the copied
   buffer column; returns h as left behind and the normalised vector *)
Definition eig_x (H : mat') (lam : A) (k : nat) : list A :=
  let H1 := shift_diag (sub N) H k lam in
  backsub (block H1 0 k 0 k) (map (fun i => neg N (get X H1 i k)) (seq 0 k)) 0.

Definition normalize (v : list A) : list A :=
  let nrm := vnorm X v in map (fun y => div N y nrm) v.

Definition eig_vector (H U : mat') (lam : A) (k : nat) (tail : list A) : mat' * list A :=
  let H1 := shift_diag (sub N) H k lam in
  let x := eig_x H lam k in
  let H2 := shift_diag (add N) H1 k lam in
  (H2, normalize (mdotv X U (x ++ one' :: tail))).

Definition eig_vectors_step (U : mat') (vals : list A) (E0 : mat') (acc : mat' * list (list A)) (j : nat)
  : mat' * list (list A) :=
  let '(Hc, cs) := acc in
  let '(H2, v) := eig_vector Hc U (nth j vals zero') j (skipn (S j) (col X j E0)) in
  (H2, cs ++ [v]).

(* getEigenvectors: returns (h as left behind, eigenvectors) *)
Definition eig_vectors (H U : mat') (vals : list A) (E0 : mat') : mat' * mat' :=
  let n := length vals in
  let '(H', cols) := fold_left (eig_vectors_step U vals E0) (seq 0 n) (H, []) in
  (H', transpose_n X n cols).

(* ------------------------------------------------------------------ *)
(* sortEigenvalues: insertion sort as run by sort.Sort(sort.Reverse(..)) for n <= 12:
     for i := 1; i < n; i++ { for j := i; j > 0 && |v[j-1]| < |v[j]|; j-- { swap(j, j-1) } }
   on the pairs (value, original index).  [rl] is the finished prefix in REVERSE order: the head
   is the element just left of the one being inserted. *)
Fixpoint ins_rev (x : A * nat) (rl : list (A * nat)) : list (A * nat) :=
  match rl with
  | [] => [x]
  | e :: rl' => if ltb N (nabs N (fst e)) (nabs N (fst x)) then e :: ins_rev x rl' else x :: rl
  end.
Definition sort_pairs (v : list A) : list (A * nat) :=
  rev (fold_left (fun rl x => ins_rev x rl) (combine v (seq 0 (length v))) []).

(* `j := p[i]; for j < i { j = p[j] }` — None: out of fuel *)
Fixpoint chase (fuel : nat) (p : list nat) (i j : nat) : option nat :=
  if Nat.ltb j i then
    match fuel with
    | O => None
    | S f => chase f p i (nth j p 0%nat)
    end
  else Some j.

Definition swap_cols (M : mat') (i j : nat) : mat' :=
  map (fun row => set_nth (set_nth row i (nth j row zero')) j (nth i row zero')) M.

Definition perm_step (p : list nat) (acc : option mat') (i : nat) : option mat' :=
  match acc with
  | None => None
  | Some M =>
      match chase (length p) p i (nth i p 0%nat) with
      | None => None
      | Some j => Some (if Nat.eqb j i then M else swap_cols M i j)
      end
  end.
Definition permute_cols (p : list nat) (M : mat') : option mat' :=
  fold_left (perm_step p) (seq 0 (length p)) (Some M).

(* sortEigensystem *)
Definition sort_eigensystem (vecs : option mat') (vals : list A) : option (list A * option mat') :=
  let sp := sort_pairs vals in
  match vecs with
  | None => Some (map fst sp, None)
  | Some E => match permute_cols (map snd sp) E with
              | None => None
              | Some E' => Some (map fst sp, Some E')
              end
  end.

(* ------------------------------------------------------------------ *)
(* The epsilon that reaches the QR algorithm: eigensystem.Run collects the options it does not know
   in a slice and forwards it (`args...`, /repo ec5730f) to qrAlgorithm.Run, whose default applies
   when no qrAlgorithm.Epsilon was given. *)
Definition run_epsilon (default : A) (requested : option A) : A :=
  match requested with Some e => e | None => default end.

(* eigensystem.Run(a, ComputeEigenvectors{ce}, Symmetric{sym}, &inSitu), eps = run_epsilon ..
   with inSitu.Eigenvalues = ev0 (any vector of length n) and inSitu.Eigenvectors = E0
   (None: nil, allocated by Run and, in the symmetric case, linked to the accumulator U; a buffer
   still linked from an earlier symmetric run behaves the same).
   eigensystem.Run consumes the Symmetric option: the GENERAL QR algorithm runs in both cases.
   Without ComputeEigenvectors a buffer left in the InSitu is ignored (/repo 8cb1afe): nil is returned.
   With ComputeEigenvectors a caller-supplied / re-used buffer is used as found: the entries below
   position j of column j are never cleared (finding F-EIG-INSITU-REUSE), and in the symmetric case it
   is not linked to the accumulator.
   Result: None when the QR algorithm is out of fuel (or the permutation loop is), else
   (eigenvalues, eigenvectors, inSitu.QrAlgorithm.H as left behind). *)
Definition eigensystem (fuel : nat) (eps : A) (ce sym : bool) (Am : mat') (ev0 : list A) (E0 : option mat')
  : option (list A * option mat' * mat') :=
  let n := length Am in
  let '(H, U, conv) := francis X fuel eps ce Am in
  if negb conv then None else
  let buf := if ce then Some (match E0 with Some E => E | None => repeat (zeros X n) n end) else None in
  if sym then
    let vals := map (fun i => get X H i i) (seq 0 n) in
    let vecs := match E0, U with
                | None, Some Um => if ce then Some Um else None
                | _, _ => buf
                end in
    match sort_eigensystem vecs vals with
    | None => None
    | Some (vs, ws) => Some (vs, ws, H)
    end
  else
    let vals := eig_values H ev0 in
    match buf, U with
    | Some E, Some Um =>
        let '(H', W) := eig_vectors H Um vals E in
        match sort_eigensystem (Some W) vals with
        | None => None
        | Some (vs, ws) => Some (vs, ws, H')
        end
    | Some _, None => None           (* unreachable: ce = true gives an accumulator *)
    | None, _ =>
        match sort_eigensystem None vals with
        | None => None
        | Some (vs, ws) => Some (vs, ws, H)
        end
    end.

End Eig.
