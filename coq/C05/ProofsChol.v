(* C05 — Cholesky: the model computes the Cholesky recurrences (for all n), and
   the recurrences imply L L^T = A. *)
From Coq Require Import Reals List Lia Lra Bool.
From ADV Require Import Base.Num C05.Model C05.Spec C05.ProofsBase.
Import ListNotations.
Open Scope R_scope.

(* The recurrences, for row p of L (division form, exactly what the code does). *)
Definition chol_row_ok (n : nat) (A L : rmat) (p : nat) : Prop :=
  length (nth p L []) = n /\
  (forall q, (q < p)%nat ->
     G L p q = (G A p q - sum_n (fun k => G L p k * G L q k) q) / G L q q) /\
  (0 <= G A p p - sum_n (fun k => G L p k * G L p k) p /\
   G L p p = sqrt (G A p p - sum_n (fun k => G L p k * G L p k) p)) /\
  (forall q, (p < q)%nat -> G L p q = 0).

(* ---------- the inner loop over j < i ---------- *)
Lemma chol_off_spec : forall (rows : rmat) (arow cur cur' rest : list R),
  chol_off XR rows arow cur = (cur', rest) ->
  (length rows <= length arow)%nat ->
  length cur' = (length cur + length rows)%nat /\
  rest = skipn (length rows) arow /\
  (forall k, (k < length cur)%nat -> nth k cur' 0 = nth k cur 0) /\
  (forall t, (t < length rows)%nat ->
      nth (length cur + t) cur' 0 =
        (nth t arow 0 - sum_n (fun k => nth k cur' 0 * nth k (nth t rows []) 0) (length cur + t))
        / nth (length cur + t) (nth t rows []) 0).
Proof.
  induction rows as [|Lj rows IH]; intros arow cur cur' rest H Hlen.
  - simpl in H. inversion H; subst. simpl. repeat split; auto; try lia.
  - destruct arow as [|a arow]; [simpl in Hlen; lia|].
    simpl in H. simpl in Hlen.
    set (e := (a - dotl NumXR cur Lj 0) / nth (length cur) Lj 0) in *.
    specialize (IH arow (cur ++ [e]) cur' rest H ltac:(lia)).
    destruct IH as (Hl & Hr & Hp & Ht).
    rewrite app_length in Hl, Hp, Ht. simpl in Hl, Hp, Ht.
    assert (Hpre : forall k, (k < length cur)%nat -> nth k cur' 0 = nth k cur 0).
    { intros k Hk. rewrite Hp by lia. apply app_nth1; auto. }
    split; [simpl; lia|]. split; [exact Hr|]. split; [exact Hpre|].
    intros t Htl. destruct t as [|t].
    + rewrite Nat.add_0_r. rewrite Hp by lia. rewrite app_nth2 by lia. rewrite Nat.sub_diag. simpl.
      unfold e. change (dotl NumXR cur Lj 0) with (dotl XR cur Lj 0). rewrite dotl_sum.
      rewrite (sum_n_ext (fun k => nth k cur' 0 * nth k Lj 0) (fun k => nth k cur 0 * nth k Lj 0)).
      * f_equal. lra.
      * intros k Hk. rewrite Hpre; auto.
    + simpl in Htl. specialize (Ht t ltac:(lia)).
      replace (length cur + S t)%nat with (length cur + 1 + t)%nat by lia.
      simpl. exact Ht.
Qed.

(* ---------- one row ---------- *)
Lemma chol_row_spec (n i : nat) (A L : rmat) (r : list R) :
  length L = i -> (i < n)%nat -> length (nth i A []) = n ->
  chol_row XR sqrt n L (nth i A []) = Some r ->
  chol_row_ok n A (L ++ [r]) i.
Proof.
  intros HL Hin HA H. unfold chol_row in H.
  destruct (chol_off XR L (nth i A []) []) as [cur rest] eqn:E.
  apply chol_off_spec in E; [|lia]. destruct E as (Hl & Hr & _ & Ht).
  simpl in Hl, Ht. rewrite HL in *.
  change (zero (nx XR)) with 0 in H.
  set (t := sub (nx XR) (hd 0 rest) (dotl XR cur cur 0)) in H.
  destruct (ltb (nx XR) t 0) eqn:Elt; [discriminate|].
  rewrite Hl in H. inversion H; subst r; clear H.
  assert (Hge : 0 <= t).
  { destruct (Rle_dec 0 t); auto. exfalso.
    assert (Rltb t 0 = true) by (apply Rltb_true; lra). simpl in Elt. congruence. }
  assert (Hhd : hd 0 rest = G A i i).
  { rewrite Hr. unfold G. apply hd_skipn_nth. }
  assert (Hrow : forall q, G (L ++ [cur ++ sqrt t :: zeros XR (n - S i)]) i q
                           = nth q (cur ++ sqrt t :: repeat 0 (n - S i)) 0).
  { intro q. unfold G. rewrite app_nth2 by lia. rewrite HL, Nat.sub_diag. reflexivity. }
  assert (Hcurq : forall q, (q < i)%nat -> nth q (cur ++ sqrt t :: repeat 0 (n - S i)) 0 = nth q cur 0).
  { intros q Hq. apply app_nth1. lia. }
  assert (Hprev : forall q k, (q < i)%nat -> G (L ++ [cur ++ sqrt t :: zeros XR (n - S i)]) q k = G L q k).
  { intros q k Hq. apply G_app_l. lia. }
  unfold chol_row_ok. split; [|split; [|split]].
  - rewrite app_nth2 by lia. rewrite HL, Nat.sub_diag. simpl.
    rewrite app_length. simpl. unfold zeros. rewrite repeat_length. lia.
  - intros q Hq.
    rewrite (sum_n_ext (fun k => G (L ++ [cur ++ sqrt t :: zeros XR (n - S i)]) i k *
                                 G (L ++ [cur ++ sqrt t :: zeros XR (n - S i)]) q k)
                       (fun k => nth k cur 0 * nth k (nth q L []) 0)).
    2:{ intros k Hk. rewrite Hrow, Hcurq by lia. rewrite Hprev by auto. reflexivity. }
    rewrite Hrow, Hcurq by auto. rewrite Hprev by auto. rewrite (Ht q Hq). reflexivity.
  - assert (Et : t = G A i i - sum_n (fun k => G (L ++ [cur ++ sqrt t :: zeros XR (n - S i)]) i k *
                                              G (L ++ [cur ++ sqrt t :: zeros XR (n - S i)]) i k) i).
    { assert (Et' : t = hd 0 rest - dotl XR cur cur 0) by reflexivity.
      rewrite Et' at 1. rewrite Hhd. rewrite dotl_sum. rewrite Hl.
      rewrite (sum_n_ext (fun k => G (L ++ [cur ++ sqrt t :: zeros XR (n - S i)]) i k *
                                   G (L ++ [cur ++ sqrt t :: zeros XR (n - S i)]) i k)
                         (fun k => nth k cur 0 * nth k cur 0)); [lra|].
      intros k Hk. rewrite Hrow, Hcurq by lia. reflexivity. }
    rewrite <- Et. split; [exact Hge|].
    rewrite Hrow. rewrite app_nth2 by lia. rewrite Hl, Nat.sub_diag. reflexivity.
  - intros q Hq. rewrite Hrow. rewrite app_nth2 by lia. rewrite Hl.
    destruct (q - i)%nat as [|d] eqn:Ed; [lia|]. simpl. apply nth_repeat0.
Qed.

Lemma chol_row_ok_app n A L r p : (p < length L)%nat -> chol_row_ok n A L p -> chol_row_ok n A (L ++ [r]) p.
Proof.
  intros Hp (H1 & H2 & H3 & H4).
  assert (E : forall q k, (q <= p)%nat -> G (L ++ [r]) q k = G L q k) by (intros; apply G_app_l; lia).
  unfold chol_row_ok. split; [|split; [|split]].
  - rewrite app_nth1; auto.
  - intros q Hq. rewrite !E by lia. rewrite H2 by auto. f_equal. f_equal.
    apply sum_n_ext. intros k Hk. rewrite !E by lia. reflexivity.
  - rewrite !E by lia.
    rewrite (sum_n_ext (fun k => G (L ++ [r]) p k * G (L ++ [r]) p k) (fun k => G L p k * G L p k));
      [exact H3|]. intros k Hk. rewrite !E by lia. reflexivity.
  - intros q Hq. rewrite E by lia. auto.
Qed.

(* ---------- all rows ---------- *)
Lemma chol_rows_spec (n : nat) (A : rmat) : forall (arows L Lf : rmat) (i : nat),
  length L = i -> (i <= n)%nat -> arows = skipn i A -> length A = n ->
  (forall p, (p < n)%nat -> length (nth p A []) = n) ->
  (forall p, (p < i)%nat -> chol_row_ok n A L p) ->
  chol_rows XR sqrt n L arows = Some Lf ->
  length Lf = n /\ forall p, (p < n)%nat -> chol_row_ok n A Lf p.
Proof.
  induction arows as [|ar arows IH]; intros L Lf i HL Hile Hsk HA Hrows Hinv H.
  - simpl in H. inversion H; subst Lf.
    assert (i >= n)%nat.
    { destruct (le_lt_dec n i); auto. exfalso.
      assert (length (skipn i A) = (n - i)%nat) by (rewrite skipn_length; lia).
      rewrite <- Hsk in H0. simpl in H0. lia. }
    assert (i = n) by lia. subst i. split; [lia|]. intros p Hp. apply Hinv. lia.
  - simpl in H. destruct (chol_row XR sqrt n L ar) as [r|] eqn:Er; [|discriminate].
    assert (Hi : (i < n)%nat).
    { destruct (le_lt_dec n i); auto. exfalso.
      assert (length (skipn i A) = 0)%nat by (rewrite skipn_length; lia).
      rewrite <- Hsk in H0. simpl in H0. lia. }
    assert (Har : ar = nth i A []).
    { rewrite <- (firstn_skipn i A) at 1. rewrite app_nth2; rewrite firstn_length; [|lia].
      replace (i - Nat.min i (length A))%nat with 0%nat by lia. rewrite <- Hsk. reflexivity. }
    subst ar.
    apply (IH (L ++ [r]) Lf (S i)); auto.
    + rewrite app_length. simpl. lia.
    + assert (E : skipn i A = nth i A [] :: arows) by (rewrite <- Hsk; reflexivity).
      clear - E. revert A E. induction i as [|i IHi]; intros A E.
      * destruct A; simpl in *; [discriminate|]. inversion E; reflexivity.
      * destruct A as [|a A]; simpl in *; [discriminate|]. apply IHi. exact E.
    + intros p Hp. destruct (Nat.eq_dec p i) as [->|Hne].
      * apply chol_row_spec; auto.
      * apply chol_row_ok_app; [lia|]. apply Hinv. lia.
Qed.

(* ---------- from the recurrences to L L^T = A ---------- *)
Lemma chol_ok_lower n A L : length L = n -> (forall p, (p < n)%nat -> chol_row_ok n A L p) -> lower_triangular L.
Proof.
  intros HL H i j Hij. destruct (le_lt_dec n i) as [Hge|Hlt].
  - unfold G. rewrite (nth_overflow L) by lia. destruct j; reflexivity.
  - destruct (H i Hlt) as (_ & _ & _ & H4). apply H4. exact Hij.
Qed.

Lemma chol_ok_product n A L :
  (forall p, (p < n)%nat -> chol_row_ok n A L p) ->
  (forall p, (p < n)%nat -> G L p p <> 0) ->
  forall i j, (j <= i)%nat -> (i < n)%nat -> LLt n L i j = G A i j.
Proof.
  intros H Hd i j Hji Hi. unfold LLt.
  destruct (H i Hi) as (_ & Hoff & (Hge & Hdiag) & _).
  assert (Hj : (j < n)%nat) by lia.
  destruct (H j Hj) as (_ & _ & _ & Hzj).
  rewrite (sum_n_cut _ (S j) n); [|lia|].
  2:{ intros k Hk. rewrite (Hzj k) by lia. lra. }
  simpl. destruct (Nat.eq_dec j i) as [->|Hne].
  - assert (Hsq : G L i i * G L i i = G A i i - sum_n (fun k => G L i k * G L i k) i).
    { rewrite Hdiag. apply sqrt_sqrt. exact Hge. }
    lra.
  - pose proof (Hoff j ltac:(lia)) as E.
    assert (Hdj : G L j j <> 0) by (apply Hd; lia).
    assert (Hm : G L i j * G L j j = G A i j - sum_n (fun k => G L i k * G L j k) j).
    { rewrite E. field. exact Hdj. }
    lra.
Qed.

Lemma LLt_sym n L i j : LLt n L i j = LLt n L j i.
Proof. unfold LLt. apply sum_n_ext. intros; lra. Qed.

Lemma cholesky_with_sound (A L : rmat) (n : nat) :
  dims n n A -> symmetric n A ->
  cholesky_with XR sqrt A = Some L ->
  (forall j, (j < n)%nat -> G L j j <> 0) ->
  dims n n L /\ lower_triangular L /\
  forall i j, (i < n)%nat -> (j < n)%nat -> LLt n L i j = G A i j.
Proof.
  intros (HA & HAr) Hsym H Hd. unfold cholesky_with in H. rewrite HA in H.
  assert (Hrows : forall p, (p < n)%nat -> length (nth p A []) = n).
  { intros p Hp. apply HAr. apply nth_In. lia. }
  destruct (chol_rows_spec n A A [] L 0%nat eq_refl ltac:(lia) eq_refl HA Hrows ltac:(intros; lia) H) as (HL & Hok).
  split; [|split].
  - split; [exact HL|]. intros row Hin. apply In_nth with (d := []) in Hin.
    destruct Hin as (p & Hp & <-). destruct (Hok p ltac:(lia)) as (Hlen & _). exact Hlen.
  - eapply chol_ok_lower; eauto.
  - intros i j Hi Hj. destruct (le_lt_dec j i) as [Hle|Hlt].
    + apply (chol_ok_product n A L); auto.
    + rewrite LLt_sym. rewrite Hsym by auto. apply (chol_ok_product n A L); auto. lia.
Qed.

(* the error branch, as coded: the model fails exactly when some pivot
   t_i = A_ii - sum_{k<i} L_ik^2 computed by the recurrences is negative *)
Lemma chol_row_none (n : nat) (L : rmat) (arow : list R) :
  chol_row XR sqrt n L arow = None <->
  (let '(cur, rest) := chol_off XR L arow [] in hd 0 rest - dotl XR cur cur 0 < 0).
Proof.
  unfold chol_row. destruct (chol_off XR L arow []) as [cur rest].
  change (zero (nx XR)) with 0.
  change (sub (nx XR) (hd 0 rest) (dotl XR cur cur 0)) with (hd 0 rest - dotl XR cur cur 0).
  change (ltb (nx XR)) with Rltb.
  destruct (Rltb (hd 0 rest - dotl XR cur cur 0) 0) eqn:E.
  - apply Rltb_true in E. split; auto.
  - split; [discriminate|]. intro Hlt. apply Rltb_true in Hlt. congruence.
Qed.
