(* C05 — option combinations of the direct reductions: the factors a call returns do not depend on
   WHICH accumulators were requested (ComputeU / ComputeV), for every input of every shape.  The
   model keeps no shared work vector, so this is where the model says what the Go code must do
   with its shared InSitu buffers; the tie is the bit-exact replay of all option combinations. *)
From Coq Require Import Reals List Lia Bool.
From ADV Require Import Base.Num C05.Model C05.Spec.
Import ListNotations.
(* the model's own matrix type (convertible with Spec.rm; written so that pairs match syntactically) *)
Local Notation rm := (@mat R).

(* ---------- bidiagonalisation ---------- *)
Lemma bidiag2_step_shape m n j (Am : rm) :
  exists (A2 : rm) (fU fV : option rm -> option rm),
    forall U V, bidiag2_step XR m n j (Am, U, V) = (A2, fU U, fV V).
Proof.
  unfold bidiag2_step.
  destruct (house XR (skipn j (col XR j Am))) as (beta, nu).
  destruct (Nat.ltb (j + 2) n).
  - destruct (house XR (skipn (S j) (nth j (put_block Am j j (house_left XR (block Am j m j n) beta nu)) []))) as (b2, nu2).
    eexists _, (fun U => match U with None => None | Some Um => Some (house_right XR Um beta (zeros XR j ++ nu)) end),
            (fun V => match V with None => None | Some Vm => Some (house_right XR Vm b2 (zeros XR (S j) ++ nu2)) end).
    intros U V. reflexivity.
  - eexists _, (fun U => match U with None => None | Some Um => Some (house_right XR Um beta (zeros XR j ++ nu)) end),
            (fun V => V).
    intros U V. reflexivity.
Qed.

Lemma bidiag2_iter_proj m n cnt : forall j (Am : rm) (U V U' V' : option rm),
  let r := iter_steps (bidiag2_step XR m n) j cnt (Am, U, V) in
  let r' := iter_steps (bidiag2_step XR m n) j cnt (Am, U', V') in
  fst (fst r) = fst (fst r') /\ (U = U' -> snd (fst r) = snd (fst r')) /\ (V = V' -> snd r = snd r').
Proof.
  induction cnt as [|cnt IH]; intros j Am U V U' V'; cbv zeta.
  - cbn. repeat split; auto.
  - cbn [iter_steps]. destruct (bidiag2_step_shape m n j Am) as (A2 & fU & fV & E).
    rewrite (E U V), (E U' V'). cbv zeta.
    destruct (IH (S j) A2 (fU U) (fV V) (fU U') (fV V')) as (H1 & H2 & H3). cbv zeta in H1, H2, H3.
    split; [exact H1|]. split.
    + intros ->. apply H2. reflexivity.
    + intros ->. apply H3. reflexivity.
Qed.

(* B is the same for all four option combinations; U (resp. V) is the same whether or not the
   other accumulator is requested *)
Theorem bidiag2_options_independent (cu cv : bool) (A : rm) :
  fst (fst (bidiag2 XR cu cv A)) = fst (fst (bidiag2 XR true true A)) /\
  snd (fst (bidiag2 XR true cv A)) = snd (fst (bidiag2 XR true true A)) /\
  snd (bidiag2 XR cu true A) = snd (bidiag2 XR true true A).
Proof.
  unfold bidiag2. split; [|split].
  - apply bidiag2_iter_proj.
  - apply bidiag2_iter_proj. reflexivity.
  - apply bidiag2_iter_proj. reflexivity.
Qed.

(* ---------- Hessenberg ---------- *)
Lemma hess_step_fst sz n k (H : rm) (U U' : option rm) :
  fst (hess_step XR sz n k (H, U)) = fst (hess_step XR sz n k (H, U')).
Proof. unfold hess_step. destruct (house XR (skipn (S k) (col XR k H))). reflexivity. Qed.

Lemma hess_iter_fst sz n cnt : forall k (H : rm) (U U' : option rm),
  fst (iter_steps (hess_step XR sz n) k cnt (H, U)) = fst (iter_steps (hess_step XR sz n) k cnt (H, U')).
Proof.
  induction cnt as [|cnt IH]; intros k H U U'; [reflexivity|].
  cbn [iter_steps].
  pose proof (hess_step_fst sz n k H U U') as E.
  destruct (hess_step XR sz n k (H, U)) as (H1, U1). destruct (hess_step XR sz n k (H, U')) as (H2, U2).
  cbn [fst] in E. subst H2. apply IH.
Qed.

Theorem hessenberg_H_independent_of_computeU (sz : bool) (A : rm) :
  fst (hessenberg XR sz false A) = fst (hessenberg XR sz true A).
Proof. unfold hessenberg. apply hess_iter_fst. Qed.
