(* C05 — property theorems (statements only; proofs in Proofs*.v).
   All statements are over the reals (model instance XR = NumXR), for matrices of
   EVERY size n.  The model is tied to the Go code by the bit-exact replay of
   Corr.v on every run. *)
From Coq Require Import Floats Reals List Lia Lra.
From ADV Require Import Base.Num C05.Model C05.Spec C05.ProofsBase C05.ProofsChol C05.ProofsLdl
                        C05.ProofsHouse C05.ProofsGivens C05.Refuted
                        C05.ProofsHouse2 C05.ProofsBlock C05.ProofsTrace C05.ProofsHess C05.ProofsGS
                        C05.ProofsLdl2 C05.ProofsChol2 C05.ProofsTridiag C05.ProofsBidiag C05.ProofsTridiag2 C05.ProofsOpts C05.ProofsBand C05.CorrTrace C05.ProofsTraceTie C05.Corr32
                        C05.ModelIter C05.SpecIter C05.ProofsIterSymSweep C05.ProofsIterSymLoop
                        C05.ProofsIterFrSweep C05.ProofsIterFrLoop C05.ProofsIterSvdSweep C05.ProofsIterSvdLoop
                        C05.ModelEig C05.ProofsEig C05.ProofsEig2 C05.ProofsEigSort.
From Coq Require Import Sorting.Permutation Sorting.Sorted.
Import ListNotations.
Open Scope R_scope.

(* 1. Cholesky (generic path: Scalar.Sqrt, fast path: SQRT; both are sqrt over R):
      if the routine returns L with a non-zero diagonal then L is n x n lower
      triangular and L L^T = A.  (A zero pivot is NOT reported by the code, test
      t < 0: see Refuted.cholesky_zero_pivot_refuted.) *)
Theorem cholesky_correct :
  forall (A L : rmat) (n : nat),
  dims n n A -> symmetric n A -> cholesky XR A = Some L ->
  (forall j, (j < n)%nat -> G L j j <> 0) ->
  dims n n L /\ lower_triangular L /\
  forall i j, (i < n)%nat -> (j < n)%nat -> LLt n L i j = G A i j.
Proof. exact cholesky_with_sound. Qed.

Theorem cholesky_fast_correct :
  forall (A L : rmat) (n : nat),
  dims n n A -> symmetric n A -> cholesky_fast XR A = Some L ->
  (forall j, (j < n)%nat -> G L j j <> 0) ->
  dims n n L /\ lower_triangular L /\
  forall i j, (i < n)%nat -> (j < n)%nat -> LLt n L i j = G A i j.
Proof. exact cholesky_with_sound. Qed.

(* the error is raised exactly when the pivot of the current row, as computed by
   the recurrence from the rows already finished, is negative *)
Theorem cholesky_row_error_iff_negative_pivot :
  forall (n : nat) (L : rmat) (arow : list R),
  chol_row XR sqrt n L arow = None <->
  (let '(cur, rest) := chol_off XR L arow [] in hd 0 rest - dotl XR cur cur 0 < 0).
Proof. exact chol_row_none. Qed.

(* 2. LDL^T: L unit lower triangular, D diagonal and positive, L D L^T = A. *)
Theorem cholesky_ldl_correct :
  forall (A L D : rmat) (n : nat),
  dims n n A -> symmetric n A -> cholesky_ldl XR A = Some (L, D) ->
  unit_lower_triangular n L /\ diagonal D /\ (forall j, (j < n)%nat -> 0 < G D j j) /\
  forall i j, (i < n)%nat -> (j < n)%nat -> LDLt n L D i j = G A i j.
Proof. exact cholesky_ldl_sound. Qed.

(* 3. Gill-Murray-Wright: for EVERY square A (no definiteness assumed) the result
      has D_jj >= delta > 0 with L unit lower triangular (so L D L^T is positive
      definite), L D L^T agrees with A off the diagonal and dominates it on the
      diagonal (L D L^T = A + E, E diagonal, E >= 0). *)
Theorem cholesky_ldl_forcepd_correct :
  forall (A L D : rmat) (n : nat) (bfloor delta : R),
  dims n n A -> 0 < delta ->
  cholesky_ldl_forcepd XR bfloor delta A = Some (L, D) ->
  unit_lower_triangular n L /\ diagonal D /\
  (forall j, (j < n)%nat -> delta <= G D j j) /\
  (forall i j, (j < i)%nat -> (i < n)%nat -> LDLt n L D i j = G A i j) /\
  (forall j, (j < n)%nat -> G A j j <= LDLt n L D j j).
Proof. exact cholesky_ldl_forcepd_sound. Qed.

(* "= LDL when A is sufficiently positive definite", lifted through the column loop:
   if plain LDL succeeds with (L, D) and the Gill-Murray-Wright bounds are inactive on
   that result (every pivot D_jj >= delta and >= (c_ij / beta)^2 for the column entries
   c_ij = L_ij D_jj below it), the forced-PD variant returns the SAME pair.  No
   assumption on beta or on symmetry is needed. *)
Theorem forcepd_equals_ldl_when_inactive :
  forall (A L D : rmat) (n : nat) (bfloor delta : R),
  dims n n A ->
  cholesky_ldl XR A = Some (L, D) ->
  (forall j, (j < n)%nat -> delta <= G D j j) ->
  (forall j i, (j < i < n)%nat ->
     (G L i j * G D j j / fpd_beta XR bfloor A) * (G L i j * G D j j / fpd_beta XR bfloor A) <= G D j j) ->
  cholesky_ldl_forcepd XR bfloor delta A = Some (L, D).
Proof. exact C05.ProofsLdl2.forcepd_equals_ldl_when_inactive. Qed.

(* Cholesky completeness: on every positive definite A (A = Gm Gm^T, Gm lower triangular
   with positive diagonal) the routine succeeds and returns exactly that factor; hence an
   error means A is not positive definite; and at the first failing row i the rows
   0..i-1 were factored (L' L'^T = leading block) and the pivot a_ii - |solved row|^2, the
   Schur complement of the leading block, is negative. *)
Theorem cholesky_complete :
  forall (A Gm : rmat) (n : nat),
  dims n n A -> has_cholesky_factor n A Gm -> cholesky XR A = Some Gm.
Proof. exact C05.ProofsChol2.cholesky_complete. Qed.

Theorem cholesky_fast_complete :
  forall (A Gm : rmat) (n : nat),
  dims n n A -> has_cholesky_factor n A Gm -> cholesky_fast XR A = Some Gm.
Proof. exact C05.ProofsChol2.cholesky_fast_complete. Qed.

Theorem cholesky_error_implies_not_pd :
  forall (A : rmat) (n : nat),
  dims n n A -> cholesky XR A = None -> ~ exists Gm, has_cholesky_factor n A Gm.
Proof. exact C05.ProofsChol2.cholesky_error_implies_not_pd. Qed.

Theorem cholesky_error_first_negative_pivot :
  forall (A : rmat) (n : nat),
  dims n n A -> cholesky XR A = None ->
  exists (i : nat) (L' : rmat) (cur : list R),
    (i < n)%nat /\
    chol_rows XR sqrt n [] (firstn i A) = Some L' /\
    length L' = i /\ length cur = i /\
    (forall q, (q < i)%nat ->
       nth q cur 0 = (G A i q - sum_n (fun k => nth k cur 0 * G L' q k) q) / G L' q q) /\
    G A i i - sum_n (fun k => nth k cur 0 * nth k cur 0) i < 0 /\
    (symmetric n A -> (forall p, (p < i)%nat -> G L' p p <> 0) ->
       lower_triangular L' /\
       forall p q, (p < i)%nat -> (q < i)%nat -> LLt i L' p q = G A p q).
Proof. exact C05.ProofsChol2.cholesky_error_first_negative_pivot. Qed.

(* 4. Householder.  The reflector I - beta v v^T is symmetric, and orthogonal /
      involutive as soon as beta = 0 or beta v^T v = 2 — for every v and n. *)
Theorem reflector_symmetric : forall beta v i j, refl beta v i j = refl beta v j i.
Proof. exact refl_symmetric. Qed.

Theorem reflector_orthogonal :
  forall (n : nat) (beta : R) (v : list R),
  beta = 0 \/ beta * dot n v v = 2 ->
  forall i j, (i < n)%nat -> (j < n)%nat ->
  sum_n (fun k => refl beta v k i * refl beta v k j) n = delta i j.
Proof. exact refl_orthogonal. Qed.

(* householder.Run as coded: with sigma = |tail x|^2, it returns beta = 0 and
   nu = (1, tail) when sigma = 0, else (h_beta, (nu0, tail)/nu0) ... *)
Theorem householder_run_as_coded :
  forall (x0 : R) (xt : list R),
  let sigma := sum_n (fun k => nth k xt 0 * nth k xt 0) (length xt) in
  house XR (x0 :: xt) =
  if Reqb sigma 0 then (0, 1 :: xt)
  else (h_beta x0 sigma, map (fun y => y / h_nu0 x0 sigma) (h_nu0 x0 sigma :: xt)).
Proof. exact house_as_coded. Qed.

(* ... and these scalars satisfy beta = 2/(nu^T nu) (nu^T nu = 1 + sigma/nu0^2) and
   beta (nu^T x) = nu0. *)
Theorem householder_scalars :
  forall (x0 sigma : R), 0 < sigma ->
  let nu0 := h_nu0 x0 sigma in let beta := h_beta x0 sigma in
  nu0 <> 0 /\
  beta * (1 + sigma / (nu0 * nu0)) = 2 /\
  beta * (x0 + sigma / nu0) = nu0 /\
  x0 - beta * (x0 + sigma / nu0) = h_mu x0 sigma.
Proof. exact house_scalars. Qed.

(* householder.Run in list-indexed form, every length: with (beta, nu) = house x and
   P = I - beta nu nu^T: nu has the length of x, P is orthogonal (beta = 0 or
   beta nu^T nu = 2), (P x)_i = 0 for 0 < i, |(P x)_0| = |x|_2, and (P x)_0 = +|x|_2
   whenever the tail of x is not zero (when it is, beta = 0 and P x = x). *)
Theorem householder_reflects :
  forall (x0 : R) (xt : list R),
  let x := x0 :: xt in let n := length x in
  let beta := fst (house XR x) in let nu := snd (house XR x) in
  length nu = n /\
  (beta = 0 \/ beta * dot n nu nu = 2) /\
  (forall i, (0 < i < n)%nat -> refl_apply n beta nu x i = 0) /\
  Rabs (refl_apply n beta nu x 0) = norm2 n x /\
  ((exists k, (k < length xt)%nat /\ nth k xt 0 <> 0) -> refl_apply n beta nu x 0 = norm2 n x).
Proof. exact house_reflects. Qed.

(* householder.ApplyLeft / ApplyRight are the matrix products P M / M P, all shapes *)
Theorem householder_apply_left_is_PM :
  forall (r c : nat) (M : rmat) (beta : R) (nu : list R),
  dims r c M -> length nu = r ->
  dims r c (house_left XR M beta nu) /\
  forall i j, (i < r)%nat -> (j < c)%nat ->
    G (house_left XR M beta nu) i j = sum_n (fun k => refl beta nu i k * G M k j) r.
Proof. exact house_left_index. Qed.

Theorem householder_apply_right_is_MP :
  forall (r c : nat) (M : rmat) (beta : R) (nu : list R),
  dims r c M -> length nu = c ->
  dims r c (house_right XR M beta nu) /\
  forall i j, (i < r)%nat -> (j < c)%nat ->
    G (house_right XR M beta nu) i j = sum_n (fun k => G M i k * refl beta nu k j) c.
Proof. exact house_right_index. Qed.

(* 5. Givens: c^2 + s^2 = 1, the rotation zeroes the targeted entry, and the
      applied 2x2 map preserves inner products (is orthogonal). *)
Theorem givens_unit_circle :
  forall a b : R, let cs := givens XR a b in fst cs * fst cs + snd cs * snd cs = 1.
Proof. exact givens_unit. Qed.

Theorem givens_zeroes_target :
  forall a b : R, let cs := givens XR a b in snd (giv_apply XR (fst cs) (snd cs) a b) = 0.
Proof. exact givens_zeroes. Qed.

Theorem givens_apply_orthogonal :
  forall c s a1 a2 b1 b2 : R, c * c + s * s = 1 ->
  fst (giv_apply XR c s a1 a2) * fst (giv_apply XR c s b1 b2) +
  snd (giv_apply XR c s a1 a2) * snd (giv_apply XR c s b1 b2) = a1 * b1 + a2 * b2.
Proof. exact giv_apply_inner. Qed.

(* 5b. The banded shortcuts ApplyHessenbergLeft/Right, ApplyBidiagLeft/Right and
      ApplyTridiagLeft/Right rotate only the index set coded in givensRotation.go (hess_*_sel in
      Model.v, bidiag_*_sel / tridiag_*_sel in Corr.v, all tied bit-exactly).  GIVEN the band
      hypothesis every skipped position holds the pair (0, 0), so the shortcut equals the full
      rotation ApplyLeft / ApplyRight — every size, every c, s, i, k. *)
Theorem givens_banded_rows_equal_full :
  forall r cN (M : rmat) (sel : nat -> bool) (c s : R) (i k : nat),
  dims r cN M -> (i < r)%nat -> (k < r)%nat ->
  (forall j, (j < cN)%nat -> sel j = false -> G M i j = 0 /\ G M k j = 0) ->
  giv_rows XR sel M c s i k = givens_left XR M c s i k.
Proof. exact giv_rows_band. Qed.

Theorem givens_banded_cols_equal_full :
  forall r cN (M : rmat) (sel : nat -> bool) (c s : R) (i k : nat),
  dims r cN M ->
  (forall j, (j < r)%nat -> sel j = false -> G M j i = 0 /\ G M j k = 0) ->
  giv_cols XR sel M c s i k = givens_right XR M c s i k.
Proof. exact giv_cols_band. Qed.

Theorem givens_hessenberg_left_shortcut :
  forall n (H : rmat) (c s : R) (i k : nat),
  dims n n H -> upper_hessenberg H -> (i < n)%nat -> (k < n)%nat ->
  givens_hess_left XR H c s i k = givens_left XR H c s i k.
Proof. exact givens_hess_left_is_full. Qed.

Theorem givens_hessenberg_right_shortcut :
  forall n (H : rmat) (c s : R) (i k : nat),
  dims n n H -> upper_hessenberg H ->
  givens_hess_right XR H c s i k = givens_right XR H c s i k.
Proof. exact givens_hess_right_is_full. Qed.

Theorem givens_bidiag_left_shortcut :
  forall m n (B : rmat) (c s : R) (i k : nat),
  dims m n B -> upper_bidiagonal B -> (i < m)%nat -> (k < m)%nat ->
  giv_rows XR (C05.Corr.bidiag_left_sel (ncols B) i k) B c s i k = givens_left XR B c s i k.
Proof. exact givens_bidiag_left_is_full. Qed.

Theorem givens_bidiag_right_shortcut :
  forall m n (B : rmat) (c s : R) (i k : nat),
  dims m n B -> upper_bidiagonal B ->
  giv_cols XR (C05.Corr.bidiag_right_sel i k) B c s i k = givens_right XR B c s i k.
Proof. exact givens_bidiag_right_is_full. Qed.

Theorem givens_tridiag_left_shortcut :
  forall n (T : rmat) (c s : R) (i k : nat),
  dims n n T -> tridiagonal T -> (i < n)%nat -> (k < n)%nat ->
  giv_rows XR (C05.Corr.tridiag_left_sel i k) T c s i k = givens_left XR T c s i k.
Proof. exact givens_tridiag_left_is_full. Qed.

Theorem givens_tridiag_right_shortcut :
  forall n (T : rmat) (c s : R) (i k : nat),
  dims n n T -> tridiagonal T ->
  giv_cols XR (C05.Corr.tridiag_right_sel i k) T c s i k = givens_right XR T c s i k.
Proof. exact givens_tridiag_right_is_full. Qed.

(* 6. Gram-Schmidt at /repo HEAD (gram_schmidt_in2), every n x m input with m <= n and
      every recycled buffer R0: R is upper triangular, Q R = A (UNCONDITIONALLY: a zero
      column norm forces a zero column, so no rank condition is needed), the result does
      not depend on the buffer (positive form of the retired finding F-GS-INSITU), and
      Q^T Q = I when no diagonal entry of R vanishes (linearly independent columns). *)
Theorem gram_schmidt_R_upper_triangular :
  forall n m (Am R0 : rmat),
  dims n m Am -> (1 <= m <= n)%nat -> dims n m R0 ->
  forall i j, (j < i)%nat -> G (snd (gram_schmidt_in2 XR R0 Am)) i j = 0.
Proof. exact gs_R_upper_triangular. Qed.

Theorem gram_schmidt_QR_reproduces_A :
  forall n m (Am R0 : rmat),
  dims n m Am -> (1 <= m <= n)%nat -> dims n m R0 ->
  forall i j, (i < n)%nat -> (j < m)%nat ->
  sum_n (fun k => G (fst (gram_schmidt_in2 XR R0 Am)) i k * G (snd (gram_schmidt_in2 XR R0 Am)) k j) m
  = G Am i j.
Proof. exact gs_QR_reproduces_A. Qed.

Theorem gram_schmidt_result_independent_of_buffer :
  forall n m (Am R0 R0' : rmat),
  dims n m Am -> (1 <= m <= n)%nat -> dims n m R0 -> dims n m R0' ->
  gram_schmidt_in2 XR R0 Am = gram_schmidt_in2 XR R0' Am.
Proof. exact gs_result_independent_of_buffer. Qed.

Theorem gram_schmidt_Q_orthonormal :
  forall n m (Am R0 : rmat),
  dims n m Am -> (1 <= m <= n)%nat -> dims n m R0 ->
  (forall k, (k < m)%nat -> G (snd (gram_schmidt_in2 XR R0 Am)) k k <> 0) ->
  forall j j', (j < m)%nat -> (j' < m)%nat ->
  sum_n (fun i => G (fst (gram_schmidt_in2 XR R0 Am)) i j * G (fst (gram_schmidt_in2 XR R0 Am)) i j') n
  = delta j j'.
Proof. exact gs_Q_orthonormal. Qed.

(* 7. Hessenberg reduction (ComputeU, with or without SetZero), every n and every square A:
      U^T U = I, U H U^T = A and H is upper Hessenberg.  Proved by induction over the
      elimination index: each step is H <- P H P, U <- U P with the embedded reflector P of
      the current column (reflector lemmas of section 4 + the trace invariant of section 8);
      the entries the SetZero option overwrites are exactly zero already. *)
Theorem hessenberg_correct :
  forall (sz : bool) (A : rmat) (n : nat),
  dims n n A ->
  exists H U, hessenberg XR sz true A = (H, Some U) /\
    dims n n H /\ dims n n U /\
    (forall i j, (i < n)%nat -> (j < n)%nat -> sum_n (fun k => G U k i * G U k j) n = delta i j) /\
    (forall i j, (i < n)%nat -> (j < n)%nat ->
       sum_n (fun a => G U i a * sum_n (fun b => G H a b * G U j b) n) n = G A i j) /\
    (forall i j, (j + 1 < i)%nat -> G H i j = 0).
Proof. exact hessenberg_sound. Qed.

(* 7a. Householder bidiagonalisation at HEAD (V accumulated from the right, fix 2c4ff32),
      every m x n input with n <= m, both accumulators requested: U and V are orthogonal,
      U B V^T = A (equivalently U^T A V = B) and B is upper bidiagonal.  Same induction as
      hessenberg_correct with a left and a right reflector per column. *)
Theorem bidiagonalization_correct :
  forall (A : rmat) m n, dims m n A -> (1 <= n <= m)%nat ->
  exists B U Vm, bidiag2 XR true true A = (B, Some U, Some Vm) /\
    dims m n B /\ dims m m U /\ dims n n Vm /\
    (forall i j, (i < m)%nat -> (j < m)%nat -> sum_n (fun k => G U k i * G U k j) m = delta i j) /\
    (forall i j, (i < n)%nat -> (j < n)%nat -> sum_n (fun k => G Vm k i * G Vm k j) n = delta i j) /\
    (forall i j, (i < m)%nat -> (j < n)%nat ->
       sum_n (fun a => G U i a * sum_n (fun b => G B a b * G Vm j b) n) m = G A i j) /\
    (forall i j, (j < i)%nat -> G B i j = 0) /\
    (forall i j, (i + 1 < j)%nat -> G B i j = 0).
Proof. exact bidiag_sound_sums. Qed.

(* 7b. Householder tridiagonalisation at HEAD (model tridiag2), every n and EVERY symmetric A,
      ComputeU requested: U^T U = I, U T U^T = A, T is symmetric and tridiagonal.  Induction over
      the elimination index as for hessenberg_correct; the step is T <- P T P, U <- U P because
      (i) the symmetric rank-2 update the code applies to the trailing block,
          A22 - nu w^T - w nu^T with p = beta A22 nu, w = p - (beta p^T nu / 2) nu,
          IS P A22 P for symmetric A22 (symmetric_rank2_update_is_PAP, every size), and
      (ii) the entries (k+1,k), (k,k+1) overwritten by the column norm and the entries set to
          zero are the entries of P x (householder_reflects); the overwrite is guarded by
          `beta != 0`, which is true exactly when the column is not yet reduced
          (tridiagonalization_reflects_iff_column_not_reduced: positive, universal form of the
          retired finding F-TRIDIAG-SIGN; concrete witness: tridiagonalization_sign_regression).
      The middle factor does not depend on the ComputeU option. *)
Theorem tridiagonalization_correct :
  forall (A : rmat) (n : nat),
  dims n n A -> symmetric n A ->
  exists T U, tridiag2 XR true A = (T, Some U) /\
    dims n n T /\ dims n n U /\
    (forall i j, (i < n)%nat -> (j < n)%nat -> sum_n (fun k => G U k i * G U k j) n = delta i j) /\
    (forall i j, (i < n)%nat -> (j < n)%nat ->
       sum_n (fun a => G U i a * sum_n (fun b => G T a b * G U j b) n) n = G A i j) /\
    symmetric n T /\
    (forall i j, (j + 1 < i)%nat -> G T i j = 0) /\
    (forall i j, (i + 1 < j)%nat -> G T i j = 0).
Proof. exact tridiag2_sound. Qed.

Theorem tridiagonalization_T_independent_of_computeU :
  forall A : rmat, fst (tridiag2 XR false A) = fst (tridiag2 XR true A).
Proof. exact tridiag2_T_independent_of_computeU. Qed.

(* the rank-2 update as coded (p = (A nu) beta ; t = (p . nu) beta / 2 ; w = p - nu t), for every
   size d, every symmetric A (a function on indices), every beta and nu: entry (i, j) of
   A - nu w^T - w nu^T is entry (i, j) of (I - beta nu nu^T) A (I - beta nu nu^T) *)
Theorem symmetric_rank2_update_is_PAP :
  forall (d : nat) (A : fmatR) (beta : R) (nu : list R),
  (forall a b, (a < d)%nat -> (b < d)%nat -> A a b = A b a) ->
  forall (p w : nat -> R) (t : R) (i j : nat),
  (forall a, (a < d)%nat -> p a = sum_n (fun b => A a b * V nu b) d * beta) ->
  t = sum_n (fun a => p a * V nu a) d * beta / (1 + 1) ->
  (forall a, (a < d)%nat -> w a = p a - V nu a * t) ->
  (i < d)%nat -> (j < d)%nat ->
  A i j - V nu i * w j - V nu j * w i =
  sum_n (fun b => sum_n (fun a => refl beta nu i a * A a b) d * refl beta nu b j) d.
Proof. exact rank2_update_identity. Qed.

Theorem tridiagonalization_reflects_iff_column_not_reduced :
  forall (x0 : R) (xt : list R),
  negb (eqb (nx XR) (fst (house XR (x0 :: xt))) (zero (nx XR))) = true <->
  exists k, (k < length xt)%nat /\ nth k xt 0 <> 0.
Proof. exact tridiag2_reflects_iff. Qed.

(* 7c. Option combinations (quantifier: "all option combinations (compute U / V ...)"): in the
      model the factors do not depend on WHICH accumulators are requested — B is the same for all
      four combinations of ComputeU / ComputeV, U (resp. V) is the same whether or not the other
      one is requested; likewise H of the Hessenberg reduction (and T above).  Together with
      bidiagonalization_correct / hessenberg_correct this gives the contract of every option
      combination; the Go code, which shares one work vector Nu between the accumulations, is held
      to it by the bit-exact replay of all combinations (seeded regression C05-3). *)
Theorem bidiagonalization_options_independent :
  forall (cu cv : bool) (A : rmat),
  fst (fst (bidiag2 XR cu cv A)) = fst (fst (bidiag2 XR true true A)) /\
  snd (fst (bidiag2 XR true cv A)) = snd (fst (bidiag2 XR true true A)) /\
  snd (bidiag2 XR cu true A) = snd (bidiag2 XR true true A).
Proof. exact bidiag2_options_independent. Qed.

Theorem hessenberg_H_independent_of_computeU :
  forall (sz : bool) (A : rmat), fst (hessenberg XR sz false A) = fst (hessenberg XR sz true A).
Proof. exact C05.ProofsOpts.hessenberg_H_independent_of_computeU. Qed.

(* 8. Trace machine for the ITERATIVE routines (QR algorithm, SVD; they are data dependent
      and have no closed model).  Matrices as functions nat -> nat -> R, [meq r c] = equality
      on the r x c window, [orth n Q] = Q^T Q = Q Q^T = I.  For EVERY list of steps whose
      matrices are orthogonal, U H U^T (resp. U B V^T) and the orthogonality of the
      accumulators are invariant; Givens rotations with c^2+s^2 = 1 and reflectors with
      beta = 0 or beta nu^T nu = 2 are such steps, and the model's givens_left/givens_right
      (resp. house_left/house_right, section 4) are the products with these matrices.
      TIE (round 3, no edit of existing /repo files): the harness re-derives the step trace by a
      lock-step copy of the control skeleton of qrAlgorithm (symmetric and Francis) and svd that
      calls the SAME exported primitives (givensRotation.Run / Apply.., householder.Run / Apply..) on its
      own copies and must end in factors bit-equal to the library's; C05.CorrTrace.tcheck then
      replays the logged steps on the float models of the primitives from the input (again
      bit-equal final factors, every (c,s) / (beta,nu) recomputed from the replayed state) and
      checks every logged parameter in exact dyadic arithmetic (section 8b).  What stays per run:
      convergence, deflation decisions, sorting and sign normalisation (exact residual checker
      C05.Resid), and the accumulation of the per-step defects (each bounded, section 8b). *)
Theorem qr_trace_invariant :
  forall (n : nat) (l : list step) (H U : fmatR),
  Forall (qr_valid n) l ->
  let st' := qr_run n l (H, U) in
  meq n n (uhut n st') (uhut n (H, U)) /\
  meq n n (mmul n (snd st') (tr (snd st'))) (mmul n U (tr U)) /\
  (orth n U -> orth n (snd st')).
Proof. exact C05.ProofsTrace.qr_trace_invariant. Qed.

Theorem svd_trace_invariant :
  forall (m n : nat) (l : list step) (st : svd_state),
  Forall (svd_valid m n) l ->
  let st' := svd_run m n l st in
  meq m n (ubvt m n st') (ubvt m n st) /\
  meq m m (mmul m (sU st') (tr (sU st'))) (mmul m (sU st) (tr (sU st))) /\
  meq n n (mmul n (sV st') (tr (sV st'))) (mmul n (sV st) (tr (sV st))) /\
  (orth m (sU st) -> orth m (sU st')) /\
  (orth n (sV st) -> orth n (sV st')).
Proof. exact C05.ProofsTrace.svd_trace_invariant. Qed.

Theorem givens_matrix_orthogonal :
  forall (c s : R) (i k n : nat),
  c * c + s * s = 1 -> i <> k -> (i < n)%nat -> (k < n)%nat -> orth n (Gmat c s i k).
Proof. exact Gmat_orth. Qed.

Theorem reflector_matrix_orthogonal :
  forall (n : nat) (beta : R) (v : list R),
  beta = 0 \/ beta * dot n v v = 2 -> orth n (refl beta v).
Proof. exact refl_orth. Qed.

Theorem givens_apply_left_is_GtM :
  forall (r cN : nat) (M : rmat) (c s : R) (i k : nat),
  dims r cN M -> i <> k -> (i < r)%nat -> (k < r)%nat ->
  dims r cN (givens_left XR M c s i k) /\
  meq r cN (G (givens_left XR M c s i k)) (mmul r (tr (Gmat c s i k)) (G M)).
Proof. exact givens_left_is_Gt_mul. Qed.

Theorem givens_apply_right_is_MG :
  forall (r cN : nat) (M : rmat) (c s : R) (i k : nat),
  dims r cN M -> i <> k -> (i < cN)%nat -> (k < cN)%nat ->
  dims r cN (givens_right XR M c s i k) /\
  meq r cN (G (givens_right XR M c s i k)) (mmul cN (G M) (Gmat c s i k)).
Proof. exact givens_right_is_mul_G. Qed.

Theorem concrete_trace_invariant_qr :
  forall (n : nat) (l : list cstep) (H U : fmatR),
  Forall (cvalid n) l ->
  let st' := qr_run n (qr_steps_of l) (H, U) in
  meq n n (uhut n st') (uhut n (H, U)) /\
  meq n n (mmul n (snd st') (tr (snd st'))) (mmul n U (tr U)) /\
  (orth n U -> orth n (snd st')).
Proof. exact concrete_qr_trace_invariant. Qed.

Theorem concrete_trace_invariant_svd :
  forall (m n : nat) (l : list (side * cstep)) (st : svd_state),
  Forall (csvd_valid m n) l ->
  let st' := svd_run m n (svd_steps_of l) st in
  meq m n (ubvt m n st') (ubvt m n st) /\
  meq m m (mmul m (sU st') (tr (sU st'))) (mmul m (sU st) (tr (sU st))) /\
  meq n n (mmul n (sV st') (tr (sV st'))) (mmul n (sV st) (tr (sV st))) /\
  (orth m (sU st) -> orth m (sU st')) /\
  (orth n (sV st) -> orth n (sV st')).
Proof. exact concrete_svd_trace_invariant. Qed.

(* 8b. What the per-step checks of C05.CorrTrace buy (f2R = exact real value of a float).
      rot_ok / house_ok are decided in exact dyadic arithmetic and mean the real inequalities
      |c^2+s^2-1| <= 2^-50 (= 8u) resp. beta = 0 or |beta nu^T nu - 2| <= tol; with tolerance 0
      the logged steps are valid steps of the trace machine (so the invariant of section 8
      applies verbatim); with the tolerance, the normalised pair (c,s)/r is a valid step with
      |r^2 - 1| <= 8u, and the Gram matrix of the logged rotation / reflector differs from I by
      exactly (c^2+s^2-1) on two diagonal entries resp. beta (beta v^T v - 2) v_i v_j. *)
Theorem logged_rotation_check_sound :
  forall c s : float,
  C05.CorrTrace.rot_ok c s = true -> Rabs (f2R c * f2R c + f2R s * f2R s - 1) <= / 2 ^ 50.
Proof. exact rot_ok_sound. Qed.

Theorem logged_rotation_normalised_is_valid_step :
  forall (n i k : nat) (c s : float),
  C05.CorrTrace.rot_ok c s = true -> i <> k -> (i < n)%nat -> (k < n)%nat ->
  let r := sqrt (f2R c * f2R c + f2R s * f2R s) in
  cvalid n (GStep (f2R c / r) (f2R s / r) i k) /\ Rabs (r * r - 1) <= / 2 ^ 50.
Proof. exact rot_ok_normalised. Qed.

Theorem logged_reflector_check_sound :
  forall (tol : C05.Resid.dy) (beta : float) (nu : list float),
  C05.CorrTrace.house_ok_tol tol beta nu = true ->
  f2R beta = 0 \/ Rabs (f2R beta * dot (length nu) (map f2R nu) (map f2R nu) - 2) <= dR tol.
Proof. exact house_ok_tol_sound. Qed.

Theorem exact_logged_rotations_satisfy_trace_invariant :
  forall (n : nat) (l : list (float * float * nat * nat)) (H U : fmatR),
  forallb (rot_exact n) l = true ->
  let st' := qr_run n (qr_steps_of (map rot_step l)) (H, U) in
  meq n n (uhut n st') (uhut n (H, U)) /\
  meq n n (mmul n (snd st') (tr (snd st'))) (mmul n U (tr U)) /\
  (orth n U -> orth n (snd st')).
Proof. exact all_exact_trace_invariant. Qed.

Theorem rotation_gram_defect :
  forall (c s eps : R) (i k n a b : nat),
  Rabs (c * c + s * s - 1) <= eps ->
  i <> k -> (i < n)%nat -> (k < n)%nat -> (a < n)%nat -> (b < n)%nat ->
  Rabs (mmul n (tr (Gmat c s i k)) (Gmat c s i k) a b - delta a b) <= eps.
Proof. exact Gmat_gram_close. Qed.

Theorem reflector_gram_defect :
  forall (n : nat) (beta : R) (v : list R) (i j : nat),
  (i < n)%nat -> (j < n)%nat ->
  sum_n (fun k => refl beta v k i * refl beta v k j) n =
  delta i j + beta * (beta * dot n v v - 2) * (V v i * V v j).
Proof. exact refl_gram_defect. Qed.

(* 1b. Aliasing finding F-FPD-INPLACE (all element types; witnessed on the binary32 replay): with
      InSitu.L aliasing the input the forced-PD routine reads A(j,j) after L(j,j) = 1 was written.
      The as-coded aliased model differs from the routine on fresh buffers already on [[4]]. *)
Theorem forcepd_inplace_aliasing_refuted :
  C05.Corr32.fpd32 [[4%float]] = Some ([[1%float]], [[4%float]]) /\
  C05.Corr32.fpd32_inplace [[4%float]] = Some ([[1%float]], [[1%float]]).
Proof. exact C05.Corr32.fpd32_inplace_differs. Qed.

(* 9. FUELLED LOOP MODELS of the iterative routines (round 5; C05.ModelIter: symqr, francis, gksvd — the
      whole control flow of qrAlgorithm_symmetric.go, qrAlgorithm.go and svd.go is part of the model:
      deflation pass, split search, shift, sweep, 2x2 post-processing; one unit of fuel per iteration of
      the outer loop).  TIE: C05.CorrIter.icheck recomputes the WHOLE run from the input on binary64 and
      demands bit-equal factors (fresh calls, caller-supplied non-identity InSitu buffers, second runs of
      InSitu-reuse histories, default and explicit Epsilon, Float64 and Real64).
      THEOREMS, for EVERY fuel (= after every number of outer iterations), every epsilon and every input:
      the state has the promised structure, the accumulator is orthogonal, and U H U^T is reached from the
      input by deflation steps AS CODED only (X_reach of C05.SpecIter: each step zeroes one entry that
      passed the routine's own test |x21| <= eps (|x11| + |x22|), in orthogonally similar coordinates):
      every sweep, rotation and reflector in between is an EXACT orthogonal similarity although the code
      applies them through the banded shortcuts / on sub-blocks only (bulge-chasing invariant proved for
      every size).  With eps = 0 the similarity U H U^T = A is exact for every fuel.  A converged run ends
      diagonal (symmetric) resp. quasi upper triangular (Francis). *)
Theorem symmetric_qr_sweep_is_orthogonal_similarity : sym_sweep_spec.
Proof. exact sym_sweep_sound. Qed.

Theorem symmetric_qr_every_iterate :
  forall (fuel : nat) (eps : R) (A : rmat) (n : nat),
  dims n n A -> symmetric n A ->
  exists T Z conv, symqr XR fuel eps true A = (T, Some Z, conv) /\
    dims n n T /\ symmetric n T /\ tridiagonal T /\ dims n n Z /\ orth n (G Z) /\
    sym_reach eps n (G A) (uhut n (G T, G Z)) /\
    (conv = true -> forall i j, i <> j -> G T i j = 0).
Proof. exact (symqr_reach_from_sweep sym_sweep_sound). Qed.

Theorem symmetric_qr_exact_similarity_without_deflation_tolerance :
  forall (fuel : nat) (A : rmat) (n : nat),
  dims n n A -> symmetric n A ->
  exists T Z conv, symqr XR fuel 0 true A = (T, Some Z, conv) /\
    orth n (G Z) /\ meq n n (uhut n (G T, G Z)) (G A).
Proof. exact (symqr_eps0_similarity_from_sweep sym_sweep_sound). Qed.

Theorem symmetric_qr_deflation_only_zeroes_negligible_entries :
  forall eps n (T : rmat) i a b, dims n n T -> (S i < n)%nat ->
   G (sym_defl_at XR eps T i) a b = G T a b \/
   (((a = S i /\ b = i) \/ (a = i /\ b = S i)) /\ G (sym_defl_at XR eps T i) a b = 0 /\
     Rabs (G T (S i) i) <= eps * (Rabs (G T i i) + Rabs (G T (S i) (S i)))).
Proof. exact sym_defl_at_effect. Qed.

Theorem symmetric_qr_T_independent_of_computeU :
  forall p nn Tb Z, fst (sym_sweep XR p nn Tb None) = fst (sym_sweep XR p nn Tb (Some Z)).
Proof. exact sym_sweep_T_independent_of_Z. Qed.

Theorem francis_sweep_is_orthogonal_similarity : francis_sweep_spec.
Proof. exact francis_sweep_sound. Qed.

Theorem single_shift_2x2_step_is_orthogonal_similarity : qr2_step_spec.
Proof. exact qr2_step_sound. Qed.

Theorem francis_qr_every_iterate :
  forall (fuel : nat) (eps : R) (A : rmat) (n : nat),
  dims n n A ->
  exists H U conv, francis XR fuel eps true A = (H, Some U, conv) /\
    dims n n H /\ upper_hessenberg H /\ dims n n U /\ orth n (G U) /\
    fr_reach eps n (G A) (uhut n (G H, G U)) /\
    (conv = true -> forall i, (i + 2 < n)%nat -> G H (S i) i = 0 \/ G H (S (S i)) (S i) = 0).
Proof. exact (francis_reach_from_sweep francis_sweep_sound qr2_step_sound). Qed.

Theorem francis_qr_exact_similarity_without_deflation_tolerance :
  forall n A0 A1, fr_reach 0 n A0 A1 -> meq n n A1 A0.
Proof. exact fr_reach_eps0_hess. Qed.

Theorem golub_kahan_sweep_is_orthogonal_equivalence : gk_sweep_spec.
Proof. exact gk_sweep_sound. Qed.

Theorem svd_zero_row_chase_is_orthogonal_equivalence : zero_row_spec.
Proof. exact zero_row_sound. Qed.

(* SVD (m x n, n <= m, both accumulators): for every fuel and epsilon H is upper bidiagonal, U and V are
   orthogonal, U H V^T is reached from A by super-diagonal deflations as coded only, and a converged run
   ends with a DIAGONAL H whose diagonal is non-negative (the final sign flips negate column i of V
   together with H_ii, which keeps U H V^T because H is diagonal at that point). *)
Theorem svd_every_iterate :
  forall (fuel : nat) (eps : R) (A : rmat) (m n : nat),
  dims m n A -> (1 <= n <= m)%nat ->
  exists H U Vm conv, gksvd XR fuel eps true true A = ((H, Some U, Some Vm), conv) /\
    dims m n H /\ dims m m U /\ dims n n Vm /\ orth m (G U) /\ orth n (G Vm) /\
    upper_bidiagonal H /\
    svd_reach eps m n (G A) (ubvt m n (mkSvd (G H) (G U) (G Vm))) /\
    (conv = true -> (forall i j, i <> j -> G H i j = 0) /\ (forall i, 0 <= G H i i)).
Proof. exact (gksvd_reach_from_sweep gk_sweep_sound zero_row_sound). Qed.

Theorem svd_exact_equivalence_without_deflation_tolerance :
  forall m n A0 A1, svd_reach 0 m n A0 A1 -> meq m n A1 A0.
Proof. exact svd_reach_eps0. Qed.

(* 10. EIGENSYSTEM (round 6; C05.ModelEig: getEigenvalues, backSubstitution, getEigenvector(s), the
      insertion sort run by sort.Sort for n <= 12, the column interchange loop, eigensystem.Run on top of
      the Francis model of section 9).  TIE: C05.CorrEig.echeck recomputes the WHOLE call from the input
      on binary64 — eigenvalues, eigenvectors and what is left in inSitu.QrAlgorithm.H must be bit-equal
      (fresh calls, empty and caller-supplied InSitu buffers, second runs of reuse histories,
      ComputeEigenvectors / Symmetric / Epsilon options, Float64 and Real64).
      THEOREMS, every size:
      - back substitution solves the upper triangular system (it never reads below the diagonal);
      - at a position k whose leading k+1 columns of the Schur form H are upper triangular and whose
        eigenvalue H_kk is not repeated above k, the vector built by getEigenvector (shift, back
        substitution, x_k = 1, zeros below) satisfies H x = H_kk x; h is restored exactly;
      - transported by the orthogonal accumulator and normalised it is a UNIT eigenvector of
        A = U H U^T for the eigenvalue H_kk (statement of the property: A v = lambda v);
      - sortEigenvalues returns the pairs (value, index of origin) in decreasing magnitude, a
        permutation of the input pairs: eigenvalue t of the result IS input entry p[t]. *)
Theorem back_substitution_solves :
  forall (k : nat) (Ak : rmat) (b : list R),
  dims k k Ak -> length b = k -> (forall i, (i < k)%nat -> G Ak i i <> 0) ->
  (forall i j, (j < i)%nat -> G Ak i j = 0) ->
  length (backsub XR Ak b 0) = k /\
  forall i, (i < k)%nat -> sum_n (fun j => G Ak i j * V (backsub XR Ak b 0) j) k = V b i.
Proof. exact backsub_solves. Qed.

Theorem back_substitution_reads_upper_part_only :
  forall (k : nat) (Ak : rmat) (b : list R),
  dims k k Ak -> length b = k -> (forall i, (i < k)%nat -> G Ak i i <> 0) ->
  length (backsub XR Ak b 0) = k /\
  forall i, (i < k)%nat ->
    sum_n (fun c => G Ak i (i + c)%nat * V (backsub XR Ak b 0) (i + c)%nat) (k - i)%nat = V b i.
Proof. exact backsub_solves_upper_part. Qed.

Theorem eigenvector_of_schur_form :
  forall (n k : nat) (H : rmat),
  dims n n H -> (k < n)%nat ->
  (forall i j, (j < i)%nat -> (j <= k)%nat -> G H i j = 0) ->
  (forall i, (i < k)%nat -> G H i i <> G H k k) ->
  let x := eig_x XR H (G H k k) k ++ 1 :: repeat 0 (n - k - 1)%nat in
  length x = n /\ V x k = 1 /\
  forall i, (i < n)%nat -> sum_n (fun j => G H i j * V x j) n = G H k k * V x i.
Proof. exact eig_x_eigenvector. Qed.

Theorem eigenvector_transported_is_unit_eigenvector :
  forall (n : nat) (H U A : rmat) (x : list R) (lam : R),
  dims n n U -> length x = n -> orth n (G U) -> meq n n (uhut n (G H, G U)) (G A) ->
  (forall i, (i < n)%nat -> sum_n (fun j => G H i j * V x j) n = lam * V x i) ->
  (exists k, (k < n)%nat /\ V x k <> 0) ->
  let w := normalize XR (mdotv XR U x) in
  length w = n /\
  (forall i, (i < n)%nat -> sum_n (fun j => G A i j * V w j) n = lam * V w i) /\
  sum_n (fun i => V w i * V w i) n = 1.
Proof. exact transported_eigenvector. Qed.

(* getEigenvector as coded, on a zero-initialised buffer column (fresh call): h is left as found and
   the returned column is a unit eigenvector of A for the eigenvalue H_kk *)
Theorem get_eigenvector_correct :
  forall (n k : nat) (H U A : rmat),
  dims n n H -> dims n n U -> (k < n)%nat ->
  orth n (G U) -> meq n n (uhut n (G H, G U)) (G A) ->
  (forall i j, (j < i)%nat -> (j <= k)%nat -> G H i j = 0) ->
  (forall i, (i < k)%nat -> G H i i <> G H k k) ->
  let r := eig_vector XR H U (G H k k) k (repeat 0 (n - k - 1)%nat) in
  (forall i j, (i < n)%nat -> G (fst r) i j = G H i j) /\
  length (snd r) = n /\
  (forall i, (i < n)%nat -> sum_n (fun j => G A i j * V (snd r) j) n = G H k k * V (snd r) i) /\
  sum_n (fun i => V (snd r) i * V (snd r) i) n = 1.
Proof. exact eig_vector_correct. Qed.

Theorem sort_eigenvalues_correct :
  forall v : list R,
  let sp := sort_pairs XR v in
  Permutation sp (combine v (seq 0 (length v))) /\
  StronglySorted (fun a b => Rabs (fst b) <= Rabs (fst a)) sp /\
  Forall (fun q => (snd q < length v)%nat /\ fst q = nth (snd q) v 0) sp /\
  Permutation (map snd sp) (seq 0 (length v)) /\
  length sp = length v.
Proof. exact sort_pairs_correct. Qed.

(* eigensystem.Run without ComputeEigenvectors (/repo 8cb1afe, positive form of the retired finding
   F-EIG-INSITU-NOVEC-PANIC): for every fuel, epsilon, input and Symmetric option the result does not depend
   on an eigenvector buffer left in a recycled InSitu, and no eigenvectors are returned; a requested
   qrAlgorithm.Epsilon is the epsilon of the QR algorithm (/repo ec5730f, retired F-EIG-EPSILON-DROPPED). *)
Theorem eigensystem_without_eigenvectors_ignores_recycled_buffer :
  forall (fuel : nat) (eps : R) (sym : bool) (A : rmat) (ev0 : list R) (E0 : option rmat),
  eigensystem XR fuel eps false sym A ev0 E0 = eigensystem XR fuel eps false sym A ev0 None /\
  forall vs ws H', eigensystem XR fuel eps false sym A ev0 E0 = Some (vs, ws, H') -> ws = None.
Proof. exact eigensystem_novec_ignores_buffer. Qed.

Theorem eigensystem_forwards_requested_epsilon :
  forall d e : R, run_epsilon d (Some e) = e /\ run_epsilon d None = d.
Proof. exact run_epsilon_requested. Qed.

(* the interchange loop of sortEigensystem (cycle following) on binary64, ALL permutations of up to
   five columns: column t of the result is column p[t] of the input (bounded: a regression example,
   the statement for every n is not proved — see PARTIAL) *)
Theorem sort_eigensystem_aligns_columns_upto_5_partial : C05.ProofsEigSort.perm_loop_checked_upto 5 = true.
Proof. exact C05.ProofsEigSort.perm_loop_checked_5. Qed.

(* non-vacuity: an upper triangular H with separated diagonal, U = I, A = H, position k = 1 *)
Example eigenvector_hyps_satisfiable :
  let H : rmat := [[1; 2]; [0; 3]] in let U : rmat := [[1; 0]; [0; 1]] in
  dims 2 2 H /\ dims 2 2 U /\ orth 2 (G U) /\ meq 2 2 (uhut 2 (G H, G U)) (G H) /\
  (forall i j, (j < i)%nat -> (j <= 1)%nat -> G H i j = 0) /\
  (forall i, (i < 1)%nat -> G H i i <> G H 1 1) /\
  (forall i, (i < 2)%nat -> G H i i <> 0).
Proof. exact C05.ProofsEigSort.eig_hyps_example. Qed.

(* the model at work on binary64 (the corpus witness "sort moves every column"): eigenvalues 1, -4, 2 of
   an upper triangular matrix come back as -4, 2, 1 and the eigenvector columns follow *)
Example eigensystem_sorts_by_magnitude :
  C05.ProofsEigSort.eig_example_values = Some [(-4)%float; 2%float; 1%float].
Proof. exact C05.ProofsEigSort.eig_example_values_ok. Qed.

(* the hypotheses are satisfiable by a non-trivial instance *)
Example cholesky_hyps_satisfiable :
  dims 2 2 [[4; 2]; [2; 10]] /\ symmetric 2 [[4; 2]; [2; 10]].
Proof.
  split.
  - split; [reflexivity|]. intros row [<-|[<-|[]]]; reflexivity.
  - intros i j Hi Hj. destruct i as [|[|i]]; destruct j as [|[|j]]; try lia; reflexivity.
Qed.

(* a symmetric, not yet tridiagonal instance for tridiagonalization_correct (a reflection is
   applied in step 0: the entry (2,0) is not zero) *)
Example tridiagonalization_hyps_satisfiable :
  dims 3 3 [[4; 1; 2]; [1; 3; 5]; [2; 5; 6]] /\ symmetric 3 [[4; 1; 2]; [1; 3; 5]; [2; 5; 6]] /\
  G [[4; 1; 2]; [1; 3; 5]; [2; 5; 6]] 2 0 <> 0.
Proof.
  split; [|split].
  - split; [reflexivity|]. intros row [<-|[<-|[<-|[]]]]; reflexivity.
  - intros i j Hi Hj. destruct i as [|[|[|i]]]; destruct j as [|[|[|j]]]; try lia; reflexivity.
  - unfold G. cbn. lra.
Qed.

(* regression witnesses of retired findings (fixed in /repo): the HEAD model
   returns T = A, U = I on an already tridiagonal input with a negative
   off-diagonal entry, and R does not depend on a recycled buffer *)
Theorem tridiagonalization_sign_regression :
  let A : C05.Corr.fmat := [[1;-2;0];[-2;3;1];[0;1;1]]%float in
  (let r := tridiag2 NumXF true A in
   C05.Corr.ofm_eqb (snd r) (Some (ident NumXF 3)) = true /\ C05.Corr.fm_eqb (fst r) A = true) /\
  (let r := tridiag NumXF true A in C05.Corr.fm_eqb (fst r) A = false).
Proof. exact tridiag_sign_regression. Qed.
