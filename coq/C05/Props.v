(* C05 — property theorems (statements only; proofs in Proofs*.v).
   All statements are over the reals (model instance XR = NumXR), for matrices of
   EVERY size n.  The model is tied to the Go code by the bit-exact replay of
   Corr.v on every run. *)
From Coq Require Import Floats Reals List Lia Lra.
From ADV Require Import Base.Num C05.Model C05.Spec C05.ProofsBase C05.ProofsChol C05.ProofsLdl
                        C05.ProofsHouse C05.ProofsGivens C05.Refuted.
Import ListNotations.
Open Scope R_scope.

(* 1. Cholesky (generic path: Scalar.Sqrt, fast path: SQRT; both are sqrt over R):
      if the routine returns L with a non-zero diagonal then L is n x n lower
      triangular and L L^T = A.  (A zero pivot is NOT reported by the code, test
      t < 0: see Refuted.cholesky_zero_pivot_refuted.) *)
Theorem cholesky_correct :
  forall (A L : rmat) (n : nat),
  dims n n A -> symmetric n A -> cholesky XR A = Some L ->
  (forall j, (j < n)%nat -> G L j j <> 0) ->
  dims n n L /\ lower_triangular L /\
  forall i j, (i < n)%nat -> (j < n)%nat -> LLt n L i j = G A i j.
Proof. exact cholesky_with_sound. Qed.

Theorem cholesky_fast_correct :
  forall (A L : rmat) (n : nat),
  dims n n A -> symmetric n A -> cholesky_fast XR A = Some L ->
  (forall j, (j < n)%nat -> G L j j <> 0) ->
  dims n n L /\ lower_triangular L /\
  forall i j, (i < n)%nat -> (j < n)%nat -> LLt n L i j = G A i j.
Proof. exact cholesky_with_sound. Qed.

(* the error is raised exactly when the pivot of the current row, as computed by
   the recurrence from the rows already finished, is negative *)
Theorem cholesky_row_error_iff_negative_pivot :
  forall (n : nat) (L : rmat) (arow : list R),
  chol_row XR sqrt n L arow = None <->
  (let '(cur, rest) := chol_off XR L arow [] in hd 0 rest - dotl XR cur cur 0 < 0).
Proof. exact chol_row_none. Qed.

(* 2. LDL^T: L unit lower triangular, D diagonal and positive, L D L^T = A. *)
Theorem cholesky_ldl_correct :
  forall (A L D : rmat) (n : nat),
  dims n n A -> symmetric n A -> cholesky_ldl XR A = Some (L, D) ->
  unit_lower_triangular n L /\ diagonal D /\ (forall j, (j < n)%nat -> 0 < G D j j) /\
  forall i j, (i < n)%nat -> (j < n)%nat -> LDLt n L D i j = G A i j.
Proof. exact cholesky_ldl_sound. Qed.

(* 3. Gill-Murray-Wright: for EVERY square A (no definiteness assumed) the result
      has D_jj >= delta > 0 with L unit lower triangular (so L D L^T is positive
      definite), L D L^T agrees with A off the diagonal and dominates it on the
      diagonal (L D L^T = A + E, E diagonal, E >= 0). *)
Theorem cholesky_ldl_forcepd_correct :
  forall (A L D : rmat) (n : nat) (bfloor delta : R),
  dims n n A -> 0 < delta ->
  cholesky_ldl_forcepd XR bfloor delta A = Some (L, D) ->
  unit_lower_triangular n L /\ diagonal D /\
  (forall j, (j < n)%nat -> delta <= G D j j) /\
  (forall i j, (j < i)%nat -> (i < n)%nat -> LDLt n L D i j = G A i j) /\
  (forall j, (j < n)%nat -> G A j j <= LDLt n L D j j).
Proof. exact cholesky_ldl_forcepd_sound. Qed.

(* "= LDL when the bounds are inactive": proved for the pivot choice of one column
   (c_jj > 0, c_jj >= delta, c_jj >= (theta_j/beta)^2  ==>  the forced pivot is the
   LDL pivot); MISSING: lifting through the column loop to equality of the two
   returned pairs (the loop is the same function [ldl_gen] of the pivot choice). *)
Theorem forcepd_equals_ldl_when_inactive_partial :
  forall (n : nat) (beta delta : R) (j : nat) (c : R) (below : list R),
  0 < c -> delta <= c ->
  (j <> (n - 1)%nat ->
   (fold_left (upd_max XR) below (-1) / beta) * (fold_left (upd_max XR) below (-1) / beta) <= c) ->
  pick_fpd XR n beta delta j c below = pick_ldl XR j c below.
Proof. exact pick_fpd_inactive. Qed.

(* 4. Householder.  The reflector I - beta v v^T is symmetric, and orthogonal /
      involutive as soon as beta = 0 or beta v^T v = 2 — for every v and n. *)
Theorem reflector_symmetric : forall beta v i j, refl beta v i j = refl beta v j i.
Proof. exact refl_symmetric. Qed.

Theorem reflector_orthogonal :
  forall (n : nat) (beta : R) (v : list R),
  beta = 0 \/ beta * dot n v v = 2 ->
  forall i j, (i < n)%nat -> (j < n)%nat ->
  sum_n (fun k => refl beta v k i * refl beta v k j) n = delta i j.
Proof. exact refl_orthogonal. Qed.

(* householder.Run as coded: with sigma = |tail x|^2, it returns beta = 0 and
   nu = (1, tail) when sigma = 0, else (h_beta, (nu0, tail)/nu0) ... *)
Theorem householder_run_as_coded :
  forall (x0 : R) (xt : list R),
  let sigma := sum_n (fun k => nth k xt 0 * nth k xt 0) (length xt) in
  house XR (x0 :: xt) =
  if Reqb sigma 0 then (0, 1 :: xt)
  else (h_beta x0 sigma, map (fun y => y / h_nu0 x0 sigma) (h_nu0 x0 sigma :: xt)).
Proof. exact house_as_coded. Qed.

(* ... and these scalars satisfy beta = 2/(nu^T nu) (nu^T nu = 1 + sigma/nu0^2),
   beta (nu^T x) = nu0, hence (P x)_0 = x0 - beta nu^T x = +|x| and
   (P x)_i = x_i - beta (nu^T x) x_i/nu0 = 0.
   MISSING (hence _partial): the last step as an index statement over the list nu. *)
Theorem householder_scalars_partial :
  forall (x0 sigma : R), 0 < sigma ->
  let nu0 := h_nu0 x0 sigma in let beta := h_beta x0 sigma in
  nu0 <> 0 /\
  beta * (1 + sigma / (nu0 * nu0)) = 2 /\
  beta * (x0 + sigma / nu0) = nu0 /\
  x0 - beta * (x0 + sigma / nu0) = h_mu x0 sigma.
Proof. exact house_scalars. Qed.

(* 5. Givens: c^2 + s^2 = 1, the rotation zeroes the targeted entry, and the
      applied 2x2 map preserves inner products (is orthogonal). *)
Theorem givens_unit_circle :
  forall a b : R, let cs := givens XR a b in fst cs * fst cs + snd cs * snd cs = 1.
Proof. exact givens_unit. Qed.

Theorem givens_zeroes_target :
  forall a b : R, let cs := givens XR a b in snd (giv_apply XR (fst cs) (snd cs) a b) = 0.
Proof. exact givens_zeroes. Qed.

Theorem givens_apply_orthogonal :
  forall c s a1 a2 b1 b2 : R, c * c + s * s = 1 ->
  fst (giv_apply XR c s a1 a2) * fst (giv_apply XR c s b1 b2) +
  snd (giv_apply XR c s a1 a2) * snd (giv_apply XR c s b1 b2) = a1 * b1 + a2 * b2.
Proof. exact giv_apply_inner. Qed.

(* the hypotheses are satisfiable by a non-trivial instance *)
Example cholesky_hyps_satisfiable :
  dims 2 2 [[4; 2]; [2; 10]] /\ symmetric 2 [[4; 2]; [2; 10]].
Proof.
  split.
  - split; [reflexivity|]. intros row [<-|[<-|[]]]; reflexivity.
  - intros i j Hi Hj. destruct i as [|[|i]]; destruct j as [|[|j]]; try lia; reflexivity.
Qed.

(* regression witnesses of retired findings (fixed in /repo): the HEAD model
   returns T = A, U = I on an already tridiagonal input with a negative
   off-diagonal entry, and R does not depend on a recycled buffer *)
Theorem tridiagonalization_sign_regression :
  let A : C05.Corr.fmat := [[1;-2;0];[-2;3;1];[0;1;1]]%float in
  (let r := tridiag2 NumXF true A in
   C05.Corr.ofm_eqb (snd r) (Some (ident NumXF 3)) = true /\ C05.Corr.fm_eqb (fst r) A = true) /\
  (let r := tridiag NumXF true A in C05.Corr.fm_eqb (fst r) A = false).
Proof. exact tridiag_sign_regression. Qed.
