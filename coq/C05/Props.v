(* C05 Props — placeholder, filled below *)
