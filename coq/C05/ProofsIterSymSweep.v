(* C05 — round 5: one implicit-shift sweep of the symmetric QR algorithm (ModelIter.sym_sweep)
   on a symmetric tridiagonal matrix whose active block is decoupled, over R, every size:
   the result is again symmetric tridiagonal, only the block changed, Z' T' Z'^T = Z T Z^T and
   the orthogonality of Z is kept (SpecIter.sym_sweep_spec).

   Bulge chasing.  Invariant before rotation k on the nn x nn block B: B symmetric, B i j = 0
   for |i-j| > 1 except the bulge pair (k+1, k-1), (k-1, k+1) when k >= 1, and the pending
   (y, z) = (B k (k-1), B (k+1) (k-1)) when k >= 1 (for k = 0 ANY pair (y, z) works: the
   Wilkinson shift only chooses which rotation is applied).  The banded shortcuts equal the
   full rotations under this pattern (giv_cols_band / giv_rows_band); on the full matrix the
   rotation of the block is the rotation of rows/columns p+k, p+k+1 because the rows/columns of
   the block vanish outside the block (tridiagonal + the two decoupling hypotheses). *)
From Coq Require Import Reals List Lia Lra Bool.
From ADV Require Import Base.Num C05.Model C05.Spec C05.ProofsBase C05.ProofsHouse C05.ProofsHouse2
                        C05.ProofsBlock C05.ProofsTrace C05.ProofsBand C05.ProofsGivens
                        C05.Corr C05.ModelIter C05.SpecIter.
Import ListNotations.
Open Scope R_scope.

(* ====================================================================== *)
(* 1. the similarity G^T M G for G = Gmat c s a (a+1), entry by entry     *)

Definition rotR (c s : R) (a : nat) (M : fmatR) : fmatR := fun i j =>
  if Nat.eqb j a then c * M i a - s * M i (S a)
  else if Nat.eqb j (S a) then s * M i a + c * M i (S a) else M i j.
Definition rotL (c s : R) (a : nat) (M : fmatR) : fmatR := fun i j =>
  if Nat.eqb i a then c * M a j - s * M (S a) j
  else if Nat.eqb i (S a) then s * M a j + c * M (S a) j else M i j.
Definition rotE (c s : R) (a : nat) (M : fmatR) : fmatR := rotL c s a (rotR c s a M).

Lemma mmul_Gmat_r n c s a (M : fmatR) i j : (S a < n)%nat -> (j < n)%nat ->
  mmul n M (Gmat c s a (S a)) i j = rotR c s a M i j.
Proof.
  intros Ha Hj. unfold mmul, rotR.
  rewrite (sum_n_ext _ (fun l => Gmat c s a (S a) l j * M i l)) by (intros; ring).
  rewrite (Gmat_col_apply c s a (S a) n (fun l => M i l) j) by lia. reflexivity.
Qed.

Lemma mmul_Gmat_l n c s a (M : fmatR) i j : (S a < n)%nat -> (i < n)%nat ->
  mmul n (tr (Gmat c s a (S a))) M i j = rotL c s a M i j.
Proof.
  intros Ha Hi. unfold mmul, tr, rotL.
  rewrite (Gmat_col_apply c s a (S a) n (fun l => M l j) i) by lia. reflexivity.
Qed.

Lemma rotE_mmul n c s a (M : fmatR) : (S a < n)%nat ->
  meq n n (mmul n (tr (Gmat c s a (S a))) (mmul n M (Gmat c s a (S a)))) (rotE c s a M).
Proof.
  intros Ha i j Hi Hj. rewrite mmul_Gmat_l by assumption. unfold rotE, rotL.
  rewrite !(mmul_Gmat_r n c s a M _ j Ha Hj). reflexivity.
Qed.

Lemma rotE_tr c s a (M : fmatR) i j : rotE c s a M j i = rotE c s a (fun x y => M y x) i j.
Proof. unfold rotE, rotL, rotR. eqb_cases; ring. Qed.

Lemma rotE_ext nn c s a (M M' : fmatR) i j :
  (forall x y, (x < nn)%nat -> (y < nn)%nat -> M x y = M' x y) ->
  (S a < nn)%nat -> (i < nn)%nat -> (j < nn)%nat -> rotE c s a M i j = rotE c s a M' i j.
Proof.
  intros H Ha Hi Hj. unfold rotE, rotL, rotR. eqb_cases; rewrite ?H by lia; reflexivity.
Qed.

Definition symw (nn : nat) (M : fmatR) : Prop :=
  forall i j, (i < nn)%nat -> (j < nn)%nat -> M i j = M j i.

Lemma rotE_sym nn c s a (M : fmatR) : (S a < nn)%nat -> symw nn M -> symw nn (rotE c s a M).
Proof.
  intros Ha Hs i j Hi Hj. rewrite (rotE_tr c s a M j i).
  apply (rotE_ext nn); try assumption. intros x y Hx Hy. apply Hs; assumption.
Qed.

(* band pattern with the bulge of step k *)
Definition pat (nn k : nat) (M : fmatR) : Prop :=
  forall i j, (i < nn)%nat -> (j < nn)%nat -> (S j < i \/ S i < j)%nat ->
  ~ ((i = S k /\ S j = k) \/ (j = S k /\ S i = k)) -> M i j = 0.

Lemma rotE_pat nn c s k (M : fmatR) :
  (S k < nn)%nat -> symw nn M -> pat nn k M ->
  (forall k', S k' = k -> s * M k k' + c * M (S k) k' = 0) ->
  pat nn (S k) (rotE c s k M).
Proof.
  intros Hk Hs Hp Hz i j Hi Hj Hband Hnb.
  assert (Z : forall x y, (x < nn)%nat -> (y < nn)%nat -> (S y < x \/ S x < y)%nat ->
              ~ ((x = S k /\ S y = k) \/ (y = S k /\ S x = k)) -> M x y = 0) by exact Hp.
  unfold rotE, rotL, rotR. eqb_cases; subst.
  - (* i = k, j outside *)
    rewrite (Z k j), (Z (S k) j); try lia; try ring.
  - (* i = S k, j outside *)
    destruct (Nat.eq_dec (S j) k) as [E|E].
    + apply Hz. exact E.
    + rewrite (Z k j), (Z (S k) j); try lia; try ring.
  - (* j = k, i outside *)
    rewrite (Z i k), (Z i (S k)); try lia; try ring.
  - (* j = S k, i outside *)
    destruct (Nat.eq_dec (S i) k) as [E|E].
    + rewrite (Hs i k), (Hs i (S k)) by lia. apply Hz. exact E.
    + rewrite (Z i k), (Z i (S k)); try lia; try ring.
  - apply Z; try assumption. lia.
Qed.

(* ====================================================================== *)
(* 2. the block inside the full matrix                                     *)

Section Embed.
Context (Tf : fmatR) (p nn : nat).
Context (dec : forall i j, (p <= i < p + nn)%nat -> (j < p \/ p + nn <= j)%nat ->
  Tf i j = 0 /\ Tf j i = 0).

(* Mf carries the block Bf at offset (p, p) and agrees with Tf elsewhere *)
Definition Rel (Mf Bf : fmatR) : Prop :=
  (forall i j, (i < nn)%nat -> (j < nn)%nat -> Mf (p + i)%nat (p + j)%nat = Bf i j) /\
  (forall i j, (i < p \/ p + nn <= i \/ j < p \/ p + nn <= j)%nat -> Mf i j = Tf i j).

Lemma Rel_unique Mf1 Bf1 Mf2 Bf2 :
  Rel Mf1 Bf1 -> Rel Mf2 Bf2 ->
  (forall i j, (i < nn)%nat -> (j < nn)%nat -> Bf1 i j = Bf2 i j) ->
  forall i j, Mf1 i j = Mf2 i j.
Proof.
  intros (A1 & B1) (A2 & B2) HB i j.
  destruct (le_lt_dec p i) as [Hi1|Hi1]; [|rewrite B1, B2 by lia; reflexivity].
  destruct (le_lt_dec (p + nn) i) as [Hi2|Hi2]; [rewrite B1, B2 by lia; reflexivity|].
  destruct (le_lt_dec p j) as [Hj1|Hj1]; [|rewrite B1, B2 by lia; reflexivity].
  destruct (le_lt_dec (p + nn) j) as [Hj2|Hj2]; [rewrite B1, B2 by lia; reflexivity|].
  replace i with (p + (i - p))%nat by lia. replace j with (p + (j - p))%nat by lia.
  rewrite A1, A2 by lia. apply HB; lia.
Qed.

Lemma Rel_rotR c s k Mf Bf : (S k < nn)%nat ->
  Rel Mf Bf -> Rel (rotR c s (p + k) Mf) (rotR c s k Bf).
Proof.
  intros Hk (A1 & B1). split.
  - intros i j Hi Hj. unfold rotR. rewrite !plus_n_Sm.
    destruct (Nat.eqb_spec j k) as [E1|E1].
    + subst j. rewrite Nat.eqb_refl. rewrite !A1 by lia. reflexivity.
    + destruct (Nat.eqb_spec (p + j) (p + k)) as [E2|E2]; [lia|].
      destruct (Nat.eqb_spec j (S k)) as [E3|E3].
      * subst j. rewrite Nat.eqb_refl. rewrite !A1 by lia. reflexivity.
      * destruct (Nat.eqb_spec (p + j) (p + S k)) as [E4|E4]; [lia|]. apply A1; assumption.
  - intros i j Hout. unfold rotR. rewrite !plus_n_Sm.
    destruct (Nat.eqb_spec j (p + k)) as [E1|E1]; [|destruct (Nat.eqb_spec j (p + S k)) as [E2|E2]].
    + subst j. rewrite !B1 by lia.
      destruct (dec (p + k)%nat i ltac:(lia) ltac:(lia)) as (_ & Z1).
      destruct (dec (p + S k)%nat i ltac:(lia) ltac:(lia)) as (_ & Z2).
      rewrite Z1, Z2. ring.
    + subst j. rewrite !B1 by lia.
      destruct (dec (p + k)%nat i ltac:(lia) ltac:(lia)) as (_ & Z1).
      destruct (dec (p + S k)%nat i ltac:(lia) ltac:(lia)) as (_ & Z2).
      rewrite Z1, Z2. ring.
    + apply B1. exact Hout.
Qed.

Lemma Rel_rotL c s k Mf Bf : (S k < nn)%nat ->
  Rel Mf Bf -> Rel (rotL c s (p + k) Mf) (rotL c s k Bf).
Proof.
  intros Hk (A1 & B1). split.
  - intros i j Hi Hj. unfold rotL. rewrite !plus_n_Sm.
    destruct (Nat.eqb_spec i k) as [E1|E1].
    + subst i. rewrite Nat.eqb_refl. rewrite !A1 by lia. reflexivity.
    + destruct (Nat.eqb_spec (p + i) (p + k)) as [E2|E2]; [lia|].
      destruct (Nat.eqb_spec i (S k)) as [E3|E3].
      * subst i. rewrite Nat.eqb_refl. rewrite !A1 by lia. reflexivity.
      * destruct (Nat.eqb_spec (p + i) (p + S k)) as [E4|E4]; [lia|]. apply A1; assumption.
  - intros i j Hout. unfold rotL. rewrite !plus_n_Sm.
    destruct (Nat.eqb_spec i (p + k)) as [E1|E1]; [|destruct (Nat.eqb_spec i (p + S k)) as [E2|E2]].
    + subst i. rewrite !B1 by lia.
      destruct (dec (p + k)%nat j ltac:(lia) ltac:(lia)) as (Z1 & _).
      destruct (dec (p + S k)%nat j ltac:(lia) ltac:(lia)) as (Z2 & _).
      rewrite Z1, Z2. ring.
    + subst i. rewrite !B1 by lia.
      destruct (dec (p + k)%nat j ltac:(lia) ltac:(lia)) as (Z1 & _).
      destruct (dec (p + S k)%nat j ltac:(lia) ltac:(lia)) as (Z2 & _).
      rewrite Z1, Z2. ring.
    + apply B1. exact Hout.
Qed.

Lemma Rel_rotE c s k Mf Bf : (S k < nn)%nat ->
  Rel Mf Bf -> Rel (rotE c s (p + k) Mf) (rotE c s k Bf).
Proof. intros Hk H. unfold rotE. apply Rel_rotL; [exact Hk|]. apply Rel_rotR; assumption. Qed.

End Embed.

(* ====================================================================== *)
(* 3. list level: one rotation on the block                                *)

Lemma G_overflow n (M : rmat) i j : dims n n M -> (n <= i \/ n <= j)%nat -> G M i j = 0.
Proof.
  intros HM H. unfold G.
  destruct (le_lt_dec n i) as [Hi|Hi].
  - rewrite (nth_overflow M) by (destruct HM as (Hl & _); lia). destruct j; reflexivity.
  - apply nth_overflow. rewrite (dims_row n n M i HM Hi). lia.
Qed.

Lemma tri_left_sel_false k j : tridiag_left_sel k (S k) j = false ->
  j <> k /\ j <> S k /\ S j <> k /\ j <> S (S k).
Proof.
  unfold tridiag_left_sel. intro Es.
  destruct (Nat.eqb_spec j k) as [E1|E1]; [discriminate|].
  destruct (Nat.eqb_spec j (S k)) as [E2|E2]; [discriminate|].
  destruct (Nat.eqb_spec j (k + 1)) as [E3|E3];
  destruct (Nat.eqb_spec (j + 1) (S k)) as [E4|E4];
  destruct (Nat.eqb_spec (j + 1) k) as [E5|E5];
  destruct (Nat.eqb_spec j (S k + 1)) as [E6|E6]; cbn in Es; try discriminate; lia.
Qed.

Lemma tri_right_sel_false k j : tridiag_right_sel k (S k) j = false ->
  j <> k /\ j <> S k /\ S j <> k /\ j <> S (S k).
Proof.
  unfold tridiag_right_sel. intro Es.
  destruct (Nat.eqb_spec j k) as [E1|E1]; [discriminate|].
  destruct (Nat.eqb_spec j (S k)) as [E2|E2]; [discriminate|].
  destruct (Nat.eqb_spec (j + 1) k) as [E3|E3];
  destruct (Nat.eqb_spec j (k + 1)) as [E4|E4];
  destruct (Nat.eqb_spec (j + 1) (S k)) as [E5|E5];
  destruct (Nat.eqb_spec j (S k + 1)) as [E6|E6]; cbn in Es; try discriminate; lia.
Qed.

Lemma sym_rot_block nn k (B : rmat) (c s : R) :
  dims nn nn B -> (S k < nn)%nat -> symw nn (G B) -> pat nn k (G B) ->
  let B' := giv_rows XR (tridiag_left_sel k (S k))
              (giv_cols XR (tridiag_right_sel k (S k)) B c s k (S k)) c s k (S k) in
  dims nn nn B' /\ meq nn nn (G B') (rotE c s k (G B)).
Proof.
  intros HB Hk Hs Hp. cbv zeta.
  assert (E1 : giv_cols XR (tridiag_right_sel k (S k)) B c s k (S k) = givens_right XR B c s k (S k)).
  { apply (giv_cols_band nn nn); [exact HB|]. intros j Hj Es.
    apply tri_right_sel_false in Es. destruct Es as (N1 & N2 & N3 & N4).
    split; apply Hp; try lia. }
  rewrite E1.
  destruct (givens_right_is_mul_G nn nn B c s k (S k) HB ltac:(lia) ltac:(lia) Hk) as (D1 & M1).
  assert (E2 : giv_rows XR (tridiag_left_sel k (S k)) (givens_right XR B c s k (S k)) c s k (S k) =
               givens_left XR (givens_right XR B c s k (S k)) c s k (S k)).
  { apply (giv_rows_band nn nn); [exact D1|lia|exact Hk|]. intros j Hj Es.
    apply tri_left_sel_false in Es. destruct Es as (N1 & N2 & N3 & N4).
    rewrite (M1 k j ltac:(lia) Hj), (M1 (S k) j Hk Hj).
    rewrite !(mmul_Gmat_r nn c s k (G B) _ j Hk Hj). unfold rotR.
    destruct (Nat.eqb_spec j k) as [F1|F1]; [lia|]. destruct (Nat.eqb_spec j (S k)) as [F2|F2]; [lia|].
    split; apply Hp; try lia. }
  rewrite E2.
  destruct (givens_left_is_Gt_mul nn nn _ c s k (S k) D1 ltac:(lia) ltac:(lia) Hk) as (D2 & M2).
  split; [exact D2|].
  eapply meq_trans; [exact M2|].
  eapply meq_trans; [|apply rotE_mmul; exact Hk].
  apply mmul_congr; [apply meq_refl|exact M1].
Qed.

(* ====================================================================== *)
(* 4. the sweep                                                            *)

Section Sweep.
Context (n p nn : nat) (T Z : rmat).
Context (HT : dims n n T) (Hsym : symmetric n T) (Htri : tridiagonal T) (HZ : dims n n Z).
Context (Hfit : (p + nn <= n)%nat) (Hnn : (2 <= nn)%nat).
Context (Hlo : (0 < p)%nat -> G T (p - 1) p = 0).
Context (Hhi : (p + nn < n)%nat -> G T (p + nn - 1) (p + nn) = 0).

Lemma T_dec : forall i j, (p <= i < p + nn)%nat -> (j < p \/ p + nn <= j)%nat ->
  G T i j = 0 /\ G T j i = 0.
Proof.
  intros i j Hi [Hj|Hj].
  - destruct (Nat.eq_dec (S j) i) as [E|E].
    + assert (Ep : i = p) by lia. assert (Ej : j = (p - 1)%nat) by lia. clear E. subst i j.
      assert (Z0 : G T (p - 1) p = 0) by (apply Hlo; lia).
      split; [|exact Z0]. rewrite (Hsym p (p - 1)%nat) by lia. exact Z0.
    + split; apply Htri; lia.
  - destruct (Nat.eq_dec (S i) j) as [E|E].
    + assert (Ei : i = (p + nn - 1)%nat) by lia. assert (Ej : j = (p + nn)%nat) by lia. clear E. subst i j.
      destruct (le_lt_dec n (p + nn)) as [Hn|Hn].
      * split; apply (G_overflow n); try exact HT; lia.
      * assert (Z0 : G T (p + nn - 1) (p + nn) = 0) by (apply Hhi; exact Hn).
        split; [exact Z0|]. rewrite (Hsym (p + nn)%nat (p + nn - 1)%nat) by lia. exact Z0.
    + split; apply Htri; lia.
Qed.

Lemma Rel_put (B : rmat) : dims nn nn B -> Rel (G T) p nn (G (put_block T p p B)) (G B).
Proof.
  intro HB. split.
  - intros i j Hi Hj. rewrite (put_block_G n n T B nn nn p p) by (try assumption; lia).
    replace (Nat.leb p (p + i) && Nat.ltb (p + i) (p + nn) && Nat.leb p (p + j) && Nat.ltb (p + j) (p + nn))%bool
      with true.
    + f_equal; lia.
    + symmetry. rewrite !andb_true_iff, !Nat.leb_le, !Nat.ltb_lt. lia.
  - intros i j Hout.
    destruct (le_lt_dec n i) as [Hi|Hi].
    + rewrite (G_overflow n T i j HT) by lia. apply (G_overflow n); [|lia].
      apply (put_block_dims n n T B nn nn); try assumption.
    + rewrite (put_block_G n n T B nn nn p p) by (try assumption; lia).
      replace (Nat.leb p i && Nat.ltb i (p + nn) && Nat.leb p j && Nat.ltb j (p + nn))%bool with false;
        [reflexivity|].
      symmetry. rewrite !andb_false_iff, !Nat.leb_gt, !Nat.ltb_ge. lia.
Qed.

(* invariant before rotation k *)
Definition Inv (k : nat) (st : rmat * option rmat * (R * R)) : Prop :=
  exists B Zc yz, st = (B, Some Zc, yz) /\
    dims nn nn B /\ symw nn (G B) /\ pat nn k (G B) /\
    (forall k', S k' = k -> (S k < nn)%nat -> fst yz = G B k k' /\ snd yz = G B (S k) k') /\
    dims n n Zc /\
    meq n n (uhut n (G (put_block T p p B), G Zc)) (uhut n (G T, G Z)) /\
    (orth n (G Z) -> orth n (G Zc)).

Lemma Inv_step k st : (S k < nn)%nat -> Inv k st -> Inv (S k) (sym_rot XR p nn k st).
Proof.
  intros Hk (B & Zc & yz & -> & HB & HsB & HpB & Hyz & HZc & Hinv & Horth).
  unfold sym_rot. cbv zeta. cbn [opt_right].
  set (c := fst (givens XR (fst yz) (snd yz))). set (s := snd (givens XR (fst yz) (snd yz))).
  assert (Hcs : c * c + s * s = 1) by apply (givens_unit (fst yz) (snd yz)).
  assert (Hz : forall k', S k' = k -> s * G B k k' + c * G B (S k) k' = 0).
  { intros k' Ek. destruct (Hyz k' Ek Hk) as (Ey & Ez). rewrite <- Ey, <- Ez.
    pose proof (givens_zeroes (fst yz) (snd yz)) as Hg. cbv zeta in Hg. fold c s in Hg.
    cbn in Hg. lra. }
  destruct (sym_rot_block nn k B c s HB Hk HsB HpB) as (DB' & MB').
  set (B' := giv_rows XR (tridiag_left_sel k (S k))
              (giv_cols XR (tridiag_right_sel k (S k)) B c s k (S k)) c s k (S k)) in *.
  assert (HsB' : symw nn (G B')).
  { intros i j Hi Hj. rewrite (MB' i j Hi Hj), (MB' j i Hj Hi). apply (rotE_sym nn); assumption. }
  assert (HpB' : pat nn (S k) (G B')).
  { intros i j Hi Hj Hb Hnb. rewrite (MB' i j Hi Hj).
    apply (rotE_pat nn c s k (G B) Hk HsB HpB Hz i j Hi Hj Hb Hnb). }
  assert (Hpk : (p + k)%nat <> (p + S k)%nat) by lia.
  destruct (givens_right_is_mul_G n n Zc c s (p + k) (p + S k) HZc Hpk ltac:(lia) ltac:(lia)) as (DZ' & MZ').
  set (Z' := givens_right XR Zc c s (p + k) (p + S k)) in *.
  set (Q := Gmat c s (p + k) (p + S k)) in *.
  assert (HQ : orth n Q) by (apply Gmat_orth; try assumption; lia).
  exists B', Z'.
  eexists. split; [reflexivity|].
  split; [exact DB'|]. split; [exact HsB'|]. split; [exact HpB'|]. split.
  { intros k' Ek Hk2. assert (k' = k) by lia. subst k'.
    replace (Nat.ltb k (nn - 2)) with true by (symmetry; apply Nat.ltb_lt; lia).
    split; reflexivity. }
  split; [exact DZ'|]. split.
  - eapply meq_trans; [|exact Hinv].
    eapply meq_trans; [|apply (qr_step_invariant n Q (G (put_block T p p B)) (G Zc) HQ)].
    unfold qr_step. cbn [fst snd].
    apply ProofsTrace.uhut_congr; [|exact MZ'].
    intros i j Hi Hj.
    unfold Q. rewrite <- plus_n_Sm.
    rewrite (rotE_mmul n c s (p + k) (G (put_block T p p B)) ltac:(lia) i j Hi Hj).
    apply (Rel_unique (G T) p nn _ (G B') _ (rotE c s k (G B))).
    + apply Rel_put. exact DB'.
    + apply Rel_rotE; [exact T_dec|exact Hk|]. apply Rel_put. exact HB.
    + exact MB'.
  - intro HoZ. apply (orth_meq n (mmul n (G Zc) Q)); [apply meq_sym; exact MZ'|].
    apply orth_mmul; [apply Horth; exact HoZ|exact HQ].
Qed.

Lemma Inv_iter : forall cnt k st, (k + cnt = nn - 1)%nat -> Inv k st ->
  Inv (nn - 1) (iter_steps (sym_rot XR p nn) k cnt st).
Proof.
  induction cnt as [|cnt IH]; intros k st Hk Hi.
  - cbn. replace (nn - 1)%nat with k by lia. exact Hi.
  - cbn [iter_steps]. apply IH; [lia|]. apply Inv_step; [lia|exact Hi].
Qed.

Lemma block_put_G i j : (i < n)%nat -> (j < n)%nat ->
  G (put_block T p p (block T p (p + nn) p (p + nn))) i j = G T i j.
Proof.
  intros Hi Hj.
  assert (HB : dims nn nn (block T p (p + nn) p (p + nn))).
  { replace nn with (p + nn - p)%nat at 1 2 by lia. apply (block_dims n n); try assumption; lia. }
  rewrite (put_block_G n n T _ nn nn p p) by (try assumption; lia).
  destruct (Nat.leb p i && Nat.ltb i (p + nn) && Nat.leb p j && Nat.ltb j (p + nn))%bool eqn:E;
    [|reflexivity].
  rewrite !andb_true_iff, !Nat.leb_le, !Nat.ltb_lt in E.
  rewrite (block_G n n T) by (try assumption; lia). f_equal; lia.
Qed.

Lemma sym_sweep_sound_at :
  exists Tb Z1,
    sym_sweep XR p nn (block T p (p + nn) p (p + nn)) (Some Z) = (Tb, Some Z1) /\
    dims n n (put_block T p p Tb) /\ symmetric n (put_block T p p Tb) /\ tridiagonal (put_block T p p Tb) /\
    dims n n Z1 /\
    (forall i j, (i < p \/ p + nn <= i \/ j < p \/ p + nn <= j)%nat -> G (put_block T p p Tb) i j = G T i j) /\
    meq n n (uhut n (G (put_block T p p Tb), G Z1)) (uhut n (G T, G Z)) /\
    (orth n (G Z) -> orth n (G Z1)).
Proof.
  set (B0 := block T p (p + nn) p (p + nn)).
  assert (HB0 : dims nn nn B0).
  { unfold B0. replace nn with (p + nn - p)%nat at 1 2 by lia. apply (block_dims n n); try assumption; lia. }
  assert (GB0 : forall i j, (i < nn)%nat -> (j < nn)%nat -> G B0 i j = G T (p + i) (p + j)).
  { intros i j Hi Hj. unfold B0. apply (block_G n n); try assumption; lia. }
  unfold sym_sweep. cbv zeta.
  match goal with |- context [iter_steps _ 0%nat _ (_, _, ?y)] => set (yz0 := y) end.
  assert (I0 : Inv 0 (B0, Some Z, yz0)).
  { exists B0, Z, yz0. split; [reflexivity|]. split; [exact HB0|]. split.
    { intros i j Hi Hj. rewrite !GB0 by assumption. apply Hsym; lia. }
    split.
    { intros i j Hi Hj Hb _. rewrite GB0 by assumption. apply Htri. lia. }
    split. { intros k' Ek. discriminate. }
    split; [exact HZ|]. split; [|tauto].
    apply ProofsTrace.uhut_congr; [|apply meq_refl]. intros i j Hi Hj. apply block_put_G; assumption. }
  pose proof (Inv_iter (nn - 1) 0 _ ltac:(lia) I0) as (Tb & Z1 & yz & Est & HTb & HsTb & HpTb & _ & HZ1 & Hinv & Horth).
  exists Tb, Z1. split; [exact (f_equal fst Est)|].
  pose proof (Rel_put Tb HTb) as (RA & RB).
  assert (HD : dims n n (put_block T p p Tb)) by (apply (put_block_dims n n T Tb nn nn); try assumption).
  assert (Hin : forall i j, (p <= i < p + nn)%nat -> (p <= j < p + nn)%nat ->
            G (put_block T p p Tb) i j = G Tb (i - p) (j - p)).
  { intros i j Hi Hj. rewrite <- RA by lia. f_equal; lia. }
  split; [exact HD|]. split.
  { intros i j Hi Hj.
    destruct (le_lt_dec p i) as [Hi1|Hi1]; [|rewrite !RB by lia; apply Hsym; assumption].
    destruct (le_lt_dec (p + nn) i) as [Hi2|Hi2]; [rewrite !RB by lia; apply Hsym; assumption|].
    destruct (le_lt_dec p j) as [Hj1|Hj1]; [|rewrite !RB by lia; apply Hsym; assumption].
    destruct (le_lt_dec (p + nn) j) as [Hj2|Hj2]; [rewrite !RB by lia; apply Hsym; assumption|].
    rewrite !Hin by lia. apply HsTb; lia. }
  split.
  { intros a b Hab.
    destruct (le_lt_dec p a) as [Ha1|Ha1]; [|rewrite RB by lia; apply Htri; exact Hab].
    destruct (le_lt_dec (p + nn) a) as [Ha2|Ha2]; [rewrite RB by lia; apply Htri; exact Hab|].
    destruct (le_lt_dec p b) as [Hb1|Hb1]; [|rewrite RB by lia; apply Htri; exact Hab].
    destruct (le_lt_dec (p + nn) b) as [Hb2|Hb2]; [rewrite RB by lia; apply Htri; exact Hab|].
    rewrite Hin by lia. apply HpTb; try lia. }
  split; [exact HZ1|]. split; [exact RB|]. split; [exact Hinv|exact Horth].
Qed.

End Sweep.

Theorem sym_sweep_sound : sym_sweep_spec.
Proof.
  intros n p nn T Z HT Hsym Htri HZ Hfit Hnn Hlo Hhi.
  exact (sym_sweep_sound_at n p nn T Z HT Hsym Htri HZ Hfit Hnn Hlo Hhi).
Qed.

(* ====================================================================== *)
(* 5. the T part of a sweep does not depend on whether Z is accumulated    *)

Definition sameTB (st st' : rmat * option rmat * (R * R)) : Prop :=
  fst (fst st) = fst (fst st') /\ snd st = snd st'.

Lemma sym_rot_sameTB p nn k st st' :
  sameTB st st' -> sameTB (sym_rot XR p nn k st) (sym_rot XR p nn k st').
Proof.
  destruct st as [[B Zo] yz]. destruct st' as [[B' Zo'] yz']. intros (E1 & E2).
  cbn [fst snd] in E1, E2. subst B' yz'. unfold sym_rot, sameTB. cbn [fst snd]. split; reflexivity.
Qed.

Lemma iter_sameTB p nn : forall cnt k st st',
  sameTB st st' ->
  sameTB (iter_steps (sym_rot XR p nn) k cnt st) (iter_steps (sym_rot XR p nn) k cnt st').
Proof.
  induction cnt as [|cnt IH]; intros k st st' H; [exact H|].
  cbn [iter_steps]. apply IH. apply sym_rot_sameTB. exact H.
Qed.

Lemma sym_sweep_T_independent_of_Z : forall p nn Tb Z,
  fst (sym_sweep XR p nn Tb None) = fst (sym_sweep XR p nn Tb (Some Z)).
Proof.
  intros p nn Tb Z. unfold sym_sweep. cbv zeta.
  apply (iter_sameTB p nn (nn - 1) 0). split; reflexivity.
Qed.

