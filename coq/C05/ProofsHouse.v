(* C05 ProofsHouse — placeholder, filled below *)
