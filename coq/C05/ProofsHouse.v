(* C05 — Householder: algebra of the reflector I - beta v v^T (all n), and the
   scalars (beta, nu_0) computed by householder.Run. *)
From Coq Require Import Reals List Lia Lra Bool.
From ADV Require Import Base.Num C05.Model C05.Spec C05.ProofsBase.
Import ListNotations.
Open Scope R_scope.

(* ---------- the reflector, for every vector v and every n ---------- *)
Lemma refl_symmetric beta v i j : refl beta v i j = refl beta v j i.
Proof. unfold refl. rewrite delta_sym. lra. Qed.

(* P * P = I as soon as beta = 0 or beta * (v^T v) = 2 *)
Lemma refl_involutive (n : nat) (beta : R) (v : list R) :
  beta = 0 \/ beta * dot n v v = 2 ->
  forall i j, (i < n)%nat -> (j < n)%nat ->
  sum_n (fun k => refl beta v i k * refl beta v k j) n = delta i j.
Proof.
  intros Hb i j Hi Hj. unfold refl.
  rewrite (sum_n_ext _ (fun k => delta i k * (delta k j - beta * V v k * V v j)
                                 - beta * V v i * (delta j k * V v k)
                                 + beta * beta * V v i * V v j * (V v k * V v k))).
  2:{ intros k Hk. rewrite (delta_sym k j). ring. }
  rewrite sum_n_plus, sum_n_minus.
  rewrite (sum_n_delta_l (fun k => delta k j - beta * V v k * V v j)) by auto.
  rewrite sum_n_scal. rewrite (sum_n_delta_l (fun k => V v k)) by auto.
  rewrite sum_n_scal. fold (dot n v v).
  destruct Hb as [-> | Hb]; [ring|].
  transitivity (delta i j - 2 * beta * V v i * V v j + beta * V v i * V v j * (beta * dot n v v)); [ring|].
  rewrite Hb. ring.
Qed.

(* orthogonality = symmetric + involutive: P^T P = I *)
Lemma refl_orthogonal (n : nat) (beta : R) (v : list R) :
  beta = 0 \/ beta * dot n v v = 2 ->
  forall i j, (i < n)%nat -> (j < n)%nat ->
  sum_n (fun k => refl beta v k i * refl beta v k j) n = delta i j.
Proof.
  intros Hb i j Hi Hj.
  rewrite (sum_n_ext _ (fun k => refl beta v i k * refl beta v k j)).
  - apply refl_involutive; auto.
  - intros k _. rewrite (refl_symmetric beta v k i). reflexivity.
Qed.

(* ---------- the scalars of householder.Run ---------- *)
Definition h_mu (x0 sigma : R) : R := sqrt (x0 * x0 + sigma).
Definition h_nu0 (x0 sigma : R) : R :=
  if Rleb x0 0 then x0 - h_mu x0 sigma else - (sigma / (x0 + h_mu x0 sigma)).
Definition h_beta (x0 sigma : R) : R :=
  let nu0 := h_nu0 x0 sigma in
  let b := nu0 / (nu0 * nu0 + sigma) * nu0 in b + b.

Lemma house_as_coded (x0 : R) (xt : list R) :
  let sigma := sum_n (fun k => nth k xt 0 * nth k xt 0) (length xt) in
  house XR (x0 :: xt) =
  if Reqb sigma 0 then (0, 1 :: xt)
  else (h_beta x0 sigma, map (fun y => y / h_nu0 x0 sigma) (h_nu0 x0 sigma :: xt)).
Proof.
  intro sigma. unfold house.
  change (fold_left (fun s xi => add (nx XR) s (mul (nx XR) xi xi)) xt (zero (nx XR)))
    with (fold_left (fun s xi => s + xi * xi) xt 0).
  rewrite fold_sq_sum. rewrite Rplus_0_l. fold sigma.
  change (eqb (nx XR)) with Reqb. change (zero (nx XR)) with 0.
  destruct (Reqb sigma 0); reflexivity.
Qed.

Lemma h_mu_gt (x0 sigma : R) : 0 < sigma -> Rabs x0 < h_mu x0 sigma.
Proof.
  intro Hs. unfold h_mu. rewrite <- sqrt_Rsqr_abs. apply sqrt_lt_1.
  - apply Rle_0_sqr.
  - unfold Rsqr. nra.
  - unfold Rsqr. lra.
Qed.

Lemma h_nu0_eq (x0 sigma : R) : 0 < sigma -> h_nu0 x0 sigma = x0 - h_mu x0 sigma /\ h_nu0 x0 sigma < 0.
Proof.
  intro Hs. pose proof (h_mu_gt x0 sigma Hs) as Hmu.
  assert (Hsq : h_mu x0 sigma * h_mu x0 sigma = x0 * x0 + sigma).
  { unfold h_mu. apply sqrt_sqrt. nra. }
  assert (Habs : - h_mu x0 sigma < x0 < h_mu x0 sigma).
  { unfold Rabs in Hmu. destruct (Rcase_abs x0); lra. }
  unfold h_nu0. destruct (Rleb x0 0) eqn:E.
  - split; [reflexivity|lra].
  - assert (Hp : x0 + h_mu x0 sigma <> 0) by lra.
    assert (Hn : - (sigma / (x0 + h_mu x0 sigma)) = x0 - h_mu x0 sigma).
    { replace sigma with ((h_mu x0 sigma - x0) * (h_mu x0 sigma + x0)) at 1 by nra. field. lra. }
    rewrite Hn. split; [reflexivity|lra].
Qed.

(* beta = 2 / (nu^T nu) with nu = (1, x_1/nu0, ...) : nu^T nu = 1 + sigma/nu0^2,
   and beta * (nu^T x) = nu0, which makes (I - beta nu nu^T) x = (|x|, 0, ..., 0) *)
Lemma house_scalars (x0 sigma : R) :
  0 < sigma ->
  let nu0 := h_nu0 x0 sigma in let beta := h_beta x0 sigma in
  nu0 <> 0 /\
  beta * (1 + sigma / (nu0 * nu0)) = 2 /\
  beta * (x0 + sigma / nu0) = nu0 /\
  x0 - beta * (x0 + sigma / nu0) = h_mu x0 sigma.
Proof.
  intros Hs nu0 beta. destruct (h_nu0_eq x0 sigma Hs) as (Heq & Hneg). fold nu0 in Heq, Hneg.
  assert (Hsq : h_mu x0 sigma * h_mu x0 sigma = x0 * x0 + sigma).
  { unfold h_mu. apply sqrt_sqrt. nra. }
  assert (Hnz : nu0 <> 0) by lra.
  assert (Hden : nu0 * nu0 + sigma <> 0) by nra.
  assert (Hb : beta = 2 * nu0 * nu0 / (nu0 * nu0 + sigma)).
  { unfold beta, h_beta. fold nu0. field. exact Hden. }
  split; [exact Hnz|]. split; [|split].
  - rewrite Hb. field. split; auto.
  - rewrite Hb. 
    assert (E1 : nu0 * nu0 + sigma = - 2 * h_mu x0 sigma * nu0) by (rewrite Heq; nra).
    assert (E2 : x0 * nu0 + sigma = - h_mu x0 sigma * nu0) by (rewrite Heq; nra).
    assert (Hmu : h_mu x0 sigma <> 0) by (pose proof (h_mu_gt x0 sigma Hs); pose proof (Rabs_pos x0); lra).
    replace (x0 + sigma / nu0) with ((x0 * nu0 + sigma) / nu0) by (field; exact Hnz).
    rewrite E1, E2. field. split; auto.
  - assert (E : beta * (x0 + sigma / nu0) = nu0).
    { rewrite Hb.
      assert (E1 : nu0 * nu0 + sigma = - 2 * h_mu x0 sigma * nu0) by (rewrite Heq; nra).
      assert (E2 : x0 * nu0 + sigma = - h_mu x0 sigma * nu0) by (rewrite Heq; nra).
      assert (Hmu : h_mu x0 sigma <> 0) by (pose proof (h_mu_gt x0 sigma Hs); pose proof (Rabs_pos x0); lra).
      replace (x0 + sigma / nu0) with ((x0 * nu0 + sigma) / nu0) by (field; exact Hnz).
      rewrite E1, E2. field. split; auto. }
    rewrite E. lra.
Qed.
