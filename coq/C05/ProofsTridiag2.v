(* C05 — Householder tridiagonalisation at /repo HEAD (model tridiag2): for every n and every
   symmetric A the routine returns T, U with U orthogonal, U T U^T = A and T symmetric
   tridiagonal.  The reflector is applied to the trailing block by the symmetric rank-2 update
       A22 - nu w^T - w nu^T,   p = beta A22 nu,  w = p - (beta p^T nu / 2) nu,
   proved here once (over R, every size) to equal P A22 P for symmetric A22; row/column k are
   overwritten by the norm of the column, which is what P x is (house_reflects).  Then the same
   induction over the elimination index as for the Hessenberg reduction. *)
From Coq Require Import Reals List Lia Lra Bool.
From ADV Require Import Base.Num C05.Model C05.Spec C05.ProofsBase C05.ProofsHouse C05.ProofsHouse2
                        C05.ProofsBlock C05.ProofsTrace C05.ProofsHess C05.ProofsTridiag.
Import ListNotations.
Open Scope R_scope.

(* ====================================================================== *)
(* the symmetric rank-2 update identity, over functions nat -> nat -> R *)
Section Rank2.
Context (d : nat) (A : fmatR) (beta : R) (nu : list R).
Context (Asym : forall a b, (a < d)%nat -> (b < d)%nat -> A a b = A b a).

Definition r2_An (a : nat) : R := sum_n (fun b => A a b * V nu b) d.
Definition r2_q : R := sum_n (fun a => r2_An a * V nu a) d.

Lemma rank2_right (f : nat -> R) j : (j < d)%nat ->
  sum_n (fun b => f b * refl beta nu b j) d = f j - beta * V nu j * sum_n (fun b => f b * V nu b) d.
Proof.
  intro Hj. unfold refl.
  rewrite (sum_n_ext _ (fun b => delta j b * f b - (beta * V nu j) * (f b * V nu b))).
  2:{ intros b _. rewrite (delta_sym b j). ring. }
  rewrite sum_n_minus, sum_n_scal, (sum_n_delta_l f) by exact Hj. reflexivity.
Qed.

Lemma rank2_left (f : nat -> R) i : (i < d)%nat ->
  sum_n (fun a => refl beta nu i a * f a) d = f i - beta * V nu i * sum_n (fun a => f a * V nu a) d.
Proof.
  intro Hi. rewrite <- (rank2_right f i Hi). apply sum_n_ext. intros a _.
  rewrite (refl_symmetric beta nu i a). ring.
Qed.

(* P A P, entry (i, j) *)
Lemma rank2_PAP i j : (i < d)%nat -> (j < d)%nat ->
  sum_n (fun b => sum_n (fun a => refl beta nu i a * A a b) d * refl beta nu b j) d =
  A i j - beta * V nu j * r2_An i - beta * V nu i * r2_An j + beta * beta * V nu i * V nu j * r2_q.
Proof.
  intros Hi Hj.
  rewrite (sum_n_ext _ (fun b => (A i b - beta * V nu i * r2_An b) * refl beta nu b j)).
  2:{ intros b Hb. rewrite (rank2_left (fun a => A a b) i Hi). f_equal. f_equal. f_equal.
      unfold r2_An. apply sum_n_ext. intros a Ha. rewrite (Asym a b Ha Hb). reflexivity. }
  rewrite (rank2_right (fun b => A i b - beta * V nu i * r2_An b) j Hj).
  rewrite (sum_n_ext (fun b => (A i b - beta * V nu i * r2_An b) * V nu b)
                     (fun b => A i b * V nu b - (beta * V nu i) * (r2_An b * V nu b))).
  2:{ intros b _. ring. }
  rewrite sum_n_minus, sum_n_scal. fold (r2_An i). fold r2_q. ring.
Qed.

(* the update as coded: p = (A nu) * beta ; t = (p . nu) * beta / 2 ; w = p - nu * t *)
Theorem rank2_update_identity (p w : nat -> R) (t : R) i j :
  (forall a, (a < d)%nat -> p a = r2_An a * beta) ->
  t = sum_n (fun a => p a * V nu a) d * beta / (1 + 1) ->
  (forall a, (a < d)%nat -> w a = p a - V nu a * t) ->
  (i < d)%nat -> (j < d)%nat ->
  A i j - V nu i * w j - V nu j * w i =
  sum_n (fun b => sum_n (fun a => refl beta nu i a * A a b) d * refl beta nu b j) d.
Proof.
  intros Hp Ht Hw Hi Hj. rewrite (rank2_PAP i j Hi Hj).
  assert (Hq : sum_n (fun a => p a * V nu a) d = beta * r2_q).
  { unfold r2_q. rewrite <- sum_n_scal. apply sum_n_ext. intros a Ha. rewrite (Hp a Ha). ring. }
  rewrite (Hw i Hi), (Hw j Hj), (Hp i Hi), (Hp j Hj), Ht, Hq. field.
Qed.
End Rank2.

(* the quadratic form P F P of a symmetric F with a symmetric P is symmetric *)
Lemma sym_sandwich n (P F : fmatR) :
  (forall a b, P a b = P b a) ->
  (forall a b, (a < n)%nat -> (b < n)%nat -> F a b = F b a) ->
  forall i j, mmul n (mmul n P F) P i j = mmul n (mmul n P F) P j i.
Proof.
  intros HP HF i j. unfold mmul.
  rewrite (sum_n_ext (fun b => sum_n (fun a => P i a * F a b) n * P b j)
                     (fun b => sum_n (fun a => P i a * F a b * P b j) n)).
  2:{ intros b _. rewrite <- sum_n_scal_r. reflexivity. }
  rewrite (sum_n_ext (fun b => sum_n (fun a => P j a * F a b) n * P b i)
                     (fun b => sum_n (fun a => P j a * F a b * P b i) n)).
  2:{ intros b _. rewrite <- sum_n_scal_r. reflexivity. }
  rewrite (sum_n_exchange (fun b a => P j a * F a b * P b i) n n).
  apply sum_n_ext. intros b Hb. apply sum_n_ext. intros a Ha.
  rewrite (HP j b), (HP a i), (HF b a Hb Ha). ring.
Qed.

(* ====================================================================== *)
(* index form of the pieces of tridiag2_step *)

(* the rank-2 update loop on the trailing block *)
Lemma rank2_block_G d (a22 : rmat) (nu w : list R) :
  dims d d a22 -> length nu = d -> length w = d ->
  let B := map2 (fun nw row =>
             map2 (fun nw' a => sub (nx XR) (sub (nx XR) a (mul (nx XR) (fst nw) (snd nw')))
                                    (mul (nx XR) (fst nw') (snd nw)))
                  (combine nu w) row) (combine nu w) a22 in
  dims d d B /\
  forall i j, (i < d)%nat -> (j < d)%nat -> G B i j = G a22 i j - V nu i * V w j - V nu j * V w i.
Proof.
  intros Ha Hnu Hw B.
  assert (Hc : length (combine nu w) = d) by (rewrite combine_length, Hnu, Hw; apply Nat.min_id).
  pose proof Ha as (Hl & _).
  assert (Hrow : forall i, (i < d)%nat ->
            nth i B [] = map2 (fun nw' a => a - V nu i * snd nw' - fst nw' * V w i)
                              (combine nu w) (nth i a22 [])).
  { intros i Hi. unfold B. rewrite (map2_nth _ (combine nu w) a22 i (0, 0) [] []) by lia.
    rewrite combine_nth by lia. cbn [fst snd]. unfold V. reflexivity. }
  split.
  - apply dims_intro.
    + unfold B. rewrite map2_length, Hc, Hl. apply Nat.min_id.
    + intros i Hi. rewrite Hrow by exact Hi. rewrite map2_length, Hc, (dims_row d d a22 i Ha Hi). apply Nat.min_id.
  - intros i j Hi Hj. unfold G at 1. rewrite Hrow by exact Hi.
    rewrite (map2_nth _ (combine nu w) (nth i a22 []) j (0, 0) 0 0) by (rewrite ?Hc, ?(dims_row d d a22 i Ha Hi); lia).
    rewrite combine_nth by lia. cbn [fst snd]. unfold V, G. ring.
Qed.

(* the overwriting of row / column k *)
Lemma tri_rows_G n k (A1 : rmat) (rf : bool) (s : R) :
  dims n n A1 -> (k + 2 <= n)%nat ->
  let A2 := map2 (fun i row =>
              if Nat.eqb i k then
                firstn (S k) row ++ (if rf then s else nth (S k) row (zero (nx XR))) :: zeros XR (n - k - 2)
              else if Nat.eqb i (S k) then (if rf then set_nth row k s else row)
              else if Nat.ltb (S k) i then set_nth row k (zero (nx XR)) else row) (seq 0 n) A1 in
  dims n n A2 /\
  forall i j, (i < n)%nat -> (j < n)%nat ->
    G A2 i j =
    if Nat.eqb i k then
      (if Nat.leb j k then G A1 i j else if Nat.eqb j (S k) then (if rf then s else G A1 i j) else 0)
    else if Nat.eqb i (S k) then (if (rf && Nat.eqb j k)%bool then s else G A1 i j)
    else if (Nat.ltb (S k) i && Nat.eqb j k)%bool then 0 else G A1 i j.
Proof.
  intros HA Hk A2. pose proof HA as (Hl & _).
  assert (Hrow : forall i, (i < n)%nat ->
     nth i A2 [] =
     let row := nth i A1 [] in
     if Nat.eqb i k then firstn (S k) row ++ (if rf then s else nth (S k) row 0) :: zeros XR (n - k - 2)
     else if Nat.eqb i (S k) then (if rf then set_nth row k s else row)
     else if Nat.ltb (S k) i then set_nth row k 0 else row).
  { intros i Hi. unfold A2. rewrite (map2_nth _ (seq 0 n) A1 i O [] []) by (rewrite ?seq_length; lia).
    rewrite seq_nth by exact Hi. reflexivity. }
  split.
  - apply dims_intro.
    + unfold A2. rewrite map2_length, seq_length, Hl. apply Nat.min_id.
    + intros i Hi. rewrite Hrow by exact Hi. cbv zeta.
      pose proof (dims_row n n A1 i HA Hi) as Hr.
      destruct (Nat.eqb i k).
      * rewrite app_length, firstn_length, Hr. cbn [length]. rewrite zeros_length. lia.
      * destruct (Nat.eqb i (S k)); [destruct rf; rewrite ?set_nth_length; exact Hr|].
        destruct (Nat.ltb (S k) i); rewrite ?set_nth_length; exact Hr.
  - intros i j Hi Hj. unfold G at 1. rewrite Hrow by exact Hi. cbv zeta.
    pose proof (dims_row n n A1 i HA Hi) as Hr.
    destruct (Nat.eqb i k) eqn:Eik.
    + destruct (Nat.leb j k) eqn:Ejk.
      * apply Nat.leb_le in Ejk. rewrite app_nth1 by (rewrite firstn_length, Hr; lia).
        apply nth_firstn_lt. lia.
      * apply Nat.leb_gt in Ejk. rewrite app_nth2 by (rewrite firstn_length, Hr; lia).
        rewrite firstn_length, Hr, Nat.min_l by lia.
        destruct (Nat.eqb j (S k)) eqn:Ej.
        -- apply Nat.eqb_eq in Ej. subst j. rewrite Nat.sub_diag. cbn [nth]. reflexivity.
        -- apply Nat.eqb_neq in Ej. destruct (j - S k)%nat as [|m] eqn:Em; [lia|].
           cbn [nth]. apply nth_zeros.
    + destruct (Nat.eqb i (S k)) eqn:Ei1.
      * destruct rf; cbn [andb]; [|reflexivity].
        rewrite set_nth_nth by (rewrite Hr; lia). destruct (Nat.eqb j k); reflexivity.
      * destruct (Nat.ltb (S k) i) eqn:Ei2; cbn [andb]; [|reflexivity].
        rewrite set_nth_nth by (rewrite Hr; lia). destruct (Nat.eqb j k); reflexivity.
Qed.

Lemma vnorm_norm2 (x : list R) : vnorm XR x = norm2 (length x) x.
Proof.
  unfold vnorm, norm2, dot. change (gsqrt XR) with sqrt.
  change (fold_left (fun s y => add (nx XR) s (mul (nx XR) y y)) x (zero (nx XR)))
    with (fold_left (fun s xi => s + xi * xi) x 0).
  rewrite fold_sq_sum, Rplus_0_l. reflexivity.
Qed.

(* ====================================================================== *)
(* one elimination step *)
Lemma tridiag2_step_spec n k (Am U : rmat) :
  dims n n Am -> dims n n U -> (k + 2 <= n)%nat -> symmetric n Am -> hess_cols k Am ->
  exists (P : fmatR) (A' U' : rmat),
    tridiag2_step XR n k (Am, Some U) = (A', Some U') /\
    orth n P /\ dims n n A' /\ dims n n U' /\
    meq n n (G A') (mmul n (tr P) (mmul n (G Am) P)) /\
    meq n n (G U') (mmul n (G U) P) /\
    symmetric n A' /\ hess_cols (S k) A'.
Proof.
  intros HA HU Hk Hsym Hst.
  set (x := skipn (S k) (col XR k Am)).
  set (d := (n - S k)%nat).
  assert (Hxl : length x = d).
  { unfold x, d. rewrite skipn_length, col_length. destruct HA as (-> & _). reflexivity. }
  destruct x as [|x0 xt] eqn:Ex; [simpl in Hxl; lia|].
  destruct (house_reflects x0 xt) as (Hnl & Hval & Hrest & _ & Hfirst).
  cbv zeta in Hnl, Hval, Hrest, Hfirst.
  set (beta := fst (house XR (x0 :: xt))) in *.
  set (nu := snd (house XR (x0 :: xt))) in *.
  assert (Hhouse : house XR (x0 :: xt) = (beta, nu)) by (unfold beta, nu; destruct (house XR (x0 :: xt)); reflexivity).
  assert (Hnul : length nu = d) by (rewrite Hnl; exact Hxl).
  rewrite Hxl in Hval, Hrest, Hfirst.
  set (P := refl beta (zeros XR (S k) ++ nu)).
  assert (HP : orth n P).
  { apply refl_orth. destruct Hval as [Hb|Hb]; [left; exact Hb|right].
    replace n with (S k + d)%nat at 1 by (unfold d; lia). rewrite dot_pad. exact Hb. }
  set (F := G Am).
  assert (Hxv : forall a, (a < d)%nat -> V (x0 :: xt) a = F (S k + a)%nat k).
  { intros a Ha. unfold V. rewrite <- Ex. apply (skipn_col_nth n Am k a HA). unfold d in Ha. lia. }
  assert (HFs : forall a b, (a < n)%nat -> (b < n)%nat -> F a b = F b a) by (intros a b Ha Hb; apply Hsym; assumption).
  assert (HstF : forall i j, (j < k)%nat -> (j + 1 < i)%nat -> F i j = 0) by exact Hst.
  (* the trailing block *)
  set (a22 := block Am (S k) n (S k) n).
  assert (Ha22 : dims d d a22) by (apply (block_dims n n); [exact HA|lia|lia]).
  assert (Ga22 : forall a b, (a < d)%nat -> (b < d)%nat -> G a22 a b = F (S k + a)%nat (S k + b)%nat).
  { intros a b Ha Hb. unfold a22. apply (block_G n n Am (S k) n (S k) n a b HA); unfold d in *; lia. }
  set (pl := map (fun y => mul (nx XR) y beta) (mdotv XR a22 nu)).
  set (t := div (nx XR) (mul (nx XR) (dotl XR pl nu (zero (nx XR))) beta) (add (nx XR) (one (nx XR)) (one (nx XR)))).
  set (wl := map2 (fun pi nui => sub (nx XR) pi (mul (nx XR) nui t)) pl nu).
  set (s := vnorm XR (x0 :: xt)).
  set (rf := negb (eqb (nx XR) beta (zero (nx XR)))).
  assert (Hpll : length pl = d) by (unfold pl, mdotv; rewrite !map_length; destruct Ha22; assumption).
  assert (Hwll : length wl = d) by (unfold wl; rewrite map2_length, Hpll, Hnul; apply Nat.min_id).
  set (A22 := fun a b : nat => F (S k + a)%nat (S k + b)%nat).
  assert (Hpv : forall a, (a < d)%nat -> V pl a = r2_An d A22 nu a * beta).
  { intros a Ha. unfold V, pl. change (fun y => mul (nx XR) y beta) with (fun y => y * beta).
    rewrite nth_map_scale, (mdotv_nth d d a22 nu a Ha22 Ha). f_equal. unfold r2_An.
    apply sum_n_ext. intros b Hb. rewrite (Ga22 a b Ha Hb). reflexivity. }
  assert (Htv : t = sum_n (fun a => V pl a * V nu a) d * beta / (1 + 1)).
  { unfold t. rewrite dotl_sum, Hpll. change (zero (nx XR)) with 0. rewrite Rplus_0_l. reflexivity. }
  assert (Hwv : forall a, (a < d)%nat -> V wl a = V pl a - V nu a * t).
  { intros a Ha. unfold V, wl. rewrite (map2_nth _ pl nu a 0 0 0) by lia. reflexivity. }
  set (B := map2 (fun nw row =>
             map2 (fun nw' a => sub (nx XR) (sub (nx XR) a (mul (nx XR) (fst nw) (snd nw')))
                                    (mul (nx XR) (fst nw') (snd nw)))
                  (combine nu wl) row) (combine nu wl) a22).
  destruct (rank2_block_G d a22 nu wl Ha22 Hnul Hwll) as (HdB & HgB). fold B in HdB, HgB.
  set (A1 := put_block Am (S k) (S k) B).
  assert (HA1 : dims n n A1) by (apply (put_block_dims n n Am B d d); [exact HA|exact HdB|unfold d; lia|unfold d; lia]).
  assert (GA1 : forall i j, (i < n)%nat -> (j < n)%nat ->
            G A1 i j = if (Nat.leb (S k) i && Nat.leb (S k) j)%bool then G B (i - S k) (j - S k) else F i j).
  { intros i j Hi Hj. unfold A1.
    rewrite (put_block_G n n Am B d d (S k) (S k) i j HA HdB) by (unfold d; lia).
    assert (E1 : Nat.ltb i (S k + d) = true) by (apply Nat.ltb_lt; unfold d; lia).
    assert (E2 : Nat.ltb j (S k + d) = true) by (apply Nat.ltb_lt; unfold d; lia).
    rewrite E1, E2. destruct (Nat.leb (S k) i); destruct (Nat.leb (S k) j); reflexivity. }
  destruct (tri_rows_G n k A1 rf s HA1 Hk) as (HdA2 & HgA2). cbv zeta in HdA2, HgA2.
  set (A2 := map2 (fun i row =>
              if Nat.eqb i k then
                firstn (S k) row ++ (if rf then s else nth (S k) row (zero (nx XR))) :: zeros XR (n - k - 2)
              else if Nat.eqb i (S k) then (if rf then set_nth row k s else row)
              else if Nat.ltb (S k) i then set_nth row k (zero (nx XR)) else row) (seq 0 n) A1) in *.
  (* what the reflector does to x *)
  assert (HRA0 : refl_apply d beta nu (x0 :: xt) 0 = if rf then s else F (S k) k).
  { unfold rf. destruct (negb (eqb (nx XR) beta (zero (nx XR)))) eqn:Erf.
    - unfold s. rewrite vnorm_norm2, Hxl. apply Hfirst.
      apply (proj1 (tridiag2_reflects_iff x0 xt)). exact Erf.
    - apply negb_false_iff in Erf. change (eqb (nx XR)) with Reqb in Erf. change (zero (nx XR)) with 0 in Erf.
      apply Reqb_true in Erf. rewrite refl_apply_eq by (unfold d; lia). fold beta in Erf. rewrite Erf.
      rewrite (Hxv O) by (unfold d; lia). rewrite Nat.add_0_r. ring. }
  assert (HRAi : forall a, (0 < a < d)%nat -> refl_apply d beta nu (x0 :: xt) a = 0) by exact Hrest.
  (* X = P F P *)
  assert (HL1 : forall i b, (i < n)%nat ->
            sum_n (fun a => P i a * F a b) n =
            if Nat.ltb i (S k) then F i b else sum_n (fun a => refl beta nu (i - S k) a * F (S k + a)%nat b) d).
  { intros i b Hi. unfold P. apply (refl_pad_left_sum beta (S k) n nu (fun a => F a b) i); lia. }
  assert (HX : forall i j, (i < n)%nat -> (j < n)%nat -> G A2 i j = mmul n (mmul n P F) P i j).
  { intros i j Hi Hj. unfold mmul. unfold P at 2.
    rewrite (refl_pad_right_sum beta (S k) n nu (fun b => sum_n (fun a => P i a * F a b) n) j) by lia.
    fold d. rewrite HgA2 by assumption.
    destruct (Nat.ltb j (S k)) eqn:Ej; destruct (Nat.ltb i (S k)) eqn:Ei.
    - (* i <= k, j <= k *)
      apply Nat.ltb_lt in Ej. apply Nat.ltb_lt in Ei. rewrite HL1 by exact Hi.
      assert (E : Nat.ltb i (S k) = true) by (apply Nat.ltb_lt; exact Ei). rewrite E.
      assert (EA : G A1 i j = F i j).
      { rewrite GA1 by assumption. assert (E' : Nat.leb (S k) i = false) by (apply Nat.leb_gt; lia). rewrite E'. reflexivity. }
      destruct (Nat.eqb i k) eqn:Eik.
      + assert (E' : Nat.leb j k = true) by (apply Nat.leb_le; lia). rewrite E'. exact EA.
      + apply Nat.eqb_neq in Eik.
        assert (E1 : Nat.eqb i (S k) = false) by (apply Nat.eqb_neq; lia).
        assert (E2 : Nat.ltb (S k) i = false) by (apply Nat.ltb_ge; lia).
        rewrite E1, E2. cbn [andb]. exact EA.
    - (* i >= k+1, j <= k *)
      apply Nat.ltb_lt in Ej. apply Nat.ltb_ge in Ei. rewrite HL1 by exact Hi.
      assert (E : Nat.ltb i (S k) = false) by (apply Nat.ltb_ge; exact Ei). rewrite E.
      assert (Eik : Nat.eqb i k = false) by (apply Nat.eqb_neq; lia). rewrite Eik.
      assert (EA : G A1 i j = F i j).
      { rewrite GA1 by assumption. assert (E' : Nat.leb (S k) j = false) by (apply Nat.leb_gt; lia).
        rewrite E', andb_false_r. reflexivity. }
      destruct (Nat.eqb j k) eqn:Ejk.
      + apply Nat.eqb_eq in Ejk. subst j.
        assert (ER : sum_n (fun a => refl beta nu (i - S k) a * F (S k + a)%nat k) d =
                     refl_apply d beta nu (x0 :: xt) (i - S k)).
        { unfold refl_apply. apply sum_n_ext. intros a Ha. rewrite (Hxv a Ha). reflexivity. }
        rewrite ER. destruct (Nat.eqb i (S k)) eqn:Ei1.
        * apply Nat.eqb_eq in Ei1. subst i. rewrite Nat.sub_diag, HRA0.
          destruct rf; cbn [andb]; [reflexivity|exact EA].
        * apply Nat.eqb_neq in Ei1. assert (E2 : Nat.ltb (S k) i = true) by (apply Nat.ltb_lt; lia).
          rewrite E2. cbn [andb]. symmetry. apply HRAi. unfold d. lia.
      + apply Nat.eqb_neq in Ejk. rewrite andb_false_r.
        assert (E0 : F i j = 0) by (apply HstF; lia).
        replace (if Nat.eqb i (S k) then G A1 i j else if (Nat.ltb (S k) i && false)%bool then 0 else G A1 i j)
          with (G A1 i j) by (destruct (Nat.eqb i (S k)); [reflexivity|rewrite andb_false_r; reflexivity]).
        rewrite EA, E0. symmetry. apply sum_n_zero. intros a Ha. cbv beta.
        rewrite (HstF (S k + a)%nat j) by lia. ring.
    - (* i <= k, j >= k+1 *)
      apply Nat.ltb_ge in Ej. apply Nat.ltb_lt in Ei.
      assert (EA : G A1 i j = F i j).
      { rewrite GA1 by assumption. assert (E' : Nat.leb (S k) i = false) by (apply Nat.leb_gt; lia). rewrite E'. reflexivity. }
      rewrite (sum_n_ext _ (fun b => F i (S k + b)%nat * refl beta nu b (j - S k))).
      2:{ intros b Hb. rewrite HL1 by exact Hi.
          assert (E : Nat.ltb i (S k) = true) by (apply Nat.ltb_lt; exact Ei). rewrite E. reflexivity. }
      destruct (Nat.eqb i k) eqn:Eik.
      + apply Nat.eqb_eq in Eik. subst i.
        assert (E' : Nat.leb j k = false) by (apply Nat.leb_gt; lia). rewrite E'.
        assert (ER : sum_n (fun b => F k (S k + b)%nat * refl beta nu b (j - S k)) d =
                     refl_apply d beta nu (x0 :: xt) (j - S k)).
        { unfold refl_apply. apply sum_n_ext. intros b Hb. rewrite (Hxv b Hb).
          rewrite (HFs k (S k + b)%nat) by (unfold d in Hb; lia).
          rewrite (refl_symmetric beta nu b (j - S k)). ring. }
        rewrite ER. destruct (Nat.eqb j (S k)) eqn:Ej1.
        * apply Nat.eqb_eq in Ej1. subst j. rewrite Nat.sub_diag, HRA0.
          destruct rf; [reflexivity|]. rewrite EA. apply HFs; lia.
        * apply Nat.eqb_neq in Ej1. symmetry. apply HRAi. unfold d. lia.
      + apply Nat.eqb_neq in Eik.
        assert (E1 : Nat.eqb i (S k) = false) by (apply Nat.eqb_neq; lia).
        assert (E2 : Nat.ltb (S k) i = false) by (apply Nat.ltb_ge; lia).
        rewrite E1, E2. cbn [andb]. rewrite EA, (HFs i j Hi Hj), (HstF j i) by lia.
        symmetry. apply sum_n_zero. intros b Hb. cbv beta.
        rewrite (HFs i (S k + b)%nat) by (unfold d in Hb; lia). rewrite (HstF (S k + b)%nat i) by lia. ring.
    - (* trailing block: the rank-2 update *)
      apply Nat.ltb_ge in Ej. apply Nat.ltb_ge in Ei.
      assert (Eik : Nat.eqb i k = false) by (apply Nat.eqb_neq; lia). rewrite Eik.
      assert (Ejk : Nat.eqb j k = false) by (apply Nat.eqb_neq; lia). rewrite Ejk, !andb_false_r.
      replace (if Nat.eqb i (S k) then G A1 i j else G A1 i j) with (G A1 i j) by (destruct (Nat.eqb i (S k)); reflexivity).
      rewrite GA1 by assumption.
      assert (E1 : Nat.leb (S k) i = true) by (apply Nat.leb_le; exact Ei).
      assert (E2 : Nat.leb (S k) j = true) by (apply Nat.leb_le; exact Ej).
      rewrite E1, E2. cbn [andb].
      assert (Hi' : (i - S k < d)%nat) by (unfold d; lia).
      assert (Hj' : (j - S k < d)%nat) by (unfold d; lia).
      rewrite (HgB _ _ Hi' Hj'), (Ga22 _ _ Hi' Hj').
      assert (A22sym : forall a b, (a < d)%nat -> (b < d)%nat -> A22 a b = A22 b a).
      { intros a b Ha Hb. unfold A22. apply HFs; unfold d in *; lia. }
      change (F (S k + (i - S k))%nat (S k + (j - S k))%nat) with (A22 (i - S k)%nat (j - S k)%nat).
      rewrite (rank2_update_identity d A22 beta nu A22sym (V pl) (V wl) t (i - S k) (j - S k) Hpv Htv Hwv Hi' Hj').
      unfold A22. replace (S k + (i - S k))%nat with i by lia. replace (S k + (j - S k))%nat with j by lia.
      apply sum_n_ext. intros b Hb. f_equal. rewrite HL1 by exact Hi.
      assert (E : Nat.ltb i (S k) = false) by (apply Nat.ltb_ge; exact Ei). rewrite E. reflexivity. }
  (* U' = U P *)
  set (blkU := block U 0 n (S k) n).
  assert (HblkU : dims (n - 0) d blkU) by (apply (block_dims n n); [exact HU|lia|lia]).
  rewrite Nat.sub_0_r in HblkU.
  destruct (house_right_index n d blkU beta nu HblkU Hnul) as (HdR & HgR).
  set (U' := put_block U 0 (S k) (house_right XR blkU beta nu)).
  assert (HU' : dims n n U') by (apply (put_block_dims n n U _ n d); [exact HU|exact HdR|lia|unfold d; lia]).
  assert (GU' : forall i j, (i < n)%nat -> (j < n)%nat -> G U' i j = mmul n (G U) P i j).
  { intros i j Hi Hj. unfold U'.
    rewrite (put_block_G n n U _ n d 0 (S k) i j HU HdR) by (unfold d; lia).
    unfold mmul, P. rewrite (refl_pad_right_sum beta (S k) n nu (fun b => G U i b) j) by lia.
    assert (E1 : Nat.leb 0 i = true) by reflexivity.
    assert (E2 : Nat.ltb i (0 + n) = true) by (apply Nat.ltb_lt; lia).
    assert (E4 : Nat.ltb j (S k + d) = true) by (apply Nat.ltb_lt; unfold d; lia).
    rewrite E1, E2, E4. cbn [andb].
    destruct (Nat.leb (S k) j) eqn:E; cbn [andb].
    - apply Nat.leb_le in E. assert (Ej : Nat.ltb j (S k) = false) by (apply Nat.ltb_ge; exact E).
      rewrite Ej. rewrite Nat.sub_0_r. rewrite HgR by (unfold d; lia). fold d.
      apply sum_n_ext. intros b Hb. unfold blkU.
      rewrite (block_G n n U 0 n (S k) n i b HU) by (unfold d in Hb; lia). reflexivity.
    - apply Nat.leb_gt in E. assert (Ej : Nat.ltb j (S k) = true) by (apply Nat.ltb_lt; exact E).
      rewrite Ej. reflexivity. }
  exists P, A2, U'.
  split.
  { unfold tridiag2_step. fold x. rewrite Ex, Hhouse. reflexivity. }
  split; [exact HP|]. split; [exact HdA2|]. split; [exact HU'|]. split; [|split; [|split]].
  - intros i j Hi Hj. rewrite HX by assumption. rewrite mmul_assoc. apply mmul_ext_all; [|reflexivity].
    intros a b. unfold tr, P. apply refl_symmetric.
  - intros i j Hi Hj. apply GU'; assumption.
  - intros i j Hi Hj. rewrite (HX i j Hi Hj), (HX j i Hj Hi).
    apply sym_sandwich; [intros a b; unfold P; apply refl_symmetric|exact HFs].
  - intros i j Hj Hij. destruct (Nat.lt_ge_cases i n) as [Hin|Hin].
    2:{ apply G_out_row. destruct HdA2 as (-> & _). exact Hin. }
    rewrite HgA2 by lia.
    assert (EA : G A1 i j = F i j).
    { rewrite GA1 by lia. assert (E' : Nat.leb (S k) j = false) by (apply Nat.leb_gt; lia).
      rewrite E', andb_false_r. reflexivity. }
    destruct (Nat.eq_dec j k) as [->|Hne].
    + assert (E0 : Nat.eqb i k = false) by (apply Nat.eqb_neq; lia).
      assert (E1 : Nat.eqb i (S k) = false) by (apply Nat.eqb_neq; lia).
      assert (E2 : Nat.ltb (S k) i = true) by (apply Nat.ltb_lt; lia).
      rewrite E0, E1, E2, Nat.eqb_refl. reflexivity.
    + assert (E0 : F i j = 0) by (apply HstF; lia).
      assert (Ejk : Nat.eqb j k = false) by (apply Nat.eqb_neq; exact Hne). rewrite Ejk, !andb_false_r.
      assert (Ejl : Nat.leb j k = true) by (apply Nat.leb_le; lia). rewrite Ejl.
      destruct (Nat.eqb i k); [rewrite EA; exact E0|]. destruct (Nat.eqb i (S k)); rewrite EA; exact E0.
Qed.

(* ====================================================================== *)
(* the whole reduction *)
Definition tri_inv (n : nat) (A : rmat) (k : nat) (T U : rmat) : Prop :=
  dims n n T /\ dims n n U /\ orth n (G U) /\ meq n n (uhut n (G T, G U)) (G A) /\
  symmetric n T /\ hess_cols k T.

Lemma tri_inv_step n A k T U :
  (k + 2 <= n)%nat -> tri_inv n A k T U ->
  exists T' U', tridiag2_step XR n k (T, Some U) = (T', Some U') /\ tri_inv n A (S k) T' U'.
Proof.
  intros Hk (HT & HU & HO & HA & Hs & Hc).
  destruct (tridiag2_step_spec n k T U HT HU Hk Hs Hc) as (P & T' & U' & E & HP & HT' & HU' & ET & EU & Hs' & Hc').
  exists T', U'. split; [exact E|]. split; [exact HT'|]. split; [exact HU'|]. split; [|split; [|split]].
  - apply (orth_meq n (mmul n (G U) P)); [apply meq_sym; exact EU|]. apply orth_mmul; assumption.
  - apply meq_trans with (uhut n (qr_step n (Sim P) (G T, G U))).
    + unfold qr_step. cbn [fst snd]. apply C05.ProofsHess.uhut_congr; assumption.
    + apply meq_trans with (uhut n (G T, G U)); [|exact HA]. apply qr_step_invariant. exact HP.
  - exact Hs'.
  - exact Hc'.
Qed.

Lemma tri_inv_run n A cnt : forall k T U,
  (k + cnt + 2 <= n)%nat \/ cnt = O -> tri_inv n A k T U ->
  exists T' U', iter_steps (tridiag2_step XR n) k cnt (T, Some U) = (T', Some U') /\
                tri_inv n A (k + cnt) T' U'.
Proof.
  induction cnt as [|cnt IH]; intros k T U Hk Hinv.
  - exists T, U. rewrite Nat.add_0_r. split; [reflexivity|exact Hinv].
  - destruct Hk as [Hk|Hk]; [|discriminate].
    destruct (tri_inv_step n A k T U ltac:(lia) Hinv) as (T1 & U1 & E1 & Hinv1).
    destruct (IH (S k) T1 U1 ltac:(left; lia) Hinv1) as (T' & U' & E' & Hinv').
    exists T', U'. split.
    + cbn [iter_steps]. rewrite E1. exact E'.
    + replace (k + S cnt)%nat with (S k + cnt)%nat by lia. exact Hinv'.
Qed.

(* householderTridiagonalization.Run with ComputeU, every n, every symmetric A:
   U is orthogonal, U T U^T = A, T is symmetric and tridiagonal *)
Theorem tridiag2_sound (A : rmat) (n : nat) :
  dims n n A -> symmetric n A ->
  exists T U, tridiag2 XR true A = (T, Some U) /\
    dims n n T /\ dims n n U /\
    (forall i j, (i < n)%nat -> (j < n)%nat -> sum_n (fun k => G U k i * G U k j) n = delta i j) /\
    (forall i j, (i < n)%nat -> (j < n)%nat ->
       sum_n (fun a => G U i a * sum_n (fun b => G T a b * G U j b) n) n = G A i j) /\
    symmetric n T /\
    (forall i j, (j + 1 < i)%nat -> G T i j = 0) /\
    (forall i j, (i + 1 < j)%nat -> G T i j = 0).
Proof.
  intros HA Hsym. unfold tridiag2. pose proof HA as (Hl & _). rewrite Hl.
  assert (Hinit : tri_inv n A 0 A (ident XR n)).
  { split; [exact HA|]. split; [apply dims_ident|]. split; [|split; [|split]].
    - apply (orth_meq n delta); [apply meq_sym; apply G_ident|apply orth_delta].
    - apply meq_trans with (uhut n (G A, delta)).
      + apply C05.ProofsHess.uhut_congr; [apply meq_refl|apply G_ident].
      + unfold uhut. cbn [fst snd]. intros i j Hi Hj.
        rewrite (mmul_delta_l n n _ i j Hi Hj).
        rewrite (mmul_ext_all n (G A) (G A) (tr delta) delta (fun _ _ => eq_refl) tr_delta).
        apply (mmul_delta_r n n (G A)); assumption.
    - exact Hsym.
    - intros i j Hj. lia. }
  destruct (tri_inv_run n A (n - 2) 0 A (ident XR n)) as (T & U & E & HT & HU & (HO1 & _) & HR & Hs & Hc).
  { destruct (Nat.le_gt_cases 2 n); [left; lia|right; lia]. }
  { exact Hinit. }
  assert (Hlow : forall i j, (j + 1 < i)%nat -> G T i j = 0).
  { intros i j Hij. simpl in Hc.
    destruct (Nat.lt_ge_cases i n) as [Hi|Hi].
    - apply Hc; lia.
    - apply G_out_row. destruct HT as (-> & _). exact Hi. }
  exists T, U. split; [exact E|]. split; [exact HT|]. split; [exact HU|].
  split; [|split; [|split; [|split]]].
  - intros i j Hi Hj. apply (HO1 i j Hi Hj).
  - intros i j Hi Hj. apply (HR i j Hi Hj).
  - exact Hs.
  - exact Hlow.
  - intros i j Hij. destruct (Nat.lt_ge_cases j n) as [Hj|Hj].
    + rewrite (Hs i j) by lia. apply Hlow. exact Hij.
    + apply (G_out_col n n T i j HT Hj).
Qed.

(* the middle factor does not depend on whether U is requested *)
Lemma tridiag2_step_fst n k (T : rmat) (U U' : option rmat) :
  fst (tridiag2_step XR n k (T, U)) = fst (tridiag2_step XR n k (T, U')).
Proof. unfold tridiag2_step. destruct (house XR (skipn (S k) (col XR k T))). reflexivity. Qed.

Lemma tridiag2_iter_fst n cnt : forall k (T : rmat) (U U' : option rmat),
  fst (iter_steps (tridiag2_step XR n) k cnt (T, U)) = fst (iter_steps (tridiag2_step XR n) k cnt (T, U')).
Proof.
  induction cnt as [|cnt IH]; intros k T U U'; [reflexivity|].
  cbn [iter_steps].
  pose proof (tridiag2_step_fst n k T U U') as E.
  destruct (tridiag2_step XR n k (T, U)) as (T1, U1). destruct (tridiag2_step XR n k (T, U')) as (T2, U2).
  cbn [fst] in E. subst T2. apply IH.
Qed.

Theorem tridiag2_T_independent_of_computeU (A : rmat) :
  fst (tridiag2 XR false A) = fst (tridiag2 XR true A).
Proof. unfold tridiag2. apply tridiag2_iter_fst. Qed.
