(* C05 — modified Gram-Schmidt at /repo HEAD ([gram_schmidt_in2], [gram_schmidt2]) over R:
   for EVERY n x m input (1 <= m <= n) and every recycled n x m buffer R0
     - the result does not depend on the buffer,
     - Q and R are n x m,
     - R is upper triangular (rows >= m are zero),
     - Q * R = A, unconditionally (also for rank deficient A, where some r_kk = 0),
     - if all r_kk <> 0 the columns of Q are orthonormal. *)
From Coq Require Import Reals List Lia Lra Bool Arith.
From ADV Require Import Base.Num C05.Model C05.Spec C05.ProofsBase.
Import ListNotations.
Open Scope R_scope.

(* ------------------------------------------------------------------ *)
(* generic list facts *)
Lemma map2_length {B C D} (f : B -> C -> D) x y :
  length (map2 f x y) = Nat.min (length x) (length y).
Proof.
  revert y. induction x as [|a x IH]; intros [|b y]; simpl; auto.
Qed.

Lemma nth_map2 {B C D} (f : B -> C -> D) x y k dx dy d :
  (k < length x)%nat -> (k < length y)%nat ->
  nth k (map2 f x y) d = f (nth k x dx) (nth k y dy).
Proof.
  revert y k. induction x as [|a x IH]; intros [|b y] k Hx Hy; simpl in *; try lia.
  destruct k as [|k]; [reflexivity|]. apply IH; lia.
Qed.

Lemma nth_map_gen {B C} (f : B -> C) l k d d' : f d' = d -> nth k (map f l) d = f (nth k l d').
Proof. intros <-. apply map_nth. Qed.

Lemma nth_map_seq {B} (F : nat -> B) n i d : (i < n)%nat -> nth i (map F (seq 0 n)) d = F i.
Proof.
  intro Hi. rewrite (nth_indep _ d (F O)) by (rewrite map_length, seq_length; lia).
  rewrite map_nth, seq_nth by lia. reflexivity.
Qed.

Lemma map_const_repeat {B C} (f : B -> C) c l :
  (forall x, In x l -> f x = c) -> map f l = repeat c (length l).
Proof.
  induction l as [|a l IH]; intro H; simpl; [reflexivity|].
  rewrite H by (left; reflexivity). rewrite IH; [reflexivity|].
  intros x Hx. apply H. right. exact Hx.
Qed.

Lemma nth_nil0 i : nth i (@nil R) 0 = 0.
Proof. destruct i; reflexivity. Qed.

Lemma zeros_R k : zeros XR k = repeat 0 k.
Proof. reflexivity. Qed.

Lemma nth_repeat_zeros j a m e : nth j (nth a (repeat (repeat 0 m) e) []) 0 = 0.
Proof.
  revert a. induction e as [|e IH]; intro a; simpl.
  - destruct a; apply nth_nil0.
  - destruct a as [|a]; [apply nth_repeat0|apply IH].
Qed.

(* a finite sum of non-negative terms vanishes only if every term does *)
Lemma sum_n_nonneg_zero f n :
  (forall k, (k < n)%nat -> 0 <= f k) -> sum_n f n = 0 -> forall k, (k < n)%nat -> f k = 0.
Proof.
  induction n as [|n IH]; intros Hnn Hs k Hk; [lia|].
  simpl in Hs.
  assert (H1 : 0 <= sum_n f n) by (apply sum_n_nonneg; intros; apply Hnn; lia).
  assert (H2 : 0 <= f n) by (apply Hnn; lia).
  destruct (Nat.eq_dec k n) as [->|Hne]; [lra|].
  apply IH; [intros; apply Hnn; lia|lra|lia].
Qed.

(* ------------------------------------------------------------------ *)
(* one step of gs_cols, with names *)
Definition gq (v : list R) : list R := map (fun x => x / vnorm XR v) v.
Definition grs (v : list R) (rest : list (list R)) : list R := map (fun w => dotl XR (gq v) w 0) rest.
Definition gupd (q : list R) (r : R) (w : list R) : list R := map2 (fun wk qk => wk - r * qk) w q.
Definition grest (v : list R) (rest : list (list R)) : list (list R) :=
  map2 (fun rij w => gupd (gq v) rij w) (grs v rest) rest.

Lemma gs_cols_S f v rest :
  gs_cols XR (S f) (v :: rest) = (gq v, vnorm XR v, grs v rest) :: gs_cols XR f (grest v rest).
Proof. reflexivity. Qed.

Lemma gs_cols_nil f : gs_cols XR f [] = [].
Proof. destruct f; reflexivity. Qed.

Definition d3 : list R * R * list R := ([], 0, []).
Definition qsof (st : list (list R * R * list R)) : list (list R) := map (fun t => fst (fst t)) st.
(* entry (k,j) of the triangular factor, read off the step triples *)
Definition Rent (st : list (list R * R * list R)) (k j : nat) : R :=
  let t := nth k st d3 in
  if Nat.ltb j k then 0 else if Nat.eqb j k then snd (fst t) else nth (j - k - 1) (snd t) 0.

Lemma Rent_cons_00 t st : Rent (t :: st) 0 0 = snd (fst t).
Proof. reflexivity. Qed.
Lemma Rent_cons_0S t st j : Rent (t :: st) 0 (S j) = nth j (snd t) 0.
Proof. unfold Rent. simpl. rewrite Nat.sub_0_r. reflexivity. Qed.
Lemma Rent_cons_SS t st k j : Rent (t :: st) (S k) (S j) = Rent st k j.
Proof. reflexivity. Qed.
Lemma Rent_lower st k j : (j < k)%nat -> Rent st k j = 0.
Proof. intro H. unfold Rent. apply Nat.ltb_lt in H. rewrite H. reflexivity. Qed.
Lemma Rent_diag st k : Rent st k k = snd (fst (nth k st d3)).
Proof. unfold Rent. rewrite Nat.ltb_irrefl, Nat.eqb_refl. reflexivity. Qed.

Lemma nth_gupd q r w i : length w = length q -> nth i (gupd q r w) 0 = nth i w 0 - r * nth i q 0.
Proof.
  unfold gupd. revert q i. induction w as [|a w IH]; intros [|b q] i Hl; simpl in *; try discriminate.
  - destruct i; simpl; ring.
  - destruct i as [|i]; [reflexivity|]. apply IH. lia.
Qed.

Lemma length_gupd q r w : length (gupd q r w) = Nat.min (length w) (length q).
Proof. unfold gupd. apply map2_length. Qed.

Lemma length_gq v : length (gq v) = length v.
Proof. unfold gq. apply map_length. Qed.

Lemma nth_gq v i : nth i (gq v) 0 = nth i v 0 / vnorm XR v.
Proof. unfold gq. apply (nth_map_gen (fun x => x / vnorm XR v) v i 0 0). unfold Rdiv. ring. Qed.

Lemma length_grs v rest : length (grs v rest) = length rest.
Proof. unfold grs. apply map_length. Qed.

Lemma length_grest v rest : length (grest v rest) = length rest.
Proof. unfold grest. rewrite map2_length, length_grs. apply Nat.min_id. Qed.

Lemma nth_grs v rest j : (j < length rest)%nat ->
  nth j (grs v rest) 0 = dotl XR (gq v) (nth j rest []) 0.
Proof.
  intro Hj. unfold grs.
  rewrite (nth_indep _ 0 ((fun w => dotl XR (gq v) w 0) [])) by (rewrite map_length; exact Hj).
  apply (map_nth (fun w => dotl XR (gq v) w 0) rest [] j).
Qed.

Lemma nth_grest v rest j : (j < length rest)%nat ->
  nth j (grest v rest) [] = gupd (gq v) (nth j (grs v rest) 0) (nth j rest []).
Proof.
  intro Hj. unfold grest. apply nth_map2; [rewrite length_grs|]; exact Hj.
Qed.

(* all columns have n entries *)
Definition cols_len (n : nat) (vs : list (list R)) : Prop :=
  forall j, (j < length vs)%nat -> length (nth j vs []) = n.

Lemma cols_len_hd n v rest : cols_len n (v :: rest) -> length v = n.
Proof. intro H. apply (H O). simpl. lia. Qed.
Lemma cols_len_tl n v rest : cols_len n (v :: rest) -> cols_len n rest.
Proof. intros H j Hj. apply (H (S j)). simpl. lia. Qed.
Lemma cols_len_grest n v rest : cols_len n (v :: rest) -> cols_len n (grest v rest).
Proof.
  intros H j Hj. rewrite length_grest in Hj. rewrite nth_grest by exact Hj.
  rewrite length_gupd, length_gq, (cols_len_hd _ _ _ H), (cols_len_tl _ _ _ H j Hj).
  apply Nat.min_id.
Qed.

Lemma gs_cols_length fuel : forall vs : list (list R), length (gs_cols XR fuel vs) = Nat.min fuel (length vs).
Proof.
  induction fuel as [|f IH]; intros [|v rest]; try reflexivity.
  rewrite gs_cols_S. simpl. rewrite IH, length_grest. reflexivity.
Qed.

Lemma gs_rs_length fuel : forall (vs : list (list R)) k, (length vs <= fuel)%nat -> (k < length vs)%nat ->
  length (snd (nth k (gs_cols XR fuel vs) d3)) = (length vs - k - 1)%nat.
Proof.
  induction fuel as [|f IH]; intros [|v rest] k Hf Hk; simpl in Hf, Hk; try lia.
  rewrite gs_cols_S. destruct k as [|k].
  - simpl. rewrite length_grs. lia.
  - simpl nth. rewrite IH by (rewrite length_grest; lia). rewrite length_grest. simpl. reflexivity.
Qed.

(* ------------------------------------------------------------------ *)
(* the norm *)
Lemma vnorm_sqrt v : vnorm XR v = sqrt (dot (length v) v v).
Proof.
  unfold vnorm.
  change (sqrt (fold_left (fun s x => s + x * x) v 0) = sqrt (dot (length v) v v)).
  rewrite fold_sq_sum, Rplus_0_l. reflexivity.
Qed.

Lemma dot_self_nonneg n v : 0 <= dot n v v.
Proof. unfold dot. apply sum_n_nonneg. intros k _. apply Rle_0_sqr. Qed.

Lemma vnorm_sqr v : vnorm XR v * vnorm XR v = dot (length v) v v.
Proof. rewrite vnorm_sqrt. apply sqrt_sqrt. apply dot_self_nonneg. Qed.

(* a column of norm 0 is the zero column *)
Lemma vnorm_zero v : vnorm XR v = 0 -> forall i, nth i v 0 = 0.
Proof.
  intros H i. rewrite vnorm_sqrt in H. apply sqrt_eq_0 in H; [|apply dot_self_nonneg].
  destruct (Nat.lt_ge_cases i (length v)) as [Hi|Hi]; [|apply nth_overflow; exact Hi].
  unfold dot, V in H.
  pose proof (sum_n_nonneg_zero _ _ (fun k _ => Rle_0_sqr (nth k v 0)) H i Hi) as Hz.
  unfold Rsqr in Hz. apply Rmult_integral in Hz. destruct Hz; assumption.
Qed.

(* head column = r_ii * q, also when r_ii = 0 *)
Lemma gq_times_norm v i : nth i v 0 = nth i (gq v) 0 * vnorm XR v.
Proof.
  rewrite nth_gq. destruct (Req_dec (vnorm XR v) 0) as [Hz|Hnz].
  - rewrite (vnorm_zero v Hz i). unfold Rdiv. ring.
  - field. exact Hnz.
Qed.

(* ------------------------------------------------------------------ *)
(* column j of the input = sum_{k <= j} r_kj q_k *)
Lemma sum_recon_cons t st i j :
  sum_n (fun k => nth i (nth k (qsof (t :: st)) []) 0 * Rent (t :: st) k (S j)) (S (S j)) =
  nth i (fst (fst t)) 0 * nth j (snd t) 0 +
  sum_n (fun k => nth i (nth k (qsof st) []) 0 * Rent st k j) (S j).
Proof.
  rewrite sum_n_S_first, Rent_cons_0S.
  rewrite (sum_n_ext (fun k => nth i (nth (S k) (qsof (t :: st)) []) 0 * Rent (t :: st) (S k) (S j))
                     (fun k => nth i (nth k (qsof st) []) 0 * Rent st k j)) by (intros; reflexivity).
  reflexivity.
Qed.

Lemma gs_recon n : forall fuel (vs : list (list R)), cols_len n vs -> (length vs <= fuel)%nat ->
  forall j i, (j < length vs)%nat ->
  nth i (nth j vs []) 0 =
  sum_n (fun k => nth i (nth k (qsof (gs_cols XR fuel vs)) []) 0 * Rent (gs_cols XR fuel vs) k j) (S j).
Proof.
  induction fuel as [|f IH]; intros [|v rest] Hl Hf j i Hj; simpl in Hf, Hj; try lia.
  rewrite gs_cols_S. destruct j as [|j].
  - simpl. rewrite Rent_cons_00. simpl. rewrite <- gq_times_norm. ring.
  - rewrite sum_recon_cons.
    assert (Hj' : (j < length rest)%nat) by lia.
    rewrite <- (IH (grest v rest) (cols_len_grest _ _ _ Hl)) by (rewrite length_grest; lia).
    rewrite nth_grest by exact Hj'.
    rewrite nth_gupd by (rewrite length_gq, (cols_len_hd _ _ _ Hl); apply (cols_len_tl _ _ _ Hl); exact Hj').
    simpl. ring.
Qed.

(* ------------------------------------------------------------------ *)
(* from columns to the returned matrices *)
Lemma G_transpose qs n i k : (i < n)%nat -> G (transpose_n XR n qs) i k = nth i (nth k qs []) 0.
Proof.
  intro Hi. unfold G, transpose_n. rewrite nth_map_seq by exact Hi.
  unfold col. apply (nth_map_gen (fun r => nth i r 0) qs k 0 []). apply nth_nil0.
Qed.

Lemma nth_transpose (M : rmat) m j : (j < m)%nat -> nth j (transpose_n XR m M) [] = col XR j M.
Proof. intro Hj. unfold transpose_n. apply (nth_map_seq (fun j => col XR j M) m j [] Hj). Qed.

Lemma nth_col (M : rmat) j i : nth i (col XR j M) 0 = G M i j.
Proof. unfold col, G. apply (nth_map_gen (fun r => nth j r 0) M i 0 []). apply nth_nil0. Qed.

Lemma length_transpose (M : rmat) m : length (transpose_n XR m M) = m.
Proof. unfold transpose_n. rewrite map_length, seq_length. reflexivity. Qed.

Lemma cols_len_transpose (M : rmat) m : cols_len (length M) (transpose_n XR m M).
Proof.
  intros j Hj. rewrite length_transpose in Hj. rewrite nth_transpose by exact Hj.
  unfold col. apply map_length.
Qed.

Definition Rrows (m : nat) (st : list (list R * R * list R)) : rmat :=
  map2 (fun i t => zeros XR i ++ snd (fst t) :: snd t) (seq 0 m) st.

Lemma nth_Rrows m st k : length st = m -> (k < m)%nat ->
  nth k (Rrows m st) [] = repeat 0 k ++ snd (fst (nth k st d3)) :: snd (nth k st d3).
Proof.
  intros Hl Hk. unfold Rrows.
  rewrite (nth_map2 _ _ _ k O d3) by (rewrite ?seq_length; lia).
  rewrite seq_nth by exact Hk. reflexivity.
Qed.

Lemma length_Rrows m st : length st = m -> length (Rrows m st) = m.
Proof. intro Hl. unfold Rrows. rewrite map2_length, seq_length, Hl. apply Nat.min_id. Qed.

Lemma G_R m st e k j : length st = m ->
  G (Rrows m st ++ repeat (zeros XR m) e) k j = Rent st k j.
Proof.
  intro Hl. unfold G.
  destruct (Nat.lt_ge_cases k m) as [Hk|Hk].
  - rewrite app_nth1 by (rewrite length_Rrows; assumption).
    rewrite nth_Rrows by assumption.
    destruct (lt_eq_lt_dec j k) as [[Hjk|Hjk]|Hjk].
    + rewrite app_nth1 by (rewrite repeat_length; exact Hjk).
      rewrite nth_repeat0, Rent_lower by exact Hjk. reflexivity.
    + subst j. rewrite app_nth2 by (rewrite repeat_length; lia).
      rewrite repeat_length, Nat.sub_diag, Rent_diag. reflexivity.
    + rewrite app_nth2 by (rewrite repeat_length; lia). rewrite repeat_length.
      unfold Rent.
      assert (E1 : Nat.ltb j k = false) by (apply Nat.ltb_ge; lia).
      assert (E2 : Nat.eqb j k = false) by (apply Nat.eqb_neq; lia).
      rewrite E1, E2. set (a := (j - k - 1)%nat). replace (j - k)%nat with (S a) by (unfold a; lia). reflexivity.
  - rewrite app_nth2 by (rewrite length_Rrows; assumption).
    rewrite zeros_R, nth_repeat_zeros.
    unfold Rent. rewrite (nth_overflow st d3) by lia.
    destruct (Nat.ltb j k); [reflexivity|]. destruct (Nat.eqb j k); [reflexivity|].
    unfold d3. simpl snd. symmetry. apply nth_nil0.
Qed.

(* the canonical form of the result: the buffer has disappeared *)
Definition gs_st (m : nat) (Am : rmat) := gs_cols XR m (transpose_n XR m Am).
Definition gs_canon (n m : nat) (Am : rmat) : rmat * rmat :=
  (transpose_n XR n (qsof (gs_st m Am)), Rrows m (gs_st m Am) ++ repeat (zeros XR m) (n - m)).

Lemma dims_ncols n m (Am : rmat) : dims n m Am -> (1 <= n)%nat -> ncols Am = m.
Proof.
  intros [Hl Hr] Hn. destruct Am as [|r Am']; simpl in Hl; [lia|].
  unfold ncols. simpl. apply Hr. left. reflexivity.
Qed.

Lemma In_skipn {B} (l : list B) k x : In x (skipn k l) -> In x l.
Proof. intro H. rewrite <- (firstn_skipn k l). apply in_or_app. right. exact H. Qed.

Lemma gs_in2_canon n m (Am R0 : rmat) :
  dims n m Am -> dims n m R0 -> (1 <= m <= n)%nat ->
  gram_schmidt_in2 XR R0 Am = gs_canon n m Am.
Proof.
  intros HA [HlR HrR] Hmn.
  unfold gram_schmidt_in2, gs_canon, gs_st. cbv zeta.
  rewrite (dims_ncols n m Am HA) by lia. destruct HA as [HlA _]. rewrite HlA.
  f_equal. f_equal.
  rewrite (map_const_repeat _ (zeros XR m)).
  - rewrite skipn_length, HlR. reflexivity.
  - intros row Hrow. apply In_skipn in Hrow. rewrite (HrR row Hrow), Nat.min_id.
    rewrite skipn_all2 by (rewrite (HrR row Hrow); lia). apply app_nil_r.
Qed.

Lemma gs_st_length m (Am : rmat) : length (gs_st m Am) = m.
Proof. unfold gs_st. rewrite gs_cols_length, length_transpose. apply Nat.min_id. Qed.

(* ------------------------------------------------------------------ *)
(* THEOREMS *)

(* 2. a recycled buffer does not show through *)
Theorem gs_result_independent_of_buffer n m (Am R0 R0' : rmat) :
  dims n m Am -> (1 <= m <= n)%nat -> dims n m R0 -> dims n m R0' ->
  gram_schmidt_in2 XR R0 Am = gram_schmidt_in2 XR R0' Am.
Proof.
  intros HA Hmn H0 H0'. rewrite (gs_in2_canon n m Am R0), (gs_in2_canon n m Am R0'); auto.
Qed.

Lemma dims_zero_buffer n m : dims n m (repeat (zeros XR m) n).
Proof.
  split; [apply repeat_length|]. intros row H. apply repeat_spec in H. subst row.
  rewrite zeros_R. apply repeat_length.
Qed.

Theorem gs2_is_in2 n m (Am R0 : rmat) :
  dims n m Am -> (1 <= m <= n)%nat -> dims n m R0 ->
  gram_schmidt2 XR Am = gram_schmidt_in2 XR R0 Am.
Proof.
  intros HA Hmn H0. unfold gram_schmidt2.
  rewrite (dims_ncols n m Am HA) by lia. destruct HA as [HlA HrA]. rewrite HlA.
  apply (gs_result_independent_of_buffer n m); auto. split; auto. apply dims_zero_buffer.
Qed.

Theorem gs_dims n m (Am R0 : rmat) :
  dims n m Am -> (1 <= m <= n)%nat -> dims n m R0 ->
  dims n m (fst (gram_schmidt_in2 XR R0 Am)) /\ dims n m (snd (gram_schmidt_in2 XR R0 Am)).
Proof.
  intros HA Hmn H0. rewrite (gs_in2_canon n m Am R0) by assumption. unfold gs_canon. simpl fst. simpl snd.
  pose proof (gs_st_length m Am) as Hst.
  split; split.
  - apply length_transpose.
  - intros row Hrow. unfold transpose_n in Hrow. apply in_map_iff in Hrow.
    destruct Hrow as [i [<- _]]. unfold col, qsof. rewrite !map_length. exact Hst.
  - rewrite app_length, length_Rrows, repeat_length by exact Hst. lia.
  - intros row Hrow. apply in_app_or in Hrow. destruct Hrow as [Hrow|Hrow].
    + apply (In_nth _ _ []) in Hrow. destruct Hrow as [k [Hk <-]].
      rewrite length_Rrows in Hk by exact Hst.
      rewrite nth_Rrows by assumption.
      rewrite app_length, repeat_length. simpl. unfold gs_st.
      rewrite gs_rs_length by (rewrite length_transpose; lia).
      rewrite length_transpose. lia.
    + apply repeat_spec in Hrow. subst row. rewrite zeros_R. apply repeat_length.
Qed.

(* 1. R is upper triangular; with the default 0 of [G] this covers the rows i >= m *)
Theorem gs_R_upper_triangular n m (Am R0 : rmat) :
  dims n m Am -> (1 <= m <= n)%nat -> dims n m R0 ->
  forall i j, (j < i)%nat -> G (snd (gram_schmidt_in2 XR R0 Am)) i j = 0.
Proof.
  intros HA Hmn H0 i j Hji. rewrite (gs_in2_canon n m Am R0) by assumption.
  unfold gs_canon. simpl snd. rewrite G_R by apply gs_st_length. apply Rent_lower. exact Hji.
Qed.

Theorem gs_R_rows_beyond_m_zero n m (Am R0 : rmat) :
  dims n m Am -> (1 <= m <= n)%nat -> dims n m R0 ->
  forall i j, (m <= i)%nat -> G (snd (gram_schmidt_in2 XR R0 Am)) i j = 0.
Proof.
  intros HA Hmn H0 i j Hi. rewrite (gs_in2_canon n m Am R0) by assumption.
  unfold gs_canon. simpl snd. unfold G.
  rewrite app_nth2 by (rewrite length_Rrows by apply gs_st_length; exact Hi).
  rewrite zeros_R. apply nth_repeat_zeros.
Qed.

(* 3. Q R = A, for every input: no rank condition *)
Theorem gs_QR_reproduces_A n m (Am R0 : rmat) :
  dims n m Am -> (1 <= m <= n)%nat -> dims n m R0 ->
  forall i j, (i < n)%nat -> (j < m)%nat ->
  sum_n (fun k => G (fst (gram_schmidt_in2 XR R0 Am)) i k * G (snd (gram_schmidt_in2 XR R0 Am)) k j) m
  = G Am i j.
Proof.
  intros HA Hmn H0 i j Hi Hj. rewrite (gs_in2_canon n m Am R0) by assumption.
  unfold gs_canon. simpl fst. simpl snd.
  pose proof (gs_st_length m Am) as Hst.
  rewrite (sum_n_cut _ (S j) m); [|lia|].
  2:{ intros k Hk. rewrite G_R by exact Hst. rewrite Rent_lower by lia. ring. }
  rewrite (sum_n_ext _ (fun k => nth i (nth k (qsof (gs_st m Am)) []) 0 * Rent (gs_st m Am) k j)).
  2:{ intros k _. rewrite G_R by exact Hst. rewrite G_transpose by exact Hi. reflexivity. }
  unfold gs_st. destruct HA as [HlA HrA].
  rewrite <- (gs_recon n m (transpose_n XR m Am)).
  - rewrite nth_transpose by exact Hj. apply nth_col.
  - rewrite <- HlA. apply cols_len_transpose.
  - rewrite length_transpose. lia.
  - rewrite length_transpose. exact Hj.
Qed.

(* the same for the allocating entry point *)
Theorem gs2_QR_reproduces_A n m (Am : rmat) :
  dims n m Am -> (1 <= m <= n)%nat ->
  (forall i j, (j < i)%nat -> G (snd (gram_schmidt2 XR Am)) i j = 0) /\
  (forall i j, (i < n)%nat -> (j < m)%nat ->
     sum_n (fun k => G (fst (gram_schmidt2 XR Am)) i k * G (snd (gram_schmidt2 XR Am)) k j) m = G Am i j).
Proof.
  intros HA Hmn.
  rewrite (gs2_is_in2 n m Am (repeat (zeros XR m) n) HA Hmn (dims_zero_buffer n m)).
  split.
  - apply (gs_R_upper_triangular n m); auto. apply dims_zero_buffer.
  - apply (gs_QR_reproduces_A n m); auto. apply dims_zero_buffer.
Qed.

(* ------------------------------------------------------------------ *)
(* 4. orthonormality of the columns of Q when no r_kk vanishes *)
Lemma dot_nil_r n u : dot n u [] = 0.
Proof. unfold dot, V. apply sum_n_zero. intros k _. rewrite nth_nil0. ring. Qed.

Lemma dot_sym n x y : dot n x y = dot n y x.
Proof. unfold dot. apply sum_n_ext. intros k _. ring. Qed.

Lemma dotl_dot n q w : length q = n -> dotl XR q w 0 = dot n q w.
Proof. intros <-. rewrite dotl_sum, Rplus_0_l. reflexivity. Qed.

Lemma dot_gq_r n u v : dot n u (gq v) = dot n u v / vnorm XR v.
Proof.
  unfold dot, V.
  rewrite (sum_n_ext _ (fun k => (nth k u 0 * nth k v 0) * / vnorm XR v)).
  - rewrite sum_n_scal_r. reflexivity.
  - intros k _. rewrite nth_gq. unfold Rdiv. ring.
Qed.

Lemma dot_gupd_r n u q r w : length w = length q ->
  dot n u (gupd q r w) = dot n u w - r * dot n u q.
Proof.
  intro Hl. unfold dot, V.
  rewrite (sum_n_ext _ (fun k => nth k u 0 * nth k w 0 - r * (nth k u 0 * nth k q 0))).
  - rewrite sum_n_minus, sum_n_scal. reflexivity.
  - intros k _. rewrite nth_gupd by exact Hl. ring.
Qed.

Lemma dot_gq_gq v : vnorm XR v <> 0 -> dot (length v) (gq v) (gq v) = 1.
Proof.
  intro Hnz. rewrite dot_gq_r, dot_sym, dot_gq_r, <- vnorm_sqr. field. exact Hnz.
Qed.

(* after the update every remaining column is orthogonal to q *)
Lemma grest_orth_q n v rest : cols_len n (v :: rest) -> vnorm XR v <> 0 ->
  forall j, (j < length rest)%nat -> dot n (gq v) (nth j (grest v rest) []) = 0.
Proof.
  intros Hl Hnz j Hj.
  pose proof (cols_len_hd _ _ _ Hl) as Hv.
  rewrite nth_grest by exact Hj.
  rewrite dot_gupd_r by (rewrite length_gq, Hv; apply (cols_len_tl _ _ _ Hl); exact Hj).
  rewrite nth_grs by exact Hj.
  rewrite (dotl_dot n) by (rewrite length_gq; exact Hv).
  rewrite <- Hv at 3. rewrite dot_gq_gq by exact Hnz. ring.
Qed.

(* a vector orthogonal to all the columns is orthogonal to all the q's *)
Lemma gs_orth_preserved n u : forall fuel (vs : list (list R)), cols_len n vs ->
  (forall j, (j < length vs)%nat -> dot n u (nth j vs []) = 0) ->
  forall k, dot n u (nth k (qsof (gs_cols XR fuel vs)) []) = 0.
Proof.
  induction fuel as [|f IH]; intros [|v rest] Hl Ho k;
    try (simpl; destruct k; apply dot_nil_r).
  rewrite gs_cols_S.
  assert (H0 : dot n u (gq v) = 0).
  { assert (Hv0 : dot n u v = 0) by (apply (Ho O); simpl; lia).
    rewrite dot_gq_r, Hv0. unfold Rdiv. ring. }
  destruct k as [|k]; [exact H0|].
  simpl. apply IH; [apply (cols_len_grest _ _ _ Hl)|].
  intros j Hj. rewrite length_grest in Hj.
  rewrite nth_grest by exact Hj.
  rewrite dot_gupd_r by (rewrite length_gq, (cols_len_hd _ _ _ Hl); apply (cols_len_tl _ _ _ Hl); exact Hj).
  assert (Hw : dot n u (nth j rest []) = 0) by (apply (Ho (S j)); simpl; lia).
  rewrite H0, Hw. ring.
Qed.

Lemma gs_orthonormal_cols n : forall fuel (vs : list (list R)), cols_len n vs -> (length vs <= fuel)%nat ->
  (forall k, (k < length vs)%nat -> Rent (gs_cols XR fuel vs) k k <> 0) ->
  forall k k', (k < length vs)%nat -> (k' < length vs)%nat ->
  dot n (nth k (qsof (gs_cols XR fuel vs)) []) (nth k' (qsof (gs_cols XR fuel vs)) []) = delta k k'.
Proof.
  induction fuel as [|f IH]; intros [|v rest] Hl Hf Hnz k k' Hk Hk'; simpl in Hf, Hk, Hk'; try lia.
  pose proof (cols_len_hd _ _ _ Hl) as Hv.
  assert (Hr : vnorm XR v <> 0).
  { specialize (Hnz O). rewrite gs_cols_S, Rent_cons_00 in Hnz. apply Hnz. simpl. lia. }
  assert (Hq : forall a, dot n (gq v) (nth a (qsof (gs_cols XR f (grest v rest))) []) = 0).
  { apply gs_orth_preserved; [apply (cols_len_grest _ _ _ Hl)|].
    intros j Hj. rewrite length_grest in Hj. apply grest_orth_q; assumption. }
  rewrite gs_cols_S. destruct k as [|k]; destruct k' as [|k'].
  - simpl. rewrite <- Hv. apply dot_gq_gq. exact Hr.
  - simpl. apply Hq.
  - simpl. rewrite dot_sym. apply Hq.
  - simpl nth. change (delta (S k) (S k')) with (delta k k').
    apply IH; [apply (cols_len_grest _ _ _ Hl)|rewrite length_grest; lia| |rewrite length_grest; lia|rewrite length_grest; lia].
    intros a Ha. rewrite length_grest in Ha.
    specialize (Hnz (S a)). rewrite gs_cols_S, Rent_cons_SS in Hnz. apply Hnz. simpl. lia.
Qed.

Theorem gs_Q_orthonormal n m (Am R0 : rmat) :
  dims n m Am -> (1 <= m <= n)%nat -> dims n m R0 ->
  (forall k, (k < m)%nat -> G (snd (gram_schmidt_in2 XR R0 Am)) k k <> 0) ->
  forall j j', (j < m)%nat -> (j' < m)%nat ->
  sum_n (fun i => G (fst (gram_schmidt_in2 XR R0 Am)) i j * G (fst (gram_schmidt_in2 XR R0 Am)) i j') n
  = delta j j'.
Proof.
  intros HA Hmn H0. rewrite (gs_in2_canon n m Am R0) by assumption.
  unfold gs_canon. simpl fst. simpl snd. intros Hnz j j' Hj Hj'.
  pose proof (gs_st_length m Am) as Hst.
  rewrite (sum_n_ext _ (fun i => V (nth j (qsof (gs_st m Am)) []) i * V (nth j' (qsof (gs_st m Am)) []) i)).
  2:{ intros i Hi. rewrite !G_transpose by exact Hi. reflexivity. }
  change (dot n (nth j (qsof (gs_st m Am)) []) (nth j' (qsof (gs_st m Am)) []) = delta j j').
  destruct HA as [HlA HrA]. unfold gs_st.
  apply gs_orthonormal_cols.
  - rewrite <- HlA. apply cols_len_transpose.
  - rewrite length_transpose. lia.
  - intros k Hk. rewrite length_transpose in Hk. specialize (Hnz k Hk).
    rewrite G_R in Hnz by exact Hst. exact Hnz.
  - rewrite length_transpose. exact Hj.
  - rewrite length_transpose. exact Hj'.
Qed.

(* the diagonal of R is the norm of the remaining column: non-negative *)
Theorem gs_R_diag_nonneg n m (Am R0 : rmat) :
  dims n m Am -> (1 <= m <= n)%nat -> dims n m R0 ->
  forall k, 0 <= G (snd (gram_schmidt_in2 XR R0 Am)) k k.
Proof.
  intros HA Hmn H0 k. rewrite (gs_in2_canon n m Am R0) by assumption.
  unfold gs_canon. simpl snd. rewrite G_R by apply gs_st_length. rewrite Rent_diag.
  unfold gs_st. generalize (transpose_n XR m Am). generalize m at 1. clear. intros fuel vs. revert vs k.
  induction fuel as [|f IH]; intros [|v rest] k; try (simpl; destruct k; simpl; lra).
  rewrite gs_cols_S. destruct k as [|k].
  - change (0 <= vnorm XR v). rewrite vnorm_sqrt. apply sqrt_pos.
  - simpl nth. apply IH.
Qed.

(* the hypotheses are satisfiable *)
Example gs_hyp_satisfiable : dims 2 2 [[1;2];[3;4]] /\ (1 <= 2 <= 2)%nat.
Proof.
  split; [split; [reflexivity|]|lia].
  intros row [<-|[<-|[]]]; reflexivity.
Qed.
