(* C05 correspondence, binary32 paths of the Cholesky family (round 3).

   /repo/algorithm/cholesky/cholesky.go dispatches
     *DenseFloat32Matrix input + *DenseFloat32Matrix L (D) + Float32 scalars
                         -> cholesky_float32 / cholesky_ldl_float32 / cholesky_ldl_forcepd_float32
     anything else that is not the Float64 combination (DenseReal32Matrix ...)
                         -> the generic routines of cholesky_generic.go.
   Both are replayed bit for bit: the values are binary32 numbers carried as Coq
   binary64 floats (every binary32 number is a binary64 number) and every scalar
   operation is [r32] of the binary64 operation:
     Float32.ADD/SUB/MUL/DIV  compute x op y on float32 operands (one binary32 rounding),
     Float32.SQRT             float32(math.Sqrt(float64 x)),
     Real32.Add/Sub/Mul/Div   float32(float64 x op float64 y),
     Real32.Sqrt              float32(math.Pow(float64 x, 0.5)),
   and rounding the binary64 result of + - * / sqrt of binary32 operands to binary32
   equals the correctly rounded binary32 result (53 >= 2*24+2).
   Comparisons, Abs and GetFloat64 are exact.

   The carrier-polymorphic texts [cholesky], [cholesky_fast], [cholesky_ldl] of Model.v are
   instantiated unchanged.  [cholesky_ldl_forcepd] is NOT instantiated at the binary32
   carrier: the Float32/Real32 code keeps beta, gamma, xi, nu, theta, delta and the whole
   expression max(max(|c_jj|, Pow(theta/beta, 2)), delta) in float64 and rounds once, in
   D(j,j).SetFloat64(.).  That mixing is written out below ([fpd32]); the column recurrences
   around it are Model.ldl_gen at the binary32 carrier. *)
From Coq Require Import String List ZArith Bool Floats.
From ADV Require Import Base.Num Base.Corr C05.Model.
Import ListNotations.

Definition fmat := list (list float).
Definition fv_eqb : list float -> list float -> bool := list_eqb feqb.
Definition fm_eqb : fmat -> fmat -> bool := list_eqb fv_eqb.

(* float32(x) of Go: round to nearest even into binary32 (24 bit significand, emax 128,
   subnormals, overflow to infinity) *)
Definition r32 (x : float) : float :=
  match Prim2SF x with
  | S754_finite s m e => SF2Prim (binary_normalize 24 128 (if s then Zneg m else Zpos m) e s)
  | _ => x
  end.
Definition is32 (x : float) : bool := feqb (r32 x) x.

Definition NumF32 : Num float :=
  mkNum float PrimFloat.zero PrimFloat.one
        (fun x y => r32 (PrimFloat.add x y)) (fun x y => r32 (PrimFloat.sub x y))
        (fun x y => r32 (PrimFloat.mul x y)) (fun x y => r32 (PrimFloat.div x y))
        PrimFloat.opp PrimFloat.abs (fun x => r32 (PrimFloat.sqrt x))
        PrimFloat.ltb PrimFloat.leb PrimFloat.eqb
        (fun z => r32 (of_Z NumF z)) (is_nan NumF).

(* (a) Float32 fast path: SQRT = float32(math.Sqrt) *)
Definition NumXF32 : NumX float :=
  mkNumX float NumF32 neg_infinity go_max (fun x => r32 (PrimFloat.sqrt x)).
(* (b) Real32 generic path: Sqrt = Pow(x, 0.5) = float32(math.Pow(x, 0.5)) *)
Definition NumXR32 : NumX float :=
  mkNumX float NumF32 neg_infinity go_max (fun x => r32 (go_pow_half x)).

(* the literal 1e-20 of the source, as the float64 constant it is in the 32 bit routines too
   (delta := 1e-20 ; math.Max(beta, 1e-20)) *)
Definition lit_1e20 : float := 0x1.79ca10c924223p-67%float.

(* forced positive definiteness, as coded for the 32 bit element types.
   beta: float64 throughout (gamma, xi read with GetFloat64, nu = max(1, sqrt(float64(n*n-1)))).
   d_j : float32( max(max(|c_jj|, Pow(theta_j/beta, 2)), delta) ) with a float64 division,
         a float64 square and float64 maxima; c_jj, c_ij and the quotients c_ij/d_j are
         binary32 operations. *)
Definition beta32 (A : fmat) : float := fpd_beta NumXF lit_1e20 A.
Definition pick_fpd32 (n : nat) (beta : float) (j : nat) (cjj : float) (below : list float) : option float :=
  option_map r32 (pick_fpd NumXF n beta lit_1e20 j cjj below).
Definition fpd32 (A : fmat) : option (fmat * fmat) :=
  ldl_gen NumXF32 (pick_fpd32 (length A) (beta32 A)) A.

(* In-place call (InSitu.L is the input matrix).  cholesky and cholesky_ldl read every
   A(i,j), j <= i, before they write L(i,j), and never read the strict upper triangle: the
   in-place result is the ordinary one.  cholesky_ldl_forcepd writes L(j,j) = 1 BEFORE it
   reads A(j,j): with L aliasing A it computes c_jj = 1 - s_j (beta is taken from the
   unmodified matrix, before the column loop).  As coded: *)
Definition diag_one (A : fmat) : fmat :=
  map2 (fun i row => set_nth row i PrimFloat.one) (seq 0 (length A)) A.
Definition fpd32_inplace (A : fmat) : option (fmat * fmat) :=
  ldl_gen NumXF32 (pick_fpd32 (length A) (beta32 A)) (diag_one A).

(* the aliasing is observable: [[4]] is factorised as L = 1, D = 1 in place, D = 4 otherwise *)
Example fpd32_inplace_differs :
  fpd32 [[4%float]] = Some ([[1%float]], [[4%float]]) /\
  fpd32_inplace [[4%float]] = Some ([[1%float]], [[1%float]]).
Proof. split; vm_compute; reflexivity. Qed.

Inductive path32 := PFloat32 | PReal32.
Inductive rout32 := RChol | RLdl | RFpd.

(* out = None: error return ; Some [L] (chol) / Some [L; D] (ldl, fpd) *)
Inductive d32case :=
| D32Panic (kind : string)
| D32 (p : path32) (r : rout32) (inplace : bool) (A : fmat) (out : option (list fmat)).

Definition res_pair (r : option (fmat * fmat)) : option (list fmat) :=
  match r with None => None | Some (L, D) => Some [L; D] end.
Definition res_one (r : option fmat) : option (list fmat) :=
  match r with None => None | Some L => Some [L] end.

Definition model32 (p : path32) (r : rout32) (inplace : bool) (A : fmat) : option (list fmat) :=
  match r with
  | RChol => res_one (match p with PFloat32 => cholesky_fast NumXF32 A | PReal32 => cholesky NumXR32 A end)
  | RLdl => res_pair (cholesky_ldl (match p with PFloat32 => NumXF32 | PReal32 => NumXR32 end) A)
  | RFpd => res_pair (if inplace then fpd32_inplace A else fpd32 A)
  end.

Definition d32check (c : d32case) : bool :=
  match c with
  | D32Panic _ => false
  | D32 p r inplace A out =>
      forallb (forallb is32) A &&                      (* the input is a binary32 matrix *)
      option_eqb (list_eqb fm_eqb) (model32 p r inplace A) out
  end.

Definition mism32 (cs : list d32case) : list nat := mismatches d32check cs.

(* sanity: r32 on a value with more than 24 significant bits, ties to even, overflow *)
Example r32_examples :
  map r32 [0x1.000001p+0; 0x1.000003p+0; 0x1.0000011p+0; 0x1.fffffffp+127; 0x1p-150; 0x1.8p-150; lit_1e20]%float
  = [0x1p+0; 0x1.000004p+0; 0x1.000002p+0; infinity; 0; 0x1p-149; 0x1.79ca1p-67]%float.
Proof. vm_compute. reflexivity. Qed.
