(* C05 SpecTest — placeholder, filled below *)
