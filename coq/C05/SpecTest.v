(* C05 — executable sanity tests of the model and of the residual checker
   (tests, not proofs: they guard the statements against typos). *)
From Coq Require Import String List ZArith Bool Floats.
From ADV Require Import Base.Num Base.Corr C05.Model C05.Corr C05.Resid.
Import ListNotations.
Open Scope float_scope.

Definition a4 : fmat := [[18;22;54;42];[22;70;86;62];[54;86;174;134];[42;62;134;106]].
(* integer Cholesky factor: A = G G^T with G = [[2,0],[1,3]] *)
Example chol_exact : cholesky NumXF [[4;2];[2;10]] = Some [[2;0];[1;3]].
Proof. vm_compute. reflexivity. Qed.
Example chol_fast_eq : ofm_eqb (cholesky_fast NumXF a4) (cholesky NumXF a4) = true.
Proof. vm_compute. reflexivity. Qed.
Example chol_err : cholesky NumXF [[1;2];[2;1]] = None.
Proof. vm_compute. reflexivity. Qed.
Example ldl_exact : cholesky_ldl NumXF [[4;2];[2;10]] = Some ([[1;0];[0.5;1]], [[4;0];[0;9]]).
Proof. vm_compute. reflexivity. Qed.
Example ldl_err : cholesky_ldl NumXF [[0;0];[0;1]] = None.
Proof. vm_compute. reflexivity. Qed.
(* forcePD leaves a safely positive definite matrix alone *)
Example fpd_inactive : option_eqb pair_eqb (cholesky_ldl_forcepd NumXF lit_1e20 lit_1e20 [[4;2];[2;10]])
                                           (cholesky_ldl NumXF [[4;2];[2;10]]) = true.
Proof. vm_compute. reflexivity. Qed.
Example house_345 : house NumXF [3;4] = (0.4, [1; -2]).   (* (I - 0.4 v v^T)(3,4) = (5,0) *)
Proof. vm_compute. reflexivity. Qed.

Open Scope Z_scope.
Example resid_accepts : rcheck (RChol [[(4,0);(2,0)];[(2,0);(10,0)]] [[(2,0);(0,0)];[(1,0);(3,0)]]) = true.
Proof. vm_compute. reflexivity. Qed.
Example resid_rejects : rcheck (RChol [[(4,0);(2,0)];[(2,0);(10,0)]] [[(2,0);(0,0)];[(1,0);(1,1)]]) = false.
Proof. vm_compute. reflexivity. Qed.
Example resid_rejects_upper : rcheck (RChol [[(4,0);(2,0)];[(2,0);(10,0)]] [[(2,0);(1,-60)];[(1,0);(3,0)]]) = false.
Proof. vm_compute. reflexivity. Qed.
Example resid_svd_negative : rcheck (RSvd [[(-3,0)]] [[(-3,0)]] (Some [[(1,0)]]) (Some [[(1,0)]])) = false.
Proof. vm_compute. reflexivity. Qed.
