(* C05 — Householder bidiagonalization at /repo HEAD (bidiag2): for every m x n
   matrix A with 1 <= n <= m the model returns B, U, V with U (m x m) and V (n x n)
   orthogonal, U B V^T = A and B upper bidiagonal.  Induction over the column
   index; each step is B <- P_L B (P_L the embedded reflector of column j),
   U <- U P_L, then (if j + 2 < n) B <- B P_R (the embedded reflector of row j
   right of the diagonal), V <- V P_R. *)
From Coq Require Import Reals List Lia Lra Bool.
From ADV Require Import Base.Num C05.Model C05.Spec C05.ProofsBase C05.ProofsHouse C05.ProofsHouse2
                        C05.ProofsBlock C05.ProofsTrace.
Import ListNotations.
Open Scope R_scope.

(* structure invariants after j steps *)
Definition bcols (j : nat) (Am : rmat) : Prop :=
  forall i c, (c < j)%nat -> (c < i)%nat -> G Am i c = 0.
Definition brows (j : nat) (Am : rmat) : Prop :=
  forall r c, (r < j)%nat -> (r + 1 < c)%nat -> G Am r c = 0.

(* ---------- left half of a step: A1 = P_L A ---------- *)
Lemma bidiag_left_spec m n j (Am : rmat) :
  dims m n Am -> (j < n)%nat -> (n <= m)%nat -> bcols j Am ->
  exists beta nu,
    house XR (skipn j (col XR j Am)) = (beta, nu) /\
    length nu = (m - j)%nat /\
    orth m (refl beta (zeros XR j ++ nu)) /\
    dims m n (put_block Am j j (house_left XR (block Am j m j n) beta nu)) /\
    (forall i c, (i < m)%nat -> (c < n)%nat ->
       G (put_block Am j j (house_left XR (block Am j m j n) beta nu)) i c =
       mmul m (refl beta (zeros XR j ++ nu)) (G Am) i c) /\
    (forall i, (j < i)%nat -> (i < m)%nat ->
       G (put_block Am j j (house_left XR (block Am j m j n) beta nu)) i j = 0).
Proof.
  intros HA Hj Hnm Hst.
  set (x := skipn j (col XR j Am)).
  assert (Hxl : length x = (m - j)%nat).
  { unfold x. rewrite skipn_length, col_length. destruct HA as (-> & _). reflexivity. }
  destruct x as [|x0 xt] eqn:Ex; [simpl in Hxl; lia|].
  destruct (house_reflects x0 xt) as (Hnl & Hval & Hrest & _ & _).
  cbv zeta in Hnl, Hval, Hrest.
  set (beta := fst (house XR (x0 :: xt))) in *.
  set (nu := snd (house XR (x0 :: xt))) in *.
  assert (Hhouse : house XR (x0 :: xt) = (beta, nu)) by (unfold beta, nu; destruct (house XR (x0 :: xt)); reflexivity).
  assert (Hnul : length nu = (m - j)%nat) by (rewrite Hnl; exact Hxl).
  rewrite Hxl in Hval, Hrest.
  set (P := refl beta (zeros XR j ++ nu)).
  assert (HP : orth m P).
  { apply refl_orth. destruct Hval as [Hb|Hb]; [left; exact Hb|right].
    replace m with (j + (m - j))%nat at 1 by lia. rewrite dot_pad. exact Hb. }
  assert (Hxv : forall a, (j + a < m)%nat -> V (x0 :: xt) a = G Am (j + a) j).
  { intros a Ha. unfold V. rewrite <- Ex. unfold x. rewrite nth_skipn_add.
    apply (col_nth m n Am j); [exact HA|exact Ha]. }
  set (blk := block Am j m j n).
  assert (Hblk : dims (m - j) (n - j) blk) by (apply (block_dims m n); [exact HA|lia|lia]).
  destruct (house_left_index (m - j) (n - j) blk beta nu Hblk Hnul) as (HdL & HgL).
  set (A1 := put_block Am j j (house_left XR blk beta nu)).
  assert (HA1 : dims m n A1) by (apply (put_block_dims m n Am _ (m - j) (n - j)); [exact HA|exact HdL|lia|lia]).
  assert (L1 : forall i c, (i < m)%nat -> (c < n)%nat -> G A1 i c = mmul m P (G Am) i c).
  { intros i c Hi Hc. unfold A1.
    rewrite (put_block_G m n Am _ (m - j) (n - j) j j i c HA HdL) by lia.
    unfold mmul, P. rewrite (refl_pad_left_sum beta j m nu (fun a => G Am a c) i) by lia.
    destruct (Nat.ltb i j) eqn:Ei.
    - apply Nat.ltb_lt in Ei. assert (E : Nat.leb j i = false) by (apply Nat.leb_gt; exact Ei).
      rewrite E. reflexivity.
    - apply Nat.ltb_ge in Ei.
      assert (E1 : Nat.leb j i = true) by (apply Nat.leb_le; exact Ei).
      assert (E2 : Nat.ltb i (j + (m - j)) = true) by (apply Nat.ltb_lt; lia).
      assert (E4 : Nat.ltb c (j + (n - j)) = true) by (apply Nat.ltb_lt; lia).
      rewrite E1, E2, E4. cbn [andb].
      destruct (Nat.leb j c) eqn:E3; cbn [andb].
      + apply Nat.leb_le in E3. rewrite HgL by lia.
        apply sum_n_ext. intros a Ha. unfold blk.
        rewrite (block_G m n Am j m j n a (c - j) HA) by lia.
        do 2 f_equal. lia.
      + apply Nat.leb_gt in E3. rewrite (Hst i c) by lia.
        symmetry. apply sum_n_zero. intros a Ha. cbv beta. rewrite (Hst _ c) by lia. ring. }
  exists beta, nu.
  split; [exact Hhouse|]. split; [exact Hnul|]. split; [exact HP|]. split; [exact HA1|].
  split; [exact L1|].
  intros i Hi1 Hi2. rewrite L1 by lia. unfold mmul, P.
  rewrite (refl_pad_left_sum beta j m nu (fun a => G Am a j) i) by lia.
  assert (E' : Nat.ltb i j = false) by (apply Nat.ltb_ge; lia). rewrite E'.
  rewrite <- (Hrest (i - j)%nat) by lia. unfold refl_apply.
  apply sum_n_ext. intros a Ha. rewrite Hxv by lia. reflexivity.
Qed.

(* ---------- right half of a step: A2 = A1 P_R ---------- *)
Lemma bidiag_right_spec m n j (A1 : rmat) :
  dims m n A1 -> (j + 2 < n)%nat -> (n <= m)%nat -> brows j A1 ->
  exists beta2 nu2,
    house XR (skipn (S j) (nth j A1 [])) = (beta2, nu2) /\
    length nu2 = (n - S j)%nat /\
    orth n (refl beta2 (zeros XR (S j) ++ nu2)) /\
    dims m n (put_block A1 j (S j) (house_right XR (block A1 j m (S j) n) beta2 nu2)) /\
    (forall i c, (i < m)%nat -> (c < n)%nat ->
       G (put_block A1 j (S j) (house_right XR (block A1 j m (S j) n) beta2 nu2)) i c =
       mmul n (G A1) (refl beta2 (zeros XR (S j) ++ nu2)) i c) /\
    (forall c, (j + 1 < c)%nat -> (c < n)%nat ->
       G (put_block A1 j (S j) (house_right XR (block A1 j m (S j) n) beta2 nu2)) j c = 0).
Proof.
  intros HA Hj Hnm Hst.
  set (x := skipn (S j) (nth j A1 [])).
  assert (Hxl : length x = (n - S j)%nat).
  { unfold x. rewrite skipn_length, (dims_row m n A1 j HA) by lia. reflexivity. }
  destruct x as [|x0 xt] eqn:Ex; [simpl in Hxl; lia|].
  destruct (house_reflects x0 xt) as (Hnl & Hval & Hrest & _ & _).
  cbv zeta in Hnl, Hval, Hrest.
  set (beta := fst (house XR (x0 :: xt))) in *.
  set (nu := snd (house XR (x0 :: xt))) in *.
  assert (Hhouse : house XR (x0 :: xt) = (beta, nu)) by (unfold beta, nu; destruct (house XR (x0 :: xt)); reflexivity).
  assert (Hnul : length nu = (n - S j)%nat) by (rewrite Hnl; exact Hxl).
  rewrite Hxl in Hval, Hrest.
  set (P := refl beta (zeros XR (S j) ++ nu)).
  assert (HP : orth n P).
  { apply refl_orth. destruct Hval as [Hb|Hb]; [left; exact Hb|right].
    replace n with (S j + (n - S j))%nat at 1 by lia. rewrite dot_pad. exact Hb. }
  assert (Hxv : forall b, V (x0 :: xt) b = G A1 j (S j + b)).
  { intros b. unfold V. rewrite <- Ex. unfold x. rewrite nth_skipn_add. reflexivity. }
  set (blk := block A1 j m (S j) n).
  assert (Hblk : dims (m - j) (n - S j) blk) by (apply (block_dims m n); [exact HA|lia|lia]).
  destruct (house_right_index (m - j) (n - S j) blk beta nu Hblk Hnul) as (HdR & HgR).
  set (A2 := put_block A1 j (S j) (house_right XR blk beta nu)).
  assert (HA2 : dims m n A2) by (apply (put_block_dims m n A1 _ (m - j) (n - S j)); [exact HA|exact HdR|lia|lia]).
  assert (L2 : forall i c, (i < m)%nat -> (c < n)%nat -> G A2 i c = mmul n (G A1) P i c).
  { intros i c Hi Hc. unfold A2.
    rewrite (put_block_G m n A1 _ (m - j) (n - S j) j (S j) i c HA HdR) by lia.
    unfold mmul, P. rewrite (refl_pad_right_sum beta (S j) n nu (fun b => G A1 i b) c) by lia.
    assert (E2 : Nat.ltb i (j + (m - j)) = true) by (apply Nat.ltb_lt; lia).
    assert (E4 : Nat.ltb c (S j + (n - S j)) = true) by (apply Nat.ltb_lt; lia).
    rewrite E2, E4.
    destruct (Nat.ltb c (S j)) eqn:Ec.
    - apply Nat.ltb_lt in Ec. assert (E : Nat.leb (S j) c = false) by (apply Nat.leb_gt; exact Ec).
      rewrite E. rewrite !andb_false_r. cbn [andb]. reflexivity.
    - apply Nat.ltb_ge in Ec. assert (E : Nat.leb (S j) c = true) by (apply Nat.leb_le; exact Ec).
      rewrite E. rewrite !andb_true_r.
      destruct (Nat.leb j i) eqn:Ei.
      + apply Nat.leb_le in Ei. rewrite HgR by lia.
        apply sum_n_ext. intros b Hb. unfold blk.
        rewrite (block_G m n A1 j m (S j) n (i - j) b HA) by lia.
        do 2 f_equal. lia.
      + apply Nat.leb_gt in Ei. rewrite (Hst i c) by lia.
        symmetry. apply sum_n_zero. intros b Hb. cbv beta. rewrite (Hst i) by lia. ring. }
  exists beta, nu.
  split; [exact Hhouse|]. split; [exact Hnul|]. split; [exact HP|]. split; [exact HA2|].
  split; [exact L2|].
  intros c Hc1 Hc2. rewrite L2 by lia. unfold mmul, P.
  rewrite (refl_pad_right_sum beta (S j) n nu (fun b => G A1 j b) c) by lia.
  assert (E' : Nat.ltb c (S j) = false) by (apply Nat.ltb_ge; lia). rewrite E'.
  rewrite <- (Hrest (c - S j)%nat) by lia. unfold refl_apply.
  apply sum_n_ext. intros b Hb. rewrite Hxv. rewrite (refl_symmetric beta nu b). ring.
Qed.

(* ---------- one full step ---------- *)
Lemma bidiag_step_spec m n j (Am U Vm : rmat) :
  dims m n Am -> dims m m U -> dims n n Vm -> (j < n)%nat -> (n <= m)%nat ->
  bcols j Am -> brows j Am ->
  exists (PL PR : fmatR) (Am' U' V' : rmat),
    bidiag2_step XR m n j (Am, Some U, Some Vm) = (Am', Some U', Some V') /\
    orth m PL /\ orth n PR /\ dims m n Am' /\ dims m m U' /\ dims n n V' /\
    meq m n (G Am') (mmul n (mmul m (tr PL) (G Am)) PR) /\
    meq m m (G U') (mmul m (G U) PL) /\
    meq n n (G V') (mmul n (G Vm) PR) /\
    bcols (S j) Am' /\ brows (S j) Am'.
Proof.
  intros HA HU HV Hj Hnm Hbc Hbr.
  destruct (bidiag_left_spec m n j Am HA Hj Hnm Hbc) as (beta & nu & Hh & Hnul & HP & HA1 & L1 & Hcolj).
  set (A1 := put_block Am j j (house_left XR (block Am j m j n) beta nu)) in *.
  set (PL := refl beta (zeros XR j ++ nu)) in *.
  (* rows < j of A1 are those of Am *)
  assert (R1 : forall r c, (r < j)%nat -> (c < n)%nat -> G A1 r c = G Am r c).
  { intros r c Hr Hc. rewrite L1 by lia. unfold mmul, PL.
    rewrite (refl_pad_left_sum beta j m nu (fun a => G Am a c) r) by lia.
    assert (E : Nat.ltb r j = true) by (apply Nat.ltb_lt; exact Hr). rewrite E. reflexivity. }
  assert (C1 : bcols (S j) A1).
  { intros i c Hc Hi. destruct (Nat.lt_ge_cases i m) as [Him|Him].
    2:{ apply G_out_row. destruct HA1 as (-> & _). exact Him. }
    destruct (Nat.eq_dec c j) as [->|Hne]; [apply Hcolj; lia|].
    rewrite L1 by lia. unfold mmul, PL.
    rewrite (refl_pad_left_sum beta j m nu (fun a => G Am a c) i) by lia.
    destruct (Nat.ltb i j) eqn:Ei.
    - apply Hbc; lia.
    - apply sum_n_zero. intros a Ha. cbv beta. rewrite (Hbc _ c) by lia. ring. }
  assert (B1 : brows j A1).
  { intros r c Hr Hc. destruct (Nat.lt_ge_cases c n) as [Hcn|Hcn].
    - rewrite R1 by lia. apply Hbr; lia.
    - apply (G_out_col m n A1); assumption. }
  assert (EB1 : meq m n (G A1) (mmul m (tr PL) (G Am))).
  { intros i c Hi Hc. rewrite L1 by assumption. apply mmul_ext_all; [|reflexivity].
    intros a b. unfold tr, PL. apply refl_symmetric. }
  (* U' = U P_L *)
  assert (Hpl : length (zeros XR j ++ nu) = m) by (rewrite app_length, zeros_length, Hnul; lia).
  destruct (house_right_index m m U beta (zeros XR j ++ nu) HU Hpl) as (HdU & HgU).
  destruct (Nat.ltb (j + 2) n) eqn:Ejn.
  - apply Nat.ltb_lt in Ejn.
    destruct (bidiag_right_spec m n j A1 HA1 Ejn Hnm B1) as (beta2 & nu2 & Hh2 & Hnul2 & HP2 & HA2 & L2 & Hrowj).
    set (A2 := put_block A1 j (S j) (house_right XR (block A1 j m (S j) n) beta2 nu2)) in *.
    set (PR := refl beta2 (zeros XR (S j) ++ nu2)) in *.
    assert (Hpl2 : length (zeros XR (S j) ++ nu2) = n) by (rewrite app_length, zeros_length, Hnul2; lia).
    destruct (house_right_index n n Vm beta2 (zeros XR (S j) ++ nu2) HV Hpl2) as (HdV & HgV).
    exists PL, PR, A2, (house_right XR U beta (zeros XR j ++ nu)),
           (house_right XR Vm beta2 (zeros XR (S j) ++ nu2)).
    split.
    { unfold bidiag2_step. rewrite Hh. cbv zeta.
      assert (E : Nat.ltb (j + 2) n = true) by (apply Nat.ltb_lt; exact Ejn). rewrite E.
      fold A1. rewrite Hh2. reflexivity. }
    split; [exact HP|]. split; [exact HP2|]. split; [exact HA2|]. split; [exact HdU|].
    split; [exact HdV|]. split; [|split; [|split; [|split]]].
    + intros i c Hi Hc. rewrite L2 by assumption. unfold mmul at 1 3.
      apply sum_n_ext. intros b Hb. rewrite (EB1 i b Hi Hb). reflexivity.
    + intros i c Hi Hc. rewrite HgU by assumption. reflexivity.
    + intros i c Hi Hc. rewrite HgV by assumption. reflexivity.
    + intros i c Hc Hi. destruct (Nat.lt_ge_cases i m) as [Him|Him].
      2:{ apply G_out_row. destruct HA2 as (-> & _). exact Him. }
      rewrite L2 by lia. unfold mmul, PR.
      rewrite (refl_pad_right_sum beta2 (S j) n nu2 (fun b => G A1 i b) c) by lia.
      assert (E : Nat.ltb c (S j) = true) by (apply Nat.ltb_lt; lia). rewrite E.
      apply C1; assumption.
    + intros r c Hr Hc. destruct (Nat.lt_ge_cases c n) as [Hcn|Hcn].
      2:{ apply (G_out_col m n A2); assumption. }
      destruct (Nat.eq_dec r j) as [->|Hne]; [apply Hrowj; lia|].
      rewrite L2 by lia. unfold mmul, PR.
      rewrite (refl_pad_right_sum beta2 (S j) n nu2 (fun b => G A1 r b) c) by lia.
      destruct (Nat.ltb c (S j)) eqn:Ec.
      * apply B1; lia.
      * apply sum_n_zero. intros b Hb. cbv beta. rewrite (B1 r) by lia. ring.
  - apply Nat.ltb_ge in Ejn.
    exists PL, delta, A1, (house_right XR U beta (zeros XR j ++ nu)), Vm.
    split.
    { unfold bidiag2_step. rewrite Hh. cbv zeta.
      assert (E : Nat.ltb (j + 2) n = false) by (apply Nat.ltb_ge; exact Ejn). rewrite E.
      reflexivity. }
    split; [exact HP|]. split; [apply orth_delta|]. split; [exact HA1|]. split; [exact HdU|].
    split; [exact HV|]. split; [|split; [|split; [|split]]].
    + intros i c Hi Hc. rewrite (mmul_delta_r m n _ i c Hi Hc). apply EB1; assumption.
    + intros i c Hi Hc. rewrite HgU by assumption. reflexivity.
    + intros i c Hi Hc. rewrite (mmul_delta_r n n _ i c Hi Hc). reflexivity.
    + exact C1.
    + intros r c Hr Hc. destruct (Nat.eq_dec r j) as [->|Hne].
      * apply (G_out_col m n A1); [exact HA1|lia].
      * apply B1; lia.
Qed.

(* ---------- the whole reduction ---------- *)
Definition bidiag_inv (m n : nat) (A : rmat) (j : nat) (B U Vm : rmat) : Prop :=
  dims m n B /\ dims m m U /\ dims n n Vm /\ orth m (G U) /\ orth n (G Vm) /\
  meq m n (ubvt m n (mkSvd (G B) (G U) (G Vm))) (G A) /\ bcols j B /\ brows j B.

Lemma bidiag_inv_step m n A j B U Vm :
  (j < n)%nat -> (n <= m)%nat -> bidiag_inv m n A j B U Vm ->
  exists B' U' V', bidiag2_step XR m n j (B, Some U, Some Vm) = (B', Some U', Some V') /\
                   bidiag_inv m n A (S j) B' U' V'.
Proof.
  intros Hj Hnm (HB & HU & HV & HOU & HOV & HR & Hbc & Hbr).
  destruct (bidiag_step_spec m n j B U Vm HB HU HV Hj Hnm Hbc Hbr)
    as (PL & PR & B' & U' & V' & E & HPL & HPR & HB' & HU' & HV' & EB & EU & EV & Hbc' & Hbr').
  exists B', U', V'. split; [exact E|].
  split; [exact HB'|]. split; [exact HU'|]. split; [exact HV'|].
  split; [|split; [|split; [|split]]].
  - apply (orth_meq m (mmul m (G U) PL)); [apply meq_sym; exact EU|]. apply orth_mmul; assumption.
  - apply (orth_meq n (mmul n (G Vm) PR)); [apply meq_sym; exact EV|]. apply orth_mmul; assumption.
  - set (st0 := mkSvd (G B) (G U) (G Vm)).
    set (st1 := svd_step m n (LeftS PL) st0).
    set (st2 := svd_step m n (RightS PR) st1).
    apply meq_trans with (ubvt m n st2).
    { apply ubvt_congr. unfold st2, st1, st0, svd_step, seq_state. cbn [sB sU sV].
      split; [exact EB|]. split; [exact EU|exact EV]. }
    apply meq_trans with (ubvt m n st1); [apply svd_right_invariant; exact HPR|].
    apply meq_trans with (ubvt m n st0); [apply svd_left_invariant; exact HPL|exact HR].
  - exact Hbc'.
  - exact Hbr'.
Qed.

Lemma bidiag_inv_run m n A cnt : forall j B U Vm,
  (j + cnt <= n)%nat -> (n <= m)%nat -> bidiag_inv m n A j B U Vm ->
  exists B' U' V', iter_steps (bidiag2_step XR m n) j cnt (B, Some U, Some Vm) = (B', Some U', Some V') /\
                   bidiag_inv m n A (j + cnt) B' U' V'.
Proof.
  induction cnt as [|cnt IH]; intros j B U Vm Hj Hnm Hinv.
  - exists B, U, Vm. rewrite Nat.add_0_r. split; [reflexivity|exact Hinv].
  - destruct (bidiag_inv_step m n A j B U Vm ltac:(lia) Hnm Hinv) as (B1 & U1 & V1 & E1 & Hinv1).
    destruct (IH (S j) B1 U1 V1 ltac:(lia) Hnm Hinv1) as (B' & U' & V' & E' & Hinv').
    exists B', U', V'. split.
    + cbn [iter_steps]. rewrite E1. exact E'.
    + replace (j + S cnt)%nat with (S j + cnt)%nat by lia. exact Hinv'.
Qed.

Lemma ncols_dims m n (A : rmat) : dims m n A -> (1 <= m)%nat -> ncols A = n.
Proof.
  intros (Hl & Hrows) Hm. unfold ncols. destruct A as [|r A']; [simpl in Hl; lia|].
  simpl. apply Hrows. left. reflexivity.
Qed.

(* householderBidiagonalization.Run at HEAD (ComputeU, ComputeV), every m >= n >= 1,
   every m x n matrix A: U, V orthogonal, U B V^T = A, B upper bidiagonal *)
Theorem bidiag_sound : forall (A : rmat) m n, dims m n A -> (1 <= n <= m)%nat ->
  exists B U Vm, bidiag2 XR true true A = (B, Some U, Some Vm) /\
    dims m n B /\ dims m m U /\ dims n n Vm /\
    orth m (G U) /\ orth n (G Vm) /\
    meq m n (ubvt m n (mkSvd (G B) (G U) (G Vm))) (G A) /\
    (forall i j, (j < i)%nat -> G B i j = 0) /\
    (forall i j, (i + 1 < j)%nat -> G B i j = 0).
Proof.
  intros A m n HA Hnm. unfold bidiag2. pose proof HA as (Hl & _).
  rewrite Hl, (ncols_dims m n A HA) by lia.
  assert (Hinit : bidiag_inv m n A 0 A (ident XR m) (ident XR n)).
  { split; [exact HA|]. split; [apply dims_ident|]. split; [apply dims_ident|].
    split; [|split; [|split; [|split]]].
    - apply (orth_meq m delta); [apply meq_sym; apply G_ident|apply orth_delta].
    - apply (orth_meq n delta); [apply meq_sym; apply G_ident|apply orth_delta].
    - apply meq_trans with (ubvt m n (mkSvd (G A) delta delta)).
      + apply ubvt_congr. unfold seq_state. cbn [sB sU sV].
        split; [apply meq_refl|]. split; apply G_ident.
      + unfold ubvt. cbn [sB sU sV]. intros i j Hi Hj.
        rewrite (mmul_delta_l m n _ i j Hi Hj).
        rewrite (mmul_ext_all n (G A) (G A) (tr delta) delta (fun _ _ => eq_refl) tr_delta).
        apply (mmul_delta_r m n (G A)); assumption.
    - intros i c Hc. lia.
    - intros r c Hr. lia. }
  destruct (bidiag_inv_run m n A n 0 A (ident XR m) (ident XR n) ltac:(lia) ltac:(lia) Hinit)
    as (B & U & Vm & E & HB & HU & HV & HOU & HOV & HR & Hbc & Hbr).
  exists B, U, Vm. split; [exact E|]. split; [exact HB|]. split; [exact HU|]. split; [exact HV|].
  split; [exact HOU|]. split; [exact HOV|]. split; [exact HR|]. simpl in Hbc, Hbr. split.
  - intros i j Hij. destruct (Nat.lt_ge_cases j n) as [Hj|Hj].
    + apply Hbc; assumption.
    + apply (G_out_col m n B); assumption.
  - intros i j Hij. destruct (Nat.lt_ge_cases i n) as [Hi|Hi].
    + apply Hbr; assumption.
    + apply (G_out_col m n B); [exact HB|lia].
Qed.

(* the same, with the products written out:  sum_a U_ia (sum_b B_ab V_jb) = A_ij *)
Corollary bidiag_sound_sums : forall (A : rmat) m n, dims m n A -> (1 <= n <= m)%nat ->
  exists B U Vm, bidiag2 XR true true A = (B, Some U, Some Vm) /\
    dims m n B /\ dims m m U /\ dims n n Vm /\
    (forall i j, (i < m)%nat -> (j < m)%nat -> sum_n (fun k => G U k i * G U k j) m = delta i j) /\
    (forall i j, (i < n)%nat -> (j < n)%nat -> sum_n (fun k => G Vm k i * G Vm k j) n = delta i j) /\
    (forall i j, (i < m)%nat -> (j < n)%nat ->
       sum_n (fun a => G U i a * sum_n (fun b => G B a b * G Vm j b) n) m = G A i j) /\
    (forall i j, (j < i)%nat -> G B i j = 0) /\
    (forall i j, (i + 1 < j)%nat -> G B i j = 0).
Proof.
  intros A m n HA Hnm.
  destruct (bidiag_sound A m n HA Hnm) as (B & U & Vm & E & HB & HU & HV & (HOU & _) & (HOV & _) & HR & Hz1 & Hz2).
  exists B, U, Vm. split; [exact E|]. split; [exact HB|]. split; [exact HU|]. split; [exact HV|].
  split; [|split; [|split; [|split]]].
  - intros i j Hi Hj. apply (HOU i j Hi Hj).
  - intros i j Hi Hj. apply (HOV i j Hi Hj).
  - intros i j Hi Hj. apply (HR i j Hi Hj).
  - exact Hz1.
  - exact Hz2.
Qed.
