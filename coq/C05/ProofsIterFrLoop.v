(* C05 — round 5: the loop / bookkeeping layer of the unsymmetric (Francis) QR algorithm model
   (ModelIter: fr_defl_at, fr_defl_pass, fr_split_q, fr_split_p, fr_split, fr_outer, fr_loop,
   qr2_loop, complex_pair, blocks_at, francis) over R, ASSUMING the two step specifications
   francis_sweep_spec and qr2_step_spec (SpecIter.v) as explicit premises.

   Main results:
     fr_defl_at_effect, fr_reach_eps0_hess,
     francis_reach_core_from_sweep (without the quasi-triangular conjunct),
     francis_reach_from_sweep : francis_sweep_spec -> qr2_step_spec -> francis_reach_stmt. *)
From Coq Require Import Reals List Lia Lra Bool.
From ADV Require Import Base.Num C05.Model C05.Spec C05.ProofsBase C05.ProofsHouse2
                        C05.ProofsTrace C05.ProofsBand C05.ProofsHess C05.ModelIter C05.SpecIter.
Import ListNotations.
Open Scope R_scope.

(* ================================================================== *)
(* 1. set2 : shape and effect                                          *)

Lemma set2_G n (M : rmat) i j x a b : dims n n M -> (i < n)%nat -> (j < n)%nat ->
  G (set2 M i j x) a b = if (Nat.eqb a i && Nat.eqb b j)%bool then x else G M a b.
Proof.
  intros HM Hi Hj. pose proof HM as (Hl & _). unfold G, set2.
  destruct (Nat.eqb_spec a i) as [E|E]; cbn [andb].
  - subst a. rewrite nth_set_nth_eq by lia.
    destruct (Nat.eqb_spec b j) as [E2|E2].
    + subst b. apply nth_set_nth_eq. rewrite (dims_row n n M i HM Hi). exact Hj.
    + apply nth_set_nth_neq. exact E2.
  - rewrite nth_set_nth_neq by exact E. reflexivity.
Qed.

Lemma set2_dims n (M : rmat) i j x : dims n n M -> dims n n (set2 M i j x).
Proof.
  intros HM. pose proof HM as (Hl & _). unfold set2. apply dims_intro.
  - rewrite length_set_nth. exact Hl.
  - intros a Ha. destruct (Nat.eq_dec a i) as [E|E].
    + subst a. rewrite nth_set_nth_eq by lia. rewrite length_set_nth. apply (dims_row n n M i HM Ha).
    + rewrite nth_set_nth_neq by exact E. apply (dims_row n n M a HM Ha).
Qed.

(* ================================================================== *)
(* 2. one deflation test                                               *)

Definition negl (eps : R) (H : rmat) (i : nat) : Prop :=
  Rabs (G H (S i) i) <= eps * (Rabs (G H i i) + Rabs (G H (S i) (S i))).

Lemma negligible_true eps (H : rmat) i :
  negligible XR eps (get XR H i i) (get XR H (S i) i) (get XR H (S i) (S i)) = true <-> negl eps H i.
Proof. unfold negligible, negl. cbn. apply Rleb_true. Qed.

Lemma fr_defl_at_cases eps (H : rmat) i :
  (negl eps H i /\ fr_defl_at XR eps H i = set2 H (S i) i 0) \/
  (~ negl eps H i /\ fr_defl_at XR eps H i = H).
Proof.
  unfold fr_defl_at.
  destruct (negligible XR eps (get XR H i i) (get XR H (S i) i) (get XR H (S i) (S i))) eqn:E.
  - left. split; [apply negligible_true; exact E|reflexivity].
  - right. split; [|reflexivity]. intro Hn. apply negligible_true in Hn. congruence.
Qed.

(* all entries unchanged except (i+1, i), which becomes 0 exactly under the coded test *)
Lemma fr_defl_at_effect eps n (H : rmat) i : dims n n H -> (S i < n)%nat ->
  (forall a b, a <> S i \/ b <> i -> G (fr_defl_at XR eps H i) a b = G H a b) /\
  (negl eps H i -> G (fr_defl_at XR eps H i) (S i) i = 0) /\
  (~ negl eps H i -> G (fr_defl_at XR eps H i) (S i) i = G H (S i) i).
Proof.
  intros HH Hi.
  destruct (fr_defl_at_cases eps H i) as [(Hn & E)|(Hn & E)]; rewrite E.
  - split; [|split].
    + intros a b Hab. rewrite (set2_G n) by (assumption || lia).
      destruct (Nat.eqb_spec a (S i)); destruct (Nat.eqb_spec b i); cbn [andb]; try reflexivity. lia.
    + intros _. rewrite (set2_G n) by (assumption || lia). rewrite !Nat.eqb_refl. reflexivity.
    + intro Hc. contradiction.
  - split; [|split]; auto. intro Hc. contradiction.
Qed.

Lemma fr_defl_at_dims eps n (H : rmat) i : dims n n H -> dims n n (fr_defl_at XR eps H i).
Proof.
  intro HH. destruct (fr_defl_at_cases eps H i) as [(_ & E)|(_ & E)]; rewrite E; [apply set2_dims|]; exact HH.
Qed.

(* entries only ever become zero *)
Definition zmono (H H' : rmat) : Prop := forall a b, G H a b = 0 -> G H' a b = 0.

Lemma zmono_refl H : zmono H H.
Proof. intros a b E. exact E. Qed.
Lemma zmono_trans H1 H2 H3 : zmono H1 H2 -> zmono H2 H3 -> zmono H1 H3.
Proof. intros A B a b E. apply B, A, E. Qed.

Lemma fr_defl_at_zmono eps n (H : rmat) i : dims n n H -> (S i < n)%nat -> zmono H (fr_defl_at XR eps H i).
Proof.
  intros HH Hi a b E. destruct (fr_defl_at_effect eps n H i HH Hi) as (E1 & E2 & E3).
  destruct (Nat.eq_dec a (S i)) as [Ea|Ea]; [destruct (Nat.eq_dec b i) as [Eb|Eb]|].
  - subst a b. destruct (Rle_dec (Rabs (G H (S i) i)) (eps * (Rabs (G H i i) + Rabs (G H (S i) (S i))))) as [Hn|Hn].
    + apply E2. exact Hn.
    + rewrite E3 by exact Hn. exact E.
  - rewrite E1 by (right; exact Eb). exact E.
  - rewrite E1 by (left; exact Ea). exact E.
Qed.

Lemma hess_zmono H H' : zmono H H' -> upper_hessenberg H -> upper_hessenberg H'.
Proof. intros Z Hh a b Hab. apply Z, Hh, Hab. Qed.

(* with eps = 0 a deflation is a no-op *)
Lemma fr_defl_at_eps0 n (H : rmat) i : dims n n H -> (S i < n)%nat ->
  forall a b, G (fr_defl_at XR 0 H i) a b = G H a b.
Proof.
  intros HH Hi a b. destruct (fr_defl_at_effect 0 n H i HH Hi) as (E1 & E2 & E3).
  destruct (Nat.eq_dec a (S i)) as [Ea|Ea]; [destruct (Nat.eq_dec b i) as [Eb|Eb]|].
  - subst a b. destruct (Rle_dec (Rabs (G H (S i) i)) (0 * (Rabs (G H i i) + Rabs (G H (S i) (S i))))) as [Hn|Hn].
    + rewrite E2 by exact Hn. rewrite Rmult_0_l in Hn.
      pose proof (Rabs_pos (G H (S i) i)) as Hp.
      assert (Ez : Rabs (G H (S i) i) = 0) by lra.
      destruct (Req_dec (G H (S i) i) 0) as [E0|E0]; [symmetry; exact E0|].
      exfalso. apply (Rabs_no_R0 _ E0). exact Ez.
    + apply E3. exact Hn.
  - apply E1. right; exact Eb.
  - apply E1. left; exact Ea.
Qed.

Lemma fr_reach_eps0_hess n A0 A1 : fr_reach 0 n A0 A1 -> meq n n A1 A0.
Proof.
  induction 1 as [|A1 A2 _ IH Hm|H U i _ IH HH HU HO Hi].
  - apply meq_refl.
  - apply meq_trans with A1; assumption.
  - apply meq_trans with (uhut n (G H, G U)); [|exact IH].
    apply ProofsTrace.uhut_congr; [|apply meq_refl].
    intros a b _ _. apply (fr_defl_at_eps0 n); assumption.
Qed.

(* ================================================================== *)
(* 3. the invariants                                                   *)

Lemma G_idx (H : rmat) a b a' b' x : a = a' -> b = b' -> G H a' b' = x -> G H a b = x.
Proof. intros -> ->. auto. Qed.
Lemma G_idx_ne (H : rmat) a b a' b' x : a = a' -> b = b' -> G H a' b' <> x -> G H a b <> x.
Proof. intros -> ->. auto. Qed.

Definition fr_inv (eps : R) (n : nat) (A0 : fmatR) (H U : rmat) : Prop :=
  dims n n H /\ upper_hessenberg H /\ dims n n U /\ orth n (G U) /\
  fr_reach eps n A0 (uhut n (G H, G U)).

(* no two consecutive non-zero subdiagonal entries from column k on *)
Definition quasi_from (n : nat) (H : rmat) (k : nat) : Prop :=
  forall j, (k <= j)%nat -> (j + 2 < n)%nat -> G H (S j) j = 0 \/ G H (S (S j)) (S j) = 0.

(* the trailing q rows are quasi upper triangular and decoupled from the rest *)
Definition q_inv (n : nat) (H : rmat) (q : nat) : Prop :=
  (q <= n)%nat /\
  ((0 < q)%nat -> (q < n)%nat -> G H (n - q) (n - q - 1) = 0) /\
  quasi_from n H (n - q).

(* the values of q seen at the head of the outer loop *)
Definition q_ok (n q : nat) : Prop := (q = 0 \/ q = n \/ q + 3 <= n)%nat.

Lemma quasi_zmono n H H' k : zmono H H' -> quasi_from n H k -> quasi_from n H' k.
Proof. intros Z Q j Hk Hj. destruct (Q j Hk Hj) as [E|E]; [left|right]; apply Z, E. Qed.

Lemma q_inv_zmono n H H' q : zmono H H' -> q_inv n H q -> q_inv n H' q.
Proof.
  intros Z (A & C & D). split; [exact A|]. split.
  - intros H1 H2. apply Z, C; assumption.
  - apply (quasi_zmono n H); assumption.
Qed.

Lemma fr_defl_at_inv eps n A0 H U i : (S i < n)%nat ->
  fr_inv eps n A0 H U -> fr_inv eps n A0 (fr_defl_at XR eps H i) U.
Proof.
  intros Hi (HH & Hh & HU & HO & HR). split; [apply fr_defl_at_dims; exact HH|]. split.
  - apply (hess_zmono H); [apply (fr_defl_at_zmono eps n); assumption|exact Hh].
  - split; [exact HU|]. split; [exact HO|]. apply fr_defl; assumption.
Qed.

Lemma fr_defl_fold eps n A0 U l : (forall i, In i l -> (S i < n)%nat) -> forall H,
  fr_inv eps n A0 H U ->
  fr_inv eps n A0 (fold_left (fr_defl_at XR eps) l H) U /\ zmono H (fold_left (fr_defl_at XR eps) l H).
Proof.
  induction l as [|i l IH]; intros Hl H Hinv.
  - split; [exact Hinv|apply zmono_refl].
  - cbn [fold_left].
    assert (Hi : (S i < n)%nat) by (apply Hl; left; reflexivity).
    destruct (IH (fun k Hk => Hl k (or_intror Hk)) (fr_defl_at XR eps H i) (fr_defl_at_inv eps n A0 H U i Hi Hinv))
      as (I1 & Z1).
    split; [exact I1|]. apply (zmono_trans H (fr_defl_at XR eps H i)); [|exact Z1].
    destruct Hinv as (HH & _). apply (fr_defl_at_zmono eps n); assumption.
Qed.

Lemma fr_defl_pass_inv eps n A0 H U : fr_inv eps n A0 H U ->
  fr_inv eps n A0 (fr_defl_pass XR eps n H) U /\ zmono H (fr_defl_pass XR eps n H).
Proof.
  intro Hinv. unfold fr_defl_pass. apply (fr_defl_fold eps n A0 U); [|exact Hinv].
  intros i Hin. apply in_seq in Hin. lia.
Qed.

(* ================================================================== *)
(* 4. splitMatrix                                                      *)

Lemma eqbR x : eqb (nx XR) x (zero (nx XR)) = Reqb x 0.
Proof. reflexivity. Qed.

Lemma Reqb_false x y : Reqb x y = false <-> x <> y.
Proof. unfold Reqb; destruct (Req_EM_T x y); split; auto; try discriminate. intro; contradiction. Qed.

Lemma fr_split_p_spec (H : rmat) : forall fuel p, (p <= fuel)%nat ->
  let r := fr_split_p XR fuel H p in
  (r <= p)%nat /\ ((0 < r)%nat -> G H r (r - 1) = 0) /\
  ((0 < p)%nat -> G H p (p - 1) <> 0 -> (r < p)%nat).
Proof.
  induction fuel as [|f IH]; intros p Hp.
  - assert (p = O) by lia. subst p. cbn. split; [lia|]. split; intros; lia.
  - destruct p as [|p'].
    + cbn. split; [lia|]. split; intros; lia.
    + cbn [fr_split_p]. rewrite eqbR. change (get XR H (S p') p') with (G H (S p') p').
      destruct (Reqb (G H (S p') p') 0) eqn:E; cbn [negb].
      * apply Reqb_true in E. split; [lia|]. split.
        -- intros _. replace (S p' - 1)%nat with p' by lia. exact E.
        -- intros _ Hne. replace (S p' - 1)%nat with p' in Hne by lia. contradiction.
      * destruct (IH p' ltac:(lia)) as (A & B & _). split; [lia|]. split; [exact B|]. intros; lia.
Qed.

Lemma fr_split_q_end (H : rmat) n f i q : (n - 1 <= i)%nat -> fr_split_q XR f H n i q = q.
Proof.
  intro Hi. destruct f; cbn [fr_split_q]; [reflexivity|].
  assert (E : Nat.ltb i (n - 1) = false) by (apply Nat.ltb_ge; exact Hi). rewrite E. reflexivity.
Qed.

(* the result of the q-search: either everything is done (q1 = n) or a block of at least
   three rows with two non-zero subdiagonal entries sits right above the trailing q1 rows *)
Definition split_q_post (n : nat) (H : rmat) (q1 : nat) : Prop :=
  q_inv n H q1 /\
  (q1 = n \/ ((q1 + 3 <= n)%nat /\ G H (n - q1 - 1) (n - q1 - 2) <> 0 /\ G H (n - q1 - 2) (n - q1 - 3) <> 0)).

Lemma fr_split_q_spec (H : rmat) n : forall fuel i q,
  (i < n - 1)%nat -> (n - 1 - i <= fuel)%nat ->
  (i = q \/ (i = S q /\ G H (n - q - 1) (n - q - 2) <> 0)) ->
  q_inv n H q ->
  split_q_post n H (fr_split_q XR fuel H n i q).
Proof.
  induction fuel as [|f IH]; intros i q Hi Hf Hiq Hq; [lia|].
  cbn [fr_split_q].
  assert (E : Nat.ltb i (n - 1) = true) by (apply Nat.ltb_lt; exact Hi). rewrite E.
  rewrite eqbR. change (get XR H (n - i - 1) (n - i - 2)) with (G H (n - i - 1) (n - i - 2)).
  destruct Hq as (Q1 & Q3 & Q4).
  destruct (Reqb (G H (n - i - 1) (n - i - 2)) 0) eqn:Ez.
  - (* subdiagonal entry zero: q := i + 1 *)
    apply Reqb_true in Ez.
    assert (E2 : Nat.ltb (S i) i = false) by (apply Nat.ltb_ge; lia). rewrite E2.
    assert (Qn : q_inv n H (S i)).
    { split; [lia|]. split.
      - intros _ _. apply (G_idx H _ _ (n - i - 1)%nat (n - i - 2)%nat); [lia|lia|exact Ez].
      - intros j Hj1 Hj2.
        destruct (Nat.le_gt_cases (n - q) j) as [Hc|Hc]; [apply Q4; assumption|].
        assert (Z : G H (n - q) (n - q - 1) = 0) by (apply Q3; lia).
        destruct Hiq as [->|(-> & Hne)].
        + left. apply (G_idx H _ _ (n - q)%nat (n - q - 1)%nat); [lia|lia|exact Z].
        + destruct (Nat.eq_dec j (n - q - 1)) as [Ej|Ej].
          * left. apply (G_idx H _ _ (n - q)%nat (n - q - 1)%nat); [lia|lia|exact Z].
          * right. apply (G_idx H _ _ (n - q)%nat (n - q - 1)%nat); [lia|lia|exact Z]. }
    destruct (Nat.eqb_spec i (n - 2)) as [Ei|Ei].
    + rewrite fr_split_q_end by lia. replace (i + 2)%nat with n by lia.
      split; [|left; reflexivity]. split; [lia|]. split; [intros; lia|].
      intros j Hj1 Hj2. destruct Qn as (_ & _ & Q4n).
      destruct (Nat.eq_dec j 0) as [Ej|Ej].
      * left. apply (G_idx H _ _ (n - i - 1)%nat (n - i - 2)%nat); [lia|lia|exact Ez].
      * apply Q4n; lia.
    + apply IH; [lia|lia|left; reflexivity|exact Qn].
  - (* non-zero: q unchanged *)
    apply Reqb_false in Ez.
    destruct (Nat.ltb q i) eqn:E2.
    + apply Nat.ltb_lt in E2. destruct Hiq as [->|(-> & Hne)]; [lia|].
      split; [split; [exact Q1|split; assumption]|]. right. split; [lia|]. split; [exact Hne|].
      apply (G_idx_ne H _ _ (n - S q - 1)%nat (n - S q - 2)%nat); [lia|lia|exact Ez].
    + apply Nat.ltb_ge in E2. assert (i = q) by (destruct Hiq as [->|(-> & _)]; lia). subst i.
      destruct (Nat.eqb_spec q (n - 2)) as [Ei|Ei].
      * rewrite fr_split_q_end by lia. replace (q + 2)%nat with n by lia.
        split; [|left; reflexivity]. split; [lia|]. split; [intros; lia|].
        intros j Hj1 Hj2.
        destruct (Nat.le_gt_cases (n - q) j) as [Hc|Hc]; [apply Q4; assumption|].
        assert (Z : G H (n - q) (n - q - 1) = 0) by (apply Q3; lia).
        destruct (Nat.eq_dec j 0) as [Ej|Ej].
        -- right. apply (G_idx H _ _ (n - q)%nat (n - q - 1)%nat); [lia|lia|exact Z].
        -- left. apply (G_idx H _ _ (n - q)%nat (n - q - 1)%nat); [lia|lia|exact Z].
      * apply IH; [lia|lia| |split; [exact Q1|split; assumption]].
        right. split; [reflexivity|].
        apply (G_idx_ne H _ _ (n - q - 1)%nat (n - q - 2)%nat); [lia|lia|exact Ez].
Qed.

(* ================================================================== *)
(* 5. one iteration of the outer loop                                  *)

Lemma fr_outer_inv (Hsw : francis_sweep_spec) eps n A0 (H U : rmat) q :
  fr_inv eps n A0 H U -> q_inv n H q -> (q < n - 1)%nat ->
  exists H' U' q', fr_outer XR eps n (H, Some U, q) = (H', Some U', q') /\
    fr_inv eps n A0 H' U' /\ q_inv n H' q' /\ q_ok n q'.
Proof.
  intros Hinv Hq Hqn. unfold fr_outer.
  destruct (fr_defl_pass_inv eps n A0 H U Hinv) as (I1 & Z1).
  pose proof (q_inv_zmono n H _ q Z1 Hq) as Hq1.
  set (H1 := fr_defl_pass XR eps n H) in *.
  unfold fr_split. cbn beta iota zeta.
  pose proof (fr_split_q_spec H1 n n q q Hqn ltac:(lia) (or_introl eq_refl) Hq1) as Post.
  set (q1 := fr_split_q XR n H1 n q q) in *.
  destruct Post as (Qi & [Eq|(Hq3 & Hn1 & Hn2)]).
  - assert (E : Nat.ltb q1 (n - 1) = false) by (apply Nat.ltb_ge; lia). rewrite E.
    exists H1, U, q1. split; [reflexivity|]. split; [exact I1|]. split; [exact Qi|].
    right; left; exact Eq.
  - assert (E : Nat.ltb q1 (n - 1) = true) by (apply Nat.ltb_lt; lia). rewrite E.
    destruct (fr_split_p_spec H1 n (n - q1 - 2) ltac:(lia)) as (P1 & P2 & P3).
    set (p := fr_split_p XR n H1 (n - q1 - 2)) in *.
    assert (Pl : (p < n - q1 - 2)%nat).
    { apply P3; [lia|]. apply (G_idx_ne H1 _ _ (n - q1 - 2)%nat (n - q1 - 3)%nat); [lia|lia|exact Hn2]. }
    destruct I1 as (HH & Hh & HU & HO & HR).
    destruct Qi as (Q1 & Q3 & Q4).
    destruct (Hsw n p (n - q1 - p)%nat H1 U HH Hh HU ltac:(lia) ltac:(lia) P2) as
      (H2 & U2 & Es & HH2 & Hh2 & HU2 & Keep & Sim & HO2).
    { intros Hlt. apply (G_idx H1 _ _ (n - q1)%nat (n - q1 - 1)%nat); [lia|lia|]. apply Q3; lia. }
    match goal with |- context [francis_sweep ?a ?b ?c ?d ?e] =>
      replace (francis_sweep a b c d e) with (H2, Some U2) by (symmetry; exact Es) end.
    exists H2, U2, q1. split; [reflexivity|]. split; [|split].
    + split; [exact HH2|]. split; [exact Hh2|]. split; [exact HU2|]. split; [apply HO2; exact HO|].
      apply (fr_meq eps n A0 (uhut n (G H1, G U))); assumption.
    + split; [exact Q1|]. split.
      * intros Ha Hb. rewrite Keep by (left; lia). apply Q3; assumption.
      * intros j Hj1 Hj2. rewrite !Keep by (left; lia). apply Q4; assumption.
    + right; right; exact Hq3.
Qed.

(* ================================================================== *)
(* 6. the outer loop                                                   *)

Lemma fr_loop_inv (Hsw : francis_sweep_spec) eps n A0 : forall fuel (H U : rmat) q,
  fr_inv eps n A0 H U -> q_inv n H q -> q_ok n q ->
  exists H' U' conv, fr_loop XR fuel eps n (H, Some U, q) = (H', Some U', conv) /\
    fr_inv eps n A0 H' U' /\ (conv = true -> quasi_from n H' 0).
Proof.
  induction fuel as [|f IH]; intros H U q Hinv Hq Hok.
  - cbn [fr_loop]. destruct (Nat.ltb q (n - 1)) eqn:E.
    + exists H, U, false. split; [reflexivity|]. split; [exact Hinv|discriminate].
    + apply Nat.ltb_ge in E. exists H, U, true. split; [reflexivity|]. split; [exact Hinv|].
      intros _ j Hj1 Hj2. destruct Hq as (_ & _ & Q4). apply Q4; [|exact Hj2].
      unfold q_ok in Hok. lia.
  - cbn [fr_loop]. destruct (Nat.ltb q (n - 1)) eqn:E.
    + apply Nat.ltb_lt in E.
      destruct (fr_outer_inv Hsw eps n A0 H U q Hinv Hq E) as (H1 & U1 & q1 & Eo & I1 & Q1 & O1).
      rewrite Eo. apply IH; assumption.
    + apply Nat.ltb_ge in E. exists H, U, true. split; [reflexivity|]. split; [exact Hinv|].
      intros _ j Hj1 Hj2. destruct Hq as (_ & _ & Q4). apply Q4; [|exact Hj2].
      unfold q_ok in Hok. lia.
Qed.

(* ================================================================== *)
(* 7. post-processing of the real 2x2 blocks                           *)

Lemma qr2_loop_inv (Hq2 : qr2_step_spec) eps n A0 i : (S i < n)%nat -> forall fuel (H U : rmat),
  fr_inv eps n A0 H U -> quasi_from n H 0 ->
  ((0 < i)%nat -> G H i (i - 1) = 0) -> ((i + 2 < n)%nat -> G H (i + 2) (i + 1) = 0) ->
  exists H' U' conv, qr2_loop XR fuel eps i (H, Some U) = (H', Some U', conv) /\
    fr_inv eps n A0 H' U' /\ quasi_from n H' 0.
Proof.
  intros Hi. induction fuel as [|f IH]; intros H U Hinv Hqs Hlo Hhi.
  - cbn [qr2_loop].
    destruct (negligible XR eps (get XR H i i) (get XR H (S i) i) (get XR H (S i) (S i))) eqn:En.
    + exists (fr_defl_at XR eps H i), U, true. split; [unfold fr_defl_at; rewrite En; reflexivity|].
      split; [apply fr_defl_at_inv; assumption|].
      apply (quasi_zmono n H); [|exact Hqs]. destruct Hinv as (HH & _). apply (fr_defl_at_zmono eps n); assumption.
    + exists H, U, false. split; [reflexivity|]. split; assumption.
  - cbn [qr2_loop].
    destruct (negligible XR eps (get XR H i i) (get XR H (S i) i) (get XR H (S i) (S i))) eqn:En.
    + exists (fr_defl_at XR eps H i), U, true. split; [unfold fr_defl_at; rewrite En; reflexivity|].
      split; [apply fr_defl_at_inv; assumption|].
      apply (quasi_zmono n H); [|exact Hqs]. destruct Hinv as (HH & _). apply (fr_defl_at_zmono eps n); assumption.
    + destruct Hinv as (HH & Hh & HU & HO & HR).
      destruct (Hq2 n i H U HH Hh HU Hi Hlo Hhi) as (H1 & U1 & Es & HH1 & Hh1 & HU1 & Keep & Sim & HO1).
      match goal with |- context [qr2_step ?a ?b ?c] =>
        replace (qr2_step a b c) with (H1, Some U1) by (symmetry; exact Es) end.
      apply IH.
      * split; [exact HH1|]. split; [exact Hh1|]. split; [exact HU1|]. split; [apply HO1; exact HO|].
        apply (fr_meq eps n A0 (uhut n (G H, G U))); assumption.
      * intros j _ Hj.
        destruct (Nat.lt_trichotomy j i) as [Hlt|[Heq|Hgt]].
        -- destruct (Nat.eq_dec (S j) i) as [Ej|Ej].
           ++ left. rewrite Keep by (right; lia).
              apply (G_idx H _ _ i (i - 1)%nat); [lia|lia|apply Hlo; lia].
           ++ rewrite !Keep by (right; lia). apply Hqs; [lia|exact Hj].
        -- subst j. right. rewrite Keep by (left; lia).
           apply (G_idx H _ _ (i + 2)%nat (i + 1)%nat); [lia|lia|apply Hhi; lia].
        -- rewrite !Keep by (left; lia). apply Hqs; [lia|exact Hj].
      * intros Hp. rewrite Keep by (right; lia). apply Hlo; exact Hp.
      * intros Hp. rewrite Keep by (left; lia). apply Hhi; exact Hp.
Qed.

Lemma blocks_at_inv (Hq2 : qr2_step_spec) fuel eps n A0 (H U : rmat) ok i : (S i < n)%nat ->
  fr_inv eps n A0 H U -> quasi_from n H 0 ->
  exists H' U' ok', blocks_at XR fuel eps (H, Some U, ok) i = (H', Some U', ok') /\
    fr_inv eps n A0 H' U' /\ quasi_from n H' 0.
Proof.
  intros Hi Hinv Hqs. unfold blocks_at.
  destruct ok; cbn [negb]; [|exists H, U, false; split; [reflexivity|split; assumption]].
  rewrite eqbR. change (get XR H (S i) i) with (G H (S i) i).
  destruct (Reqb (G H (S i) i) 0) eqn:Ez; [exists H, U, true; split; [reflexivity|split; assumption]|].
  apply Reqb_false in Ez.
  destruct (complex_pair XR H i); [exists H, U, true; split; [reflexivity|split; assumption]|].
  apply (qr2_loop_inv Hq2 eps n A0 i Hi); try assumption.
  - intros Hp. destruct (Hqs (i - 1)%nat ltac:(lia) ltac:(lia)) as [Z|Z].
    + apply (G_idx H _ _ (S (i - 1)) (i - 1)%nat); [lia|lia|exact Z].
    + exfalso. apply Ez. apply (G_idx H _ _ (S (S (i - 1))) (S (i - 1))); [lia|lia|exact Z].
  - intros Hp. destruct (Hqs i ltac:(lia) ltac:(lia)) as [Z|Z]; [contradiction|].
    apply (G_idx H _ _ (S (S i)) (S i)); [lia|lia|exact Z].
Qed.

Lemma blocks_fold_inv (Hq2 : qr2_step_spec) fuel eps n A0 l : (forall i, In i l -> (S i < n)%nat) ->
  forall (H U : rmat) ok, fr_inv eps n A0 H U -> quasi_from n H 0 ->
  exists H' U' ok', fold_left (blocks_at XR fuel eps) l (H, Some U, ok) = (H', Some U', ok') /\
    fr_inv eps n A0 H' U' /\ quasi_from n H' 0.
Proof.
  induction l as [|i l IH]; intros Hl H U ok Hinv Hqs.
  - exists H, U, ok. split; [reflexivity|split; assumption].
  - cbn [fold_left].
    destruct (blocks_at_inv Hq2 fuel eps n A0 H U ok i (Hl i (or_introl eq_refl)) Hinv Hqs)
      as (H1 & U1 & ok1 & Eb & I1 & Q1).
    match goal with |- context [blocks_at ?a ?b ?c ?d ?e] =>
      replace (blocks_at a b c d e) with (H1, Some U1, ok1) by (symmetry; exact Eb) end.
    apply IH; [intros k Hk; apply Hl; right; exact Hk|assumption|assumption].
Qed.

(* ================================================================== *)
(* 8. the whole routine                                                *)

Lemma hess_start (A : rmat) n : dims n n A ->
  exists H U, hessenberg XR true true A = (H, Some U) /\
    dims n n H /\ upper_hessenberg H /\ dims n n U /\ orth n (G U) /\
    meq n n (uhut n (G H, G U)) (G A).
Proof.
  intro HA. unfold hessenberg. pose proof HA as (Hl & _). rewrite Hl.
  assert (Hinit : hess_inv n A 0 A (ident XR n)).
  { split; [exact HA|]. split; [apply dims_ident|]. split; [|split].
    - apply (orth_meq n delta); [apply meq_sym; apply G_ident|apply orth_delta].
    - apply meq_trans with (uhut n (G A, delta)).
      + apply ProofsHess.uhut_congr; [apply meq_refl|apply G_ident].
      + unfold uhut. cbn [fst snd]. intros i j Hi Hj.
        rewrite (mmul_delta_l n n _ i j Hi Hj).
        rewrite (mmul_ext_all n (G A) (G A) (tr delta) delta (fun _ _ => eq_refl) tr_delta).
        apply (mmul_delta_r n n (G A)); assumption.
    - intros i j Hj. lia. }
  destruct (hess_inv_run true n A (n - 2) 0 A (ident XR n)) as (H & U & E & HH & HU & HO & HR & Hc).
  { destruct (Nat.le_gt_cases 2 n); [left; lia|right; lia]. }
  { exact Hinit. }
  exists H, U. split; [exact E|]. split; [exact HH|]. split; [|split; [exact HU|split; [exact HO|exact HR]]].
  intros i j Hij. simpl in Hc.
  destruct (Nat.lt_ge_cases i n) as [Hi|Hi].
  - apply Hc; lia.
  - apply G_out_row. destruct HH as (-> & _). exact Hi.
Qed.

Definition francis_reach_stmt : Prop := forall (fuel : nat) (eps : R) (A : rmat) (n : nat),
  dims n n A ->
  exists H U conv, francis XR fuel eps true A = (H, Some U, conv) /\
    dims n n H /\ upper_hessenberg H /\ dims n n U /\ orth n (G U) /\
    fr_reach eps n (G A) (uhut n (G H, G U)) /\
    (conv = true -> forall i, (i + 2 < n)%nat -> G H (S i) i = 0 \/ G H (S (S i)) (S i) = 0).

Theorem francis_reach_from_sweep : francis_sweep_spec -> qr2_step_spec -> francis_reach_stmt.
Proof.
  intros Hsw Hq2 fuel eps A n HA. unfold francis. pose proof HA as (Hl & _). rewrite Hl.
  destruct (hess_start A n HA) as (H0 & U0 & E0 & HH0 & Hh0 & HU0 & HO0 & HR0).
  rewrite E0.
  assert (I0 : fr_inv eps n (G A) H0 U0).
  { split; [exact HH0|]. split; [exact Hh0|]. split; [exact HU0|]. split; [exact HO0|].
    apply (fr_meq eps n (G A) (G A)); [apply fr_start|exact HR0]. }
  assert (Q0 : q_inv n H0 0).
  { split; [lia|]. split; [intros; lia|]. intros j Hj1 Hj2. lia. }
  destruct (fr_loop_inv Hsw eps n (G A) fuel H0 U0 0%nat I0 Q0 (or_introl eq_refl))
    as (H1 & U1 & conv & El & I1 & Qs1).
  match goal with |- context [fr_loop ?a ?b ?c ?d ?e] =>
    replace (fr_loop a b c d e) with (H1, Some U1, conv) by (symmetry; exact El) end.
  destruct conv.
  - destruct (blocks_fold_inv Hq2 fuel eps n (G A) (seq 0 (n - 1))
               ltac:(intros i Hin; apply in_seq in Hin; lia) H1 U1 true I1 (Qs1 eq_refl))
      as (H2 & U2 & ok & Ef & (HH2 & Hh2 & HU2 & HO2 & HR2) & Qs2).
    exists H2, U2, ok. split; [exact Ef|].
    split; [exact HH2|]. split; [exact Hh2|]. split; [exact HU2|]. split; [exact HO2|]. split; [exact HR2|].
    intros _ i Hi. apply Qs2; [lia|exact Hi].
  - destruct I1 as (HH1 & Hh1 & HU1 & HO1 & HR1).
    exists H1, U1, false. split; [reflexivity|].
    split; [exact HH1|]. split; [exact Hh1|]. split; [exact HU1|]. split; [exact HO1|]. split; [exact HR1|].
    discriminate.
Qed.

(* the same without the quasi-triangular conjunct *)
Definition francis_reach_core_stmt : Prop := forall (fuel : nat) (eps : R) (A : rmat) (n : nat),
  dims n n A ->
  exists H U conv, francis XR fuel eps true A = (H, Some U, conv) /\
    dims n n H /\ upper_hessenberg H /\ dims n n U /\ orth n (G U) /\
    fr_reach eps n (G A) (uhut n (G H, G U)).

Theorem francis_reach_core_from_sweep : francis_sweep_spec -> qr2_step_spec -> francis_reach_core_stmt.
Proof.
  intros Hsw Hq2 fuel eps A n HA.
  destruct (francis_reach_from_sweep Hsw Hq2 fuel eps A n HA) as (H & U & conv & E & A1 & A2 & A3 & A4 & A5 & _).
  exists H, U, conv. repeat (split; [assumption|]). assumption.
Qed.

(* with eps = 0 (no deflation ever fires unless the entry is already exactly zero) the result is
   an exact orthogonal similarity: U H U^T = A on the n x n window *)
Corollary francis_eps0_similar : francis_sweep_spec -> qr2_step_spec ->
  forall (fuel : nat) (A : rmat) (n : nat), dims n n A ->
  exists H U conv, francis XR fuel 0 true A = (H, Some U, conv) /\
    upper_hessenberg H /\ orth n (G U) /\ meq n n (uhut n (G H, G U)) (G A).
Proof.
  intros Hsw Hq2 fuel A n HA.
  destruct (francis_reach_from_sweep Hsw Hq2 fuel 0 A n HA) as (H & U & conv & E & A1 & A2 & A3 & A4 & A5 & _).
  exists H, U, conv. split; [exact E|]. split; [exact A2|]. split; [exact A4|].
  apply fr_reach_eps0_hess. exact A5.
Qed.
