(* C05 — round 6, part 3: sortEigenvalues (insertion sort as run by sort.Sort for n <= 12) returns
   the (value, original index) pairs permuted into decreasing magnitude. *)
From Coq Require Import Reals List Lia Lra Bool Sorting.Permutation Sorting.Sorted ZArith Floats.
From ADV Require Import Base.Num C05.Model C05.Spec C05.ProofsBase C05.ProofsTrace C05.ModelIter C05.ModelEig.
From ADV Require C05.Corr.
Import ListNotations.
Open Scope R_scope.

Definition le_abs (a b : R * nat) : Prop := Rabs (fst a) <= Rabs (fst b).
Definition ge_abs (a b : R * nat) : Prop := Rabs (fst b) <= Rabs (fst a).

Lemma ins_rev_cons_lt x e rl : Rabs (fst e) < Rabs (fst x) ->
  ins_rev XR x (e :: rl) = e :: ins_rev XR x rl.
Proof.
  intro H. cbn [ins_rev]. cbn [nx XR NumXR NumR ltb nabs].
  replace (Rltb (Rabs (fst e)) (Rabs (fst x))) with true; [reflexivity|].
  symmetry. apply Rltb_true. exact H.
Qed.

Lemma ins_rev_cons_ge x e rl : ~ Rabs (fst e) < Rabs (fst x) ->
  ins_rev XR x (e :: rl) = x :: e :: rl.
Proof.
  intro H. cbn [ins_rev]. cbn [nx XR NumXR NumR ltb nabs].
  destruct (Rltb (Rabs (fst e)) (Rabs (fst x))) eqn:E; [|reflexivity].
  apply Rltb_true in E. contradiction.
Qed.

Lemma ins_rev_perm x rl : Permutation (ins_rev XR x rl) (x :: rl).
Proof.
  induction rl as [|e rl IH]; [apply Permutation_refl|].
  destruct (Rlt_dec (Rabs (fst e)) (Rabs (fst x))) as [Hlt|Hge].
  - rewrite ins_rev_cons_lt by exact Hlt.
    apply (Permutation_trans (l' := e :: x :: rl)); [apply perm_skip; exact IH|apply perm_swap].
  - rewrite ins_rev_cons_ge by exact Hge. apply Permutation_refl.
Qed.

Lemma ins_rev_sorted x rl : StronglySorted le_abs rl -> StronglySorted le_abs (ins_rev XR x rl).
Proof.
  induction rl as [|e rl IH]; intro Hs.
  - cbn [ins_rev]. constructor; constructor.
  - inversion Hs as [|e' rl' Hs' Hall]; subst.
    destruct (Rlt_dec (Rabs (fst e)) (Rabs (fst x))) as [Hlt|Hge].
    + rewrite ins_rev_cons_lt by exact Hlt. constructor; [apply IH; exact Hs'|].
      apply (Permutation_Forall (Permutation_sym (ins_rev_perm x rl))).
      constructor; [unfold le_abs; lra|exact Hall].
    + rewrite ins_rev_cons_ge by exact Hge. constructor; [exact Hs|].
      assert (Hxe : le_abs x e) by (unfold le_abs; lra).
      constructor; [exact Hxe|].
      apply (Forall_impl (P := le_abs e)); [|exact Hall].
      intros b Hb. unfold le_abs in *. lra.
Qed.

Lemma fold_ins_rev (l : list (R * nat)) : forall rl,
  StronglySorted le_abs rl ->
  StronglySorted le_abs (fold_left (fun rl x => ins_rev XR x rl) l rl) /\
  Permutation (fold_left (fun rl x => ins_rev XR x rl) l rl) (rev l ++ rl).
Proof.
  induction l as [|x l IH]; intros rl Hs.
  - split; [exact Hs|apply Permutation_refl].
  - cbn [fold_left]. destruct (IH (ins_rev XR x rl) (ins_rev_sorted x rl Hs)) as (H1 & H2).
    split; [exact H1|].
    apply (Permutation_trans H2). cbn [rev]. rewrite <- app_assoc. cbn [app].
    apply Permutation_app_head. apply ins_rev_perm.
Qed.

Lemma sorted_snoc (Rel : R * nat -> R * nat -> Prop) l a :
  StronglySorted Rel l -> Forall (fun b => Rel b a) l -> StronglySorted Rel (l ++ [a]).
Proof.
  induction l as [|b l IH]; intros Hs Hall.
  - constructor; constructor.
  - inversion Hs as [|b' l' Hs' Hb]; subst. inversion Hall as [|b' l' Hba Hall']; subst.
    cbn [app]. constructor; [apply IH; assumption|].
    apply Forall_app. split; [exact Hb|constructor; [exact Hba|constructor]].
Qed.

Lemma sorted_rev l : StronglySorted le_abs l -> StronglySorted ge_abs (rev l).
Proof.
  induction l as [|a l IH]; intro Hs; [constructor|].
  inversion Hs as [|a' l' Hs' Ha]; subst. cbn [rev].
  apply sorted_snoc; [apply IH; exact Hs'|].
  apply Forall_rev. exact Ha.
Qed.

Lemma combine_seq_index (v : list R) : forall s,
  Forall (fun q : R * nat => (s <= snd q < s + length v)%nat /\ fst q = nth (snd q - s) v 0) (combine v (seq s (length v))).
Proof.
  induction v as [|a v IH]; intro s; [constructor|].
  cbn [length seq combine]. constructor.
  - cbn [fst snd]. rewrite Nat.sub_diag. split; [lia|reflexivity].
  - apply (Forall_impl (P := fun q : R * nat => (S s <= snd q < S s + length v)%nat /\ fst q = nth (snd q - S s) v 0)); [|apply IH].
    intros q (Hq & E). split; [cbn [length]; lia|].
    rewrite E. replace (snd q - s)%nat with (S (snd q - S s)) by lia. reflexivity.
Qed.

Lemma map_snd_combine_seq (v : list R) s : map snd (combine v (seq s (length v))) = seq s (length v).
Proof.
  revert s. induction v as [|a v IH]; intro s; [reflexivity|].
  cbn [length seq combine map snd]. f_equal. apply IH.
Qed.

(* sortEigenvalues: the pairs (sorted value, index it came from) are a permutation of the pairs
   (v_i, i); they are in decreasing magnitude; every sorted value IS the entry of the input at the
   recorded index; the recorded indices are a permutation of 0..n-1 *)
Theorem sort_pairs_correct (v : list R) :
  let sp := sort_pairs XR v in
  Permutation sp (combine v (seq 0 (length v))) /\
  StronglySorted ge_abs sp /\
  Forall (fun q => (snd q < length v)%nat /\ fst q = nth (snd q) v 0) sp /\
  Permutation (map snd sp) (seq 0 (length v)) /\
  length sp = length v.
Proof.
  intro sp. unfold sp, sort_pairs.
  destruct (fold_ins_rev (combine v (seq 0 (length v))) [] (SSorted_nil _)) as (Hs & Hp).
  rewrite app_nil_r in Hp.
  assert (Hperm : Permutation (rev (fold_left (fun rl x => ins_rev XR x rl) (combine v (seq 0 (length v))) []))
                              (combine v (seq 0 (length v)))).
  { apply (Permutation_trans (Permutation_sym (Permutation_rev _))).
    apply (Permutation_trans Hp). apply Permutation_sym. apply Permutation_rev. }
  split; [exact Hperm|]. split; [apply sorted_rev; exact Hs|]. split; [|split].
  - apply (Permutation_Forall (Permutation_sym Hperm)).
    apply (Forall_impl (P := fun q : R * nat => (0 <= snd q < 0 + length v)%nat /\ fst q = nth (snd q - 0) v 0));
      [|apply combine_seq_index].
    intros q (Hq & E). rewrite Nat.sub_0_r in E. split; [lia|exact E].
  - apply (Permutation_trans (Permutation_map snd Hperm)).
    rewrite map_snd_combine_seq. apply Permutation_refl.
  - rewrite (Permutation_length Hperm), combine_length, seq_length. lia.
Qed.

(* ---------------------------------------------------------------------- *)
(* the interchange loop, checked exhaustively for small sizes (binary64 instance; a bounded
   regression example, not a proof for every n) *)
Fixpoint insert_all (x : nat) (l : list nat) : list (list nat) :=
  match l with [] => [[x]] | y :: t => (x :: l) :: map (cons y) (insert_all x t) end.
Fixpoint perms (l : list nat) : list (list nat) :=
  match l with [] => [[]] | x :: t => flat_map (insert_all x) (perms t) end.

Definition fl_of_nat (t : nat) : float := PrimFloat.of_uint63 (Uint63.of_Z (Z.of_nat t)).
Definition perm_loop_ok (p : list nat) : bool :=
  let n := length p in
  let M : C05.Corr.fmat := [map fl_of_nat (seq 0 n); map (fun t => fl_of_nat (t + 10)) (seq 0 n)] in
  let want := map (fun row => map (fun t => nth (nth t p 0%nat) row 0%float) (seq 0 n)) M in
  match permute_cols C05.Corr.X p M with
  | Some M' => C05.Corr.fm_eqb M' want
  | None => false
  end.
Definition perm_loop_checked_upto (m : nat) : bool :=
  forallb (fun n => forallb perm_loop_ok (perms (seq 0 n))) (seq 1 m).

Lemma perm_loop_checked_5 : perm_loop_checked_upto 5 = true.
Proof. vm_compute. reflexivity. Qed.

(* ---------------------------------------------------------------------- *)
(* non-vacuity instances *)
Lemma eig_hyps_example :
  let H : rmat := [[1; 2]; [0; 3]] in let U : rmat := [[1; 0]; [0; 1]] in
  dims 2 2 H /\ dims 2 2 U /\ orth 2 (G U) /\ meq 2 2 (uhut 2 (G H, G U)) (G H) /\
  (forall i j, (j < i)%nat -> (j <= 1)%nat -> G H i j = 0) /\
  (forall i, (i < 1)%nat -> G H i i <> G H 1 1) /\
  (forall i, (i < 2)%nat -> G H i i <> 0).
Proof.
  intros H U.
  assert (D : forall M : rmat, M = H \/ M = U -> dims 2 2 M).
  { intros M [->| ->]; (split; [reflexivity|]); intros row [<-|[<-|[]]]; reflexivity. }
  split; [apply D; left; reflexivity|]. split; [apply D; right; reflexivity|].
  split; [|split; [|split; [|split]]].
  - split; intros i j Hi Hj; destruct i as [|[|i]]; destruct j as [|[|j]]; try lia;
      unfold mmul, tr, delta, G, U; cbn; lra.
  - intros i j Hi Hj; destruct i as [|[|i]]; destruct j as [|[|j]]; try lia;
      unfold uhut, mmul, tr, G, H, U; cbn; lra.
  - intros i j Hji Hj. destruct i as [|[|i]]; destruct j as [|[|j]]; try lia; unfold G, H; cbn; try lra.
    all: destruct i; reflexivity.
  - intros i Hi. assert (i = 0)%nat by lia. subst i. unfold G, H. cbn. lra.
  - intros i Hi. destruct i as [|[|i]]; try lia; unfold G, H; cbn; lra.
Qed.

Definition eig_example_values : option (list float) :=
  match eigensystem C05.Corr.X 40 0x1.2725dd1d243acp-60%float true false
          [[1; 2; 3]; [0; -4; 5]; [0; 0; 2]]%float [0; 0; 0]%float None with
  | Some (vs, _, _) => Some vs
  | None => None
  end.
Lemma eig_example_values_ok : eig_example_values = Some [(-4)%float; 2%float; 1%float].
Proof. vm_compute. reflexivity. Qed.
