(* C05 — round 6: tie of the eigensystem model (ModelEig.v) to the Go code.
   One case = (options, epsilon, input, content of the caller's buffers, what eigensystem.Run
   returned and what it left in inSitu.QrAlgorithm.H).  The WHOLE run — Hessenberg reduction,
   Francis QR algorithm, eigenvalue extraction, one back substitution per eigenvector, the
   product with U, the normalisation, the insertion sort and the column interchanges — is
   recomputed from the input on binary64 and must be bit-equal.  EBacksub: backSubstitution.Run
   on its own.  No proofs in this file. *)
From Coq Require Import String List ZArith Bool Floats.
From ADV Require Import Base.Num Base.Corr C05.Model C05.Corr C05.ModelIter C05.ModelEig.
Import ListNotations.

Inductive ecase :=
| EFail (why : string)
| EEig (fuel : nat) (epsdef : float) (epsreq : option float) (ce sym : bool) (A : fmat) (ev0 : list float) (E0 : option fmat)
       (vals : list float) (vecs : option fmat) (Hafter : option fmat)
| EEigPanic (fuel : nat) (epsdef : float) (epsreq : option float) (ce sym : bool) (A : fmat) (ev0 : list float) (E0 : option fmat)
| EBacksub (A : fmat) (b x : list float).

Definition echeck (c : ecase) : bool :=
  match c with
  | EFail _ => false
  | EEig fuel epsdef epsreq ce sym A ev0 E0 vals vecs Hafter =>
      let eps := run_epsilon epsdef epsreq in
      match eigensystem X fuel eps ce sym A ev0 E0 with
      | None => false
      | Some (vs, ws, H') =>
          fv_eqb vs vals && ofm_eqb ws vecs &&
          match Hafter with None => true | Some Hh => fm_eqb H' Hh end
      end
  | EEigPanic _ _ _ _ _ _ _ _ => false   (* the library panicked: never predicted by the model *)
  | EBacksub A b x => fv_eqb (backsub X A b 0) x
  end.

Definition emism (cs : list ecase) : list nat := mismatches echeck cs.
