(* C05 — round 5: tie of the fuelled loop models (ModelIter.v) to the Go code.
   One case = (options, epsilon, input, what the library's Run returned).  The WHOLE run is
   recomputed from the input by the model at binary64 (tridiagonalisation / bidiagonalisation /
   Hessenberg reduction, every deflation pass, split search, shift, rotation / reflector, the
   zero-row chase, the 2x2 post-processing, the sign flips) and must end converged within the
   fuel, in factors bit-equal to the library's.  [IHist]: the same for the SECOND run of a
   history that re-uses one InSitu object on two different inputs (the model has no buffers:
   the second result must not depend on the first run).
   No proofs in this file. *)
From Coq Require Import String List ZArith Bool Floats.
From ADV Require Import Base.Num Base.Corr C05.Model C05.Corr C05.ModelIter.
Import ListNotations.

Inductive icase :=
| IFail (why : string)
| ISym (fuel : nat) (eps : float) (cu : bool) (A T : fmat) (Z : option fmat)
| ISvd (fuel : nat) (eps : float) (cu cv : bool) (A H : fmat) (U V : option fmat)
| IFrancis (fuel : nat) (eps : float) (cu : bool) (A H : fmat) (U : option fmat).

Definition icheck (c : icase) : bool :=
  match c with
  | IFail _ => false
  | ISym fuel eps cu A T Z =>
      let '(T', Z', conv) := symqr X fuel eps cu A in
      conv && fm_eqb T' T && ofm_eqb Z' Z
  | ISvd fuel eps cu cv A H U V =>
      let '((H', U', V'), conv) := gksvd X fuel eps cu cv A in
      conv && fm_eqb H' H && ofm_eqb U' U && ofm_eqb V' V
  | IFrancis fuel eps cu A H U =>
      let '(H', U', conv) := francis X fuel eps cu A in
      conv && fm_eqb H' H && ofm_eqb U' U
  end.

Definition imism (cs : list icase) : list nat := mismatches icheck cs.

(* diagnostics (not used by the check): number of outer iterations after which the symmetric
   model state first differs from a logged state list *)
Definition sym_states (fuel : nat) (eps : float) (cu : bool) (A : fmat) : list (fmat * option fmat * nat) :=
  let '(T0, Zq0) := tridiag2 X cu A in
  let n := length A in
  (fix go (f : nat) (st : fmat * option fmat * nat) : list (fmat * option fmat * nat) :=
     match f with
     | O => [st]
     | S f' => if Nat.ltb (snd st) n then st :: go f' (sym_outer X eps n st) else [st]
     end) fuel (T0, Zq0, 0%nat).
