(* C05 — round 5: FUELLED executable models of the ITERATIVE routines
     /repo/algorithm/qrAlgorithm/qrAlgorithm_symmetric.go   (symqr)
     /repo/algorithm/qrAlgorithm/qrAlgorithm.go             (francis)
     /repo/algorithm/svd/svd.go                             (gksvd)
   One text, polymorphic in the carrier (C05.Model.NumX): instantiated at R for the theorems
   (ProofsIter*.v, Props.v section 9) and at primitive binary64 floats for the bit-exact replay
   of the WHOLE run against the library (CorrIter.v): the control flow (deflation pass, split
   search, shift, sweep, zero-row chase, 2x2 post-processing, sign flips) is part of the model,
   not of the harness.  Every data dependent loop carries fuel (one unit per iteration of the
   outer `for p, q := 0, 0; ...` loop, resp. per QRstep of the 2x2 post-processing); running
   out of fuel is the distinguishable outcome [conv = false].

   The banded Givens shortcuts are modelled with the index sets coded in givensRotation.go
   (C05.Corr.tridiag_*_sel, bidiag_*_sel; hess_*_sel of C05.Model).

   No proofs in this file. *)
From Coq Require Import List ZArith Bool Reals Floats.
From ADV Require Import Base.Num C05.Model.
From ADV Require C05.Corr.
Import ListNotations.

Section Iter.
Context {A : Type} (X : NumX A).
Let N : Num A := nx X.
Local Notation zero' := (zero N).
Local Notation one' := (one N).
Local Notation mat' := (list (list A)).

Definition set2 (M : mat') (i j : nat) (x : A) : mat' :=
  set_nth M i (set_nth (nth i M []) j x).

Definition two : A := add N one' one'.
Definition four : A := add N two two.

(* |x21| <= eps * (|x11| + |x22|)  (math.Abs on GetFloat64 values) *)
Definition negligible (eps x11 x21 x22 : A) : bool :=
  leb N (nabs N x21) (mul N eps (add N (nabs N x11) (nabs N x22))).

(* wilkinsonShift (qrAlgorithm_symmetric.go and svd.go: same text), operation by operation *)
Definition wilkinson (t11 t12 t22 : A) : A :=
  let d := div N (sub N t11 t22) two in
  let t := mul N t12 t12 in
  let mu := gsqrt X (add N (mul N d d) t) in
  let mu := if ltb N d zero' then neg N mu else mu in
  let mu := add N d mu in
  let mu := div N t mu in
  sub N t22 mu.

Definition opt_right (M : option mat') (c s : A) (i k : nat) : option mat' :=
  match M with None => None | Some Mm => Some (givens_right X Mm c s i k) end.

(* ================================================================== *)
(* 1. symmetric QR algorithm (qrAlgorithmSymmetric)                    *)

(* one iteration i of the deflation pass: T[i+1,i] := 0 ; T[i,i+1] := 0 *)
Definition sym_defl_at (eps : A) (T : mat') (i : nat) : mat' :=
  if negligible eps (get X T i i) (get X T (S i) i) (get X T (S i) (S i))
  then set2 (set2 T (S i) i zero') i (S i) zero' else T.
Definition sym_defl_pass (eps : A) (n : nat) (T : mat') : mat' :=
  fold_left (sym_defl_at eps) (seq 0 (n - 1)) T.

(* splitMatrixSymmetric / svd.splitMatrix (same text): both search the SUPER-diagonal *)
Fixpoint split_q_up (fuel : nat) (T : mat') (n q : nat) : nat :=
  match fuel with
  | O => q
  | S f =>
      if Nat.ltb q (n - 1) then
        let k := (n - q - 1)%nat in
        if eqb N (get X T (k - 1) k) zero' then split_q_up f T n (S q) else q
      else q
  end.
Fixpoint split_p_down (fuel : nat) (T : mat') (p : nat) : nat :=
  match fuel with
  | O => p
  | S f =>
      match p with
      | O => O
      | S p' => if eqb N (get X T p' p) zero' then p else split_p_down f T p'
      end
  end.
(* returns (p, q); when q = n the Go code returns p = -1, which is never used: 0 here *)
Definition split_sym (T : mat') (n q : nat) : nat * nat :=
  let q1 := split_q_up n T n q in
  let q2 := if Nat.eqb q1 (n - 1) then n else q1 in
  (split_p_down n T (n - q2 - 1), q2).

(* rotation k of symmetricQRstep on the block Tb (nn x nn) at offset p; (y, z) as left by the
   previous rotation *)
Definition sym_rot (p nn k : nat) (st : mat' * option mat' * (A * A)) : mat' * option mat' * (A * A) :=
  let '(Tb, Z, yz) := st in
  let cs := givens X (fst yz) (snd yz) in
  let c := fst cs in let s := snd cs in
  let Tb1 := giv_cols X (C05.Corr.tridiag_right_sel k (S k)) Tb c s k (S k) in   (* ApplyTridiagRight *)
  let Tb2 := giv_rows X (C05.Corr.tridiag_left_sel k (S k)) Tb1 c s k (S k) in   (* ApplyTridiagLeft *)
  let Z1 := opt_right Z c s (p + k) (p + S k) in
  let yz1 := if Nat.ltb k (nn - 2) then (get X Tb2 (S k) k, get X Tb2 (S (S k)) k) else yz in
  (Tb2, Z1, yz1).

Definition sym_sweep (p nn : nat) (Tb : mat') (Z : option mat') : mat' * option mat' :=
  let mu := wilkinson (get X Tb (nn - 2) (nn - 2)) (get X Tb (nn - 2) (nn - 1)) (get X Tb (nn - 1) (nn - 1)) in
  let yz := (sub N (get X Tb 0 0) mu, get X Tb 1 0) in
  fst (iter_steps (sym_rot p nn) 0 (nn - 1) (Tb, Z, yz)).

(* one iteration of `for p, q := 0, 0; q < n; { .. }` *)
Definition sym_outer (eps : A) (n : nat) (st : mat' * option mat' * nat) : mat' * option mat' * nat :=
  let '(T, Z, q) := st in
  let T1 := sym_defl_pass eps n T in
  let '(p, q1) := split_sym T1 n q in
  if Nat.ltb q1 n then
    let nn := (n - q1 - p)%nat in
    let '(Tb, Z1) := sym_sweep p nn (block T1 p (n - q1) p (n - q1)) Z in
    (put_block T1 p p Tb, Z1, q1)
  else (T1, Z, q1).

Fixpoint sym_loop (fuel : nat) (eps : A) (n : nat) (st : mat' * option mat' * nat) : mat' * option mat' * bool :=
  let '(T, Z, q) := st in
  if Nat.ltb q n then
    match fuel with
    | O => (T, Z, false)
    | S f => sym_loop f eps n (sym_outer eps n st)
    end
  else (T, Z, true).

Definition symqr (fuel : nat) (eps : A) (cu : bool) (Am : mat') : mat' * option mat' * bool :=
  let '(T0, Zq0) := tridiag2 X cu Am in
  sym_loop fuel eps (length Am) (T0, Zq0, 0%nat).

(* ================================================================== *)
(* 2. Golub-Kahan SVD (golubKahanSVD)                                  *)

Definition svd_defl_at (eps : A) (B : mat') (i : nat) : mat' :=
  if negligible eps (get X B i i) (get X B i (S i)) (get X B (S i) (S i))
  then set2 B i (S i) zero' else B.
Definition svd_defl_pass (eps : A) (n : nat) (B : mat') : mat' :=
  fold_left (svd_defl_at eps) (seq 0 (n - 1)) B.

(* computeSquare(B, i): (t11, t12, t22) = (b11^2, b11 b12, b12^2 + b22^2) *)
Definition compute_square (Bm : mat') (i : nat) : A * A * A :=
  let b11 := get X Bm i i in let b12 := get X Bm i (S i) in let b22 := get X Bm (S i) (S i) in
  (mul N b11 b11, mul N b11 b12, add N (mul N b12 b12) (mul N b22 b22)).

Definition svd_st := (mat' * option mat' * option mat')%type.

(* iteration k of golubKahanSVDstep on the block Bb at offset p: a right rotation of columns
   k, k+1 (accumulated into V) and a left rotation of rows k, k+1 (accumulated into U) *)
Definition gk_rot (p nn k : nat) (st : svd_st * (A * A)) : svd_st * (A * A) :=
  let '((Bb, U, V), yz) := st in
  let cs := givens X (fst yz) (snd yz) in
  let B1 := giv_cols X (C05.Corr.bidiag_right_sel k (S k)) Bb (fst cs) (snd cs) k (S k) in
  let V1 := opt_right V (fst cs) (snd cs) (p + k) (p + S k) in
  let cs2 := givens X (get X B1 k k) (get X B1 (S k) k) in
  let B2 := giv_rows X (C05.Corr.bidiag_left_sel (ncols B1) k (S k)) B1 (fst cs2) (snd cs2) k (S k) in
  let U1 := opt_right U (fst cs2) (snd cs2) (p + k) (p + S k) in
  let yz1 := if Nat.ltb k (nn - 2) then (get X B2 k (S k), get X B2 k (S (S k))) else yz in
  ((B2, U1, V1), yz1).

Definition gk_sweep (p nn : nat) (Bb : mat') (U V : option mat') : svd_st :=
  let '(t11, t12, t22) := compute_square Bb (nn - 2) in
  let mu := wilkinson t11 t12 t22 in
  let '(s11, s12, _) := compute_square Bb 0 in
  fst (iter_steps (gk_rot p nn) 0 (nn - 1) ((Bb, U, V), (sub N s11 mu, s12))).

(* zeroRow(B, U, V, k) on the full n x n matrix B *)
Definition zero_row_at (k : nat) (st : svd_st) (i : nat) : svd_st :=
  let '(B, U, V) := st in
  let cs := givens X (get X B i i) (get X B k i) in
  let B1 := giv_rows X (C05.Corr.bidiag_left_sel (ncols B) i k) B (fst cs) (snd cs) i k in
  (set2 B1 k i zero', opt_right U (fst cs) (snd cs) i k, V).
Definition zero_row (n k : nat) (st : svd_st) : svd_st :=
  fold_left (zero_row_at k) (seq (S k) (n - S k)) st.

(* `for k := p; k < n-q-1; k++ { if B[k,k] == 0 { zeroRow ; t = false } }` *)
Definition zero_rows_at (n : nat) (acc : svd_st * bool) (k : nat) : svd_st * bool :=
  let '(st, t) := acc in
  if eqb N (get X (fst (fst st)) k k) zero' then (zero_row n k st, false) else (st, t).

Definition svd_outer (eps : A) (n : nat) (sq : svd_st * nat) : svd_st * nat :=
  let '((B, U, V), q) := sq in
  let B1 := svd_defl_pass eps n B in
  let '(p, q1) := split_sym B1 n q in
  if Nat.ltb q1 (n - 1) then
    let '(st2, t) := fold_left (zero_rows_at n) (seq p (n - q1 - 1 - p)) ((B1, U, V), true) in
    if t then
      let '(B2, U2, V2) := st2 in
      let nn := (n - q1 - p)%nat in
      let '(Bb, U3, V3) := gk_sweep p nn (block B2 p (n - q1) p (n - q1)) U2 V2 in
      ((put_block B2 p p Bb, U3, V3), q1)
    else (st2, q1)
  else ((B1, U, V), q1).

Fixpoint svd_loop (fuel : nat) (eps : A) (n : nat) (sq : svd_st * nat) : svd_st * bool :=
  let '(st, q) := sq in
  if Nat.ltb q n then
    match fuel with
    | O => (st, false)
    | S f => svd_loop f eps n (svd_outer eps n sq)
    end
  else (st, true).

Definition negcol (M : mat') (i : nat) : mat' :=
  map (fun row => set_nth row i (neg N (nth i row zero'))) M.
Definition flip_at (st : svd_st) (i : nat) : svd_st :=
  let '(B, U, V) := st in
  if ltb N (get X B i i) zero' then
    (set2 B i i (neg N (get X B i i)), U, match V with None => None | Some Vm => Some (negcol Vm i) end)
  else st.
Definition flip_signs (n : nat) (st : svd_st) : svd_st := fold_left flip_at (seq 0 n) st.

(* svd.Run on an m x n input, m >= n; the first factor is the full m x n matrix H whose upper
   n x n block is B (as returned by the library) *)
Definition gksvd (fuel : nat) (eps : A) (cu cv : bool) (Am : mat') : svd_st * bool :=
  let n := ncols Am in
  let '(H0, U0, V0) := bidiag2 X cu cv Am in
  let '(st, conv) := svd_loop fuel eps n ((block H0 0 n 0 n, U0, V0), 0%nat) in
  let '(B, U, V) := if conv then flip_signs n st else st in
  ((put_block H0 0 0 B, U, V), conv).

(* ================================================================== *)
(* 3. unsymmetric QR algorithm (qrAlgorithm): Francis double-shift steps, then single-shift
      QRsteps on the remaining real 2x2 blocks                                             *)

Definition fr_defl_at (eps : A) (H : mat') (i : nat) : mat' :=
  if negligible eps (get X H i i) (get X H (S i) i) (get X H (S i) (S i))
  then set2 H (S i) i zero' else H.
Definition fr_defl_pass (eps : A) (n : nat) (H : mat') : mat' :=
  fold_left (fr_defl_at eps) (seq 0 (n - 1)) H.

(* splitMatrix of qrAlgorithm.go:
     for i := q; i < n-1; i++ { if h[n-i-1,n-i-2] == 0 { q = i+1 } ; if i > q { break } ;
                                if i == n-2 { q = i+2 } }                                   *)
Fixpoint fr_split_q (fuel : nat) (H : mat') (n i q : nat) : nat :=
  match fuel with
  | O => q
  | S f =>
      if Nat.ltb i (n - 1) then
        let q1 := if eqb N (get X H (n - i - 1) (n - i - 2)) zero' then S i else q in
        if Nat.ltb q1 i then q1
        else fr_split_q f H n (S i) (if Nat.eqb i (n - 2) then (i + 2)%nat else q1)
      else q
  end.
(* for p > 0 { if h[p,p-1] != 0 { p -= 1 } else { break } } *)
Fixpoint fr_split_p (fuel : nat) (H : mat') (p : nat) : nat :=
  match fuel with
  | O => p
  | S f =>
      match p with
      | O => O
      | S p' => if negb (eqb N (get X H p p') zero') then fr_split_p f H p' else p
      end
  end.
Definition fr_split (H : mat') (n q : nat) : nat * nat :=
  let q1 := fr_split_q n H n q q in
  (fr_split_p n H (n - q1 - 2), q1).

Definition opt_house_right (M : option mat') (n r0 len : nat) (beta : A) (nu : list A) : option mat' :=
  match M with
  | None => None
  | Some Um => Some (put_block Um 0 r0 (house_right X (block Um 0 n r0 (r0 + len)) beta nu))
  end.

(* the vector handed to householder.Run in reflector k of a Francis step on the block
   H22 = H[p..p+nn): the shift polynomial for k = 0, the bulge column afterwards (two entries
   for the closing reflector k = nn-2) *)
Definition francis_x (H22 : mat') (nn k : nat) : list A :=
  match k with
  | O =>
      let a11 := get X H22 (nn - 2) (nn - 2) in let a12 := get X H22 (nn - 2) (nn - 1) in
      let a21 := get X H22 (nn - 1) (nn - 2) in let a22 := get X H22 (nn - 1) (nn - 1) in
      let s := add N a11 a22 in
      let t := sub N (mul N a11 a22) (mul N a12 a21) in
      let h11 := get X H22 0 0 in let h12 := get X H22 0 1 in
      let h21 := get X H22 1 0 in let h22 := get X H22 1 1 in
      [ add N (sub N (add N (mul N h11 h11) (mul N h12 h21)) (mul N s h11)) t;
        mul N (sub N (add N h11 h22) s) h21;
        mul N h21 (get X H22 2 1) ]
  | S k' =>
      get X H22 k k' :: get X H22 (S k) k' ::
      (if Nat.ltb (k + 2) nn then [get X H22 (k + 2) k'] else [])
  end.

(* reflector k (0 <= k <= nn-2) of francisQRstep: rows r0..r0+len from column cL on (H22 and
   H23 together), then columns r0..r0+len of the rows 0..p+nn (H12 and H22 together), then U *)
Definition francis_refl (n p nn k : nat) (st : mat' * option mat') : mat' * option mat' :=
  let '(H, U) := st in
  let x := francis_x (block H p (p + nn) p (p + nn)) nn k in
  let bn := house X x in
  let beta := fst bn in let nu := snd bn in
  let len := length x in
  let r0 := (p + k)%nat in
  let cL := (p + Nat.max 1 k - 1)%nat in
  let H1 := put_block H r0 cL (house_left X (block H r0 (r0 + len) cL n) beta nu) in
  let H2 := put_block H1 0 r0 (house_right X (block H1 0 (p + nn) r0 (r0 + len)) beta nu) in
  (H2, opt_house_right U n r0 len beta nu).

Definition francis_sweep (n p nn : nat) (st : mat' * option mat') : mat' * option mat' :=
  iter_steps (francis_refl n p nn) 0 (nn - 1) st.

Definition fr_outer (eps : A) (n : nat) (st : mat' * option mat' * nat) : mat' * option mat' * nat :=
  let '(H, U, q) := st in
  let H1 := fr_defl_pass eps n H in
  let '(p, q1) := fr_split H1 n q in
  if Nat.ltb q1 (n - 1) then
    let '(H2, U2) := francis_sweep n p (n - q1 - p) (H1, U) in (H2, U2, q1)
  else (H1, U, q1).

Fixpoint fr_loop (fuel : nat) (eps : A) (n : nat) (st : mat' * option mat' * nat) : mat' * option mat' * bool :=
  let '(H, U, q) := st in
  if Nat.ltb q (n - 1) then
    match fuel with
    | O => (H, U, false)
    | S f => fr_loop f eps n (fr_outer eps n st)
    end
  else (H, U, true).

(* QRstep(h, u, i, n-i-2): single-shift QR step on the 2x2 block at i *)
Definition qr2_step (i : nat) (st : mat' * option mat') : mat' * option mat' :=
  let '(H, U) := st in
  let t3 := get X H (S i) (S i) in
  let H0 := set2 (set2 H i i (sub N (get X H i i) t3)) (S i) (S i) (sub N t3 t3) in
  let cs := givens X (get X H0 i i) (get X H0 (S i) i) in
  let c := fst cs in let s := snd cs in
  let H1 := giv_rows X (fun j => Nat.leb i j) H0 c s i (S i) in
  let H2 := giv_cols X (fun j => Nat.ltb j (i + 2)) H1 c s i (S i) in
  let H3 := set2 (set2 H2 i i (add N (get X H2 i i) t3)) (S i) (S i) (add N (get X H2 (S i) (S i)) t3) in
  (H3, opt_right U c s i (S i)).

(* `for { if negligible { h[i+1,i] = 0 ; break } else { QRstep } }` *)
Fixpoint qr2_loop (fuel : nat) (eps : A) (i : nat) (st : mat' * option mat') : mat' * option mat' * bool :=
  let '(H, U) := st in
  if negligible eps (get X H i i) (get X H (S i) i) (get X H (S i) (S i))
  then (set2 H (S i) i zero', U, true)
  else match fuel with
       | O => (H, U, false)
       | S f => qr2_loop f eps i (qr2_step i st)
       end.

(* (h11-h22)*(h11-h22) + 4*h12*h21 < 0 : complex pair, the block is left alone *)
Definition complex_pair (H : mat') (i : nat) : bool :=
  let h11 := get X H i i in let h12 := get X H i (S i) in
  let h21 := get X H (S i) i in let h22 := get X H (S i) (S i) in
  ltb N (add N (mul N (sub N h11 h22) (sub N h11 h22)) (mul N (mul N four h12) h21)) zero'.

Definition blocks_at (fuel : nat) (eps : A) (acc : mat' * option mat' * bool) (i : nat) : mat' * option mat' * bool :=
  let '(H, U, ok) := acc in
  if negb ok then acc
  else if eqb N (get X H (S i) i) zero' then acc
  else if complex_pair H i then acc
  else qr2_loop fuel eps i (H, U).

Definition francis (fuel : nat) (eps : A) (cu : bool) (Am : mat') : mat' * option mat' * bool :=
  let n := length Am in
  let '(H0, U0) := hessenberg X true cu Am in
  let '(H1, U1, conv) := fr_loop fuel eps n (H0, U0, 0%nat) in
  if conv then fold_left (blocks_at fuel eps) (seq 0 (n - 1)) (H1, U1, true)
  else (H1, U1, false).

End Iter.
