(* C05 — Hessenberg reduction: for every n and every square A the model of
   hessenbergReduction returns H, U with U orthogonal, U H U^T = A and H upper
   Hessenberg (with and without the SetZero option).  Induction over the
   elimination index; each step is H <- P H P, U <- U P for the embedded
   Householder reflector P of the current column. *)
From Coq Require Import Reals List Lia Lra Bool.
From ADV Require Import Base.Num C05.Model C05.Spec C05.ProofsBase C05.ProofsHouse C05.ProofsHouse2
                        C05.ProofsBlock C05.ProofsTrace.
Import ListNotations.
Open Scope R_scope.

(* ---------- set_nth ---------- *)
Lemma set_nth_length {T} (l : list T) i x : length (set_nth l i x) = length l.
Proof.
  unfold set_nth. rewrite app_length, firstn_length.
  destruct (skipn i l) as [|y t] eqn:E.
  - assert (H := skipn_length i l). rewrite E in H. simpl in *. lia.
  - assert (H := skipn_length i l). rewrite E in H. simpl in *. lia.
Qed.

Lemma skipn_cons_tail {T} (l : list T) i y t : skipn i l = y :: t -> t = skipn (S i) l.
Proof.
  revert l. induction i as [|i IH]; intros l E.
  - simpl in E. subst l. reflexivity.
  - destruct l as [|a l]; [discriminate|]. simpl in E. apply IH in E. exact E.
Qed.

Lemma set_nth_nth (l : list R) i x j : (i < length l)%nat ->
  nth j (set_nth l i x) 0 = if Nat.eqb j i then x else nth j l 0.
Proof.
  intro Hi. unfold set_nth.
  destruct (skipn i l) as [|y t] eqn:E.
  { assert (H := skipn_length i l). rewrite E in H. simpl in H. lia. }
  destruct (Nat.lt_ge_cases j i) as [Hlt|Hge].
  - rewrite app_nth1 by (rewrite firstn_length; lia).
    assert (E' : Nat.eqb j i = false) by (apply Nat.eqb_neq; lia). rewrite E'.
    apply nth_firstn_lt. exact Hlt.
  - rewrite app_nth2 by (rewrite firstn_length; lia). rewrite firstn_length, Nat.min_l by lia.
    destruct (Nat.eqb j i) eqn:E'.
    + apply Nat.eqb_eq in E'. subst. rewrite Nat.sub_diag. reflexivity.
    + apply Nat.eqb_neq in E'. destruct (j - i)%nat as [|d] eqn:Ed; [lia|].
      simpl. assert (Ht : t = skipn (S i) l) by (apply (skipn_cons_tail l i y t E)).
      rewrite Ht, nth_skipn_add. f_equal. lia.
Qed.

(* the SetZero loop: entries (i, k), i > k+1, are overwritten by 0 *)
Lemma setzero_G n k (M : rmat) i j : dims n n M -> (i < n)%nat -> (k < n)%nat ->
  G (map2 (fun i row => if Nat.ltb (S k) i then set_nth row k (zero (nx XR)) else row) (seq 0 n) M) i j =
  if (Nat.ltb (S k) i && Nat.eqb j k)%bool then 0 else G M i j.
Proof.
  intros HM Hi Hk. unfold G at 1. pose proof HM as (Hl & _).
  rewrite (map2_nth _ (seq 0 n) M i O [] []) by (rewrite ?seq_length; lia).
  rewrite seq_nth by exact Hi. simpl.
  destruct (Nat.ltb (S k) i); simpl; [|reflexivity].
  rewrite set_nth_nth by (rewrite (dims_row n n M i HM Hi); exact Hk). reflexivity.
Qed.

Lemma setzero_dims n k (M : rmat) : dims n n M ->
  dims n n (map2 (fun i row => if Nat.ltb (S k) i then set_nth row k (zero (nx XR)) else row) (seq 0 n) M).
Proof.
  intros HM. pose proof HM as (Hl & _). apply dims_intro.
  - rewrite map2_length, seq_length, Hl. apply Nat.min_id.
  - intros i Hi. rewrite (map2_nth _ (seq 0 n) M i O [] []) by (rewrite ?seq_length; lia).
    destruct (Nat.ltb (S k) (nth i (seq 0 n) O)); rewrite ?set_nth_length; apply (dims_row n n M i HM Hi).
Qed.

(* ---------- one elimination step ---------- *)
Definition hess_cols (k : nat) (H : rmat) : Prop :=
  forall i j, (j < k)%nat -> (j + 1 < i)%nat -> G H i j = 0.

Lemma skipn_col_nth n (H : rmat) k a : dims n n H -> (S k + a < n)%nat ->
  nth a (skipn (S k) (col XR k H)) 0 = G H (S k + a) k.
Proof. intros HH Ha. rewrite nth_skipn_add. apply (col_nth n n H k); [exact HH|exact Ha]. Qed.

Lemma hess_step_spec (sz : bool) n k (H U : rmat) :
  dims n n H -> dims n n U -> (k + 2 <= n)%nat -> hess_cols k H ->
  exists (P : fmatR) (H' U' : rmat),
    hess_step XR sz n k (H, Some U) = (H', Some U') /\
    orth n P /\ dims n n H' /\ dims n n U' /\
    meq n n (G H') (mmul n (tr P) (mmul n (G H) P)) /\
    meq n n (G U') (mmul n (G U) P) /\
    hess_cols (S k) H'.
Proof.
  intros HH HU Hk Hst.
  set (x := skipn (S k) (col XR k H)).
  assert (Hxl : length x = (n - S k)%nat).
  { unfold x. rewrite skipn_length, col_length. destruct HH as (-> & _). reflexivity. }
  destruct x as [|x0 xt] eqn:Ex; [simpl in Hxl; lia|].
  destruct (house_reflects x0 xt) as (Hnl & Hval & Hrest & _ & _).
  cbv zeta in Hnl, Hval, Hrest.
  set (beta := fst (house XR (x0 :: xt))) in *.
  set (nu := snd (house XR (x0 :: xt))) in *.
  assert (Hhouse : house XR (x0 :: xt) = (beta, nu)) by (unfold beta, nu; destruct (house XR (x0 :: xt)); reflexivity).
  assert (Hnul : length nu = (n - S k)%nat) by (rewrite Hnl; exact Hxl).
  change (length (x0 :: xt)) with (length (x0 :: xt)) in Hrest.
  rewrite Hxl in Hval, Hrest.
  set (P := refl beta (zeros XR (S k) ++ nu)).
  assert (HP : orth n P).
  { apply refl_orth. destruct Hval as [Hb|Hb]; [left; exact Hb|right].
    replace n with (S k + (n - S k))%nat at 1 by lia. rewrite dot_pad. exact Hb. }
  (* entries of x *)
  assert (Hxv : forall a, (S k + a < n)%nat -> V (x0 :: xt) a = G H (S k + a) k).
  { intros a Ha. unfold V. rewrite <- Ex. apply (skipn_col_nth n H k a HH Ha). }
  (* H1 = P H *)
  set (blk := block H (S k) n k n).
  assert (Hblk : dims (n - S k) (n - k) blk) by (apply (block_dims n n); [exact HH|lia|lia]).
  destruct (house_left_index (n - S k) (n - k) blk beta nu Hblk Hnul) as (HdL & HgL).
  set (H1 := put_block H (S k) k (house_left XR blk beta nu)).
  assert (HH1 : dims n n H1) by (apply (put_block_dims n n H _ (n - S k) (n - k)); [exact HH|exact HdL|lia|lia]).
  assert (L1 : forall i j, (i < n)%nat -> (j < n)%nat -> G H1 i j = mmul n P (G H) i j).
  { intros i j Hi Hj. unfold H1.
    rewrite (put_block_G n n H _ (n - S k) (n - k) (S k) k i j HH HdL) by lia.
    unfold mmul, P. rewrite (refl_pad_left_sum beta (S k) n nu (fun a => G H a j) i) by lia.
    destruct (Nat.ltb i (S k)) eqn:Ei.
    - apply Nat.ltb_lt in Ei. assert (E : Nat.leb (S k) i = false) by (apply Nat.leb_gt; exact Ei).
      rewrite E. reflexivity.
    - apply Nat.ltb_ge in Ei.
      assert (E1 : Nat.leb (S k) i = true) by (apply Nat.leb_le; exact Ei).
      assert (E2 : Nat.ltb i (S k + (n - S k)) = true) by (apply Nat.ltb_lt; lia).
      assert (E4 : Nat.ltb j (k + (n - k)) = true) by (apply Nat.ltb_lt; lia).
      rewrite E1, E2, E4. cbn [andb].
      destruct (Nat.leb k j) eqn:E3; cbn [andb].
      + apply Nat.leb_le in E3. rewrite HgL by lia.
        apply sum_n_ext. intros a Ha. unfold blk.
        rewrite (block_G n n H (S k) n k n a (j - k) HH) by lia.
        do 2 f_equal. lia.
      + apply Nat.leb_gt in E3. rewrite (Hst i j) by lia.
        symmetry. apply sum_n_zero. intros a Ha. cbv beta. rewrite (Hst _ j) by lia. ring. }
  (* H2 = H1 P *)
  set (blk2 := block H1 0 n (S k) n).
  assert (Hblk2 : dims (n - 0) (n - S k) blk2) by (apply (block_dims n n); [exact HH1|lia|lia]).
  rewrite Nat.sub_0_r in Hblk2.
  destruct (house_right_index n (n - S k) blk2 beta nu Hblk2 Hnul) as (HdR & HgR).
  set (H2 := put_block H1 0 (S k) (house_right XR blk2 beta nu)).
  assert (HH2 : dims n n H2) by (apply (put_block_dims n n H1 _ n (n - S k)); [exact HH1|exact HdR|lia|lia]).
  assert (L2 : forall i j, (i < n)%nat -> (j < n)%nat -> G H2 i j = sum_n (fun b => G H1 i b * P b j) n).
  { intros i j Hi Hj. unfold H2.
    rewrite (put_block_G n n H1 _ n (n - S k) 0 (S k) i j HH1 HdR) by lia.
    unfold P. rewrite (refl_pad_right_sum beta (S k) n nu (fun b => G H1 i b) j) by lia.
    assert (E1 : Nat.leb 0 i = true) by reflexivity.
    assert (E2 : Nat.ltb i (0 + n) = true) by (apply Nat.ltb_lt; lia).
    assert (E4 : Nat.ltb j (S k + (n - S k)) = true) by (apply Nat.ltb_lt; lia).
    rewrite E1, E2, E4. cbn [andb].
    destruct (Nat.leb (S k) j) eqn:E; cbn [andb].
    - apply Nat.leb_le in E. assert (Ej : Nat.ltb j (S k) = false) by (apply Nat.ltb_ge; exact E).
      rewrite Ej. rewrite Nat.sub_0_r. rewrite HgR by lia.
      apply sum_n_ext. intros b Hb. unfold blk2.
      rewrite (block_G n n H1 0 n (S k) n i b HH1) by lia. reflexivity.
    - apply Nat.leb_gt in E. assert (Ej : Nat.ltb j (S k) = true) by (apply Nat.ltb_lt; exact E).
      rewrite Ej. reflexivity. }
  (* column k of H2 below the subdiagonal is exactly zero: (P x)_i = 0 *)
  assert (Hcolk : forall i, (S k < i)%nat -> (i < n)%nat -> G H2 i k = 0).
  { intros i Hi1 Hi2. rewrite L2 by lia. unfold P.
    rewrite (refl_pad_right_sum beta (S k) n nu (fun b => G H1 i b) k) by lia.
    assert (E : Nat.ltb k (S k) = true) by (apply Nat.ltb_lt; lia). rewrite E.
    rewrite L1 by lia. unfold mmul, P.
    rewrite (refl_pad_left_sum beta (S k) n nu (fun a => G H a k) i) by lia.
    assert (E' : Nat.ltb i (S k) = false) by (apply Nat.ltb_ge; lia). rewrite E'.
    rewrite <- (Hrest (i - S k)%nat) by lia. unfold refl_apply.
    apply sum_n_ext. intros a Ha. rewrite Hxv by lia. reflexivity. }
  set (H3 := if sz then map2 (fun i row => if Nat.ltb (S k) i then set_nth row k (zero (nx XR)) else row) (seq 0 n) H2 else H2).
  assert (HH3 : dims n n H3) by (unfold H3; destruct sz; [apply setzero_dims; exact HH2|exact HH2]).
  assert (L3 : forall i j, (i < n)%nat -> (j < n)%nat -> G H3 i j = G H2 i j).
  { intros i j Hi Hj. unfold H3. destruct sz; [|reflexivity].
    rewrite setzero_G by (try exact HH2; lia).
    destruct (Nat.ltb (S k) i) eqn:E1; simpl; [|reflexivity].
    destruct (Nat.eqb j k) eqn:E2; [|reflexivity].
    apply Nat.ltb_lt in E1. apply Nat.eqb_eq in E2. subst j. symmetry. apply Hcolk; assumption. }
  (* U' = U P *)
  assert (Hpl : length (zeros XR (S k) ++ nu) = n) by (rewrite app_length, zeros_length, Hnul; lia).
  destruct (house_right_index n n U beta (zeros XR (S k) ++ nu) HU Hpl) as (HdU & HgU).
  exists P, H3, (house_right XR U beta (zeros XR (S k) ++ nu)).
  split.
  { unfold hess_step. fold x. rewrite Ex, Hhouse. reflexivity. }
  split; [exact HP|]. split; [exact HH3|]. split; [exact HdU|]. split; [|split].
  - intros i j Hi Hj. rewrite L3, L2 by assumption.
    transitivity (mmul n (mmul n P (G H)) P i j).
    { unfold mmul at 1. apply sum_n_ext. intros b Hb. rewrite L1 by assumption. reflexivity. }
    rewrite mmul_assoc. apply mmul_ext_all; [|reflexivity].
    intros a b. unfold tr, P. apply refl_symmetric.
  - intros i j Hi Hj. rewrite HgU by assumption. reflexivity.
  - intros i j Hj Hi. destruct (Nat.lt_ge_cases i n) as [Hin|Hin].
    2:{ apply G_out_row. destruct HH3 as (-> & _). exact Hin. }
    rewrite L3 by lia. destruct (Nat.eq_dec j k) as [->|Hne].
    + apply Hcolk; lia.
    + rewrite L2 by lia. unfold P.
      rewrite (refl_pad_right_sum beta (S k) n nu (fun b => G H1 i b) j) by lia.
      assert (E : Nat.ltb j (S k) = true) by (apply Nat.ltb_lt; lia). rewrite E.
      rewrite L1 by lia. unfold mmul, P.
      rewrite (refl_pad_left_sum beta (S k) n nu (fun a => G H a j) i) by lia.
      destruct (Nat.ltb i (S k)) eqn:Ei.
      * apply Hst; lia.
      * apply sum_n_zero. intros a Ha. cbv beta. rewrite (Hst _ j) by lia. ring.
Qed.

(* ---------- the whole reduction ---------- *)
Lemma uhut_congr n H1 H2 U1 U2 :
  meq n n H1 H2 -> meq n n U1 U2 -> meq n n (uhut n (H1, U1)) (uhut n (H2, U2)).
Proof.
  intros HH HU. unfold uhut. cbn [fst snd].
  apply (mmul_congr n n n); [exact HU|].
  apply (mmul_congr n n n); [exact HH|]. apply meq_tr. exact HU.
Qed.

Definition hess_inv (n : nat) (A : rmat) (k : nat) (H U : rmat) : Prop :=
  dims n n H /\ dims n n U /\ orth n (G U) /\ meq n n (uhut n (G H, G U)) (G A) /\ hess_cols k H.

Lemma hess_inv_step sz n A k H U :
  (k + 2 <= n)%nat -> hess_inv n A k H U ->
  exists H' U', hess_step XR sz n k (H, Some U) = (H', Some U') /\ hess_inv n A (S k) H' U'.
Proof.
  intros Hk (HH & HU & HO & HA & Hc).
  destruct (hess_step_spec sz n k H U HH HU Hk Hc) as (P & H' & U' & E & HP & HH' & HU' & EH & EU & Hc').
  exists H', U'. split; [exact E|]. split; [exact HH'|]. split; [exact HU'|]. split; [|split].
  - apply (orth_meq n (mmul n (G U) P)); [apply meq_sym; exact EU|]. apply orth_mmul; assumption.
  - apply meq_trans with (uhut n (qr_step n (Sim P) (G H, G U))).
    + unfold qr_step. cbn [fst snd]. apply uhut_congr; assumption.
    + apply meq_trans with (uhut n (G H, G U)); [|exact HA]. apply qr_step_invariant. exact HP.
  - exact Hc'.
Qed.

Lemma hess_inv_run sz n A cnt : forall k H U,
  (k + cnt + 2 <= n)%nat \/ cnt = O -> hess_inv n A k H U ->
  exists H' U', iter_steps (hess_step XR sz n) k cnt (H, Some U) = (H', Some U') /\
                hess_inv n A (k + cnt) H' U'.
Proof.
  induction cnt as [|cnt IH]; intros k H U Hk Hinv.
  - exists H, U. rewrite Nat.add_0_r. split; [reflexivity|exact Hinv].
  - destruct Hk as [Hk|Hk]; [|discriminate].
    destruct (hess_inv_step sz n A k H U ltac:(lia) Hinv) as (H1 & U1 & E1 & Hinv1).
    destruct (IH (S k) H1 U1 ltac:(left; lia) Hinv1) as (H' & U' & E' & Hinv').
    exists H', U'. split.
    + cbn [iter_steps]. rewrite E1. exact E'.
    + replace (k + S cnt)%nat with (S k + cnt)%nat by lia. exact Hinv'.
Qed.

(* hessenbergReduction.Run (ComputeU, with or without SetZero), every n, every A:
   U is orthogonal, U H U^T = A, H is upper Hessenberg *)
Theorem hessenberg_sound (sz : bool) (A : rmat) (n : nat) :
  dims n n A ->
  exists H U, hessenberg XR sz true A = (H, Some U) /\
    dims n n H /\ dims n n U /\
    (forall i j, (i < n)%nat -> (j < n)%nat -> sum_n (fun k => G U k i * G U k j) n = delta i j) /\
    (forall i j, (i < n)%nat -> (j < n)%nat ->
       sum_n (fun a => G U i a * sum_n (fun b => G H a b * G U j b) n) n = G A i j) /\
    (forall i j, (j + 1 < i)%nat -> G H i j = 0).
Proof.
  intro HA. unfold hessenberg. pose proof HA as (Hl & _). rewrite Hl.
  assert (Hinit : hess_inv n A 0 A (ident XR n)).
  { split; [exact HA|]. split; [apply dims_ident|]. split; [|split].
    - apply (orth_meq n delta); [apply meq_sym; apply G_ident|apply orth_delta].
    - apply meq_trans with (uhut n (G A, delta)).
      + apply uhut_congr; [apply meq_refl|apply G_ident].
      + unfold uhut. cbn [fst snd]. intros i j Hi Hj.
        rewrite (mmul_delta_l n n _ i j Hi Hj).
        rewrite (mmul_ext_all n (G A) (G A) (tr delta) delta (fun _ _ => eq_refl) tr_delta).
        apply (mmul_delta_r n n (G A)); assumption.
    - intros i j Hj. lia. }
  destruct (hess_inv_run sz n A (n - 2) 0 A (ident XR n)) as (H & U & E & HH & HU & (HO1 & _) & HR & Hc).
  { destruct (Nat.le_gt_cases 2 n); [left; lia|right; lia]. }
  { exact Hinit. }
  exists H, U. split; [exact E|]. split; [exact HH|]. split; [exact HU|]. split; [|split].
  - intros i j Hi Hj. apply (HO1 i j Hi Hj).
  - intros i j Hi Hj. apply (HR i j Hi Hj).
  - intros i j Hij. simpl in Hc.
    destruct (Nat.lt_ge_cases i n) as [Hi|Hi].
    + apply Hc; lia.
    + apply G_out_row. destruct HH as (-> & _). exact Hi.
Qed.
