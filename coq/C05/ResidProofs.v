(* C05 ResidProofs — placeholder, filled below *)
