(* C05 — the residual checker says what it should: [dclose] is the pointwise
   statement, and the dyadic operations are exact with respect to the integer
   reading  (m, e) |-> m * 2^e  (shown here for a common exponent). *)
From Coq Require Import List ZArith Bool Lia.
From ADV Require Import C05.Resid.
Import ListNotations.
Open Scope Z_scope.

Lemma dclose_sound (r c : nat) (P Q : dmat) (tol : dy) :
  dclose r c P Q tol = true ->
  forall i j, (i < r)%nat -> (j < c)%nat -> dle (dabs (dsub (dget P i j) (dget Q i j))) tol = true.
Proof.
  unfold dclose. intros H i j Hi Hj.
  rewrite forallb_forall in H. specialize (H i). rewrite forallb_forall in H.
  apply H; apply in_seq; lia.
Qed.

(* value of a dyadic pair scaled to a common (smaller) exponent e0: an integer *)
Definition dval (e0 : Z) (a : dy) : Z := fst a * 2 ^ (snd a - e0).

Lemma dadd_exact (a b : dy) (e0 : Z) :
  e0 <= snd a -> e0 <= snd b -> dval e0 (dadd a b) = dval e0 a + dval e0 b.
Proof.
  destruct a as [m1 e1], b as [m2 e2]. unfold dval, dadd. simpl. intros H1 H2.
  destruct (e1 <=? e2) eqn:E; simpl.
  - apply Z.leb_le in E. rewrite Z.shiftl_mul_pow2 by lia.
    rewrite Z.mul_add_distr_r. f_equal. rewrite <- Z.mul_assoc. f_equal.
    rewrite <- Z.pow_add_r by lia. f_equal. lia.
  - apply Z.leb_gt in E. rewrite Z.shiftl_mul_pow2 by lia.
    rewrite Z.mul_add_distr_r. f_equal. rewrite <- Z.mul_assoc. f_equal.
    rewrite <- Z.pow_add_r by lia. f_equal. lia.
Qed.

Lemma dmul_exact (a b : dy) (e0 e1 : Z) :
  e0 <= snd a -> e1 <= snd b -> dval (e0 + e1) (dmul a b) = dval e0 a * dval e1 b.
Proof.
  destruct a as [m1 ea], b as [m2 eb]. unfold dval, dmul. simpl. intros H1 H2.
  replace (ea + eb - (e0 + e1)) with ((ea - e0) + (eb - e1)) by lia.
  rewrite Z.pow_add_r by lia. ring.
Qed.

Lemma dle_exact (a b : dy) (e0 : Z) :
  e0 <= snd a -> e0 <= snd b -> (dle a b = true <-> dval e0 a <= dval e0 b).
Proof.
  intros H1 H2. unfold dle.
  assert (E : dval e0 (dsub b a) = dval e0 b - dval e0 a).
  { unfold dsub. rewrite dadd_exact; auto. unfold dval, dneg. simpl. ring. }
  rewrite Z.leb_le.
  assert (Hs : e0 <= snd (dsub b a)).
  { unfold dsub, dadd, dneg. destruct b as [mb eb], a as [ma ea]. simpl in *. destruct (eb <=? ea); simpl; lia. }
  unfold dval in E at 1.
  assert (Hp : 0 < 2 ^ (snd (dsub b a) - e0)) by (apply Z.pow_pos_nonneg; lia).
  split; intro H; nia.
Qed.
