(* C05 — round 6, part 2: an eigenvector of H transported by the orthogonal accumulator and
   normalised (getEigenvector: `eigenvector.MdotV(u, b) ; Vnorm ; VdivS`) is a unit eigenvector
   of A = U H U^T; the whole getEigenvector step; getEigenvalues. *)
From Coq Require Import Reals List Lia Lra Bool.
From ADV Require Import Base.Num C05.Model C05.Spec C05.ProofsBase C05.ProofsHouse C05.ProofsHouse2
                        C05.ProofsBlock C05.ProofsTrace C05.ProofsHess C05.ProofsGS
                        C05.ModelIter C05.ModelEig C05.ProofsEig.
Import ListNotations.
Open Scope R_scope.

Lemma normalize_nth (v : list R) i : nth i (normalize XR v) 0 = nth i v 0 / vnorm XR v.
Proof. exact (nth_gq v i). Qed.

Lemma normalize_length (v : list R) : length (normalize XR v) = length v.
Proof. unfold normalize. apply map_length. Qed.

Section Transport.
Variables (n : nat) (Hm Um Am : rmat) (xx : list R) (lam : R).
Hypothesis HU : dims n n Um.
Hypothesis Hxx : length xx = n.
Hypothesis Horth : orth n (G Um).
Hypothesis Hsim : meq n n (uhut n (G Hm, G Um)) (G Am).
Hypothesis Heig : forall i, (i < n)%nat -> sum_n (fun j => G Hm i j * V xx j) n = lam * V xx i.
Hypothesis Hnz : exists k, (k < n)%nat /\ V xx k <> 0.

Let v := mdotv XR Um xx.
Let X : fmatR := fun i _ => V xx i.
Let Uf := G Um.
Let Hf := G Hm.

Lemma v_length : length v = n.
Proof. unfold v, mdotv. rewrite map_length. destruct HU as (Hl & _). exact Hl. Qed.

Lemma v_nth i : (i < n)%nat -> V v i = mmul n Uf X i 0%nat.
Proof. intro Hi. unfold V, v. rewrite (mdotv_nth n n Um xx i HU Hi). reflexivity. Qed.

Lemma UtUX : meq n 1 (mmul n (tr Uf) (mmul n Uf X)) X.
Proof.
  apply (meq_trans n 1 _ (mmul n (mmul n (tr Uf) Uf) X)).
  { apply meq_sym. apply mmul_assoc_meq. }
  apply (meq_trans n 1 _ (mmul n delta X)).
  { apply (mmul_congr n n 1); [exact (proj1 Horth)|apply meq_refl]. }
  apply mmul_delta_l.
Qed.

Lemma A_v : meq n 1 (mmul n (G Am) (mmul n Uf X)) (fun i _ => lam * mmul n Uf X i 0%nat).
Proof.
  apply (meq_trans n 1 _ (mmul n (uhut n (Hf, Uf)) (mmul n Uf X))).
  { apply (mmul_congr n n 1); [apply meq_sym; exact Hsim|apply meq_refl]. }
  unfold uhut. cbn [fst snd].
  apply (meq_trans n 1 _ (mmul n Uf (mmul n (mmul n Hf (tr Uf)) (mmul n Uf X)))).
  { apply mmul_assoc_meq. }
  apply (meq_trans n 1 _ (mmul n Uf (fun i _ => lam * X i 0%nat))).
  { apply (mmul_congr n n 1); [apply meq_refl|].
    apply (meq_trans n 1 _ (mmul n Hf (mmul n (tr Uf) (mmul n Uf X)))).
    { apply mmul_assoc_meq. }
    apply (meq_trans n 1 _ (mmul n Hf X)).
    { apply (mmul_congr n n 1); [apply meq_refl|exact UtUX]. }
    intros i j Hi _. unfold mmul, X, Hf. apply Heig. exact Hi. }
  intros i j Hi _. unfold mmul.
  rewrite <- sum_n_scal. apply sum_n_ext. intros k _. ring.
Qed.

Lemma v_not_zero : vnorm XR v <> 0.
Proof.
  intro Hz. destruct Hnz as (k & Hk & Hxk). apply Hxk.
  change (V xx k) with (X k 0%nat).
  rewrite <- (UtUX k 0%nat Hk) by lia. unfold mmul at 1.
  apply sum_n_zero. intros i Hi. rewrite <- (v_nth i Hi). unfold V.
  rewrite (vnorm_zero v Hz i). lra.
Qed.

Let w := normalize XR v.

Theorem transported_eigenvector :
  length w = n /\
  (forall i, (i < n)%nat -> sum_n (fun j => G Am i j * V w j) n = lam * V w i) /\
  sum_n (fun i => V w i * V w i) n = 1.
Proof.
  pose proof v_not_zero as Hnrm.
  assert (Hw : forall i, V w i = V v i / vnorm XR v).
  { intro i. unfold V, w. apply normalize_nth. }
  split; [|split].
  - unfold w. rewrite normalize_length. exact v_length.
  - intros i Hi.
    rewrite (sum_n_ext _ (fun j => (G Am i j * mmul n Uf X j 0%nat) * / vnorm XR v)).
    2:{ intros j Hj. rewrite Hw, (v_nth j Hj). unfold Rdiv. ring. }
    rewrite sum_n_scal_r.
    change (sum_n (fun k => G Am i k * mmul n Uf X k 0%nat) n) with (mmul n (G Am) (mmul n Uf X) i 0%nat).
    rewrite (A_v i 0%nat Hi) by lia. rewrite Hw, (v_nth i Hi). unfold Rdiv. ring.
  - rewrite (sum_n_ext _ (fun i => (V v i * V v i) * (/ vnorm XR v * / vnorm XR v))).
    2:{ intros i _. rewrite Hw. unfold Rdiv. ring. }
    rewrite sum_n_scal_r.
    change (sum_n (fun k => V v k * V v k) n) with (dot n v v).
    rewrite <- v_length at 1. rewrite <- vnorm_sqr. field. exact Hnrm.
Qed.

End Transport.

(* ---------------------------------------------------------------------- *)
(* getEigenvector as a whole *)

(* over R the shift by lambda is undone exactly: h is left as it was found *)
Lemma shift_back_G n (H : rmat) k lam i j : dims n n H -> (i < n)%nat ->
  G (shift_diag XR Rplus (shift_diag XR Rminus H k lam) k lam) i j = G H i j.
Proof.
  intros HH Hi.
  rewrite (shift_diag_G n _ Rplus k lam i j (shift_diag_dims n H Rminus k lam HH) Hi).
  rewrite !(shift_diag_G n H Rminus k lam _ _ HH Hi).
  destruct (Nat.ltb i k) eqn:E1; cbn [andb]; [|reflexivity].
  rewrite Nat.eqb_refl. destruct (Nat.eqb j i) eqn:E2; [|reflexivity].
  apply Nat.eqb_eq in E2. subst j. lra.
Qed.

Theorem eig_vector_correct (n k : nat) (Hm Um Am : rmat) :
  dims n n Hm -> dims n n Um -> (k < n)%nat ->
  orth n (G Um) -> meq n n (uhut n (G Hm, G Um)) (G Am) ->
  (forall i j, (j < i)%nat -> (j <= k)%nat -> G Hm i j = 0) ->
  (forall i, (i < k)%nat -> G Hm i i <> G Hm k k) ->
  let r := eig_vector XR Hm Um (G Hm k k) k (repeat 0 (n - k - 1)) in
  (forall i j, (i < n)%nat -> G (fst r) i j = G Hm i j) /\
  length (snd r) = n /\
  (forall i, (i < n)%nat -> sum_n (fun j => G Am i j * V (snd r) j) n = G Hm k k * V (snd r) i) /\
  sum_n (fun i => V (snd r) i * V (snd r) i) n = 1.
Proof.
  intros HH HU Hk Horth Hsim Hut Hsep r.
  destruct (eig_x_eigenvector n k Hm HH Hk Hut Hsep) as (Hlen & Hxk & Heig).
  split.
  - intros i j Hi. unfold r, eig_vector. cbn [fst].
    exact (shift_back_G n Hm k (G Hm k k) i j HH Hi).
  - unfold r, eig_vector. cbn [snd].
    change (one (nx XR)) with 1.
    apply (transported_eigenvector n Hm Um Am _ (G Hm k k) HU Hlen Horth Hsim Heig).
    exists k. split; [exact Hk|]. rewrite Hxk. lra.
Qed.

(* ---------------------------------------------------------------------- *)
(* eigensystem.Run without ComputeEigenvectors (/repo 8cb1afe): whatever eigenvector buffer the
   InSitu still holds is ignored, and no eigenvectors are returned *)
Theorem eigensystem_novec_ignores_buffer fuel (eps : R) sym (Am : rmat) ev0 E0 :
  eigensystem XR fuel eps false sym Am ev0 E0 = eigensystem XR fuel eps false sym Am ev0 None /\
  forall vs ws H', eigensystem XR fuel eps false sym Am ev0 E0 = Some (vs, ws, H') -> ws = None.
Proof.
  unfold eigensystem.
  destruct (francis XR fuel eps false Am) as [[H U] conv].
  destruct conv; cbn [negb]; [|split; [reflexivity|discriminate]].
  destruct sym.
  - destruct E0 as [E1|]; destruct U as [Um|]; cbv zeta; (split; [reflexivity|]);
      unfold sort_eigensystem; intros vs ws H' Heq; injection Heq as _ Hw _; symmetry; exact Hw.
  - split; [reflexivity|].
    unfold sort_eigensystem. intros vs ws H' Heq. injection Heq as _ Hw _. symmetry. exact Hw.
Qed.

Lemma run_epsilon_requested (d e : R) : run_epsilon d (Some e) = e /\ run_epsilon d None = d.
Proof. split; reflexivity. Qed.
