(* C05 — Cholesky, completeness: on a positive definite matrix (one that has a
   Cholesky factor Gm with positive diagonal) the routine does not raise its
   error and returns exactly Gm; hence the error implies "not positive definite".
   Also: where the error is raised (first row with a negative pivot), and that the
   rows finished before it factor the leading block. *)
From Coq Require Import Reals List Lia Lra Bool Wf_nat.
From ADV Require Import Base.Num C05.Model C05.Spec C05.ProofsBase C05.ProofsChol.
Import ListNotations.
Open Scope R_scope.

(* ---------- list access ---------- *)
Lemma nth_firstn_lt {T} (l : list T) d : forall i k, (k < i)%nat -> nth k (firstn i l) d = nth k l d.
Proof.
  induction l as [|x l IH]; intros i k Hk.
  - rewrite firstn_nil. reflexivity.
  - destruct i as [|i]; [lia|]. destruct k as [|k]; simpl; [reflexivity|]. apply IH. lia.
Qed.

Lemma skipn_cons_nth {T} (d : T) : forall (l : list T) i, (i < length l)%nat ->
  skipn i l = nth i l d :: skipn (S i) l.
Proof.
  induction l as [|x l IH]; intros i Hi; simpl in Hi; [lia|].
  destruct i as [|i]; [reflexivity|].
  change (skipn (S i) (x :: l)) with (skipn i l). change (nth (S i) (x :: l) d) with (nth i l d).
  change (skipn (S (S i)) (x :: l)) with (skipn (S i) l). apply IH. lia.
Qed.

Lemma firstn_S_snoc {T} (d : T) : forall (l : list T) i, (i < length l)%nat ->
  firstn (S i) l = firstn i l ++ [nth i l d].
Proof.
  induction l as [|x l IH]; intros i Hi; simpl in Hi; [lia|].
  destruct i as [|i]; [reflexivity|].
  change (firstn (S (S i)) (x :: l)) with (x :: firstn (S i) l).
  rewrite (IH i) by lia. reflexivity.
Qed.

(* ---------- uniqueness of the factor, entry by entry ---------- *)
Lemma hcf_entry n A Gm i t : has_cholesky_factor n A Gm -> (t <= i)%nat -> (i < n)%nat ->
  G A i t = sum_n (fun k => G Gm i k * G Gm t k) t + G Gm i t * G Gm t t.
Proof.
  intros (_ & Hlow & _ & Hp) Hti Hi. rewrite <- (Hp i t) by lia. unfold LLt.
  rewrite (sum_n_cut _ (S t) n); [simpl; reflexivity | lia |].
  intros k Hk. rewrite (Hlow t k) by lia. lra.
Qed.

(* ---------- one row ---------- *)
Lemma chol_row_complete n A Gm i :
  dims n n A -> has_cholesky_factor n A Gm -> (i < n)%nat ->
  chol_row XR sqrt n (firstn i Gm) (nth i A []) = Some (nth i Gm []).
Proof.
  intros (HA & HAr) Hcf Hi.
  pose proof Hcf as ((HG & HGr) & Hlow & Hpos & _).
  assert (HLl : length (firstn i Gm) = i) by (rewrite firstn_length; lia).
  assert (Harl : length (nth i A []) = n) by (apply HAr; apply nth_In; lia).
  assert (HGl : length (nth i Gm []) = n) by (apply HGr; apply nth_In; lia).
  unfold chol_row.
  destruct (chol_off XR (firstn i Gm) (nth i A []) []) as [cur rest] eqn:E.
  apply chol_off_spec in E; [|lia]. destruct E as (Hl & Hr & _ & Ht).
  simpl in Hl, Ht. rewrite HLl in *.
  assert (Hcur : forall t, (t < i)%nat -> nth t cur 0 = G Gm i t).
  { intro t. induction t as [t IHt] using lt_wf_ind. intro Hti.
    rewrite (Ht t Hti). rewrite nth_firstn_lt by exact Hti.
    fold (G A i t). fold (G Gm t t).
    rewrite (sum_n_ext _ (fun k => G Gm i k * G Gm t k)).
    2:{ intros k Hk. rewrite IHt by lia. reflexivity. }
    rewrite (hcf_entry n A Gm i t Hcf) by lia.
    assert (0 < G Gm t t) by (apply Hpos; lia). field. lra. }
  assert (Hhd : hd 0 rest = G A i i).
  { rewrite Hr. unfold G. apply hd_skipn_nth. }
  change (zero (nx XR)) with 0.
  assert (Et : sub (nx XR) (hd 0 rest) (dotl XR cur cur 0) = G Gm i i * G Gm i i).
  { change (sub (nx XR)) with Rminus. rewrite Hhd, dotl_sum, Hl.
    rewrite (sum_n_ext _ (fun k => G Gm i k * G Gm i k)).
    2:{ intros k Hk. rewrite Hcur by lia. reflexivity. }
    rewrite (hcf_entry n A Gm i i Hcf) by lia. lra. }
  rewrite Et. assert (Hd : 0 < G Gm i i) by (apply Hpos; lia).
  change (ltb (nx XR)) with Rltb.
  destruct (Rltb (G Gm i i * G Gm i i) 0) eqn:Elt.
  { apply Rltb_true in Elt. nra. }
  rewrite sqrt_square by lra. f_equal.
  apply nth_ext with (d := 0) (d' := 0).
  - rewrite app_length. simpl. unfold zeros. rewrite repeat_length. lia.
  - intros q Hq. rewrite app_length in Hq. simpl in Hq. unfold zeros in Hq. rewrite repeat_length in Hq.
    destruct (lt_eq_lt_dec q i) as [[Hlt|Heq]|Hgt].
    + rewrite app_nth1 by lia. apply Hcur. exact Hlt.
    + subst q. rewrite app_nth2 by lia. rewrite Hl, Nat.sub_diag. reflexivity.
    + rewrite app_nth2 by lia. rewrite Hl.
      destruct (q - i)%nat as [|e] eqn:Ed; [lia|]. simpl. unfold zeros.
      change (zero (nx XR)) with 0. rewrite nth_repeat0.
      symmetry. apply (Hlow i q). exact Hgt.
Qed.

(* ---------- all rows ---------- *)
Lemma chol_rows_complete n A Gm :
  dims n n A -> has_cholesky_factor n A Gm ->
  forall k i, (i + k = n)%nat -> chol_rows XR sqrt n (firstn i Gm) (skipn i A) = Some Gm.
Proof.
  intros HdA Hcf. pose proof HdA as (HA & _). pose proof Hcf as ((HG & _) & _).
  induction k as [|k IH]; intros i Hik.
  - assert (i = n) by lia. subst i.
    rewrite skipn_all2 by lia. rewrite firstn_all2 by lia. reflexivity.
  - rewrite (skipn_cons_nth [] A i) by lia. cbn [chol_rows].
    rewrite (chol_row_complete n A Gm i HdA Hcf) by lia.
    rewrite <- (firstn_S_snoc [] Gm i) by lia. apply IH. lia.
Qed.

Lemma cholesky_with_complete (A Gm : rmat) (n : nat) :
  dims n n A -> has_cholesky_factor n A Gm -> cholesky_with XR sqrt A = Some Gm.
Proof.
  intros HdA Hcf. unfold cholesky_with. destruct HdA as (HA & HAr). rewrite HA.
  apply (chol_rows_complete n A Gm (conj HA HAr) Hcf n 0%nat). lia.
Qed.

(* the routine succeeds on a positive definite matrix and returns THE factor *)
Theorem cholesky_complete :
  forall (A Gm : rmat) (n : nat),
  dims n n A -> has_cholesky_factor n A Gm -> cholesky XR A = Some Gm.
Proof. exact cholesky_with_complete. Qed.

Theorem cholesky_fast_complete :
  forall (A Gm : rmat) (n : nat),
  dims n n A -> has_cholesky_factor n A Gm -> cholesky_fast XR A = Some Gm.
Proof. exact cholesky_with_complete. Qed.

(* the error is raised only if A is not positive definite *)
Theorem cholesky_error_implies_not_pd :
  forall (A : rmat) (n : nat),
  dims n n A -> cholesky XR A = None -> ~ exists Gm, has_cholesky_factor n A Gm.
Proof.
  intros A n HdA Hnone (Gm & Hcf).
  rewrite (cholesky_complete A Gm n HdA Hcf) in Hnone. discriminate.
Qed.

Theorem cholesky_fast_error_implies_not_pd :
  forall (A : rmat) (n : nat),
  dims n n A -> cholesky_fast XR A = None -> ~ exists Gm, has_cholesky_factor n A Gm.
Proof.
  intros A n HdA Hnone (Gm & Hcf).
  rewrite (cholesky_fast_complete A Gm n HdA Hcf) in Hnone. discriminate.
Qed.

(* ---------- where the error is raised ---------- *)
Lemma chol_rows_none_first (sq : R -> R) (n : nat) : forall (arows L : rmat),
  chol_rows XR sq n L arows = None ->
  exists i L', (i < length arows)%nat /\
    chol_rows XR sq n L (firstn i arows) = Some L' /\
    chol_row XR sq n L' (nth i arows []) = None.
Proof.
  induction arows as [|ar arows IH]; intros L H; [simpl in H; discriminate|].
  cbn [chol_rows] in H. destruct (chol_row XR sq n L ar) as [r|] eqn:Er.
  - destruct (IH _ H) as (i & L' & Hi & Hrun & Hrow).
    exists (S i), L'. split; [simpl; lia|]. split; [|exact Hrow].
    cbn [firstn chol_rows]. rewrite Er. exact Hrun.
  - exists 0%nat, L. split; [simpl; lia|]. split; [reflexivity|exact Er].
Qed.

(* rows finished before the failing one: the recurrences hold for them *)
Lemma chol_rows_prefix_spec (n : nat) (A : rmat) :
  (forall p, (p < length A)%nat -> length (nth p A []) = n) -> (length A <= n)%nat ->
  forall k i (L Lf : rmat), (i + k <= length A)%nat -> length L = i ->
  (forall p, (p < i)%nat -> chol_row_ok n A L p) ->
  chol_rows XR sqrt n L (firstn k (skipn i A)) = Some Lf ->
  length Lf = (i + k)%nat /\ forall p, (p < i + k)%nat -> chol_row_ok n A Lf p.
Proof.
  intros Hrows HAn. induction k as [|k IH]; intros i L Lf Hik HL Hinv H.
  - simpl in H. inversion H; subst Lf. rewrite Nat.add_0_r. split; [exact HL|exact Hinv].
  - rewrite (skipn_cons_nth [] A i) in H by lia. cbn [firstn chol_rows] in H.
    destruct (chol_row XR sqrt n L (nth i A [])) as [r|] eqn:Er; [|discriminate].
    replace (i + S k)%nat with (S i + k)%nat by lia.
    apply (IH (S i) (L ++ [r]) Lf); auto; try lia.
    + rewrite app_length. simpl. lia.
    + intros p Hp. destruct (Nat.eq_dec p i) as [->|Hne].
      * apply chol_row_spec; auto; try lia. apply Hrows. lia.
      * apply chol_row_ok_app; [lia|]. apply Hinv. lia.
Qed.

(* the recurrences of the first m rows give L' L'^T = leading m x m block of A *)
Lemma chol_ok_product_prefix m n A L :
  (forall p, (p < m)%nat -> chol_row_ok n A L p) ->
  (forall p, (p < m)%nat -> G L p p <> 0) ->
  forall i j, (j <= i)%nat -> (i < m)%nat -> LLt m L i j = G A i j.
Proof.
  intros H Hd i j Hji Hi. unfold LLt.
  destruct (H i Hi) as (_ & Hoff & (Hge & Hdiag) & _).
  assert (Hj : (j < m)%nat) by lia.
  destruct (H j Hj) as (_ & _ & _ & Hzj).
  rewrite (sum_n_cut _ (S j) m); [|lia|].
  2:{ intros k Hk. rewrite (Hzj k) by lia. lra. }
  simpl. destruct (Nat.eq_dec j i) as [->|Hne].
  - assert (Hsq : G L i i * G L i i = G A i i - sum_n (fun k => G L i k * G L i k) i).
    { rewrite Hdiag. apply sqrt_sqrt. exact Hge. }
    lra.
  - pose proof (Hoff j ltac:(lia)) as E.
    assert (Hdj : G L j j <> 0) by (apply Hd; lia).
    assert (Hm : G L i j * G L j j = G A i j - sum_n (fun k => G L i k * G L j k) j).
    { rewrite E. field. exact Hdj. }
    lra.
Qed.

(* Sharper local form of the error: there is a first row i at which the error is
   raised; the rows 0..i-1 were finished (L'), the solved part [cur] of row i
   satisfies the triangular system L'[0..i,0..i] cur = A[i,0..i] (division form),
   and the pivot A_ii - sum_k cur_k^2 is negative.  If moreover A is symmetric and
   L' has a non-zero diagonal, L' L'^T is the leading i x i block of A, i.e. the
   pivot is the Schur complement of that block in the leading (i+1) x (i+1) block. *)
Theorem cholesky_error_first_negative_pivot :
  forall (A : rmat) (n : nat),
  dims n n A -> cholesky XR A = None ->
  exists (i : nat) (L' : rmat) (cur : list R),
    (i < n)%nat /\
    chol_rows XR sqrt n [] (firstn i A) = Some L' /\
    length L' = i /\ length cur = i /\
    (forall q, (q < i)%nat ->
       nth q cur 0 = (G A i q - sum_n (fun k => nth k cur 0 * G L' q k) q) / G L' q q) /\
    G A i i - sum_n (fun k => nth k cur 0 * nth k cur 0) i < 0 /\
    (symmetric n A -> (forall p, (p < i)%nat -> G L' p p <> 0) ->
       lower_triangular L' /\
       forall p q, (p < i)%nat -> (q < i)%nat -> LLt i L' p q = G A p q).
Proof.
  intros A n (HA & HAr) H. unfold cholesky, cholesky_with in H. rewrite HA in H.
  change (gsqrt XR) with sqrt in H.
  destruct (chol_rows_none_first sqrt n A [] H) as (i & L' & Hi & Hrun & Hrow).
  rewrite HA in Hi.
  assert (Hrows : forall p, (p < length A)%nat -> length (nth p A []) = n).
  { intros p Hp. apply HAr. apply nth_In. exact Hp. }
  destruct (chol_rows_prefix_spec n A Hrows ltac:(lia) i 0%nat [] L' ltac:(lia) eq_refl
              ltac:(intros; lia) Hrun) as (HL' & Hok).
  simpl in HL', Hok.
  apply chol_row_none in Hrow.
  destruct (chol_off XR L' (nth i A []) []) as [cur rest] eqn:E.
  apply chol_off_spec in E; [|rewrite HL', Hrows; lia].
  destruct E as (Hl & Hr & _ & Ht). simpl in Hl, Ht. rewrite HL' in *.
  exists i, L', cur. split; [exact Hi|]. split; [exact Hrun|]. split; [exact HL'|].
  split; [exact Hl|]. split; [|split].
  - intros q Hq. rewrite (Ht q Hq). reflexivity.
  - rewrite dotl_sum, Hl, Hr in Hrow. rewrite hd_skipn_nth in Hrow. fold (G A i i) in Hrow. lra.
  - intros Hsym Hnz. split.
    + intros p q Hpq. destruct (le_lt_dec i p) as [Hge|Hlt].
      * unfold G. rewrite (nth_overflow L') by lia. destruct q; reflexivity.
      * destruct (Hok p Hlt) as (_ & _ & _ & H4). apply H4. exact Hpq.
    + intros p q Hp Hq. destruct (le_lt_dec q p) as [Hle|Hlt].
      * apply (chol_ok_product_prefix i n A L'); auto.
      * rewrite LLt_sym. rewrite Hsym by lia. apply (chol_ok_product_prefix i n A L'); auto. lia.
Qed.

(* the hypotheses of cholesky_complete are satisfiable by a non-trivial instance *)
Example cholesky_complete_hyps_satisfiable :
  dims 2 2 [[4; 2]; [2; 10]] /\ has_cholesky_factor 2 [[4; 2]; [2; 10]] [[2; 0]; [1; 3]].
Proof.
  split; [split; [reflexivity|intros row [<-|[<-|[]]]; reflexivity]|].
  split; [split; [reflexivity|intros row [<-|[<-|[]]]; reflexivity]|].
  split.
  - intros i j Hij. unfold G.
    destruct i as [|[|i]]; destruct j as [|[|j]]; try lia; simpl; try reflexivity;
      try (destruct j; reflexivity); destruct i; destruct j; reflexivity.
  - split.
    + intros i Hi. destruct i as [|[|i]]; try lia; unfold G; simpl; lra.
    + intros i j Hi Hj. destruct i as [|[|i]]; destruct j as [|[|j]]; try lia;
        unfold LLt, G; simpl; lra.
Qed.
