(* C05 — basic lemmas: finite sums, the model's dot product as a sum, list access. *)
From Coq Require Import Reals List Lia Lra Bool.
From ADV Require Import Base.Num C05.Model C05.Spec.
Import ListNotations.
Open Scope R_scope.

(* ---------- sums ---------- *)
Lemma sum_n_ext (f g : nat -> R) n : (forall k, (k < n)%nat -> f k = g k) -> sum_n f n = sum_n g n.
Proof.
  induction n as [|n IH]; intro H; simpl; [reflexivity|].
  rewrite IH, H; auto.
Qed.

Lemma sum_n_zero (f : nat -> R) n : (forall k, (k < n)%nat -> f k = 0) -> sum_n f n = 0.
Proof.
  induction n as [|n IH]; intro H; simpl; [reflexivity|].
  rewrite IH, H; auto; lra.
Qed.

Lemma sum_n_plus f g n : sum_n (fun k => f k + g k) n = sum_n f n + sum_n g n.
Proof. induction n as [|n IH]; simpl; [lra|rewrite IH; lra]. Qed.

Lemma sum_n_minus f g n : sum_n (fun k => f k - g k) n = sum_n f n - sum_n g n.
Proof. induction n as [|n IH]; simpl; [lra|rewrite IH; lra]. Qed.

Lemma sum_n_scal c f n : sum_n (fun k => c * f k) n = c * sum_n f n.
Proof. induction n as [|n IH]; simpl; [lra|rewrite IH; lra]. Qed.

Lemma sum_n_scal_r c f n : sum_n (fun k => f k * c) n = sum_n f n * c.
Proof. induction n as [|n IH]; simpl; [lra|rewrite IH; lra]. Qed.

(* terms beyond m vanish: the sum can be cut at m *)
Lemma sum_n_cut f m n : (m <= n)%nat -> (forall k, (m <= k < n)%nat -> f k = 0) -> sum_n f n = sum_n f m.
Proof.
  intros Hle Hz. induction n as [|n IH].
  - assert (m = 0)%nat by lia. subst. reflexivity.
  - destruct (Nat.eq_dec m (S n)) as [->|Hne]; [reflexivity|].
    simpl. rewrite IH; [|lia|intros; apply Hz; lia]. rewrite Hz; [lra|lia].
Qed.

Lemma sum_n_delta_l f i n : (i < n)%nat -> sum_n (fun k => delta i k * f k) n = f i.
Proof.
  intro Hi. induction n as [|n IH]; [lia|].
  simpl. destruct (Nat.eq_dec i n) as [->|Hne].
  - rewrite sum_n_zero.
    + unfold delta. rewrite Nat.eqb_refl. lra.
    + intros k Hk. unfold delta. destruct (Nat.eqb n k) eqn:E; [apply Nat.eqb_eq in E; lia|lra].
  - rewrite IH by lia. unfold delta at 1.
    destruct (Nat.eqb i n) eqn:E; [apply Nat.eqb_eq in E; lia|lra].
Qed.

Lemma sum_n_nonneg f n : (forall k, (k < n)%nat -> 0 <= f k) -> 0 <= sum_n f n.
Proof.
  induction n as [|n IH]; intro H; simpl; [lra|].
  assert (0 <= sum_n f n) by (apply IH; auto). assert (0 <= f n) by (apply H; lia). lra.
Qed.

Lemma delta_sym i j : delta i j = delta j i.
Proof. unfold delta. rewrite Nat.eqb_sym. reflexivity. Qed.

(* ---------- list access ---------- *)
Lemma nth_app_l {T} (l1 l2 : list T) d k : (k < length l1)%nat -> nth k (l1 ++ l2) d = nth k l1 d.
Proof. intros; apply app_nth1; auto. Qed.

Lemma nth_app_r {T} (l1 l2 : list T) d k : (length l1 <= k)%nat -> nth k (l1 ++ l2) d = nth (k - length l1) l2 d.
Proof. intros; apply app_nth2; lia. Qed.

Lemma nth_repeat0 k n : nth k (repeat 0 n) 0 = 0.
Proof.
  revert k; induction n as [|n IH]; intro k; destruct k; simpl; auto.
Qed.

(* ---------- the model's dot product over R ---------- *)
Lemma sum_n_S_first (f : nat -> R) n : sum_n f (S n) = f O + sum_n (fun k => f (S k)) n.
Proof.
  induction n as [|n IHn]; simpl; [lra|]. simpl in IHn. rewrite IHn. lra.
Qed.

Lemma dotl_sum (x y : list R) (acc : R) :
  dotl XR x y acc = acc + sum_n (fun k => nth k x 0 * nth k y 0) (length x).
Proof.
  revert y acc. induction x as [|a x IH]; intros y acc; [simpl; lra|].
  destruct y as [|b y].
  - rewrite sum_n_zero; [simpl; lra|]. intros k _. destruct k; simpl; lra.
  - change (dotl XR (a :: x) (b :: y) acc) with (dotl XR x y (acc + a * b)).
    rewrite IH. change (length (a :: x)) with (S (length x)).
    rewrite (sum_n_S_first (fun k => nth k (a :: x) 0 * nth k (b :: y) 0)). simpl. lra.
Qed.

Lemma fold_sq_sum (x : list R) (acc : R) :
  fold_left (fun s xi => s + xi * xi) x acc = acc + sum_n (fun k => nth k x 0 * nth k x 0) (length x).
Proof.
  revert acc. induction x as [|a x IH]; intro acc; [simpl; lra|].
  change (fold_left (fun s xi => s + xi * xi) (a :: x) acc) with (fold_left (fun s xi => s + xi * xi) x (acc + a * a)).
  rewrite IH. change (length (a :: x)) with (S (length x)).
  rewrite (sum_n_S_first (fun k => nth k (a :: x) 0 * nth k (a :: x) 0)). simpl. lra.
Qed.

Lemma G_app_l (L : rmat) r i j : (i < length L)%nat -> G (L ++ [r]) i j = G L i j.
Proof. intro H. unfold G. rewrite app_nth1; auto. Qed.

Lemma G_app_last (L : rmat) r j : G (L ++ [r]) (length L) j = nth j r 0.
Proof. unfold G. rewrite app_nth2 by lia. rewrite Nat.sub_diag. reflexivity. Qed.

Lemma hd_skipn_nth (i : nat) (l : list R) : hd 0 (skipn i l) = nth i l 0.
Proof. revert l. induction i as [|i IH]; intros [|x l]; simpl; auto. Qed.

Lemma nth_skipn_add {T} (k i : nat) (l : list T) d : nth i (skipn k l) d = nth (k + i) l d.
Proof. revert l. induction k as [|k IH]; intros [|x l]; simpl; auto. destruct i; reflexivity. Qed.
