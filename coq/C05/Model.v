(* C05 — executable models of the DIRECT factorization routines of
   /repo/algorithm/{cholesky,householder,givensRotation,gramSchmidt,
   hessenbergReduction,householderBidiagonalization,householderTridiagonalization}.

   One text, polymorphic in the carrier: instantiated at R for the theorems
   (Props.v) and at Coq's primitive binary64 floats for the bit-exact replay
   against the Go code (Corr.v).  Every scalar operation is performed in the
   order the Go code performs it (sums start at 0 and run left to right), so the
   float instance reproduces Go's float64 results bit for bit.

   No proofs in this file. *)
From Coq Require Import List ZArith Bool Reals Floats.
From ADV Require Import Base.Num.
Import ListNotations.

(* Carrier = Base.Num plus the three things the anchored code uses beyond it:
   math.Inf(-1) as start value of running maxima, math.Max, and the *generic*
   square root (Scalar.Sqrt = Pow(x, 0.5) = math.Pow, which differs from
   math.Sqrt on -0 and -Inf); [nsqrt] of the base carrier is math.Sqrt
   (Float64.SQRT, used by the Float64 fast path). *)
Record NumX (A : Type) := mkNumX {
  nx :> Num A;
  neg_inf : A;
  fmax : A -> A -> A;
  gsqrt : A -> A
}.
Arguments nx {A}. Arguments neg_inf {A}. Arguments fmax {A}. Arguments gsqrt {A}.

(* R: every value compared with the running maxima is an absolute value, so any
   negative number plays the role of -Inf. *)
Definition NumXR : NumX R := mkNumX R NumR (-1)%R Rmax R_sqrt.sqrt.

(* Go's math.Max on binary64 (special cases in the order of the Go source). *)
Definition f_is_pinf (x : float) : bool := PrimFloat.eqb x infinity.
Definition f_signbit0 (x : float) : bool := PrimFloat.ltb (PrimFloat.div 1%float x) 0%float.
Definition go_max (x y : float) : float :=
  if f_is_pinf x || f_is_pinf y then infinity
  else if negb (PrimFloat.eqb x x) || negb (PrimFloat.eqb y y) then nan
  else if PrimFloat.eqb x 0%float && PrimFloat.eqb x y then (if f_signbit0 x then y else x)
  else if PrimFloat.ltb y x then x else y.
(* Go's math.Pow(x, 0.5): the zero and infinity cases are taken before the
   y == 0.5 shortcut to Sqrt. *)
Definition go_pow_half (x : float) : float :=
  if PrimFloat.eqb x 0%float then 0%float
  else if PrimFloat.eqb x neg_infinity then infinity
  else PrimFloat.sqrt x.
Definition NumXF : NumX float := mkNumX float NumF neg_infinity go_max go_pow_half.
(* the Float64 fast path of cholesky.go uses SQRT = math.Sqrt throughout *)
Definition NumXFfast : NumX float := mkNumX float NumF neg_infinity go_max PrimFloat.sqrt.

Section Model.
Context {A : Type} (X : NumX A).
Let N : Num A := nx X.
Local Notation zero' := (zero N).
Local Notation one' := (one N).

Definition vec := list A.
Definition mat := list (list A).
Definition get (M : mat) (i j : nat) : A := nth j (nth i M []) zero'.
Definition vget (v : vec) (i : nat) : A := nth i v zero'.

Fixpoint map2 {B C D} (f : B -> C -> D) (x : list B) (y : list C) : list D :=
  match x, y with a :: x', b :: y' => f a b :: map2 f x' y' | _, _ => [] end.

(* s := 0; for k { t := x_k * y_k; s := s + t } *)
Fixpoint dotl (x y : list A) (acc : A) : A :=
  match x, y with a :: x', b :: y' => dotl x' y' (add N acc (mul N a b)) | _, _ => acc end.

Definition zeros (n : nat) : list A := repeat zero' n.
Definition col (j : nat) (M : mat) : list A := map (fun r => nth j r zero') M.
Definition transpose_n (m : nat) (M : mat) : mat :=   (* m = number of columns *)
  map (fun j => col j M) (seq 0 m).
Definition ncols (M : mat) : nat := length (hd [] M).
Definition transpose (M : mat) : mat := transpose_n (ncols M) M.
Definition ident (n : nat) : mat :=
  map (fun i => map (fun j => if Nat.eqb i j then one' else zero') (seq 0 n)) (seq 0 n).
Definition diagm (d : list A) : mat :=
  map (fun i => map (fun j => if Nat.eqb i j then nth i d zero' else zero') (seq 0 (length d))) (seq 0 (length d)).

(* ------------------------------------------------------------------ *)
(* cholesky (cholesky.gen.in, first function): row oriented.
     for i { for j <= i { s = sum_{k<j} L_ik L_jk ; t = A_ij - s ;
                          i == j ? (t < 0 -> error ; L_ii = sqrt t) : L_ij = t / L_jj }
             clear L_i,i+1..n-1 }                                             *)
Fixpoint chol_off (rows : mat) (arow : list A) (cur : list A) : list A * list A :=
  match rows, arow with
  | Lj :: rows', a :: arow' =>
      chol_off rows' arow' (cur ++ [div N (sub N a (dotl cur Lj zero')) (nth (length cur) Lj zero')])
  | _, _ => (cur, arow)
  end.

Definition chol_row (sq : A -> A) (n : nat) (L : mat) (arow : list A) : option (list A) :=
  let '(cur, rest) := chol_off L arow [] in
  let t := sub N (hd zero' rest) (dotl cur cur zero') in
  if ltb N t zero' then None
  else Some (cur ++ sq t :: zeros (n - S (length cur))).

Fixpoint chol_rows (sq : A -> A) (n : nat) (L : mat) (arows : mat) : option mat :=
  match arows with
  | [] => Some L
  | ar :: rest =>
      match chol_row sq n L ar with
      | None => None                        (* "matrix is not positive definite" *)
      | Some r => chol_rows sq n (L ++ [r]) rest
      end
  end.

(* generic path: Scalar.Sqrt ; Float64/Float32 fast path: SQRT *)
Definition cholesky_with (sq : A -> A) (Am : mat) : option mat := chol_rows sq (length Am) [] Am.
Definition cholesky (Am : mat) : option mat := cholesky_with (gsqrt X) Am.
Definition cholesky_fast (Am : mat) : option mat := cholesky_with (nsqrt N) Am.

(* ------------------------------------------------------------------ *)
(* cholesky_ldl and cholesky_ldl_forcepd: column oriented.  State: the finished
   columns k < j as pairs (d_k, column k of L).  For column j
     s_i  = sum_{k<j} d_k * (L_ik * L_jk)         (t = L_ik*L_jk ; t = d_k*t ; s += t)
     c_i  = A_ij - s_i
     d_j  = pick j c_j (c_i)_{i>j}                (LDL: c_j, error if <= 0;
                                                   forcePD: max(|c_j|, (theta_j/beta)^2, delta))
     L_ij = c_i / d_j  (i > j),  L_jj = 1, L_ij = 0 (i < j).                    *)
Definition acc_col (j : nat) (s : list A) (dc : A * list A) : list A :=
  let '(d, c) := dc in
  let cj := nth j c zero' in
  map2 (fun si ci => add N si (mul N d (mul N ci cj))) s c.

Definition ldl_cvec (n j : nat) (Am : mat) (prev : list (A * list A)) : list A :=
  map2 (fun a s => sub N a s) (col j Am) (fold_left (acc_col j) prev (zeros n)).

Definition ldl_newcol (j : nat) (cv : list A) (d : A) : list A :=
  map2 (fun i c => if Nat.ltb i j then zero' else if Nat.eqb i j then one' else div N c d)
       (seq 0 (length cv)) cv.

Fixpoint ldl_cols (pick : nat -> A -> list A -> option A) (n : nat) (Am : mat)
         (fuel : nat) (prev : list (A * list A)) : option (list (A * list A)) :=
  match fuel with
  | O => Some prev
  | S fuel' =>
      let j := length prev in
      let cv := ldl_cvec n j Am prev in
      match pick j (nth j cv zero') (skipn (S j) cv) with
      | None => None
      | Some d => ldl_cols pick n Am fuel' (prev ++ [(d, ldl_newcol j cv d)])
      end
  end.

Definition ldl_gen (pick : nat -> A -> list A -> option A) (Am : mat) : option (mat * mat) :=
  let n := length Am in
  match ldl_cols pick n Am n [] with
  | None => None
  | Some cols => Some (transpose_n n (map snd cols), diagm (map fst cols))
  end.

Definition pick_ldl (j : nat) (cjj : A) (below : list A) : option A :=
  if leb N cjj zero' then None else Some cjj.
Definition cholesky_ldl (Am : mat) : option (mat * mat) := ldl_gen pick_ldl Am.

(* running maximum as coded: m = -Inf ; if r := |x| ; r > m { m = r } *)
Definition upd_max (m : A) (x : A) : A := let r := nabs N x in if ltb N m r then r else m.

(* beta of Gill-Murray-Wright as coded.  [bfloor], [delta] are the two literals
   1e-20 of the source. *)
Definition offdiag (Am : mat) : list A :=
  concat (map2 (fun i row => concat (map2 (fun j a => if Nat.eqb i j then [] else [a]) (seq 0 (length row)) row))
               (seq 0 (length Am)) Am).
Definition diag (Am : mat) : list A := map (fun i => get Am i i) (seq 0 (length Am)).

Definition fpd_beta (bfloor : A) (Am : mat) : A :=
  let n := length Am in
  let gamma := fold_left upd_max (diag Am) (neg_inf X) in
  let xi := fold_left upd_max (offdiag Am) (neg_inf X) in
  let nu := fmax X one' (nsqrt N (of_Z N (Z.of_nat (n * n) - 1))) in
  let b := fmax X gamma (div N xi nu) in
  let b := fmax X b bfloor in
  nsqrt N b.

Definition pick_fpd (n : nat) (beta delta : A) (j : nat) (cjj : A) (below : list A) : option A :=
  let theta := fold_left upd_max below (neg_inf X) in
  if Nat.eqb j (n - 1) then Some (fmax X (nabs N cjj) delta)
  else let q := div N theta beta in
       Some (fmax X (fmax X (nabs N cjj) (mul N q q)) delta).   (* math.Pow(theta/beta, 2) *)

Definition cholesky_ldl_forcepd (bfloor delta : A) (Am : mat) : option (mat * mat) :=
  ldl_gen (pick_fpd (length Am) (fpd_beta bfloor Am) delta) Am.

(* ------------------------------------------------------------------ *)
(* householder.Run: (beta, nu) with (I - beta nu nu^T) x = |x| e_1 *)
Definition house (x : list A) : A * list A :=
  match x with
  | [] => (zero', [])
  | x0 :: xt =>
      let sigma := fold_left (fun s xi => add N s (mul N xi xi)) xt zero' in
      if eqb N sigma zero' then (zero', one' :: xt)
      else
        let mu := gsqrt X (add N (mul N x0 x0) sigma) in
        let nu0 := if leb N x0 zero' then sub N x0 mu
                   else neg N (div N sigma (add N x0 mu)) in
        let b := div N nu0 (add N (mul N nu0 nu0) sigma) in
        let b := mul N b nu0 in
        (add N b b, map (fun y => div N y nu0) (nu0 :: xt))
  end.

(* t1 = (nu^T M) * beta ; M_ij -= nu_i * t1_j *)
Definition vdotm (v : vec) (M : mat) : vec :=
  fold_left (fun acc vr => map2 (fun a mij => add N a (mul N (fst vr) mij)) acc (snd vr))
            (combine v M) (zeros (ncols M)).
Definition mdotv (M : mat) (v : vec) : vec := map (fun row => dotl row v zero') M.

Definition house_left (M : mat) (beta : A) (nu : vec) : mat :=
  let t := map (fun y => mul N y beta) (vdotm nu M) in
  map2 (fun nui row => map2 (fun a tj => sub N a (mul N nui tj)) row t) nu M.
Definition house_right (M : mat) (beta : A) (nu : vec) : mat :=
  let t := map (fun y => mul N y beta) (mdotv M nu) in
  map2 (fun ti row => map2 (fun a nuj => sub N a (mul N ti nuj)) row nu) t M.

(* ------------------------------------------------------------------ *)
(* givensRotation.Run and apply *)
Definition givens (a b : A) : A * A :=
  if eqb N b zero' then (one', zero')
  else if ltb N (nabs N a) (nabs N b) then
    let c0 := neg N (div N a b) in
    let s := div N one' (gsqrt X (add N (mul N c0 c0) one')) in
    (mul N c0 s, s)
  else
    let s0 := neg N (div N b a) in
    let c := div N one' (gsqrt X (add N (mul N s0 s0) one')) in
    (c, mul N s0 c).

Definition giv_apply (c s a1 a2 : A) : A * A :=
  (sub N (mul N c a1) (mul N s a2), add N (mul N c a2) (mul N s a1)).

Definition set_nth {B} (l : list B) (i : nat) (x : B) : list B :=
  firstn i l ++ match skipn i l with [] => [] | _ :: t => x :: t end.

(* rows i and k of M (i <> k) are replaced, only at the columns selected by [sel] *)
Definition giv_rows (sel : nat -> bool) (M : mat) (c s : A) (i k : nat) : mat :=
  let ri := nth i M [] in let rk := nth k M [] in
  let pr := map2 (fun j ab => if sel j then giv_apply c s (fst ab) (snd ab) else ab)
                 (seq 0 (length ri)) (combine ri rk) in
  set_nth (set_nth M i (map fst pr)) k (map snd pr).
Definition giv_cols (sel : nat -> bool) (M : mat) (c s : A) (i k : nat) : mat :=
  map2 (fun j row =>
         if sel j then
           let p := giv_apply c s (nth i row zero') (nth k row zero') in
           set_nth (set_nth row i (fst p)) k (snd p)
         else row) (seq 0 (length M)) M.
Definition givens_left (M : mat) (c s : A) (i k : nat) : mat := giv_rows (fun _ => true) M c s i k.
Definition givens_right (M : mat) (c s : A) (i k : nat) : mat := giv_cols (fun _ => true) M c s i k.

(* the banded shortcuts: index sets as coded *)
Definition hess_left_sel (i k : nat) (j : nat) : bool := Nat.leb (Nat.pred (Nat.min i k)) j.
Definition hess_right_sel (m i k : nat) (j : nat) : bool := Nat.ltb j (Nat.min m (Nat.max i k + 2)).
Definition givens_hess_left (M : mat) c s i k := giv_rows (hess_left_sel i k) M c s i k.
Definition givens_hess_right (M : mat) c s i k := giv_cols (hess_right_sel (length M) i k) M c s i k.

(* ------------------------------------------------------------------ *)
(* gramSchmidt (modified Gram-Schmidt), column oriented: input and outputs are
   lists of COLUMNS.  vs = remaining columns v_i, v_{i+1}, ... *)
Definition vnorm (v : vec) : A :=
  gsqrt X (fold_left (fun s x => add N s (mul N x x)) v zero').   (* Pow(x,2) = x*x *)

Fixpoint gs_cols (fuel : nat) (vs : list vec) : list (vec * A * list A) :=
  (* per step: (q_i, r_ii, [r_i,i+1 ..]) *)
  match fuel, vs with
  | S fuel', v :: rest =>
      let rii := vnorm v in
      let q := map (fun x => div N x rii) v in
      let rs := map (fun w => dotl q w zero') rest in
      let rest' := map2 (fun rij w => map2 (fun wk qk => sub N wk (mul N rij qk)) w q) rs rest in
      (q, rii, rs) :: gs_cols fuel' rest'
  | _, _ => []
  end.

(* A : n x m (rows) ; returns Q (n x m) and R (n x m).  Only the entries
   R_ij with i <= j, i < m are written by the Go code: everything else keeps the
   content of the caller's buffer R0 (zeros when the routine allocates R itself). *)
Definition gram_schmidt_in (R0 : mat) (Am : mat) : mat * mat :=
  let n := length Am in let m := ncols Am in
  let st := gs_cols m (transpose_n m Am) in
  let Q := transpose_n n (map (fun t => fst (fst t)) st) in
  let Rrows := map2 (fun i t => firstn i (nth i R0 []) ++ snd (fst t) :: snd t) (seq 0 m) st in
  (Q, Rrows ++ skipn m R0).
Definition gram_schmidt (Am : mat) : mat * mat :=
  gram_schmidt_in (repeat (zeros (ncols Am)) (length Am)) Am.

(* ------------------------------------------------------------------ *)
(* blocks *)
Definition block (M : mat) (r0 r1 c0 c1 : nat) : mat :=
  map (fun row => firstn (c1 - c0) (skipn c0 row)) (firstn (r1 - r0) (skipn r0 M)).
Definition put_row (row : list A) (c0 : nat) (b : list A) : list A :=
  firstn c0 row ++ b ++ skipn (c0 + length b) row.
Definition put_block (M : mat) (r0 c0 : nat) (B : mat) : mat :=
  firstn r0 M ++ map2 (fun row b => put_row row c0 b) (firstn (length B) (skipn r0 M)) B
         ++ skipn (r0 + length B) M.

(* hessenbergReduction: for k < n-2: x = H[k+1..n, k]; (beta,nu) = house x;
   H[k+1..n, k..n] <- P H ; H[0..n, k+1..n] <- H P ; optionally zero H[k+2..n, k];
   U <- U (I - beta nu' nu'^T), nu' = (0,..,0, nu) *)
Definition hess_step (setzero : bool) (n k : nat) (HU : mat * option mat) : mat * option mat :=
  let '(H, U) := HU in
  let x := skipn (S k) (col k H) in
  let '(beta, nu) := house x in
  let H1 := put_block H (S k) k (house_left (block H (S k) n k n) beta nu) in
  let H2 := put_block H1 0 (S k) (house_right (block H1 0 n (S k) n) beta nu) in
  let H3 := if setzero then
              map2 (fun i row => if Nat.ltb (S k) i then set_nth row k zero' else row) (seq 0 n) H2
            else H2 in
  (H3, match U with None => None | Some Um => Some (house_right Um beta (zeros (S k) ++ nu)) end).

Fixpoint iter_steps {S} (f : nat -> S -> S) (k cnt : nat) (s : S) : S :=
  match cnt with O => s | Datatypes.S c => iter_steps f (Datatypes.S k) c (f k s) end.

Definition hessenberg (setzero computeU : bool) (Am : mat) : mat * option mat :=
  let n := length Am in
  iter_steps (hess_step setzero n) 0 (n - 2) (Am, if computeU then Some (ident n) else None).

(* householderBidiagonalization (m x n, m >= n) *)
Definition bidiag_step (m n j : nat) (st : mat * option mat * option mat) : mat * option mat * option mat :=
  let '(Am, U, V) := st in
  let x := skipn j (col j Am) in
  let '(beta, nu) := house x in
  let A1 := put_block Am j j (house_left (block Am j m j n) beta nu) in
  let U1 := match U with None => None | Some Um => Some (house_right Um beta (zeros j ++ nu)) end in
  if Nat.ltb (j + 2) n then
    let xr := skipn (S j) (nth j A1 []) in
    let '(beta2, nu2) := house xr in
    let A2 := put_block A1 j (S j) (house_right (block A1 j m (S j) n) beta2 nu2) in
    let V1 := match V with None => None | Some Vm => Some (house_left Vm beta2 (zeros (S j) ++ nu2)) end in
    (A2, U1, V1)
  else (A1, U1, V).

Definition bidiag (computeU computeV : bool) (Am : mat) : mat * option mat * option mat :=
  let m := length Am in let n := ncols Am in
  iter_steps (bidiag_step m n) 0 n
    (Am, (if computeU then Some (ident m) else None), (if computeV then Some (ident n) else None)).

(* householderTridiagonalization (symmetric n x n) as coded: the reflector is
   applied to the trailing block by the symmetric rank-2 update
   A22 - nu w^T - w nu^T, and the (k+1,k), (k,k+1) entries are OVERWRITTEN by
   +|A[k+1..n,k]| (also when the reflector is the identity, beta = 0). *)
Definition tridiag_step (n k : nat) (AU : mat * option mat) : mat * option mat :=
  let '(Am, U) := AU in
  let x := skipn (S k) (col k Am) in
  let '(beta, nu) := house x in
  let a22 := block Am (S k) n (S k) n in
  let p := map (fun y => mul N y beta) (mdotv a22 nu) in
  let t := div N (mul N (dotl p nu zero') beta) (add N one' one') in
  let w := map2 (fun pi nui => sub N pi (mul N nui t)) p nu in
  let s := vnorm x in
  let a22' := map2 (fun nw row =>
                 map2 (fun nw' a => sub N (sub N a (mul N (fst nw) (snd nw'))) (mul N (fst nw') (snd nw)))
                      (combine nu w) row) (combine nu w) a22 in
  let A1 := put_block Am (S k) (S k) a22' in
  let A2 := map2 (fun i row =>
              if Nat.eqb i k then firstn (S k) row ++ s :: zeros (n - k - 2)
              else if Nat.eqb i (S k) then set_nth row k s
              else if Nat.ltb (S k) i then set_nth row k zero' else row) (seq 0 n) A1 in
  (A2, match U with None => None
       | Some Um => Some (put_block Um 0 (S k) (house_right (block Um 0 n (S k) n) beta nu)) end).

Definition tridiag (computeU : bool) (Am : mat) : mat * option mat :=
  let n := length Am in
  iter_steps (tridiag_step n) 0 (n - 2) (Am, if computeU then Some (ident n) else None).

(* ================================================================== *)
(* Round 2: the three routines below were changed in /repo by `fix:` commits
   (b6e746d gramSchmidt, 2c4ff32 householderBidiagonalization, 0e89154
   householderTridiagonalization).  The definitions above model the code BEFORE
   those commits and are kept unchanged (other properties import them); the
   definitions with suffix 2 model /repo's HEAD and are the ones tied by Corr.v. *)

(* gramSchmidt at HEAD: in iteration i, after r_ii, the entries R[k,i], k = i+1..n-1,
   are set to 0.  Every entry of an n x m buffer is therefore written: rows i < m are
   (0,..,0, r_ii, r_i,i+1, ..), rows i >= m are zero on their first m columns. *)
Definition gram_schmidt_in2 (R0 : mat) (Am : mat) : mat * mat :=
  let n := length Am in let m := ncols Am in
  let st := gs_cols m (transpose_n m Am) in
  let Q := transpose_n n (map (fun t => fst (fst t)) st) in
  let Rrows := map2 (fun i t => zeros i ++ snd (fst t) :: snd t) (seq 0 m) st in
  (Q, Rrows ++ map (fun row => zeros (Nat.min m (length row)) ++ skipn m row) (skipn m R0)).
Definition gram_schmidt2 (Am : mat) : mat * mat :=
  gram_schmidt_in2 (repeat (zeros (ncols Am)) (length Am)) Am.

(* householderBidiagonalization at HEAD: V <- V (I - beta2 nu2' nu2'^T)  (ApplyRight) *)
Definition bidiag2_step (m n j : nat) (st : mat * option mat * option mat) : mat * option mat * option mat :=
  let '(Am, U, V) := st in
  let x := skipn j (col j Am) in
  let '(beta, nu) := house x in
  let A1 := put_block Am j j (house_left (block Am j m j n) beta nu) in
  let U1 := match U with None => None | Some Um => Some (house_right Um beta (zeros j ++ nu)) end in
  if Nat.ltb (j + 2) n then
    let xr := skipn (S j) (nth j A1 []) in
    let '(beta2, nu2) := house xr in
    let A2 := put_block A1 j (S j) (house_right (block A1 j m (S j) n) beta2 nu2) in
    let V1 := match V with None => None | Some Vm => Some (house_right Vm beta2 (zeros (S j) ++ nu2)) end in
    (A2, U1, V1)
  else (A1, U1, V).

Definition bidiag2 (computeU computeV : bool) (Am : mat) : mat * option mat * option mat :=
  let m := length Am in let n := ncols Am in
  iter_steps (bidiag2_step m n) 0 n
    (Am, (if computeU then Some (ident m) else None), (if computeV then Some (ident n) else None)).

(* householderTridiagonalization at HEAD: A(k+1,k), A(k,k+1) are overwritten by
   +|A[k+1..n,k]| only when beta <> 0 (a reflection was applied); with beta = 0 they
   keep their value and sign. *)
Definition tridiag2_step (n k : nat) (AU : mat * option mat) : mat * option mat :=
  let '(Am, U) := AU in
  let x := skipn (S k) (col k Am) in
  let '(beta, nu) := house x in
  let a22 := block Am (S k) n (S k) n in
  let p := map (fun y => mul N y beta) (mdotv a22 nu) in
  let t := div N (mul N (dotl p nu zero') beta) (add N one' one') in
  let w := map2 (fun pi nui => sub N pi (mul N nui t)) p nu in
  let s := vnorm x in
  let refl := negb (eqb N beta zero') in        (* beta.GetFloat64() != 0.0 *)
  let a22' := map2 (fun nw row =>
                 map2 (fun nw' a => sub N (sub N a (mul N (fst nw) (snd nw'))) (mul N (fst nw') (snd nw)))
                      (combine nu w) row) (combine nu w) a22 in
  let A1 := put_block Am (S k) (S k) a22' in
  let A2 := map2 (fun i row =>
              if Nat.eqb i k then
                firstn (S k) row ++ (if refl then s else nth (S k) row zero') :: zeros (n - k - 2)
              else if Nat.eqb i (S k) then (if refl then set_nth row k s else row)
              else if Nat.ltb (S k) i then set_nth row k zero' else row) (seq 0 n) A1 in
  (A2, match U with None => None
       | Some Um => Some (put_block Um 0 (S k) (house_right (block Um 0 n (S k) n) beta nu)) end).

Definition tridiag2 (computeU : bool) (Am : mat) : mat * option mat :=
  let n := length Am in
  iter_steps (tridiag2_step n) 0 (n - 2) (Am, if computeU then Some (ident n) else None).

End Model.
