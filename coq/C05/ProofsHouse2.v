(* C05 — Householder, list-indexed form: the pair (beta, nu) returned by
   householder.Run reflects x onto +-|x| e_1, and ApplyLeft / ApplyRight are
   the products P*M / M*P with P = I - beta nu nu^T  (all sizes). *)
From Coq Require Import Reals List Lia Lra Bool.
From ADV Require Import Base.Num C05.Model C05.Spec C05.ProofsBase C05.ProofsHouse.
Import ListNotations.
Open Scope R_scope.

(* ---------- (P x)_i = x_i - beta v_i (v . x) ---------- *)
Lemma refl_apply_eq n beta v x i : (i < n)%nat ->
  refl_apply n beta v x i = V x i - beta * V v i * dot n v x.
Proof.
  intro Hi. unfold refl_apply, refl.
  rewrite (sum_n_ext _ (fun k => delta i k * V x k - (beta * V v i) * (V v k * V x k))).
  2:{ intros k _. ring. }
  rewrite sum_n_minus, sum_n_scal, (sum_n_delta_l (fun k => V x k)) by exact Hi.
  unfold dot. reflexivity.
Qed.

Lemma nth_map_div (l : list R) (c : R) k : nth k (map (fun y => y / c) l) 0 = nth k l 0 / c.
Proof.
  revert k. induction l as [|a l IH]; intros [|k]; simpl; try (unfold Rdiv; ring); auto.
Qed.

Lemma sum_sq_zero (f : nat -> R) n : sum_n (fun k => f k * f k) n = 0 -> forall k, (k < n)%nat -> f k = 0.
Proof.
  induction n as [|n IH]; intros H k Hk; [lia|].
  simpl in H.
  assert (H1 : 0 <= sum_n (fun k => f k * f k) n) by (apply sum_n_nonneg; intros; nra).
  assert (H2 : 0 <= f n * f n) by nra.
  destruct (Nat.eq_dec k n) as [->|Hne].
  - nra.
  - apply IH; [lra|lia].
Qed.

(* the vector nu returned for sigma <> 0, in index form *)
Section HouseRun.
Context (x0 : R) (xt : list R).
Let n := S (length xt).
Let x := x0 :: xt.
Let sigma := sum_n (fun k => nth k xt 0 * nth k xt 0) (length xt).

Lemma sigma_nonneg : 0 <= sigma.
Proof. apply sum_n_nonneg. intros; nra. Qed.

Lemma dot_x_x : dot n x x = x0 * x0 + sigma.
Proof.
  unfold dot, n. rewrite sum_n_S_first. unfold V, x. simpl. reflexivity.
Qed.

Lemma norm2_x : norm2 n x = h_mu x0 sigma.
Proof. unfold norm2, h_mu. rewrite dot_x_x. reflexivity. Qed.

(* sigma = 0: beta = 0, the reflector is the identity and x = x0 e_1 already *)
Lemma house_sigma0 : sigma = 0 ->
  house XR x = (0, 1 :: xt) /\ (forall i, (0 < i < n)%nat -> V x i = 0) /\ Rabs x0 = norm2 n x.
Proof.
  intro Hs. split; [|split].
  - unfold x. rewrite house_as_coded. fold sigma. rewrite Hs.
    destruct (Reqb 0 0) eqn:E; [reflexivity|].
    assert (Reqb 0 0 = true) by (apply Reqb_true; reflexivity). congruence.
  - intros i Hi. destruct i as [|i]; [lia|]. unfold V, x. simpl.
    apply (sum_sq_zero (fun k => nth k xt 0) (length xt)); [exact Hs|unfold n in Hi; lia].
  - rewrite norm2_x. unfold h_mu. rewrite Hs, Rplus_0_r.
    rewrite <- (sqrt_Rsqr_abs x0). reflexivity.
Qed.

Lemma house_sigma_pos : sigma <> 0 ->
  let nu0 := h_nu0 x0 sigma in
  house XR x = (h_beta x0 sigma, map (fun y => y / nu0) (nu0 :: xt)) /\ 0 < sigma.
Proof.
  intros Hs nu0. split.
  - unfold x. rewrite house_as_coded. fold sigma.
    destruct (Reqb sigma 0) eqn:E; [apply Reqb_true in E; contradiction|reflexivity].
  - pose proof sigma_nonneg. lra.
Qed.

Section Pos.
Context (Hpos : 0 < sigma).
Let nu0 := h_nu0 x0 sigma.
Let nu := map (fun y => y / nu0) (nu0 :: xt).
Let beta := h_beta x0 sigma.

Lemma nu0_nz : nu0 <> 0.
Proof. destruct (house_scalars x0 sigma Hpos) as (H & _). exact H. Qed.

Lemma V_nu_0 : V nu 0 = 1.
Proof. unfold V, nu. simpl. field. exact nu0_nz. Qed.

Lemma V_nu_S k : V nu (S k) = nth k xt 0 / nu0.
Proof. unfold V, nu. simpl. apply nth_map_div. Qed.

Lemma dot_nu_x : dot n nu x = x0 + sigma / nu0.
Proof.
  unfold dot, n. rewrite sum_n_S_first. rewrite V_nu_0.
  rewrite (sum_n_ext _ (fun k => (nth k xt 0 * nth k xt 0) * / nu0)).
  2:{ intros k _. rewrite V_nu_S. unfold V, x. simpl. unfold Rdiv. ring. }
  rewrite sum_n_scal_r. fold sigma. unfold V, x. simpl. unfold Rdiv. ring.
Qed.

Lemma dot_nu_nu : dot n nu nu = 1 + sigma / (nu0 * nu0).
Proof.
  unfold dot, n. rewrite sum_n_S_first. rewrite V_nu_0.
  rewrite (sum_n_ext _ (fun k => (nth k xt 0 * nth k xt 0) * / (nu0 * nu0))).
  2:{ intros k _. rewrite V_nu_S. unfold Rdiv. field. exact nu0_nz. }
  rewrite sum_n_scal_r. fold sigma. unfold Rdiv. ring.
Qed.

Lemma house_pos_valid : beta * dot n nu nu = 2.
Proof. rewrite dot_nu_nu. destruct (house_scalars x0 sigma Hpos) as (_ & H & _). exact H. Qed.

Lemma house_pos_first : refl_apply n beta nu x 0 = norm2 n x.
Proof.
  rewrite refl_apply_eq by (unfold n; lia). rewrite V_nu_0, dot_nu_x, norm2_x.
  destruct (house_scalars x0 sigma Hpos) as (_ & _ & _ & H). unfold V, x. simpl.
  fold nu0 beta in H. rewrite <- H. ring.
Qed.

Lemma house_pos_rest i : (0 < i < n)%nat -> refl_apply n beta nu x i = 0.
Proof.
  intro Hi. rewrite refl_apply_eq by lia. destruct i as [|i]; [lia|].
  rewrite V_nu_S, dot_nu_x.
  destruct (house_scalars x0 sigma Hpos) as (Hnz & _ & H & _). fold nu0 beta in H, Hnz.
  unfold V, x. simpl.
  transitivity (nth i xt 0 - (nth i xt 0 / nu0) * (beta * (x0 + sigma / nu0))); [ring|].
  rewrite H. field. exact Hnz.
Qed.
End Pos.
End HouseRun.

(* householder.Run, list-indexed: with (beta, nu) = house x and P = I - beta nu nu^T,
   P is orthogonal (beta = 0 or beta nu^T nu = 2), (P x)_i = 0 for 0 < i < n and
   (P x)_0 = +-|x|  (= +|x| whenever the tail of x is not zero; = x_0 itself when it is). *)
Theorem house_reflects (x0 : R) (xt : list R) :
  let x := x0 :: xt in let n := length x in
  let beta := fst (house XR x) in let nu := snd (house XR x) in
  length nu = n /\
  (beta = 0 \/ beta * dot n nu nu = 2) /\
  (forall i, (0 < i < n)%nat -> refl_apply n beta nu x i = 0) /\
  Rabs (refl_apply n beta nu x 0) = norm2 n x /\
  ((exists k, (k < length xt)%nat /\ nth k xt 0 <> 0) -> refl_apply n beta nu x 0 = norm2 n x).
Proof.
  intros x n beta nu.
  set (sigma := sum_n (fun k => nth k xt 0 * nth k xt 0) (length xt)).
  destruct (Req_EM_T sigma 0) as [Hs|Hs].
  - destruct (house_sigma0 x0 xt Hs) as (Hh & Hz & Hab).
    assert (Hb : beta = 0) by (unfold beta, x; rewrite Hh; reflexivity).
    assert (Hnu : nu = 1 :: xt) by (unfold nu, x; rewrite Hh; reflexivity).
    assert (Hap : forall i, (i < n)%nat -> refl_apply n beta nu x i = V x i).
    { intros i Hi. rewrite refl_apply_eq by exact Hi. rewrite Hb. ring. }
    split; [rewrite Hnu; reflexivity|]. split; [left; exact Hb|]. split; [|split].
    + intros i Hi. rewrite Hap by lia. apply Hz. exact Hi.
    + rewrite Hap by (unfold n, x; simpl; lia). exact Hab.
    + intros (k & Hk & Hnz). exfalso. apply Hnz.
      apply (sum_sq_zero (fun k => nth k xt 0) (length xt)); assumption.
  - destruct (house_sigma_pos x0 xt Hs) as (Hh & Hpos).
    assert (Hb : beta = h_beta x0 sigma) by (unfold beta, x; rewrite Hh; reflexivity).
    assert (Hnu : nu = map (fun y => y / h_nu0 x0 sigma) (h_nu0 x0 sigma :: xt))
      by (unfold nu, x; rewrite Hh; reflexivity).
    split; [rewrite Hnu; unfold n, x; simpl; rewrite map_length; reflexivity|].
    rewrite Hb, Hnu. change n with (S (length xt)). unfold x.
    pose proof (house_pos_valid x0 xt Hpos) as H1.
    pose proof (house_pos_first x0 xt Hpos) as H2.
    pose proof (house_pos_rest x0 xt Hpos) as H3.
    fold sigma in H1, H2, H3.
    split; [right; exact H1|]. split; [|split].
    + intros i Hi. apply H3. exact Hi.
    + rewrite H2. apply Rabs_right. unfold norm2. apply Rle_ge, sqrt_pos.
    + intros _. exact H2.
Qed.

(* ====================================================================== *)
(* ApplyLeft / ApplyRight in index form *)

Lemma map2_length {B C D} (f : B -> C -> D) x y : length (map2 f x y) = Nat.min (length x) (length y).
Proof. revert y. induction x as [|a x IH]; intros [|b y]; simpl; auto. Qed.

Lemma map2_nth {B C D} (f : B -> C -> D) x y k db dc dd :
  (k < length x)%nat -> (k < length y)%nat ->
  nth k (map2 f x y) dd = f (nth k x db) (nth k y dc).
Proof.
  revert y k. induction x as [|a x IH]; intros [|b y] k Hx Hy; simpl in *; try lia.
  destruct k; [reflexivity|]. apply IH; lia.
Qed.

Lemma dims_row r c (M : rmat) i : dims r c M -> (i < r)%nat -> length (nth i M []) = c.
Proof. intros (Hl & Hr) Hi. apply Hr. apply nth_In. lia. Qed.

Lemma dims_intro r c (M : rmat) :
  length M = r -> (forall i, (i < r)%nat -> length (nth i M []) = c) -> dims r c M.
Proof.
  intros Hl Hr. split; [exact Hl|]. intros row Hin.
  destruct (In_nth _ _ [] Hin) as (i & Hi & <-). apply Hr. lia.
Qed.

Lemma G_out_row (M : rmat) i j : (length M <= i)%nat -> G M i j = 0.
Proof. intro H. unfold G. rewrite (nth_overflow M) by exact H. destruct j; reflexivity. Qed.

Lemma G_out_col r c (M : rmat) i j : dims r c M -> (c <= j)%nat -> G M i j = 0.
Proof.
  intros HM Hj. destruct (Nat.lt_ge_cases i r) as [Hi|Hi].
  - unfold G. apply nth_overflow. rewrite (dims_row r c M i HM Hi). exact Hj.
  - apply G_out_row. destruct HM as (-> & _). exact Hi.
Qed.

(* accumulate sum_k v_k * row_k *)
Lemma fold_axpy_nth (l : list (R * list R)) (acc : list R) c j :
  length acc = c -> (forall p, In p l -> length (snd p) = c) -> (j < c)%nat ->
  nth j (fold_left (fun acc vr => map2 (fun a mij => a + fst vr * mij) acc (snd vr)) l acc) 0 =
  nth j acc 0 + sum_n (fun k => fst (nth k l (0, [])) * nth j (snd (nth k l (0, []))) 0) (length l).
Proof.
  revert acc. induction l as [|p l IH]; intros acc Ha Hl Hj; [simpl; lra|].
  change (fold_left _ (p :: l) acc) with
    (fold_left (fun acc vr => map2 (fun a mij => a + fst vr * mij) acc (snd vr)) l
               (map2 (fun a mij => a + fst p * mij) acc (snd p))).
  assert (Hp : length (snd p) = c) by (apply Hl; left; reflexivity).
  rewrite IH.
  - rewrite (map2_nth _ acc (snd p) j 0 0 0) by lia.
    change (length (p :: l)) with (S (length l)). rewrite sum_n_S_first. simpl. lra.
  - rewrite map2_length, Ha, Hp. apply Nat.min_id.
  - intros q Hq. apply Hl. right. exact Hq.
  - exact Hj.
Qed.

Lemma combine_nth_pair (v : list R) (M : rmat) k :
  length v = length M -> nth k (combine v M) (0, []) = (nth k v 0, nth k M []).
Proof. intro H. apply combine_nth. exact H. Qed.

Lemma vdotm_nth r c (M : rmat) (v : list R) j :
  dims r c M -> length v = r -> (0 < r)%nat -> (j < c)%nat ->
  nth j (vdotm XR v M) 0 = sum_n (fun k => V v k * G M k j) r.
Proof.
  intros HM Hv Hr Hj. unfold vdotm.
  change (fold_left _ (combine v M) (zeros XR (ncols M))) with
    (fold_left (fun acc vr => map2 (fun a mij => a + fst vr * mij) acc (snd vr)) (combine v M) (repeat 0 (ncols M))).
  assert (Hnc : ncols M = c).
  { unfold ncols. destruct M as [|row M']; [destruct HM as (H & _); simpl in H; lia|].
    simpl. destruct HM as (_ & H). apply H. left. reflexivity. }
  destruct HM as (Hlen & Hrows).
  rewrite (fold_axpy_nth _ _ c j).
  - rewrite nth_repeat0, Rplus_0_l. rewrite combine_length, Hv, Hlen, Nat.min_id.
    apply sum_n_ext. intros k Hk. rewrite combine_nth_pair by lia. reflexivity.
  - rewrite repeat_length. exact Hnc.
  - intros p Hp. apply Hrows. destruct p as (a, row). apply in_combine_r in Hp. exact Hp.
  - exact Hj.
Qed.

Lemma nth_map_scale (l : list R) (b : R) k : nth k (map (fun y => y * b) l) 0 = nth k l 0 * b.
Proof. revert k. induction l as [|a l IH]; intros [|k]; simpl; try ring; auto. Qed.

Lemma vdotm_length r c (M : rmat) (v : list R) :
  dims r c M -> length v = r -> (0 < r)%nat -> length (vdotm XR v M) = c.
Proof.
  intros HM Hv Hr. unfold vdotm.
  assert (Hnc : ncols M = c).
  { unfold ncols. destruct M as [|row M']; [destruct HM as (H & _); simpl in H; lia|].
    simpl. destruct HM as (_ & H). apply H. left. reflexivity. }
  destruct HM as (Hlen & Hrows).
  assert (Hgen : forall (l : list (R * list R)) acc, length acc = c ->
            (forall p, In p l -> length (snd p) = c) ->
            length (fold_left (fun acc vr => map2 (fun a mij => add (nx XR) a (mul (nx XR) (fst vr) mij)) acc (snd vr)) l acc) = c).
  { induction l as [|p l IH]; intros acc Ha Hl; [exact Ha|].
    simpl. apply IH.
    - rewrite map2_length, Ha, (Hl p) by (left; reflexivity). apply Nat.min_id.
    - intros q Hq. apply Hl. right. exact Hq. }
  apply Hgen.
  - unfold zeros. rewrite repeat_length. exact Hnc.
  - intros p Hp. apply Hrows. destruct p as (a, row). apply in_combine_r in Hp. exact Hp.
Qed.

(* house_left M beta nu = (I - beta nu nu^T) M *)
Theorem house_left_index r c (M : rmat) (beta : R) (nu : list R) :
  dims r c M -> length nu = r ->
  dims r c (house_left XR M beta nu) /\
  forall i j, (i < r)%nat -> (j < c)%nat ->
    G (house_left XR M beta nu) i j = sum_n (fun k => refl beta nu i k * G M k j) r.
Proof.
  intros HM Hnu.
  destruct (Nat.eq_dec r 0) as [->|Hr0].
  { split; [|intros; lia]. destruct HM as (Hl & _). destruct M; [|simpl in Hl; lia].
    destruct nu; [|simpl in Hnu; lia]. split; [reflexivity|]. intros row []. }
  assert (Hr : (0 < r)%nat) by lia.
  pose proof (vdotm_length r c M nu HM Hnu Hr) as Hvl.
  unfold house_left.
  set (t := map (fun y => mul (nx XR) y beta) (vdotm XR nu M)).
  assert (Ht : length t = c) by (unfold t; rewrite map_length; exact Hvl).
  assert (Hrow : forall i, (i < r)%nat ->
            nth i (map2 (fun nui row => map2 (fun a tj => sub (nx XR) a (mul (nx XR) nui tj)) row t) nu M) [] =
            map2 (fun a tj => a - nth i nu 0 * tj) (nth i M []) t).
  { intros i Hi. destruct HM as (Hl & _).
    rewrite (map2_nth _ nu M i 0 [] []) by lia. reflexivity. }
  split.
  - apply dims_intro.
    + rewrite map2_length. destruct HM as (Hl & _). rewrite Hnu, Hl. apply Nat.min_id.
    + intros i Hi. rewrite Hrow by exact Hi. rewrite map2_length, Ht, (dims_row r c M i HM Hi). apply Nat.min_id.
  - intros i j Hi Hj. unfold G at 1. rewrite Hrow by exact Hi.
    rewrite (map2_nth _ _ t j 0 0 0) by (rewrite ?(dims_row r c M i HM Hi), ?Ht; lia).
    unfold t. change (fun y => mul (nx XR) y beta) with (fun y => y * beta).
    rewrite nth_map_scale, (vdotm_nth r c M nu j HM Hnu Hr Hj).
    unfold refl.
    rewrite (sum_n_ext (fun k => (delta i k - beta * V nu i * V nu k) * G M k j)
                       (fun k => delta i k * G M k j - (beta * V nu i) * (V nu k * G M k j))).
    2:{ intros k _. ring. }
    rewrite sum_n_minus, sum_n_scal, (sum_n_delta_l (fun k => G M k j)) by exact Hi.
    unfold G, V. ring.
Qed.

Lemma nth_map_lt {B C} (f : B -> C) (l : list B) i db dc :
  (i < length l)%nat -> nth i (map f l) dc = f (nth i l db).
Proof.
  revert i. induction l as [|a l IH]; intros i Hi; simpl in *; [lia|].
  destruct i; [reflexivity|]. apply IH. lia.
Qed.

Lemma mdotv_nth r c (M : rmat) (v : list R) i :
  dims r c M -> (i < r)%nat ->
  nth i (mdotv XR M v) 0 = sum_n (fun k => G M i k * V v k) c.
Proof.
  intros HM Hi. unfold mdotv.
  assert (E : nth i (map (fun row => dotl XR row v (zero (nx XR))) M) 0 = dotl XR (nth i M []) v 0).
  { destruct HM as (Hl & _). rewrite <- Hl in Hi.
    exact (nth_map_lt (fun row => dotl XR row v 0) M i [] 0 Hi). }
  rewrite E, dotl_sum, Rplus_0_l, (dims_row r c M i HM Hi). reflexivity.
Qed.

(* house_right M beta nu = M (I - beta nu nu^T) *)
Theorem house_right_index r c (M : rmat) (beta : R) (nu : list R) :
  dims r c M -> length nu = c ->
  dims r c (house_right XR M beta nu) /\
  forall i j, (i < r)%nat -> (j < c)%nat ->
    G (house_right XR M beta nu) i j = sum_n (fun k => G M i k * refl beta nu k j) c.
Proof.
  intros HM Hnu. unfold house_right.
  set (t := map (fun y => mul (nx XR) y beta) (mdotv XR M nu)).
  assert (Ht : length t = r) by (unfold t, mdotv; rewrite !map_length; destruct HM; assumption).
  assert (Hrow : forall i, (i < r)%nat ->
            nth i (map2 (fun ti row => map2 (fun a nuj => sub (nx XR) a (mul (nx XR) ti nuj)) row nu) t M) [] =
            map2 (fun a nuj => a - nth i t 0 * nuj) (nth i M []) nu).
  { intros i Hi. destruct HM as (Hl & _).
    rewrite (map2_nth _ t M i 0 [] []) by lia. reflexivity. }
  split.
  - apply dims_intro.
    + rewrite map2_length. destruct HM as (Hl & _). rewrite Ht, Hl. apply Nat.min_id.
    + intros i Hi. rewrite Hrow by exact Hi. rewrite map2_length, Hnu, (dims_row r c M i HM Hi). apply Nat.min_id.
  - intros i j Hi Hj. unfold G at 1. rewrite Hrow by exact Hi.
    rewrite (map2_nth _ _ nu j 0 0 0) by (rewrite ?(dims_row r c M i HM Hi), ?Hnu; lia).
    unfold t. change (fun y => mul (nx XR) y beta) with (fun y => y * beta).
    rewrite nth_map_scale, (mdotv_nth r c M nu i HM Hi).
    unfold refl.
    rewrite (sum_n_ext (fun k => G M i k * (delta k j - beta * V nu k * V nu j))
                       (fun k => delta j k * G M i k - (beta * V nu j) * (G M i k * V nu k))).
    2:{ intros k _. rewrite (delta_sym k j). ring. }
    rewrite sum_n_minus, sum_n_scal, (sum_n_delta_l (fun k => G M i k)) by exact Hj.
    unfold G, V. ring.
Qed.
