(* C05 — round 5: the loop / bookkeeping layer of the Golub-Kahan SVD model (ModelIter.gksvd),
   over R, ASSUMING the two step specifications gk_sweep_spec and zero_row_spec (SpecIter.v) as
   explicit premises. *)
From Coq Require Import Reals List Lia Lra Bool.
From ADV Require Import Base.Num C05.Model C05.Spec C05.ProofsBase C05.ProofsTrace C05.ProofsBand
  C05.ProofsBlock C05.ProofsHouse2 C05.ProofsBidiag C05.ModelIter C05.SpecIter.
Import ListNotations.
Open Scope R_scope.

(* ================================================================== *)
(* 1. set2: shape and entries                                          *)

Lemma set2_dims r c (M : rmat) i j x : dims r c M -> (i < r)%nat -> dims r c (set2 M i j x).
Proof.
  intros HM Hi. pose proof HM as (Hl & Hrows). unfold set2. apply dims_intro.
  - rewrite length_set_nth. exact Hl.
  - intros a Ha. destruct (Nat.eq_dec a i) as [->|Hne].
    + rewrite nth_set_nth_eq by lia. rewrite length_set_nth. apply (dims_row_length r c M i HM Hi).
    + rewrite nth_set_nth_neq by exact Hne. apply (dims_row_length r c M a HM Ha).
Qed.

Lemma set2_G r c (M : rmat) i j x a b : dims r c M -> (i < r)%nat -> (j < c)%nat ->
  G (set2 M i j x) a b = if (Nat.eqb a i && Nat.eqb b j)%bool then x else G M a b.
Proof.
  intros HM Hi Hj. pose proof HM as (Hl & Hrows). unfold G, set2.
  destruct (Nat.eq_dec a i) as [->|Hne].
  - rewrite Nat.eqb_refl. rewrite nth_set_nth_eq by lia. cbn [andb].
    destruct (Nat.eq_dec b j) as [->|Hnb].
    + rewrite Nat.eqb_refl. apply nth_set_nth_eq. rewrite (dims_row_length r c M i HM Hi). exact Hj.
    + destruct (Nat.eqb b j) eqn:E; [apply Nat.eqb_eq in E; lia|]. apply nth_set_nth_neq. exact Hnb.
  - destruct (Nat.eqb a i) eqn:E; [apply Nat.eqb_eq in E; lia|]. cbn [andb].
    rewrite nth_set_nth_neq by exact Hne. reflexivity.
Qed.

Lemma set2_G_same r c (M : rmat) i j x : dims r c M -> (i < r)%nat -> (j < c)%nat ->
  G (set2 M i j x) i j = x.
Proof. intros. rewrite (set2_G r c) by assumption. rewrite !Nat.eqb_refl. reflexivity. Qed.

Lemma set2_G_other r c (M : rmat) i j x a b : dims r c M -> (i < r)%nat -> (j < c)%nat ->
  (a <> i \/ b <> j) -> G (set2 M i j x) a b = G M a b.
Proof.
  intros HM Hi Hj Hne. rewrite (set2_G r c) by assumption.
  destruct (Nat.eqb a i) eqn:E1; destruct (Nat.eqb b j) eqn:E2; cbn [andb]; try reflexivity.
  apply Nat.eqb_eq in E1. apply Nat.eqb_eq in E2. lia.
Qed.

(* ================================================================== *)
(* 2. the deflation step and pass                                      *)

Lemma negligible_R eps a b c :
  negligible XR eps a b c = true <-> Rabs b <= eps * (Rabs a + Rabs c).
Proof. unfold negligible. cbn. apply Rleb_true. Qed.

Lemma svd_defl_at_dims eps n (B : rmat) i : dims n n B -> (S i < n)%nat ->
  dims n n (svd_defl_at XR eps B i).
Proof.
  intros HB Hi. unfold svd_defl_at.
  destruct (negligible XR eps (get XR B i i) (get XR B i (S i)) (get XR B (S i) (S i))); [|exact HB].
  apply set2_dims; [exact HB|lia].
Qed.

(* entries unchanged except (i, i+1), which becomes 0 exactly when the coded test succeeds *)
Lemma svd_defl_at_effect eps n (B : rmat) i : dims n n B -> (S i < n)%nat ->
  (forall a b, (a <> i \/ b <> S i) -> G (svd_defl_at XR eps B i) a b = G B a b) /\
  (Rabs (G B i (S i)) <= eps * (Rabs (G B i i) + Rabs (G B (S i) (S i))) ->
     G (svd_defl_at XR eps B i) i (S i) = 0) /\
  (~ Rabs (G B i (S i)) <= eps * (Rabs (G B i i) + Rabs (G B (S i) (S i))) ->
     G (svd_defl_at XR eps B i) i (S i) = G B i (S i)).
Proof.
  intros HB Hi. unfold svd_defl_at.
  change (get XR B i i) with (G B i i). change (get XR B i (S i)) with (G B i (S i)).
  change (get XR B (S i) (S i)) with (G B (S i) (S i)).
  destruct (negligible XR eps (G B i i) (G B i (S i)) (G B (S i) (S i))) eqn:E.
  - apply negligible_R in E. split; [|split].
    + intros a b Hab. apply (set2_G_other n n); [exact HB|lia|lia|exact Hab].
    + intros _. apply (set2_G_same n n); [exact HB|lia|lia].
    + intro Hn. contradiction.
  - split; [|split].
    + reflexivity.
    + intro H. apply negligible_R in H. rewrite H in E. discriminate.
    + reflexivity.
Qed.

(* weaker, convenient form: every entry is kept or becomes zero *)
Lemma svd_defl_at_keep0 eps n (B : rmat) i a b : dims n n B -> (S i < n)%nat ->
  G (svd_defl_at XR eps B i) a b = G B a b \/ G (svd_defl_at XR eps B i) a b = 0.
Proof.
  intros HB Hi. destruct (svd_defl_at_effect eps n B i HB Hi) as (H1 & H2 & H3).
  destruct (Nat.eq_dec a i) as [->|Ha]; [|left; apply H1; lia].
  destruct (Nat.eq_dec b (S i)) as [->|Hb]; [|left; apply H1; lia].
  destruct (Rle_dec (Rabs (G B i (S i))) (eps * (Rabs (G B i i) + Rabs (G B (S i) (S i))))) as [Hle|Hn].
  - right. apply H2. exact Hle.
  - left. apply H3. exact Hn.
Qed.

Lemma svd_defl_at_bidiag eps n (B : rmat) i : dims n n B -> (S i < n)%nat ->
  upper_bidiagonal B -> upper_bidiagonal (svd_defl_at XR eps B i).
Proof.
  intros HB Hi Hbd a b Hab.
  destruct (svd_defl_at_keep0 eps n B i a b HB Hi) as [E|E]; [|exact E].
  rewrite E. apply Hbd. exact Hab.
Qed.

(* with eps = 0 the deflation changes no entry *)
Lemma svd_defl_at_eps0 n (B : rmat) i a b : dims n n B -> (S i < n)%nat ->
  G (svd_defl_at XR 0 B i) a b = G B a b.
Proof.
  intros HB Hi. destruct (svd_defl_at_effect 0 n B i HB Hi) as (H1 & H2 & H3).
  destruct (Nat.eq_dec a i) as [->|Ha]; [|apply H1; lia].
  destruct (Nat.eq_dec b (S i)) as [->|Hb]; [|apply H1; lia].
  destruct (Rle_dec (Rabs (G B i (S i))) (0 * (Rabs (G B i i) + Rabs (G B (S i) (S i))))) as [Hle|Hn].
  - rewrite (H2 Hle). rewrite Rmult_0_l in Hle.
    pose proof (Rabs_pos (G B i (S i))) as Hp.
    assert (Hz : Rabs (G B i (S i)) = 0) by lra.
    destruct (Req_dec (G B i (S i)) 0) as [E|E]; [symmetry; exact E|].
    apply Rabs_no_R0 in E. contradiction.
  - apply H3. exact Hn.
Qed.

Lemma ubv_congr m n (B1 U1 V1 B2 U2 V2 : rmat) :
  meq m n (G B1) (G B2) -> meq m m (G U1) (G U2) -> meq n n (G V1) (G V2) ->
  meq m n (ubv m n B1 U1 V1) (ubv m n B2 U2 V2).
Proof.
  intros EB EU EV. unfold ubv. apply ubvt_congr. unfold seq_state. cbn [sB sU sV]. auto.
Qed.

Lemma svd_reach_eps0 : forall m n A0 A1, svd_reach 0 m n A0 A1 -> meq m n A1 A0.
Proof.
  intros m n A0 A1 H. induction H as [|A1 A2 H IH E|B U V i H IH HB HU HV HOU HOV Hi].
  - apply meq_refl.
  - eapply meq_trans; [exact E|exact IH].
  - eapply meq_trans; [|exact IH].
    apply ubv_congr; [|apply meq_refl|apply meq_refl].
    intros a b _ _. apply (svd_defl_at_eps0 n); assumption.
Qed.

(* ================================================================== *)
(* 3. invariant of the loop, deflation pass                            *)

Section Loop.
Variables (eps : R) (m n : nat) (A0 : fmatR).

Definition core (B U V : rmat) : Prop :=
  dims n n B /\ upper_bidiagonal B /\ dims m m U /\ dims n n V /\
  orth m (G U) /\ orth n (G V) /\ svd_reach eps m n A0 (ubv m n B U V).

(* the super-diagonal entries already split off at the bottom *)
Definition bk (B : rmat) (q : nat) : Prop :=
  forall j, (n - q <= j < n)%nat -> (1 <= j)%nat -> G B (j - 1) j = 0.

Lemma svd_defl_fold (U V : rmat) : forall (l : list nat) (B : rmat),
  (forall i, In i l -> (S i < n)%nat) -> core B U V ->
  core (fold_left (svd_defl_at XR eps) l B) U V /\
  (forall a b, G B a b = 0 -> G (fold_left (svd_defl_at XR eps) l B) a b = 0).
Proof.
  induction l as [|i l IH]; intros B Hl HC; [split; [exact HC|auto]|].
  cbn [fold_left].
  destruct HC as (HB & Hbd & HU & HV & HOU & HOV & HR).
  assert (Hi : (S i < n)%nat) by (apply Hl; left; reflexivity).
  destruct (IH (svd_defl_at XR eps B i)) as (HC' & Hz').
  - intros k Hk. apply Hl. right. exact Hk.
  - split; [apply svd_defl_at_dims; assumption|]. split; [apply (svd_defl_at_bidiag eps n); assumption|].
    split; [exact HU|]. split; [exact HV|]. split; [exact HOU|]. split; [exact HOV|].
    apply vr_defl; assumption.
  - split; [exact HC'|]. intros a b Hab. apply Hz'.
    destruct (svd_defl_at_keep0 eps n B i a b HB Hi) as [E|E]; [rewrite E; exact Hab|exact E].
Qed.

Lemma svd_defl_pass_spec (B U V : rmat) : core B U V ->
  core (svd_defl_pass XR eps n B) U V /\
  (forall a b, G B a b = 0 -> G (svd_defl_pass XR eps n B) a b = 0).
Proof.
  intro HC. unfold svd_defl_pass. apply svd_defl_fold; [|exact HC].
  intros i Hi. apply in_seq in Hi. lia.
Qed.

(* ================================================================== *)
(* 4. the split search                                                 *)

Lemma split_q_up_spec (T : rmat) : forall fuel q,
  let q1 := split_q_up XR fuel T n q in
  (q <= q1)%nat /\ (q1 <= Nat.max q (n - 1))%nat /\
  (forall q', (q <= q' < q1)%nat -> G T (n - q' - 2) (n - q' - 1) = 0) /\
  ((n - 1 - q <= fuel)%nat -> (q1 < n - 1)%nat -> G T (n - q1 - 2) (n - q1 - 1) <> 0).
Proof.
  induction fuel as [|f IH]; intro q; cbn [split_q_up].
  - split; [lia|]. split; [lia|]. split; [intros; lia|]. intros; lia.
  - destruct (Nat.ltb q (n - 1)) eqn:Eq.
    + apply Nat.ltb_lt in Eq.
      change (eqb (nx XR) (get XR T (n - q - 1 - 1) (n - q - 1)) (zero (nx XR)))
        with (Reqb (G T (n - q - 1 - 1) (n - q - 1)) 0).
      destruct (Reqb (G T (n - q - 1 - 1) (n - q - 1)) 0) eqn:Ez.
      * apply Reqb_true in Ez. destruct (IH (S q)) as (H1 & H2 & H3 & H4).
        split; [lia|]. split; [lia|]. split.
        -- intros q' Hq'. destruct (Nat.eq_dec q' q) as [->|Hne].
           ++ replace (n - q - 2)%nat with (n - q - 1 - 1)%nat by lia. exact Ez.
           ++ apply H3. lia.
        -- intros Hf Hlt. apply H4; [lia|exact Hlt].
      * split; [lia|]. split; [lia|]. split; [intros; lia|]. intros _ _ Hz.
        replace (n - q - 2)%nat with (n - q - 1 - 1)%nat in Hz by lia.
        apply Reqb_true in Hz. rewrite Hz in Ez. discriminate.
    + apply Nat.ltb_ge in Eq. split; [lia|]. split; [lia|]. split; [intros; lia|]. intros; lia.
Qed.

Lemma split_p_down_spec (T : rmat) : forall fuel p0,
  let p := split_p_down XR fuel T p0 in
  (p <= p0)%nat /\ ((p0 <= fuel)%nat -> (0 < p)%nat -> G T (p - 1) p = 0).
Proof.
  induction fuel as [|f IH]; intro p0; cbn [split_p_down].
  - split; [lia|]. intros; lia.
  - destruct p0 as [|p']; [split; [lia|intros; lia]|].
    change (eqb (nx XR) (get XR T p' (S p')) (zero (nx XR))) with (Reqb (G T p' (S p')) 0).
    destruct (Reqb (G T p' (S p')) 0) eqn:Ez.
    + apply Reqb_true in Ez. split; [lia|]. intros _ _. replace (S p' - 1)%nat with p' by lia. exact Ez.
    + destruct (IH p') as (H1 & H2). split; [lia|]. intros Hf Hp. apply H2; [lia|exact Hp].
Qed.

(* what the loop needs from splitMatrix *)
Lemma split_sym_spec (T : rmat) q p q1 : (q < n)%nat -> bk T q ->
  split_sym XR T n q = (p, q1) ->
  bk T q1 /\ (q1 = n \/ (q1 < n - 1)%nat) /\
  ((q1 < n - 1)%nat -> (p + 2 <= n - q1)%nat /\ ((0 < p)%nat -> G T (p - 1) p = 0)).
Proof.
  intros Hq Hbk E. unfold split_sym in E.
  pose proof (split_q_up_spec T n q) as (H1 & H2 & H3 & H4). cbv zeta in H1, H2, H3, H4.
  set (q1' := split_q_up XR n T n q) in *.
  assert (Hbk' : bk T q1').
  { intros j Hj Hj1. destruct (Nat.le_gt_cases (n - q) j) as [Hle|Hgt]; [apply Hbk; lia|].
    specialize (H3 (n - j - 1)%nat ltac:(lia)).
    replace (n - (n - j - 1) - 2)%nat with (j - 1)%nat in H3 by lia.
    replace (n - (n - j - 1) - 1)%nat with j in H3 by lia. exact H3. }
  destruct (Nat.eqb q1' (n - 1)) eqn:Eq1.
  - apply Nat.eqb_eq in Eq1. injection E as Ep Eq. subst q1.
    split; [|split; [left; reflexivity|intros; lia]].
    intros j Hj Hj1. apply Hbk'; lia.
  - apply Nat.eqb_neq in Eq1. injection E as Ep Eq. subst q1.
    split; [exact Hbk'|]. split; [right; lia|]. intro Hlt.
    pose proof (split_p_down_spec T n (n - q1' - 1)) as (P1 & P2). cbv zeta in P1, P2.
    rewrite Ep in P1, P2. specialize (H4 ltac:(lia) Hlt).
    assert (Hz : (0 < p)%nat -> G T (p - 1) p = 0) by (intro Hp; apply P2; lia).
    split; [|exact Hz].
    destruct (Nat.eq_dec p (n - q1' - 1)) as [Epp|Hne]; [|lia].
    exfalso. apply H4. specialize (Hz ltac:(lia)). rewrite Epp in Hz.
    replace (n - q1' - 2)%nat with (n - q1' - 1 - 1)%nat by lia. exact Hz.
Qed.

(* ================================================================== *)
(* 5. one outer iteration                                              *)

Hypothesis Hsweep : gk_sweep_spec.
Hypothesis Hzero : zero_row_spec.
Hypothesis Hnm : (n <= m)%nat.

Definition okst (st : @svd_st R) (q : nat) : Prop :=
  exists B U V, st = (B, Some U, Some V) /\ core B U V /\ bk B q.

Lemma zero_rows_at_step q st t k : (k < n)%nat -> okst st q ->
  exists st' t', zero_rows_at XR n (st, t) k = (st', t') /\ okst st' q /\
    (t' = true -> st' = st /\ t = true).
Proof.
  intros Hk (B & U & V & -> & HC & Hbk). unfold zero_rows_at. cbn [fst].
  change (eqb (nx XR) (get XR B k k) (zero (nx XR))) with (Reqb (G B k k) 0).
  destruct (Reqb (G B k k) 0) eqn:Ez.
  - apply Reqb_true in Ez. destruct HC as (HB & Hbd & HU & HV & HOU & HOV & HR).
    destruct (Hzero m n k B U V HB Hbd HU HV Hnm Hk Ez)
      as (B1 & U1 & E & HB1 & Hbd1 & HU1 & Hrow & Hup & Hdown & Hmeq & Horth).
    exists (B1, Some U1, Some V), false. split; [f_equal; exact E|]. split; [|discriminate].
    exists B1, U1, V. split; [reflexivity|]. split.
    + split; [exact HB1|]. split; [exact Hbd1|]. split; [exact HU1|]. split; [exact HV|].
      split; [apply Horth; exact HOU|]. split; [exact HOV|].
      eapply vr_meq; [exact HR|exact Hmeq].
    + intros j Hj Hj1. specialize (Hbk j Hj Hj1).
      destruct (Nat.lt_trichotomy (j - 1) k) as [Hlt|[Heq|Hgt]].
      * rewrite Hup by exact Hlt. exact Hbk.
      * rewrite Heq. apply Hrow.
      * replace j with (S (j - 1)) at 2 by lia. apply Hdown; [exact Hgt|].
        replace (S (j - 1)) with j by lia. exact Hbk.
  - exists (B, Some U, Some V), t. split; [reflexivity|]. split; [|auto].
    exists B, U, V. auto.
Qed.

Lemma zero_rows_fold q : forall (l : list nat) st t,
  (forall k, In k l -> (k < n)%nat) -> okst st q ->
  exists st' t', fold_left (zero_rows_at XR n) l (st, t) = (st', t') /\ okst st' q /\
    (t' = true -> st' = st /\ t = true).
Proof.
  induction l as [|k l IH]; intros st t Hl Hok.
  - exists st, t. cbn. auto.
  - cbn [fold_left].
    destruct (zero_rows_at_step q st t k ltac:(apply Hl; left; reflexivity) Hok) as (st1 & t1 & E1 & Hok1 & Ht1).
    rewrite E1.
    destruct (IH st1 t1 ltac:(intros k' Hk'; apply Hl; right; exact Hk') Hok1) as (st2 & t2 & E2 & Hok2 & Ht2).
    exists st2, t2. split; [exact E2|]. split; [exact Hok2|].
    intro Ht. destruct (Ht2 Ht) as (-> & ->). apply Ht1. reflexivity.
Qed.

Ltac rw_fold E :=
  match goal with |- context [fold_left ?f ?l ?s] =>
    let T := type of E in
    match T with _ = ?rhs =>
      let H := fresh in assert (H : fold_left f l s = rhs) by exact E; rewrite H; clear H
    end
  end.

Lemma svd_outer_spec st q : (q < n)%nat -> okst st q ->
  exists st' q', svd_outer XR eps n (st, q) = (st', q') /\ okst st' q'.
Proof.
  intros Hq (B & U & V & -> & HC & Hbk). unfold svd_outer.
  destruct (svd_defl_pass_spec B U V HC) as (HC1 & Hz1).
  set (B1 := svd_defl_pass XR eps n B) in *.
  assert (Hbk1 : bk B1 q) by (intros j Hj Hj1; apply Hz1; apply Hbk; assumption).
  destruct (split_sym XR B1 n q) as [p q1] eqn:Es.
  destruct (split_sym_spec B1 q p q1 Hq Hbk1 Es) as (Hbkq1 & Hq1 & Hp).
  destruct (Nat.ltb q1 (n - 1)) eqn:El.
  - apply Nat.ltb_lt in El. destruct (Hp El) as (Hp2 & Hp0).
    assert (Hok1 : okst (B1, Some U, Some V) q1) by (exists B1, U, V; auto).
    destruct (zero_rows_fold q1 (seq p (n - q1 - 1 - p)) (B1, Some U, Some V) true
                ltac:(intros k Hk; apply in_seq in Hk; lia) Hok1) as (st2 & t2 & E2 & Hok2 & Ht2).
    rw_fold E2. destruct t2.
    + destruct (Ht2 eq_refl) as (-> & _).
      destruct HC1 as (HB & Hbd & HU & HV & HOU & HOV & HR).
      assert (Hbot : (p + (n - q1 - p) < n)%nat -> G B1 (p + (n - q1 - p) - 1) (p + (n - q1 - p)) = 0).
      { intro Hlt. replace (p + (n - q1 - p))%nat with (n - q1)%nat by lia. apply Hbkq1; lia. }
      destruct (Hsweep m n p (n - q1 - p)%nat B1 U V HB Hbd HU HV Hnm ltac:(lia) ltac:(lia) Hp0 Hbot)
        as (Bb & U1 & V1 & E & HB' & Hbd' & HU1 & HV1 & Hout & Hmeq & HoU & HoV).
      replace (p + (n - q1 - p))%nat with (n - q1)%nat in E by lia.
      match goal with |- context [gk_sweep ?a ?b ?c ?d ?e ?f] =>
        assert (E' : gk_sweep a b c d e f = (Bb, Some U1, Some V1)) by exact E; rewrite E'; clear E' end.
      eexists; eexists; split; [reflexivity|].
      exists (put_block B1 p p Bb), U1, V1. split; [reflexivity|]. split.
      * split; [exact HB'|]. split; [exact Hbd'|]. split; [exact HU1|]. split; [exact HV1|].
        split; [apply HoU; exact HOU|]. split; [apply HoV; exact HOV|].
        eapply vr_meq; [exact HR|exact Hmeq].
      * intros j Hj Hj1. rewrite Hout by lia. apply Hbkq1; assumption.
    + eexists; eexists; split; [reflexivity|]. exact Hok2.
  - apply Nat.ltb_ge in El. eexists; eexists; split; [reflexivity|].
    exists B1, U, V. auto.
Qed.

(* ================================================================== *)
(* 6. the loop                                                         *)

Lemma bk_diag (B : rmat) q : dims n n B -> upper_bidiagonal B -> (n <= q)%nat -> bk B q ->
  forall i j, i <> j -> G B i j = 0.
Proof.
  intros HB Hbd Hq Hbk i j Hij.
  destruct (Nat.lt_ge_cases j n) as [Hj|Hj]; [|apply (G_out_col n n B); assumption].
  destruct (Nat.eq_dec j (S i)) as [->|Hne]; [|apply Hbd; lia].
  specialize (Hbk (S i) ltac:(lia) ltac:(lia)). replace (S i - 1)%nat with i in Hbk by lia. exact Hbk.
Qed.

Lemma svd_loop_spec : forall fuel st q, okst st q ->
  exists B U V conv, svd_loop XR fuel eps n (st, q) = ((B, Some U, Some V), conv) /\
    core B U V /\ (conv = true -> forall i j, i <> j -> G B i j = 0).
Proof.
  induction fuel as [|f IH]; intros st q Hok; cbn [svd_loop].
  - destruct (Nat.ltb q n) eqn:El; destruct Hok as (B & U & V & -> & HC & Hbk).
    + exists B, U, V, false. split; [reflexivity|]. split; [exact HC|discriminate].
    + apply Nat.ltb_ge in El. exists B, U, V, true. split; [reflexivity|]. split; [exact HC|].
      intros _. destruct HC as (HB & Hbd & _). apply (bk_diag B q); assumption.
  - destruct (Nat.ltb q n) eqn:El.
    + apply Nat.ltb_lt in El. destruct (svd_outer_spec st q El Hok) as (st' & q' & E & Hok').
      rewrite E. apply IH. exact Hok'.
    + destruct Hok as (B & U & V & -> & HC & Hbk).
      apply Nat.ltb_ge in El. exists B, U, V, true. split; [reflexivity|]. split; [exact HC|].
      intros _. destruct HC as (HB & Hbd & _). apply (bk_diag B q); assumption.
Qed.

(* ================================================================== *)
(* 7. sign flips                                                       *)

Definition sgn (i a : nat) : R := if Nat.eqb a i then -1 else 1.

Lemma sgn_sq i a : sgn i a * sgn i a = 1.
Proof. unfold sgn. destruct (Nat.eqb a i); lra. Qed.

Lemma negcol_dims (V : rmat) i : dims n n V -> dims n n (negcol XR V i).
Proof.
  intros (Hl & Hrows). unfold negcol. split.
  - rewrite map_length. exact Hl.
  - intros row Hin. apply in_map_iff in Hin. destruct Hin as (r0 & <- & Hin).
    rewrite length_set_nth. apply Hrows. exact Hin.
Qed.

Lemma negcol_G (V : rmat) i a b : dims n n V -> (i < n)%nat -> (a < n)%nat ->
  G (negcol XR V i) a b = sgn i b * G V a b.
Proof.
  intros HV Hi Ha. pose proof HV as (Hl & Hrows). unfold G, negcol.
  rewrite (nth_map_lt (fun row => set_nth row i (neg (nx XR) (nth i row (zero (nx XR))))) V a [] []) by lia.
  unfold sgn. destruct (Nat.eq_dec b i) as [->|Hne].
  - rewrite Nat.eqb_refl. rewrite nth_set_nth_eq.
    + cbn. lra.
    + rewrite (dims_row_length n n V a HV Ha). exact Hi.
  - destruct (Nat.eqb b i) eqn:E; [apply Nat.eqb_eq in E; lia|].
    rewrite nth_set_nth_neq by exact Hne. lra.
Qed.

Lemma negcol_orth (V : rmat) i : dims n n V -> (i < n)%nat -> orth n (G V) -> orth n (G (negcol XR V i)).
Proof.
  intros HV Hi (H1 & H2). split; intros a b Ha Hb; unfold mmul, tr.
  - rewrite (sum_n_ext _ (fun k => (sgn i a * sgn i b) * (G V k a * G V k b))).
    2:{ intros k Hk. rewrite !negcol_G by assumption. ring. }
    rewrite sum_n_scal. specialize (H1 a b Ha Hb). unfold mmul, tr in H1. rewrite H1.
    unfold delta. destruct (Nat.eqb a b) eqn:E.
    + apply Nat.eqb_eq in E. subst b. rewrite sgn_sq. lra.
    + lra.
  - rewrite (sum_n_ext _ (fun k => G V a k * G V b k)).
    2:{ intros k Hk. rewrite !negcol_G by assumption.
        transitivity ((sgn i k * sgn i k) * (G V a k * G V b k)); [ring|]. rewrite sgn_sq. lra. }
    apply (H2 a b Ha Hb).
Qed.

Definition isdiag (B : rmat) : Prop := forall i j, i <> j -> G B i j = 0.

Lemma flip_at_spec (B U V : rmat) i : (i < n)%nat ->
  dims n n B -> isdiag B -> dims n n V -> orth n (G V) ->
  exists B' V', flip_at XR (B, Some U, Some V) i = (B', Some U, Some V') /\
    dims n n B' /\ isdiag B' /\ dims n n V' /\ orth n (G V') /\
    meq m n (ubv m n B' U V') (ubv m n B U V) /\
    0 <= G B' i i /\ (forall a, a <> i -> G B' a a = G B a a).
Proof.
  intros Hi HB Hd HV HOV. unfold flip_at.
  change (ltb (nx XR) (get XR B i i) (zero (nx XR))) with (Rltb (G B i i) 0).
  change (neg (nx XR) (get XR B i i)) with (- G B i i).
  destruct (Rltb (G B i i) 0) eqn:El.
  - apply Rltb_true in El.
    exists (set2 B i i (- G B i i)), (negcol XR V i). split; [reflexivity|].
    split; [apply set2_dims; assumption|]. split.
    { intros a b Hab. rewrite (set2_G_other n n) by (try assumption; lia). apply Hd. exact Hab. }
    split; [apply negcol_dims; exact HV|]. split; [apply negcol_orth; assumption|]. split.
    { unfold ubv, ubvt. cbn [sB sU sV]. apply mmul_congr; [apply meq_refl|].
      intros k b Hk Hb. unfold mmul, tr. apply sum_n_ext. intros l Hl.
      rewrite negcol_G by assumption. rewrite (set2_G n n) by assumption. unfold sgn.
      destruct (Nat.eqb l i) eqn:E1.
      - apply Nat.eqb_eq in E1. subst l. destruct (Nat.eqb k i) eqn:E2; cbn [andb].
        + apply Nat.eqb_eq in E2. subst k. ring.
        + apply Nat.eqb_neq in E2. rewrite (Hd k i E2). ring.
      - rewrite andb_false_r. ring. }
    split.
    { rewrite (set2_G_same n n) by assumption. lra. }
    intros a Ha. apply (set2_G_other n n); try assumption. left. exact Ha.
  - exists B, V. split; [reflexivity|]. split; [exact HB|]. split; [exact Hd|]. split; [exact HV|].
    split; [exact HOV|]. split; [apply meq_refl|]. split; [|reflexivity].
    destruct (Rlt_dec (G B i i) 0) as [Hlt|Hge]; [|lra].
    apply Rltb_true in Hlt. rewrite Hlt in El. discriminate.
Qed.

Lemma flip_fold (U : rmat) : forall (l : list nat) (B V : rmat),
  (forall i, In i l -> (i < n)%nat) ->
  dims n n B -> isdiag B -> dims n n V -> orth n (G V) ->
  exists B' V', fold_left (flip_at XR) l (B, Some U, Some V) = (B', Some U, Some V') /\
    dims n n B' /\ isdiag B' /\ dims n n V' /\ orth n (G V') /\
    meq m n (ubv m n B' U V') (ubv m n B U V) /\
    (forall a, 0 <= G B a a -> 0 <= G B' a a) /\ (forall a, In a l -> 0 <= G B' a a).
Proof.
  induction l as [|i l IH]; intros B V Hl HB Hd HV HOV.
  - exists B, V. cbn. split; [reflexivity|]. split; [exact HB|]. split; [exact Hd|]. split; [exact HV|].
    split; [exact HOV|]. split; [apply meq_refl|]. split; [auto|intros a []].
  - cbn [fold_left].
    destruct (flip_at_spec B U V i ltac:(apply Hl; left; reflexivity) HB Hd HV HOV)
      as (B1 & V1 & E1 & HB1 & Hd1 & HV1 & HOV1 & M1 & P1 & K1).
    match goal with |- context [flip_at ?a ?b ?c] =>
      assert (E' : flip_at a b c = (B1, Some U, Some V1)) by exact E1; rewrite E'; clear E' end.
    destruct (IH B1 V1 ltac:(intros k Hk; apply Hl; right; exact Hk) HB1 Hd1 HV1 HOV1)
      as (B2 & V2 & E2 & HB2 & Hd2 & HV2 & HOV2 & M2 & P2 & Q2).
    exists B2, V2. split; [exact E2|]. split; [exact HB2|]. split; [exact Hd2|]. split; [exact HV2|].
    split; [exact HOV2|]. split; [eapply meq_trans; [exact M2|exact M1]|].
    assert (Hstep : forall a, 0 <= G B a a -> 0 <= G B1 a a).
    { intros a Ha. destruct (Nat.eq_dec a i) as [->|Hne]; [exact P1|]. rewrite K1 by exact Hne. exact Ha. }
    split.
    + intros a Ha. apply P2. apply Hstep. exact Ha.
    + intros a [<-|Hin]; [apply P2; exact P1|apply Q2; exact Hin].
Qed.

End Loop.

(* ================================================================== *)
(* 8. gksvd: from the bidiagonalisation to the result                  *)

Definition gksvd_reach_stmt : Prop := forall (fuel : nat) (eps : R) (A : rmat) (m n : nat),
  dims m n A -> (1 <= n <= m)%nat ->
  exists H U V conv, gksvd XR fuel eps true true A = ((H, Some U, Some V), conv) /\
    dims m n H /\ dims m m U /\ dims n n V /\ orth m (G U) /\ orth n (G V) /\
    upper_bidiagonal H /\
    svd_reach eps m n (G A) (ubvt m n (mkSvd (G H) (G U) (G V))) /\
    (conv = true -> (forall i j, i <> j -> G H i j = 0) /\ (forall i, 0 <= G H i i)).

Lemma put_back_G m n (H0 B : rmat) : dims m n H0 -> dims n n B -> (n <= m)%nat ->
  (forall i j, (j < i)%nat -> G H0 i j = 0) ->
  forall i j, G (put_block H0 0 0 B) i j = G B i j.
Proof.
  intros HH HB Hnm Hlow i j.
  destruct (Nat.lt_ge_cases i m) as [Hi|Hi].
  - rewrite (put_block_G m n H0 B n n 0 0 i j HH HB) by lia.
    destruct (Nat.lt_ge_cases j n) as [Hj|Hj].
    + destruct (Nat.lt_ge_cases i n) as [Hin|Hin].
      * replace (Nat.leb 0 i) with true by (symmetry; apply Nat.leb_le; lia).
        replace (Nat.ltb i (0 + n)) with true by (symmetry; apply Nat.ltb_lt; lia).
        replace (Nat.leb 0 j) with true by (symmetry; apply Nat.leb_le; lia).
        replace (Nat.ltb j (0 + n)) with true by (symmetry; apply Nat.ltb_lt; lia).
        cbn [andb]. rewrite !Nat.sub_0_r. reflexivity.
      * replace (Nat.ltb i (0 + n)) with false by (symmetry; apply Nat.ltb_ge; lia).
        rewrite andb_false_r. cbn [andb]. rewrite Hlow by lia.
        symmetry. apply G_out_row. destruct HB as (-> & _). exact Hin.
    + replace (Nat.ltb j (0 + n)) with false by (symmetry; apply Nat.ltb_ge; lia).
      rewrite andb_false_r. rewrite (G_out_col m n H0) by assumption.
      symmetry. apply (G_out_col n n B); assumption.
  - rewrite G_out_row.
    + symmetry. apply G_out_row. destruct HB as (-> & _). lia.
    + assert (Hd : dims m n (put_block H0 0 0 B)) by (apply (put_block_dims m n H0 B n n); try assumption; lia).
      destruct Hd as (-> & _). exact Hi.
Qed.

Lemma gksvd_finish eps m n A0 (H0 B U V : rmat) : dims m n H0 -> (n <= m)%nat ->
  (forall i j, (j < i)%nat -> G H0 i j = 0) -> core eps m n A0 B U V ->
  dims m n (put_block H0 0 0 B) /\ dims m m U /\ dims n n V /\ orth m (G U) /\ orth n (G V) /\
  upper_bidiagonal (put_block H0 0 0 B) /\
  svd_reach eps m n A0 (ubvt m n (mkSvd (G (put_block H0 0 0 B)) (G U) (G V))).
Proof.
  intros HH Hnm Hlow (HB & Hbd & HU & HV & HOU & HOV & HR).
  pose proof (put_back_G m n H0 B HH HB Hnm Hlow) as HG.
  split; [apply (put_block_dims m n H0 B n n); try assumption; lia|].
  split; [exact HU|]. split; [exact HV|]. split; [exact HOU|]. split; [exact HOV|]. split.
  - intros a b Hab. rewrite HG. apply Hbd. exact Hab.
  - eapply vr_meq; [exact HR|]. unfold ubv. apply ubvt_congr. unfold seq_state. cbn [sB sU sV].
    split; [|split; apply meq_refl]. intros i j _ _. apply HG.
Qed.

Theorem gksvd_reach_from_sweep : gk_sweep_spec -> zero_row_spec -> gksvd_reach_stmt.
Proof.
  intros Hs Hz fuel eps A m n HA Hnm.
  destruct (bidiag_sound A m n HA Hnm) as (H0 & U0 & V0 & E & HH0 & HU0 & HV0 & HOU & HOV & HR & Hlow & Hup).
  unfold gksvd. rewrite (ncols_dims m n A HA) by lia.
  match goal with |- context [bidiag2 ?a ?b ?c ?d] =>
    assert (E' : bidiag2 a b c d = (H0, Some U0, Some V0)) by exact E; rewrite E'; clear E' end.
  set (B0 := block H0 0 n 0 n).
  assert (HB0 : dims n n B0).
  { pose proof (block_dims m n H0 0 n 0 n HH0 ltac:(lia) ltac:(lia)) as Hd.
    rewrite !Nat.sub_0_r in Hd. exact Hd. }
  assert (HG0 : forall i j, (i < n)%nat -> (j < n)%nat -> G B0 i j = G H0 i j).
  { intros i j Hi Hj. unfold B0. rewrite (block_G m n H0 0 n 0 n i j HH0) by lia. reflexivity. }
  assert (Hok : okst eps m n (G A) (B0, Some U0, Some V0) 0).
  { exists B0, U0, V0. split; [reflexivity|]. split.
    - split; [exact HB0|]. split.
      + intros a b Hab. destruct (Nat.lt_ge_cases a n) as [Ha|Ha].
        * destruct (Nat.lt_ge_cases b n) as [Hb|Hb]; [|apply (G_out_col n n B0); assumption].
          rewrite HG0 by assumption. destruct Hab; [apply Hlow|apply Hup]; assumption.
        * apply G_out_row. destruct HB0 as (-> & _). exact Ha.
      + split; [exact HU0|]. split; [exact HV0|]. split; [exact HOU|]. split; [exact HOV|].
        eapply vr_meq; [apply vr_start|]. eapply meq_trans; [|exact HR].
        unfold ubv. apply ubvt_congr. unfold seq_state. cbn [sB sU sV].
        split; [|split; apply meq_refl]. intros i j Hi Hj.
        destruct (Nat.lt_ge_cases i n) as [Hin|Hin]; [apply HG0; assumption|].
        rewrite Hlow by lia. apply G_out_row. destruct HB0 as (-> & _). exact Hin.
    - intros j Hj Hj1. lia. }
  destruct (svd_loop_spec eps m n (G A) Hs Hz ltac:(lia) fuel _ 0%nat Hok) as (B & U & V & conv & EL & HC & Hconv).
  match goal with |- context [svd_loop ?a ?b ?c ?d ?e] =>
    assert (E' : svd_loop a b c d e = ((B, Some U, Some V), conv)) by exact EL; rewrite E'; clear E' end.
  destruct conv.
  - specialize (Hconv eq_refl). destruct HC as (HB & Hbd & HU & HV & HOU' & HOV' & HR').
    unfold flip_signs.
    destruct (flip_fold m n ltac:(lia) U (seq 0 n) B V ltac:(intros i Hi; apply in_seq in Hi; lia) HB Hconv HV HOV')
      as (B' & V' & EF & HB' & Hd' & HV' & HOV'' & M' & _ & Pos).
    match goal with |- context [fold_left ?f ?l ?s] =>
      assert (E' : fold_left f l s = (B', Some U, Some V')) by exact EF; rewrite E'; clear E' end.
    assert (HC' : core eps m n (G A) B' U V').
    { split; [exact HB'|]. split; [intros a b Hab; apply Hd'; lia|]. split; [exact HU|]. split; [exact HV'|].
      split; [exact HOU'|]. split; [exact HOV''|]. eapply vr_meq; [exact HR'|exact M']. }
    destruct (gksvd_finish eps m n (G A) H0 B' U V' HH0 ltac:(lia) Hlow HC') as (F1 & F2 & F3 & F4 & F5 & F6 & F7).
    exists (put_block H0 0 0 B'), U, V', true. split; [reflexivity|].
    split; [exact F1|]. split; [exact F2|]. split; [exact F3|]. split; [exact F4|]. split; [exact F5|].
    split; [exact F6|]. split; [exact F7|]. intros _.
    pose proof (put_back_G m n H0 B' HH0 HB' ltac:(lia) Hlow) as HG. split.
    + intros i j Hij. rewrite HG. apply Hd'. exact Hij.
    + intro i. rewrite HG. destruct (Nat.lt_ge_cases i n) as [Hi|Hi].
      * apply Pos. apply in_seq. lia.
      * rewrite (G_out_col n n B') by assumption. lra.
  - destruct (gksvd_finish eps m n (G A) H0 B U V HH0 ltac:(lia) Hlow HC) as (F1 & F2 & F3 & F4 & F5 & F6 & F7).
    exists (put_block H0 0 0 B), U, V, false. split; [reflexivity|].
    split; [exact F1|]. split; [exact F2|]. split; [exact F3|]. split; [exact F4|]. split; [exact F5|].
    split; [exact F6|]. split; [exact F7|]. discriminate.
Qed.
