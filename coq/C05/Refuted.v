(* C05 — witnesses evaluated on the binary64 instance (these small-integer
   computations are exact): regression cases of retired findings and one quirk of
   the unchanged library that the faithful model exhibits. *)
From Coq Require Import String List ZArith Bool Floats.
From ADV Require Import Base.Num Base.Corr C05.Model C05.Corr.
Import ListNotations.
Open Scope float_scope.

(* Regression witnesses of two retired findings (fixed in /repo by 0e89154 and
   b6e746d).  The pre-fix models [tridiag], [gram_schmidt_in] still exhibit the
   defect; the HEAD models [tridiag2], [gram_schmidt_in2] do not. *)

(* was F-TRIDIAG-SIGN: already tridiagonal input with a negative off-diagonal entry.
   HEAD: reflectors are the identity, U = I and T = A. *)
Lemma tridiag_sign_regression :
  let A : fmat := [[1;-2;0];[-2;3;1];[0;1;1]] in
  (let r := tridiag2 NumXF true A in
   ofm_eqb (snd r) (Some (ident NumXF 3)) = true /\ fm_eqb (fst r) A = true) /\
  (let r := tridiag NumXF true A in fm_eqb (fst r) A = false).
Proof. vm_compute. repeat split; reflexivity. Qed.

(* was F-GS-INSITU: a recycled buffer R0 showed through below the diagonal of R.
   HEAD: the result does not depend on R0 (here: equals the run on a zero buffer). *)
Lemma gs_insitu_regression :
  let R0 : fmat := [[7.25;8.25];[9.25;10.25]] in let A : fmat := [[0;1];[1;0]] in
  get NumXF (snd (gram_schmidt_in NumXF R0 A)) 1 0 = 9.25 /\
  get NumXF (snd (gram_schmidt_in2 NumXF R0 A)) 1 0 = 0 /\
  fm_eqb (snd (gram_schmidt_in2 NumXF R0 A)) (snd (gram_schmidt2 NumXF A)) = true.
Proof. vm_compute. repeat split; reflexivity. Qed.

(* was F-BIDIAG-V: 4 columns, two right reflectors.  HEAD accumulates V from the
   right; the pre-fix model returns the transpose of that V. *)
Lemma bidiag_v_regression :
  let A : fmat := [[1;2;0;1];[0;1;3;2];[2;0;1;1];[1;1;0;3]] in
  fm_eqb (fst (fst (bidiag2 NumXF true true A))) (fst (fst (bidiag NumXF true true A))) = true /\
  ofm_eqb (snd (bidiag2 NumXF true true A)) (snd (bidiag NumXF true true A)) = false.
Proof. vm_compute. split; reflexivity. Qed.

(* cholesky accepts a singular positive SEMI-definite matrix (pivot 0 is not an
   error: the test is t < 0) and returns NaN entries with a nil error. *)
Lemma cholesky_zero_pivot_refuted :
  exists A : fmat, match cholesky NumXF A with
                   | Some L => is_nan NumF (get NumXF L 1 0) = true
                   | None => False end.
Proof. exists [[0;0];[0;1]]. vm_compute. reflexivity. Qed.

(* over R (where x/0 = 0) the same shape: Ok L although L L^T <> A; this is why
   the positive theorem asks for a non-zero diagonal of L. *)
