(* C05 — defects of the unchanged library that the faithful model exhibits
   (known findings; witnesses evaluated on the binary64 instance, where these
   small-integer computations are exact). *)
From Coq Require Import String List ZArith Bool Floats.
From ADV Require Import Base.Num Base.Corr C05.Model C05.Corr.
Import ListNotations.
Open Scope float_scope.

(* F-TRIDIAG-SIGN: already tridiagonal input with a negative off-diagonal entry:
   the reflectors are the identity (U = I) but T differs from A. *)
Lemma tridiag_sign_refuted :
  exists A : fmat,
    let r := tridiag NumXF true A in
    ofm_eqb (snd r) (Some (ident NumXF 3)) = true /\ fm_eqb (fst r) A = false /\
    get NumXF (fst r) 1 0 = 2 /\ get NumXF A 1 0 = (-2).
Proof. exists [[1;-2;0];[-2;3;1];[0;1;1]]. vm_compute. repeat split; reflexivity. Qed.

(* F-GS-INSITU: a recycled buffer R0 shows through below the diagonal of R. *)
Lemma gs_insitu_refuted :
  exists (R0 A : fmat), get NumXF (snd (gram_schmidt_in NumXF R0 A)) 1 0 = 9.25.
Proof. exists [[7.25;8.25];[9.25;10.25]], [[0;1];[1;0]]. vm_compute. reflexivity. Qed.

(* cholesky accepts a singular positive SEMI-definite matrix (pivot 0 is not an
   error: the test is t < 0) and returns NaN entries with a nil error. *)
Lemma cholesky_zero_pivot_refuted :
  exists A : fmat, match cholesky NumXF A with
                   | Some L => is_nan NumF (get NumXF L 1 0) = true
                   | None => False end.
Proof. exists [[0;0];[0;1]]. vm_compute. reflexivity. Qed.

(* over R (where x/0 = 0) the same shape: Ok L although L L^T <> A; this is why
   the positive theorem asks for a non-zero diagonal of L. *)
