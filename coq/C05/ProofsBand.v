(* C05 — the banded Givens shortcuts of givensRotation.go (ApplyHessenbergLeft/Right,
   ApplyBidiagLeft/Right, ApplyTridiagLeft/Right) rotate only a few columns (rows) of the two
   affected rows (columns).  On input with the corresponding band structure every skipped
   position holds the pair (0, 0), which a rotation maps to (0, 0): the shortcut EQUALS the full
   rotation.  Every size, every c, s, i, k. *)
From Coq Require Import Reals List Lia Lra Bool.
From ADV Require Import Base.Num C05.Model C05.Spec C05.ProofsBase C05.ProofsHouse C05.ProofsHouse2
                        C05.ProofsBlock C05.ProofsTrace C05.Corr.
Import ListNotations.
Open Scope R_scope.

Lemma map2_seq_ext {C D} (f g : nat -> C -> D) (dflt : C) n : forall a (l : list C),
  (forall j, (j < n)%nat -> (j < length l)%nat -> f (a + j)%nat (nth j l dflt) = g (a + j)%nat (nth j l dflt)) ->
  map2 f (seq a n) l = map2 g (seq a n) l.
Proof.
  induction n as [|n IH]; intros a l H; [reflexivity|].
  destruct l as [|y l]; [reflexivity|]. cbn [seq map2]. f_equal.
  - specialize (H O ltac:(lia) ltac:(simpl; lia)). rewrite Nat.add_0_r in H. exact H.
  - apply IH. intros j Hj Hl. specialize (H (S j) ltac:(lia) ltac:(simpl; lia)).
    replace (a + S j)%nat with (S a + j)%nat in H by lia. exact H.
Qed.

Lemma set_nth_same (l : list R) i x : ((i < length l)%nat -> nth i l 0 = x) -> set_nth l i x = l.
Proof.
  revert i. induction l as [|y l IH]; intros i H.
  - apply set_nth_nil.
  - destruct i as [|i].
    + specialize (H ltac:(simpl; lia)). simpl in H. subst. reflexivity.
    + rewrite set_nth_cons_S. f_equal. apply IH. intro Hi. apply H. simpl. lia.
Qed.

Lemma giv_apply_zero (c s : R) : giv_apply XR c s 0 0 = (0, 0).
Proof. unfold giv_apply. cbn. f_equal; ring. Qed.

(* rows i, k: the skipped columns hold (0, 0) *)
Theorem giv_rows_band r cN (M : rmat) (sel : nat -> bool) (c s : R) (i k : nat) :
  dims r cN M -> (i < r)%nat -> (k < r)%nat ->
  (forall j, (j < cN)%nat -> sel j = false -> G M i j = 0 /\ G M k j = 0) ->
  giv_rows XR sel M c s i k = givens_left XR M c s i k.
Proof.
  intros HM Hi Hk Hz. unfold givens_left, giv_rows. cbv zeta.
  pose proof (dims_row r cN M i HM Hi) as Li. pose proof (dims_row r cN M k HM Hk) as Lk.
  assert (E : map2 (fun j ab => if sel j then giv_apply XR c s (fst ab) (snd ab) else ab)
                   (seq 0 (length (nth i M []))) (combine (nth i M []) (nth k M [])) =
              map2 (fun j ab => if (fun _ : nat => true) j then giv_apply XR c s (fst ab) (snd ab) else ab)
                   (seq 0 (length (nth i M []))) (combine (nth i M []) (nth k M []))).
  { apply (map2_seq_ext _ _ (0, 0)). intros j Hj Hl. cbn [Nat.add].
    destruct (sel j) eqn:Es; [reflexivity|].
    rewrite combine_nth by lia. cbn [fst snd].
    destruct (Hz j ltac:(lia) Es) as (Z1 & Z2). unfold G in Z1, Z2. rewrite Z1, Z2.
    symmetry. apply giv_apply_zero. }
  rewrite E. reflexivity.
Qed.

(* columns i, k: the skipped rows hold (0, 0) *)
Theorem giv_cols_band r cN (M : rmat) (sel : nat -> bool) (c s : R) (i k : nat) :
  dims r cN M ->
  (forall j, (j < r)%nat -> sel j = false -> G M j i = 0 /\ G M j k = 0) ->
  giv_cols XR sel M c s i k = givens_right XR M c s i k.
Proof.
  intros HM Hz. unfold givens_right, giv_cols. destruct HM as (Hl & _).
  apply (map2_seq_ext _ _ []). intros j Hj _. cbn [Nat.add].
  destruct (sel j) eqn:Es; [reflexivity|].
  destruct (Hz j ltac:(lia) Es) as (Z1 & Z2). unfold G in Z1, Z2.
  change (zero (nx XR)) with 0. rewrite Z1, Z2, giv_apply_zero. cbn [fst snd].
  assert (E1 : set_nth (nth j M []) i 0 = nth j M []) by (apply set_nth_same; intros _; exact Z1).
  rewrite E1. symmetry. apply set_nth_same. intros _. exact Z2.
Qed.

(* ---------- the six shortcuts ---------- *)
Definition upper_hessenberg (H : rmat) : Prop := forall a b, (b + 1 < a)%nat -> G H a b = 0.
Definition upper_bidiagonal (B : rmat) : Prop := forall a b, (b < a)%nat \/ (a + 1 < b)%nat -> G B a b = 0.
Definition tridiagonal (T : rmat) : Prop := forall a b, (b + 1 < a)%nat \/ (a + 1 < b)%nat -> G T a b = 0.

Theorem givens_hess_left_is_full n (H : rmat) (c s : R) (i k : nat) :
  dims n n H -> upper_hessenberg H -> (i < n)%nat -> (k < n)%nat ->
  givens_hess_left XR H c s i k = givens_left XR H c s i k.
Proof.
  intros HH Hb Hi Hk. unfold givens_hess_left. apply (giv_rows_band n n); try assumption.
  intros j Hj Es. unfold hess_left_sel in Es. apply Nat.leb_gt in Es.
  split; apply Hb; lia.
Qed.

Theorem givens_hess_right_is_full n (H : rmat) (c s : R) (i k : nat) :
  dims n n H -> upper_hessenberg H ->
  givens_hess_right XR H c s i k = givens_right XR H c s i k.
Proof.
  intros HH Hb. unfold givens_hess_right. apply (giv_cols_band n n); try assumption.
  intros j Hj Es. unfold hess_right_sel in Es. apply Nat.ltb_ge in Es.
  destruct HH as (Hl & _). rewrite Hl in Es.
  split; apply Hb; lia.
Qed.

Theorem givens_bidiag_left_is_full m n (B : rmat) (c s : R) (i k : nat) :
  dims m n B -> upper_bidiagonal B -> (i < m)%nat -> (k < m)%nat ->
  giv_rows XR (bidiag_left_sel (ncols B) i k) B c s i k = givens_left XR B c s i k.
Proof.
  intros HB Hb Hi Hk. apply (giv_rows_band m n); try assumption.
  intros j Hj Es. unfold bidiag_left_sel in Es.
  destruct (Nat.eqb_spec j i) as [E1|E1]; [discriminate|].
  destruct (Nat.eqb_spec j k) as [E2|E2]; [discriminate|].
  destruct (Nat.eqb_spec j (i + 1)) as [E3|E3]; [discriminate|].
  destruct (Nat.eqb_spec j (k + 1)) as [E4|E4]; [cbn in Es; destruct (Nat.eqb_spec j i); [contradiction|discriminate]|].
  split; apply Hb; lia.
Qed.

Theorem givens_bidiag_right_is_full m n (B : rmat) (c s : R) (i k : nat) :
  dims m n B -> upper_bidiagonal B ->
  giv_cols XR (bidiag_right_sel i k) B c s i k = givens_right XR B c s i k.
Proof.
  intros HB Hb. apply (giv_cols_band m n); try assumption.
  intros j Hj Es. unfold bidiag_right_sel in Es.
  destruct (Nat.eqb_spec j i) as [E1|E1]; [discriminate|].
  destruct (Nat.eqb_spec j k) as [E2|E2]; [discriminate|].
  destruct (Nat.eqb_spec (j + 1) i) as [E3|E3]; [discriminate|].
  destruct (Nat.eqb_spec (j + 1) k) as [E4|E4]; [discriminate|].
  split; apply Hb; lia.
Qed.

Theorem givens_tridiag_left_is_full n (T : rmat) (c s : R) (i k : nat) :
  dims n n T -> tridiagonal T -> (i < n)%nat -> (k < n)%nat ->
  giv_rows XR (tridiag_left_sel i k) T c s i k = givens_left XR T c s i k.
Proof.
  intros HT Hb Hi Hk. apply (giv_rows_band n n); try assumption.
  intros j Hj Es. unfold tridiag_left_sel in Es.
  destruct (Nat.eqb_spec j i) as [E1|E1]; [discriminate|].
  destruct (Nat.eqb_spec j k) as [E2|E2]; [discriminate|].
  destruct (Nat.eqb_spec j (i + 1)) as [E3|E3];
  destruct (Nat.eqb_spec (j + 1) k) as [E4|E4];
  destruct (Nat.eqb_spec (j + 1) i) as [E5|E5];
  destruct (Nat.eqb_spec j (k + 1)) as [E6|E6]; cbn in Es; try discriminate; try lia.
  split; apply Hb; lia.
Qed.

Theorem givens_tridiag_right_is_full n (T : rmat) (c s : R) (i k : nat) :
  dims n n T -> tridiagonal T ->
  giv_cols XR (tridiag_right_sel i k) T c s i k = givens_right XR T c s i k.
Proof.
  intros HT Hb. apply (giv_cols_band n n); try assumption.
  intros j Hj Es. unfold tridiag_right_sel in Es.
  destruct (Nat.eqb_spec j i) as [E1|E1]; [discriminate|].
  destruct (Nat.eqb_spec j k) as [E2|E2]; [discriminate|].
  destruct (Nat.eqb_spec (j + 1) i) as [E3|E3];
  destruct (Nat.eqb_spec j (k + 1)) as [E4|E4];
  destruct (Nat.eqb_spec j (i + 1)) as [E5|E5];
  destruct (Nat.eqb_spec (j + 1) k) as [E6|E6]; cbn in Es; try discriminate; try lia.
  split; apply Hb; lia.
Qed.
