(* C05 correspondence: evaluate the executable model on primitive floats and
   compare bit for bit with what the Go code returned. *)
From Coq Require Import String List ZArith Bool Floats.
From ADV Require Import Base.Num Base.Corr C05.Model.
Import ListNotations.

Definition fmat := list (list float).
Definition fv_eqb : list float -> list float -> bool := list_eqb feqb.
Definition fm_eqb : fmat -> fmat -> bool := list_eqb fv_eqb.
Definition ofm_eqb : option fmat -> option fmat -> bool := option_eqb fm_eqb.
Definition pair_eqb (a b : fmat * fmat) : bool := fm_eqb (fst a) (fst b) && fm_eqb (snd a) (snd b).

(* the two literals 1e-20 of cholesky.gen.in (beta floor and delta) *)
Definition lit_1e20 : float := 0x1.79ca10c924223p-67%float.

Inductive dcase :=
| DPanic (kind : string)
| DChol (fast : bool) (A : fmat) (out : option fmat)
| DLdl (A : fmat) (out : option (fmat * fmat))
| DFpd (A : fmat) (out : option (fmat * fmat))
| DHouse (x : list float) (beta : float) (nu : list float)
| DHouseApply (isleft : bool) (M : fmat) (beta : float) (nu : list float) (out : fmat)
| DGivens (a b c s : float)
| DGivApply (sub : nat) (M : fmat) (c s : float) (i k : nat) (out : fmat)
| DGS (R0 A Q R : fmat)
| DHess (setzero computeU : bool) (A H : fmat) (U : option fmat)
| DBidiag (cu cv : bool) (A B : fmat) (U V : option fmat)
| DTridiag (cu : bool) (A T : fmat) (U : option fmat).

Definition X := NumXF.

(* index sets of the banded Givens shortcuts, as coded in givensRotation.go *)
Definition bidiag_left_sel (n i k j : nat) : bool :=
  Nat.eqb j i || Nat.eqb j k || (Nat.eqb j (i + 1) && negb (Nat.eqb j k)) || (Nat.eqb j (k + 1) && negb (Nat.eqb j i)).
Definition bidiag_right_sel (i k j : nat) : bool :=
  Nat.eqb j i || Nat.eqb j k || (Nat.eqb (j + 1) i && negb (Nat.eqb j k)) || (Nat.eqb (j + 1) k && negb (Nat.eqb j i)).
Definition tridiag_left_sel (i k j : nat) : bool :=
  Nat.eqb j i || Nat.eqb j k ||
  (Nat.eqb j (i + 1) && negb (Nat.eqb j k) && negb (Nat.eqb (j + 1) k)) ||
  (Nat.eqb (j + 1) i && negb (Nat.eqb j k)) ||
  (Nat.eqb j (k + 1) && negb (Nat.eqb j i) && negb (Nat.eqb (j + 1) i)) ||
  (Nat.eqb (j + 1) k && negb (Nat.eqb j i)).
Definition tridiag_right_sel (i k j : nat) : bool :=
  Nat.eqb j i || Nat.eqb j k ||
  (Nat.eqb (j + 1) i && negb (Nat.eqb j k) && negb (Nat.eqb j (k + 1))) ||
  (Nat.eqb j (i + 1) && negb (Nat.eqb j k)) ||
  (Nat.eqb (j + 1) k && negb (Nat.eqb j i) && negb (Nat.eqb j (i + 1))) ||
  (Nat.eqb j (k + 1) && negb (Nat.eqb j i)).

Definition giv_variant (sub : nat) (M : fmat) (c s : float) (i k : nat) : fmat :=
  match sub with
  | 0 => givens_left X M c s i k
  | 1 => givens_right X M c s i k
  | 2 => givens_hess_left X M c s i k
  | 3 => givens_hess_right X M c s i k
  | 4 => giv_rows X (bidiag_left_sel (ncols M) i k) M c s i k
  | 5 => giv_cols X (bidiag_right_sel i k) M c s i k
  | 6 => giv_rows X (tridiag_left_sel i k) M c s i k
  | _ => giv_cols X (tridiag_right_sel i k) M c s i k
  end%nat.

Definition dcheck (c : dcase) : bool :=
  match c with
  | DPanic _ => false
  | DChol fast A out => ofm_eqb (if fast then cholesky_fast X A else cholesky X A) out
  | DLdl A out => option_eqb pair_eqb (cholesky_ldl X A) out
  | DFpd A out => option_eqb pair_eqb (cholesky_ldl_forcepd X lit_1e20 lit_1e20 A) out
  | DHouse x beta nu => let r := house X x in feqb (fst r) beta && fv_eqb (snd r) nu
  | DHouseApply isleft M beta nu out =>
      fm_eqb (if isleft then house_left X M beta nu else house_right X M beta nu) out
  | DGivens a b c s => let r := givens X a b in feqb (fst r) c && feqb (snd r) s
  | DGivApply sub M c s i k out => fm_eqb (giv_variant sub M c s i k) out
  | DGS R0 A Q R => let r := gram_schmidt_in2 X R0 A in fm_eqb (fst r) Q && fm_eqb (snd r) R
  | DHess sz cu A H U => let r := hessenberg X sz cu A in fm_eqb (fst r) H && ofm_eqb (snd r) U
  | DBidiag cu cv A B U V =>
      let r := bidiag2 X cu cv A in
      fm_eqb (fst (fst r)) B && ofm_eqb (snd (fst r)) U && ofm_eqb (snd r) V
  | DTridiag cu A T U => let r := tridiag2 X cu A in fm_eqb (fst r) T && ofm_eqb (snd r) U
  end.

Definition mism (cs : list dcase) : list nat := mismatches dcheck cs.
