(* C05 — round 5: the loop / bookkeeping layer of the symmetric QR algorithm model
   (ModelIter: sym_defl_at, sym_defl_pass, split_sym, sym_outer, sym_loop, symqr), over R,
   ASSUMING the sweep specification [sym_sweep_spec] (SpecIter.v) as an explicit premise. *)
From Coq Require Import Reals List Lia Lra Bool Arith.
From ADV Require Import Base.Num C05.Model C05.Spec C05.ProofsBase C05.ProofsTrace C05.ProofsBand
  C05.ProofsHouse2 C05.ProofsTridiag2 C05.ModelIter C05.SpecIter.
Import ListNotations.
Open Scope R_scope.

(* ================================================================== *)
(* set2 : shape lemmas *)

Lemma dims_set2 r c (M : rmat) i j (x : R) :
  dims r c M -> (i < r)%nat -> dims r c (set2 M i j x).
Proof.
  intros HM Hi. pose proof HM as (Hl & Hr). unfold set2. split.
  - rewrite length_set_nth. exact Hl.
  - intros row Hin. apply In_set_nth in Hin. destruct Hin as [->|Hin].
    + rewrite length_set_nth. apply (dims_row_length r c M i HM Hi).
    + apply Hr. exact Hin.
Qed.

Lemma G_set2 r c (M : rmat) i j (x : R) a b :
  dims r c M -> (i < r)%nat -> (j < c)%nat ->
  G (set2 M i j x) a b = if (Nat.eqb a i && Nat.eqb b j)%bool then x else G M a b.
Proof.
  intros HM Hi Hj. pose proof HM as (Hl & Hr). unfold G, set2.
  destruct (Nat.eqb_spec a i) as [->|Hai].
  - rewrite nth_set_nth_eq by lia.
    destruct (Nat.eqb_spec b j) as [->|Hbj]; cbn [andb].
    + apply nth_set_nth_eq. rewrite (dims_row_length r c M i HM Hi). exact Hj.
    + apply nth_set_nth_neq. exact Hbj.
  - cbn [andb]. rewrite nth_set_nth_neq by exact Hai. reflexivity.
Qed.

(* ================================================================== *)
(* one deflation test *)

Definition zero2 (T : rmat) (i : nat) : rmat := set2 (set2 T (S i) i 0) i (S i) 0.

Lemma sym_defl_at_cases eps (T : rmat) i :
  sym_defl_at XR eps T i = T \/
  (Rabs (G T (S i) i) <= eps * (Rabs (G T i i) + Rabs (G T (S i) (S i))) /\
   sym_defl_at XR eps T i = zero2 T i).
Proof.
  unfold sym_defl_at.
  change (negligible XR eps (get XR T i i) (get XR T (S i) i) (get XR T (S i) (S i)))
    with (Rleb (Rabs (G T (S i) i)) (eps * (Rabs (G T i i) + Rabs (G T (S i) (S i))))).
  destruct (Rleb _ _) eqn:E.
  - right. split; [apply Rleb_true; exact E|reflexivity].
  - left. reflexivity.
Qed.

Lemma dims_zero2 n (T : rmat) i : dims n n T -> (S i < n)%nat -> dims n n (zero2 T i).
Proof. intros HT Hi. unfold zero2. apply dims_set2; [apply dims_set2; [exact HT|lia]|lia]. Qed.

Lemma G_zero2 n (T : rmat) i a b : dims n n T -> (S i < n)%nat ->
  G (zero2 T i) a b =
  if ((Nat.eqb a i && Nat.eqb b (S i)) || (Nat.eqb a (S i) && Nat.eqb b i))%bool then 0 else G T a b.
Proof.
  intros HT Hi. unfold zero2.
  rewrite (G_set2 n n) by (try apply dims_set2; try exact HT; lia).
  rewrite (G_set2 n n) by (try exact HT; lia).
  destruct (Nat.eqb a i && Nat.eqb b (S i))%bool; [reflexivity|].
  cbn [orb]. reflexivity.
Qed.

Lemma dims_sym_defl_at eps n (T : rmat) i :
  dims n n T -> (S i < n)%nat -> dims n n (sym_defl_at XR eps T i).
Proof.
  intros HT Hi. destruct (sym_defl_at_cases eps T i) as [->|(_ & ->)]; [exact HT|].
  apply dims_zero2; assumption.
Qed.

Lemma sym_defl_at_effect : forall eps n (T : rmat) i a b, dims n n T -> (S i < n)%nat ->
   G (sym_defl_at XR eps T i) a b = G T a b \/
   (((a = S i /\ b = i) \/ (a = i /\ b = S i)) /\ G (sym_defl_at XR eps T i) a b = 0 /\
     Rabs (G T (S i) i) <= eps * (Rabs (G T i i) + Rabs (G T (S i) (S i)))).
Proof.
  intros eps n T i a b HT Hi.
  destruct (sym_defl_at_cases eps T i) as [->|(Hc & ->)]; [left; reflexivity|].
  rewrite (G_zero2 n T i a b HT Hi).
  destruct (Nat.eqb_spec a i) as [Ha|Ha]; destruct (Nat.eqb_spec b (S i)) as [Hb|Hb]; cbn [andb orb].
  - right. split; [right; split; assumption|]. split; [reflexivity|exact Hc].
  - destruct (Nat.eqb_spec a (S i)) as [Ha'|Ha']; [lia|]. cbn [andb]. left. reflexivity.
  - destruct (Nat.eqb_spec a (S i)) as [Ha'|Ha']; destruct (Nat.eqb_spec b i) as [Hb'|Hb']; cbn [andb];
      try (left; reflexivity).
    right. split; [left; split; assumption|]. split; [reflexivity|exact Hc].
  - destruct (Nat.eqb_spec a (S i)) as [Ha'|Ha']; destruct (Nat.eqb_spec b i) as [Hb'|Hb']; cbn [andb];
      try (left; reflexivity).
    right. split; [left; split; assumption|]. split; [reflexivity|exact Hc].
Qed.

(* entries are kept or zeroed *)
Definition zeroed (T D : rmat) : Prop := forall a b, G D a b = G T a b \/ G D a b = 0.

Lemma zeroed_refl T : zeroed T T.
Proof. intros a b. left. reflexivity. Qed.

Lemma zeroed_trans T D E : zeroed T D -> zeroed D E -> zeroed T E.
Proof.
  intros H1 H2 a b. destruct (H2 a b) as [H|H]; [|right; exact H].
  rewrite H. apply H1.
Qed.

Lemma zeroed_sym_defl_at eps n (T : rmat) i :
  dims n n T -> (S i < n)%nat -> zeroed T (sym_defl_at XR eps T i).
Proof.
  intros HT Hi a b. destruct (sym_defl_at_effect eps n T i a b HT Hi) as [H|(_ & H & _)]; [left|right]; exact H.
Qed.

Lemma zeroed_tridiagonal T D : zeroed T D -> tridiagonal T -> tridiagonal D.
Proof. intros HZ HT a b Hab. destruct (HZ a b) as [H|H]; [rewrite H; apply HT; exact Hab|exact H]. Qed.

Lemma symmetric_sym_defl_at eps n (T : rmat) i :
  dims n n T -> (S i < n)%nat -> symmetric n T -> symmetric n (sym_defl_at XR eps T i).
Proof.
  intros HT Hi Hs. destruct (sym_defl_at_cases eps T i) as [->|(_ & ->)]; [exact Hs|].
  intros a b Ha Hb. rewrite !(G_zero2 n T i) by assumption.
  rewrite (Hs a b Ha Hb).
  destruct (Nat.eqb a i), (Nat.eqb b (S i)), (Nat.eqb a (S i)), (Nat.eqb b i); reflexivity.
Qed.

(* ================================================================== *)
(* the deflation pass *)

Lemma sym_defl_fold eps n A0 (Z : rmat) (l : list nat) : forall (T : rmat),
  Forall (fun i => (S i < n)%nat) l ->
  dims n n T -> symmetric n T -> dims n n Z -> orth n (G Z) ->
  sym_reach eps n A0 (uhut n (G T, G Z)) ->
  let T' := fold_left (sym_defl_at XR eps) l T in
  dims n n T' /\ symmetric n T' /\ zeroed T T' /\ sym_reach eps n A0 (uhut n (G T', G Z)).
Proof.
  induction l as [|i l IH]; intros T Hl HT Hs HZ HO HR.
  - cbn. split; [exact HT|]. split; [exact Hs|]. split; [apply zeroed_refl|exact HR].
  - inversion Hl as [|i' l' Hi Hl']; subst i' l'.
    cbn [fold_left].
    destruct (IH (sym_defl_at XR eps T i) Hl'
                (dims_sym_defl_at eps n T i HT Hi)
                (symmetric_sym_defl_at eps n T i HT Hi Hs) HZ HO
                (sr_defl eps n A0 T Z i HR HT Hs HZ HO Hi)) as (D1 & D2 & D3 & D4).
    split; [exact D1|]. split; [exact D2|]. split; [|exact D4].
    apply (zeroed_trans T (sym_defl_at XR eps T i)); [apply (zeroed_sym_defl_at eps n); assumption|exact D3].
Qed.

Lemma sym_defl_pass_spec eps n A0 (T Z : rmat) :
  dims n n T -> symmetric n T -> dims n n Z -> orth n (G Z) ->
  sym_reach eps n A0 (uhut n (G T, G Z)) ->
  let T' := sym_defl_pass XR eps n T in
  dims n n T' /\ symmetric n T' /\ zeroed T T' /\ sym_reach eps n A0 (uhut n (G T', G Z)).
Proof.
  intros HT Hs HZ HO HR. unfold sym_defl_pass.
  apply sym_defl_fold; try assumption.
  apply Forall_forall. intros i Hi. apply in_seq in Hi. lia.
Qed.

(* ================================================================== *)
(* the split search *)

Lemma split_q_up_spec (T : rmat) n : forall f q,
  let q1 := split_q_up XR f T n q in
  (q <= q1)%nat /\ ((q <= n - 1)%nat -> (q1 <= n - 1)%nat) /\
  (forall j, (q <= j < q1)%nat -> G T (n - j - 1 - 1) (n - j - 1) = 0) /\
  ((n - 1 <= f + q)%nat -> (q1 < n - 1)%nat -> G T (n - q1 - 1 - 1) (n - q1 - 1) <> 0).
Proof.
  induction f as [|f IH]; intros q; cbn [split_q_up].
  - cbv zeta. split; [lia|]. split; [lia|]. split; [intros j Hj; lia|]. intros H1 H2. lia.
  - destruct (Nat.ltb_spec q (n - 1)) as [Hq|Hq].
    + change (eqb XR (get XR T (n - q - 1 - 1) (n - q - 1)) (zero XR))
        with (Reqb (G T (n - q - 1 - 1) (n - q - 1)) 0).
      destruct (Reqb (G T (n - q - 1 - 1) (n - q - 1)) 0) eqn:E.
      * apply Reqb_true in E. specialize (IH (S q)). cbv zeta in IH |- *.
        destruct IH as (I1 & I2 & I3 & I4).
        split; [lia|]. split; [intros _; apply I2; lia|]. split.
        -- intros j Hj. destruct (Nat.eq_dec j q) as [->|Hne]; [exact E|]. apply I3. lia.
        -- intros H1 H2. apply I4; lia.
      * cbv zeta. split; [lia|]. split; [lia|]. split; [intros j Hj; lia|].
        intros _ _ Hz. apply Reqb_true in Hz. rewrite Hz in E. discriminate.
    + cbv zeta. split; [lia|]. split; [lia|]. split; [intros j Hj; lia|]. intros H1 H2. lia.
Qed.

Lemma split_p_down_spec (T : rmat) : forall f p,
  let p1 := split_p_down XR f T p in
  (p1 <= p)%nat /\ ((p <= f)%nat -> (0 < p1)%nat -> G T (p1 - 1) p1 = 0).
Proof.
  induction f as [|f IH]; intros p; cbn [split_p_down]; cbv zeta.
  - split; [lia|]. intros H1 H2. lia.
  - destruct p as [|p'].
    + split; [lia|]. intros _ H. lia.
    + change (eqb XR (get XR T p' (S p')) (zero XR)) with (Reqb (G T p' (S p')) 0).
      destruct (Reqb (G T p' (S p')) 0) eqn:E.
      * apply Reqb_true in E. split; [lia|]. intros _ _. replace (S p' - 1)%nat with p' by lia. exact E.
      * specialize (IH p'). cbv zeta in IH. destruct IH as (I1 & I2).
        split; [lia|]. intros H1 H2. apply I2; [lia|exact H2].
Qed.

Lemma split_sym_spec (T : rmat) n q p q2 :
  (q < n)%nat -> split_sym XR T n q = (p, q2) ->
  (q <= q2 <= n)%nat /\
  (forall j, (n - q2 <= j < n - q)%nat -> (1 <= j)%nat -> G T (j - 1) j = 0) /\
  ((q2 < n)%nat -> (p + 2 <= n - q2)%nat /\ ((0 < p)%nat -> G T (p - 1) p = 0)).
Proof.
  intros Hq E. unfold split_sym in E. cbv zeta in E.
  pose proof (split_q_up_spec T n n q) as Q. cbv zeta in Q.
  set (q1 := split_q_up XR n T n q) in *.
  destruct Q as (Q1 & Q2 & Q3 & Q4). specialize (Q2 ltac:(lia)).
  assert (Hz : forall j, (n - q1 <= j < n - q)%nat -> (1 <= j)%nat -> G T (j - 1) j = 0).
  { intros j Hj Hj1. specialize (Q3 (n - j - 1)%nat ltac:(lia)).
    replace (n - (n - j - 1) - 1)%nat with j in Q3 by lia. exact Q3. }
  destruct (Nat.eqb_spec q1 (n - 1)) as [Hq1|Hq1].
  - injection E as Ep Eq2. subst q2. split; [lia|]. split; [|intros H; lia].
    intros j Hj Hj1. apply Hz; lia.
  - injection E as Ep Eq2. subst q2. split; [lia|]. split; [exact Hz|]. intros _.
    specialize (Q4 ltac:(lia) ltac:(lia)).
    pose proof (split_p_down_spec T n (n - q1 - 1)) as P. cbv zeta in P. rewrite Ep in P.
    destruct P as (P1 & P2). specialize (P2 ltac:(lia)).
    split; [|exact P2].
    destruct (Nat.eq_dec p (n - q1 - 1)) as [Hp|Hp]; [|lia].
    exfalso. apply Q4. specialize (P2 ltac:(lia)). rewrite Hp in P2. exact P2.
Qed.

(* ================================================================== *)
(* the loop invariant *)

Definition sym_inv (eps : R) (n : nat) (A0 : fmatR) (T Z : rmat) (q : nat) : Prop :=
  dims n n T /\ symmetric n T /\ tridiagonal T /\ dims n n Z /\ orth n (G Z) /\
  sym_reach eps n A0 (uhut n (G T, G Z)) /\ (q <= n)%nat /\
  (forall j, (n - q <= j < n)%nat -> (1 <= j)%nat -> G T (j - 1) j = 0).

Lemma sym_outer_inv (Hsweep : sym_sweep_spec) eps n A0 (T Z : rmat) q :
  sym_inv eps n A0 T Z q -> (q < n)%nat ->
  exists T' Z' q', sym_outer XR eps n (T, Some Z, q) = (T', Some Z', q') /\ sym_inv eps n A0 T' Z' q'.
Proof.
  intros (HT & Hs & Htri & HZ & HO & HR & Hqn & Hbk) Hq.
  unfold sym_outer.
  pose proof (sym_defl_pass_spec eps n A0 T Z HT Hs HZ HO HR) as D. cbv zeta in D.
  set (T1 := sym_defl_pass XR eps n T) in *.
  destruct D as (HT1 & Hs1 & Hz1 & HR1).
  pose proof (zeroed_tridiagonal T T1 Hz1 Htri) as Htri1.
  assert (Hbk1 : forall j, (n - q <= j < n)%nat -> (1 <= j)%nat -> G T1 (j - 1) j = 0).
  { intros j Hj Hj1. destruct (Hz1 (j - 1)%nat j) as [H|H]; [rewrite H; apply Hbk; assumption|exact H]. }
  destruct (split_sym XR T1 n q) as (p, q1) eqn:Esp.
  destruct (split_sym_spec T1 n q p q1 Hq Esp) as (Hqq & Hsc & Hp).
  assert (Hbk2 : forall j, (n - q1 <= j < n)%nat -> (1 <= j)%nat -> G T1 (j - 1) j = 0).
  { intros j Hj Hj1. destruct (Nat.lt_ge_cases j (n - q)) as [H|H]; [apply Hsc; lia|apply Hbk1; lia]. }
  destruct (Nat.ltb_spec q1 n) as [Hq1|Hq1].
  - destruct (Hp Hq1) as (Hp2 & Hp0).
    set (nn := (n - q1 - p)%nat).
    replace (n - q1)%nat with (p + nn)%nat by (unfold nn; lia).
    destruct (Hsweep n p nn T1 Z HT1 Hs1 Htri1 HZ ltac:(unfold nn; lia) ltac:(unfold nn; lia) Hp0)
      as (Tb & Z1 & E & W1 & W2 & W3 & W4 & W5 & W6 & W7).
    { intros Hlt.
      specialize (Hbk2 (p + nn)%nat ltac:(unfold nn; lia) ltac:(unfold nn; lia)). exact Hbk2. }
    rewrite E. exists (put_block T1 p p Tb), Z1, q1. split; [reflexivity|].
    split; [exact W1|]. split; [exact W2|]. split; [exact W3|]. split; [exact W4|].
    split; [exact (W7 HO)|]. split.
    { apply (sr_meq eps n A0 (uhut n (G T1, G Z))); [exact HR1|exact W6]. }
    split; [lia|].
    intros j Hj Hj1. rewrite W5 by (right; right; right; unfold nn; lia). apply Hbk2; assumption.
  - exists T1, Z, q1. split; [reflexivity|].
    split; [exact HT1|]. split; [exact Hs1|]. split; [exact Htri1|]. split; [exact HZ|].
    split; [exact HO|]. split; [exact HR1|]. split; [lia|]. exact Hbk2.
Qed.

Lemma sym_loop_inv (Hsweep : sym_sweep_spec) eps n A0 : forall fuel (T Z : rmat) q,
  sym_inv eps n A0 T Z q ->
  exists T' Z' conv q', sym_loop XR fuel eps n (T, Some Z, q) = (T', Some Z', conv) /\
    sym_inv eps n A0 T' Z' q' /\ (conv = true -> q' = n).
Proof.
  induction fuel as [|f IH]; intros T Z q Hinv.
  - cbn [sym_loop]. destruct (Nat.ltb_spec q n) as [Hq|Hq].
    + exists T, Z, false, q. split; [reflexivity|]. split; [exact Hinv|discriminate].
    + exists T, Z, true, q. split; [reflexivity|]. split; [exact Hinv|].
      intros _. destruct Hinv as (_ & _ & _ & _ & _ & _ & Hqn & _). lia.
  - cbn [sym_loop]. destruct (Nat.ltb_spec q n) as [Hq|Hq].
    + destruct (sym_outer_inv Hsweep eps n A0 T Z q Hinv Hq) as (T1 & Z1 & q1 & E & Hinv1).
      rewrite E. apply IH. exact Hinv1.
    + exists T, Z, true, q. split; [reflexivity|]. split; [exact Hinv|].
      intros _. destruct Hinv as (_ & _ & _ & _ & _ & _ & Hqn & _). lia.
Qed.

Lemma sym_inv_diag eps n A0 (T Z : rmat) :
  sym_inv eps n A0 T Z n -> forall i j, i <> j -> G T i j = 0.
Proof.
  intros (HT & Hs & Htri & _ & _ & _ & _ & Hbk) i j Hij.
  assert (Hup : forall a, G T a (S a) = 0).
  { intros a. destruct (Nat.lt_ge_cases (S a) n) as [H|H].
    - specialize (Hbk (S a) ltac:(lia) ltac:(lia)). replace (S a - 1)%nat with a in Hbk by lia. exact Hbk.
    - apply (G_out_col n n T a (S a) HT H). }
  destruct (Nat.lt_ge_cases (i + 1) j) as [H1|H1]; [apply Htri; right; exact H1|].
  destruct (Nat.lt_ge_cases (j + 1) i) as [H2|H2]; [apply Htri; left; exact H2|].
  destruct (Nat.eq_dec j (S i)) as [->|H3]; [apply Hup|].
  assert (i = S j) as -> by lia.
  destruct (Nat.lt_ge_cases (S j) n) as [H|H].
  - rewrite (Hs (S j) j) by lia. apply Hup.
  - apply G_out_row. destruct HT as (-> & _). exact H.
Qed.

(* ================================================================== *)
(* the start state and the whole routine *)

Lemma tridiag2_start (A : rmat) (n : nat) :
  dims n n A -> symmetric n A ->
  exists T U, tridiag2 XR true A = (T, Some U) /\
    dims n n T /\ symmetric n T /\ tridiagonal T /\ dims n n U /\ orth n (G U) /\
    meq n n (uhut n (G T, G U)) (G A).
Proof.
  intros HA Hsym.
  destruct (tridiag2_sound A n HA Hsym) as (T & U & E & HT & HU & _ & _ & Hs & Hlo & Hup).
  assert (Hinit : tri_inv n A 0 A (ident XR n)).
  { split; [exact HA|]. split; [apply dims_ident|]. split; [|split; [|split]].
    - apply (orth_meq n delta); [apply meq_sym; apply G_ident|apply orth_delta].
    - apply meq_trans with (uhut n (G A, delta)).
      + apply C05.ProofsTrace.uhut_congr; [apply meq_refl|apply G_ident].
      + unfold uhut. cbn [fst snd]. intros i j Hi Hj.
        rewrite (mmul_delta_l n n _ i j Hi Hj).
        rewrite (mmul_ext_all n (G A) (G A) (tr delta) delta (fun _ _ => eq_refl) tr_delta).
        apply (mmul_delta_r n n (G A)); assumption.
    - exact Hsym.
    - intros i j Hj. lia. }
  destruct (tri_inv_run n A (n - 2) 0 A (ident XR n)) as (T' & U' & E' & _ & _ & HO & HR & _ & _).
  { destruct (Nat.le_gt_cases 2 n); [left; lia|right; lia]. }
  { exact Hinit. }
  pose proof HA as (Hl & _).
  assert (EE : (T', Some U') = (T, Some U)).
  { eapply eq_trans; [symmetry; exact E'|]. eapply eq_trans; [|exact E].
    unfold tridiag2. cbv zeta. rewrite Hl. reflexivity. }
  injection EE as -> ->.
  exists T, U. split; [exact E|].
  split; [exact HT|]. split; [exact Hs|]. split.
  { intros a b [H|H]; [apply Hlo|apply Hup]; exact H. }
  split; [exact HU|]. split; [exact HO|exact HR].
Qed.

Definition symqr_reach_stmt : Prop := forall (fuel : nat) (eps : R) (A : rmat) (n : nat),
  dims n n A -> symmetric n A ->
  exists T Z conv, symqr XR fuel eps true A = (T, Some Z, conv) /\
    dims n n T /\ symmetric n T /\ tridiagonal T /\ dims n n Z /\ orth n (G Z) /\
    sym_reach eps n (G A) (uhut n (G T, G Z)) /\
    (conv = true -> forall i j, i <> j -> G T i j = 0).

Theorem symqr_reach_from_sweep : sym_sweep_spec -> symqr_reach_stmt.
Proof.
  intros Hsweep fuel eps A n HA Hsym.
  destruct (tridiag2_start A n HA Hsym) as (T0 & Z0 & E0 & HT0 & Hs0 & Htri0 & HZ0 & HO0 & HR0).
  assert (Hinv0 : sym_inv eps n (G A) T0 Z0 0).
  { split; [exact HT0|]. split; [exact Hs0|]. split; [exact Htri0|]. split; [exact HZ0|].
    split; [exact HO0|]. split.
    - apply (sr_meq eps n (G A) (G A)); [apply sr_start|exact HR0].
    - split; [lia|]. intros j Hj. lia. }
  destruct (sym_loop_inv Hsweep eps n (G A) fuel T0 Z0 0%nat Hinv0) as (T & Z & conv & q & E & Hinv & Hc).
  exists T, Z, conv. unfold symqr. rewrite E0. pose proof HA as (Hl & _). rewrite Hl.
  split; [exact E|].
  pose proof Hinv as (HT & Hs & Htri & HZ & HO & HR & _ & _).
  split; [exact HT|]. split; [exact Hs|]. split; [exact Htri|]. split; [exact HZ|].
  split; [exact HO|]. split; [exact HR|].
  intros Hconv. specialize (Hc Hconv). subst q. apply (sym_inv_diag eps n (G A) T Z Hinv).
Qed.

(* ================================================================== *)
(* eps = 0: a deflation only rewrites exact zeros of a symmetric T, so the whole run is an
   exact orthogonal similarity *)

Lemma sym_defl_at_eps0 n (T : rmat) i :
  dims n n T -> symmetric n T -> (S i < n)%nat -> meq n n (G (sym_defl_at XR 0 T i)) (G T).
Proof.
  intros HT Hs Hi a b Ha Hb.
  destruct (sym_defl_at_effect 0 n T i a b HT Hi) as [H|(Hpos & Hz & Hc)]; [exact H|].
  rewrite Hz. rewrite Rmult_0_l in Hc.
  assert (H0 : G T (S i) i = 0).
  { pose proof (Rabs_pos (G T (S i) i)) as Hp.
    destruct (Req_dec (G T (S i) i) 0) as [H|H]; [exact H|].
    pose proof (Rabs_pos_lt _ H). lra. }
  destruct Hpos as [(-> & ->)|(-> & ->)].
  - symmetry. exact H0.
  - rewrite (Hs i (S i)) by lia. symmetry. exact H0.
Qed.

Lemma sym_reach_eps0 : forall n A0 A1, sym_reach 0 n A0 A1 -> meq n n A1 A0.
Proof.
  intros n A0 A1 H. induction H as [|A1 A2 H IH Hm|T Z i H IH HT Hs HZ HO Hi].
  - apply meq_refl.
  - apply meq_trans with A1; assumption.
  - apply meq_trans with (uhut n (G T, G Z)); [|exact IH].
    apply C05.ProofsTrace.uhut_congr; [|apply meq_refl].
    apply sym_defl_at_eps0; assumption.
Qed.

Corollary symqr_eps0_similarity_from_sweep : sym_sweep_spec ->
  forall fuel A n, dims n n A -> symmetric n A ->
  exists T Z conv, symqr XR fuel 0 true A = (T, Some Z, conv) /\ orth n (G Z) /\
    meq n n (uhut n (G T, G Z)) (G A).
Proof.
  intros Hsweep fuel A n HA Hsym.
  destruct (symqr_reach_from_sweep Hsweep fuel 0 A n HA Hsym)
    as (T & Z & conv & E & _ & _ & _ & _ & HO & HR & _).
  exists T, Z, conv. split; [exact E|]. split; [exact HO|].
  apply sym_reach_eps0. exact HR.
Qed.
