(* C18 — sparse matrices: round trip for full matrices and slices (the writer repacks a
   slice through the matrix iterator), the reader's validation (a328708: dimensions, overflow, indices),
   reader safety on every document, no panic; the slice writer refutation (F-JSON-SPSLICE) stays. *)
From Coq Require Import ZArith List Bool Lia Sorted.
From ADV Require Import C18.Model C18.Spec C18.ProofsBase C18.ProofsSparse.
Import ListNotations.
Open Scope Z_scope.

Section SparseMat.
Variables F T : Type.
Variable zero : F.
Variable nz : F -> bool.
Variable fmtJ : F -> option T.
Variable parseJ : T -> option F.
Hypothesis nz_zero : nz zero = false.
Hypothesis fmt_parse : forall x t, fmtJ x = Some t -> parseJ t = Some x.
Variable E : Type.
Variable eval : E -> F.
Variable enul : E -> bool.
Hypothesis enul_zero : forall e, enul e = true -> nz (eval e) = false.

Notation zeq := (zeq F nz).
Notation live := (sv_live E enul).

Lemma zeq_trans a b c : zeq a b -> zeq b c -> zeq a c.
Proof.
  intros [->|[Ha Hb]] [->|[Hb' Hc]]; try (left; reflexivity); try (right; split; congruence).
Qed.

Lemma rowcol_unique a b a' b' c : 0 <= b < c -> 0 <= b' < c -> a * c + b = a' * c + b' -> a = a' /\ b = b'.
Proof. intros. assert (a = a') by nia. subst. split; [reflexivity|lia]. Qed.

(* the position a stored key k of the parent gets in the repacked slice *)
Definition kprime (m : smat E) (k : Z) : Z :=
  (Z.quot k (sm_cmax m) - sm_roff m) * sm_cols m + (Z.rem k (sm_cmax m) - sm_coff m).
Definition in_view (m : smat E) (k : Z) : Prop :=
  sm_cmax m <> 0 /\ 0 <= Z.quot k (sm_cmax m) - sm_roff m < sm_rows m /\
  0 <= Z.rem k (sm_cmax m) - sm_coff m < sm_cols m.

(* last entry of L that lands on q *)
Fixpoint rlook (m : smat E) (q : Z) (L : list (Z * E)) : option E :=
  match L with
  | [] => None
  | (k, e) :: rest => match rlook m q rest with
                      | Some x => Some x
                      | None => if q =? kprime m k then Some e else None
                      end
  end.

Lemma repack_go_spec (m : smat E) : forall L acc ents,
  sm_repack_go E m acc L = Ok ents ->
  (sorted acc -> sorted ents) /\
  (forall q, In q (keys ents) -> In q (keys acc) \/ 0 <= q < sm_rows m * sm_cols m) /\
  (forall q, lookup q ents = match rlook m q L with Some e => Some e | None => lookup q acc end) /\
  Forall (fun kv => in_view m (fst kv)) L.
Proof.
  induction L as [|[k e] L IH]; intros acc ents H; simpl in H.
  - inversion H; subst. repeat split; auto.
  - unfold sm_ij in H. destruct (sm_cmax m =? 0) eqn:Ec; [discriminate|]. apply Z.eqb_neq in Ec.
    set (i := Z.quot k (sm_cmax m) - sm_roff m) in *. set (j := Z.rem k (sm_cmax m) - sm_coff m) in *.
    destruct ((i <? 0) || (j <? 0) || (i >=? sm_rows m) || (j >=? sm_cols m)) eqn:Er; [discriminate|].
    destruct ((i * sm_cols m + j <? 0) || (i * sm_cols m + j >=? sm_rows m * sm_cols m)) eqn:Eq; [discriminate|].
    apply IH in H as (H1 & H2 & H3 & H4). split; [|split; [|split]].
    + intros Hs. apply H1, sorted_aset, Hs.
    + intros q Hq. destruct (H2 q Hq) as [Hq'|Hq']; [|auto].
      apply keys_aset_In in Hq' as [->|Hq']; [right; lia|auto].
    + intros q. rewrite H3. simpl. destruct (rlook m q L); [reflexivity|].
      rewrite lookup_aset. unfold kprime. fold i j. destruct (q =? i * sm_cols m + j); reflexivity.
    + constructor; [|assumption]. unfold in_view; simpl. fold i j. repeat split; try assumption; lia.
Qed.

Lemma rlook_lookup (m : smat E) i j : forall L,
  0 <= sm_roff m -> 0 <= sm_coff m -> sm_coff m + sm_cols m <= sm_cmax m ->
  0 <= i < sm_rows m -> 0 <= j < sm_cols m ->
  sorted L -> Forall (fun kv => 0 <= fst kv) L -> Forall (fun kv => in_view m (fst kv)) L ->
  rlook m (i * sm_cols m + j) L = lookup ((sm_roff m + i) * sm_cmax m + (sm_coff m + j)) L.
Proof.
  intros L Hro Hco Hcc Hi Hj. induction L as [|[k e] L IH]; intros Hs Hnn Hv; simpl; [reflexivity|].
  pose proof (sorted_head_absent _ _ _ Hs) as Habs. apply sorted_cons_inv in Hs as [Hs _].
  inversion Hnn; subst. inversion Hv; subst. simpl in *.
  rewrite IH by assumption.
  destruct H3 as (Hc0 & Hq & Hr).
  assert (0 < sm_cmax m) as Hcpos by lia.
  pose proof (Z.quot_rem' k (sm_cmax m)) as Hk.
  pose proof (Z.rem_bound_pos k (sm_cmax m) H1 Hcpos) as Hrb.
  set (qq := Z.quot k (sm_cmax m)) in *. set (rr := Z.rem k (sm_cmax m)) in *.
  assert ((i * sm_cols m + j =? kprime m k) = ((sm_roff m + i) * sm_cmax m + (sm_coff m + j) =? k)) as Heq.
  { unfold kprime. fold qq rr.
    destruct (i * sm_cols m + j =? (qq - sm_roff m) * sm_cols m + (rr - sm_coff m)) eqn:E1;
    destruct ((sm_roff m + i) * sm_cmax m + (sm_coff m + j) =? k) eqn:E2; try reflexivity; exfalso.
    - apply Z.eqb_eq in E1. apply Z.eqb_neq in E2. apply rowcol_unique in E1 as [Ea Eb]; [|lia|lia].
      apply E2. rewrite Hk. replace qq with (sm_roff m + i) by lia. replace rr with (sm_coff m + j) by lia. ring.
    - apply Z.eqb_neq in E1. apply Z.eqb_eq in E2. apply E1.
      assert ((sm_roff m + i) * sm_cmax m + (sm_coff m + j) = qq * sm_cmax m + rr) as G by lia.
      apply rowcol_unique in G as [Ga Gb]; [|lia|lia]. rewrite <- Ga, <- Gb. ring. }
  rewrite Heq.
  destruct ((sm_roff m + i) * sm_cmax m + (sm_coff m + j) =? k) eqn:Ek.
  - apply Z.eqb_eq in Ek. rewrite Ek. rewrite Habs. reflexivity.
  - destruct (lookup _ L); reflexivity.
Qed.

(* what the writer serialises: a stand-alone sparse vector of dimension rows*cols holding the view *)
Definition storage (m : smat E) : res (svec E) :=
  if sm_is_view m then sm_repack E enul m else Ok (sm_vals m).

Lemma storage_spec (m : smat E) st :
  wf_sm m -> storage m = Ok st ->
  wf_sv st /\ sv_n st = sm_rows m * sm_cols m /\
  forall i j, 0 <= i < sm_rows m -> 0 <= j < sm_cols m ->
    zeq (sm_val F zero E eval m i j) (sv_val F zero E eval st (i * sm_cols m + j)).
Proof.
  intros Hwf Hst. pose proof Hwf as (H1 & H2 & H3 & H4 & H5 & H6 & (Hn & Hs & Hr) & H8).
  unfold storage in Hst. destruct (sm_is_view m) eqn:Ev.
  - unfold sm_repack in Hst. apply bind_ok in Hst as (ents & He & Hst). inversion Hst; subst st; clear Hst.
    apply repack_go_spec in He as (G1 & G2 & G3 & G4).
    split; [|split; [reflexivity|]].
    + unfold wf_sv; simpl. split; [nia|]. split; [apply G1; constructor|].
      apply Forall_forall. intros [q y] Hin. simpl.
      destruct (G2 q) as [[]|Hq]; [apply in_map_iff; exists (q, y); auto|assumption].
    + intros i j Hi Hj. unfold sm_val, sv_val; simpl. rewrite G3.
      rewrite (rlook_lookup m i j) ; try assumption.
      * unfold sv_live. rewrite lookup_filter by assumption. simpl.
        destruct (lookup _ (sv_ents (sm_vals m))) as [e|]; [|left; reflexivity].
        destruct (enul e) eqn:En; simpl; [|left; reflexivity].
        right; split; [apply enul_zero; assumption|assumption].
      * apply sorted_filter; assumption.
      * apply Forall_filter'. eapply Forall_impl; [|exact Hr]. simpl. intros; lia.
  - inversion Hst; subst st; clear Hst.
    unfold sm_is_view in Ev. apply orb_false_elim in Ev as [Er Ec].
    assert (sm_rmax m = sm_rows m /\ sm_roff m = 0 /\ sm_cmax m = sm_cols m /\ sm_coff m = 0) as (Q1 & Q2 & Q3 & Q4) by lia.
    split; [unfold wf_sv; auto|]. split; [rewrite H8, Q1, Q3; reflexivity|].
    intros i j Hi Hj. unfold sm_val. rewrite Q2, Q3, Q4.
    replace ((0 + i) * sm_cols m + (0 + j)) with (i * sm_cols m + j) by lia. left; reflexivity.
Qed.

(* ---------------------------------------------------------------- the reader's validation *)
Lemma read_sm_ok d m :
  read_sm F T nz parseJ d = Ok m <->
  (read_sm_core F T nz parseJ d = Ok m /\ dims_bad (smd_rows d) (smd_cols d) = false /\
   idx_ok (wrap64 (smd_rows d * smd_cols d)) [] (smd_index d) = true).
Proof.
  unfold read_sm, read_sm_core.
  destruct (parse_list F T parseJ (smd_value d)) as [vals| | |]; simpl; try (split; [discriminate|intros (C & _); discriminate]).
  destruct (negb (zlen (smd_index d) =? zlen vals)); [split; [discriminate|intros (C & _); discriminate]|].
  destruct (dims_bad (smd_rows d) (smd_cols d)); [split; [discriminate|intros (_ & C & _); discriminate]|].
  destruct (idx_ok _ [] (smd_index d)); simpl.
  - split; [intros H; repeat split; assumption|intros (H & _); assumption].
  - split; [discriminate|intros (_ & _ & C); discriminate].
Qed.

(* reader safety at full strength *)
Lemma read_sm_safe d m :
  read_sm F T nz parseJ d = Ok m -> wf_sm m /\ sm_rows m = smd_rows d /\ sm_cols m = smd_cols d.
Proof.
  intros H. apply read_sm_ok in H as (Hc & Hd & Hi).
  apply dims_ok in Hd as (Hr & Hcn & Hw). rewrite Hw in Hi. apply idx_ok_nil in Hi as [HF _].
  unfold read_sm_core in Hc. apply bind_ok in Hc as (vals & _ & Hc).
  destruct (negb (zlen (smd_index d) =? zlen vals)); [discriminate|].
  apply bind_ok in Hc as (st & Hst & Hc). inversion Hc; subst m; clear Hc. simpl.
  rewrite Hw in Hst. apply new_sparse_safe in Hst as (Hn & Hs & Hlt & Hnn).
  split; [|split; reflexivity].
  unfold wf_sm; simpl. repeat (split; [lia|]). split; [|assumption].
  unfold wf_sv. rewrite Hn. split; [nia|]. split; [assumption|].
  assert (Forall (fun kv => 0 <= fst kv) (sv_ents st)) as Hnn'.
  { apply Hnn. eapply Forall_impl; [|exact HF]. simpl. intros; lia. }
  apply Forall_forall. intros kv Hin.
  eapply Forall_forall in Hlt; [|eassumption]. eapply Forall_forall in Hnn'; [|eassumption]. lia.
Qed.

Lemma read_sm_total d : read_sm F T nz parseJ d <> Panic /\ read_sm F T nz parseJ d <> Crash.
Proof.
  unfold read_sm.
  destruct (parse_list F T parseJ (smd_value d)) as [vals| | |] eqn:Ep; simpl; try (split; discriminate);
    try (unfold parse_list in Ep; destruct (mapM parseJ _); discriminate).
  destruct (zlen (smd_index d) =? zlen vals) eqn:El; simpl; [|split; discriminate].
  destruct (dims_bad (smd_rows d) (smd_cols d)); [split; discriminate|].
  destruct (idx_ok _ [] (smd_index d)) eqn:Ei; simpl; [|split; discriminate].
  apply idx_ok_nil in Ei as [HF Hnd]. apply Z.eqb_eq in El.
  destruct (nsg_ok F nz (wrap64 (smd_rows d * smd_cols d)) (smd_index d) vals []) as (ents & He & _).
  { unfold zlen in El. lia. } { assumption. }
  { intros k Hin. split; [|reflexivity]. eapply Forall_forall in HF; [|eassumption]. simpl in HF. lia. }
  unfold new_sparse. replace (zlen (smd_index d) =? zlen vals) with true by (symmetry; apply Z.eqb_eq; assumption).
  simpl. rewrite He. simpl. split; discriminate.
Qed.

Lemma sm_core_roundtrip (m : smat E) d :
  wf_sm m -> sm_rows m * sm_cols m < 2^63 ->
  write_sm F T fmtJ E eval enul m = Ok d ->
  exists m', read_sm_core F T nz parseJ d = Ok m' /\ wf_sm m' /\ sm_obs_eq F zero nz E eval m m'.
Proof.
  intros Hwf Hbound Hw. unfold write_sm in Hw. fold (storage m) in Hw.
  apply bind_ok in Hw as (st & Hst & Hw). apply bind_ok in Hw as (ts & Hts & Hw). inversion Hw; subst d; clear Hw.
  destruct (storage_spec m st Hwf Hst) as (Hwst & Hnst & Hval).
  pose proof Hwf as (H1 & H2 & H3 & H4 & _).
  assert (0 <= sm_rows m * sm_cols m) as Hnn by nia.
  destruct (sparse_core F T zero nz fmtJ parseJ nz_zero fmt_parse E eval enul enul_zero st ts (sm_rows m * sm_cols m) Hwst ltac:(lia) Hts)
    as (vals & Hp & Hlen & v' & Hv' & Hn' & Hs' & Hr' & Hobs).
  unfold read_sm_core; simpl. rewrite Hp; simpl.
  replace (zlen (map fst (live st)) =? zlen vals) with true by (symmetry; apply Z.eqb_eq; assumption).
  simpl. rewrite wrap64_small by lia. rewrite Hv'. simpl.
  eexists; split; [reflexivity|]. split.
  - unfold wf_sm; simpl. split; [lia|]. split; [lia|]. split; [lia|]. split; [lia|]. split; [lia|]. split; [lia|].
    split; [|exact Hn'].
    unfold wf_sv. rewrite Hn'. split; [exact Hnn|]. split; [exact Hs'|]. rewrite Hnst in Hr'. exact Hr'.
  - unfold sm_obs_eq; simpl. split; [reflexivity|]. split; [reflexivity|].
    intros i j Hi Hj. unfold sm_at, sm_index; simpl.
    replace ((i <? 0) || (j <? 0) || (i >=? sm_rows m) || (j >=? sm_cols m)) with false by lia.
    replace ((0 + i) * sm_cols m + (0 + j)) with (i * sm_cols m + j) by lia.
    unfold sv_at. rewrite Hn'.
    replace ((i * sm_cols m + j <? 0) || (i * sm_cols m + j >=? sm_rows m * sm_cols m)) with false by nia.
    specialize (Hobs (i * sm_cols m + j)). specialize (Hval i j Hi Hj).
    destruct (lookup (i * sm_cols m + j) (sv_ents v')); eexists; (split; [reflexivity|]); eapply zeq_trans; eassumption.
Qed.

Lemma sm_roundtrip (m : smat E) d :
  wf_sm m -> sm_rows m * sm_cols m < 2^63 ->
  write_sm F T fmtJ E eval enul m = Ok d ->
  exists m', read_sm F T nz parseJ d = Ok m' /\ wf_sm m' /\ sm_obs_eq F zero nz E eval m m'.
Proof.
  intros Hwf Hbound Hw. destruct (sm_core_roundtrip m d Hwf Hbound Hw) as (m' & Hr & Hwf' & Hobs).
  exists m'. split; [|split; assumption]. apply read_sm_ok. split; [assumption|].
  unfold write_sm in Hw. fold (storage m) in Hw.
  apply bind_ok in Hw as (st & Hst & Hw). apply bind_ok in Hw as (ts & _ & Hw). inversion Hw; subst d; simpl.
  destruct (storage_spec m st Hwf Hst) as (Hwst & Hnst & _).
  pose proof Hwf as (_ & _ & H3 & H4 & _).
  split; [apply dims_good; assumption|].
  rewrite wrap64_small by nia.
  apply live_idx_ok; [assumption|lia].
Qed.

(* the only structural failure of the writer on a well-formed slice: a stored non-null entry
   of the parent outside the slice *)
Lemma storage_ok_inside (m : smat E) :
  wf_sm m -> Forall (fun kv => in_view m (fst kv) /\ 0 <= fst kv) (live (sm_vals m)) ->
  exists st, storage m = Ok st.
Proof.
  intros Hwf Hin. unfold storage. destruct (sm_is_view m); [|eauto]. unfold sm_repack.
  pose proof Hwf as (H1 & H2 & H3 & H4 & _).
  assert (G : forall L acc, Forall (fun kv => in_view m (fst kv) /\ 0 <= fst kv) L -> exists ents, sm_repack_go E m acc L = Ok ents).
  { induction L as [|[k e] L IH]; intros acc HL; simpl; [eauto|].
    inversion HL; subst. destruct H5 as [(Hc & Hi & Hj) Hk]. simpl in *.
    unfold sm_ij. replace (sm_cmax m =? 0) with false by lia.
    set (i := Z.quot k (sm_cmax m) - sm_roff m) in *. set (j := Z.rem k (sm_cmax m) - sm_coff m) in *.
    replace ((i <? 0) || (j <? 0) || (i >=? sm_rows m) || (j >=? sm_cols m)) with false by lia.
    replace ((i * sm_cols m + j <? 0) || (i * sm_cols m + j >=? sm_rows m * sm_cols m)) with false by nia.
    apply IH; assumption. }
  destruct (G _ [] Hin) as [ents ->]. simpl. eauto.
Qed.

End SparseMat.

(* ---------------------------------------------------------------- refutations (integer instance) *)
Definition Zid (z : Z) : Z := z.
Definition Znul (z : Z) : bool := negb (Znz z).
Definition Zwsm := write_sm Z Z Zfmt Z Zid Znul.
Definition Zrsm := read_sm Z Z Znz Zparse.

(* 3x3 with m[0,0]=1 and m[2,2]=2; the slice [1:3,1:3] *)
Definition spslice_witness : smat Z := mkSm (mkSv [(0, 1); (8, 2)] 9) 2 2 1 3 1 3.

Lemma sparse_slice_write_refuted :
  wf_sm spslice_witness /\ Zwsm spslice_witness = Panic.
Proof.
  split; [|reflexivity].
  unfold wf_sm, wf_sv, spslice_witness, sorted, keys; simpl.
  repeat split; try lia; repeat constructor; simpl; lia.
Qed.

(* witnesses of the retired F-JSON-SPARSE-PANIC / F-JSON-NEGIDX for matrices: errors now *)
Lemma sparse_matrix_reader_regression :
  Zrsm (mkSmDoc [1] [1] 1 1) = Err /\                    (* index outside: was a panic *)
  Zrsm (mkSmDoc [-1] [1] 1 1) = Err /\                   (* negative index: was accepted *)
  Zrsm (mkSmDoc [] [] (2^32) (2^32)) = Err /\            (* Rows*Cols wraps to 0: was accepted *)
  Zrsm (mkSmDoc [] [] 3037000500 3037000500) = Err /\    (* wraps to a negative number *)
  Zrsm (mkSmDoc [] [] (-1) (-1)) = Err /\
  Zrsm (mkSmDoc [0; 0] [1; 1] 1 1) = Err /\
  Zrsm (mkSmDoc [3; 0] [5; 0] 2 2) = Ok (mkSm (mkSv [(3, 5)] 4) 2 2 0 2 0 2).
Proof. repeat split; reflexivity. Qed.
