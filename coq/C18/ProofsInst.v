(* C18 — the generic container theorems instantiated at the two element codecs of the library:
   plain numbers (Float32, Float64 and the Int types) and derivative-carrying scalars (Real32, Real64). *)
From Coq Require Import ZArith List Bool Lia.
From ADV Require Import C18.Model C18.Spec C18.ProofsBase C18.ProofsScalar C18.ProofsDense.
Import ListNotations.
Open Scope Z_scope.

Section Inst.
Variables F T : Type.
Variable zero : F.
Variable nz : F -> bool.
Variable fmtJ : F -> option T.
Variable parseJ : T -> option F.
Hypothesis nz_zero : nz zero = false.
Hypothesis fmt_parse : forall x t, fmtJ x = Some t -> parseJ t = Some x.

(* kept from round 1 (then: well-formed and not Hessian-only); since 500dcc2 every well-formed Real is good *)
Definition real_good (r : real F) : Prop := wf_real F r.

Lemma real_codec : forall e d, real_good e -> write_real F T nz fmtJ e = Ok d ->
  exists e', read_real F T zero parseJ d = Ok e' /\ real_obs_eq F zero nz e e'.
Proof.
  intros e d Hw Hwr.
  destruct (real_roundtrip F T zero nz fmtJ parseJ nz_zero fmt_parse e d Hw Hwr) as (r' & Hr & _ & Ho). eauto.
Qed.

Lemma real_rd_total : forall x, read_real F T zero parseJ x <> Panic /\ read_real F T zero parseJ x <> Crash.
Proof. apply real_reader_total. Qed.
Lemma plain_rd_total : forall x, read_plain F T parseJ x <> Panic /\ read_plain F T parseJ x <> Crash.
Proof. intros x. unfold read_plain. destruct (parseJ x); simpl; split; discriminate. Qed.

Lemma plain_codec : forall (e : F) d, True -> write_plain F T fmtJ e = Ok d ->
  exists e', read_plain F T parseJ d = Ok e' /\ e = e'.
Proof. intros e d _ H. exists e. split; [eapply plain_roundtrip; eassumption|reflexivity]. Qed.

Lemma Forall_True {A} (l : list A) : Forall (fun _ => True) l.
Proof. induction l; constructor; auto. Qed.

Lemma Forall2_eq {A} (l l' : list A) : Forall2 eq l l' -> l = l'.
Proof. induction 1; subst; reflexivity. Qed.

Lemma dense_plain_vector_exact v d :
  write_dv F T (write_plain F T fmtJ) v = Ok d -> read_dv F T (read_plain F T parseJ) d = Ok v.
Proof.
  intros H. destruct (dv_roundtrip F T _ _ (fun _ => True) eq plain_codec v d (Forall_True v) H) as (v' & Hr & HF).
  apply Forall2_eq in HF. subst. assumption.
Qed.

Lemma dense_real_vector v d :
  Forall real_good v -> write_dv (real F) (sdoc T) (write_real F T nz fmtJ) v = Ok d ->
  exists v', read_dv (real F) (sdoc T) (read_real F T zero parseJ) d = Ok v' /\ Forall2 (real_obs_eq F zero nz) v v'.
Proof. apply dv_roundtrip, real_codec. Qed.

Lemma dense_plain_matrix (m : dmat F) d ez :
  wf_dm m -> dm_rows m * dm_cols m < 2^63 -> write_dm F T (write_plain F T fmtJ) ez m = Ok d ->
  exists m', read_dm F T (read_plain F T parseJ) false d = Ok m' /\ wf_dm m' /\ dm_obs_eq eq m m'.
Proof.
  intros Hwf Hb H. eapply dm_roundtrip with (good := fun _ => True); [exact plain_codec|assumption|assumption|apply Forall_True|eassumption].
Qed.

Lemma dense_real_matrix (m : dmat (real F)) d ez :
  wf_dm m -> dm_rows m * dm_cols m < 2^63 -> Forall real_good (dm_vals m) -> write_dm (real F) (sdoc T) (write_real F T nz fmtJ) ez m = Ok d ->
  exists m', read_dm (real F) (sdoc T) (read_real F T zero parseJ) true d = Ok m' /\ wf_dm m' /\
             dm_obs_eq (real_obs_eq F zero nz) m m'.
Proof. intros Hwf Hb Hg H. eapply dm_roundtrip; [exact real_codec|assumption|assumption|exact Hg|eassumption]. Qed.

(* reader safety including the elements: a Real matrix / vector the reader accepts holds well-formed Reals *)
Lemma mapR_Forall_post {A B} (f : A -> res B) (P : B -> Prop) :
  (forall a b, f a = Ok b -> P b) -> forall l ys, mapR f l = Ok ys -> Forall P ys.
Proof.
  intros Hf l ys H. apply mapR_Forall2 in H. induction H; constructor; eauto.
Qed.
Lemma dense_real_vector_reader_safe d v :
  read_dv (real F) (sdoc T) (read_real F T zero parseJ) d = Ok v -> Forall (wf_real F) v.
Proof. apply mapR_Forall_post. intros a b. apply real_reader_safe. Qed.
Lemma dense_real_matrix_reader_safe d m b :
  read_dm (real F) (sdoc T) (read_real F T zero parseJ) b d = Ok m ->
  Forall (wf_real F) (dm_vals m) /\ wf_dm m.
Proof.
  intros H. split.
  - unfold read_dm in H. apply bind_ok in H as (vals & Hv & H).
    destruct (_ || _); [discriminate|]. inversion H; subst; simpl.
    eapply mapR_Forall_post; [|eassumption]. intros a b0. apply real_reader_safe.
  - apply read_dm_safe in H as (Hw & _). exact Hw.
Qed.

End Inst.
