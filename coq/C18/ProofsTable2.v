(* C18 — tables, round 3: the dense-matrix round trip read POSITIONALLY (dm_at of the read-back = value of
   dm_at of the view, for every well-formed non-empty view), totality of the dense-matrix table writer on
   well-formed views, and the universally quantified round trip of sparse-matrix tables (whole matrices). *)
From Coq Require Import ZArith List Bool Lia Sorted.
From ADV Require Import C18.Model C18.Spec C18.ProofsBase C18.ProofsSparse C18.ProofsDense C18.ProofsSparseMat
  C18.TableModel C18.ProofsTable.
Import ListNotations.
Open Scope Z_scope.

(* ---------------------------------------------------------------- positional reading of a row-major list *)
Lemma nth_error_concat {A} (C : nat) : forall (rows : list (list A)) i j es,
  Forall (fun r => length r = C) rows -> nth_error rows i = Some es -> (j < C)%nat ->
  nth_error (concat rows) (i * C + j) = nth_error es j.
Proof.
  induction rows as [|r rows IH]; intros i j es Hall Hi Hj.
  - destruct i; discriminate.
  - inversion Hall as [|? ? Hr Hall']; subst. destruct i as [|i]; simpl in *.
    + inversion Hi; subst. rewrite nth_error_app1 by lia. reflexivity.
    + rewrite nth_error_app2 by lia. replace (length r + i * length r + j - length r)%nat with (i * length r + j)%nat by lia.
      eapply IH; eassumption.
Qed.

Lemma znth_concat {A} (C : Z) (rows : list (list A)) i j es e :
  Forall (fun r => zlen r = C) rows -> znth rows i = Some es -> znth es j = Some e ->
  znth (concat rows) (i * C + j) = Some e.
Proof.
  intros Hall Hi Hj.
  pose proof (znth_range _ _ _ Hi) as Ri. pose proof (znth_range _ _ _ Hj) as Rj.
  assert (HC : zlen es = C) by (eapply Forall_forall in Hall; [eassumption|eapply znth_In; eassumption]).
  unfold znth in *. destruct (i <? 0) eqn:Ei; [discriminate|]. destruct (j <? 0) eqn:Ej; [discriminate|].
  replace (i * C + j <? 0) with false by nia.
  replace (Z.to_nat (i * C + j)) with (Z.to_nat i * Z.to_nat C + Z.to_nat j)%nat by nia.
  rewrite (nth_error_concat (Z.to_nat C) rows (Z.to_nat i) (Z.to_nat j) es); [assumption| |assumption|unfold zlen in *; lia].
  eapply Forall_impl; [|exact Hall]. simpl. intros r Hr. unfold zlen in Hr. lia.
Qed.

Lemma znth_map {A B} (f : A -> B) (l : list A) k : znth (map f l) k = option_map f (znth l k).
Proof. unfold znth. destruct (k <? 0); [reflexivity|]. apply nth_error_map. Qed.

Section Table2.
Variables F T : Type.
Variable fmtT : F -> T.
Variable parseT : T -> option F.
Variable E : Type.
Variable eval : E -> F.

Notation cell_ok := (cell_ok F T fmtT parseT E eval).
Notation view_rows := (view_rows E).

(* the rows the writer reads, positionally *)
Lemma view_rows_at (m : dmat E) rowsE i j :
  view_rows m rowsE -> 0 <= i < dm_rows m -> 0 <= j < dm_cols m ->
  exists es e, znth rowsE i = Some es /\ znth es j = Some e /\ dm_at E m i j = Ok e.
Proof.
  intros Hv Hi Hj. unfold ProofsTable.view_rows in Hv.
  destruct (Forall2_znth _ _ _ i i Hv (znth_zrange _ _ Hi)) as (es & Hes & Hrow).
  destruct (Forall2_znth _ _ _ j j Hrow (znth_zrange _ _ Hj)) as (e & He & Hat).
  exists es, e. auto.
Qed.

Lemma view_rows_width (m : dmat E) rowsE :
  view_rows m rowsE -> 0 <= dm_cols m -> Forall (fun es => zlen es = dm_cols m) rowsE.
Proof.
  intros Hv Hc. unfold ProofsTable.view_rows in Hv. revert Hv. generalize (zrange (dm_rows m)) as is. intros is Hv.
  induction Hv as [|i es is rowsE Hes Hv IH]; constructor; [|assumption].
  apply Forall2_length' in Hes. pose proof (zrange_length (dm_cols m)) as Hz. unfold zlen in *. lia.
Qed.

(* the writer is total on well-formed views *)
Lemma export_dm_total (m : dmat E) : wf_dm m -> exists ls, export_dm F T fmtT E eval m = Ok ls.
Proof.
  intros Hwf. unfold export_dm. destruct (dm_rows m <=? 0); [eauto|].
  apply mapR_zrange_total. intros i Hi. unfold export_dm_row.
  destruct (mapR_zrange_total (fun j => e <- dm_at E m i j ;; Ok (fmtT (eval e))) (dm_cols m)) as [fs Hfs].
  { intros j Hj. destruct (dm_at_wf E m i j Hwf Hi Hj) as (e & He & _). rewrite He. simpl. eauto. }
  rewrite Hfs. simpl. eauto.
Qed.

(* THE POSITIONAL ROUND TRIP: every well-formed non-empty view (slices, transposes, compositions) of cells whose
   printed value reads back — the file is written, read, and the read-back matrix has the view's dimensions and,
   at every position, the value of the view's element *)
Lemma dm_table_roundtrip_positional (m : dmat E) p real :
  text_prefix p -> wf_dm m -> 0 < dm_rows m -> 0 < dm_cols m -> Forall cell_ok (dm_vals m) ->
  exists ls m', export_dm F T fmtT E eval m = Ok ls /\
    import_dm F T parseT real (plain_file p ls) = Ok m' /\ wf_dm m' /\
    dm_rows m' = dm_rows m /\ dm_cols m' = dm_cols m /\
    forall i j, 0 <= i < dm_rows m -> 0 <= j < dm_cols m ->
      exists e, dm_at E m i j = Ok e /\ dm_at F m' i j = Ok (eval e).
Proof.
  intros Hp Hwf Hr Hc Hgood. destruct (export_dm_total m Hwf) as [ls Hex]. exists ls.
  destruct (dm_table_roundtrip_rows F T fmtT parseT E eval m ls p real Hp Hwf Hr Hc Hgood Hex) as (rowsE & Hv & Him).
  eexists. split; [assumption|]. split; [exact Him|].
  pose proof (view_rows_width m rowsE Hv ltac:(lia)) as Hw.
  assert (Hlen : zlen rowsE = dm_rows m).
  { unfold ProofsTable.view_rows in Hv. apply Forall2_length' in Hv. pose proof (zrange_length (dm_rows m)) as Hz.
    unfold zlen in *. lia. }
  assert (Hcat : zlen (map eval (concat rowsE)) = dm_rows m * dm_cols m).
  { rewrite <- Hlen. clear - Hw. unfold zlen. rewrite map_length.
    induction Hw as [|es rowsE Hl _ IH]; [simpl; lia|].
    cbn [concat]. rewrite app_length. cbn [length]. unfold zlen in Hl. nia. }
  split; [apply wf_dm_full; [lia|lia|assumption]|]. split; [reflexivity|]. split; [reflexivity|].
  intros i j Hi Hj. destruct (view_rows_at m rowsE i j Hv Hi Hj) as (es & e & Hes & He & Hat).
  exists e. split; [assumption|].
  unfold dm_at, dm_index; simpl.
  replace ((i <? 0) || (j <? 0) || (i >=? dm_rows m) || (j >=? dm_cols m)) with false by lia.
  replace ((0 + i) * dm_cols m + (0 + j)) with (i * dm_cols m + j) by lia.
  rewrite znth_map. rewrite (znth_concat (dm_cols m) rowsE i j es e Hw Hes He). reflexivity.
Qed.

End Table2.

(* ================================================================ sparse-matrix tables, whole matrices *)
Section SparseMatTable.
Variables F T : Type.
Variable nz : F -> bool.
Variable fmtT : F -> T.
Variable parseT : T -> option F.
Variable fmtI : Z -> T.
Variable parseI : T -> option Z.
Variable E : Type.
Variable eval : E -> F.
Variable enul : E -> bool.
Variable zero : F.
Hypothesis nz_zero : nz zero = false.
Hypothesis int_roundtrip : forall z, parseI (fmtI z) = Some z.     (* %d read by ParseInt *)
Hypothesis tok_roundtrip : forall x, parseT (fmtT x) = Some x.     (* %v read by ParseFloat + conversion *)
Hypothesis enul_zero : forall e, enul e = true -> nz (eval e) = false.

Notation zeq := (zeq F nz).

(* not a slice: the view is the whole backing vector (slices: F-TABLE-SPSLICE) *)
Definition whole (m : smat E) : Prop :=
  sm_roff m = 0 /\ sm_coff m = 0 /\ sm_rmax m = sm_rows m /\ sm_cmax m = sm_cols m.

Definition entry_line (cols : Z) (kv : Z * E) : tline T :=
  LFields [fmtI (fst kv / cols); fmtI (fst kv mod cols); fmtT (eval (snd kv))].

Lemma mapR_ok_map {A B} (f : A -> res B) (g : A -> B) l :
  Forall (fun x => f x = Ok (g x)) l -> mapR f l = Ok (map g l).
Proof. induction 1 as [|x l Hx _ IH]; simpl; [reflexivity|]. rewrite Hx. simpl. rewrite IH. reflexivity. Qed.

Lemma export_sm_line_whole (m : smat E) kv :
  whole m -> 0 < sm_cols m -> 0 <= fst kv ->
  export_sm_line F T fmtT fmtI E eval m kv = Ok (entry_line (sm_cols m) kv).
Proof.
  intros (W1 & W2 & W3 & W4) Hc Hk. unfold export_sm_line, sm_ij, entry_line. rewrite W4, W1, W2.
  replace (sm_cols m =? 0) with false by lia.
  rewrite Z.quot_div_nonneg, Z.rem_mod_nonneg by lia. rewrite !Z.sub_0_r. reflexivity.
Qed.

(* ---- the writer on a whole matrix: header, then "k/cols  k mod cols  value" per stored non-null entry *)
Lemma export_sm_whole (m : smat E) :
  wf_sm m -> whole m ->
  export_sm F T fmtT fmtI E eval enul m =
  Ok (LFields [fmtI (sm_rows m); fmtI (sm_cols m)] :: map (entry_line (sm_cols m)) (sv_live E enul (sm_vals m))).
Proof.
  intros (H1 & H2 & H3 & H4 & H5 & H6 & (Hn & Hs & Hr) & H8) (W1 & W2 & W3 & W4).
  unfold export_sm.
  assert (Hl : Forall (fun kv => 0 <= fst kv < sm_rows m * sm_cols m) (sv_live E enul (sm_vals m))).
  { apply Forall_filter'. rewrite H8, W3, W4 in Hr. exact Hr. }
  assert (Hm : mapR (export_sm_line F T fmtT fmtI E eval m) (sv_live E enul (sm_vals m)) =
               Ok (map (entry_line (sm_cols m)) (sv_live E enul (sm_vals m)))).
  { apply mapR_ok_map. eapply Forall_impl; [|exact Hl]. intros [k e] Hk. simpl in Hk.
    apply export_sm_line_whole; [repeat split; assumption|nia|simpl; lia]. }
  rewrite Hm. reflexivity.
Qed.

(* ---- the reader's body loop on such lines *)
Lemma import_sm_body_lines cols : forall (L : list (Z * E)) ri ci vals,
  import_sm_body F T parseT parseI ri ci vals (map (entry_line cols) L) =
  Ok (ri ++ map (fun kv => fst kv / cols) L, ci ++ map (fun kv => fst kv mod cols) L, vals ++ map (fun kv => eval (snd kv)) L).
Proof.
  induction L as [|[k e] L IH]; intros ri ci vals; simpl.
  - rewrite !app_nil_r. reflexivity.
  - rewrite !int_roundtrip, tok_roundtrip. rewrite IH. rewrite <- !app_assoc. reflexivity.
Qed.

(* ---- NewSparse*Matrix on what was read: every non-zero value is stored at its own key *)
Definition step (a : list (Z * F)) (kv : Z * E) : list (Z * F) :=
  if nz (eval (snd kv)) then aset (fst kv) (eval (snd kv)) a else a.

Lemma new_sm_go_live rows cols : 0 <= rows -> rows * cols < 2^63 ->
  forall (L : list (Z * E)) acc, Forall (fun kv => 0 <= fst kv < rows * cols) L ->
  new_sm_go F nz rows cols (rows * cols) acc (map (fun kv => fst kv / cols) L) (map (fun kv => fst kv mod cols) L)
            (map (fun kv => eval (snd kv)) L) = Ok (fold_left step L acc).
Proof.
  intros Hr Hb. induction L as [|[k e] L IH]; intros acc HL; simpl; [reflexivity|].
  inversion HL as [|? ? Hk HL']; subst. simpl in Hk.
  assert (0 < cols) as Hc by nia.
  unfold step at 2. simpl fst; simpl snd.
  destruct (nz (eval e)) eqn:En; [|apply IH; assumption].
  pose proof (Z.mod_pos_bound k cols Hc) as Hm.
  pose proof (Z.div_mod k cols ltac:(lia)) as Hdm.
  assert (0 <= k / cols < rows) as Hd.
  { split; [apply Z.div_pos; lia|]. apply Z.div_lt_upper_bound; nia. }
  replace ((k / cols <? 0) || (k mod cols <? 0) || (k / cols >=? rows) || (k mod cols >=? cols)) with false by lia.
  assert (Hkk : wrap64 (wrap64 (k / cols * cols) + k mod cols) = k).
  { rewrite (wrap64_small (k / cols * cols)) by nia. rewrite wrap64_small by nia. nia. }
  rewrite Hkk. replace ((k <? 0) || (k >=? rows * cols)) with false by lia.
  apply IH; assumption.
Qed.

Lemma fold_step_spec : forall (L : list (Z * E)) acc,
  sorted L ->
  (sorted acc -> sorted (fold_left step L acc)) /\
  (forall q, In q (keys (fold_left step L acc)) -> In q (keys acc) \/ In q (keys L)) /\
  (forall q, lookup q (fold_left step L acc) =
             match lookup q L with
             | Some e => if nz (eval e) then Some (eval e) else lookup q acc
             | None => lookup q acc
             end).
Proof.
  induction L as [|[k e] L IH]; intros acc Hs; simpl.
  - split; [auto|]. split; [auto|]. reflexivity.
  - pose proof (sorted_head_absent _ _ _ Hs) as Habs. apply sorted_cons_inv in Hs as [Hs' _].
    destruct (IH (step acc (k, e)) Hs') as (I1 & I2 & I3). split; [|split].
    + intros Ha. apply I1. unfold step. simpl. destruct (nz (eval e)); [apply sorted_aset|]; assumption.
    + intros q Hq. destruct (I2 q Hq) as [Hq'|Hq'].
      * unfold step in Hq'. simpl in Hq'. destruct (nz (eval e)); [|auto].
        apply keys_aset_In in Hq' as [->|Hq']; [right; left; reflexivity|auto].
      * right. right. assumption.
    + intros q. rewrite I3. unfold step. simpl fst; simpl snd. destruct (q =? k) eqn:Eq.
      * apply Z.eqb_eq in Eq. subst q. rewrite Habs. destruct (nz (eval e)); [rewrite lookup_aset, Z.eqb_refl|]; reflexivity.
      * destruct (nz (eval e)); [rewrite lookup_aset, Eq|]; reflexivity.
Qed.

(* ---- THE ROUND TRIP: every well-formed whole sparse matrix (any stored entries, explicit zeros and null scalars
   included) is written, read back, and the read-back matrix is well-formed with the same dimensions and, at every
   position, the same value up to the zeros the format does not carry *)
Lemma sm_table_roundtrip (m : smat E) p :
  text_prefix p -> wf_sm m -> whole m -> sm_rows m * sm_cols m < 2^63 ->
  exists ls m', export_sm F T fmtT fmtI E eval enul m = Ok ls /\
    import_sm F T nz parseT parseI (plain_file p ls) = Ok m' /\ wf_sm m' /\ sm_obs_eq F zero nz E eval m m'.
Proof.
  intros Hp Hwf Hwh Hb. rewrite (export_sm_whole m Hwf Hwh). eexists. eexists. split; [reflexivity|].
  pose proof Hwf as (H1 & H2 & H3 & H4 & H5 & H6 & (Hn & Hs & Hr) & H8). pose proof Hwh as (W1 & W2 & W3 & W4).
  set (L := sv_live E enul (sm_vals m)).
  assert (HsL : sorted L) by (apply sorted_filter; assumption).
  assert (HrL : Forall (fun kv => 0 <= fst kv < sm_rows m * sm_cols m) L).
  { apply Forall_filter'. rewrite H8, W3, W4 in Hr. exact Hr. }
  destruct (fold_step_spec L [] HsL) as (G1 & G2 & G3).
  assert (Him : import_sm F T nz parseT parseI
            (plain_file p (LFields [fmtI (sm_rows m); fmtI (sm_cols m)] :: map (entry_line (sm_cols m)) L)) =
          Ok (mkSm (mkSv (fold_left step L []) (sm_rows m * sm_cols m)) (sm_rows m) (sm_cols m) 0 (sm_rows m) 0 (sm_cols m))).
  { unfold import_sm, open_table, plain_file; simpl. rewrite (is_gzip_text p Hp); simpl.
    unfold import_sm_stream, closing; simpl. rewrite !int_roundtrip. simpl.
    rewrite import_sm_body_lines. simpl.
    unfold new_sm. unfold zlen. rewrite !map_length, Z.eqb_refl. simpl.
    rewrite wrap64_small by nia.
    rewrite (new_sm_go_live (sm_rows m) (sm_cols m) H3 Hb L [] HrL). reflexivity. }
  split; [exact Him|]. split.
  - unfold wf_sm; simpl. repeat (split; [lia|]). split; [|reflexivity].
    unfold wf_sv; simpl. split; [nia|]. split; [apply G1; constructor|].
    apply Forall_forall. intros [q y] Hin. simpl.
    destruct (G2 q) as [[]|Hq]; [apply in_map_iff; exists (q, y); auto|].
    apply in_map_iff in Hq as (kv & <- & Hq). eapply Forall_forall in HrL; [|eassumption]. exact HrL.
  - unfold sm_obs_eq; simpl. split; [reflexivity|]. split; [reflexivity|].
    intros i j Hi Hj. unfold sm_at, sm_index; simpl.
    replace ((i <? 0) || (j <? 0) || (i >=? sm_rows m) || (j >=? sm_cols m)) with false by lia.
    replace ((0 + i) * sm_cols m + (0 + j)) with (i * sm_cols m + j) by lia.
    unfold sv_at; simpl.
    replace ((i * sm_cols m + j <? 0) || (i * sm_cols m + j >=? sm_rows m * sm_cols m)) with false by nia.
    unfold sm_val, sv_val. rewrite W1, W2, W4.
    replace ((0 + i) * sm_cols m + (0 + j)) with (i * sm_cols m + j) by lia.
    rewrite G3. unfold L, sv_live. rewrite lookup_filter by assumption. simpl.
    destruct (lookup (i * sm_cols m + j) (sv_ents (sm_vals m))) as [e|]; simpl.
    + destruct (enul e) eqn:En; simpl.
      * eexists; split; [reflexivity|]. right. split; [apply enul_zero; assumption|assumption].
      * destruct (nz (eval e)) eqn:Ez; eexists; (split; [reflexivity|]); [left; reflexivity|right; split; assumption].
    + eexists; split; [reflexivity|]. left; reflexivity.
Qed.

End SparseMatTable.
