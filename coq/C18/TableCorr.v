(* C18 correspondence for the table (text file) formats: the model of TableModel.v instantiated
   at concrete tokens and evaluated by vm_compute on what the Go harness observed.

   A token of a file is handed over as what the STANDARD parsers make of its text:
     tk_f = strconv.ParseFloat(text, 64)  (None: it returns an error, also a range error)
     tk_i = strconv.ParseInt(text, 10, 64)
   The conversion STORED_TYPE(value) the readers then apply is part of the model ([conv]). *)
From Coq Require Import ZArith List Bool Floats.
From ADV Require Import Base.Corr C18.Model C18.Corr C18.TableModel.
Import ListNotations.
Open Scope Z_scope.

Inductive kind : Type := KF64 | KF32 | KInt (bits : Z).

Record tok : Type := mkTok { tk_f : option float; tk_i : option Z }.

(* float32(x) *)
Definition r32 (x : float) : float :=
  match Prim2SF x with
  | S754_finite s m e => SF2Prim (binary_normalize 24 128 (if s then Zneg m else Zpos m) e s)
  | _ => x
  end.
(* the integral part (toward zero) of a float; NaN and infinities are out of every integer range *)
Definition f_trunc (x : float) : Z :=
  match Prim2SF x with
  | S754_zero _ => 0
  | S754_finite s m e =>
      let a := if e >=? 0 then Z.pos m * 2 ^ e else Z.pos m / 2 ^ (- e) in
      if s then - a else a
  | _ => 2 ^ 2000
  end.
Definition f_integral (x : float) : bool :=
  match Prim2SF x with
  | S754_zero _ => true
  | S754_finite _ m e => (e >=? 0) || (Z.pos m mod 2 ^ (- e) =? 0)
  | _ => false
  end.
Definition conv (k : kind) (x : float) : el :=
  match k with
  | KF64 => EF x
  | KF32 => EF (r32 x)
  | KInt bits => EZ (cvt_int bits (f_trunc x))
  end.
Definition tparse (k : kind) (t : tok) : option el := option_map (conv k) (tk_f t).

(* what the model's writers emit: "the text of this value" / "the text of this integer" *)
Inductive mtok : Type := MV (x : el) | MI (z : Z).
Definition zopt_eqb := option_eqb Z.eqb.
(* a Go token is the text of a value when the element type's own reading of it returns the value
   (floats: through ParseFloat and the narrowing; integers: the decimal literal itself) *)
Definition tok_is (k : kind) (m : mtok) (t : tok) : bool :=
  match m with
  | MI z => zopt_eqb (tk_i t) (Some z)
  | MV (EZ z) => zopt_eqb (tk_i t) (Some z)
  | MV (EF f) => option_eqb el_eqb (tparse k t) (Some (EF f))
  end.
Fixpoint list_rel2b {X Y} (e : X -> Y -> bool) (a : list X) (b : list Y) : bool :=
  match a, b with
  | [], [] => true
  | x :: a', y :: b' => e x y && list_rel2b e a' b'
  | _, _ => false
  end.
Definition tline_is (k : kind) (a : tline mtok) (b : tline tok) : bool :=
  match a, b with
  | LEmpty, LEmpty => true
  | LFields x, LFields y => list_rel2b (tok_is k) x y
  | _, _ => false
  end.
Definition lines_are (k : kind) (a : list (tline mtok)) (b : list (tline tok)) : bool :=
  list_rel2b (tline_is k) a b.

(* ---------------------------------------------------------------- instances *)
Definition idel (e : el) : el := e.
(* writers at model tokens *)
Definition W_tdv := export_dv el mtok MV el idel.
Definition W_tdm := export_dm el mtok MV el idel.
Definition W_tsv := export_sv el mtok MV MI sel sel_val sel_nul.
Definition W_tsm := export_sm el mtok MV MI sel sel_val sel_nul.
(* readers at Go tokens *)
Definition R_tdv (k : kind) := import_dv el tok (tparse k).
Definition R_tdm (k : kind) := import_dm el tok (tparse k).
Definition R_tsv (k : kind) := import_sv el tok el_nz (tparse k) tk_i.
Definition R_tsm (k : kind) := import_sm el tok el_nz (tparse k) tk_i.

(* ---------------------------------------------------------------- cases *)
(* round trips: the Go object as observed, the lines of the file Go's Export wrote, the first bytes
   of that file, and what Go's Import made of it.  malformed: a file and Go's Import outcome. *)
Inductive tcase : Type :=
| TRtDv (k : kind) (v : list el) (gw : res (list (tline tok))) (prefix : list Z) (gr : res (list el))
| TRtDm (k : kind) (real : bool) (r0 c0 : Z) (ops : list vop) (m : dmat el)
        (gw : res (list (tline tok))) (prefix : list Z) (gr : res (dmat el))
| TRtSv (k : kind) (v : svec sel) (gw : res (list (tline tok))) (prefix : list Z) (gr : res (svec el))
| TRtSm (k : kind) (r0 c0 : Z) (ops : list vop) (m : smat sel)
        (gw : res (list (tline tok))) (prefix : list Z) (gr : res (smat el))
| TMalDv (k : kind) (f : tfile tok) (gr : res (list el))
| TMalDm (k : kind) (real : bool) (f : tfile tok) (gr : res (dmat el))
| TMalSv (k : kind) (f : tfile tok) (gr : res (svec el))
| TMalSm (k : kind) (f : tfile tok) (gr : res (smat el))
(* strconv.ParseFloat of the decimal literal of z is the float x: ties [rne53] to the standard parser *)
| TLit (z : Z) (x : float).

Definition wr_ok (k : kind) (w : res (list (tline mtok))) (gw : res (list (tline tok))) : bool :=
  match w, gw with
  | Ok a, Ok b => lines_are k a b
  | Err, Err => true
  | Panic, Panic => true
  | Crash, Crash => true
  | _, _ => false
  end.

Definition trt {R} (k : kind) (w : res (list (tline mtok))) (rd : tfile tok -> res R) (re : R -> R -> bool)
           (gw : res (list (tline tok))) (prefix : list Z) (gr : res R) : bool :=
  wr_ok k w gw &&
  match gw with Ok ls => res_eqb re (rd (plain_file prefix ls)) gr | _ => true end.

Definition tcheck (c : tcase) : bool :=
  match c with
  | TRtDv k v gw p gr => trt k (Ok (W_tdv v)) (R_tdv k) ell_eqb gw p gr
  | TRtDm k real r0 c0 ops m gw p gr =>
      dm_hdr_eqb (fold_left dm_apply ops (dm_full (dm_vals m) r0 c0)) m &&
      trt k (W_tdm m) (R_tdm k real) (dmat_eqb el_eqb) gw p gr
  | TRtSv k v gw p gr => trt k (Ok (W_tsv v)) (R_tsv k) (svec_eqb el_eqb) gw p gr
  | TRtSm k r0 c0 ops m gw p gr =>
      sm_hdr_eqb (fold_left sm_apply ops (mkSm (sm_vals m) r0 c0 0 r0 0 c0)) m &&
      trt k (W_tsm m) (R_tsm k) (smat_eqb el_eqb) gw p gr
  | TMalDv k f gr => res_eqb ell_eqb (R_tdv k f) gr
  | TMalDm k real f gr => res_eqb (dmat_eqb el_eqb) (R_tdm k real f) gr
  | TMalSv k f gr => res_eqb (svec_eqb el_eqb) (R_tsv k f) gr
  | TMalSm k f gr => res_eqb (smat_eqb el_eqb) (R_tsm k f) gr
  | TLit z x => f_integral x && (f_trunc x =? rne53 z)
  end.

Definition tmism (cs : list tcase) : list nat := mismatches tcheck cs.
