(* C18 — scalars: round trip of Real32/Real64 (every well-formed Real, Hessian-only documents included),
   of plain and of constant scalars; safety of the Real reader on every document.  The former refutation
   witnesses (Hessian-only, unchecked Hessian shape, constant scalars) are regression examples now. *)
From Coq Require Import ZArith List Bool Lia.
From ADV Require Import C18.Model C18.Spec C18.ProofsBase.
Import ListNotations.
Open Scope Z_scope.

Section Scalar.
Variables F T : Type.
Variable zero : F.
Variable nz : F -> bool.
Variable fmtJ : F -> option T.
Variable parseJ : T -> option F.
Hypothesis nz_zero : nz zero = false.
(* Go's shortest formatting followed by the standard parser returns the same number *)
Hypothesis fmt_parse : forall x t, fmtJ x = Some t -> parseJ t = Some x.

Notation getD := (getD F zero).
Notation getH := (getH F zero).
Notation any_nz := (any_nz F nz).
Notation any_nz2 := (any_nz2 F nz).
Notation zeq := (zeq F nz).

Lemma plain_roundtrip x t : write_plain F T fmtJ x = Ok t -> read_plain F T parseJ t = Ok x.
Proof. unfold write_plain, read_plain. intros H. apply of_opt_ok in H. rewrite (fmt_parse _ _ H). reflexivity. Qed.

Lemma zeq_refl x : zeq x x. Proof. left; reflexivity. Qed.

(* ---------------------------------------------------------------- scans *)
Lemma any_nz_false l n :
  any_nz l n = Ok false -> forall i, (i < n)%nat -> exists d, nth_error l i = Some d /\ nz d = false.
Proof.
  revert l; induction n as [|n IH]; intros l; simpl; [intros _ i Hi; lia|].
  destruct l as [|x l]; [intros; discriminate|].
  destruct (nz x) eqn:Ex; [intros; discriminate|]. intros H i Hi.
  destruct i; simpl; [eauto|]. apply IH; [assumption|lia].
Qed.

Lemma any_nz_true l n : any_nz l n = Ok true -> l <> [].
Proof. destruct n; simpl; [discriminate|]. destruct l; [discriminate|discriminate]. Qed.

Lemma any_nz2_false rows n m :
  any_nz2 rows n m = Ok false ->
  forall i j, (i < n)%nat -> (j < m)%nat ->
    exists row h, nth_error rows i = Some row /\ nth_error row j = Some h /\ nz h = false.
Proof.
  revert rows; induction n as [|n IH]; intros rows; simpl; [intros _ i j Hi; lia|].
  destruct rows as [|row rest]; [intros; discriminate|].
  destruct (any_nz row m) as [b| | |] eqn:Er; simpl; try (intros; discriminate).
  destruct b; [intros; discriminate|]. intros H i j Hi Hj.
  destruct i; simpl.
  - destruct (any_nz_false _ _ Er j Hj) as (h & Hh & Hz). eauto.
  - apply IH; [assumption|lia|assumption].
Qed.

Lemma any_nz2_true rows n m : any_nz2 rows n m = Ok true -> rows <> [].
Proof. destruct n; simpl; [discriminate|]. destruct rows; [discriminate|discriminate]. Qed.

(* ---------------------------------------------------------------- accessors under wf *)
Lemma getD_wf r i : wf_real F r -> 0 <= i < rn r -> exists d, getD r i = Ok d.
Proof.
  intros (Ho & Hn & Hd & _) Hi. unfold Model.getD.
  destruct (rorder r >=? 1) eqn:E; [|eauto].
  destruct (znth_some (rderiv r) i) as [d Hd']; [rewrite Hd; lia|]. rewrite Hd'. eauto.
Qed.

Lemma getH_wf r i j : wf_real F r -> 0 <= i < rn r -> 0 <= j < rn r -> exists h, getH r i j = Ok h.
Proof.
  intros (Ho & Hn & _ & Hh) Hi Hj. unfold Model.getH.
  destruct (rorder r >=? 2) eqn:E; [|eauto].
  destruct Hh as [Hl Hrows]; [lia|].
  destruct (znth_some (rhess r) i) as [row Hrow]; [lia|]. rewrite Hrow.
  assert (zlen row = rn r) as Hlr.
  { eapply Forall_forall in Hrows; [eassumption|]. eapply znth_In; eassumption. }
  destruct (znth_some row j) as [h Hh']; [lia|]. rewrite Hh'. eauto.
Qed.

Lemma znth_nat {A} (l : list A) i : 0 <= i -> znth l i = nth_error l (Z.to_nat i).
Proof. intros H. unfold znth. destruct (i <? 0) eqn:E; [lia|reflexivity]. Qed.

(* gradient not carried: every entry the reader would have needed is a zero *)
Lemma getD_zero_when_t1_false r i :
  wf_real F r -> real_t1 F nz r = Ok false -> 0 <= i < rn r ->
  exists d, getD r i = Ok d /\ nz d = false.
Proof.
  intros Hwf Ht Hi. unfold real_t1 in Ht. unfold Model.getD.
  destruct (rorder r >=? 1) eqn:E1.
  - assert ((rorder r >? 0) && (rn r >? 0) = true) as G by (apply andb_true_intro; split; lia).
    rewrite G in Ht. destruct (any_nz_false _ _ Ht (Z.to_nat i)) as (d & Hd & Hz); [lia|].
    rewrite znth_nat by lia. rewrite Hd. eauto.
  - eauto.
Qed.

Lemma getH_zero_when_t2_false r i j :
  wf_real F r -> real_t2 F nz r = Ok false -> 0 <= i < rn r -> 0 <= j < rn r ->
  exists h, getH r i j = Ok h /\ nz h = false.
Proof.
  intros Hwf Ht Hi Hj. unfold real_t2 in Ht. unfold Model.getH.
  destruct (rorder r >=? 2) eqn:E1.
  - assert ((rorder r >? 0) && (rn r >? 0) && (rorder r >? 1) = true) as G
      by (repeat (apply andb_true_intro; split); lia).
    rewrite G in Ht.
    destruct (any_nz2_false _ _ _ Ht (Z.to_nat i) (Z.to_nat j)) as (row & h & Hr & Hh & Hz); [lia|lia|].
    rewrite znth_nat by lia. rewrite Hr. rewrite znth_nat by lia. rewrite Hh. eauto.
  - eauto.
Qed.

Lemma t1_true_order r : real_t1 F nz r = Ok true -> 1 <= rorder r /\ 0 < rn r /\ rderiv r <> [].
Proof.
  unfold real_t1. destruct ((rorder r >? 0) && (rn r >? 0)) eqn:G; [|discriminate].
  apply andb_prop in G as [G1 G2]. intros H. apply any_nz_true in H. repeat split; try lia; assumption.
Qed.
Lemma t2_true_order r : real_t2 F nz r = Ok true -> 2 <= rorder r /\ 0 < rn r /\ rhess r <> [].
Proof.
  unfold real_t2. destruct ((rorder r >? 0) && (rn r >? 0) && (rorder r >? 1)) eqn:G; [|discriminate].
  apply andb_prop in G as [G12 G3]. apply andb_prop in G12 as [G1 G2].
  intros H. apply any_nz2_true in H. repeat split; try lia; assumption.
Qed.

Lemma real_t1_total r : wf_real F r -> exists b, real_t1 F nz r = Ok b.
Proof.
  intros (Ho & Hn & Hd & _). unfold real_t1.
  destruct ((rorder r >? 0) && (rn r >? 0)) eqn:G; [|eauto].
  apply andb_prop in G as [G1 G2].
  assert (length (rderiv r) = Z.to_nat (rn r)) as Hl by (specialize (Hd ltac:(lia)); unfold zlen in Hd; lia).
  revert Hl. generalize (Z.to_nat (rn r)). generalize (rderiv r).
  induction l as [|x l IH]; intros n Hl; destruct n; simpl in *; try discriminate; eauto.
  destruct (nz x); eauto.
Qed.

(* ---------------------------------------------------------------- the round trip *)
Lemma fmt_list_parse l ts : fmt_list F T fmtJ l = Ok ts -> parse_list F T parseJ ts = Ok l.
Proof.
  unfold fmt_list, parse_list. intros H. apply of_opt_ok in H.
  rewrite (mapM_roundtrip fmtJ parseJ fmt_parse _ _ H). reflexivity.
Qed.
Lemma fmt_rows_parse l ts : fmt_rows F T fmtJ l = Ok ts -> parse_rows F T parseJ ts = Ok l.
Proof.
  unfold fmt_rows, parse_rows. intros H. apply of_opt_ok in H.
  rewrite (mapM_rows_roundtrip fmtJ parseJ fmt_parse _ _ H). reflexivity.
Qed.

Lemma const_roundtrip x t : write_const F T fmtJ x = Ok t -> read_plain F T parseJ t = Ok x.
Proof. exact (plain_roundtrip x t). Qed.

Lemma rows_len_true n (H : list (list F)) : Forall (fun row => zlen row = n) H -> rows_len F n H = true.
Proof.
  intros HF. unfold rows_len. apply forallb_forall. intros row Hin.
  eapply Forall_forall in HF; [|eassumption]. apply Z.eqb_eq. assumption.
Qed.
Lemma rows_len_Forall n (H : list (list F)) : rows_len F n H = true -> Forall (fun row => zlen row = n) H.
Proof.
  unfold rows_len. intros Hb. apply Forall_forall. intros row Hin.
  eapply forallb_forall in Hb; [|eassumption]. apply Z.eqb_eq. assumption.
Qed.

Lemma zlen_repeat {A} (a : A) n : zlen (repeat a n) = Z.of_nat n.
Proof. unfold zlen. rewrite repeat_length. reflexivity. Qed.
Lemma znth_repeat {A} (a : A) n i : 0 <= i < Z.of_nat n -> znth (repeat a n) i = Some a.
Proof.
  intros Hi. destruct (znth_some (repeat a n) i) as [x Hx]; [rewrite zlen_repeat; lia|].
  rewrite Hx. f_equal. apply znth_In in Hx. eapply repeat_spec; eassumption.
Qed.

Lemma real_roundtrip r d :
  wf_real F r ->
  write_real F T nz fmtJ r = Ok d ->
  exists r', read_real F T zero parseJ d = Ok r' /\ wf_real F r' /\ real_obs_eq F zero nz r r'.
Proof.
  intros Hwf Hw. unfold write_real in Hw.
  apply bind_ok in Hw as (t1 & Ht1 & Hw). apply bind_ok in Hw as (t2 & Ht2 & Hw).
  apply bind_ok in Hw as (v & Hv & Hw). apply of_opt_ok in Hv. apply fmt_parse in Hv.
  pose proof Hwf as (Ho & Hn & Hd & Hh).
  destruct t1, t2.
  - (* {Value, Derivative, Hessian} *)
    apply bind_ok in Hw as (dd & Hdd & Hw). apply bind_ok in Hw as (hh & Hhh & Hw). inversion Hw; subst d; clear Hw.
    apply fmt_list_parse in Hdd. apply fmt_rows_parse in Hhh.
    destruct (t1_true_order _ Ht1) as (O1 & N1 & D1). destruct (t2_true_order _ Ht2) as (O2 & N2 & H2).
    simpl. rewrite Hv; simpl. rewrite Hdd; simpl. rewrite Hhh; simpl.
    specialize (Hd ltac:(lia)). destruct (Hh ltac:(lia)) as [Hh1 Hh2].
    destruct (rderiv r) as [|d0 dl] eqn:ED; [congruence|]. destruct (rhess r) as [|h0 hl] eqn:EH; [congruence|].
    rewrite Hh1, Hd, Z.eqb_refl. rewrite (rows_len_true _ _ Hh2). simpl. eexists; split; [reflexivity|].
    split.
    + unfold wf_real; simpl. rewrite Hd. repeat split; try lia; auto.
    + unfold real_obs_eq; simpl. split; [reflexivity|]. split; [|split; [|split]].
      * intros i Hi. destruct (getD_wf r i Hwf Hi) as [x Hx]. exists x, x. split; [assumption|]. split; [|apply zeq_refl].
        revert Hx. unfold Model.getD; simpl. rewrite ED.
        replace (rorder r >=? 1) with true by lia. simpl. tauto.
      * intros i j Hi Hj. destruct (getH_wf r i j Hwf Hi Hj) as [x Hx]. exists x, x. split; [assumption|]. split; [|apply zeq_refl].
        revert Hx. unfold Model.getH; simpl. rewrite EH.
        replace (rorder r >=? 2) with true by lia. simpl. tauto.
      * intros _. split; [reflexivity|congruence].
      * intros _. congruence.
  - (* {Value, Derivative} *)
    apply bind_ok in Hw as (dd & Hdd & Hw). inversion Hw; subst d; clear Hw.
    apply fmt_list_parse in Hdd.
    destruct (t1_true_order _ Ht1) as (O1 & N1 & D1).
    simpl. rewrite Hv; simpl. rewrite Hdd; simpl.
    destruct (rderiv r) as [|d0 dl] eqn:ED; [congruence|].
    eexists; split; [reflexivity|].
    specialize (Hd ltac:(lia)).
    split.
    + unfold wf_real; simpl. repeat split; try lia; auto.
    + unfold real_obs_eq; simpl. split; [reflexivity|]. split; [|split; [|split]].
      * intros i Hi. destruct (getD_wf r i Hwf Hi) as [x Hx]. exists x, x. split; [assumption|]. split; [|apply zeq_refl].
        revert Hx. unfold Model.getD; simpl. rewrite ED.
        replace (rorder r >=? 1) with true by lia. simpl. tauto.
      * intros i j Hi Hj. destruct (getH_zero_when_t2_false r i j Hwf Ht2 Hi Hj) as (h & Hh' & Hz).
        exists h, zero. split; [assumption|]. split; [reflexivity|]. right; split; assumption.
      * intros _. split; [assumption|congruence].
      * intros C; congruence.
  - (* {Value, Hessian}: the gradient comes back as N zeros *)
    apply bind_ok in Hw as (hh & Hhh & Hw). inversion Hw; subst d; clear Hw.
    apply fmt_rows_parse in Hhh.
    destruct (t2_true_order _ Ht2) as (O2 & N2 & H2).
    destruct (Hh ltac:(lia)) as [Hh1 Hh2].
    simpl. rewrite Hv; simpl. rewrite Hhh; simpl.
    destruct (rhess r) as [|h0 hl] eqn:EH; [congruence|].
    rewrite Hh1. rewrite (rows_len_true _ _ Hh2). cbn [negb].
    assert (Hlen : Z.of_nat (length (h0 :: hl)) = rn r) by (exact Hh1).
    remember (length (h0 :: hl)) as nn eqn:Enn. clear Enn.
    eexists; split; [reflexivity|].
    split.
    + unfold wf_real; simpl rorder; simpl rn; simpl rderiv; simpl rhess.
      split; [lia|]. split; [lia|]. split; [intros _; rewrite zlen_repeat; exact Hlen|]. intros _. split; assumption.
    + unfold real_obs_eq; simpl rval; simpl rn. split; [reflexivity|]. split; [|split; [|split]].
      * intros i Hi. destruct (getD_zero_when_t1_false r i Hwf Ht1 Hi) as (x & Hx & Hz).
        exists x, zero. split; [assumption|]. split; [|right; split; assumption].
        unfold Model.getD. simpl rorder. simpl rderiv. replace (2 >=? 1) with true by reflexivity.
        rewrite znth_repeat by lia. reflexivity.
      * intros i j Hi Hj. destruct (getH_wf r i j Hwf Hi Hj) as [x Hx]. exists x, x. split; [assumption|]. split; [|apply zeq_refl].
        revert Hx. unfold Model.getH; simpl. rewrite EH.
        replace (rorder r >=? 2) with true by lia. simpl. tauto.
      * intros C; congruence.
      * intros _. simpl. congruence.
  - (* bare number *)
    inversion Hw; subst d; clear Hw. simpl. rewrite Hv; simpl.
    eexists; split; [reflexivity|]. split.
    + unfold wf_real; simpl. repeat split; try lia; intros; lia.
    + unfold real_obs_eq; simpl. split; [reflexivity|]. split; [|split; [|split]].
      * intros i Hi. destruct (getD_zero_when_t1_false r i Hwf Ht1 Hi) as (x & Hx & Hz).
        exists x, zero. split; [assumption|]. split; [reflexivity|]. right; split; assumption.
      * intros i j Hi Hj. destruct (getH_zero_when_t2_false r i j Hwf Ht2 Hi Hj) as (h & Hh' & Hz).
        exists h, zero. split; [assumption|]. split; [reflexivity|]. right; split; assumption.
      * intros C; congruence.
      * intros C; congruence.
Qed.

(* reader safety: whatever the reader accepts is a well-formed Real — on EVERY document *)
Definition real_of (x : F) (D : list F) (H : list (list F)) : res (real F) :=
  match D, H with
  | _ :: _, _ :: _ =>
      if negb (zlen H =? zlen D) then Err
      else if negb (rows_len F (zlen D) H) then Err
      else Ok (mkReal x 2 (zlen D) D H)
  | _ :: _, [] => Ok (mkReal x 1 (zlen D) D [])
  | [], _ :: _ =>
      if negb (rows_len F (zlen H) H) then Err
      else Ok (mkReal x 2 (zlen H) (repeat zero (length H)) H)
  | [], [] => Ok (mkReal x 0 0 [] [])
  end.
Lemma read_real_obj tv td th :
  read_real F T zero parseJ (SObj tv td th) =
  (x <- of_opt (parseJ tv) ;;
   D <- parse_list F T parseJ (match td with Some l => l | None => [] end) ;;
   H <- parse_rows F T parseJ (match th with Some l => l | None => [] end) ;; real_of x D H).
Proof. reflexivity. Qed.

Lemma real_of_safe x D H r : real_of x D H = Ok r -> wf_real F r.
Proof.
  unfold real_of. intros Hr.
  destruct D as [|d0 D].
  - destruct (H) as [|h0 Hs] eqn:EH.
    + inversion Hr; subst. unfold wf_real; simpl. repeat split; try lia; intros; lia.
    + rewrite <- EH in *. clear EH.
      destruct (rows_len F (zlen H) H) eqn:Er; cbn [negb] in Hr; [|discriminate].
      inversion Hr; subst; clear Hr. apply rows_len_Forall in Er.
      unfold wf_real; cbn [rorder rn rderiv rhess].
      split; [lia|]. split; [apply zlen_nonneg|]. split; [intros _; apply zlen_repeat|].
      intros _. split; [reflexivity|assumption].
  - remember (d0 :: D) as DD eqn:EDD.
    destruct (H) as [|h0 Hs] eqn:EH.
    + rewrite EDD in Hr. inversion Hr; subst. unfold wf_real; cbn [rorder rn rderiv rhess].
      split; [lia|]. split; [apply zlen_nonneg|]. split; [reflexivity|]. intros; lia.
    + rewrite <- EH in *. clear EH. rewrite EDD in Hr. rewrite <- EDD in Hr.
      destruct (zlen H =? zlen DD) eqn:El; cbn [negb] in Hr; [|discriminate].
      destruct (rows_len F (zlen DD) H) eqn:Er; cbn [negb] in Hr; [|discriminate].
      inversion Hr; subst r; clear Hr. apply rows_len_Forall in Er. apply Z.eqb_eq in El.
      unfold wf_real; cbn [rorder rn rderiv rhess].
      split; [lia|]. split; [apply zlen_nonneg|]. split; [reflexivity|].
      intros _. split; assumption.
Qed.

Lemma real_reader_safe d r : read_real F T zero parseJ d = Ok r -> wf_real F r.
Proof.
  intros H. destruct d as [t|tv td th].
  - simpl in H. apply bind_ok in H as (x & _ & H). inversion H; subst. unfold wf_real; simpl. repeat split; try lia; intros; lia.
  - rewrite read_real_obj in H.
    apply bind_ok in H as (x & _ & H). apply bind_ok in H as (D & _ & H). apply bind_ok in H as (Hs & _ & H).
    eapply real_of_safe; eassumption.
Qed.

Lemma real_of_total x D H : real_of x D H <> Panic /\ real_of x D H <> Crash.
Proof.
  unfold real_of. destruct D, H; try (split; discriminate).
  - destruct (negb (rows_len F _ _)); split; discriminate.
  - destruct (negb (_ =? _)); [split; discriminate|]. destruct (negb (rows_len F _ _)); split; discriminate.
Qed.

(* the scalar readers never panic or crash *)
Lemma real_reader_total d : read_real F T zero parseJ d <> Panic /\ read_real F T zero parseJ d <> Crash.
Proof.
  destruct d as [t|tv td th].
  - simpl. destruct (parseJ t); simpl; split; discriminate.
  - rewrite read_real_obj.
    destruct (parseJ tv); simpl; [|split; discriminate].
    unfold parse_list, parse_rows.
    destruct (mapM parseJ _); simpl; [|split; discriminate].
    destruct (mapM (mapM parseJ) _); simpl; [|split; discriminate].
    apply real_of_total.
Qed.

End Scalar.

(* ---------------------------------------------------------------- regression examples (integer instance) *)
Definition Zwr := write_real Z Z Znz Zfmt.
Definition Zrd := read_real Z Z 0 Zparse.

(* z = x*y at (0,0): gradient (0,0), Hessian [[0,1],[1,0]] — the witness of the retired finding F-JSON-HESSONLY *)
Definition hessonly_witness : real Z := mkReal 0 2 2 [0; 0] [[0; 1]; [1; 0]].

Lemma real_hessonly_regression :
  wf_real Z hessonly_witness /\ hess_only Z Znz hessonly_witness /\
  Zwr hessonly_witness = Ok (SObj 0 None (Some [[0; 1]; [1; 0]])) /\
  Zrd (SObj 0 None (Some [[0; 1]; [1; 0]])) = Ok hessonly_witness.
Proof.
  split. { unfold wf_real, hessonly_witness; simpl. repeat split; try lia. repeat constructor. }
  split; [split; reflexivity|]. split; reflexivity.
Qed.

(* ragged / mis-sized Hessians (witness of the retired F-JSON-REALSHAPE) are answered with an error *)
Lemma real_reader_shape_regression :
  Zrd (SObj 1 (Some [1]) (Some [[1; 2]; [3]])) = Err /\
  Zrd (SObj 1 (Some [1]) (Some [[1; 2]])) = Err /\
  Zrd (SObj 1 (Some [1; 2]) (Some [[1; 2]])) = Err /\
  Zrd (SObj 1 None (Some [[1; 2]])) = Err /\
  Zrd (SObj 1 None (Some [[1]])) = Ok (mkReal 1 2 1 [0] [[1]]).
Proof. repeat split; reflexivity. Qed.

Lemma const_write_regression : forall x : Z, write_const Z Z Zfmt x = Ok x.
Proof. reflexivity. Qed.
