(* C18 — distribution configurations: import (export d) = d for every registered scalar family
   (on whatever the importer can build), closure under transforms / i.i.d. / mixtures, and the
   refutations (binomial; panics on malformed documents). *)
From Coq Require Import ZArith List Bool Lia.
From ADV Require Import C18.Model C18.ProofsBase C18.ConfigModel.
Import ListNotations.
Open Scope Z_scope.

Section ConfigProofs.
Variable F : Type.
Variables zero one : F.
Variable fle flt feq : F -> F -> bool.
Variables flog fexp ftrunc : F -> F.
Variable norm : list F -> list F.

Notation imp_simple := (import_simple F zero one fle flt feq flog ftrunc).
Notation imp := (import_cfg F zero one fle flt feq flog ftrunc norm).
Notation expo := (export F fexp).

Hypothesis feq_one : feq one one = true.
Hypothesis feq_zero_one : feq zero one = false.
(* log-parameters: exp then log returns the stored value, and exp is never negative *)
Hypothesis flog_fexp : forall x, flog (fexp x) = x.
Hypothesis fexp_nonneg : forall x, flt (fexp x) zero = false.

Lemma mapR_nums (ps : list F) : mapR (get_float F) (map JNum ps) = Ok ps.
Proof. induction ps as [|x ps IH]; simpl; [reflexivity|]. rewrite IH. reflexivity. Qed.
Lemma get_floats_nums (ps : list F) : get_floats F (JArr (map JNum ps)) = Ok ps.
Proof. simpl. induction ps as [|x ps IH]; simpl; [reflexivity|]. rewrite IH. reflexivity. Qed.

Definition plain_fam (f : fam) : bool :=
  match f with
  | FBeta | FCauchy | FDelta | FExponential | FGamma | FGenGamma | FGeometric | FGev | FLaplace
  | FNegBinomial | FNormal | FPareto | FGPareto | FPoisson | FPowerLaw => true
  | _ => false
  end.

(* every parameter vector the importer can store is re-imported unchanged from its own export *)
Lemma simple_roundtrip f ps st :
  plain_fam f = true -> imp_simple f ps = Ok st -> imp_simple f (export_params F fexp f st) = Ok st.
Proof.
  intros Hf H. destruct f; try discriminate Hf; simpl in *;
  destruct ps as [|a [|b [|c r]]]; simpl in H; try discriminate H;
  repeat match type of H with
         | context [if ?b then _ else _] => destruct b eqn:?; simpl in H; try discriminate H
         end;
  inversion H; subst; clear H; simpl;
  repeat match goal with
         | Hc : ?b = _ |- context [?b] => rewrite Hc; simpl
         end; try reflexivity.
  all: try (destruct (feq c one) eqn:Ec; simpl; rewrite ?feq_one, ?feq_zero_one; reflexivity).
Qed.

Lemma categorical_roundtrip ps st :
  imp_simple FCategorical ps = Ok st -> imp_simple FCategorical (export_params F fexp FCategorical st) = Ok st.
Proof.
  simpl. intros H. destruct (length ps =? 0)%nat eqn:E0; [discriminate|].
  destruct (existsb _ ps); [discriminate|]. inversion H; subst; clear H.
  rewrite !map_length, E0.
  replace (existsb (fun x => flt x zero) (map fexp (map flog ps))) with false.
  - f_equal. rewrite (map_map fexp flog). rewrite <- (map_id (map flog ps)) at 2. apply map_ext. intros x. apply flog_fexp.
  - symmetry. induction (map flog ps) as [|x l IH]; simpl; [reflexivity|]. rewrite fexp_nonneg, IH. reflexivity.
Qed.

(* whole documents of the families without children *)
Lemma imp_leaf f p ds :
  (plain_fam f = true \/ f = FCategorical) ->
  imp (Cfg f p ds) = (ps <- get_floats F p ;; st <- imp_simple f ps ;; Ok (Dist f st [])).
Proof. intros [Hf| ->]; [destruct f; try discriminate Hf|]; reflexivity. Qed.

Lemma leaf_roundtrip f ps st :
  (plain_fam f = true \/ f = FCategorical) ->
  imp (Cfg f (JArr (map JNum ps)) []) = Ok (Dist f st []) ->
  imp (expo (Dist f st [])) = Ok (Dist f st []).
Proof.
  intros Hf H. rewrite (imp_leaf f _ _ Hf), get_floats_nums in H. simpl in H.
  destruct (imp_simple f ps) as [st'| | |] eqn:Hs; simpl in H; try discriminate H.
  inversion H; subst st'; clear H.
  assert (Hr : imp_simple f (export_params F fexp f st) = Ok st)
    by (destruct Hf as [Hf| ->]; [eapply simple_roundtrip; eassumption|eapply categorical_roundtrip; eassumption]).
  assert (Hc : has_children f = false) by (destruct Hf as [Hf| ->]; [destruct f; try discriminate Hf|]; reflexivity).
  unfold export. rewrite Hc. rewrite (imp_leaf f _ _ Hf), get_floats_nums. simpl. rewrite Hr. reflexivity.
Qed.

Definition root_fam (d : dist F) : fam := match d with Dist f _ _ => f end.
Lemma export_root d : match expo d with Cfg f _ _ => f end = root_fam d.
Proof. destruct d; reflexivity. Qed.
Lemma export_scalar d : (match expo d with Cfg f' _ _ => scalar_fam f' end) = scalar_fam (root_fam d).
Proof. destruct d; reflexivity. Qed.

(* closure: a transform / translation / i.i.d. wrapper of a round-tripping scalar distribution round-trips *)
Lemma imp_wrapper f c c' :
  (f = FLogT \/ f = FTrans \/ f = FIid) ->
  imp (Cfg f (JArr [JNum c]) [c']) =
  if (match c' with Cfg f' _ _ => scalar_fam f' end)
  then (d <- imp c' ;; Ok (Dist f [match f with FIid => ftrunc c | _ => c end] [d])) else Err.
Proof. intros [->|[->| ->]]; reflexivity. Qed.

Lemma wrapper_roundtrip f c d :
  (f = FLogT \/ f = FTrans \/ (f = FIid /\ ftrunc c = c)) ->
  scalar_fam (root_fam d) = true -> imp (expo d) = Ok d ->
  imp (expo (Dist f [c] [d])) = Ok (Dist f [c] [d]).
Proof.
  intros Hf Hs Hd.
  assert (Hf' : f = FLogT \/ f = FTrans \/ f = FIid) by (destruct Hf as [?|[?|[? _]]]; auto).
  assert (He : expo (Dist f [c] [d]) = Cfg f (JArr [JNum c]) [expo d])
    by (destruct Hf' as [->|[->| ->]]; reflexivity).
  rewrite He, (imp_wrapper f c (expo d) Hf'), export_scalar, Hs, Hd. simpl.
  destruct Hf as [->|[->|[-> Ht]]]; rewrite ?Ht; reflexivity.
Qed.

(* closure: a mixture of round-tripping scalar distributions whose stored log-weights are a fixed point of
   NewMixture's normalisation round-trips (any number of components, zero included) *)
Lemma mixture_roundtrip lw ds :
  norm lw = lw ->
  Forall (fun d => scalar_fam (root_fam d) = true /\ imp (expo d) = Ok d) ds ->
  imp (expo (Dist FMixture lw ds)) = Ok (Dist FMixture lw ds).
Proof.
  intros Hn Hds. simpl. rewrite mapR_nums. simpl.
  assert (Hex : existsb (fun x => flt x zero) (map fexp lw) = false).
  { clear Hn. induction lw as [|x l IH]; simpl; [reflexivity|]. rewrite fexp_nonneg. exact IH. }
  rewrite Hex.
  assert (Hgo : (fix go (l : list (cfg F)) : res (list (dist F)) :=
                   match l with
                   | [] => Ok []
                   | c' :: r =>
                       d <- (if (match c' with Cfg f' _ _ => scalar_fam f' end) then imp c' else Err) ;;
                       ds' <- go r ;; Ok (d :: ds')
                   end) (map expo ds) = Ok ds).
  { induction Hds as [|d ds [Hs Hd] _ IH]; simpl; [reflexivity|].
    fold (expo d). rewrite export_scalar, Hs, Hd. simpl. rewrite IH. reflexivity. }
  rewrite Hgo. simpl. rewrite map_map.
  replace (map (fun x => flog (fexp x)) lw) with lw
    by (symmetry; rewrite <- (map_id lw) at 2; apply map_ext; intros x; apply flog_fexp).
  rewrite Hn. reflexivity.
Qed.

(* the binomial distribution exports its stored log(theta): for theta < 1 the re-import is rejected *)
Lemma binomial_export_is_log_theta theta n :
  expo (Dist FBinomial [flog theta; n] []) = Cfg FBinomial (JArr [JNum (flog theta); JNum n]) [].
Proof. reflexivity. Qed.

Lemma binomial_refuted theta n :
  flt (flog theta) zero = true ->
  imp (expo (Dist FBinomial [flog theta; n] [])) = Err.
Proof. intros H. simpl. rewrite H. reflexivity. Qed.

(* malformed documents answered with a panic *)
Lemma config_panics_refuted x :
  imp (Cfg FNormal (JArr [JNull; JNum x]) []) = Panic /\
  imp (Cfg FNormal (JArr [JNum x]) []) = Panic /\
  imp (Cfg FNormal JNull []) = Panic /\
  imp (Cfg FNormal JOther []) = Err /\
  imp (Cfg FUnknown (JArr [JNum x; JNum x]) []) = Err.
Proof. repeat split; reflexivity. Qed.

(* ---------------------------------------------------------------- the assembled round trip: induction over the tree *)
(* the distributions generated by the leaf families (15 plain + categorical; the binomial family is NOT a leaf here:
   F-CONFIG-BINOMIAL) under log transform, translation and mixtures of any arity, nested to any depth *)
Inductive rt_scalar : dist F -> Prop :=
| RtLeaf f st : (plain_fam f = true \/ f = FCategorical) -> (exists ps, imp_simple f ps = Ok st) -> rt_scalar (Dist f st [])
| RtWrap f c d : (f = FLogT \/ f = FTrans) -> rt_scalar d -> rt_scalar (Dist f [c] [d])
| RtMix lw ds : norm lw = lw -> Forall rt_scalar ds -> rt_scalar (Dist FMixture lw ds).
(* ... and, at the top only (the vector registry), i.i.d. copies of such a scalar distribution *)
Inductive rt_dist : dist F -> Prop :=
| RtScalar d : rt_scalar d -> rt_dist d
| RtIid c d : ftrunc c = c -> rt_scalar d -> rt_dist (Dist FIid [c] [d]).

Lemma dist_ind' (P : dist F -> Prop) :
  (forall f ps ds, Forall P ds -> P (Dist f ps ds)) -> forall d, P d.
Proof.
  intros H. fix IH 1. intros [f ps ds]. apply H.
  revert ds. fix IHl 1. intros [|d ds]; constructor; [apply IH|apply IHl].
Qed.

Lemma scalar_roundtrip_all : forall d, rt_scalar d -> scalar_fam (root_fam d) = true /\ imp (expo d) = Ok d.
Proof.
  induction d as [f ps ds IH] using dist_ind'. intros Hrt.
  inversion Hrt as [f' st Hf Hex | f' c d Hf Hd | lw ds' Hn Hall]; subst.
  - (* leaf *)
    destruct Hex as [ps0 Hps0]. split.
    + destruct Hf as [Hf| ->]; [destruct f; try discriminate Hf|]; reflexivity.
    + eapply (leaf_roundtrip f ps0 ps Hf). rewrite (imp_leaf f _ _ Hf), get_floats_nums. simpl. rewrite Hps0. reflexivity.
  - (* log transform / translation *)
    inversion IH as [|? ? IHd _]; subst. destruct (IHd Hd) as [Hs Hdd]. split.
    + destruct Hf as [->| ->]; reflexivity.
    + apply wrapper_roundtrip; [destruct Hf; auto|assumption|assumption].
  - (* mixture *)
    split; [reflexivity|]. apply mixture_roundtrip; [assumption|].
    clear Hrt Hn. induction Hall as [|d ds Hd Hds IHds]; [constructor|].
    inversion IH as [|? ? IHd IHrest]; subst. constructor; [apply IHd; assumption|apply IHds; assumption].
Qed.

(* import (export d) = d for EVERY nesting of mixtures / transforms / (top-level) iid over the leaf families *)
Lemma config_tree_roundtrip : forall d, rt_dist d -> imp (expo d) = Ok d.
Proof.
  intros d [d' Hs|c d' Hc Hs].
  - apply scalar_roundtrip_all; assumption.
  - destruct (scalar_roundtrip_all d' Hs) as [Hsc Hd]. apply wrapper_roundtrip; auto.
Qed.

(* the binomial family is excluded visibly: no derivation contains it, at any depth the tree is then outside the theorem *)
Lemma binomial_not_rt ps ds : ~ rt_dist (Dist FBinomial ps ds).
Proof.
  intros H. inversion H as [d Hs|]; subst.
  inversion Hs as [f' st Hf Hex | f' c d' Hf Hd | ]; subst.
  - destruct Hf as [Hf|Hf]; discriminate Hf.
  - destruct Hf as [Hf|Hf]; discriminate Hf.
Qed.

(* ... and it is not only outside the theorem: one binomial leaf (theta < 1) anywhere under transforms makes the
   whole re-import fail *)
Lemma binomial_poisons_wrappers theta n f c :
  (f = FLogT \/ f = FTrans \/ f = FIid) -> flt (flog theta) zero = true ->
  imp (expo (Dist f [c] [Dist FBinomial [flog theta; n] []])) = Err.
Proof.
  intros Hf H. assert (He : expo (Dist f [c] [Dist FBinomial [flog theta; n] []]) =
                            Cfg f (JArr [JNum c]) [Cfg FBinomial (JArr [JNum (flog theta); JNum n]) []])
    by (destruct Hf as [->|[->| ->]]; reflexivity).
  rewrite He, (imp_wrapper f c _ Hf). simpl. rewrite H. reflexivity.
Qed.

End ConfigProofs.
