(* C18, round 7 — table Import into a recycled receiver that is a VIEW: the header that comes back is the compact one of a
   fresh matrix (not transposed, offsets 0, strides = dimensions) and the values are those of the file in row-major order,
   whatever the receiver was — in particular a transposed view whose visible shape equals the table's. *)
From Coq Require Import ZArith List Bool Lia.
From ADV Require Import C18.Model C18.Spec C18.TableModel C18.RecvModel C18.ProofsBase C18.ProofsRecv C18.ProofsTable.
Import ListNotations.
Open Scope Z_scope.

Section R7.
Variables F T : Type.
Variable parseT : T -> option F.

Lemma new_dm_header real vals rows cols (m : dmat F) :
  new_dm F real vals rows cols = Ok m ->
  dm_rows m = rows /\ dm_cols m = cols /\ dm_roff m = 0 /\ dm_rmax m = rows /\ dm_coff m = 0 /\ dm_cmax m = cols /\ dm_tr m = false.
Proof.
  unfold new_dm. intros H. destruct real.
  - destruct (zlen vals =? 1).
    + destruct vals; [discriminate|]. inversion H; subst; simpl. repeat split.
    + destruct (zlen vals =? rows * cols); [|discriminate]. inversion H; subst; simpl. repeat split.
  - inversion H; subst; simpl. repeat split.
Qed.

Lemma import_dm_into_header real (old : dmat F) f m :
  import_dm_into F T parseT real old f = Ok m ->
  import_dm F T parseT real f = Ok m /\
  dm_roff m = 0 /\ dm_rmax m = dm_rows m /\ dm_coff m = 0 /\ dm_cmax m = dm_cols m /\ dm_tr m = false.
Proof.
  intros H. rewrite import_dm_into_indep in H. split; [exact H|].
  unfold import_dm in H. apply bind_ok in H as (s & Hs & H).
  unfold import_dm_stream in H. apply bind_ok in H as ([[vals rows] cols] & Hc & H).
  apply new_dm_header in H as (Hr & Hcs & H1 & H2 & H3 & H4 & H5). repeat split; congruence.
Qed.
End R7.

(* a 2x3 table into the TRANSPOSE of a 3x2 matrix (visible shape 2x3), and a 2x2 table into a transposed 2x2 matrix:
   the result is the table, row-major, in a fresh compact header; nothing of the old storage order survives *)
Definition tr_recv_23 : dmat Z := dm_T Z (mkDm [9; 8; 7; 6; 5; 4] 3 2 0 3 0 2 false).
Definition tr_recv_22 : dmat Z := dm_T Z (mkDm [9; 8; 7; 6] 2 2 0 2 0 2 false).
Lemma transposed_receiver_regression :
  dm_rows tr_recv_23 = 2 /\ dm_cols tr_recv_23 = 3 /\ dm_tr tr_recv_23 = true /\
  import_dm_into Z Z Zparse false tr_recv_23 (plain_file [49; 32] [LFields [1; 2; 3]; LFields [4; 5; 6]])
    = Ok (mkDm [1; 2; 3; 4; 5; 6] 2 3 0 2 0 3 false) /\
  import_dm_into Z Z Zparse true tr_recv_22 (plain_file [49; 32] [LFields [1; 2]; LFields [3; 4]])
    = Ok (mkDm [1; 2; 3; 4] 2 2 0 2 0 2 false).
Proof. repeat split; vm_compute; reflexivity. Qed.
