(* C18 correspondence: the model instantiated at concrete elements (binary64 values
   — float32 values are a subset — and integers), evaluated by vm_compute on what
   the Go harness observed. *)
From Coq Require Import ZArith List Bool Floats.
From ADV Require Import Base.Corr C18.Model.
Import ListNotations.
Open Scope Z_scope.

Inductive el : Type := EF (f : float) | EZ (z : Z).

Definition f_eqb (x y : float) : bool :=
  match Prim2SF x, Prim2SF y with
  | S754_zero a, S754_zero b => Bool.eqb a b
  | S754_infinity a, S754_infinity b => Bool.eqb a b
  | S754_nan, S754_nan => true
  | S754_finite a m e, S754_finite b m' e' => Bool.eqb a b && Pos.eqb m m' && Z.eqb e e'
  | _, _ => false
  end.
Definition f_finite (x : float) : bool :=
  match Prim2SF x with S754_zero _ | S754_finite _ _ _ => true | _ => false end.

Definition el_eqb (a b : el) : bool :=
  match a, b with
  | EF x, EF y => f_eqb x y
  | EZ x, EZ y => x =? y
  | _, _ => false
  end.
(* Go's  x != 0 *)
Definition el_nz (a : el) : bool :=
  match a with
  | EF x => negb (PrimFloat.eqb x 0%float)
  | EZ z => negb (z =? 0)
  end.
(* token = the value the standard parser yields for the literal; encoding/json refuses NaN/Inf *)
Definition el_fmtJ (a : el) : option el :=
  match a with
  | EF x => if f_finite x then Some a else None
  | EZ _ => Some a
  end.
Definition el_parseJ (t : el) : option el := Some t.
(* the zero of the element kind is carried by the case (float or int) *)

(* sparse containers of Real elements: (value, some derivative or Hessian entry non-zero) *)
Definition sel : Type := (el * bool)%type.
Definition sel_val (e : sel) : el := fst e.
Definition sel_nul (e : sel) : bool := negb (el_nz (fst e)) && negb (snd e).

(* ---------------------------------------------------------------- equalities *)
Definition res_eqb {A} (e : A -> A -> bool) (a b : res A) : bool :=
  match a, b with
  | Ok x, Ok y => e x y
  | Err, Err => true
  | Panic, Panic => true
  | Crash, Crash => true
  | _, _ => false
  end.
Definition zl_eqb := list_eqb Z.eqb.
Definition ell_eqb := list_eqb el_eqb.
Definition elr_eqb := list_eqb ell_eqb.

Definition sdoc_eqb (a b : sdoc el) : bool :=
  match a, b with
  | SNum x, SNum y => el_eqb x y
  | SObj v d h, SObj v' d' h' => el_eqb v v' && option_eqb ell_eqb d d' && option_eqb elr_eqb h h'
  | _, _ => false
  end.
Definition real_eqb (a b : real el) : bool :=
  el_eqb (rval a) (rval b) && (rorder a =? rorder b) && (rn a =? rn b)
  && ell_eqb (rderiv a) (rderiv b) && elr_eqb (rhess a) (rhess b).
Definition svdoc_eqb (a b : svdoc el) : bool :=
  zl_eqb (svd_index a) (svd_index b) && ell_eqb (svd_value a) (svd_value b) && (svd_length a =? svd_length b).
Definition smdoc_eqb (a b : smdoc el) : bool :=
  zl_eqb (smd_index a) (smd_index b) && ell_eqb (smd_value a) (smd_value b)
  && (smd_rows a =? smd_rows b) && (smd_cols a =? smd_cols b).
Definition dmdoc_eqb {D} (e : D -> D -> bool) (a b : dmdoc D) : bool :=
  list_eqb e (dmd_values a) (dmd_values b) && (dmd_rows a =? dmd_rows b) && (dmd_cols a =? dmd_cols b).
Definition ents_eqb {X} (e : X -> X -> bool) (a b : list (Z * X)) : bool :=
  list_eqb (fun p q => (fst p =? fst q) && e (snd p) (snd q)) a b.
Definition svec_eqb {X} (e : X -> X -> bool) (a b : svec X) : bool :=
  ents_eqb e (sv_ents a) (sv_ents b) && (sv_n a =? sv_n b).
Definition dmat_eqb {E} (e : E -> E -> bool) (a b : dmat E) : bool :=
  list_eqb e (dm_vals a) (dm_vals b) && (dm_rows a =? dm_rows b) && (dm_cols a =? dm_cols b)
  && (dm_roff a =? dm_roff b) && (dm_rmax a =? dm_rmax b) && (dm_coff a =? dm_coff b)
  && (dm_cmax a =? dm_cmax b) && Bool.eqb (dm_tr a) (dm_tr b).
Definition smat_eqb {X} (e : X -> X -> bool) (a b : smat X) : bool :=
  svec_eqb e (sm_vals a) (sm_vals b) && (sm_rows a =? sm_rows b) && (sm_cols a =? sm_cols b)
  && (sm_roff a =? sm_roff b) && (sm_rmax a =? sm_rmax b) && (sm_coff a =? sm_coff b)
  && (sm_cmax a =? sm_cmax b).

(* ---------------------------------------------------------------- instances *)
Definition W_plain := write_plain el el el_fmtJ.
Definition R_plain := read_plain el el el_parseJ.
Definition W_const := write_const el el el_fmtJ.
(* Real32/Real64 are float types: the zeros of a Hessian-only gradient are +0.0 *)
Definition R_real := read_real el el (EF 0%float) el_parseJ.
Definition W_real := write_real el el el_nz el_fmtJ.

Definition W_dv_plain := write_dv el el W_plain.
Definition R_dv_plain := read_dv el el R_plain.
Definition W_dv_real := write_dv (real el) (sdoc el) W_real.
Definition R_dv_real := read_dv (real el) (sdoc el) R_real.

Definition W_sv := write_sv el el el_fmtJ sel sel_val sel_nul.
Definition R_sv := read_sv el el el_nz el_parseJ.

Definition W_dm_plain (z : el) := write_dm el el W_plain z.
Definition R_dm_plain := read_dm el el R_plain false.
Definition W_dm_real (z : el) := write_dm (real el) (sdoc el) W_real (mkReal z 0 0 [] []).
Definition R_dm_real := read_dm (real el) (sdoc el) R_real true.

Definition W_sm := write_sm el el el_fmtJ sel sel_val sel_nul.
Definition R_sm := read_sm el el el_nz el_parseJ.

(* view recipes for dense / sparse matrices *)
Inductive vop : Type := VSlice (rf rt cf ct : Z) | VT.
Definition dm_apply {E} (m : dmat E) (o : vop) : dmat E :=
  match o with VSlice rf rt cf ct => dm_slice _ m rf rt cf ct | VT => dm_T _ m end.
Definition dm_hdr_eqb {E} (a b : dmat E) : bool :=
  (dm_rows a =? dm_rows b) && (dm_cols a =? dm_cols b)
  && (dm_roff a =? dm_roff b) && (dm_rmax a =? dm_rmax b) && (dm_coff a =? dm_coff b)
  && (dm_cmax a =? dm_cmax b) && Bool.eqb (dm_tr a) (dm_tr b).
Definition dm_full {E} (vals : list E) (r c : Z) : dmat E := mkDm vals r c 0 r 0 c false.
Definition sm_apply {X} (m : smat X) (o : vop) : smat X :=
  match o with VSlice rf rt cf ct => sm_slice m rf rt cf ct | VT => m end.
Definition sm_hdr_eqb {X} (a b : smat X) : bool :=
  (sm_rows a =? sm_rows b) && (sm_cols a =? sm_cols b)
  && (sm_roff a =? sm_roff b) && (sm_rmax a =? sm_rmax b) && (sm_coff a =? sm_coff b)
  && (sm_cmax a =? sm_cmax b).

(* ---------------------------------------------------------------- cases *)
(* a round-trip case: the Go object as observed, what Go's writer produced, and what
   Go's reader made of those bytes; a malformed case: a document and Go's reader outcome *)
Inductive case : Type :=
| RtPlain (x : el) (gw : res el) (gr : res el)
| RtConst (x : el) (gw : res el) (gr : res el)        (* read back into the mutable scalar of the same number type *)
| RtReal (r : real el) (gw : res (sdoc el)) (gr : res (real el))
| RtDvP (v : list el) (gw : res (list el)) (gr : res (list el))
| RtDvR (v : list (real el)) (gw : res (list (sdoc el))) (gr : res (list (real el)))
| RtSv (v : svec sel) (gw : res (svdoc el)) (gr : res (svec el))
| RtDmP (z : el) (r0 c0 : Z) (ops : list vop) (m : dmat el) (gw : res (dmdoc el)) (gr : res (dmat el))
| RtDmR (z : el) (r0 c0 : Z) (ops : list vop) (m : dmat (real el)) (gw : res (dmdoc (sdoc el))) (gr : res (dmat (real el)))
| RtSm (r0 c0 : Z) (ops : list vop) (m : smat sel) (gw : res (smdoc el)) (gr : res (smat el))
| MalReal (d : res (sdoc el)) (gr : res (real el))          (* d = Err: bytes the decoder layer rejects *)
| MalDvP (d : res (list el)) (gr : res (list el))
| MalDvR (d : res (list (sdoc el))) (gr : res (list (real el)))
| MalSv (d : res (svdoc el)) (gr : res (svec el))
| MalDmP (d : res (dmdoc el)) (gr : res (dmat el))
| MalDmR (d : res (dmdoc (sdoc el))) (gr : res (dmat (real el)))
| MalSm (d : res (smdoc el)) (gr : res (smat el)).

Definition rt {V Dc R} (w : V -> res Dc) (r : Dc -> res R) (de : Dc -> Dc -> bool) (re : R -> R -> bool)
           (v : V) (gw : res Dc) (gr : res R) : bool :=
  res_eqb de (w v) gw &&
  match gw with Ok d => res_eqb re (r d) gr | _ => true end.

Definition mal {Dc R} (r : Dc -> res R) (re : R -> R -> bool) (d : res Dc) (gr : res R) : bool :=
  res_eqb re (bind d r) gr.

Definition check (c : case) : bool :=
  match c with
  | RtPlain x gw gr => rt W_plain R_plain el_eqb el_eqb x gw gr
  | RtConst x gw gr => rt W_const R_plain el_eqb el_eqb x gw gr
  | RtReal r gw gr => rt W_real R_real sdoc_eqb real_eqb r gw gr
  | RtDvP v gw gr => rt W_dv_plain R_dv_plain ell_eqb ell_eqb v gw gr
  | RtDvR v gw gr => rt W_dv_real R_dv_real (list_eqb sdoc_eqb) (list_eqb real_eqb) v gw gr
  | RtSv v gw gr => rt W_sv R_sv svdoc_eqb (svec_eqb el_eqb) v gw gr
  | RtDmP z r0 c0 ops m gw gr =>
      dm_hdr_eqb (fold_left dm_apply ops (dm_full (dm_vals m) r0 c0)) m &&
      rt (W_dm_plain z) R_dm_plain (dmdoc_eqb el_eqb) (dmat_eqb el_eqb) m gw gr
  | RtDmR z r0 c0 ops m gw gr =>
      dm_hdr_eqb (fold_left dm_apply ops (dm_full (dm_vals m) r0 c0)) m &&
      rt (W_dm_real z) R_dm_real (dmdoc_eqb sdoc_eqb) (dmat_eqb real_eqb) m gw gr
  | RtSm r0 c0 ops m gw gr =>
      sm_hdr_eqb (fold_left sm_apply ops (mkSm (sm_vals m) r0 c0 0 r0 0 c0)) m &&
      rt W_sm R_sm smdoc_eqb (smat_eqb el_eqb) m gw gr
  | MalReal d gr => mal R_real real_eqb d gr
  | MalDvP d gr => mal R_dv_plain ell_eqb d gr
  | MalDvR d gr => mal R_dv_real (list_eqb real_eqb) d gr
  | MalSv d gr => mal R_sv (svec_eqb el_eqb) d gr
  | MalDmP d gr => mal R_dm_plain (dmat_eqb el_eqb) d gr
  | MalDmR d gr => mal R_dm_real (dmat_eqb real_eqb) d gr
  | MalSm d gr => mal R_sm (smat_eqb el_eqb) d gr
  end.

Definition mism (cs : list case) : list nat := mismatches check cs.
