(* C18 — property theorems, round 6: THE VECTOR AND MATRIX DISTRIBUTION REGISTRIES.

   ConfigModelV.v models ImportVectorPdfConfig / ImportMatrixPdfConfig and ExportConfig of "vector:scalar id",
   "vector:vector id", "vector:vector iid", "vector:mixture distribution", "matrix:vector id", "matrix:vector iid",
   "matrix:mixture distribution" over "vector:scalar iid" and the scalar registry of ConfigModel.v — stored state
   (VectorId.n, VectorIid.n as Go ints, log-weights), Dim(), the ScalarType() calls that index Distributions[0],
   n % m with its divide-by-zero.  F is abstract as in Props.v (flog / fexp / norm / ftrunc parameters);
   f2z is int(x), z2f is float64(n).  Statements only. *)
From Coq Require Import ZArith List Bool Reals.
From ADV Require Import C18.Model C18.ConfigModel C18.ProofsConfig C18.ProofsConfig2 C18.ConfigModelV C18.ProofsConfigV C18.ProofsConfigV2 C18.RegistryModel C18.ProofsRegistry.
Import ListNotations.
Open Scope Z_scope.

Section ConfigVProps.
Variable F : Type.
Variables zero one : F.
Variable fle flt feq : F -> F -> bool.
Variables flog fexp ftrunc : F -> F.
Variable norm : list F -> list F.
Variable f2z : F -> Z.
Variable z2f : Z -> F.
Notation imp := (import_cfg F zero one fle flt feq flog ftrunc norm).
Notation impV := (import_vec F zero one fle flt feq flog ftrunc norm f2z).
Notation impM := (import_mat F zero one fle flt feq flog ftrunc norm f2z).
Notation expV := (export_vec F fexp z2f).
Notation expM := (export_mat F fexp z2f).
Notation rtV := (rtv F zero one fle flt feq flog ftrunc norm f2z z2f).
Notation rtM := (rtm F zero one fle flt feq flog ftrunc norm f2z z2f).
Hypothesis feq_one : feq one one = true.
Hypothesis feq_zero_one : feq zero one = false.
Hypothesis flog_fexp : forall x, flog (fexp x) = x.
Hypothesis fexp_nonneg : forall x, flt (fexp x) zero = false.

(* THE ROUND TRIP over the vector registry, by induction over the tree: import (export d) = d for every d built by
   scalar iid (integral n) | scalar id of any number of round-tripping scalar trees | vector id of any number of
   such d (n the Go-int sum of the Dim()s; the first component's ScalarType() defined) | vector iid (NewVectorIid's
   guard: ScalarType() defined, 0 <= n, Dim() <> 0, n % Dim() = 0; n exact in binary64) | mixture of any number
   of such d (log-weights a fixed point of the normalisation) — nested to any depth. *)
Theorem config_vector_roundtrip_every_nesting : forall d, rtV d -> impV (expV d) = Ok d.
Proof. exact (vec_roundtrip F zero one fle flt feq flog fexp ftrunc norm f2z z2f feq_one feq_zero_one flog_fexp fexp_nonneg). Qed.

(* ... and over the matrix registry: matrix:vector id | matrix:vector iid | matrix mixtures of such, to any depth *)
Theorem config_matrix_roundtrip_every_nesting : forall d, rtM d -> impM (expM d) = Ok d.
Proof. exact (mat_roundtrip F zero one fle flt feq flog fexp ftrunc norm f2z z2f feq_one feq_zero_one flog_fexp fexp_nonneg). Qed.

(* stated on the importers' side: whatever ImportVectorPdfConfig / ImportMatrixPdfConfig build from ANY document —
   any names, any nesting, any parameters — is re-imported unchanged from its own export, provided no binomial
   distribution occurs in it (normalisation and float64(int(x)) idempotent, int(float64(int x)) = int x) *)
Theorem config_vector_importable_roundtrip :
  (forall l, norm (norm l) = norm l) -> (forall x, ftrunc (ftrunc x) = ftrunc x) -> (forall x, f2z (z2f (f2z x)) = f2z x) ->
  forall c d, impV c = Ok d -> bf_v F d = true -> impV (expV d) = Ok d.
Proof.
  exact (fun Hn Ht Hz => importable_vec_roundtrip F zero one fle flt feq flog fexp ftrunc norm f2z z2f Hn Ht Hz
                           feq_one feq_zero_one flog_fexp fexp_nonneg).
Qed.

Theorem config_matrix_importable_roundtrip :
  (forall l, norm (norm l) = norm l) -> (forall x, ftrunc (ftrunc x) = ftrunc x) -> (forall x, f2z (z2f (f2z x)) = f2z x) ->
  forall c d, impM c = Ok d -> bf_m F d = true -> impM (expM d) = Ok d.
Proof.
  exact (fun Hn Ht Hz => importable_mat_roundtrip F zero one fle flt feq flog fexp ftrunc norm f2z z2f Hn Ht Hz
                           feq_one feq_zero_one flog_fexp fexp_nonneg).
Qed.

End ConfigVProps.

(* READER SAFETY for the id / iid distributions, no hypotheses: for EVERY document, at every "vector:vector id" node of
   the imported object n is the Go-int sum of the components' Dim()s and the first component's ScalarType() is
   defined; at every "vector:vector iid" / "matrix:vector iid" node NewVectorIid's guard holds. *)
Theorem config_vector_import_establishes_guards :
  forall F zero one fle flt feq flog ftrunc norm f2z c d,
  import_vec F zero one fle flt feq flog ftrunc norm f2z c = Ok d -> guards_v F zero f2z d.
Proof. exact import_vec_guards. Qed.

Theorem config_matrix_import_establishes_guards :
  forall F zero one fle flt feq flog ftrunc norm f2z c d,
  import_mat F zero one fle flt feq flog ftrunc norm f2z c = Ok d -> guards_m F zero f2z d.
Proof. exact import_mat_guards. Qed.

(* NewVectorIid's guard, spelled out *)
Theorem config_iid_guard_characterised :
  forall F zero f2z (d : vdist F) n,
  iid_guard F zero f2z d n = Ok tt <->
  v_stype_ok F d = true /\ 0 <= n /\ vdim F zero f2z d <> 0 /\ Z.rem n (vdim F zero f2z d) = 0.
Proof. exact guard_ok_iff. Qed.

(* F-CONFIG-MIXTURE-ARITY: the three mixture importers accept a document with one weight and no component — an object
   NewMixture refuses to build ("invalid number of emission distributions") *)
Theorem config_mixture_arity_refuted :
  forall F zero one fle flt feq flog ftrunc norm f2z w, flt w zero = false ->
  import_vec F zero one fle flt feq flog ftrunc norm f2z (CNew NVMixture (JArr [JNum w]) []) = Ok (VMix (norm [flog w]) []) /\
  import_mat F zero one fle flt feq flog ftrunc norm f2z (CNew NMMixture (JArr [JNum w]) []) = Ok (MMix (norm [flog w]) []) /\
  import_cfg F zero one fle flt feq flog ftrunc norm (Cfg FMixture (JArr [JNum w]) []) = Ok (Dist FMixture (norm [flog w]) []).
Proof. exact mixture_arity_refuted. Qed.

(* F-CONFIG-IID-PANIC: malformed documents answered with a panic — an iid distribution over a zero-dimensional one
   (n % 0), an id / iid distribution whose (first) component is an empty id distribution (ScalarType() indexes [0]) *)
Theorem config_iid_panics_refuted :
  forall F zero one fle flt feq flog ftrunc norm f2z x c, f2z x >= 0 ->
  import_vec F zero one fle flt feq flog ftrunc norm f2z (CNew NVVectorIid (JArr [JNum x]) [CNew NVMixture JNull []]) = Panic /\
  import_mat F zero one fle flt feq flog ftrunc norm f2z (CNew NMVectorIid (JArr [JNum x]) [CNew NVMixture JNull []]) = Panic /\
  import_vec F zero one fle flt feq flog ftrunc norm f2z (CNew NVVectorIid (JArr [JNum x]) [CNew NVScalarId JNull []]) = Panic /\
  import_vec F zero one fle flt feq flog ftrunc norm f2z (CNew NVVectorId JNull [CNew NVScalarId JNull []; c]) =
    match import_vec F zero one fle flt feq flog ftrunc norm f2z c with Ok _ => Panic | r => r end /\
  import_mat F zero one fle flt feq flog ftrunc norm f2z (CNew NMVectorId JNull [CNew NVVectorId JNull []]) = Panic.
Proof. exact iid_panics_refuted. Qed.

(* THE NAMES: every constructor the models dispatch on has a row (registry, key, Go type); the 28 (registry, key)
   pairs are pairwise distinct, so a registry lookup determines the constructor; a family is in the scalar registry
   exactly when the model says scalar_fam.  The rows are compared on every run with tables regenerated from the
   sources by go/ast (registry assignments, ExportConfig names, ImportConfig callees): RegistryCorr.v. *)
Theorem config_registry_rows_cover_and_are_distinct :
  (forall f, In f all_fams) /\ (forall n, In n all_nnames) /\ length model_rows = 28%nat /\
  nodupb key_eqb (map row_key model_rows) = true /\ nodupb String.eqb (map r_ctor model_rows) = true /\
  (forall f r, fam_row f = Some r -> (scalar_fam f = true <-> r_level r = LS)) /\
  (forall n, r_level (nname_row n) <> LS).
Proof.
  exact (conj all_fams_complete (conj all_nnames_complete (conj model_rows_count (conj model_keys_distinct
         (conj model_ctors_distinct (conj fam_rows_scalar nname_rows_level)))))).
Qed.

(* NON-VACUITY: the hypotheses of the theorems above hold over the real numbers (exp / ln, Int_part), and a four-level
   matrix distribution — a matrix mixture of a "matrix:vector iid" over a "vector:vector id", and a "matrix:vector id"
   holding a vector mixture with a "vector:scalar iid" — lies inside the theorem and round-trips *)
Example config_vector_hypotheses_satisfiable :
  (Reqb 1 1 = true /\ Reqb 0 1 = false /\ (forall x, ln (exp x) = x) /\ (forall x, Rltb (exp x) 0 = false) /\
   (forall l, Ridl (Ridl l) = Ridl l) /\ (forall x, Rtrunc (Rtrunc x) = Rtrunc x) /\
   (forall x, Rf2z (IZR (Rf2z x)) = Rf2z x) /\ (forall n, Rf2z (IZR n) = n)) /\
  rtm R 0%R 1%R Rleb Rltb Reqb ln Rtrunc Ridl Rf2z IZR ex_m /\
  import_mat R 0%R 1%R Rleb Rltb Reqb ln Rtrunc Ridl Rf2z (export_mat R exp IZR ex_m) = Ok ex_m.
Proof. exact (conj real_hypotheses (conj ex_m_rt ex_m_roundtrip)). Qed.
