(* C18 — property theorems, round 5: DESERIALISATION INTO A NON-FRESH RECEIVER.

   UnmarshalJSON / Import are modelled as functions (old receiver state, document) -> new state (RecvModel.v).
   For every container type and EVERY receiver state the result is the one of Model.v's reader (= the decoder on
   a fresh receiver), so all round-trip and safety theorems of Props.v hold verbatim for recycled receivers:
   a matrix returned by T() or Slice(), an object of other dimensions, a sparse container with entries.
   The Real scalar is the exception (F-JSON-REAL-RECV, refuted below): independence holds exactly when the
   document carries derivative information. *)
From Coq Require Import ZArith List Bool Lia.
From ADV Require Import C18.Model C18.Spec C18.TableModel C18.RecvModel C18.ProofsRecv.
Import ListNotations.
Open Scope Z_scope.

(* ------------------------------------------------------------------ dense matrices *)
(* every one of the eight header fields comes from the document; nothing of the receiver survives *)
Theorem dense_matrix_decode_receiver_independent :
  forall E D (rd : D -> res E) b (old : dmat E) d, read_dm_into E D rd old d = read_dm E D rd b d.
Proof. exact (fun E D rd b => dm_into_indep E D rd b). Qed.

Theorem dense_matrix_decode_overwrites_every_field :
  forall E D (rd : D -> res E) (old : dmat E) d m, read_dm_into E D rd old d = Ok m ->
  dm_rows m = dmd_rows d /\ dm_cols m = dmd_cols d /\ dm_roff m = 0 /\ dm_rmax m = dmd_rows d /\
  dm_coff m = 0 /\ dm_cmax m = dmd_cols d /\ dm_tr m = false /\ mapR rd (dmd_values d) = Ok (dm_vals m).
Proof. exact dm_into_header. Qed.

(* second generation: what was decoded into ANY receiver is written as the same document, and that document
   decoded into ANY other receiver is the same object (element codec exact on what the reader accepts) *)
Theorem dense_matrix_second_generation_stable :
  forall E D (wr : E -> res D) (rd : D -> res E) ezero,
  (forall d e, rd d = Ok e -> wr e = Ok d) ->
  forall old1 old2 d m1, read_dm_into E D rd old1 d = Ok m1 ->
  write_dm E D wr ezero m1 = Ok d /\ read_dm_into E D rd old2 d = Ok m1.
Proof. exact dm_second_generation. Qed.

(* the scratch vectors of Real dense and of sparse matrices: their lengths are the document's dimensions *)
Theorem scratch_vectors_receiver_independent :
  forall t t' rows cols, init_tmp t rows cols = init_tmp t' rows cols /\ init_tmp t rows cols = (Some rows, Some cols).
Proof. exact tmps_indep. Qed.

(* ------------------------------------------------------------------ dense vectors, sparse vectors, sparse matrices *)
Theorem dense_vector_decode_receiver_independent :
  forall E D (rd : D -> res E) (old : list E) d, read_dv_into E D rd old d = read_dv E D rd d.
Proof. exact dv_into_indep. Qed.

Theorem sparse_vector_decode_receiver_independent :
  forall F T nz (parseJ : T -> option F) (old : svec F) d, read_sv_into F T nz parseJ old d = read_sv F T nz parseJ d.
Proof. exact sv_into_indep. Qed.

Theorem sparse_matrix_decode_receiver_independent :
  forall F T nz (parseJ : T -> option F) (old : smat F) d, read_sm_into F T nz parseJ old d = read_sm F T nz parseJ d.
Proof. exact sm_into_indep. Qed.

(* ------------------------------------------------------------------ table Import *)
Theorem table_import_receiver_independent :
  forall F T nz (parseT : T -> option F) (parseI : T -> option Z),
  (forall old f, import_dv_into F T parseT old f = import_dv F T parseT f) /\
  (forall real old f, import_dm_into F T parseT real old f = import_dm F T parseT real f) /\
  (forall old f, import_sv_into F T nz parseT parseI old f = import_sv F T nz parseT parseI f) /\
  (forall old f, import_sm_into F T nz parseT parseI old f = import_sm F T nz parseT parseI f).
Proof.
  intros F T nz parseT parseI. split; [exact (import_dv_into_indep F T parseT)|].
  split; [exact (import_dm_into_indep F T parseT)|].
  split; [exact (import_sv_into_indep F T nz parseT parseI)|exact (import_sm_into_indep F T nz parseT parseI)].
Qed.

(* ------------------------------------------------------------------ Real scalars *)
(* a fresh receiver: the reader of Model.v *)
Theorem real_decode_fresh_receiver :
  forall F T zero (parseJ : T -> option F) v d,
  read_real_into F T zero parseJ (mkReal v 0 0 [] []) d = read_real F T zero parseJ d.
Proof. exact real_into_fresh. Qed.

(* the document carries a gradient or a Hessian: same outcome for every receiver, and in the Ok case two objects
   no getter tells apart (real_same; real_same_getters) *)
Theorem real_decode_receiver_independent_partial :
  forall F T zero (parseJ : T -> option F) old old' d, sdoc_carries T d = true ->
  res_rel real_same (read_real_into F T zero parseJ old d) (read_real_into F T zero parseJ old' d) /\
  res_rel real_same (read_real F T zero parseJ d) (read_real_into F T zero parseJ old d).
Proof.
  intros F T zero parseJ old old' d H. split; [apply real_into_indep|apply real_into_vs_fresh]; exact H.
Qed.
(* missing for the full statement: documents without derivative information — see real_decode_stale_receiver_refuted *)

Theorem real_same_is_observational :
  forall F zero (a b : real F), real_same a b ->
  rval a = rval b /\ rorder a = rorder b /\ rn a = rn b /\
  (forall i, getD F zero a i = getD F zero b i) /\ (forall i j, getH F zero a i j = getH F zero b i j).
Proof.
  intros F zero a b H. destruct (real_same_getters F zero a b H) as [HD HH].
  destruct H as (Hv & Ho & Hn & _). repeat split; auto.
Qed.

(* the document carries no derivatives: the receiver keeps its Order, N, gradient and Hessian *)
Theorem real_decode_constant_keeps_receiver :
  forall F T zero (parseJ : T -> option F) old d, sdoc_carries T d = false ->
  read_real_into F T zero parseJ old d = (x <- of_opt (parseJ (sdoc_value T d)) ;; Ok (real_set_val F x old)).
Proof. exact real_into_const. Qed.

(* F-JSON-REAL-RECV: json.Unmarshal("3", r) with r of order 1, gradient [5] *)
Theorem real_decode_stale_receiver_refuted :
  let old := mkReal 1 1 1 [5] [] in
  read_real_into Z Z 0 Zparse old (SNum 3) = Ok (mkReal 3 1 1 [5] []) /\
  read_real Z Z 0 Zparse (SNum 3) = Ok (mkReal 3 0 0 [] []) /\
  getD Z 0 (mkReal 3 1 1 [5] []) 0 = Ok 5 /\ getD Z 0 (mkReal 3 0 0 [] []) 0 = Ok 0 /\
  write_real Z Z Znz Zfmt (mkReal 3 1 1 [5] []) = Ok (SObj 3 (Some [5]) None) /\
  write_real Z Z Znz Zfmt (mkReal 3 0 0 [] []) = Ok (SNum 3) /\
  read_real_into Z Z 0 Zparse old (SObj 3 None None) = Ok (mkReal 3 1 1 [5] []).
Proof. exact real_into_stale_refuted. Qed.

(* the hypotheses are satisfiable by non-trivial instances: a 2x3 document decoded into the transpose of a 2x2 matrix
   and into a slice header of a 3x3 matrix; a gradient document decoded into a Real of order 2 *)
Example recycled_receivers_example :
  let d := mkDmDoc [1; 2; 3; 4; 5; 6] 2 3 in
  let rd := fun z : Z => Ok z in
  read_dm_into Z Z rd (dm_T Z (mkDm [7; 8; 9; 10] 2 2 0 2 0 2 false)) d = Ok (mkDm [1; 2; 3; 4; 5; 6] 2 3 0 2 0 3 false) /\
  read_dm_into Z Z rd (dm_slice Z (mkDm [1; 2; 3; 4; 5; 6; 7; 8; 9] 3 3 0 3 0 3 false) 1 3 1 3) d
    = Ok (mkDm [1; 2; 3; 4; 5; 6] 2 3 0 2 0 3 false) /\
  sdoc_carries Z (SObj 2 (Some [7]) None) = true /\
  read_real_into Z Z 0 Zparse (mkReal 1 2 1 [5] [[6]]) (SObj 2 (Some [7]) None) = Ok (mkReal 2 1 1 [7] []) /\
  read_real_into Z Z 0 Zparse (mkReal 1 1 1 [5] [[6]]) (SObj 2 (Some [7]) None) = Ok (mkReal 2 1 1 [7] [[6]]) /\
  real_same (mkReal 2 1 1 [7] []) (mkReal 2 1 1 [7] [[6]]).
Proof. cbv zeta. unfold real_same. repeat split; try (vm_compute; reflexivity). simpl. intros H; lia. Qed.
