(* C18 — executable model of the serialisation code of pbenner/autodiff.

   Layer (i)  structure: every writer is a function  value -> res document,
              every reader a function  document -> res value  performing exactly
              the validation the Go code performs (and no more).
   Layer (ii) tokens: number formatting / parsing are parameters
              [fmtJ : F -> option T] (None = encoding/json refuses NaN/Inf) and
              [parseJ : T -> option F]; tables use [fmtT]/[parseT].
   Layer (iii) bytes <-> document is encoding/json / bufio (outside the model).

   Anchors (HEAD of /repo):
     scalar_real_template.in      MarshalJSON / UnmarshalJSON, Alloc, GetDerivative, GetHessian
     scalar_template.in           MarshalJSON / UnmarshalJSON (plain scalars)
     scalar_const_template.in     MarshalJSON (json.Marshal of the underlying number, since da67985)
     vector_dense_*template.in    MarshalJSON / UnmarshalJSON / Table / Export / Import
     vector_sparse_*template.in   NewSparse*Vector, iterator skip(), MarshalJSON / UnmarshalJSON, Export / Import
     matrix_dense_*template.in    index, SLICE, T, MarshalJSON (repack of views), UnmarshalJSON, Table/Export/Import
     matrix_sparse_*template.in   index, ij, SLICE, Set, MarshalJSON (repack of slices), UnmarshalJSON, Export/Import
   No proofs in this file. *)
From Coq Require Import ZArith List Bool.
Import ListNotations.
Open Scope Z_scope.

(* outcome of a Go call: value, returned error, recoverable panic, fatal crash
   (stack overflow: not recoverable) *)
Inductive res (A : Type) : Type :=
| Ok (a : A) | Err | Panic | Crash.
Arguments Ok {A} a. Arguments Err {A}. Arguments Panic {A}. Arguments Crash {A}.

Definition bind {A B} (r : res A) (f : A -> res B) : res B :=
  match r with Ok a => f a | Err => Err | Panic => Panic | Crash => Crash end.
Notation "x <- e ;; f" := (bind e (fun x => f)) (at level 61, e at next level, right associativity).

Fixpoint mapM {A B} (f : A -> option B) (l : list A) : option (list B) :=
  match l with
  | [] => Some []
  | x :: r => match f x with
              | None => None
              | Some y => match mapM f r with None => None | Some ys => Some (y :: ys) end
              end
  end.

Fixpoint mapR {A B} (f : A -> res B) (l : list A) : res (list B) :=
  match l with
  | [] => Ok []
  | x :: r => y <- f x ;; ys <- mapR f r ;; Ok (y :: ys)
  end.

Definition of_opt {A} (o : option A) : res A := match o with Some a => Ok a | None => Err end.

Definition zlen {A} (l : list A) : Z := Z.of_nat (length l).
Definition znth {A} (l : list A) (k : Z) : option A :=
  if k <? 0 then None else nth_error l (Z.to_nat k).

(* Go int arithmetic is 64-bit two's complement *)
Definition wrap64 (z : Z) : Z := (z + 2^63) mod 2^64 - 2^63.

(* the dimension test of the matrix readers (a328708 sparse, 6dfd87a dense):
     r.Rows < 0 || r.Cols < 0 || (r.Cols != 0 && r.Rows*r.Cols/r.Cols != r.Rows)
   Go's * wraps, / truncates *)
Definition dims_bad (rows cols : Z) : bool :=
  (rows <? 0) || (cols <? 0) || (negb (cols =? 0) && negb (Z.quot (wrap64 (rows * cols)) cols =? rows)).

(* 0, 1, ..., n-1 *)
Definition zrange (n : Z) : list Z := map Z.of_nat (seq 0 (Z.to_nat n)).

(* ------------------------------------------------------------------------ *)
(* documents                                                                 *)

Section Docs.
Variable T : Type.   (* number token *)

(* what a Real32/Real64 is written as: a bare number, or an object with Value and
   optionally Derivative / Hessian (None = key absent) *)
Inductive sdoc : Type :=
| SNum (t : T)
| SObj (v : T) (d : option (list T)) (h : option (list (list T))).

Record svdoc : Type := mkSvDoc { svd_index : list Z; svd_value : list T; svd_length : Z }.
Record dmdoc (D : Type) : Type := mkDmDoc { dmd_values : list D; dmd_rows : Z; dmd_cols : Z }.
Record smdoc : Type := mkSmDoc { smd_index : list Z; smd_value : list T; smd_rows : Z; smd_cols : Z }.
End Docs.
Arguments SNum {T}. Arguments SObj {T}.
Arguments mkSvDoc {T}. Arguments svd_index {T}. Arguments svd_value {T}. Arguments svd_length {T}.
Arguments mkDmDoc {D}. Arguments dmd_values {D}. Arguments dmd_rows {D}. Arguments dmd_cols {D}.
Arguments mkSmDoc {T}. Arguments smd_index {T}. Arguments smd_value {T}. Arguments smd_rows {T}. Arguments smd_cols {T}.

(* ------------------------------------------------------------------------ *)
(* values                                                                    *)

Record real (F : Type) : Type := mkReal
  { rval : F; rorder : Z; rn : Z; rderiv : list F; rhess : list (list F) }.
Arguments mkReal {F}. Arguments rval {F}. Arguments rorder {F}. Arguments rn {F}.
Arguments rderiv {F}. Arguments rhess {F}.

(* sparse vector: the map [values] as an association list in ascending key order
   (the AVL index iterates in ascending order), and the dimension n *)
Record svec (X : Type) : Type := mkSv { sv_ents : list (Z * X); sv_n : Z }.
Arguments mkSv {X}. Arguments sv_ents {X}. Arguments sv_n {X}.

Record dmat (E : Type) : Type := mkDm
  { dm_vals : list E; dm_rows : Z; dm_cols : Z;
    dm_roff : Z; dm_rmax : Z; dm_coff : Z; dm_cmax : Z; dm_tr : bool }.
Arguments mkDm {E}. Arguments dm_vals {E}. Arguments dm_rows {E}. Arguments dm_cols {E}.
Arguments dm_roff {E}. Arguments dm_rmax {E}. Arguments dm_coff {E}. Arguments dm_cmax {E}. Arguments dm_tr {E}.

Record smat (X : Type) : Type := mkSm
  { sm_vals : svec X; sm_rows : Z; sm_cols : Z;
    sm_roff : Z; sm_rmax : Z; sm_coff : Z; sm_cmax : Z }.
Arguments mkSm {X}. Arguments sm_vals {X}. Arguments sm_rows {X}. Arguments sm_cols {X}.
Arguments sm_roff {X}. Arguments sm_rmax {X}. Arguments sm_coff {X}. Arguments sm_cmax {X}.

(* ------------------------------------------------------------------------ *)
(* association lists in ascending key order                                  *)

Section Assoc.
Context {X : Type}.
Fixpoint lookup (k : Z) (l : list (Z * X)) : option X :=
  match l with
  | [] => None
  | (k', x) :: r => if k =? k' then Some x else lookup k r
  end.
(* values[k] = x; indexInsert(k): insert or overwrite, keeping the order *)
Fixpoint aset (k : Z) (x : X) (l : list (Z * X)) : list (Z * X) :=
  match l with
  | [] => [(k, x)]
  | (k', x') :: r => if k <? k' then (k, x) :: l
                     else if k =? k' then (k, x) :: r
                     else (k', x') :: aset k x r
  end.
End Assoc.

(* ------------------------------------------------------------------------ *)

Section Model.
Variables F T : Type.
Variable zero : F.
Variable nz : F -> bool.                 (* x != 0 *)
Variable fmtJ : F -> option T.           (* encoding/json number encoder *)
Variable parseJ : T -> option F.         (* encoding/json number decoder at the element type *)

(* ---------------------------------------------------------------- scalars *)

(* plain scalars (Float32, Float64, Int...): json.Marshal of the pointee, json.Unmarshal into the pointee *)
Definition write_plain (x : F) : res T := of_opt (fmtJ x).
Definition read_plain (t : T) : res F := of_opt (parseJ t).

(* constant scalars: MarshalJSON is json.Marshal(SCALAR_TYPE(obj)) (da67985; before: json.Marshal(obj),
   an infinite recursion); there is no UnmarshalJSON: the number is read back by encoding/json into the
   underlying number type, i.e. by read_plain *)
Definition write_const (x : F) : res T := of_opt (fmtJ x).

(* GetDerivative / GetHessian *)
Definition getD (r : real F) (i : Z) : res F :=
  if rorder r >=? 1 then match znth (rderiv r) i with Some d => Ok d | None => Panic end
  else Ok zero.
Definition getH (r : real F) (i j : Z) : res F :=
  if rorder r >=? 2 then
    match znth (rhess r) i with
    | Some row => match znth row j with Some h => Ok h | None => Panic end
    | None => Panic
    end
  else Ok zero.

(* for i := 0; !t && i < n; i++ { if l[i] != 0 { t = true } } *)
Fixpoint any_nz (l : list F) (n : nat) {struct n} : res bool :=
  match n with
  | O => Ok false
  | S n' => match l with
            | [] => Panic
            | x :: l' => if nz x then Ok true else any_nz l' n'
            end
  end.
Fixpoint any_nz2 (rows : list (list F)) (n m : nat) {struct n} : res bool :=
  match n with
  | O => Ok false
  | S n' => match rows with
            | [] => Panic
            | row :: rest => b <- any_nz row m ;; if b then Ok true else any_nz2 rest n' m
            end
  end.

Definition fmt_list (l : list F) : res (list T) := of_opt (mapM fmtJ l).
Definition fmt_rows (l : list (list F)) : res (list (list T)) := of_opt (mapM (mapM fmtJ) l).
Definition parse_list (l : list T) : res (list F) := of_opt (mapM parseJ l).
Definition parse_rows (l : list (list T)) : res (list (list F)) := of_opt (mapM (mapM parseJ) l).

Definition real_t1 (r : real F) : res bool :=
  if (rorder r >? 0) && (rn r >? 0) then any_nz (rderiv r) (Z.to_nat (rn r)) else Ok false.
Definition real_t2 (r : real F) : res bool :=
  if (rorder r >? 0) && (rn r >? 0) && (rorder r >? 1)
  then any_nz2 (rhess r) (Z.to_nat (rn r)) (Z.to_nat (rn r)) else Ok false.

Definition write_real (r : real F) : res (sdoc T) :=
  t1 <- real_t1 r ;;
  t2 <- real_t2 r ;;
  v <- of_opt (fmtJ (rval r)) ;;
  match t1, t2 with
  | true, true => d <- fmt_list (rderiv r) ;; h <- fmt_rows (rhess r) ;; Ok (SObj v (Some d) (Some h))
  | true, false => d <- fmt_list (rderiv r) ;; Ok (SObj v (Some d) None)
  | false, true => h <- fmt_rows (rhess r) ;; Ok (SObj v None (Some h))
  | false, false => Ok (SNum v)
  end.

(* UnmarshalJSON into NewReal64(0) / new(Real64) (b9c30c8, 500dcc2):
     Derivative and Hessian present: the Hessian must be N x N with N = len(Derivative);
     Hessian only: the Hessian must be N x N with N = len(Hessian), the gradient is N zeros
     (make([]float, N)). *)
Definition rows_len (n : Z) (H : list (list F)) : bool := forallb (fun row => zlen row =? n) H.
Definition read_real (d : sdoc T) : res (real F) :=
  match d with
  | SNum t => x <- of_opt (parseJ t) ;; Ok (mkReal x 0 0 [] [])
  | SObj tv td th =>
      x <- of_opt (parseJ tv) ;;
      D <- parse_list (match td with Some l => l | None => [] end) ;;
      H <- parse_rows (match th with Some l => l | None => [] end) ;;
      match D, H with
      | _ :: _, _ :: _ =>
          if negb (zlen H =? zlen D) then Err
          else if negb (rows_len (zlen D) H) then Err
          else Ok (mkReal x 2 (zlen D) D H)
      | _ :: _, [] => Ok (mkReal x 1 (zlen D) D [])
      | [], _ :: _ =>
          if negb (rows_len (zlen H) H) then Err
          else Ok (mkReal x 2 (zlen H) (repeat zero (length H)) H)
      | [], [] => Ok (mkReal x 0 0 [] [])
      end
  end.

(* nullScalar of a Real *)
Definition real_null (r : real F) : res bool :=
  if nz (rval r) then Ok false else
  b1 <- (if rorder r >=? 1 then any_nz (rderiv r) (Z.to_nat (rn r)) else Ok false) ;;
  if b1 then Ok false else
  b2 <- (if rorder r >=? 2 then any_nz2 (rhess r) (Z.to_nat (rn r)) (Z.to_nat (rn r)) else Ok false) ;;
  Ok (negb b2).

(* ------------------------------------------------- element codecs (E, D) *)

Section Containers.
Variables E D : Type.
Variable wr : E -> res D.        (* element writer *)
Variable rd : D -> res E.        (* element reader *)
Variable ezero : E.              (* the null element make()/Null*() produces *)
Variable eval : E -> F.          (* GetFloat64-like projection used by the sparse writers *)
Variable enul : E -> bool.       (* nullScalar() *)

(* ------------------------------------------------------- dense vectors *)
Definition write_dv (v : list E) : res (list D) := mapR wr v.
Definition read_dv (d : list D) : res (list E) := mapR rd d.

(* ------------------------------------------------------ sparse vectors *)

(* the iterator visits stored entries in ascending order and skips null scalars *)
Definition sv_live (v : svec E) : list (Z * E) := filter (fun kv => negb (enul (snd kv))) (sv_ents v).

Definition write_sv (v : svec E) : res (svdoc T) :=
  let live := sv_live v in
  ts <- fmt_list (map (fun kv => eval (snd kv)) live) ;;
  Ok (mkSvDoc (map fst live) ts (sv_n v)).

(* NewSparse*Vector(indices, values, n): panics are the only validation *)
Fixpoint new_sparse_go (acc : list (Z * F)) (idx : list Z) (vals : list F) (n : Z) : res (list (Z * F)) :=
  match idx, vals with
  | k :: idx', x :: vals' =>
      if k >=? n then Panic
      else match lookup k acc with
           | Some _ => Panic
           | None => new_sparse_go (if nz x then aset k x acc else acc) idx' vals' n
           end
  | _, _ => Ok acc
  end.
Definition new_sparse (idx : list Z) (vals : list F) (n : Z) : res (svec F) :=
  if negb (zlen idx =? zlen vals) then Panic
  else ents <- new_sparse_go [] idx vals n ;; Ok (mkSv ents n).

(* what a reader does once it holds indices, values and the dimension: no validation but the
   constructor's panics.  This is still the whole of the TABLE readers (Import calls NewSparse* directly). *)
Definition read_sv_core (d : svdoc T) : res (svec F) :=
  vals <- parse_list (svd_value d) ;;
  if negb (zlen (svd_index d) =? zlen vals) then Err
  else new_sparse (svd_index d) vals (svd_length d).

(* indices := make(map[int]bool); for _, k := range r.Index { if k < 0 || k >= n || indices[k] { return error } ... } *)
Fixpoint idx_ok (n : Z) (seen idx : list Z) : bool :=
  match idx with
  | [] => true
  | k :: rest => if (k <? 0) || (k >=? n) || existsb (Z.eqb k) seen then false else idx_ok n (k :: seen) rest
  end.

(* UnmarshalJSON (a328708): length check, Length >= 0, every index in [0, Length) and not repeated — all
   answered with an error — and only then the constructor *)
Definition read_sv (d : svdoc T) : res (svec F) :=
  vals <- parse_list (svd_value d) ;;
  if negb (zlen (svd_index d) =? zlen vals) then Err
  else if svd_length d <? 0 then Err
  else if negb (idx_ok (svd_length d) [] (svd_index d)) then Err
  else new_sparse (svd_index d) vals (svd_length d).

(* ------------------------------------------------------ dense matrices *)

Definition dm_index (m : dmat E) (i j : Z) : option Z :=
  if (i <? 0) || (j <? 0) || (i >=? dm_rows m) || (j >=? dm_cols m) then None
  else if dm_tr m then Some ((dm_coff m + j) * dm_rmax m + (dm_roff m + i))
  else Some ((dm_roff m + i) * dm_cmax m + (dm_coff m + j)).

Definition dm_at (m : dmat E) (i j : Z) : res E :=
  match dm_index m i j with
  | None => Panic
  | Some k => match znth (dm_vals m) k with Some e => Ok e | None => Panic end
  end.

Definition dm_slice (m : dmat E) (rf rt cf ct : Z) : dmat E :=
  mkDm (dm_vals m) (rt - rf) (ct - cf) (dm_roff m + rf) (dm_rmax m) (dm_coff m + cf) (dm_cmax m) (dm_tr m).
Definition dm_T (m : dmat E) : dmat E :=
  mkDm (dm_vals m) (dm_cols m) (dm_rows m) (dm_coff m) (dm_cmax m) (dm_roff m) (dm_rmax m) (negb (dm_tr m)).

Definition dm_is_view (m : dmat E) : bool :=
  dm_tr m || (dm_rmax m >? dm_rows m) || (dm_cmax m >? dm_cols m).

(* tmp := Null(n, m); tmp.Set(a): a fresh row-major copy *)
Definition dm_repack (m : dmat E) : res (list E) :=
  if dm_rows m * dm_cols m <? 0 then Panic                    (* make of a negative length *)
  else if (dm_rows m <=? 0) || (dm_cols m <=? 0)
       then Ok (repeat ezero (Z.to_nat (dm_rows m * dm_cols m)))
       else mapR (fun k => dm_at m (k / dm_cols m) (k mod dm_cols m)) (zrange (dm_rows m * dm_cols m)).
       (* for i < rows { for j < cols { tmp[i*cols+j] = a[i,j] } }  written over k = i*cols+j *)

Definition write_dm (m : dmat E) : res (dmdoc D) :=
  vals <- (if dm_is_view m then dm_repack m else Ok (dm_vals m)) ;;
  docs <- mapR wr vals ;;
  Ok (mkDmDoc docs (dm_rows m) (dm_cols m)).

(* UnmarshalJSON (d37b260, 6dfd87a): after the decoder,
     Rows < 0 || Cols < 0 || (Cols != 0 && Rows*Cols/Cols != Rows) || len(Values) != Rows*Cols
   is an error (the third disjunct rejects dimensions whose Go int product wraps around).  The Real matrices
   crop / allocate their two scratch vectors afterwards (initTmp); with non-negative dimensions that cannot
   panic any more (memory is not modelled), so [has_tmp] no longer changes the outcome. *)
Definition read_dm (has_tmp : bool) (d : dmdoc D) : res (dmat E) :=
  vals <- mapR rd (dmd_values d) ;;
  if dims_bad (dmd_rows d) (dmd_cols d) || negb (zlen (dmd_values d) =? wrap64 (dmd_rows d * dmd_cols d)) then Err else
  Ok (mkDm vals (dmd_rows d) (dmd_cols d) 0 (dmd_rows d) 0 (dmd_cols d) false).

(* ----------------------------------------------------- sparse matrices *)

Definition sm_index {X} (m : smat X) (i j : Z) : option Z :=
  if (i <? 0) || (j <? 0) || (i >=? sm_rows m) || (j >=? sm_cols m) then None
  else Some ((sm_roff m + i) * sm_cmax m + (sm_coff m + j)).

(* Go's / and % truncate toward zero; division by zero panics *)
Definition sm_ij {X} (m : smat X) (k : Z) : option (Z * Z) :=
  if sm_cmax m =? 0 then None
  else Some (Z.quot k (sm_cmax m) - sm_roff m, Z.rem k (sm_cmax m) - sm_coff m).

Definition sm_slice {X} (m : smat X) (rf rt cf ct : Z) : smat X :=
  mkSm (sm_vals m) (rt - rf) (ct - cf) (sm_roff m + rf) (sm_rmax m) (sm_coff m + cf) (sm_cmax m).

Definition sm_is_view {X} (m : smat X) : bool :=
  (sm_rmax m >? sm_rows m) || (sm_cmax m >? sm_cols m).

(* tmp := NullSparse(n, m); tmp.Set(obj): the iterator of obj runs over ALL stored
   non-null entries of the backing vector — also those outside the slice — and
   tmp.AT(i, j) panics on the first one whose coordinates leave [0,n) x [0,m). *)
Fixpoint sm_repack_go (m : smat E) (acc : list (Z * E)) (live : list (Z * E)) : res (list (Z * E)) :=
  match live with
  | [] => Ok acc
  | (k, e) :: rest =>
      match sm_ij m k with
      | None => Panic
      | Some (i, j) =>
          if (i <? 0) || (j <? 0) || (i >=? sm_rows m) || (j >=? sm_cols m) then Panic
          else let k' := i * sm_cols m + j in
               if (k' <? 0) || (k' >=? sm_rows m * sm_cols m) then Panic
               else sm_repack_go m (aset k' e acc) rest
      end
  end.
Definition sm_repack (m : smat E) : res (svec E) :=
  ents <- sm_repack_go m [] (sv_live (sm_vals m)) ;;
  Ok (mkSv ents (sm_rows m * sm_cols m)).

Definition write_sm (m : smat E) : res (smdoc T) :=
  st <- (if sm_is_view m then sm_repack m else Ok (sm_vals m)) ;;
  let live := sv_live st in
  ts <- fmt_list (map (fun kv => eval (snd kv)) live) ;;
  Ok (mkSmDoc (map fst live) ts (sm_rows m) (sm_cols m)).

(* the unvalidated core (before a328708) *)
Definition read_sm_core (d : smdoc T) : res (smat F) :=
  vals <- parse_list (smd_value d) ;;
  if negb (zlen (smd_index d) =? zlen vals) then Err
  else st <- new_sparse (smd_index d) vals (wrap64 (smd_rows d * smd_cols d)) ;;
       Ok (mkSm st (smd_rows d) (smd_cols d) 0 (smd_rows d) 0 (smd_cols d)).

(* UnmarshalJSON (a328708): Rows < 0 || Cols < 0 || (Cols != 0 && Rows*Cols/Cols != Rows) is an error
   (Go's * wraps, / truncates), then every index must lie in [0, Rows*Cols) and not be repeated *)
Definition read_sm (d : smdoc T) : res (smat F) :=
  vals <- parse_list (smd_value d) ;;
  if negb (zlen (smd_index d) =? zlen vals) then Err
  else if dims_bad (smd_rows d) (smd_cols d) then Err
  else if negb (idx_ok (wrap64 (smd_rows d * smd_cols d)) [] (smd_index d)) then Err
  else st <- new_sparse (smd_index d) vals (wrap64 (smd_rows d * smd_cols d)) ;;
       Ok (mkSm st (smd_rows d) (smd_cols d) 0 (smd_rows d) 0 (smd_cols d)).

End Containers.

(* reading back: ConstAt(k) of a sparse vector / ConstAt(i,j) of a sparse matrix *)
Definition sv_at {X} (xzero : X) (v : svec X) (k : Z) : res X :=
  if (k <? 0) || (k >=? sv_n v) then Panic
  else match lookup k (sv_ents v) with Some x => Ok x | None => Ok xzero end.
Definition sm_at {X} (xzero : X) (m : smat X) (i j : Z) : res X :=
  match sm_index m i j with
  | None => Panic
  | Some k => sv_at xzero (sm_vals m) k
  end.

End Model.
