(* C18 — sparse vectors: NewSparse*Vector, the reader's validation (a328708), round trip, reader safety on
   every document, no panic on any document. *)
From Coq Require Import ZArith List Bool Lia Sorted.
From ADV Require Import C18.Model C18.Spec C18.ProofsBase.
Import ListNotations.
Open Scope Z_scope.

Section Sparse.
Variables F T : Type.
Variable zero : F.
Variable nz : F -> bool.
Variable fmtJ : F -> option T.
Variable parseJ : T -> option F.
Hypothesis nz_zero : nz zero = false.
Hypothesis fmt_parse : forall x t, fmtJ x = Some t -> parseJ t = Some x.

Notation nsg := (new_sparse_go F nz).
Notation zeq := (zeq F nz).

(* first value paired with key k *)
Fixpoint zlook (k : Z) (idx : list Z) (vals : list F) : option F :=
  match idx, vals with
  | k' :: idx', x :: vals' => if k =? k' then Some x else zlook k idx' vals'
  | _, _ => None
  end.

(* ---------------------------------------------------------------- invariants of the constructor, any input *)
Lemma nsg_inv n : forall idx vals acc ents,
  nsg acc idx vals n = Ok ents ->
  (sorted acc -> sorted ents) /\
  (forall q, In q (keys ents) -> In q (keys acc) \/ (In q idx /\ q < n)).
Proof.
  induction idx as [|k idx IH]; intros vals acc ents H; simpl in H.
  - inversion H; subst. split; auto.
  - destruct vals as [|x vals]; [inversion H; subst; split; auto|].
    destruct (k >=? n) eqn:Ek; [discriminate|].
    destruct (lookup k acc) eqn:El; [discriminate|].
    apply IH in H as [H1 H2]. split.
    + intros Hs. apply H1. destruct (nz x); [apply sorted_aset|]; assumption.
    + intros q Hq. destruct (H2 q Hq) as [Hq'|[Hq' Hlt]].
      * destruct (nz x); [|auto]. apply keys_aset_In in Hq' as [->|Hq']; [right; split; [left; reflexivity|lia]|auto].
      * right; split; [right; assumption|assumption].
Qed.

(* ---------------------------------------------------------------- success on distinct in-range keys *)
Lemma nsg_ok n : forall idx vals acc,
  length idx = length vals -> NoDup idx ->
  (forall k, In k idx -> k < n /\ lookup k acc = None) ->
  exists ents, nsg acc idx vals n = Ok ents /\
    forall q, lookup q ents = match lookup q acc with
                              | Some x => Some x
                              | None => match zlook q idx vals with
                                        | Some x => if nz x then Some x else None
                                        | None => None
                                        end
                              end.
Proof.
  induction idx as [|k idx IH]; intros vals acc Hlen Hnd Hk; simpl.
  - eexists; split; [reflexivity|]. intros q. destruct (lookup q acc); reflexivity.
  - destruct vals as [|x vals]; [discriminate|]. simpl in Hlen.
    destruct (Hk k (or_introl eq_refl)) as [Hlt Hnone].
    replace (k >=? n) with false by lia. rewrite Hnone.
    inversion Hnd; subst.
    destruct (IH vals (if nz x then aset k x acc else acc)) as (ents & He & Hl); [lia|assumption| |].
    { intros k' Hin. destruct (Hk k' (or_intror Hin)) as [Hlt' Hn']. split; [assumption|].
      destruct (nz x); [|assumption]. rewrite lookup_aset.
      destruct (k' =? k) eqn:E; [apply Z.eqb_eq in E; subst; contradiction|assumption]. }
    exists ents; split; [assumption|]. intros q. rewrite Hl.
    destruct (q =? k) eqn:E.
    + apply Z.eqb_eq in E; subst q. rewrite Hnone.
      destruct (nz x) eqn:Ex.
      * rewrite lookup_aset, Z.eqb_refl. reflexivity.
      * rewrite Hnone.
        assert (zlook k idx vals = None) as ->; [|reflexivity].
        clear - H1. revert vals. induction idx as [|k' idx IH]; intros vals; simpl; [reflexivity|].
        destruct vals; [reflexivity|]. destruct (k =? k') eqn:E; [apply Z.eqb_eq in E; subst; exfalso; apply H1; left; reflexivity|].
        apply IH. intros Hin; apply H1; right; assumption.
    + destruct (nz x); [rewrite lookup_aset, E|]; reflexivity.
Qed.

(* ---------------------------------------------------------------- reader safety: what does hold *)
Lemma new_sparse_safe idx vals n v :
  new_sparse F nz idx vals n = Ok v ->
  sv_n v = n /\ sorted (sv_ents v) /\ Forall (fun kv => fst kv < n) (sv_ents v) /\
  (Forall (fun k => 0 <= k) idx -> Forall (fun kv => 0 <= fst kv) (sv_ents v)).
Proof.
  unfold new_sparse. destruct (negb (zlen idx =? zlen vals)); [discriminate|]. intros H.
  apply bind_ok in H as (ents & He & H). inversion H; subst; simpl. clear H.
  apply nsg_inv in He as [Hs Hk]. split; [reflexivity|]. split; [apply Hs; constructor|].
  split.
  - apply Forall_forall. intros [q y] Hin. simpl.
    destruct (Hk q) as [[]|[_ Hlt]]; [|assumption]. apply in_map_iff. exists (q, y); auto.
  - intros Hnn. apply Forall_forall. intros [q y] Hin. simpl.
    destruct (Hk q) as [[]|[Hq _]]; [apply in_map_iff; exists (q, y); auto|].
    eapply Forall_forall in Hnn; eassumption.
Qed.

Lemma read_sv_core_safe d v :
  read_sv_core F T nz parseJ d = Ok v ->
  sv_n v = svd_length d /\ sorted (sv_ents v) /\ Forall (fun kv => fst kv < sv_n v) (sv_ents v) /\
  (0 <= svd_length d -> Forall (fun k => 0 <= k) (svd_index d) -> wf_sv v).
Proof.
  unfold read_sv_core. intros H. apply bind_ok in H as (vals & _ & H).
  destruct (negb (zlen (svd_index d) =? zlen vals)); [discriminate|].
  apply new_sparse_safe in H as (Hn & Hs & Hlt & Hnn).
  split; [assumption|]. split; [assumption|]. split; [rewrite Hn; assumption|].
  intros H0 Hidx. unfold wf_sv. rewrite Hn. split; [assumption|]. split; [assumption|].
  specialize (Hnn Hidx). apply Forall_forall. intros kv Hin.
  eapply Forall_forall in Hlt; [|eassumption]. eapply Forall_forall in Hnn; [|eassumption]. lia.
Qed.

(* ---------------------------------------------------------------- the reader's own validation *)
Lemma existsb_eqb_false k (l : list Z) : existsb (Z.eqb k) l = false <-> ~ In k l.
Proof.
  split.
  - intros H Hin. assert (existsb (Z.eqb k) l = true) by (apply existsb_exists; exists k; split; [assumption|apply Z.eqb_refl]). congruence.
  - intros H. destruct (existsb (Z.eqb k) l) eqn:E; [|reflexivity].
    apply existsb_exists in E as (x & Hin & Hx). apply Z.eqb_eq in Hx. subst. contradiction.
Qed.

Lemma idx_ok_spec n : forall idx seen,
  idx_ok n seen idx = true <->
  (Forall (fun k => 0 <= k < n) idx /\ NoDup idx /\ forall k, In k idx -> ~ In k seen).
Proof.
  induction idx as [|k idx IH]; intros seen; simpl.
  - split; [intros _; repeat split; [constructor|constructor|intros k []]|reflexivity].
  - destruct ((k <? 0) || (k >=? n)) eqn:Er; simpl.
    + split; [discriminate|]. intros (HF & _). inversion HF; subst. lia.
    + destruct (existsb (Z.eqb k) seen) eqn:Es.
      * split; [discriminate|]. intros (_ & _ & Hs). exfalso.
        apply (Hs k (or_introl eq_refl)). apply existsb_exists in Es as (x & Hin & Hx). apply Z.eqb_eq in Hx. subst. assumption.
      * apply existsb_eqb_false in Es. rewrite IH. split.
        -- intros (HF & Hnd & Hs). split; [constructor; [lia|assumption]|]. split.
           ++ constructor; [|assumption]. intros Hin. apply (Hs k Hin). left; reflexivity.
           ++ intros q [->|Hq]; [assumption|]. intros Hq'. apply (Hs q Hq). right; assumption.
        -- intros (HF & Hnd & Hs). inversion HF; subst. inversion Hnd; subst. split; [assumption|]. split; [assumption|].
           intros q Hq [->|Hq']; [contradiction|]. apply (Hs q (or_intror Hq)). assumption.
Qed.

Lemma idx_ok_nil n idx : idx_ok n [] idx = true <-> (Forall (fun k => 0 <= k < n) idx /\ NoDup idx).
Proof.
  rewrite idx_ok_spec. split; [intros (A & B & _); auto|intros (A & B); repeat split; auto].
Qed.

(* the validated reader = the checks, then the unvalidated core *)
Lemma read_sv_ok d v :
  read_sv F T nz parseJ d = Ok v <->
  (read_sv_core F T nz parseJ d = Ok v /\ 0 <= svd_length d /\ idx_ok (svd_length d) [] (svd_index d) = true).
Proof.
  unfold read_sv, read_sv_core.
  destruct (parse_list F T parseJ (svd_value d)) as [vals| | |]; simpl; try (split; [discriminate|intros (C & _); discriminate]).
  destruct (negb (zlen (svd_index d) =? zlen vals)); [split; [discriminate|intros (C & _); discriminate]|].
  destruct (svd_length d <? 0) eqn:El; [split; [discriminate|intros (_ & C & _); lia]|].
  destruct (idx_ok (svd_length d) [] (svd_index d)); simpl.
  - split; [intros H; repeat split; [assumption|lia]|intros (H & _); assumption].
  - split; [discriminate|intros (_ & _ & C); discriminate].
Qed.

Lemma read_sv_validation d v :
  read_sv F T nz parseJ d = Ok v <->
  (read_sv_core F T nz parseJ d = Ok v /\ 0 <= svd_length d /\
   Forall (fun k => 0 <= k < svd_length d) (svd_index d) /\ NoDup (svd_index d)).
Proof. rewrite read_sv_ok. rewrite idx_ok_nil. tauto. Qed.

(* reader safety at full strength: whatever document the reader accepts, the vector is well-formed *)
Lemma read_sv_safe d v : read_sv F T nz parseJ d = Ok v -> wf_sv v /\ sv_n v = svd_length d.
Proof.
  intros H. apply read_sv_ok in H as (Hc & Hn & Hi). apply idx_ok_nil in Hi as [HF _].
  apply read_sv_core_safe in Hc as (Hlen & _ & _ & Hwf). split; [|assumption].
  apply Hwf; [assumption|]. eapply Forall_impl; [|exact HF]. simpl. intros; lia.
Qed.

(* ... and no document makes it panic: the constructor's panics are unreachable behind the checks *)
Lemma read_sv_total d : read_sv F T nz parseJ d <> Panic /\ read_sv F T nz parseJ d <> Crash.
Proof.
  unfold read_sv.
  destruct (parse_list F T parseJ (svd_value d)) as [vals| | |] eqn:Ep; simpl; try (split; discriminate);
    try (unfold parse_list in Ep; destruct (mapM parseJ _); discriminate).
  destruct (zlen (svd_index d) =? zlen vals) eqn:El; simpl; [|split; discriminate].
  destruct (svd_length d <? 0); [split; discriminate|].
  destruct (idx_ok (svd_length d) [] (svd_index d)) eqn:Ei; simpl; [|split; discriminate].
  apply idx_ok_nil in Ei as [HF Hnd]. apply Z.eqb_eq in El.
  destruct (nsg_ok (svd_length d) (svd_index d) vals []) as (ents & He & _).
  { unfold zlen in El. lia. } { assumption. }
  { intros k Hin. split; [|reflexivity]. eapply Forall_forall in HF; [|eassumption]. simpl in HF. lia. }
  unfold new_sparse. replace (zlen (svd_index d) =? zlen vals) with true by (symmetry; apply Z.eqb_eq; assumption).
  simpl. rewrite He. simpl. split; discriminate.
Qed.

(* ---------------------------------------------------------------- round trip *)
Section RoundTrip.
Variable E : Type.
Variable eval : E -> F.
Variable enul : E -> bool.
(* a null scalar has value zero *)
Hypothesis enul_zero : forall e, enul e = true -> nz (eval e) = false.

Notation live := (sv_live E enul).

Lemma zlook_live l k :
  zlook k (map fst l) (map (fun kv : Z * E => eval (snd kv)) l) = option_map eval (lookup k l).
Proof.
  induction l as [|[k0 e0] l IH]; simpl; [reflexivity|].
  destruct (k =? k0); [reflexivity|apply IH].
Qed.

(* the writer's document, read by NewSparse with dimension n' *)
Lemma sparse_core (v : svec E) ts n' :
  wf_sv v -> sv_n v <= n' ->
  fmt_list F T fmtJ (map (fun kv => eval (snd kv)) (live v)) = Ok ts ->
  exists vals, parse_list F T parseJ ts = Ok vals /\ zlen (map fst (live v)) = zlen vals /\
  exists v', new_sparse F nz (map fst (live v)) vals n' = Ok v' /\ sv_n v' = n' /\
    sorted (sv_ents v') /\ Forall (fun kv => 0 <= fst kv < sv_n v) (sv_ents v') /\
    forall k, zeq (sv_val F zero E eval v k)
                  (match lookup k (sv_ents v') with Some x => x | None => zero end).
Proof.
  intros (Hn & Hs & Hr) Hle Hf.
  unfold fmt_list in Hf. apply of_opt_ok in Hf.
  pose proof (mapM_roundtrip fmtJ parseJ fmt_parse _ _ Hf) as Hp.
  exists (map (fun kv => eval (snd kv)) (live v)). split; [unfold parse_list; rewrite Hp; reflexivity|].
  split; [unfold zlen; rewrite !map_length; reflexivity|].
  assert (Hsl : sorted (live v)) by (apply sorted_filter; assumption).
  assert (Hrl : Forall (fun kv => 0 <= fst kv < sv_n v) (live v)) by (apply Forall_filter'; assumption).
  destruct (nsg_ok n' (map fst (live v)) (map (fun kv => eval (snd kv)) (live v)) []) as (ents & He & Hl).
  { rewrite !map_length; reflexivity. }
  { apply sorted_NoDup in Hsl. exact Hsl. }
  { intros k Hin. split; [|reflexivity]. apply in_map_iff in Hin as (kv & <- & Hin).
    eapply Forall_forall in Hrl; [|eassumption]. simpl in Hrl. lia. }
  unfold new_sparse. replace (zlen (map fst (live v)) =? _) with true
    by (symmetry; apply Z.eqb_eq; unfold zlen; rewrite !map_length; reflexivity).
  simpl. rewrite He. simpl. eexists; split; [reflexivity|]. simpl. split; [reflexivity|].
  pose proof (nsg_inv _ _ _ _ _ He) as [Hso Hk].
  split; [apply Hso; constructor|]. split.
  - apply Forall_forall. intros [q y] Hin. simpl.
    destruct (Hk q) as [[]|[Hq _]]; [apply in_map_iff; exists (q, y); auto|].
    apply in_map_iff in Hq as (kv & <- & Hq). eapply Forall_forall in Hrl; [|eassumption]. exact Hrl.
  - intros k. rewrite Hl. simpl. rewrite zlook_live.
    unfold sv_val, sv_live. rewrite lookup_filter by assumption.
    destruct (lookup k (sv_ents v)) as [e|]; simpl; [|left; reflexivity].
    destruct (enul e) eqn:En; simpl.
    + right. split; [apply enul_zero; assumption|assumption].
    + destruct (nz (eval e)) eqn:Ez; [left; reflexivity|right; split; assumption].
Qed.

Lemma sv_core_roundtrip (v : svec E) d :
  wf_sv v -> write_sv F T fmtJ E eval enul v = Ok d ->
  exists v', read_sv_core F T nz parseJ d = Ok v' /\ wf_sv v' /\ sv_obs_eq F zero nz E eval v v'.
Proof.
  intros Hwf Hw. unfold write_sv in Hw. apply bind_ok in Hw as (ts & Hts & Hw). inversion Hw; subst d; clear Hw.
  destruct (sparse_core v ts (sv_n v) Hwf ltac:(lia) Hts) as (vals & Hp & Hlen & v' & Hv' & Hn' & Hs' & Hr' & Hobs).
  unfold read_sv_core; simpl. rewrite Hp; simpl.
  replace (zlen (map fst (live v)) =? zlen vals) with true by (symmetry; apply Z.eqb_eq; assumption).
  simpl. exists v'. split; [assumption|]. destruct Hwf as (Hn & _).
  split; [unfold wf_sv; rewrite Hn'; auto|].
  split; [assumption|]. intros k Hk. unfold sv_at. rewrite Hn'.
  replace ((k <? 0) || (k >=? sv_n v)) with false by lia.
  specialize (Hobs k). destruct (lookup k (sv_ents v')); eauto.
Qed.

(* the writer's document passes the reader's validation *)
Lemma live_idx_ok (v : svec E) n' : wf_sv v -> sv_n v <= n' -> idx_ok n' [] (map fst (live v)) = true.
Proof.
  intros (Hn & Hs & Hr) Hle. apply idx_ok_nil. split.
  - apply Forall_forall. intros k Hin. apply in_map_iff in Hin as (kv & <- & Hin).
    apply filter_In in Hin as [Hin _]. eapply Forall_forall in Hr; [|eassumption]. simpl in Hr. lia.
  - apply (sorted_NoDup (sv_live E enul v)). apply sorted_filter. assumption.
Qed.

Lemma sv_roundtrip (v : svec E) d :
  wf_sv v -> write_sv F T fmtJ E eval enul v = Ok d ->
  exists v', read_sv F T nz parseJ d = Ok v' /\ wf_sv v' /\ sv_obs_eq F zero nz E eval v v'.
Proof.
  intros Hwf Hw. destruct (sv_core_roundtrip v d Hwf Hw) as (v' & Hr & Hwf' & Hobs).
  exists v'. split; [|split; assumption]. apply read_sv_ok. split; [assumption|].
  unfold write_sv in Hw. apply bind_ok in Hw as (ts & _ & Hw). inversion Hw; subst d; simpl.
  split; [destruct Hwf; assumption|]. apply live_idx_ok; [assumption|lia].
Qed.

Lemma zeq_nz a b : zeq a b -> nz a = nz b.
Proof. intros [->|[-> ->]]; reflexivity. Qed.

Lemma sv_obs_support v v' : sv_obs_eq F zero nz E eval v v' -> sv_support_eq F zero nz E eval v v'.
Proof.
  intros [_ H] k Hk. destruct (H k Hk) as (x' & Hx & Hz). exists x'. split; [assumption|].
  symmetry. apply zeq_nz. assumption.
Qed.

End RoundTrip.
End Sparse.

(* ---------------------------------------------------------------- regression examples (integer instance) *)
Definition Zrsv := read_sv Z Z Znz Zparse.

(* the smallest malformed documents (witnesses of the retired F-JSON-SPARSE-PANIC / F-JSON-NEGIDX): all errors now *)
Lemma sparse_reader_regression :
  Zrsv (mkSvDoc [1] [1] 1) = Err /\            (* index >= dimension: was a panic *)
  Zrsv (mkSvDoc [0; 0] [1; 1] 1) = Err /\      (* repeated index: was a panic *)
  Zrsv (mkSvDoc [0; 0] [0; 1] 1) = Err /\      (* repeated index behind a zero: was accepted *)
  Zrsv (mkSvDoc [-1] [1] 1) = Err /\           (* negative index: was accepted *)
  Zrsv (mkSvDoc [] [] (-1)) = Err /\           (* negative length: was accepted *)
  Zrsv (mkSvDoc [2; 0] [5; 0] 3) = Ok (mkSv [(2, 5)] 3).
Proof. repeat split; reflexivity. Qed.
