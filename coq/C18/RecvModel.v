(* C18 — the decoders as functions of the RECEIVER: (old object state, document) -> new object state.

   Round 5.  Model.v's readers are the decoders applied to a fresh receiver.  UnmarshalJSON / Import are
   methods on an existing object, and nothing forces that object to be fresh: a dense matrix obtained from
   T() (transposed flag set), a slice header (offsets, rowMax > rows), an object of other dimensions, a sparse
   container with entries, a Real with derivative storage.  Here every decoder starts from the old state and
   performs the assignments of the Go code, one by one, in the Go order; a field the Go code does not assign
   keeps its old content.

   Anchors (HEAD of /repo):
     scalar_real_template.in      Alloc (keeps the storage when N and Order are unchanged), UnmarshalJSON
     vector_dense_*template.in    UnmarshalJSON  ( *v = r),  Import ( *v = T{} then append)
     vector_sparse_*template.in   UnmarshalJSON / Import  ( *obj = *NewSparse...(...): every field of the struct)
     matrix_dense_*template.in    UnmarshalJSON (eight assignments [+ initTmp for Real]),  Import ( *m = *New...(...))
     matrix_sparse_*template.in   UnmarshalJSON (seven assignments + initTmp),  Import ( *m = *New...(...))
   The names of the struct fields are listed at the end; the harness reads the struct declarations of /repo with
   go/ast and the correspondence fails when a struct has a field this model does not know.
   No proofs in this file. *)
From Coq Require Import ZArith List Bool String.
From ADV Require Import C18.Model C18.TableModel.
Import ListNotations.
Open Scope Z_scope.

(* ------------------------------------------------------------------------ *)
(* field updates (Go: obj.f = x)                                             *)

Section Setters.
Context {E : Type}.
Definition dm_set_vals (v : list E) (m : dmat E) : dmat E :=
  mkDm v (dm_rows m) (dm_cols m) (dm_roff m) (dm_rmax m) (dm_coff m) (dm_cmax m) (dm_tr m).
Definition dm_set_rows (x : Z) (m : dmat E) : dmat E :=
  mkDm (dm_vals m) x (dm_cols m) (dm_roff m) (dm_rmax m) (dm_coff m) (dm_cmax m) (dm_tr m).
Definition dm_set_cols (x : Z) (m : dmat E) : dmat E :=
  mkDm (dm_vals m) (dm_rows m) x (dm_roff m) (dm_rmax m) (dm_coff m) (dm_cmax m) (dm_tr m).
Definition dm_set_roff (x : Z) (m : dmat E) : dmat E :=
  mkDm (dm_vals m) (dm_rows m) (dm_cols m) x (dm_rmax m) (dm_coff m) (dm_cmax m) (dm_tr m).
Definition dm_set_rmax (x : Z) (m : dmat E) : dmat E :=
  mkDm (dm_vals m) (dm_rows m) (dm_cols m) (dm_roff m) x (dm_coff m) (dm_cmax m) (dm_tr m).
Definition dm_set_coff (x : Z) (m : dmat E) : dmat E :=
  mkDm (dm_vals m) (dm_rows m) (dm_cols m) (dm_roff m) (dm_rmax m) x (dm_cmax m) (dm_tr m).
Definition dm_set_cmax (x : Z) (m : dmat E) : dmat E :=
  mkDm (dm_vals m) (dm_rows m) (dm_cols m) (dm_roff m) (dm_rmax m) (dm_coff m) x (dm_tr m).
Definition dm_set_tr (x : bool) (m : dmat E) : dmat E :=
  mkDm (dm_vals m) (dm_rows m) (dm_cols m) (dm_roff m) (dm_rmax m) (dm_coff m) (dm_cmax m) x.

Definition sm_set_vals (v : svec E) (m : smat E) : smat E :=
  mkSm v (sm_rows m) (sm_cols m) (sm_roff m) (sm_rmax m) (sm_coff m) (sm_cmax m).
Definition sm_set_rows (x : Z) (m : smat E) : smat E :=
  mkSm (sm_vals m) x (sm_cols m) (sm_roff m) (sm_rmax m) (sm_coff m) (sm_cmax m).
Definition sm_set_cols (x : Z) (m : smat E) : smat E :=
  mkSm (sm_vals m) (sm_rows m) x (sm_roff m) (sm_rmax m) (sm_coff m) (sm_cmax m).
Definition sm_set_roff (x : Z) (m : smat E) : smat E :=
  mkSm (sm_vals m) (sm_rows m) (sm_cols m) x (sm_rmax m) (sm_coff m) (sm_cmax m).
Definition sm_set_rmax (x : Z) (m : smat E) : smat E :=
  mkSm (sm_vals m) (sm_rows m) (sm_cols m) (sm_roff m) x (sm_coff m) (sm_cmax m).
Definition sm_set_coff (x : Z) (m : smat E) : smat E :=
  mkSm (sm_vals m) (sm_rows m) (sm_cols m) (sm_roff m) (sm_rmax m) x (sm_cmax m).
Definition sm_set_cmax (x : Z) (m : smat E) : smat E :=
  mkSm (sm_vals m) (sm_rows m) (sm_cols m) (sm_roff m) (sm_rmax m) (sm_coff m) x.
End Setters.

(* the two scratch vectors of the Real dense and of all sparse matrices: only their lengths are state
   the decoders determine.  tmp = None: a nil scratch vector (a zero-value struct) *)
Definition tmps : Type := (option Z * option Z)%type.
(* initTmp:  if tmp == nil || len(tmp) < want { tmp = Null(want) } else { tmp = tmp[0:want] } *)
Definition init_tmp1 (old : option Z) (want : Z) : option Z :=
  match old with
  | None => Some want
  | Some l => if l <? want then Some want else Some want (* cropped *)
  end.
Definition init_tmp (t : tmps) (rows cols : Z) : tmps := (init_tmp1 (fst t) rows, init_tmp1 (snd t) cols).

Section Recv.
Variables F T : Type.
Variable zero : F.
Variable nz : F -> bool.
Variable parseJ : T -> option F.

(* ---------------------------------------------------------------- Real scalars *)

(* func (a *Real) Alloc(n, order int): storage is (re)allocated only when N or Order change; Order 0 drops the
   gradient and leaves the Hessian field alone *)
Definition real_alloc (a : real F) (n order : Z) : real F :=
  if negb (rn a =? n) || negb (rorder a =? order) then
    if order >=? 1 then
      mkReal (rval a) order n (repeat zero (Z.to_nat n))
             (if order >=? 2 then repeat (repeat zero (Z.to_nat n)) (Z.to_nat n) else [])
    else mkReal (rval a) order n [] (rhess a)
  else a.

Definition real_set_val (x : F) (a : real F) : real F := mkReal x (rorder a) (rn a) (rderiv a) (rhess a).
Definition real_set_deriv (d : list F) (a : real F) : real F := mkReal (rval a) (rorder a) (rn a) d (rhess a).
Definition real_set_hess (h : list (list F)) (a : real F) : real F := mkReal (rval a) (rorder a) (rn a) (rderiv a) h.

(* UnmarshalJSON on ANY receiver.  A bare number is decoded into obj.Value only; an object without (non-empty)
   Derivative and Hessian assigns obj.Value only: Order, N, Derivative and Hessian of the receiver survive. *)
Definition read_real_into (old : real F) (d : sdoc T) : res (real F) :=
  match d with
  | SNum t => x <- of_opt (parseJ t) ;; Ok (real_set_val x old)
  | SObj tv td th =>
      x <- of_opt (parseJ tv) ;;
      D <- parse_list F T parseJ (match td with Some l => l | None => [] end) ;;
      H <- parse_rows F T parseJ (match th with Some l => l | None => [] end) ;;
      let a := real_set_val x old in
      match D, H with
      | _ :: _, _ :: _ =>
          if negb (zlen H =? zlen D) then Err
          else if negb (rows_len F (zlen D) H) then Err
          else Ok (real_set_hess H (real_set_deriv D (real_alloc a (zlen D) 2)))
      | _ :: _, [] => Ok (real_set_deriv D (real_alloc a (zlen D) 1))
      | [], _ :: _ =>
          if negb (rows_len F (zlen H) H) then Err
          else Ok (real_set_hess H (real_set_deriv (repeat zero (List.length H)) (real_alloc a (zlen H) 2)))
      | [], [] => Ok a
      end
  end.

(* the document carries derivative information *)
Definition sdoc_carries (d : sdoc T) : bool :=
  match d with
  | SNum _ => false
  | SObj _ td th =>
      match td, th with
      | Some (_ :: _), _ => true
      | _, Some (_ :: _) => true
      | _, _ => false
      end
  end.

(* what the getters show of a Real: the Hessian field is dead below order 2, the gradient below order 1 *)
Definition real_view (r : real F) : real F :=
  mkReal (rval r) (rorder r) (rn r)
         (if rorder r >=? 1 then rderiv r else [])
         (if rorder r >=? 2 then rhess r else []).

Section Containers.
Variables E D : Type.
Variable rd : D -> res E.        (* element reader: the elements are decoded into NEW objects (encoding/json
                                    allocates every *Real of a []*Real; table cells go through NewReal) *)

(* ---------------------------------------------------------------- dense vectors *)
(* *v = r  /  *obj = nilDenseRealVector(len(r)); obj[i] = r[i] : pointer, length and capacity are replaced *)
Definition read_dv_into (old : list E) (d : list D) : res (list E) :=
  vals <- mapR rd d ;; Ok vals.

(* ---------------------------------------------------------------- dense matrices *)
(* a.values = r.Values; a.rows = r.Rows; a.rowMax = r.Rows; a.rowOffset = 0; a.cols = r.Cols; a.colMax = r.Cols;
   a.colOffset = 0; a.transposed = false  [; obj.initTmp()] *)
Definition read_dm_into (old : dmat E) (d : dmdoc D) : res (dmat E) :=
  vals <- mapR rd (dmd_values d) ;;
  if dims_bad (dmd_rows d) (dmd_cols d) || negb (zlen (dmd_values d) =? wrap64 (dmd_rows d * dmd_cols d)) then Err else
  Ok (dm_set_tr false
     (dm_set_coff 0
     (dm_set_cmax (dmd_cols d)
     (dm_set_cols (dmd_cols d)
     (dm_set_roff 0
     (dm_set_rmax (dmd_rows d)
     (dm_set_rows (dmd_rows d)
     (dm_set_vals vals old)))))))).

(* the scratch vectors of a Real dense matrix after UnmarshalJSON *)
Definition read_dm_tmps (old : tmps) (d : dmdoc D) : tmps := init_tmp old (dmd_rows d) (dmd_cols d).

End Containers.

(* ---------------------------------------------------------------- sparse vectors *)
(* *obj = *NewSparseVector(r.Index, r.Value, r.Length): the index tree, the map and n are all taken from the
   new vector; nothing of the receiver survives.  On an error the receiver is not touched. *)
Definition sv_assign {X} (old new : svec X) : svec X := mkSv (sv_ents new) (sv_n new).
Definition read_sv_into (old : svec F) (d : svdoc T) : res (svec F) :=
  v <- read_sv F T nz parseJ d ;; Ok (sv_assign old v).

(* ---------------------------------------------------------------- sparse matrices *)
(* obj.values = NewSparseVector(...); obj.rows = r.Rows; obj.rowMax = r.Rows; obj.rowOffset = 0; obj.cols = r.Cols;
   obj.colMax = r.Cols; obj.colOffset = 0; obj.initTmp() *)
Definition read_sm_into (old : smat F) (d : smdoc T) : res (smat F) :=
  vals <- parse_list F T parseJ (smd_value d) ;;
  if negb (zlen (smd_index d) =? zlen vals) then Err
  else if dims_bad (smd_rows d) (smd_cols d) then Err
  else if negb (idx_ok (wrap64 (smd_rows d * smd_cols d)) [] (smd_index d)) then Err
  else st <- new_sparse F nz (smd_index d) vals (wrap64 (smd_rows d * smd_cols d)) ;;
       Ok (sm_set_coff 0
          (sm_set_cmax (smd_cols d)
          (sm_set_cols (smd_cols d)
          (sm_set_roff 0
          (sm_set_rmax (smd_rows d)
          (sm_set_rows (smd_rows d)
          (sm_set_vals st old))))))).
Definition read_sm_tmps (old : tmps) (d : smdoc T) : tmps := init_tmp old (smd_rows d) (smd_cols d).

End Recv.

(* ---------------------------------------------------------------- table Import into a receiver *)
Section TableRecv.
Variables F T : Type.
Variable nz : F -> bool.
Variable parseT : T -> option F.
Variable parseI : T -> option Z.

(* dense vector: "*v = T{}" after the file is open, then one append per cell.  The receiver's old elements are
   dropped before the first line is read (also when the file turns out to be malformed). *)
Definition import_dv_into (old : list F) (f : tfile T) : res (list F) :=
  s <- open_table f ;; closing T s (import_dv_go F T parseT [] (ts_lines s)).

(* dense matrix: *m = *NewDenseMatrix(values, rows, cols) — every field (scratch vectors included) from the new object *)
Definition dm_assign {X} (old new : dmat X) : dmat X :=
  mkDm (dm_vals new) (dm_rows new) (dm_cols new) (dm_roff new) (dm_rmax new) (dm_coff new) (dm_cmax new) (dm_tr new).
Definition import_dm_into (real : bool) (old : dmat F) (f : tfile T) : res (dmat F) :=
  m <- import_dm F T parseT real f ;; Ok (dm_assign old m).
(* scratch vectors of a Real dense matrix after Import: those of the new object *)
Definition import_dm_tmps (old : tmps) (m : dmat F) : tmps := (Some (dm_rows m), Some (dm_cols m)).

Definition import_sv_into (old : svec F) (f : tfile T) : res (svec F) :=
  v <- import_sv F T nz parseT parseI f ;; Ok (sv_assign old v).

Definition sm_assign {X} (old new : smat X) : smat X :=
  mkSm (sm_vals new) (sm_rows new) (sm_cols new) (sm_roff new) (sm_rmax new) (sm_coff new) (sm_cmax new).
Definition import_sm_into (old : smat F) (f : tfile T) : res (smat F) :=
  m <- import_sm F T nz parseT parseI f ;; Ok (sm_assign old m).
Definition import_sm_tmps (old : tmps) (m : smat F) : tmps := (Some (sm_rows m), Some (sm_cols m)).
End TableRecv.

(* ---------------------------------------------------------------- the struct declarations this model knows *)
(* container kind -> names of the fields of the Go struct, in declaration order.  Every name is accounted for:
     values rows cols rowOffset rowMax colOffset colMax transposed   = the fields of dmat / smat
     tmp1 tmp2                                                        = tmps
     vectorSparseIndex values n                                       = svec (the index tree holds the keys of the map)
     Value Order Derivative Hessian N                                 = real *)
Inductive ckind : Type := CReal | CDmPlain | CDmReal | CSv | CSm.
Definition struct_fields (k : ckind) : list string :=
  match k with
  | CReal => ["Value"; "Order"; "Derivative"; "Hessian"; "N"]
  | CDmPlain => ["values"; "rows"; "cols"; "rowOffset"; "rowMax"; "colOffset"; "colMax"; "transposed"]
  | CDmReal => ["values"; "rows"; "cols"; "rowOffset"; "rowMax"; "colOffset"; "colMax"; "transposed"; "tmp1"; "tmp2"]
  | CSv => ["vectorSparseIndex"; "values"; "n"]
  | CSm => ["values"; "rows"; "cols"; "rowOffset"; "rowMax"; "colOffset"; "colMax"; "tmp1"; "tmp2"]
  end%string.
